
(** val xorb : bool -> bool -> bool **)

let xorb b1 b2 =
  if b1 then if b2 then false else true else b2

(** val negb : bool -> bool **)

let negb = function
| true -> false
| false -> true

type nat =
| O
| S of nat

(** val option_map : ('a1 -> 'a2) -> 'a1 option -> 'a2 option **)

let option_map f = function
| Some a -> Some (f a)
| None -> None

type ('a, 'b) sum =
| Inl of 'a
| Inr of 'b

(** val fst : ('a1 * 'a2) -> 'a1 **)

let fst = function
| (x, _) -> x

(** val snd : ('a1 * 'a2) -> 'a2 **)

let snd = function
| (_, y) -> y

(** val length : 'a1 list -> nat **)

let rec length = function
| [] -> O
| _ :: l' -> S (length l')

(** val app : 'a1 list -> 'a1 list -> 'a1 list **)

let rec app l m =
  match l with
  | [] -> m
  | a :: l1 -> a :: (app l1 m)

type comparison =
| Eq
| Lt
| Gt

(** val compOpp : comparison -> comparison **)

let compOpp = function
| Eq -> Eq
| Lt -> Gt
| Gt -> Lt

module Coq__1 = struct
 (** val add : nat -> nat -> nat **)
 let rec add n m =
   match n with
   | O -> m
   | S p -> S (add p m)
end
include Coq__1

(** val mul : nat -> nat -> nat **)

let rec mul n m =
  match n with
  | O -> O
  | S p -> add m (mul p m)

(** val sub : nat -> nat -> nat **)

let rec sub n m =
  match n with
  | O -> n
  | S k -> (match m with
            | O -> n
            | S l -> sub k l)

module Nat =
 struct
  (** val pred : nat -> nat **)

  let pred n = match n with
  | O -> n
  | S u -> u

  (** val sub : nat -> nat -> nat **)

  let rec sub n m =
    match n with
    | O -> n
    | S k -> (match m with
              | O -> n
              | S l -> sub k l)

  (** val eqb : nat -> nat -> bool **)

  let rec eqb n m =
    match n with
    | O -> (match m with
            | O -> true
            | S _ -> false)
    | S n' -> (match m with
               | O -> false
               | S m' -> eqb n' m')

  (** val leb : nat -> nat -> bool **)

  let rec leb n m =
    match n with
    | O -> true
    | S n' -> (match m with
               | O -> false
               | S m' -> leb n' m')

  (** val ltb : nat -> nat -> bool **)

  let ltb n m =
    leb (S n) m

  (** val min : nat -> nat -> nat **)

  let rec min n m =
    match n with
    | O -> O
    | S n' -> (match m with
               | O -> O
               | S m' -> S (min n' m'))

  (** val divmod : nat -> nat -> nat -> nat -> nat * nat **)

  let rec divmod x y q u =
    match x with
    | O -> (q, u)
    | S x' ->
      (match u with
       | O -> divmod x' y (S q) y
       | S u' -> divmod x' y q u')

  (** val div : nat -> nat -> nat **)

  let div x y = match y with
  | O -> y
  | S y' -> fst (divmod x y' O y')

  (** val modulo : nat -> nat -> nat **)

  let modulo x = function
  | O -> x
  | S y' -> sub y' (snd (divmod x y' O y'))
 end

(** val tl : 'a1 list -> 'a1 list **)

let tl = function
| [] -> []
| _ :: m -> m

(** val nth : nat -> 'a1 list -> 'a1 -> 'a1 **)

let rec nth n l default =
  match n with
  | O -> (match l with
          | [] -> default
          | x :: _ -> x)
  | S m -> (match l with
            | [] -> default
            | _ :: t0 -> nth m t0 default)

(** val nth_error : 'a1 list -> nat -> 'a1 option **)

let rec nth_error l = function
| O -> (match l with
        | [] -> None
        | x :: _ -> Some x)
| S n0 -> (match l with
           | [] -> None
           | _ :: l0 -> nth_error l0 n0)

(** val last : 'a1 list -> 'a1 -> 'a1 **)

let rec last l d =
  match l with
  | [] -> d
  | a :: l0 -> (match l0 with
                | [] -> a
                | _ :: _ -> last l0 d)

(** val removelast : 'a1 list -> 'a1 list **)

let rec removelast = function
| [] -> []
| a :: l0 -> (match l0 with
              | [] -> []
              | _ :: _ -> a :: (removelast l0))

(** val rev : 'a1 list -> 'a1 list **)

let rec rev = function
| [] -> []
| x :: l' -> app (rev l') (x :: [])

(** val rev_append : 'a1 list -> 'a1 list -> 'a1 list **)

let rec rev_append l l' =
  match l with
  | [] -> l'
  | a :: l0 -> rev_append l0 (a :: l')

(** val concat : 'a1 list list -> 'a1 list **)

let rec concat = function
| [] -> []
| x :: l0 -> app x (concat l0)

(** val map : ('a1 -> 'a2) -> 'a1 list -> 'a2 list **)

let rec map f = function
| [] -> []
| a :: t0 -> (f a) :: (map f t0)

(** val flat_map : ('a1 -> 'a2 list) -> 'a1 list -> 'a2 list **)

let rec flat_map f = function
| [] -> []
| x :: t0 -> app (f x) (flat_map f t0)

(** val fold_left : ('a1 -> 'a2 -> 'a1) -> 'a2 list -> 'a1 -> 'a1 **)

let rec fold_left f l a0 =
  match l with
  | [] -> a0
  | b :: t0 -> fold_left f t0 (f a0 b)

(** val fold_right : ('a2 -> 'a1 -> 'a1) -> 'a1 -> 'a2 list -> 'a1 **)

let rec fold_right f a0 = function
| [] -> a0
| b :: t0 -> f b (fold_right f a0 t0)

(** val existsb : ('a1 -> bool) -> 'a1 list -> bool **)

let rec existsb f = function
| [] -> false
| a :: l0 -> (||) (f a) (existsb f l0)

(** val forallb : ('a1 -> bool) -> 'a1 list -> bool **)

let rec forallb f = function
| [] -> true
| a :: l0 -> (&&) (f a) (forallb f l0)

(** val filter : ('a1 -> bool) -> 'a1 list -> 'a1 list **)

let rec filter f = function
| [] -> []
| x :: l0 -> if f x then x :: (filter f l0) else filter f l0

(** val combine : 'a1 list -> 'a2 list -> ('a1 * 'a2) list **)

let rec combine l l' =
  match l with
  | [] -> []
  | x :: tl0 ->
    (match l' with
     | [] -> []
     | y :: tl' -> (x, y) :: (combine tl0 tl'))

(** val firstn : nat -> 'a1 list -> 'a1 list **)

let rec firstn n l =
  match n with
  | O -> []
  | S n0 -> (match l with
             | [] -> []
             | a :: l0 -> a :: (firstn n0 l0))

(** val skipn : nat -> 'a1 list -> 'a1 list **)

let rec skipn n l =
  match n with
  | O -> l
  | S n0 -> (match l with
             | [] -> []
             | _ :: l0 -> skipn n0 l0)

(** val seq : nat -> nat -> nat list **)

let rec seq start = function
| O -> []
| S len0 -> start :: (seq (S start) len0)

(** val repeat : 'a1 -> nat -> 'a1 list **)

let rec repeat x = function
| O -> []
| S k -> x :: (repeat x k)

type positive =
| XI of positive
| XO of positive
| XH

type z =
| Z0
| Zpos of positive
| Zneg of positive

module Pos =
 struct
  (** val succ : positive -> positive **)

  let rec succ = function
  | XI p -> XO (succ p)
  | XO p -> XI p
  | XH -> XO XH

  (** val add : positive -> positive -> positive **)

  let rec add x y =
    match x with
    | XI p ->
      (match y with
       | XI q -> XO (add_carry p q)
       | XO q -> XI (add p q)
       | XH -> XO (succ p))
    | XO p ->
      (match y with
       | XI q -> XI (add p q)
       | XO q -> XO (add p q)
       | XH -> XI p)
    | XH -> (match y with
             | XI q -> XO (succ q)
             | XO q -> XI q
             | XH -> XO XH)

  (** val add_carry : positive -> positive -> positive **)

  and add_carry x y =
    match x with
    | XI p ->
      (match y with
       | XI q -> XI (add_carry p q)
       | XO q -> XO (add_carry p q)
       | XH -> XI (succ p))
    | XO p ->
      (match y with
       | XI q -> XO (add_carry p q)
       | XO q -> XI (add p q)
       | XH -> XO (succ p))
    | XH ->
      (match y with
       | XI q -> XI (succ q)
       | XO q -> XO (succ q)
       | XH -> XI XH)

  (** val pred_double : positive -> positive **)

  let rec pred_double = function
  | XI p -> XI (XO p)
  | XO p -> XI (pred_double p)
  | XH -> XH

  (** val mul : positive -> positive -> positive **)

  let rec mul x y =
    match x with
    | XI p -> add y (XO (mul p y))
    | XO p -> XO (mul p y)
    | XH -> y

  (** val size_nat : positive -> nat **)

  let rec size_nat = function
  | XI p0 -> S (size_nat p0)
  | XO p0 -> S (size_nat p0)
  | XH -> S O

  (** val size : positive -> positive **)

  let rec size = function
  | XI p0 -> succ (size p0)
  | XO p0 -> succ (size p0)
  | XH -> XH

  (** val compare_cont : comparison -> positive -> positive -> comparison **)

  let rec compare_cont r x y =
    match x with
    | XI p ->
      (match y with
       | XI q -> compare_cont r p q
       | XO q -> compare_cont Gt p q
       | XH -> Gt)
    | XO p ->
      (match y with
       | XI q -> compare_cont Lt p q
       | XO q -> compare_cont r p q
       | XH -> Gt)
    | XH -> (match y with
             | XH -> r
             | _ -> Lt)

  (** val compare : positive -> positive -> comparison **)

  let compare =
    compare_cont Eq

  (** val eqb : positive -> positive -> bool **)

  let rec eqb p q =
    match p with
    | XI p0 -> (match q with
                | XI q0 -> eqb p0 q0
                | _ -> false)
    | XO p0 -> (match q with
                | XO q0 -> eqb p0 q0
                | _ -> false)
    | XH -> (match q with
             | XH -> true
             | _ -> false)

  (** val iter_op : ('a1 -> 'a1 -> 'a1) -> positive -> 'a1 -> 'a1 **)

  let rec iter_op op p a =
    match p with
    | XI p0 -> op a (iter_op op p0 (op a a))
    | XO p0 -> iter_op op p0 (op a a)
    | XH -> a

  (** val to_nat : positive -> nat **)

  let to_nat x =
    iter_op Coq__1.add x (S O)

  (** val of_succ_nat : nat -> positive **)

  let rec of_succ_nat = function
  | O -> XH
  | S x -> succ (of_succ_nat x)
 end

module Z =
 struct
  (** val double : z -> z **)

  let double = function
  | Z0 -> Z0
  | Zpos p -> Zpos (XO p)
  | Zneg p -> Zneg (XO p)

  (** val succ_double : z -> z **)

  let succ_double = function
  | Z0 -> Zpos XH
  | Zpos p -> Zpos (XI p)
  | Zneg p -> Zneg (Pos.pred_double p)

  (** val pred_double : z -> z **)

  let pred_double = function
  | Z0 -> Zneg XH
  | Zpos p -> Zpos (Pos.pred_double p)
  | Zneg p -> Zneg (XI p)

  (** val pos_sub : positive -> positive -> z **)

  let rec pos_sub x y =
    match x with
    | XI p ->
      (match y with
       | XI q -> double (pos_sub p q)
       | XO q -> succ_double (pos_sub p q)
       | XH -> Zpos (XO p))
    | XO p ->
      (match y with
       | XI q -> pred_double (pos_sub p q)
       | XO q -> double (pos_sub p q)
       | XH -> Zpos (Pos.pred_double p))
    | XH ->
      (match y with
       | XI q -> Zneg (XO q)
       | XO q -> Zneg (Pos.pred_double q)
       | XH -> Z0)

  (** val add : z -> z -> z **)

  let add x y =
    match x with
    | Z0 -> y
    | Zpos x' ->
      (match y with
       | Z0 -> x
       | Zpos y' -> Zpos (Pos.add x' y')
       | Zneg y' -> pos_sub x' y')
    | Zneg x' ->
      (match y with
       | Z0 -> x
       | Zpos y' -> pos_sub y' x'
       | Zneg y' -> Zneg (Pos.add x' y'))

  (** val opp : z -> z **)

  let opp = function
  | Z0 -> Z0
  | Zpos x0 -> Zneg x0
  | Zneg x0 -> Zpos x0

  (** val sub : z -> z -> z **)

  let sub m n =
    add m (opp n)

  (** val mul : z -> z -> z **)

  let mul x y =
    match x with
    | Z0 -> Z0
    | Zpos x' ->
      (match y with
       | Z0 -> Z0
       | Zpos y' -> Zpos (Pos.mul x' y')
       | Zneg y' -> Zneg (Pos.mul x' y'))
    | Zneg x' ->
      (match y with
       | Z0 -> Z0
       | Zpos y' -> Zneg (Pos.mul x' y')
       | Zneg y' -> Zpos (Pos.mul x' y'))

  (** val compare : z -> z -> comparison **)

  let compare x y =
    match x with
    | Z0 -> (match y with
             | Z0 -> Eq
             | Zpos _ -> Lt
             | Zneg _ -> Gt)
    | Zpos x' -> (match y with
                  | Zpos y' -> Pos.compare x' y'
                  | _ -> Gt)
    | Zneg x' ->
      (match y with
       | Zneg y' -> compOpp (Pos.compare x' y')
       | _ -> Lt)

  (** val leb : z -> z -> bool **)

  let leb x y =
    match compare x y with
    | Gt -> false
    | _ -> true

  (** val ltb : z -> z -> bool **)

  let ltb x y =
    match compare x y with
    | Lt -> true
    | _ -> false

  (** val eqb : z -> z -> bool **)

  let eqb x y =
    match x with
    | Z0 -> (match y with
             | Z0 -> true
             | _ -> false)
    | Zpos p -> (match y with
                 | Zpos q -> Pos.eqb p q
                 | _ -> false)
    | Zneg p -> (match y with
                 | Zneg q -> Pos.eqb p q
                 | _ -> false)

  (** val max : z -> z -> z **)

  let max n m =
    match compare n m with
    | Lt -> m
    | _ -> n

  (** val min : z -> z -> z **)

  let min n m =
    match compare n m with
    | Gt -> m
    | _ -> n

  (** val to_nat : z -> nat **)

  let to_nat = function
  | Zpos p -> Pos.to_nat p
  | _ -> O

  (** val of_nat : nat -> z **)

  let of_nat = function
  | O -> Z0
  | S n0 -> Zpos (Pos.of_succ_nat n0)

  (** val pos_div_eucl : positive -> z -> z * z **)

  let rec pos_div_eucl a b =
    match a with
    | XI a' ->
      let (q, r) = pos_div_eucl a' b in
      let r' = add (mul (Zpos (XO XH)) r) (Zpos XH) in
      if ltb r' b
      then ((mul (Zpos (XO XH)) q), r')
      else ((add (mul (Zpos (XO XH)) q) (Zpos XH)), (sub r' b))
    | XO a' ->
      let (q, r) = pos_div_eucl a' b in
      let r' = mul (Zpos (XO XH)) r in
      if ltb r' b
      then ((mul (Zpos (XO XH)) q), r')
      else ((add (mul (Zpos (XO XH)) q) (Zpos XH)), (sub r' b))
    | XH -> if leb (Zpos (XO XH)) b then (Z0, (Zpos XH)) else ((Zpos XH), Z0)

  (** val div_eucl : z -> z -> z * z **)

  let div_eucl a b =
    match a with
    | Z0 -> (Z0, Z0)
    | Zpos a' ->
      (match b with
       | Z0 -> (Z0, a)
       | Zpos _ -> pos_div_eucl a' b
       | Zneg b' ->
         let (q, r) = pos_div_eucl a' (Zpos b') in
         (match r with
          | Z0 -> ((opp q), Z0)
          | _ -> ((opp (add q (Zpos XH))), (add b r))))
    | Zneg a' ->
      (match b with
       | Z0 -> (Z0, a)
       | Zpos _ ->
         let (q, r) = pos_div_eucl a' b in
         (match r with
          | Z0 -> ((opp q), Z0)
          | _ -> ((opp (add q (Zpos XH))), (sub b r)))
       | Zneg b' -> let (q, r) = pos_div_eucl a' (Zpos b') in (q, (opp r)))

  (** val div : z -> z -> z **)

  let div a b =
    let (q, _) = div_eucl a b in q

  (** val modulo : z -> z -> z **)

  let modulo a b =
    let (_, r) = div_eucl a b in r

  (** val log2 : z -> z **)

  let log2 = function
  | Zpos p0 ->
    (match p0 with
     | XI p -> Zpos (Pos.size p)
     | XO p -> Zpos (Pos.size p)
     | XH -> Z0)
  | _ -> Z0
 end

type err =
| OutOfRange
| OutOfFuel
| BadInput
| Panic

type 'a res =
| Ok of 'a
| Err of err

(** val bind : 'a1 res -> ('a1 -> 'a2 res) -> 'a2 res **)

let bind r f =
  match r with
  | Ok a -> f a
  | Err e -> Err e

(** val get : 'a1 list -> nat -> 'a1 res **)

let rec get l n =
  match l with
  | [] -> Err OutOfRange
  | x :: t0 -> (match n with
                | O -> Ok x
                | S n0 -> get t0 n0)

(** val set_nth : 'a1 list -> nat -> 'a1 -> 'a1 list res **)

let rec set_nth l n v =
  match l with
  | [] -> Err OutOfRange
  | x :: t0 ->
    (match n with
     | O -> Ok (v :: t0)
     | S n0 -> bind (set_nth t0 n0 v) (fun t' -> Ok (x :: t')))

type str = z list

(** val str_eqb : str -> str -> bool **)

let rec str_eqb a b =
  match a with
  | [] -> (match b with
           | [] -> true
           | _ :: _ -> false)
  | x :: a0 ->
    (match b with
     | [] -> false
     | y :: b0 -> (&&) (Z.eqb x y) (str_eqb a0 b0))

(** val last_n : nat -> 'a1 list -> 'a1 list **)

let last_n n l =
  skipn (sub (length l) n) l

(** val nonemptyb : 'a1 list -> bool **)

let nonemptyb = function
| [] -> false
| _ :: _ -> true

(** val drop_while : ('a1 -> bool) -> 'a1 list -> 'a1 list **)

let rec drop_while p l = match l with
| [] -> []
| x :: t0 -> if p x then drop_while p t0 else l

(** val concat_map_sep : z -> str list -> str **)

let rec concat_map_sep sep0 = function
| [] -> []
| l :: r ->
  (match r with
   | [] -> l
   | _ :: _ -> app l (sep0 :: (concat_map_sep sep0 r)))

type val0 =
| VI of z
| VL of val0 list

(** val vnat : nat -> val0 **)

let vnat n =
  VI (Z.of_nat n)

(** val vbool : bool -> val0 **)

let vbool b =
  VI (if b then Zpos XH else Z0)

(** val vstr : str -> val0 **)

let vstr s =
  VL (map (fun x -> VI x) s)

(** val vstrs : str list -> val0 **)

let vstrs l =
  VL (map vstr l)

(** val verr : val0 **)

let verr =
  VL ((VI (Zneg XH)) :: ((VI (Zneg XH)) :: ((VI (Zneg XH)) :: [])))

(** val as_int : val0 -> z **)

let as_int = function
| VI z0 -> z0
| VL _ -> Z0

(** val as_nat : val0 -> nat **)

let as_nat v =
  Z.to_nat (as_int v)

(** val as_bool : val0 -> bool **)

let as_bool v =
  negb (Z.eqb (as_int v) Z0)

(** val as_list : val0 -> val0 list **)

let as_list = function
| VI _ -> []
| VL l -> l

(** val as_str : val0 -> str **)

let as_str v =
  map as_int (as_list v)

(** val as_strs : val0 -> str list **)

let as_strs v =
  map as_str (as_list v)

(** val arg : val0 -> nat -> val0 **)

let arg v n =
  nth n (as_list v) (VI Z0)

type char_ops = { co_lower : (z -> z); co_class : (z -> z);
                  co_norm : (z -> z); co_space : (z -> bool) }

(** val cWhite : z **)

let cWhite =
  Z0

(** val cNonWord : z **)

let cNonWord =
  Zpos XH

(** val cDelim : z **)

let cDelim =
  Zpos (XO XH)

(** val cLower : z **)

let cLower =
  Zpos (XI XH)

(** val cUpper : z **)

let cUpper =
  Zpos (XO (XO XH))

(** val cNumber : z **)

let cNumber =
  Zpos (XO (XI XH))

type scheme = { s_bw : z; s_bd : z; s_delims : z list; s_init : z }

(** val scheme_default : scheme **)

let scheme_default =
  { s_bw = (Zpos (XO (XI (XO XH)))); s_bd = (Zpos (XI (XO (XO XH))));
    s_delims = ((Zpos (XI (XI (XI (XI (XO XH)))))) :: ((Zpos (XO (XO (XI (XI
    (XO XH)))))) :: ((Zpos (XO (XI (XO (XI (XI XH)))))) :: ((Zpos (XI (XI (XO
    (XI (XI XH)))))) :: ((Zpos (XO (XO (XI (XI (XI (XI XH))))))) :: [])))));
    s_init = cWhite }

(** val scheme_path : scheme **)

let scheme_path =
  { s_bw = (Zpos (XO (XO (XO XH)))); s_bd = (Zpos (XI (XO (XO XH))));
    s_delims = ((Zpos (XI (XI (XI (XI (XO XH)))))) :: []); s_init = cDelim }

(** val scheme_history : scheme **)

let scheme_history =
  { s_bw = (Zpos (XO (XO (XO XH)))); s_bd = (Zpos (XO (XO (XO XH))));
    s_delims = ((Zpos (XI (XI (XI (XI (XO XH)))))) :: ((Zpos (XO (XO (XI (XI
    (XO XH)))))) :: ((Zpos (XO (XI (XO (XI (XI XH)))))) :: ((Zpos (XI (XI (XO
    (XI (XI XH)))))) :: ((Zpos (XO (XO (XI (XI (XI (XI XH))))))) :: [])))));
    s_init = cWhite }

(** val scoreMatch : z **)

let scoreMatch =
  Zpos (XO (XO (XO (XO XH))))

(** val scoreGapStart : z **)

let scoreGapStart =
  Zneg (XI XH)

(** val scoreGapExt : z **)

let scoreGapExt =
  Zneg XH

(** val bonusBoundary : z **)

let bonusBoundary =
  Zpos (XO (XO (XO XH)))

(** val bonusNonWord : z **)

let bonusNonWord =
  Zpos (XO (XO (XO XH)))

(** val bonusCamel : z **)

let bonusCamel =
  Zpos (XI (XI XH))

(** val bonusConsecutive : z **)

let bonusConsecutive =
  Zpos (XO (XO XH))

(** val mem : z -> z list -> bool **)

let mem c l =
  existsb (Z.eqb c) l

(** val ascii_white : z -> bool **)

let ascii_white c =
  mem c ((Zpos (XO (XO (XO (XO (XO XH)))))) :: ((Zpos (XI (XO (XO
    XH)))) :: ((Zpos (XO (XI (XO XH)))) :: ((Zpos (XI (XI (XO
    XH)))) :: ((Zpos (XO (XO (XI XH)))) :: ((Zpos (XI (XO (XI
    XH)))) :: []))))))

(** val ascii_class : scheme -> z -> z **)

let ascii_class sc c =
  if (&&) (Z.leb (Zpos (XI (XO (XO (XO (XO (XI XH))))))) c)
       (Z.leb c (Zpos (XO (XI (XO (XI (XI (XI XH))))))))
  then cLower
  else if (&&) (Z.leb (Zpos (XI (XO (XO (XO (XO (XO XH))))))) c)
            (Z.leb c (Zpos (XO (XI (XO (XI (XI (XO XH))))))))
       then cUpper
       else if (&&) (Z.leb (Zpos (XO (XO (XO (XO (XI XH)))))) c)
                 (Z.leb c (Zpos (XI (XO (XO (XI (XI XH)))))))
            then cNumber
            else if ascii_white c
                 then cWhite
                 else if mem c sc.s_delims then cDelim else cNonWord

(** val class_of : char_ops -> scheme -> z -> z **)

let class_of co sc c =
  if Z.leb c (Zpos (XI (XI (XI (XI (XI (XI XH)))))))
  then ascii_class sc c
  else co.co_class c

(** val is_space : char_ops -> z -> bool **)

let is_space co c =
  if Z.leb c (Zpos (XI (XI (XI (XI (XI (XI XH)))))))
  then ascii_white c
  else co.co_space c

(** val bonus_for : scheme -> z -> z -> z **)

let bonus_for sc prev cur =
  if (&&) (Z.ltb cNonWord cur) (Z.eqb prev cWhite)
  then sc.s_bw
  else if (&&) (Z.ltb cNonWord cur) (Z.eqb prev cDelim)
       then sc.s_bd
       else if (&&) (Z.ltb cNonWord cur) (Z.eqb prev cNonWord)
            then bonusBoundary
            else if (||) ((&&) (Z.eqb prev cLower) (Z.eqb cur cUpper))
                      ((&&) (negb (Z.eqb prev cNumber)) (Z.eqb cur cNumber))
                 then bonusCamel
                 else if (||) (Z.eqb cur cNonWord) (Z.eqb cur cDelim)
                      then bonusNonWord
                      else if Z.eqb cur cWhite then sc.s_bw else Z0

(** val lower1 : char_ops -> z -> z **)

let lower1 co c =
  if (&&) (Z.leb (Zpos (XI (XO (XO (XO (XO (XO XH))))))) c)
       (Z.leb c (Zpos (XO (XI (XO (XI (XI (XO XH))))))))
  then Z.add c (Zpos (XO (XO (XO (XO (XO XH))))))
  else if Z.ltb (Zpos (XI (XI (XI (XI (XI (XI XH))))))) c
       then co.co_lower c
       else c

(** val fold : char_ops -> bool -> bool -> z -> z **)

let fold co cs nm c =
  let c0 = if cs then c else lower1 co c in if nm then co.co_norm c0 else c0

(** val witness_from :
    char_ops -> bool -> bool -> z list -> nat -> z list -> nat list -> bool **)

let rec witness_from co cs nm text lo pat pos =
  match pat with
  | [] -> (match pos with
           | [] -> true
           | _ :: _ -> false)
  | p :: pat' ->
    (match pos with
     | [] -> false
     | i :: pos' ->
       (&&) (Nat.leb lo i)
         (match nth_error text i with
          | Some c ->
            (&&) (Z.eqb (fold co cs nm c) p)
              (witness_from co cs nm text (S i) pat' pos')
          | None -> false))

(** val witness :
    char_ops -> bool -> bool -> z list -> z list -> nat list -> bool **)

let witness co cs nm text pat pos =
  witness_from co cs nm text O pat pos

(** val subseq_b : char_ops -> bool -> bool -> z list -> z list -> bool **)

let rec subseq_b co cs nm text pat = match pat with
| [] -> true
| p :: pat' ->
  (match text with
   | [] -> false
   | c :: text' ->
     if Z.eqb (fold co cs nm c) p
     then subseq_b co cs nm text' pat'
     else subseq_b co cs nm text' pat)

(** val prefix_b : char_ops -> bool -> bool -> z list -> z list -> bool **)

let rec prefix_b co cs nm text = function
| [] -> true
| p :: pat' ->
  (match text with
   | [] -> false
   | c :: t' -> (&&) (Z.eqb (fold co cs nm c) p) (prefix_b co cs nm t' pat'))

(** val occurs_at :
    char_ops -> bool -> bool -> z list -> z list -> nat -> bool **)

let occurs_at co cs nm text pat s =
  prefix_b co cs nm (skipn s text) pat

(** val edge_class : char_ops -> scheme -> z -> bool **)

let edge_class co sc c =
  Z.leb (class_of co sc c) cDelim

(** val left_ok : char_ops -> scheme -> z list -> nat -> bool **)

let left_ok co sc text = function
| O -> true
| S s' ->
  (match nth_error text s' with
   | Some c -> edge_class co sc c
   | None -> false)

(** val right_ok : char_ops -> scheme -> z list -> nat -> bool **)

let right_ok co sc text e =
  match nth_error text e with
  | Some c -> edge_class co sc c
  | None -> true

(** val boundary_at :
    char_ops -> scheme -> bool -> bool -> z list -> z list -> nat -> bool **)

let boundary_at co sc cs nm text pat s =
  (&&) ((&&) (occurs_at co cs nm text pat s) (left_ok co sc text s))
    (right_ok co sc text (add s (length pat)))

(** val count_while : (z -> bool) -> z list -> nat **)

let rec count_while p = function
| [] -> O
| c :: r -> if p c then S (count_while p r) else O

(** val lead_ws : char_ops -> z list -> nat **)

let lead_ws co text =
  count_while (is_space co) text

(** val trail_ws : char_ops -> z list -> nat **)

let trail_ws co text =
  count_while (is_space co) (rev text)

(** val exists_upto : (nat -> bool) -> nat -> bool **)

let rec exists_upto f n = match n with
| O -> f O
| S n' -> (||) (f n) (exists_upto f n')

(** val substr_b : char_ops -> bool -> bool -> z list -> z list -> bool **)

let substr_b co cs nm text pat =
  exists_upto (occurs_at co cs nm text pat) (length text)

(** val boundary_substr_b :
    char_ops -> scheme -> bool -> bool -> z list -> z list -> bool **)

let boundary_substr_b co sc cs nm text pat =
  exists_upto (boundary_at co sc cs nm text pat) (length text)

(** val head_space : char_ops -> z list -> bool **)

let head_space co = function
| [] -> false
| c :: _ -> is_space co c

(** val last_space : char_ops -> z list -> bool **)

let last_space co p =
  head_space co (rev p)

(** val prefix_spec :
    char_ops -> bool -> bool -> z list -> z list -> nat option **)

let prefix_spec co cs nm text pat =
  let s = if head_space co pat then O else lead_ws co text in
  if occurs_at co cs nm text pat s then Some s else None

(** val suffix_spec :
    char_ops -> bool -> bool -> z list -> z list -> nat option **)

let suffix_spec co cs nm text pat =
  let e =
    if last_space co pat
    then length text
    else sub (length text) (trail_ws co text)
  in
  if (&&) (Nat.leb (length pat) e)
       (occurs_at co cs nm text pat (sub e (length pat)))
  then Some (sub e (length pat))
  else None

(** val equal_spec :
    char_ops -> bool -> bool -> z list -> z list -> nat option **)

let equal_spec co cs nm text pat =
  let s = if head_space co pat then O else lead_ws co text in
  let te = if last_space co pat then O else trail_ws co text in
  if (&&) (Nat.eqb (add (add s (length pat)) te) (length text))
       (occurs_at co cs nm text pat s)
  then Some s
  else None

(** val class_before : char_ops -> scheme -> z list -> nat -> z **)

let class_before co sc text = function
| O -> sc.s_init
| S j ->
  (match nth_error text j with
   | Some c -> class_of co sc c
   | None -> sc.s_init)

(** val bonus_at : char_ops -> scheme -> z list -> nat -> z **)

let bonus_at co sc text i =
  match nth_error text i with
  | Some c -> bonus_for sc (class_before co sc text i) (class_of co sc c)
  | None -> Z0

(** val align_walk :
    char_ops -> scheme -> z list -> nat -> nat -> nat list -> bool -> bool ->
    nat -> z -> z -> z **)

let rec align_walk co sc text i n pos first inGap consecutive firstBonus score =
  match n with
  | O -> score
  | S n' ->
    (match pos with
     | [] -> score
     | p :: pos' ->
       if Nat.eqb i p
       then let b = bonus_at co sc text i in
            let fb =
              if Nat.eqb consecutive O
              then b
              else if (&&) (Z.leb bonusBoundary b) (Z.ltb firstBonus b)
                   then b
                   else firstBonus
            in
            let b' =
              if Nat.eqb consecutive O
              then b
              else Z.max (Z.max b fb) bonusConsecutive
            in
            let score0 =
              Z.add (Z.add score scoreMatch)
                (if first then Z.mul (Zpos (XO XH)) b' else b')
            in
            align_walk co sc text (S i) n' pos' false false (S consecutive)
              fb score0
       else let score0 =
              Z.add score (if inGap then scoreGapExt else scoreGapStart)
            in
            align_walk co sc text (S i) n' pos false true O Z0 score0)

(** val align_score : char_ops -> scheme -> z list -> nat list -> z **)

let align_score co sc text pos = match pos with
| [] -> Z0
| p0 :: _ ->
  align_walk co sc text p0 (sub (S (last pos O)) p0) pos true false O Z0 Z0

type cell = { c_h : z option; c_cons : z; c_gap : bool }

(** val opt_add : z option -> z -> z option **)

let opt_add o d =
  match o with
  | Some z0 -> Some (Z.add z0 d)
  | None -> None

(** val dp_row0 :
    char_ops -> scheme -> bool -> bool -> z list -> z -> nat -> z list -> z
    option -> bool -> cell list **)

let rec dp_row0 co sc cs nm text p0 j full prev inGap =
  match text with
  | [] -> []
  | c :: rest ->
    if Z.eqb (fold co cs nm c) p0
    then let h =
           Z.add scoreMatch (Z.mul (Zpos (XO XH)) (bonus_at co sc full j))
         in
         { c_h = (Some h); c_cons = (Zpos XH); c_gap =
         false } :: (dp_row0 co sc cs nm rest p0 (S j) full (Some h) false)
    else let h =
           match prev with
           | Some z0 ->
             Some
               (Z.max
                 (Z.add z0 (if inGap then scoreGapExt else scoreGapStart)) Z0)
           | None -> None
         in
         { c_h = h; c_cons = Z0; c_gap =
         true } :: (dp_row0 co sc cs nm rest p0 (S j) full h true)

(** val none_cell : cell **)

let none_cell =
  { c_h = None; c_cons = Z0; c_gap = false }

(** val dp_row :
    char_ops -> scheme -> bool -> bool -> z list -> z -> nat -> z list ->
    cell list -> cell -> cell -> cell list **)

let rec dp_row co sc cs nm text p j full prow diag left =
  match text with
  | [] -> []
  | c :: rest ->
    let s2 =
      opt_add left.c_h (if left.c_gap then scoreGapExt else scoreGapStart)
    in
    let m =
      if Z.eqb (fold co cs nm c) p
      then (match diag.c_h with
            | Some d ->
              let s1 = Z.add d scoreMatch in
              let b = bonus_at co sc full j in
              let cn = Z.add diag.c_cons (Zpos XH) in
              let bc =
                if Z.ltb (Zpos XH) cn
                then let fb =
                       bonus_at co sc full (sub (add j (S O)) (Z.to_nat cn))
                     in
                     if (&&) (Z.leb bonusBoundary b) (Z.ltb fb b)
                     then (b, (Zpos XH))
                     else ((Z.max b (Z.max bonusConsecutive fb)), cn)
                else (b, cn)
              in
              (match s2 with
               | Some g ->
                 if Z.ltb (Z.add s1 (fst bc)) g
                 then Some ((Z.add s1 b), Z0)
                 else Some ((Z.add s1 (fst bc)), (snd bc))
               | None -> Some ((Z.add s1 (fst bc)), (snd bc)))
            | None -> None)
      else None
    in
    let cellv =
      match m with
      | Some p0 ->
        let (s1, cn) = p0 in
        (match s2 with
         | Some g ->
           { c_h = (Some (Z.max (Z.max s1 g) Z0)); c_cons = cn; c_gap =
             (Z.ltb s1 g) }
         | None -> { c_h = (Some (Z.max s1 Z0)); c_cons = cn; c_gap = false })
      | None ->
        (match s2 with
         | Some g ->
           { c_h = (Some (Z.max g Z0)); c_cons = Z0; c_gap = (Z.ltb Z0 g) }
         | None -> none_cell)
    in
    let diag' = match prow with
                | [] -> none_cell
                | d :: _ -> d in
    cellv :: (dp_row co sc cs nm rest p (S j) full (tl prow) diag' cellv)

(** val dp_rows :
    char_ops -> scheme -> bool -> bool -> z list -> z list -> cell list ->
    cell list **)

let rec dp_rows co sc cs nm text pat prow =
  match pat with
  | [] -> prow
  | p :: pat' ->
    dp_rows co sc cs nm text pat'
      (dp_row co sc cs nm text p O text prow none_cell none_cell)

(** val naive_last_row :
    char_ops -> scheme -> bool -> bool -> z list -> z list -> cell list **)

let naive_last_row co sc cs nm text = function
| [] -> []
| p0 :: pat' ->
  dp_rows co sc cs nm text pat'
    (dp_row0 co sc cs nm text p0 O text None false)

(** val best_cell :
    bool -> cell list -> nat -> (z * nat) option -> (z * nat) option **)

let rec best_cell fwd row j best =
  match row with
  | [] -> best
  | c :: rest ->
    let best' =
      match c.c_h with
      | Some h ->
        (match best with
         | Some p ->
           let (bh, _) = p in
           if if fwd then Z.ltb bh h else Z.leb bh h
           then Some (h, (S j))
           else best
         | None -> Some (h, (S j)))
      | None -> best
    in
    best_cell fwd rest (S j) best'

(** val naive_dp :
    char_ops -> scheme -> bool -> bool -> bool -> z list -> z list ->
    (z * nat) option **)

let naive_dp co sc cs nm fwd text pat =
  best_cell fwd (naive_last_row co sc cs nm text pat) O None

(** val equal_score : scheme -> nat -> z **)

let equal_score sc m =
  Z.add (Z.mul (Z.add scoreMatch sc.s_bw) (Z.of_nat m)) sc.s_bw

type mres =
| NoMatch
| Match of nat * nat * z * nat list option

(** val bonus_m : scheme -> z -> z -> z **)

let bonus_m =
  bonus_for

(** val foldm : char_ops -> bool -> bool -> z -> z **)

let foldm co cs nm c =
  let c0 = if cs then c else lower1 co c in if nm then co.co_norm c0 else c0

(** val bonus_at_m : char_ops -> scheme -> z list -> nat -> z res **)

let bonus_at_m co sc text idx0 = match idx0 with
| O -> Ok sc.s_bw
| S j ->
  bind (get text j) (fun a ->
    bind (get text idx0) (fun b -> Ok
      (bonus_m sc (class_of co sc a) (class_of co sc b))))

(** val index_byte : z list -> z -> nat option **)

let rec index_byte l b =
  match l with
  | [] -> None
  | c :: r ->
    if Z.eqb c b
    then Some O
    else (match index_byte r b with
          | Some i -> Some (S i)
          | None -> None)

(** val try_skip : z list -> bool -> z -> nat -> nat option res **)

let try_skip text cs b from =
  if Nat.ltb (length text) from
  then Err OutOfRange
  else let arr = skipn from text in
       let idx0 = index_byte arr b in
       (match idx0 with
        | Some n ->
          (match n with
           | O -> Ok (Some from)
           | S _ ->
             let idx1 =
               if (&&)
                    ((&&) (negb cs)
                      (Z.leb (Zpos (XI (XO (XO (XO (XO (XI XH))))))) b))
                    (Z.leb b (Zpos (XO (XI (XO (XI (XI (XI XH))))))))
               then let arr' =
                      match idx0 with
                      | Some i -> firstn i arr
                      | None -> arr
                    in
                    (match index_byte arr'
                             (Z.sub b (Zpos (XO (XO (XO (XO (XO XH))))))) with
                     | Some u -> Some u
                     | None -> idx0)
               else idx0
             in
             (match idx1 with
              | Some i -> Ok (Some (add from i))
              | None -> Ok None))
        | None ->
          let idx1 =
            if (&&)
                 ((&&) (negb cs)
                   (Z.leb (Zpos (XI (XO (XO (XO (XO (XI XH))))))) b))
                 (Z.leb b (Zpos (XO (XI (XO (XI (XI (XI XH))))))))
            then let arr' =
                   match idx0 with
                   | Some i -> firstn i arr
                   | None -> arr
                 in
                 (match index_byte arr'
                          (Z.sub b (Zpos (XO (XO (XO (XO (XO XH))))))) with
                  | Some u -> Some u
                  | None -> idx0)
            else idx0
          in
          (match idx1 with
           | Some i -> Ok (Some (add from i))
           | None -> Ok None))

(** val is_ascii : z list -> bool **)

let is_ascii p =
  forallb (fun r -> Z.ltb r (Zpos (XO (XO (XO (XO (XO (XO (XO XH))))))))) p

(** val afi_loop :
    z list -> bool -> z list -> bool -> nat -> nat -> nat -> z ->
    ((nat * nat) * z) option res **)

let rec afi_loop text cs pat first idx0 firstIdx lastIdx b =
  match pat with
  | [] -> Ok (Some ((firstIdx, lastIdx), b))
  | p :: pat' ->
    bind (try_skip text cs p idx0) (fun r ->
      match r with
      | Some i ->
        let firstIdx0 =
          if (&&) first (Nat.ltb O i) then sub i (S O) else firstIdx
        in
        afi_loop text cs pat' false (S i) firstIdx0 i p
      | None -> Ok None)

(** val last_occ : z list -> z -> z -> nat -> nat option -> nat option **)

let rec last_occ scope b bu off best =
  match scope with
  | [] -> best
  | c :: r ->
    last_occ r b bu (S off)
      (if (&&) (Nat.ltb O off) ((||) (Z.eqb c b) (Z.eqb c bu))
       then Some off
       else best)

(** val ascii_fuzzy_index :
    bool -> z list -> z list -> bool -> (nat * nat) option res **)

let ascii_fuzzy_index is_bytes text pat cs =
  if negb is_bytes
  then Ok (Some (O, (length text)))
  else if negb (is_ascii pat)
       then Ok None
       else bind (afi_loop text cs pat true O O O Z0) (fun r ->
              match r with
              | Some p ->
                let (p0, b) = p in
                let (firstIdx, lastIdx) = p0 in
                let bu =
                  if (&&)
                       ((&&) (negb cs)
                         (Z.leb (Zpos (XI (XO (XO (XO (XO (XI XH))))))) b))
                       (Z.leb b (Zpos (XO (XI (XO (XI (XI (XI XH))))))))
                  then Z.sub b (Zpos (XO (XO (XO (XO (XO XH))))))
                  else b
                in
                (match last_occ (skipn lastIdx text) b bu O None with
                 | Some off ->
                   Ok (Some (firstIdx, (add (add lastIdx off) (S O))))
                 | None -> Ok (Some (firstIdx, (add lastIdx (S O)))))
              | None -> Ok None)

(** val calc_loop :
    char_ops -> scheme -> bool -> bool -> z list -> nat -> z list -> z -> z
    -> bool -> nat -> z -> bool -> nat list -> (z * nat list) res **)

let rec calc_loop co sc cs nm t0 idx0 pat prevClass score inGap consecutive firstBonus first pos =
  match t0 with
  | [] -> Ok (score, (rev pos))
  | c :: t' ->
    let class0 = class_of co sc c in
    let ch = foldm co cs nm c in
    (match pat with
     | [] -> Err OutOfRange
     | p :: pat' ->
       if Z.eqb ch p
       then let bonus = bonus_m sc prevClass class0 in
            let firstBonus' =
              if Nat.eqb consecutive O
              then bonus
              else if (&&) (Z.leb bonusBoundary bonus)
                        (Z.ltb firstBonus bonus)
                   then bonus
                   else firstBonus
            in
            let bonus' =
              if Nat.eqb consecutive O
              then bonus
              else Z.max (Z.max bonus firstBonus') bonusConsecutive
            in
            let score0 =
              Z.add (Z.add score scoreMatch)
                (if first then Z.mul bonus' (Zpos (XO XH)) else bonus')
            in
            calc_loop co sc cs nm t' (S idx0) pat' class0 score0 false (S
              consecutive) firstBonus' false (idx0 :: pos)
       else let score0 =
              Z.add score (if inGap then scoreGapExt else scoreGapStart)
            in
            calc_loop co sc cs nm t' (S idx0) pat class0 score0 true O Z0
              first pos)

(** val calculate_score :
    char_ops -> scheme -> bool -> bool -> z list -> z list -> nat -> nat ->
    (z * nat list) res **)

let calculate_score co sc cs nm text pat sidx eidx =
  if Nat.ltb (length text) eidx
  then Err OutOfRange
  else bind
         (match sidx with
          | O -> Ok sc.s_init
          | S j -> bind (get text j) (fun a -> Ok (class_of co sc a)))
         (fun prevClass ->
         calc_loop co sc cs nm (firstn (sub eidx sidx) (skipn sidx text))
           sidx pat prevClass Z0 false O Z0 true [])

(** val v1_scan :
    char_ops -> bool -> bool -> z list -> nat -> z list -> nat option ->
    (nat * nat) option **)

let rec v1_scan co cs nm t0 index pat sidx =
  match pat with
  | [] -> None
  | p :: pat' ->
    (match t0 with
     | [] -> None
     | c :: t' ->
       if Z.eqb (foldm co cs nm c) p
       then let sidx0 = match sidx with
                        | Some _ -> sidx
                        | None -> Some index in
            (match pat' with
             | [] ->
               (match sidx0 with
                | Some s -> Some (s, (S index))
                | None -> None)
             | _ :: _ -> v1_scan co cs nm t' (S index) pat' sidx0)
       else v1_scan co cs nm t' (S index) pat sidx)

(** val v1_back :
    char_ops -> bool -> bool -> z list -> nat -> z list -> nat -> nat **)

let rec v1_back co cs nm rt index rp sidx =
  match rt with
  | [] -> sidx
  | c :: rt' ->
    (match rp with
     | [] -> sidx
     | p :: rp' ->
       if Z.eqb (foldm co cs nm c) p
       then (match rp' with
             | [] -> index
             | _ :: _ -> v1_back co cs nm rt' (sub index (S O)) rp' sidx)
       else v1_back co cs nm rt' (sub index (S O)) rp sidx)

(** val fuzzy_v1 :
    char_ops -> scheme -> bool -> bool -> bool -> bool -> z list -> z list ->
    bool -> mres res **)

let fuzzy_v1 co sc cs nm fwd is_bytes text pat withPos =
  match pat with
  | [] -> Ok (Match (O, O, Z0, None))
  | _ :: _ ->
    bind (ascii_fuzzy_index is_bytes text pat cs) (fun afi ->
      match afi with
      | Some _ ->
        let n = length text in
        let t0 = if fwd then text else rev text in
        let p = if fwd then pat else rev pat in
        (match v1_scan co cs nm t0 O p None with
         | Some p0 ->
           let (sidx, eidx) = p0 in
           let sidx0 =
             v1_back co cs nm (rev (firstn (sub eidx sidx) (skipn sidx t0)))
               (sub eidx (S O)) (rev p) sidx
           in
           if fwd
           then bind (calculate_score co sc cs nm text pat sidx0 eidx)
                  (fun sp -> Ok (Match (sidx0, eidx, (fst sp),
                  (if withPos then Some (snd sp) else None))))
           else let sidx1 = sub n eidx in
                let eidx0 = sub n sidx0 in
                bind (calculate_score co sc cs nm text pat sidx1 eidx0)
                  (fun sp -> Ok (Match (sidx1, eidx0, (fst sp),
                  (if withPos then Some (snd sp) else None))))
         | None -> Ok NoMatch)
      | None -> Ok NoMatch)

type ex_state = { ex_index : z; ex_pidx : nat; ex_bonus : z; ex_bestPos : 
                  z; ex_bestBonus : z }

(** val index_at : nat -> nat -> bool -> nat **)

let index_at index max0 = function
| true -> index
| false -> sub (sub max0 index) (S O)

(** val exact_loop :
    char_ops -> scheme -> nat -> bool -> bool -> bool -> bool -> z list -> z
    list -> ex_state -> ex_state res **)

let rec exact_loop co sc fuel cs nm fwd boundary text pat st0 =
  match fuel with
  | O -> Err OutOfFuel
  | S fuel' ->
    let n = length text in
    let m = length pat in
    if Z.leb (Z.of_nat n) st0.ex_index
    then Ok st0
    else if Z.ltb st0.ex_index Z0
         then Err OutOfRange
         else let index = Z.to_nat st0.ex_index in
              let index_ = index_at index n fwd in
              bind (get text index_) (fun c ->
                let ch = foldm co cs nm c in
                let pidx_ = index_at st0.ex_pidx m fwd in
                bind (get pat pidx_) (fun pchar ->
                  let ok0 = Z.eqb pchar ch in
                  bind
                    (if (&&) ok0 (Nat.eqb pidx_ O)
                     then bonus_at_m co sc text index_
                     else Ok st0.ex_bonus) (fun bonus ->
                    bind
                      (if (&&) ok0 boundary
                       then let ok =
                              (||) (negb (Nat.eqb pidx_ O))
                                (Z.leb bonusBoundary bonus)
                            in
                            bind
                              (if (&&) ok (Nat.eqb pidx_ O)
                               then if Nat.eqb index_ O
                                    then Ok true
                                    else bind (get text (sub index_ (S O)))
                                           (fun a -> Ok
                                           (Z.leb (class_of co sc a) cDelim))
                               else Ok ok) (fun ok1 ->
                              if (&&) ok1 (Nat.eqb pidx_ (sub m (S O)))
                              then if Nat.eqb index_ (sub n (S O))
                                   then Ok true
                                   else bind (get text (add index_ (S O)))
                                          (fun a -> Ok
                                          (Z.leb (class_of co sc a) cDelim))
                              else Ok ok1)
                       else Ok ok0) (fun ok ->
                      if ok
                      then let pidx = S st0.ex_pidx in
                           if Nat.eqb pidx m
                           then if Z.ltb st0.ex_bestBonus bonus
                                then let bestPos = st0.ex_index in
                                     if Z.leb bonusBoundary bonus
                                     then Ok { ex_index = st0.ex_index;
                                            ex_pidx = pidx; ex_bonus = bonus;
                                            ex_bestPos = bestPos;
                                            ex_bestBonus = bonus }
                                     else exact_loop co sc fuel' cs nm fwd
                                            boundary text pat { ex_index =
                                            (Z.add
                                              (Z.sub st0.ex_index
                                                (Z.sub (Z.of_nat pidx) (Zpos
                                                  XH))) (Zpos XH)); ex_pidx =
                                            O; ex_bonus = Z0; ex_bestPos =
                                            bestPos; ex_bestBonus = bonus }
                                else let bestPos = st0.ex_bestPos in
                                     let bestBonus = st0.ex_bestBonus in
                                     if Z.leb bonusBoundary bonus
                                     then Ok { ex_index = st0.ex_index;
                                            ex_pidx = pidx; ex_bonus = bonus;
                                            ex_bestPos = bestPos;
                                            ex_bestBonus = bestBonus }
                                     else exact_loop co sc fuel' cs nm fwd
                                            boundary text pat { ex_index =
                                            (Z.add
                                              (Z.sub st0.ex_index
                                                (Z.sub (Z.of_nat pidx) (Zpos
                                                  XH))) (Zpos XH)); ex_pidx =
                                            O; ex_bonus = Z0; ex_bestPos =
                                            bestPos; ex_bestBonus =
                                            bestBonus }
                           else exact_loop co sc fuel' cs nm fwd boundary
                                  text pat { ex_index =
                                  (Z.add st0.ex_index (Zpos XH)); ex_pidx =
                                  pidx; ex_bonus = bonus; ex_bestPos =
                                  st0.ex_bestPos; ex_bestBonus =
                                  st0.ex_bestBonus }
                      else exact_loop co sc fuel' cs nm fwd boundary text pat
                             { ex_index =
                             (Z.add
                               (Z.sub st0.ex_index (Z.of_nat st0.ex_pidx))
                               (Zpos XH)); ex_pidx = O; ex_bonus = Z0;
                             ex_bestPos = st0.ex_bestPos; ex_bestBonus =
                             st0.ex_bestBonus }))))

(** val exact_match :
    char_ops -> scheme -> bool -> bool -> bool -> bool -> bool -> z list -> z
    list -> mres res **)

let exact_match co sc cs nm fwd boundary is_bytes text pat = match pat with
| [] -> Ok (Match (O, O, Z0, None))
| _ :: _ ->
  let n = length text in
  let m = length pat in
  if Nat.ltb n m
  then Ok NoMatch
  else bind (ascii_fuzzy_index is_bytes text pat cs) (fun afi ->
         match afi with
         | Some _ ->
           bind
             (exact_loop co sc (S (mul n (S m))) cs nm fwd boundary text pat
               { ex_index = Z0; ex_pidx = O; ex_bonus = Z0; ex_bestPos =
               (Zneg XH); ex_bestBonus = (Zneg XH) }) (fun st0 ->
             if Z.leb Z0 st0.ex_bestPos
             then let bestPos = Z.to_nat st0.ex_bestPos in
                  if fwd
                  then let sidx = sub (add bestPos (S O)) m in
                       let eidx = add bestPos (S O) in
                       if boundary
                       then let bonus = st0.ex_bonus in
                            let deduct =
                              Z.add (Z.sub bonus bonusBoundary) (Zpos XH)
                            in
                            bind
                              (if Nat.ltb O sidx
                               then bind (get text (sub sidx (S O)))
                                      (fun a -> Ok
                                      (Z.eqb a (Zpos (XI (XI (XI (XI (XI (XO
                                        XH)))))))))
                               else Ok false) (fun u1 ->
                              let score =
                                if u1
                                then Z.sub bonus (Z.add deduct (Zpos XH))
                                else bonus
                              in
                              let deduct0 = if u1 then Zpos XH else deduct in
                              bind
                                (if Nat.ltb eidx n
                                 then bind (get text eidx) (fun a -> Ok
                                        (Z.eqb a (Zpos (XI (XI (XI (XI (XI
                                          (XO XH)))))))))
                                 else Ok false) (fun u2 ->
                                let score0 =
                                  if u2 then Z.sub score deduct0 else score
                                in
                                Ok (Match (sidx, eidx,
                                (Z.add
                                  (Z.add score0
                                    (Z.mul scoreMatch (Z.of_nat m)))
                                  (Z.mul sc.s_bw
                                    (Z.add (Z.of_nat m) (Zpos XH)))), None))))
                       else bind
                              (calculate_score co sc cs nm text pat sidx eidx)
                              (fun sp -> Ok (Match (sidx, eidx, (fst sp),
                              None)))
                  else let sidx = sub n (add bestPos (S O)) in
                       let eidx = sub n (sub (add bestPos (S O)) m) in
                       if boundary
                       then let bonus = st0.ex_bonus in
                            let deduct =
                              Z.add (Z.sub bonus bonusBoundary) (Zpos XH)
                            in
                            bind
                              (if Nat.ltb O sidx
                               then bind (get text (sub sidx (S O)))
                                      (fun a -> Ok
                                      (Z.eqb a (Zpos (XI (XI (XI (XI (XI (XO
                                        XH)))))))))
                               else Ok false) (fun u1 ->
                              let score =
                                if u1
                                then Z.sub bonus (Z.add deduct (Zpos XH))
                                else bonus
                              in
                              let deduct0 = if u1 then Zpos XH else deduct in
                              bind
                                (if Nat.ltb eidx n
                                 then bind (get text eidx) (fun a -> Ok
                                        (Z.eqb a (Zpos (XI (XI (XI (XI (XI
                                          (XO XH)))))))))
                                 else Ok false) (fun u2 ->
                                let score0 =
                                  if u2 then Z.sub score deduct0 else score
                                in
                                Ok (Match (sidx, eidx,
                                (Z.add
                                  (Z.add score0
                                    (Z.mul scoreMatch (Z.of_nat m)))
                                  (Z.mul sc.s_bw
                                    (Z.add (Z.of_nat m) (Zpos XH)))), None))))
                       else bind
                              (calculate_score co sc cs nm text pat sidx eidx)
                              (fun sp -> Ok (Match (sidx, eidx, (fst sp),
                              None)))
             else Ok NoMatch)
         | None -> Ok NoMatch)

(** val is_space_m : char_ops -> z -> bool **)

let is_space_m =
  is_space

(** val leading_ws : char_ops -> z list -> nat **)

let leading_ws co text =
  count_while (is_space_m co) text

(** val trailing_ws : char_ops -> z list -> nat **)

let trailing_ws co text =
  count_while (is_space_m co) (rev text)

(** val cmp_at :
    char_ops -> bool -> bool -> z list -> nat -> z list -> bool res **)

let rec cmp_at co cs nm text off = function
| [] -> Ok true
| p :: pat' ->
  bind (get text off) (fun c ->
    if Z.eqb (foldm co cs nm c) p
    then cmp_at co cs nm text (S off) pat'
    else Ok false)

(** val prefix_match :
    char_ops -> scheme -> bool -> bool -> z list -> z list -> mres res **)

let prefix_match co sc cs nm text pat = match pat with
| [] -> Ok (Match (O, O, Z0, None))
| p0 :: _ ->
  let tl0 = if is_space_m co p0 then O else leading_ws co text in
  if Nat.ltb (sub (length text) tl0) (length pat)
  then Ok NoMatch
  else bind (cmp_at co cs nm text tl0 pat) (fun ok ->
         if ok
         then bind
                (calculate_score co sc cs nm text pat tl0
                  (add tl0 (length pat))) (fun sp -> Ok (Match (tl0,
                (add tl0 (length pat)), (fst sp), None)))
         else Ok NoMatch)

(** val suffix_match :
    char_ops -> scheme -> bool -> bool -> z list -> z list -> mres res **)

let suffix_match co sc cs nm text pat =
  let n = length text in
  let keep = match rev pat with
             | [] -> false
             | pl :: _ -> is_space_m co pl in
  let tl0 = if keep then n else sub n (trailing_ws co text) in
  (match pat with
   | [] -> Ok (Match (tl0, tl0, Z0, None))
   | _ :: _ ->
     if Nat.ltb tl0 (length pat)
     then Ok NoMatch
     else let diff = sub tl0 (length pat) in
          bind (cmp_at co cs nm text diff pat) (fun ok ->
            if ok
            then bind (calculate_score co sc cs nm text pat diff tl0)
                   (fun sp -> Ok (Match (diff, tl0, (fst sp), None)))
            else Ok NoMatch))

(** val eq_norm : char_ops -> bool -> z list -> nat -> z list -> bool res **)

let rec eq_norm co cs text off = function
| [] -> Ok true
| p :: pat' ->
  bind (get text off) (fun c ->
    let c0 = if cs then c else lower1 co c in
    if Z.eqb (co.co_norm p) (co.co_norm c0)
    then eq_norm co cs text (S off) pat'
    else Ok false)

(** val equal_match :
    char_ops -> scheme -> bool -> bool -> z list -> z list -> mres res **)

let equal_match co sc cs nm text pat = match pat with
| [] -> Ok NoMatch
| p0 :: _ ->
  let m = length pat in
  let tl0 = if is_space_m co p0 then O else leading_ws co text in
  let te =
    match rev pat with
    | [] -> O
    | pl :: _ -> if is_space_m co pl then O else trailing_ws co text
  in
  if negb
       (Z.eqb
         (Z.sub (Z.sub (Z.of_nat (length text)) (Z.of_nat tl0)) (Z.of_nat te))
         (Z.of_nat m))
  then Ok NoMatch
  else bind
         (if nm
          then eq_norm co cs text tl0 pat
          else cmp_at co cs false text tl0 pat) (fun ok ->
         if ok
         then Ok (Match (tl0, (add tl0 m),
                (Z.add (Z.mul (Z.add scoreMatch sc.s_bw) (Z.of_nat m))
                  sc.s_bw), None))
         else Ok NoMatch)

(** val fold_v2 : char_ops -> scheme -> bool -> bool -> z -> z * z **)

let fold_v2 co sc cs nm c =
  if Z.leb c (Zpos (XI (XI (XI (XI (XI (XI XH)))))))
  then let class0 = ascii_class sc c in
       (class0,
       (if (&&) (negb cs) (Z.eqb class0 cUpper)
        then Z.add c (Zpos (XO (XO (XO (XO (XO XH))))))
        else c))
  else let class0 = co.co_class c in
       let c0 = if negb cs then co.co_lower c else c in
       (class0, (if nm then co.co_norm c0 else c0))

type p2 = { p2_T : z list; p2_B : z list; p2_H0 : z list; p2_C0 : z list;
            p2_F : nat list; p2_pidx : nat; p2_lastIdx : nat;
            p2_maxScore : z; p2_maxPos : nat }

(** val phase2 :
    char_ops -> scheme -> bool -> bool -> bool -> bool -> z list -> nat -> z
    -> z list -> z -> z -> z -> bool -> p2 -> p2 **)

let rec phase2 co sc cs nm fwd m1 w off p0 rest plast prevH0 prevClass inGap st0 =
  match w with
  | [] -> st0
  | c0 :: w' ->
    let (class0, c) = fold_v2 co sc cs nm c0 in
    let bonus = bonus_m sc prevClass class0 in
    let pchar = match rest with
                | [] -> plast
                | p :: _ -> p in
    let hit = Z.eqb c pchar in
    let f' =
      if hit
      then (match rest with
            | [] -> st0.p2_F
            | _ :: _ -> off :: st0.p2_F)
      else st0.p2_F
    in
    let pidx' =
      if hit
      then (match rest with
            | [] -> st0.p2_pidx
            | _ :: _ -> S st0.p2_pidx)
      else st0.p2_pidx
    in
    let rest' = if hit then (match rest with
                             | [] -> []
                             | _ :: r -> r) else rest
    in
    let lastIdx' = if hit then off else st0.p2_lastIdx in
    if Z.eqb c p0
    then let score = Z.add scoreMatch (Z.mul bonus (Zpos (XO XH))) in
         let better =
           (&&) m1
             (if fwd
              then Z.ltb st0.p2_maxScore score
              else Z.leb st0.p2_maxScore score)
         in
         let st' = { p2_T = (c :: st0.p2_T); p2_B = (bonus :: st0.p2_B);
           p2_H0 = (score :: st0.p2_H0); p2_C0 = ((Zpos XH) :: st0.p2_C0);
           p2_F = f'; p2_pidx = pidx'; p2_lastIdx = lastIdx'; p2_maxScore =
           (if better then score else st0.p2_maxScore); p2_maxPos =
           (if better then off else st0.p2_maxPos) }
         in
         if (&&) ((&&) better fwd) (Z.leb bonusBoundary bonus)
         then st'
         else phase2 co sc cs nm fwd m1 w' (S off) p0 rest' plast score
                class0 false st'
    else let h =
           Z.max
             (Z.add prevH0 (if inGap then scoreGapExt else scoreGapStart)) Z0
         in
         let st' = { p2_T = (c :: st0.p2_T); p2_B = (bonus :: st0.p2_B);
           p2_H0 = (h :: st0.p2_H0); p2_C0 = (Z0 :: st0.p2_C0); p2_F = f';
           p2_pidx = pidx'; p2_lastIdx = lastIdx'; p2_maxScore =
           st0.p2_maxScore; p2_maxPos = st0.p2_maxPos }
         in
         phase2 co sc cs nm fwd m1 w' (S off) p0 rest' plast h class0 true st'

type mat = z option list

(** val mget : mat -> z -> z res **)

let mget m i =
  if Z.ltb i Z0
  then Err OutOfRange
  else (match get m (Z.to_nat i) with
        | Ok a -> (match a with
                   | Some v -> Ok v
                   | None -> Err Panic)
        | Err e -> Err e)

(** val mset : mat -> z -> z -> mat res **)

let mset m i v =
  if Z.ltb i Z0 then Err OutOfRange else set_nth m (Z.to_nat i) (Some v)

(** val zget : z list -> z -> z res **)

let zget l i =
  if Z.ltb i Z0 then Err OutOfRange else get l (Z.to_nat i)

(** val p3_row :
    bool -> bool -> z list -> z list -> mat -> mat -> z -> z -> z -> z -> nat
    -> z -> bool -> z -> z -> (((mat * mat) * z) * z) res **)

let rec p3_row fwd lastrow t0 b h c row width f0 pchar n col inGap maxScore maxPos =
  match n with
  | O -> Ok (((h, c), maxScore), maxPos)
  | S n' ->
    let j0 = Z.sub col f0 in
    bind (mget h (Z.sub (Z.add row j0) (Zpos XH))) (fun hleft ->
      let s2 = Z.add hleft (if inGap then scoreGapExt else scoreGapStart) in
      bind (zget t0 col) (fun ch ->
        bind
          (if Z.eqb pchar ch
           then bind (mget h (Z.sub (Z.sub (Z.add row j0) (Zpos XH)) width))
                  (fun hdiag ->
                  bind
                    (mget c (Z.sub (Z.sub (Z.add row j0) (Zpos XH)) width))
                    (fun cdiag ->
                    bind (zget b col) (fun b0 ->
                      let s1 = Z.add hdiag scoreMatch in
                      let cn = Z.add cdiag (Zpos XH) in
                      bind
                        (if Z.ltb (Zpos XH) cn
                         then bind (zget b (Z.add (Z.sub col cn) (Zpos XH)))
                                (fun fb ->
                                if (&&) (Z.leb bonusBoundary b0) (Z.ltb fb b0)
                                then Ok (b0, (Zpos XH))
                                else Ok
                                       ((Z.max b0 (Z.max bonusConsecutive fb)),
                                       cn))
                         else Ok (b0, cn)) (fun bc ->
                        if Z.ltb (Z.add s1 (fst bc)) s2
                        then Ok ((Z.add s1 b0), Z0)
                        else Ok ((Z.add s1 (fst bc)), (snd bc))))))
           else Ok (Z0, Z0)) (fun r ->
          let s1 = fst r in
          bind (mset c (Z.add row j0) (snd r)) (fun c' ->
            let score = Z.max (Z.max s1 s2) Z0 in
            let better =
              (&&) lastrow
                (if fwd then Z.ltb maxScore score else Z.leb maxScore score)
            in
            bind (mset h (Z.add row j0) score) (fun h' ->
              p3_row fwd lastrow t0 b h' c' row width f0 pchar n'
                (Z.add col (Zpos XH)) (Z.ltb s1 s2)
                (if better then score else maxScore)
                (if better then col else maxPos))))))

(** val p3_rows :
    bool -> z list -> z list -> mat -> mat -> z -> z -> z -> nat -> nat list
    -> z list -> nat -> z -> z -> (((mat * mat) * z) * z) res **)

let rec p3_rows fwd t0 b h c width f0 lastIdx m fsub psub pidx maxScore maxPos =
  match fsub with
  | [] -> Ok (((h, c), maxScore), maxPos)
  | f :: fsub' ->
    (match psub with
     | [] -> Ok (((h, c), maxScore), maxPos)
     | pchar :: psub' ->
       let f1 = Z.of_nat f in
       let row = Z.mul (Z.of_nat pidx) width in
       bind (mset h (Z.sub (Z.sub (Z.add row f1) f0) (Zpos XH)) Z0)
         (fun h1 ->
         bind
           (p3_row fwd (Nat.eqb pidx (sub m (S O))) t0 b h1 c row width f0
             pchar (Z.to_nat (Z.sub (Z.add lastIdx (Zpos XH)) f1)) f1 false
             maxScore maxPos) (fun r ->
           let (p, mp) = r in
           let (p0, ms) = p in
           let (h2, c2) = p0 in
           p3_rows fwd t0 b h2 c2 width f0 lastIdx m fsub' psub' (S pidx) ms
             mp)))

(** val p4 :
    nat -> mat -> mat -> nat list -> z -> z -> nat -> nat -> nat -> z -> bool
    -> nat list -> (nat list * z) res **)

let rec p4 fuel h c f width f0 m minIdx i j preferMatch pos =
  match fuel with
  | O -> Err OutOfFuel
  | S fuel' ->
    let i0 = Z.mul (Z.of_nat i) width in
    let j0 = Z.sub j f0 in
    bind (mget h (Z.add i0 j0)) (fun s ->
      bind (get f i) (fun fi ->
        let fi0 = Z.of_nat fi in
        bind
          (if (&&) (Nat.ltb O i) (Z.leb fi0 j)
           then mget h (Z.sub (Z.add (Z.sub i0 width) j0) (Zpos XH))
           else Ok Z0) (fun s1 ->
          bind
            (if Z.ltb fi0 j
             then mget h (Z.sub (Z.add i0 j0) (Zpos XH))
             else Ok Z0) (fun s2 ->
            let take0 =
              (&&) (Z.ltb s1 s)
                ((||) (Z.ltb s2 s) ((&&) (Z.eqb s s2) preferMatch))
            in
            let pos' =
              if take0
              then (Z.to_nat (Z.add j (Z.of_nat minIdx))) :: pos
              else pos
            in
            if (&&) take0 (Nat.eqb i O)
            then if Z.ltb (Z.add j (Z.of_nat minIdx)) Z0
                 then Err OutOfRange
                 else Ok (pos', j)
            else let i' = if take0 then sub i (S O) else i in
                 bind (mget c (Z.add i0 j0)) (fun c1 ->
                   bind
                     (if Z.ltb (Zpos XH) c1
                      then Ok true
                      else if Z.ltb
                                (Z.add (Z.add (Z.add i0 width) j0) (Zpos XH))
                                (Z.of_nat (length c))
                           then bind
                                  (get f
                                    (add (Z.to_nat (Z.div i0 width)) (S O)))
                                  (fun fn ->
                                  if Z.leb (Z.of_nat fn) (Z.add j (Zpos XH))
                                  then bind
                                         (mget c
                                           (Z.add (Z.add (Z.add i0 width) j0)
                                             (Zpos XH))) (fun c2 -> Ok
                                         (Z.ltb Z0 c2))
                                  else Ok false)
                           else Ok false) (fun pm ->
                     p4 fuel' h c f width f0 m minIdx i' (Z.sub j (Zpos XH))
                       pm pos'))))))

(** val put_row : mat -> z -> z list -> mat res **)

let rec put_row m off = function
| [] -> Ok m
| v :: r -> bind (mset m off v) (fun m' -> put_row m' (Z.add off (Zpos XH)) r)

(** val fuzzy_v2 :
    char_ops -> scheme -> bool -> bool -> bool -> bool -> z list -> z list ->
    bool -> z option -> mres res **)

let fuzzy_v2 co sc cs nm fwd is_bytes text pat withPos slabCap =
  let m = length pat in
  (match pat with
   | [] -> Ok (Match (O, O, Z0, (if withPos then Some [] else None)))
   | p0 :: _ ->
     let n = length text in
     if Nat.ltb n m
     then Ok NoMatch
     else if match slabCap with
             | Some cap -> Z.ltb cap (Z.mul (Z.of_nat n) (Z.of_nat m))
             | None -> false
          then fuzzy_v1 co sc cs nm fwd is_bytes text pat withPos
          else bind (ascii_fuzzy_index is_bytes text pat cs) (fun afi ->
                 match afi with
                 | Some p ->
                   let (minIdx, maxIdx) = p in
                   if (||) (Nat.ltb maxIdx minIdx) (Nat.ltb n maxIdx)
                   then Err OutOfRange
                   else let w = firstn (sub maxIdx minIdx) (skipn minIdx text)
                        in
                        let plast = last pat Z0 in
                        let st0 =
                          phase2 co sc cs nm fwd (Nat.eqb m (S O)) w O p0 pat
                            plast Z0 sc.s_init false { p2_T = []; p2_B = [];
                            p2_H0 = []; p2_C0 = []; p2_F = []; p2_pidx = O;
                            p2_lastIdx = O; p2_maxScore = Z0; p2_maxPos = O }
                        in
                        if negb (Nat.eqb st0.p2_pidx m)
                        then Ok NoMatch
                        else if Nat.eqb m (S O)
                             then let r = add minIdx st0.p2_maxPos in
                                  Ok (Match (r, (S r), st0.p2_maxScore,
                                  (if withPos then Some (r :: []) else None)))
                             else let t0 = rev st0.p2_T in
                                  let b = rev st0.p2_B in
                                  let h1 = rev st0.p2_H0 in
                                  let c0 = rev st0.p2_C0 in
                                  let f = rev st0.p2_F in
                                  bind (get f O) (fun f0n ->
                                    let f0 = Z.of_nat f0n in
                                    let lastIdx = Z.of_nat st0.p2_lastIdx in
                                    let width =
                                      Z.add (Z.sub lastIdx f0) (Zpos XH)
                                    in
                                    if Z.leb width Z0
                                    then Err OutOfRange
                                    else let cells =
                                           Z.to_nat (Z.mul width (Z.of_nat m))
                                         in
                                         let blank = repeat None cells in
                                         let seg0 = fun l ->
                                           firstn (Z.to_nat width)
                                             (skipn f0n l)
                                         in
                                         if Nat.ltb (length h1)
                                              (Z.to_nat
                                                (Z.add lastIdx (Zpos XH)))
                                         then Err OutOfRange
                                         else bind
                                                (put_row blank Z0 (seg0 h1))
                                                (fun h ->
                                                bind
                                                  (put_row blank Z0 (seg0 c0))
                                                  (fun c ->
                                                  bind
                                                    (p3_rows fwd t0 b h c
                                                      width f0 lastIdx m
                                                      (tl f) (tl pat) (S O)
                                                      st0.p2_maxScore
                                                      (Z.of_nat st0.p2_maxPos))
                                                    (fun r ->
                                                    let (p1, maxPos) = r in
                                                    let (p3, maxScore) = p1 in
                                                    let (h2, c1) = p3 in
                                                    if Z.ltb maxPos Z0
                                                    then Err OutOfRange
                                                    else if withPos
                                                         then bind
                                                                (p4 (S
                                                                  (Z.to_nat
                                                                    maxPos))
                                                                  h2 c1 f
                                                                  width f0 m
                                                                  minIdx
                                                                  (sub m (S
                                                                    O))
                                                                  maxPos true
                                                                  [])
                                                                (fun pj -> Ok
                                                                (Match
                                                                ((Z.to_nat
                                                                   (Z.add
                                                                    (Z.of_nat
                                                                    minIdx)
                                                                    (snd pj))),
                                                                (add
                                                                  (add minIdx
                                                                    (Z.to_nat
                                                                    maxPos))
                                                                  (S O)),
                                                                maxScore,
                                                                (Some
                                                                (rev (fst pj))))))
                                                         else Ok (Match
                                                                ((add minIdx
                                                                   f0n),
                                                                (add
                                                                  (add minIdx
                                                                    (Z.to_nat
                                                                    maxPos))
                                                                  (S O)),
                                                                maxScore,
                                                                None))))))
                 | None -> Ok NoMatch))

(** val tbl_find : z list list -> z -> z list option **)

let rec tbl_find t0 r =
  match t0 with
  | [] -> None
  | e :: t' ->
    (match e with
     | [] -> tbl_find t' r
     | k :: _ -> if Z.eqb k r then Some e else tbl_find t' r)

(** val ops_of : z list list -> char_ops **)

let ops_of t0 =
  { co_lower = (fun r ->
    match tbl_find t0 r with
    | Some l0 ->
      (match l0 with
       | [] -> r
       | _ :: l1 ->
         (match l1 with
          | [] -> r
          | l :: l2 ->
            (match l2 with
             | [] -> r
             | _ :: l3 ->
               (match l3 with
                | [] -> r
                | _ :: l4 ->
                  (match l4 with
                   | [] -> r
                   | _ :: l5 -> (match l5 with
                                 | [] -> l
                                 | _ :: _ -> r))))))
    | None -> r); co_class = (fun r ->
    match tbl_find t0 r with
    | Some l ->
      (match l with
       | [] -> cNonWord
       | _ :: l0 ->
         (match l0 with
          | [] -> cNonWord
          | _ :: l1 ->
            (match l1 with
             | [] -> cNonWord
             | c :: l2 ->
               (match l2 with
                | [] -> cNonWord
                | _ :: l3 ->
                  (match l3 with
                   | [] -> cNonWord
                   | _ :: l4 -> (match l4 with
                                 | [] -> c
                                 | _ :: _ -> cNonWord))))))
    | None -> cNonWord); co_norm = (fun r ->
    match tbl_find t0 r with
    | Some l ->
      (match l with
       | [] -> r
       | _ :: l0 ->
         (match l0 with
          | [] -> r
          | _ :: l1 ->
            (match l1 with
             | [] -> r
             | _ :: l2 ->
               (match l2 with
                | [] -> r
                | n :: l3 ->
                  (match l3 with
                   | [] -> r
                   | _ :: l4 -> (match l4 with
                                 | [] -> n
                                 | _ :: _ -> r))))))
    | None -> r); co_space = (fun r ->
    match tbl_find t0 r with
    | Some l ->
      (match l with
       | [] -> false
       | _ :: l0 ->
         (match l0 with
          | [] -> false
          | _ :: l1 ->
            (match l1 with
             | [] -> false
             | _ :: l2 ->
               (match l2 with
                | [] -> false
                | _ :: l3 ->
                  (match l3 with
                   | [] -> false
                   | s :: l4 ->
                     (match l4 with
                      | [] -> negb (Z.eqb s Z0)
                      | _ :: _ -> false))))))
    | None -> false) }

(** val scheme_of : z -> scheme **)

let scheme_of z0 =
  if Z.eqb z0 (Zpos XH)
  then scheme_path
  else if Z.eqb z0 (Zpos (XO XH)) then scheme_history else scheme_default

(** val v_mres : mres res -> val0 **)

let v_mres = function
| Ok a ->
  (match a with
   | NoMatch -> VL []
   | Match (s, e, sc, pos) ->
     VL ((vnat s) :: ((vnat e) :: ((VI
       sc) :: ((match pos with
                | Some p -> VL (map vnat p)
                | None -> VI (Zneg XH)) :: [])))))
| Err _ -> verr

type acall = { a_fn : z; a_cs : bool; a_nm : bool; a_fwd : bool;
               a_bytes : bool; a_wp : bool; a_cap : z option; a_sc : 
               scheme; a_text : z list; a_pat : z list; a_co : char_ops }

(** val as_call : val0 -> acall **)

let as_call a =
  { a_fn = (as_int (arg a O)); a_cs = (as_bool (arg a (S O))); a_nm =
    (as_bool (arg a (S (S O)))); a_fwd = (as_bool (arg a (S (S (S O)))));
    a_bytes = (as_bool (arg a (S (S (S (S O)))))); a_wp =
    (as_bool (arg a (S (S (S (S (S O))))))); a_cap =
    (let c = as_int (arg a (S (S (S (S (S (S O))))))) in
     if Z.ltb c Z0 then None else Some c); a_sc =
    (scheme_of (as_int (arg a (S (S (S (S (S (S (S O)))))))))); a_text =
    (as_str (arg a (S (S (S (S (S (S (S (S O)))))))))); a_pat =
    (as_str (arg a (S (S (S (S (S (S (S (S (S O))))))))))); a_co =
    (ops_of
      (map as_str (as_list (arg a (S (S (S (S (S (S (S (S (S (S O)))))))))))))) }

(** val run_model : acall -> mres res **)

let run_model c =
  let co = c.a_co in
  let sc = c.a_sc in
  let f = c.a_fn in
  if Z.eqb f (Zpos XH)
  then fuzzy_v1 co sc c.a_cs c.a_nm c.a_fwd c.a_bytes c.a_text c.a_pat c.a_wp
  else if Z.eqb f (Zpos (XO XH))
       then fuzzy_v2 co sc c.a_cs c.a_nm c.a_fwd c.a_bytes c.a_text c.a_pat
              c.a_wp c.a_cap
       else if Z.eqb f (Zpos (XI XH))
            then exact_match co sc c.a_cs c.a_nm c.a_fwd false c.a_bytes
                   c.a_text c.a_pat
            else if Z.eqb f (Zpos (XO (XO XH)))
                 then exact_match co sc c.a_cs c.a_nm c.a_fwd true c.a_bytes
                        c.a_text c.a_pat
                 else if Z.eqb f (Zpos (XI (XO XH)))
                      then prefix_match co sc c.a_cs c.a_nm c.a_text c.a_pat
                      else if Z.eqb f (Zpos (XO (XI XH)))
                           then suffix_match co sc c.a_cs c.a_nm c.a_text
                                  c.a_pat
                           else equal_match co sc c.a_cs c.a_nm c.a_text
                                  c.a_pat

(** val insert_nat : nat -> nat list -> nat list **)

let rec insert_nat x l = match l with
| [] -> x :: []
| y :: r -> if Nat.leb x y then x :: l else y :: (insert_nat x r)

(** val sort_nat : nat list -> nat list **)

let sort_nat l =
  fold_right insert_nat [] l

(** val seq_from : nat -> nat -> nat list **)

let rec seq_from s = function
| O -> []
| S n' -> s :: (seq_from (S s) n')

(** val check_answer : acall -> val0 -> z list **)

let check_answer c ans =
  let co = c.a_co in
  let sc = c.a_sc in
  let cs = c.a_cs in
  let nm = c.a_nm in
  let text = c.a_text in
  let pat = c.a_pat in
  let f = c.a_fn in
  let n = length text in
  let m = length pat in
  (match as_list ans with
   | [] ->
     if (||) (Z.eqb f (Zpos XH)) (Z.eqb f (Zpos (XO XH)))
     then if subseq_b co cs nm text pat then (Zpos (XO (XO XH))) :: [] else []
     else if Z.eqb f (Zpos (XI XH))
          then if substr_b co cs nm text pat
               then (Zpos (XO (XO XH))) :: []
               else []
          else if Z.eqb f (Zpos (XO (XO XH)))
               then if boundary_substr_b co sc cs nm text pat
                    then (Zpos (XO (XO XH))) :: []
                    else []
               else if Z.eqb f (Zpos (XI (XO XH)))
                    then (match prefix_spec co cs nm text pat with
                          | Some _ -> (Zpos (XO (XO XH))) :: []
                          | None -> [])
                    else if Z.eqb f (Zpos (XO (XI XH)))
                         then (match suffix_spec co cs nm text pat with
                               | Some _ -> (Zpos (XO (XO XH))) :: []
                               | None -> [])
                         else (match equal_spec co cs nm text pat with
                               | Some _ -> (Zpos (XO (XO XH))) :: []
                               | None -> [])
   | vs :: l ->
     (match l with
      | [] -> (Zpos XH) :: []
      | ve :: l0 ->
        (match l0 with
         | [] -> (Zpos XH) :: []
         | vsc :: l1 ->
           (match l1 with
            | [] -> (Zpos XH) :: []
            | vpos :: _ ->
              let s = as_nat vs in
              let e = as_nat ve in
              let score = as_int vsc in
              let range_bad = negb ((&&) (Nat.leb s e) (Nat.leb e n)) in
              let r1 = if range_bad then (Zpos XH) :: [] else [] in
              let r2 =
                if Nat.eqb m O
                then if Nat.eqb s e then [] else (Zpos (XI (XO XH))) :: []
                else if (||) (Z.eqb f (Zpos XH)) (Z.eqb f (Zpos (XO XH)))
                     then app
                            (if subseq_b co cs nm text pat
                             then []
                             else (Zpos (XI (XI XH))) :: [])
                            (match vpos with
                             | VI _ -> []
                             | VL ps ->
                               let pos = sort_nat (map as_nat ps) in
                               app
                                 (if witness co cs nm text pat pos
                                  then []
                                  else (Zpos (XO XH)) :: [])
                                 (if forallb (fun p ->
                                       (&&) (Nat.leb s p) (Nat.ltb p e)) pos
                                  then []
                                  else (Zpos (XI XH)) :: []))
                     else if Z.eqb f (Zpos (XI XH))
                          then if (&&) (occurs_at co cs nm text pat s)
                                    (Nat.eqb e (add s m))
                               then []
                               else (Zpos (XI (XO XH))) :: []
                          else if Z.eqb f (Zpos (XO (XO XH)))
                               then if (&&)
                                         (boundary_at co sc cs nm text pat s)
                                         (Nat.eqb e (add s m))
                                    then []
                                    else (Zpos (XI (XO XH))) :: []
                               else if Z.eqb f (Zpos (XI (XO XH)))
                                    then (match prefix_spec co cs nm text pat with
                                          | Some s' ->
                                            if (&&) (Nat.eqb s s')
                                                 (Nat.eqb e (add s m))
                                            then []
                                            else (Zpos (XI (XO XH))) :: []
                                          | None -> (Zpos (XI (XI XH))) :: [])
                                    else if Z.eqb f (Zpos (XO (XI XH)))
                                         then (match suffix_spec co cs nm
                                                       text pat with
                                               | Some s' ->
                                                 if (&&) (Nat.eqb s s')
                                                      (Nat.eqb e (add s m))
                                                 then []
                                                 else (Zpos (XI (XO
                                                        XH))) :: []
                                               | None ->
                                                 (Zpos (XI (XI XH))) :: [])
                                         else (match equal_spec co cs nm text
                                                       pat with
                                               | Some s' ->
                                                 if (&&) (Nat.eqb s s')
                                                      (Nat.eqb e (add s m))
                                                 then []
                                                 else (Zpos (XI (XO
                                                        XH))) :: []
                                               | None ->
                                                 (Zpos (XI (XI XH))) :: [])
              in
              let r3 =
                if Nat.eqb m O
                then if Z.eqb score Z0 then [] else (Zpos (XO (XI XH))) :: []
                else if Z.eqb f (Zpos (XO XH))
                     then if (&&) (Nat.leb (S O) m)
                               (negb
                                 (match c.a_cap with
                                  | Some cap ->
                                    Z.ltb cap
                                      (Z.mul (Z.of_nat n) (Z.of_nat m))
                                  | None -> false))
                          then (match naive_dp co sc cs nm c.a_fwd text pat with
                                | Some p ->
                                  let (h, e') = p in
                                  if (&&) (Z.eqb h score) (Nat.eqb e e')
                                  then []
                                  else (Zpos (XO (XI XH))) :: []
                                | None -> (Zpos (XO (XI XH))) :: [])
                          else []
                     else if Z.eqb f (Zpos XH)
                          then (match vpos with
                                | VI _ -> []
                                | VL ps ->
                                  if Z.eqb
                                       (align_score co sc text
                                         (sort_nat (map as_nat ps))) score
                                  then []
                                  else (Zpos (XO (XI XH))) :: [])
                          else if (||)
                                    ((||) (Z.eqb f (Zpos (XI XH)))
                                      (Z.eqb f (Zpos (XI (XO XH)))))
                                    (Z.eqb f (Zpos (XO (XI XH))))
                               then if Z.eqb
                                         (align_score co sc text
                                           (seq_from s m)) score
                                    then []
                                    else (Zpos (XO (XI XH))) :: []
                               else if Z.eqb f (Zpos (XI (XI XH)))
                                    then if Z.eqb (equal_score sc m) score
                                         then []
                                         else (Zpos (XO (XI XH))) :: []
                                    else []
              in
              app r1 (app r2 r3)))))

(** val dispatch_algo : z -> val0 -> val0 option **)

let dispatch_algo op a =
  if Z.eqb op (Zpos (XI (XO (XO (XI (XO (XO (XI XH))))))))
  then Some (v_mres (run_model (as_call a)))
  else if Z.eqb op (Zpos (XO (XI (XO (XI (XO (XO (XI XH))))))))
       then Some (VL
              (map (fun x -> VI x)
                (check_answer (as_call (arg a O)) (arg a (S O)))))
       else if Z.eqb op (Zpos (XI (XI (XO (XI (XO (XO (XI XH))))))))
            then let c = as_call a in
                 Some
                 (match naive_dp c.a_co c.a_sc c.a_cs c.a_nm c.a_fwd c.a_text
                          c.a_pat with
                  | Some p ->
                    let (h, e) = p in VL ((VI h) :: ((vnat e) :: []))
                  | None -> VL [])
            else None

(** val cOLON : z **)

let cOLON =
  Zpos (XO (XI (XO (XI (XI XH)))))

(** val cOMMA : z **)

let cOMMA =
  Zpos (XO (XO (XI (XI (XO XH)))))

(** val pLUS : z **)

let pLUS =
  Zpos (XI (XI (XO (XI (XO XH)))))

(** val sPACE : z **)

let sPACE =
  Zpos (XO (XO (XO (XO (XO XH)))))

(** val dASH : z **)

let dASH =
  Zpos (XI (XO (XI (XI (XO XH)))))

(** val is_upper : z -> bool **)

let is_upper c =
  (&&) (Z.leb (Zpos (XI (XO (XO (XO (XO (XO XH))))))) c)
    (Z.leb c (Zpos (XO (XI (XO (XI (XI (XO XH))))))))

(** val is_lower : z -> bool **)

let is_lower c =
  (&&) (Z.leb (Zpos (XI (XO (XO (XO (XO (XI XH))))))) c)
    (Z.leb c (Zpos (XO (XI (XO (XI (XI (XI XH))))))))

(** val lower : z -> z **)

let lower c =
  if is_upper c then Z.add c (Zpos (XO (XO (XO (XO (XO XH)))))) else c

(** val to_lower : str -> str **)

let to_lower s =
  map lower s

(** val is_sep : z -> bool **)

let is_sep c =
  (||) ((||) (Z.eqb c cOLON) (Z.eqb c cOMMA)) (Z.eqb c pLUS)

(** val split_aux : z -> str -> str -> str list **)

let rec split_aux sep0 cur = function
| [] -> (rev cur) :: []
| c :: r ->
  if Z.eqb c sep0
  then (rev cur) :: (split_aux sep0 [] r)
  else split_aux sep0 (c :: cur) r

(** val split_on : z -> str -> str list **)

let split_on sep0 s =
  split_aux sep0 [] s

type key =
| KRune of z
| KCtrl of z
| KNamed of str
| KF of z
| KAlt of z
| KCtrlAlt of z

(** val key_eqb : key -> key -> bool **)

let key_eqb x y =
  match x with
  | KRune a -> (match y with
                | KRune c -> Z.eqb a c
                | _ -> false)
  | KCtrl a -> (match y with
                | KCtrl c -> Z.eqb a c
                | _ -> false)
  | KNamed a -> (match y with
                 | KNamed c -> str_eqb a c
                 | _ -> false)
  | KF a -> (match y with
             | KF c -> Z.eqb a c
             | _ -> false)
  | KAlt a -> (match y with
               | KAlt c -> Z.eqb a c
               | _ -> false)
  | KCtrlAlt a -> (match y with
                   | KCtrlAlt c -> Z.eqb a c
                   | _ -> false)

(** val named_keys : (str * key) list **)

let named_keys =
  (((Zpos (XI (XO (XI (XO (XI (XI XH))))))) :: ((Zpos (XO (XO (XO (XO (XI (XI
    XH))))))) :: [])), (KNamed ((Zpos (XI (XO (XI (XO (XI (XI
    XH))))))) :: ((Zpos (XO (XO (XO (XO (XI (XI
    XH))))))) :: [])))) :: ((((Zpos (XO (XO (XI (XO (XO (XI
    XH))))))) :: ((Zpos (XI (XI (XI (XI (XO (XI XH))))))) :: ((Zpos (XI (XI
    (XI (XO (XI (XI XH))))))) :: ((Zpos (XO (XI (XI (XI (XO (XI
    XH))))))) :: [])))), (KNamed ((Zpos (XO (XO (XI (XO (XO (XI
    XH))))))) :: ((Zpos (XI (XI (XI (XI (XO (XI XH))))))) :: ((Zpos (XI (XI
    (XI (XO (XI (XI XH))))))) :: ((Zpos (XO (XI (XI (XI (XO (XI
    XH))))))) :: [])))))) :: ((((Zpos (XO (XO (XI (XI (XO (XI
    XH))))))) :: ((Zpos (XI (XO (XI (XO (XO (XI XH))))))) :: ((Zpos (XO (XI
    (XI (XO (XO (XI XH))))))) :: ((Zpos (XO (XO (XI (XO (XI (XI
    XH))))))) :: [])))), (KNamed ((Zpos (XO (XO (XI (XI (XO (XI
    XH))))))) :: ((Zpos (XI (XO (XI (XO (XO (XI XH))))))) :: ((Zpos (XO (XI
    (XI (XO (XO (XI XH))))))) :: ((Zpos (XO (XO (XI (XO (XI (XI
    XH))))))) :: [])))))) :: ((((Zpos (XO (XI (XO (XO (XI (XI
    XH))))))) :: ((Zpos (XI (XO (XO (XI (XO (XI XH))))))) :: ((Zpos (XI (XI
    (XI (XO (XO (XI XH))))))) :: ((Zpos (XO (XO (XO (XI (XO (XI
    XH))))))) :: ((Zpos (XO (XO (XI (XO (XI (XI XH))))))) :: []))))), (KNamed
    ((Zpos (XO (XI (XO (XO (XI (XI XH))))))) :: ((Zpos (XI (XO (XO (XI (XO
    (XI XH))))))) :: ((Zpos (XI (XI (XI (XO (XO (XI XH))))))) :: ((Zpos (XO
    (XO (XO (XI (XO (XI XH))))))) :: ((Zpos (XO (XO (XI (XO (XI (XI
    XH))))))) :: []))))))) :: ((((Zpos (XI (XO (XI (XO (XO (XI
    XH))))))) :: ((Zpos (XO (XI (XI (XI (XO (XI XH))))))) :: ((Zpos (XO (XO
    (XI (XO (XI (XI XH))))))) :: ((Zpos (XI (XO (XI (XO (XO (XI
    XH))))))) :: ((Zpos (XO (XI (XO (XO (XI (XI XH))))))) :: []))))), (KCtrl
    (Zpos (XO (XO (XI XH)))))) :: ((((Zpos (XO (XI (XO (XO (XI (XI
    XH))))))) :: ((Zpos (XI (XO (XI (XO (XO (XI XH))))))) :: ((Zpos (XO (XO
    (XI (XO (XI (XI XH))))))) :: ((Zpos (XI (XO (XI (XO (XI (XI
    XH))))))) :: ((Zpos (XO (XI (XO (XO (XI (XI XH))))))) :: ((Zpos (XO (XI
    (XI (XI (XO (XI XH))))))) :: [])))))), (KCtrl (Zpos (XO (XO (XI
    XH)))))) :: ((((Zpos (XI (XI (XO (XO (XI (XI XH))))))) :: ((Zpos (XO (XO
    (XO (XO (XI (XI XH))))))) :: ((Zpos (XI (XO (XO (XO (XO (XI
    XH))))))) :: ((Zpos (XI (XI (XO (XO (XO (XI XH))))))) :: ((Zpos (XI (XO
    (XI (XO (XO (XI XH))))))) :: []))))), (KRune (Zpos (XO (XO (XO (XO (XO
    XH)))))))) :: ((((Zpos (XO (XI (XO (XO (XO (XI XH))))))) :: ((Zpos (XI
    (XO (XO (XO (XO (XI XH))))))) :: ((Zpos (XI (XI (XO (XO (XO (XI
    XH))))))) :: ((Zpos (XI (XI (XO (XI (XO (XI XH))))))) :: ((Zpos (XI (XI
    (XO (XO (XI (XI XH))))))) :: ((Zpos (XO (XO (XO (XO (XI (XI
    XH))))))) :: ((Zpos (XI (XO (XO (XO (XO (XI XH))))))) :: ((Zpos (XI (XI
    (XO (XO (XO (XI XH))))))) :: ((Zpos (XI (XO (XI (XO (XO (XI
    XH))))))) :: []))))))))), (KNamed ((Zpos (XO (XI (XO (XO (XO (XI
    XH))))))) :: ((Zpos (XI (XO (XO (XO (XO (XI XH))))))) :: ((Zpos (XI (XI
    (XO (XO (XO (XI XH))))))) :: ((Zpos (XI (XI (XO (XI (XO (XI
    XH))))))) :: ((Zpos (XI (XI (XO (XO (XI (XI XH))))))) :: ((Zpos (XO (XO
    (XO (XO (XI (XI XH))))))) :: ((Zpos (XI (XO (XO (XO (XO (XI
    XH))))))) :: ((Zpos (XI (XI (XO (XO (XO (XI XH))))))) :: ((Zpos (XI (XO
    (XI (XO (XO (XI XH))))))) :: []))))))))))) :: ((((Zpos (XO (XI (XO (XO
    (XO (XI XH))))))) :: ((Zpos (XI (XI (XO (XO (XI (XI XH))))))) :: ((Zpos
    (XO (XO (XO (XO (XI (XI XH))))))) :: ((Zpos (XI (XO (XO (XO (XO (XI
    XH))))))) :: ((Zpos (XI (XI (XO (XO (XO (XI XH))))))) :: ((Zpos (XI (XO
    (XI (XO (XO (XI XH))))))) :: [])))))), (KNamed ((Zpos (XO (XI (XO (XO (XO
    (XI XH))))))) :: ((Zpos (XI (XO (XO (XO (XO (XI XH))))))) :: ((Zpos (XI
    (XI (XO (XO (XO (XI XH))))))) :: ((Zpos (XI (XI (XO (XI (XO (XI
    XH))))))) :: ((Zpos (XI (XI (XO (XO (XI (XI XH))))))) :: ((Zpos (XO (XO
    (XO (XO (XI (XI XH))))))) :: ((Zpos (XI (XO (XO (XO (XO (XI
    XH))))))) :: ((Zpos (XI (XI (XO (XO (XO (XI XH))))))) :: ((Zpos (XI (XO
    (XI (XO (XO (XI XH))))))) :: []))))))))))) :: ((((Zpos (XO (XI (XO (XO
    (XO (XI XH))))))) :: ((Zpos (XI (XI (XO (XO (XI (XI XH))))))) :: [])),
    (KNamed ((Zpos (XO (XI (XO (XO (XO (XI XH))))))) :: ((Zpos (XI (XO (XO
    (XO (XO (XI XH))))))) :: ((Zpos (XI (XI (XO (XO (XO (XI
    XH))))))) :: ((Zpos (XI (XI (XO (XI (XO (XI XH))))))) :: ((Zpos (XI (XI
    (XO (XO (XI (XI XH))))))) :: ((Zpos (XO (XO (XO (XO (XI (XI
    XH))))))) :: ((Zpos (XI (XO (XO (XO (XO (XI XH))))))) :: ((Zpos (XI (XI
    (XO (XO (XO (XI XH))))))) :: ((Zpos (XI (XO (XI (XO (XO (XI
    XH))))))) :: []))))))))))) :: ((((Zpos (XI (XI (XO (XO (XO (XI
    XH))))))) :: ((Zpos (XO (XO (XI (XO (XI (XI XH))))))) :: ((Zpos (XO (XI
    (XO (XO (XI (XI XH))))))) :: ((Zpos (XO (XO (XI (XI (XO (XI
    XH))))))) :: ((Zpos (XI (XO (XI (XI (XO XH)))))) :: ((Zpos (XI (XI (XO
    (XO (XI (XI XH))))))) :: ((Zpos (XO (XO (XO (XO (XI (XI
    XH))))))) :: ((Zpos (XI (XO (XO (XO (XO (XI XH))))))) :: ((Zpos (XI (XI
    (XO (XO (XO (XI XH))))))) :: ((Zpos (XI (XO (XI (XO (XO (XI
    XH))))))) :: [])))))))))), (KNamed ((Zpos (XI (XI (XO (XO (XO (XI
    XH))))))) :: ((Zpos (XO (XO (XI (XO (XI (XI XH))))))) :: ((Zpos (XO (XI
    (XO (XO (XI (XI XH))))))) :: ((Zpos (XO (XO (XI (XI (XO (XI
    XH))))))) :: ((Zpos (XI (XO (XI (XI (XO XH)))))) :: ((Zpos (XI (XI (XO
    (XO (XI (XI XH))))))) :: ((Zpos (XO (XO (XO (XO (XI (XI
    XH))))))) :: ((Zpos (XI (XO (XO (XO (XO (XI XH))))))) :: ((Zpos (XI (XI
    (XO (XO (XO (XI XH))))))) :: ((Zpos (XI (XO (XI (XO (XO (XI
    XH))))))) :: [])))))))))))) :: ((((Zpos (XI (XI (XO (XO (XO (XI
    XH))))))) :: ((Zpos (XO (XO (XI (XO (XI (XI XH))))))) :: ((Zpos (XO (XI
    (XO (XO (XI (XI XH))))))) :: ((Zpos (XO (XO (XI (XI (XO (XI
    XH))))))) :: ((Zpos (XI (XO (XI (XI (XO XH)))))) :: ((Zpos (XO (XO (XI
    (XO (XO (XI XH))))))) :: ((Zpos (XI (XO (XI (XO (XO (XI
    XH))))))) :: ((Zpos (XO (XO (XI (XI (XO (XI XH))))))) :: ((Zpos (XI (XO
    (XI (XO (XO (XI XH))))))) :: ((Zpos (XO (XO (XI (XO (XI (XI
    XH))))))) :: ((Zpos (XI (XO (XI (XO (XO (XI XH))))))) :: []))))))))))),
    (KNamed ((Zpos (XI (XI (XO (XO (XO (XI XH))))))) :: ((Zpos (XO (XO (XI
    (XO (XI (XI XH))))))) :: ((Zpos (XO (XI (XO (XO (XI (XI
    XH))))))) :: ((Zpos (XO (XO (XI (XI (XO (XI XH))))))) :: ((Zpos (XI (XO
    (XI (XI (XO XH)))))) :: ((Zpos (XO (XO (XI (XO (XO (XI
    XH))))))) :: ((Zpos (XI (XO (XI (XO (XO (XI XH))))))) :: ((Zpos (XO (XO
    (XI (XI (XO (XI XH))))))) :: ((Zpos (XI (XO (XI (XO (XO (XI
    XH))))))) :: ((Zpos (XO (XO (XI (XO (XI (XI XH))))))) :: ((Zpos (XI (XO
    (XI (XO (XO (XI XH))))))) :: []))))))))))))) :: ((((Zpos (XI (XI (XO (XO
    (XO (XI XH))))))) :: ((Zpos (XO (XO (XI (XO (XI (XI XH))))))) :: ((Zpos
    (XO (XI (XO (XO (XI (XI XH))))))) :: ((Zpos (XO (XO (XI (XI (XO (XI
    XH))))))) :: ((Zpos (XI (XO (XI (XI (XO XH)))))) :: ((Zpos (XO (XI (XI
    (XI (XI (XO XH))))))) :: [])))))), (KNamed ((Zpos (XI (XI (XO (XO (XO (XI
    XH))))))) :: ((Zpos (XO (XO (XI (XO (XI (XI XH))))))) :: ((Zpos (XO (XI
    (XO (XO (XI (XI XH))))))) :: ((Zpos (XO (XO (XI (XI (XO (XI
    XH))))))) :: ((Zpos (XI (XO (XI (XI (XO XH)))))) :: ((Zpos (XI (XI (XO
    (XO (XO (XI XH))))))) :: ((Zpos (XI (XO (XO (XO (XO (XI
    XH))))))) :: ((Zpos (XO (XI (XO (XO (XI (XI XH))))))) :: ((Zpos (XI (XO
    (XI (XO (XO (XI XH))))))) :: ((Zpos (XO (XO (XI (XO (XI (XI
    XH))))))) :: [])))))))))))) :: ((((Zpos (XI (XI (XO (XO (XO (XI
    XH))))))) :: ((Zpos (XO (XO (XI (XO (XI (XI XH))))))) :: ((Zpos (XO (XI
    (XO (XO (XI (XI XH))))))) :: ((Zpos (XO (XO (XI (XI (XO (XI
    XH))))))) :: ((Zpos (XI (XO (XI (XI (XO XH)))))) :: ((Zpos (XO (XI (XI
    (XO (XI XH)))))) :: [])))))), (KNamed ((Zpos (XI (XI (XO (XO (XO (XI
    XH))))))) :: ((Zpos (XO (XO (XI (XO (XI (XI XH))))))) :: ((Zpos (XO (XI
    (XO (XO (XI (XI XH))))))) :: ((Zpos (XO (XO (XI (XI (XO (XI
    XH))))))) :: ((Zpos (XI (XO (XI (XI (XO XH)))))) :: ((Zpos (XI (XI (XO
    (XO (XO (XI XH))))))) :: ((Zpos (XI (XO (XO (XO (XO (XI
    XH))))))) :: ((Zpos (XO (XI (XO (XO (XI (XI XH))))))) :: ((Zpos (XI (XO
    (XI (XO (XO (XI XH))))))) :: ((Zpos (XO (XO (XI (XO (XI (XI
    XH))))))) :: [])))))))))))) :: ((((Zpos (XI (XI (XO (XO (XO (XI
    XH))))))) :: ((Zpos (XO (XO (XI (XO (XI (XI XH))))))) :: ((Zpos (XO (XI
    (XO (XO (XI (XI XH))))))) :: ((Zpos (XO (XO (XI (XI (XO (XI
    XH))))))) :: ((Zpos (XI (XO (XI (XI (XO XH)))))) :: ((Zpos (XI (XI (XI
    (XI (XO XH)))))) :: [])))))), (KNamed ((Zpos (XI (XI (XO (XO (XO (XI
    XH))))))) :: ((Zpos (XO (XO (XI (XO (XI (XI XH))))))) :: ((Zpos (XO (XI
    (XO (XO (XI (XI XH))))))) :: ((Zpos (XO (XO (XI (XI (XO (XI
    XH))))))) :: ((Zpos (XI (XO (XI (XI (XO XH)))))) :: ((Zpos (XI (XI (XO
    (XO (XI (XI XH))))))) :: ((Zpos (XO (XO (XI (XI (XO (XI
    XH))))))) :: ((Zpos (XI (XO (XO (XO (XO (XI XH))))))) :: ((Zpos (XI (XI
    (XO (XO (XI (XI XH))))))) :: ((Zpos (XO (XO (XO (XI (XO (XI
    XH))))))) :: [])))))))))))) :: ((((Zpos (XI (XI (XO (XO (XO (XI
    XH))))))) :: ((Zpos (XO (XO (XI (XO (XI (XI XH))))))) :: ((Zpos (XO (XI
    (XO (XO (XI (XI XH))))))) :: ((Zpos (XO (XO (XI (XI (XO (XI
    XH))))))) :: ((Zpos (XI (XO (XI (XI (XO XH)))))) :: ((Zpos (XI (XI (XI
    (XI (XI (XO XH))))))) :: [])))))), (KNamed ((Zpos (XI (XI (XO (XO (XO (XI
    XH))))))) :: ((Zpos (XO (XO (XI (XO (XI (XI XH))))))) :: ((Zpos (XO (XI
    (XO (XO (XI (XI XH))))))) :: ((Zpos (XO (XO (XI (XI (XO (XI
    XH))))))) :: ((Zpos (XI (XO (XI (XI (XO XH)))))) :: ((Zpos (XI (XI (XO
    (XO (XI (XI XH))))))) :: ((Zpos (XO (XO (XI (XI (XO (XI
    XH))))))) :: ((Zpos (XI (XO (XO (XO (XO (XI XH))))))) :: ((Zpos (XI (XI
    (XO (XO (XI (XI XH))))))) :: ((Zpos (XO (XO (XO (XI (XO (XI
    XH))))))) :: [])))))))))))) :: ((((Zpos (XI (XI (XO (XO (XO (XI
    XH))))))) :: ((Zpos (XO (XO (XI (XO (XI (XI XH))))))) :: ((Zpos (XO (XI
    (XO (XO (XI (XI XH))))))) :: ((Zpos (XO (XO (XI (XI (XO (XI
    XH))))))) :: ((Zpos (XI (XO (XI (XI (XO XH)))))) :: ((Zpos (XO (XO (XI
    (XI (XI (XO XH))))))) :: [])))))), (KNamed ((Zpos (XI (XI (XO (XO (XO (XI
    XH))))))) :: ((Zpos (XO (XO (XI (XO (XI (XI XH))))))) :: ((Zpos (XO (XI
    (XO (XO (XI (XI XH))))))) :: ((Zpos (XO (XO (XI (XI (XO (XI
    XH))))))) :: ((Zpos (XI (XO (XI (XI (XO XH)))))) :: ((Zpos (XO (XI (XO
    (XO (XO (XI XH))))))) :: ((Zpos (XI (XO (XO (XO (XO (XI
    XH))))))) :: ((Zpos (XI (XI (XO (XO (XO (XI XH))))))) :: ((Zpos (XI (XI
    (XO (XI (XO (XI XH))))))) :: ((Zpos (XI (XO (XI (XI (XO
    XH)))))) :: ((Zpos (XI (XI (XO (XO (XI (XI XH))))))) :: ((Zpos (XO (XO
    (XI (XI (XO (XI XH))))))) :: ((Zpos (XI (XO (XO (XO (XO (XI
    XH))))))) :: ((Zpos (XI (XI (XO (XO (XI (XI XH))))))) :: ((Zpos (XO (XO
    (XO (XI (XO (XI XH))))))) :: []))))))))))))))))) :: ((((Zpos (XI (XI (XO
    (XO (XO (XI XH))))))) :: ((Zpos (XO (XO (XI (XO (XI (XI
    XH))))))) :: ((Zpos (XO (XI (XO (XO (XI (XI XH))))))) :: ((Zpos (XO (XO
    (XI (XI (XO (XI XH))))))) :: ((Zpos (XI (XO (XI (XI (XO
    XH)))))) :: ((Zpos (XI (XO (XI (XI (XI (XO XH))))))) :: [])))))), (KNamed
    ((Zpos (XI (XI (XO (XO (XO (XI XH))))))) :: ((Zpos (XO (XO (XI (XO (XI
    (XI XH))))))) :: ((Zpos (XO (XI (XO (XO (XI (XI XH))))))) :: ((Zpos (XO
    (XO (XI (XI (XO (XI XH))))))) :: ((Zpos (XI (XO (XI (XI (XO
    XH)))))) :: ((Zpos (XO (XI (XO (XO (XI (XI XH))))))) :: ((Zpos (XI (XO
    (XO (XI (XO (XI XH))))))) :: ((Zpos (XI (XI (XI (XO (XO (XI
    XH))))))) :: ((Zpos (XO (XO (XO (XI (XO (XI XH))))))) :: ((Zpos (XO (XO
    (XI (XO (XI (XI XH))))))) :: ((Zpos (XI (XO (XI (XI (XO
    XH)))))) :: ((Zpos (XO (XI (XO (XO (XO (XI XH))))))) :: ((Zpos (XO (XI
    (XO (XO (XI (XI XH))))))) :: ((Zpos (XI (XO (XO (XO (XO (XI
    XH))))))) :: ((Zpos (XI (XI (XO (XO (XO (XI XH))))))) :: ((Zpos (XI (XI
    (XO (XI (XO (XI XH))))))) :: ((Zpos (XI (XO (XI (XO (XO (XI
    XH))))))) :: ((Zpos (XO (XO (XI (XO (XI (XI
    XH))))))) :: [])))))))))))))))))))) :: ((((Zpos (XI (XI (XO (XO (XO (XI
    XH))))))) :: ((Zpos (XO (XO (XO (XI (XO (XI XH))))))) :: ((Zpos (XI (XO
    (XO (XO (XO (XI XH))))))) :: ((Zpos (XO (XI (XI (XI (XO (XI
    XH))))))) :: ((Zpos (XI (XI (XI (XO (XO (XI XH))))))) :: ((Zpos (XI (XO
    (XI (XO (XO (XI XH))))))) :: [])))))), (KNamed ((Zpos (XI (XI (XO (XO (XO
    (XI XH))))))) :: ((Zpos (XO (XO (XO (XI (XO (XI XH))))))) :: ((Zpos (XI
    (XO (XO (XO (XO (XI XH))))))) :: ((Zpos (XO (XI (XI (XI (XO (XI
    XH))))))) :: ((Zpos (XI (XI (XI (XO (XO (XI XH))))))) :: ((Zpos (XI (XO
    (XI (XO (XO (XI XH))))))) :: [])))))))) :: ((((Zpos (XO (XI (XO (XO (XO
    (XI XH))))))) :: ((Zpos (XI (XO (XO (XO (XO (XI XH))))))) :: ((Zpos (XI
    (XI (XO (XO (XO (XI XH))))))) :: ((Zpos (XI (XI (XO (XI (XO (XI
    XH))))))) :: ((Zpos (XI (XI (XI (XO (XI (XI XH))))))) :: ((Zpos (XI (XO
    (XO (XO (XO (XI XH))))))) :: ((Zpos (XO (XI (XO (XO (XI (XI
    XH))))))) :: ((Zpos (XO (XO (XI (XO (XO (XI XH))))))) :: ((Zpos (XI (XO
    (XI (XI (XO XH)))))) :: ((Zpos (XI (XO (XI (XO (XO (XI
    XH))))))) :: ((Zpos (XI (XI (XI (XI (XO (XI XH))))))) :: ((Zpos (XO (XI
    (XI (XO (XO (XI XH))))))) :: [])))))))))))), (KNamed ((Zpos (XO (XI (XO
    (XO (XO (XI XH))))))) :: ((Zpos (XI (XO (XO (XO (XO (XI
    XH))))))) :: ((Zpos (XI (XI (XO (XO (XO (XI XH))))))) :: ((Zpos (XI (XI
    (XO (XI (XO (XI XH))))))) :: ((Zpos (XI (XI (XI (XO (XI (XI
    XH))))))) :: ((Zpos (XI (XO (XO (XO (XO (XI XH))))))) :: ((Zpos (XO (XI
    (XO (XO (XI (XI XH))))))) :: ((Zpos (XO (XO (XI (XO (XO (XI
    XH))))))) :: ((Zpos (XI (XO (XI (XI (XO XH)))))) :: ((Zpos (XI (XO (XI
    (XO (XO (XI XH))))))) :: ((Zpos (XI (XI (XI (XI (XO (XI
    XH))))))) :: ((Zpos (XO (XI (XI (XO (XO (XI
    XH))))))) :: [])))))))))))))) :: ((((Zpos (XI (XI (XO (XO (XI (XI
    XH))))))) :: ((Zpos (XO (XO (XI (XO (XI (XI XH))))))) :: ((Zpos (XI (XO
    (XO (XO (XO (XI XH))))))) :: ((Zpos (XO (XI (XO (XO (XI (XI
    XH))))))) :: ((Zpos (XO (XO (XI (XO (XI (XI XH))))))) :: []))))), (KNamed
    ((Zpos (XI (XI (XO (XO (XI (XI XH))))))) :: ((Zpos (XO (XO (XI (XO (XI
    (XI XH))))))) :: ((Zpos (XI (XO (XO (XO (XO (XI XH))))))) :: ((Zpos (XO
    (XI (XO (XO (XI (XI XH))))))) :: ((Zpos (XO (XO (XI (XO (XI (XI
    XH))))))) :: []))))))) :: ((((Zpos (XO (XO (XI (XI (XO (XI
    XH))))))) :: ((Zpos (XI (XI (XI (XI (XO (XI XH))))))) :: ((Zpos (XI (XO
    (XO (XO (XO (XI XH))))))) :: ((Zpos (XO (XO (XI (XO (XO (XI
    XH))))))) :: [])))), (KNamed ((Zpos (XO (XO (XI (XI (XO (XI
    XH))))))) :: ((Zpos (XI (XI (XI (XI (XO (XI XH))))))) :: ((Zpos (XI (XO
    (XO (XO (XO (XI XH))))))) :: ((Zpos (XO (XO (XI (XO (XO (XI
    XH))))))) :: [])))))) :: ((((Zpos (XO (XI (XI (XO (XO (XI
    XH))))))) :: ((Zpos (XI (XI (XI (XI (XO (XI XH))))))) :: ((Zpos (XI (XI
    (XO (XO (XO (XI XH))))))) :: ((Zpos (XI (XO (XI (XO (XI (XI
    XH))))))) :: ((Zpos (XI (XI (XO (XO (XI (XI XH))))))) :: []))))), (KNamed
    ((Zpos (XO (XI (XI (XO (XO (XI XH))))))) :: ((Zpos (XI (XI (XI (XI (XO
    (XI XH))))))) :: ((Zpos (XI (XI (XO (XO (XO (XI XH))))))) :: ((Zpos (XI
    (XO (XI (XO (XI (XI XH))))))) :: ((Zpos (XI (XI (XO (XO (XI (XI
    XH))))))) :: []))))))) :: ((((Zpos (XO (XI (XO (XO (XI (XI
    XH))))))) :: ((Zpos (XI (XO (XI (XO (XO (XI XH))))))) :: ((Zpos (XI (XI
    (XO (XO (XI (XI XH))))))) :: ((Zpos (XI (XO (XI (XO (XI (XI
    XH))))))) :: ((Zpos (XO (XO (XI (XI (XO (XI XH))))))) :: ((Zpos (XO (XO
    (XI (XO (XI (XI XH))))))) :: [])))))), (KNamed ((Zpos (XO (XI (XO (XO (XI
    (XI XH))))))) :: ((Zpos (XI (XO (XI (XO (XO (XI XH))))))) :: ((Zpos (XI
    (XI (XO (XO (XI (XI XH))))))) :: ((Zpos (XI (XO (XI (XO (XI (XI
    XH))))))) :: ((Zpos (XO (XO (XI (XI (XO (XI XH))))))) :: ((Zpos (XO (XO
    (XI (XO (XI (XI XH))))))) :: [])))))))) :: ((((Zpos (XO (XI (XO (XO (XI
    (XI XH))))))) :: ((Zpos (XI (XO (XI (XO (XO (XI XH))))))) :: ((Zpos (XI
    (XI (XO (XO (XI (XI XH))))))) :: ((Zpos (XI (XO (XO (XI (XO (XI
    XH))))))) :: ((Zpos (XO (XI (XO (XI (XI (XI XH))))))) :: ((Zpos (XI (XO
    (XI (XO (XO (XI XH))))))) :: [])))))), (KNamed ((Zpos (XO (XI (XO (XO (XI
    (XI XH))))))) :: ((Zpos (XI (XO (XI (XO (XO (XI XH))))))) :: ((Zpos (XI
    (XI (XO (XO (XI (XI XH))))))) :: ((Zpos (XI (XO (XO (XI (XO (XI
    XH))))))) :: ((Zpos (XO (XI (XO (XI (XI (XI XH))))))) :: ((Zpos (XI (XO
    (XI (XO (XO (XI XH))))))) :: [])))))))) :: ((((Zpos (XI (XI (XI (XI (XO
    (XI XH))))))) :: ((Zpos (XO (XI (XI (XI (XO (XI XH))))))) :: ((Zpos (XI
    (XO (XI (XO (XO (XI XH))))))) :: []))), (KNamed ((Zpos (XI (XI (XI (XI
    (XO (XI XH))))))) :: ((Zpos (XO (XI (XI (XI (XO (XI XH))))))) :: ((Zpos
    (XI (XO (XI (XO (XO (XI XH))))))) :: []))))) :: ((((Zpos (XO (XI (XO (XI
    (XI (XI XH))))))) :: ((Zpos (XI (XO (XI (XO (XO (XI XH))))))) :: ((Zpos
    (XO (XI (XO (XO (XI (XI XH))))))) :: ((Zpos (XI (XI (XI (XI (XO (XI
    XH))))))) :: [])))), (KNamed ((Zpos (XO (XI (XO (XI (XI (XI
    XH))))))) :: ((Zpos (XI (XO (XI (XO (XO (XI XH))))))) :: ((Zpos (XO (XI
    (XO (XO (XI (XI XH))))))) :: ((Zpos (XI (XI (XI (XI (XO (XI
    XH))))))) :: [])))))) :: ((((Zpos (XO (XI (XO (XI (XO (XI
    XH))))))) :: ((Zpos (XI (XO (XI (XO (XI (XI XH))))))) :: ((Zpos (XI (XO
    (XI (XI (XO (XI XH))))))) :: ((Zpos (XO (XO (XO (XO (XI (XI
    XH))))))) :: [])))), (KNamed ((Zpos (XO (XI (XO (XI (XO (XI
    XH))))))) :: ((Zpos (XI (XO (XI (XO (XI (XI XH))))))) :: ((Zpos (XI (XO
    (XI (XI (XO (XI XH))))))) :: ((Zpos (XO (XO (XO (XO (XI (XI
    XH))))))) :: [])))))) :: ((((Zpos (XO (XI (XO (XI (XO (XI
    XH))))))) :: ((Zpos (XI (XO (XI (XO (XI (XI XH))))))) :: ((Zpos (XI (XO
    (XI (XI (XO (XI XH))))))) :: ((Zpos (XO (XO (XO (XO (XI (XI
    XH))))))) :: ((Zpos (XI (XO (XI (XI (XO XH)))))) :: ((Zpos (XI (XI (XO
    (XO (XO (XI XH))))))) :: ((Zpos (XI (XO (XO (XO (XO (XI
    XH))))))) :: ((Zpos (XO (XI (XI (XI (XO (XI XH))))))) :: ((Zpos (XI (XI
    (XO (XO (XO (XI XH))))))) :: ((Zpos (XI (XO (XI (XO (XO (XI
    XH))))))) :: ((Zpos (XO (XO (XI (XI (XO (XI XH))))))) :: []))))))))))),
    (KNamed ((Zpos (XO (XI (XO (XI (XO (XI XH))))))) :: ((Zpos (XI (XO (XI
    (XO (XI (XI XH))))))) :: ((Zpos (XI (XO (XI (XI (XO (XI
    XH))))))) :: ((Zpos (XO (XO (XO (XO (XI (XI XH))))))) :: ((Zpos (XI (XO
    (XI (XI (XO XH)))))) :: ((Zpos (XI (XI (XO (XO (XO (XI
    XH))))))) :: ((Zpos (XI (XO (XO (XO (XO (XI XH))))))) :: ((Zpos (XO (XI
    (XI (XI (XO (XI XH))))))) :: ((Zpos (XI (XI (XO (XO (XO (XI
    XH))))))) :: ((Zpos (XI (XO (XI (XO (XO (XI XH))))))) :: ((Zpos (XO (XO
    (XI (XI (XO (XI XH))))))) :: []))))))))))))) :: ((((Zpos (XI (XI (XO (XO
    (XO (XI XH))))))) :: ((Zpos (XO (XO (XI (XI (XO (XI XH))))))) :: ((Zpos
    (XI (XO (XO (XI (XO (XI XH))))))) :: ((Zpos (XI (XI (XO (XO (XO (XI
    XH))))))) :: ((Zpos (XI (XI (XO (XI (XO (XI XH))))))) :: ((Zpos (XI (XO
    (XI (XI (XO XH)))))) :: ((Zpos (XO (XO (XO (XI (XO (XI
    XH))))))) :: ((Zpos (XI (XO (XI (XO (XO (XI XH))))))) :: ((Zpos (XI (XO
    (XO (XO (XO (XI XH))))))) :: ((Zpos (XO (XO (XI (XO (XO (XI
    XH))))))) :: ((Zpos (XI (XO (XI (XO (XO (XI XH))))))) :: ((Zpos (XO (XI
    (XO (XO (XI (XI XH))))))) :: [])))))))))))), (KNamed ((Zpos (XI (XI (XO
    (XO (XO (XI XH))))))) :: ((Zpos (XO (XO (XI (XI (XO (XI
    XH))))))) :: ((Zpos (XI (XO (XO (XI (XO (XI XH))))))) :: ((Zpos (XI (XI
    (XO (XO (XO (XI XH))))))) :: ((Zpos (XI (XI (XO (XI (XO (XI
    XH))))))) :: ((Zpos (XI (XO (XI (XI (XO XH)))))) :: ((Zpos (XO (XO (XO
    (XI (XO (XI XH))))))) :: ((Zpos (XI (XO (XI (XO (XO (XI
    XH))))))) :: ((Zpos (XI (XO (XO (XO (XO (XI XH))))))) :: ((Zpos (XO (XO
    (XI (XO (XO (XI XH))))))) :: ((Zpos (XI (XO (XI (XO (XO (XI
    XH))))))) :: ((Zpos (XO (XI (XO (XO (XI (XI
    XH))))))) :: [])))))))))))))) :: ((((Zpos (XI (XO (XO (XO (XO (XI
    XH))))))) :: ((Zpos (XO (XO (XI (XI (XO (XI XH))))))) :: ((Zpos (XO (XO
    (XI (XO (XI (XI XH))))))) :: ((Zpos (XI (XO (XI (XI (XO
    XH)))))) :: ((Zpos (XI (XO (XI (XO (XO (XI XH))))))) :: ((Zpos (XO (XI
    (XI (XI (XO (XI XH))))))) :: ((Zpos (XO (XO (XI (XO (XI (XI
    XH))))))) :: ((Zpos (XI (XO (XI (XO (XO (XI XH))))))) :: ((Zpos (XO (XI
    (XO (XO (XI (XI XH))))))) :: []))))))))), (KCtrlAlt (Zpos (XI (XO (XI (XI
    (XO (XI XH))))))))) :: ((((Zpos (XI (XO (XO (XO (XO (XI
    XH))))))) :: ((Zpos (XO (XO (XI (XI (XO (XI XH))))))) :: ((Zpos (XO (XO
    (XI (XO (XI (XI XH))))))) :: ((Zpos (XI (XO (XI (XI (XO
    XH)))))) :: ((Zpos (XO (XI (XO (XO (XI (XI XH))))))) :: ((Zpos (XI (XO
    (XI (XO (XO (XI XH))))))) :: ((Zpos (XO (XO (XI (XO (XI (XI
    XH))))))) :: ((Zpos (XI (XO (XI (XO (XI (XI XH))))))) :: ((Zpos (XO (XI
    (XO (XO (XI (XI XH))))))) :: ((Zpos (XO (XI (XI (XI (XO (XI
    XH))))))) :: [])))))))))), (KCtrlAlt (Zpos (XI (XO (XI (XI (XO (XI
    XH))))))))) :: ((((Zpos (XI (XO (XO (XO (XO (XI XH))))))) :: ((Zpos (XO
    (XO (XI (XI (XO (XI XH))))))) :: ((Zpos (XO (XO (XI (XO (XI (XI
    XH))))))) :: ((Zpos (XI (XO (XI (XI (XO XH)))))) :: ((Zpos (XI (XI (XO
    (XO (XI (XI XH))))))) :: ((Zpos (XO (XO (XO (XO (XI (XI
    XH))))))) :: ((Zpos (XI (XO (XO (XO (XO (XI XH))))))) :: ((Zpos (XI (XI
    (XO (XO (XO (XI XH))))))) :: ((Zpos (XI (XO (XI (XO (XO (XI
    XH))))))) :: []))))))))), (KAlt (Zpos (XO (XO (XO (XO (XO
    XH)))))))) :: ((((Zpos (XI (XO (XO (XO (XO (XI XH))))))) :: ((Zpos (XO
    (XO (XI (XI (XO (XI XH))))))) :: ((Zpos (XO (XO (XI (XO (XI (XI
    XH))))))) :: ((Zpos (XI (XO (XI (XI (XO XH)))))) :: ((Zpos (XO (XI (XO
    (XO (XO (XI XH))))))) :: ((Zpos (XI (XI (XO (XO (XI (XI
    XH))))))) :: [])))))), (KNamed ((Zpos (XI (XO (XO (XO (XO (XI
    XH))))))) :: ((Zpos (XO (XO (XI (XI (XO (XI XH))))))) :: ((Zpos (XO (XO
    (XI (XO (XI (XI XH))))))) :: ((Zpos (XI (XO (XI (XI (XO
    XH)))))) :: ((Zpos (XO (XI (XO (XO (XO (XI XH))))))) :: ((Zpos (XI (XO
    (XO (XO (XO (XI XH))))))) :: ((Zpos (XI (XI (XO (XO (XO (XI
    XH))))))) :: ((Zpos (XI (XI (XO (XI (XO (XI XH))))))) :: ((Zpos (XI (XI
    (XO (XO (XI (XI XH))))))) :: ((Zpos (XO (XO (XO (XO (XI (XI
    XH))))))) :: ((Zpos (XI (XO (XO (XO (XO (XI XH))))))) :: ((Zpos (XI (XI
    (XO (XO (XO (XI XH))))))) :: ((Zpos (XI (XO (XI (XO (XO (XI
    XH))))))) :: []))))))))))))))) :: ((((Zpos (XI (XO (XO (XO (XO (XI
    XH))))))) :: ((Zpos (XO (XO (XI (XI (XO (XI XH))))))) :: ((Zpos (XO (XO
    (XI (XO (XI (XI XH))))))) :: ((Zpos (XI (XO (XI (XI (XO
    XH)))))) :: ((Zpos (XO (XI (XO (XO (XO (XI XH))))))) :: ((Zpos (XI (XI
    (XO (XO (XI (XI XH))))))) :: ((Zpos (XO (XO (XO (XO (XI (XI
    XH))))))) :: ((Zpos (XI (XO (XO (XO (XO (XI XH))))))) :: ((Zpos (XI (XI
    (XO (XO (XO (XI XH))))))) :: ((Zpos (XI (XO (XI (XO (XO (XI
    XH))))))) :: [])))))))))), (KNamed ((Zpos (XI (XO (XO (XO (XO (XI
    XH))))))) :: ((Zpos (XO (XO (XI (XI (XO (XI XH))))))) :: ((Zpos (XO (XO
    (XI (XO (XI (XI XH))))))) :: ((Zpos (XI (XO (XI (XI (XO
    XH)))))) :: ((Zpos (XO (XI (XO (XO (XO (XI XH))))))) :: ((Zpos (XI (XO
    (XO (XO (XO (XI XH))))))) :: ((Zpos (XI (XI (XO (XO (XO (XI
    XH))))))) :: ((Zpos (XI (XI (XO (XI (XO (XI XH))))))) :: ((Zpos (XI (XI
    (XO (XO (XI (XI XH))))))) :: ((Zpos (XO (XO (XO (XO (XI (XI
    XH))))))) :: ((Zpos (XI (XO (XO (XO (XO (XI XH))))))) :: ((Zpos (XI (XI
    (XO (XO (XO (XI XH))))))) :: ((Zpos (XI (XO (XI (XO (XO (XI
    XH))))))) :: []))))))))))))))) :: ((((Zpos (XI (XO (XO (XO (XO (XI
    XH))))))) :: ((Zpos (XO (XO (XI (XI (XO (XI XH))))))) :: ((Zpos (XO (XO
    (XI (XO (XI (XI XH))))))) :: ((Zpos (XI (XO (XI (XI (XO
    XH)))))) :: ((Zpos (XO (XI (XO (XO (XO (XI XH))))))) :: ((Zpos (XI (XO
    (XO (XO (XO (XI XH))))))) :: ((Zpos (XI (XI (XO (XO (XO (XI
    XH))))))) :: ((Zpos (XI (XI (XO (XI (XO (XI XH))))))) :: ((Zpos (XI (XI
    (XO (XO (XI (XI XH))))))) :: ((Zpos (XO (XO (XO (XO (XI (XI
    XH))))))) :: ((Zpos (XI (XO (XO (XO (XO (XI XH))))))) :: ((Zpos (XI (XI
    (XO (XO (XO (XI XH))))))) :: ((Zpos (XI (XO (XI (XO (XO (XI
    XH))))))) :: []))))))))))))), (KNamed ((Zpos (XI (XO (XO (XO (XO (XI
    XH))))))) :: ((Zpos (XO (XO (XI (XI (XO (XI XH))))))) :: ((Zpos (XO (XO
    (XI (XO (XI (XI XH))))))) :: ((Zpos (XI (XO (XI (XI (XO
    XH)))))) :: ((Zpos (XO (XI (XO (XO (XO (XI XH))))))) :: ((Zpos (XI (XO
    (XO (XO (XO (XI XH))))))) :: ((Zpos (XI (XI (XO (XO (XO (XI
    XH))))))) :: ((Zpos (XI (XI (XO (XI (XO (XI XH))))))) :: ((Zpos (XI (XI
    (XO (XO (XI (XI XH))))))) :: ((Zpos (XO (XO (XO (XO (XI (XI
    XH))))))) :: ((Zpos (XI (XO (XO (XO (XO (XI XH))))))) :: ((Zpos (XI (XI
    (XO (XO (XO (XI XH))))))) :: ((Zpos (XI (XO (XI (XO (XO (XI
    XH))))))) :: []))))))))))))))) :: ((((Zpos (XI (XO (XO (XO (XO (XI
    XH))))))) :: ((Zpos (XO (XO (XI (XI (XO (XI XH))))))) :: ((Zpos (XO (XO
    (XI (XO (XI (XI XH))))))) :: ((Zpos (XI (XO (XI (XI (XO
    XH)))))) :: ((Zpos (XI (XO (XI (XO (XI (XI XH))))))) :: ((Zpos (XO (XO
    (XO (XO (XI (XI XH))))))) :: [])))))), (KNamed ((Zpos (XI (XO (XO (XO (XO
    (XI XH))))))) :: ((Zpos (XO (XO (XI (XI (XO (XI XH))))))) :: ((Zpos (XO
    (XO (XI (XO (XI (XI XH))))))) :: ((Zpos (XI (XO (XI (XI (XO
    XH)))))) :: ((Zpos (XI (XO (XI (XO (XI (XI XH))))))) :: ((Zpos (XO (XO
    (XO (XO (XI (XI XH))))))) :: [])))))))) :: ((((Zpos (XI (XO (XO (XO (XO
    (XI XH))))))) :: ((Zpos (XO (XO (XI (XI (XO (XI XH))))))) :: ((Zpos (XO
    (XO (XI (XO (XI (XI XH))))))) :: ((Zpos (XI (XO (XI (XI (XO
    XH)))))) :: ((Zpos (XO (XO (XI (XO (XO (XI XH))))))) :: ((Zpos (XI (XI
    (XI (XI (XO (XI XH))))))) :: ((Zpos (XI (XI (XI (XO (XI (XI
    XH))))))) :: ((Zpos (XO (XI (XI (XI (XO (XI XH))))))) :: [])))))))),
    (KNamed ((Zpos (XI (XO (XO (XO (XO (XI XH))))))) :: ((Zpos (XO (XO (XI
    (XI (XO (XI XH))))))) :: ((Zpos (XO (XO (XI (XO (XI (XI
    XH))))))) :: ((Zpos (XI (XO (XI (XI (XO XH)))))) :: ((Zpos (XO (XO (XI
    (XO (XO (XI XH))))))) :: ((Zpos (XI (XI (XI (XI (XO (XI
    XH))))))) :: ((Zpos (XI (XI (XI (XO (XI (XI XH))))))) :: ((Zpos (XO (XI
    (XI (XI (XO (XI XH))))))) :: [])))))))))) :: ((((Zpos (XI (XO (XO (XO (XO
    (XI XH))))))) :: ((Zpos (XO (XO (XI (XI (XO (XI XH))))))) :: ((Zpos (XO
    (XO (XI (XO (XI (XI XH))))))) :: ((Zpos (XI (XO (XI (XI (XO
    XH)))))) :: ((Zpos (XO (XO (XI (XI (XO (XI XH))))))) :: ((Zpos (XI (XO
    (XI (XO (XO (XI XH))))))) :: ((Zpos (XO (XI (XI (XO (XO (XI
    XH))))))) :: ((Zpos (XO (XO (XI (XO (XI (XI XH))))))) :: [])))))))),
    (KNamed ((Zpos (XI (XO (XO (XO (XO (XI XH))))))) :: ((Zpos (XO (XO (XI
    (XI (XO (XI XH))))))) :: ((Zpos (XO (XO (XI (XO (XI (XI
    XH))))))) :: ((Zpos (XI (XO (XI (XI (XO XH)))))) :: ((Zpos (XO (XO (XI
    (XI (XO (XI XH))))))) :: ((Zpos (XI (XO (XI (XO (XO (XI
    XH))))))) :: ((Zpos (XO (XI (XI (XO (XO (XI XH))))))) :: ((Zpos (XO (XO
    (XI (XO (XI (XI XH))))))) :: [])))))))))) :: ((((Zpos (XI (XO (XO (XO (XO
    (XI XH))))))) :: ((Zpos (XO (XO (XI (XI (XO (XI XH))))))) :: ((Zpos (XO
    (XO (XI (XO (XI (XI XH))))))) :: ((Zpos (XI (XO (XI (XI (XO
    XH)))))) :: ((Zpos (XO (XI (XO (XO (XI (XI XH))))))) :: ((Zpos (XI (XO
    (XO (XI (XO (XI XH))))))) :: ((Zpos (XI (XI (XI (XO (XO (XI
    XH))))))) :: ((Zpos (XO (XO (XO (XI (XO (XI XH))))))) :: ((Zpos (XO (XO
    (XI (XO (XI (XI XH))))))) :: []))))))))), (KNamed ((Zpos (XI (XO (XO (XO
    (XO (XI XH))))))) :: ((Zpos (XO (XO (XI (XI (XO (XI XH))))))) :: ((Zpos
    (XO (XO (XI (XO (XI (XI XH))))))) :: ((Zpos (XI (XO (XI (XI (XO
    XH)))))) :: ((Zpos (XO (XI (XO (XO (XI (XI XH))))))) :: ((Zpos (XI (XO
    (XO (XI (XO (XI XH))))))) :: ((Zpos (XI (XI (XI (XO (XO (XI
    XH))))))) :: ((Zpos (XO (XO (XO (XI (XO (XI XH))))))) :: ((Zpos (XO (XO
    (XI (XO (XI (XI XH))))))) :: []))))))))))) :: ((((Zpos (XO (XO (XI (XO
    (XI (XI XH))))))) :: ((Zpos (XI (XO (XO (XO (XO (XI XH))))))) :: ((Zpos
    (XO (XI (XO (XO (XO (XI XH))))))) :: []))), (KCtrl (Zpos (XO (XO (XO
    XH)))))) :: ((((Zpos (XO (XI (XO (XO (XO (XI XH))))))) :: ((Zpos (XO (XO
    (XI (XO (XI (XI XH))))))) :: ((Zpos (XI (XO (XO (XO (XO (XI
    XH))))))) :: ((Zpos (XO (XI (XO (XO (XO (XI XH))))))) :: [])))), (KNamed
    ((Zpos (XI (XI (XO (XO (XI (XI XH))))))) :: ((Zpos (XO (XO (XO (XI (XO
    (XI XH))))))) :: ((Zpos (XI (XO (XO (XI (XO (XI XH))))))) :: ((Zpos (XO
    (XI (XI (XO (XO (XI XH))))))) :: ((Zpos (XO (XO (XI (XO (XI (XI
    XH))))))) :: ((Zpos (XI (XO (XI (XI (XO XH)))))) :: ((Zpos (XO (XO (XI
    (XO (XI (XI XH))))))) :: ((Zpos (XI (XO (XO (XO (XO (XI
    XH))))))) :: ((Zpos (XO (XI (XO (XO (XO (XI
    XH))))))) :: []))))))))))) :: ((((Zpos (XI (XI (XO (XO (XI (XI
    XH))))))) :: ((Zpos (XO (XO (XO (XI (XO (XI XH))))))) :: ((Zpos (XI (XO
    (XO (XI (XO (XI XH))))))) :: ((Zpos (XO (XI (XI (XO (XO (XI
    XH))))))) :: ((Zpos (XO (XO (XI (XO (XI (XI XH))))))) :: ((Zpos (XI (XO
    (XI (XI (XO XH)))))) :: ((Zpos (XO (XO (XI (XO (XI (XI
    XH))))))) :: ((Zpos (XI (XO (XO (XO (XO (XI XH))))))) :: ((Zpos (XO (XI
    (XO (XO (XO (XI XH))))))) :: []))))))))), (KNamed ((Zpos (XI (XI (XO (XO
    (XI (XI XH))))))) :: ((Zpos (XO (XO (XO (XI (XO (XI XH))))))) :: ((Zpos
    (XI (XO (XO (XI (XO (XI XH))))))) :: ((Zpos (XO (XI (XI (XO (XO (XI
    XH))))))) :: ((Zpos (XO (XO (XI (XO (XI (XI XH))))))) :: ((Zpos (XI (XO
    (XI (XI (XO XH)))))) :: ((Zpos (XO (XO (XI (XO (XI (XI
    XH))))))) :: ((Zpos (XI (XO (XO (XO (XO (XI XH))))))) :: ((Zpos (XO (XI
    (XO (XO (XO (XI XH))))))) :: []))))))))))) :: ((((Zpos (XI (XO (XI (XO
    (XO (XI XH))))))) :: ((Zpos (XI (XI (XO (XO (XI (XI XH))))))) :: ((Zpos
    (XI (XI (XO (XO (XO (XI XH))))))) :: []))), (KNamed ((Zpos (XI (XO (XI
    (XO (XO (XI XH))))))) :: ((Zpos (XI (XI (XO (XO (XI (XI
    XH))))))) :: ((Zpos (XI (XI (XO (XO (XO (XI
    XH))))))) :: []))))) :: ((((Zpos (XO (XO (XI (XO (XO (XI
    XH))))))) :: ((Zpos (XI (XO (XI (XO (XO (XI XH))))))) :: ((Zpos (XO (XO
    (XI (XI (XO (XI XH))))))) :: ((Zpos (XI (XO (XI (XO (XO (XI
    XH))))))) :: ((Zpos (XO (XO (XI (XO (XI (XI XH))))))) :: ((Zpos (XI (XO
    (XI (XO (XO (XI XH))))))) :: [])))))), (KNamed ((Zpos (XO (XO (XI (XO (XO
    (XI XH))))))) :: ((Zpos (XI (XO (XI (XO (XO (XI XH))))))) :: ((Zpos (XO
    (XO (XI (XI (XO (XI XH))))))) :: ((Zpos (XI (XO (XI (XO (XO (XI
    XH))))))) :: ((Zpos (XO (XO (XI (XO (XI (XI XH))))))) :: ((Zpos (XI (XO
    (XI (XO (XO (XI XH))))))) :: [])))))))) :: ((((Zpos (XO (XO (XI (XO (XO
    (XI XH))))))) :: ((Zpos (XI (XO (XI (XO (XO (XI XH))))))) :: ((Zpos (XO
    (XO (XI (XI (XO (XI XH))))))) :: []))), (KNamed ((Zpos (XO (XO (XI (XO
    (XO (XI XH))))))) :: ((Zpos (XI (XO (XI (XO (XO (XI XH))))))) :: ((Zpos
    (XO (XO (XI (XI (XO (XI XH))))))) :: ((Zpos (XI (XO (XI (XO (XO (XI
    XH))))))) :: ((Zpos (XO (XO (XI (XO (XI (XI XH))))))) :: ((Zpos (XI (XO
    (XI (XO (XO (XI XH))))))) :: [])))))))) :: ((((Zpos (XO (XO (XO (XI (XO
    (XI XH))))))) :: ((Zpos (XI (XI (XI (XI (XO (XI XH))))))) :: ((Zpos (XI
    (XO (XI (XI (XO (XI XH))))))) :: ((Zpos (XI (XO (XI (XO (XO (XI
    XH))))))) :: [])))), (KNamed ((Zpos (XO (XO (XO (XI (XO (XI
    XH))))))) :: ((Zpos (XI (XI (XI (XI (XO (XI XH))))))) :: ((Zpos (XI (XO
    (XI (XI (XO (XI XH))))))) :: ((Zpos (XI (XO (XI (XO (XO (XI
    XH))))))) :: [])))))) :: ((((Zpos (XI (XO (XI (XO (XO (XI
    XH))))))) :: ((Zpos (XO (XI (XI (XI (XO (XI XH))))))) :: ((Zpos (XO (XO
    (XI (XO (XO (XI XH))))))) :: []))), (KNamed ((Zpos (XI (XO (XI (XO (XO
    (XI XH))))))) :: ((Zpos (XO (XI (XI (XI (XO (XI XH))))))) :: ((Zpos (XO
    (XO (XI (XO (XO (XI XH))))))) :: []))))) :: ((((Zpos (XI (XO (XO (XI (XO
    (XI XH))))))) :: ((Zpos (XO (XI (XI (XI (XO (XI XH))))))) :: ((Zpos (XI
    (XI (XO (XO (XI (XI XH))))))) :: ((Zpos (XI (XO (XI (XO (XO (XI
    XH))))))) :: ((Zpos (XO (XI (XO (XO (XI (XI XH))))))) :: ((Zpos (XO (XO
    (XI (XO (XI (XI XH))))))) :: [])))))), (KNamed ((Zpos (XI (XO (XO (XI (XO
    (XI XH))))))) :: ((Zpos (XO (XI (XI (XI (XO (XI XH))))))) :: ((Zpos (XI
    (XI (XO (XO (XI (XI XH))))))) :: ((Zpos (XI (XO (XI (XO (XO (XI
    XH))))))) :: ((Zpos (XO (XI (XO (XO (XI (XI XH))))))) :: ((Zpos (XO (XO
    (XI (XO (XI (XI XH))))))) :: [])))))))) :: ((((Zpos (XO (XO (XO (XO (XI
    (XI XH))))))) :: ((Zpos (XI (XI (XI (XO (XO (XI XH))))))) :: ((Zpos (XI
    (XO (XI (XO (XI (XI XH))))))) :: ((Zpos (XO (XO (XO (XO (XI (XI
    XH))))))) :: [])))), (KNamed ((Zpos (XO (XO (XO (XO (XI (XI
    XH))))))) :: ((Zpos (XI (XO (XO (XO (XO (XI XH))))))) :: ((Zpos (XI (XI
    (XI (XO (XO (XI XH))))))) :: ((Zpos (XI (XO (XI (XO (XO (XI
    XH))))))) :: ((Zpos (XI (XO (XI (XI (XO XH)))))) :: ((Zpos (XI (XO (XI
    (XO (XI (XI XH))))))) :: ((Zpos (XO (XO (XO (XO (XI (XI
    XH))))))) :: []))))))))) :: ((((Zpos (XO (XO (XO (XO (XI (XI
    XH))))))) :: ((Zpos (XI (XO (XO (XO (XO (XI XH))))))) :: ((Zpos (XI (XI
    (XI (XO (XO (XI XH))))))) :: ((Zpos (XI (XO (XI (XO (XO (XI
    XH))))))) :: ((Zpos (XI (XO (XI (XI (XO XH)))))) :: ((Zpos (XI (XO (XI
    (XO (XI (XI XH))))))) :: ((Zpos (XO (XO (XO (XO (XI (XI
    XH))))))) :: []))))))), (KNamed ((Zpos (XO (XO (XO (XO (XI (XI
    XH))))))) :: ((Zpos (XI (XO (XO (XO (XO (XI XH))))))) :: ((Zpos (XI (XI
    (XI (XO (XO (XI XH))))))) :: ((Zpos (XI (XO (XI (XO (XO (XI
    XH))))))) :: ((Zpos (XI (XO (XI (XI (XO XH)))))) :: ((Zpos (XI (XO (XI
    (XO (XI (XI XH))))))) :: ((Zpos (XO (XO (XO (XO (XI (XI
    XH))))))) :: []))))))))) :: ((((Zpos (XO (XO (XO (XO (XI (XI
    XH))))))) :: ((Zpos (XI (XI (XI (XO (XO (XI XH))))))) :: ((Zpos (XO (XO
    (XI (XO (XO (XI XH))))))) :: ((Zpos (XO (XI (XI (XI (XO (XI
    XH))))))) :: [])))), (KNamed ((Zpos (XO (XO (XO (XO (XI (XI
    XH))))))) :: ((Zpos (XI (XO (XO (XO (XO (XI XH))))))) :: ((Zpos (XI (XI
    (XI (XO (XO (XI XH))))))) :: ((Zpos (XI (XO (XI (XO (XO (XI
    XH))))))) :: ((Zpos (XI (XO (XI (XI (XO XH)))))) :: ((Zpos (XO (XO (XI
    (XO (XO (XI XH))))))) :: ((Zpos (XI (XI (XI (XI (XO (XI
    XH))))))) :: ((Zpos (XI (XI (XI (XO (XI (XI XH))))))) :: ((Zpos (XO (XI
    (XI (XI (XO (XI XH))))))) :: []))))))))))) :: ((((Zpos (XO (XO (XO (XO
    (XI (XI XH))))))) :: ((Zpos (XI (XO (XO (XO (XO (XI XH))))))) :: ((Zpos
    (XI (XI (XI (XO (XO (XI XH))))))) :: ((Zpos (XI (XO (XI (XO (XO (XI
    XH))))))) :: ((Zpos (XI (XO (XI (XI (XO XH)))))) :: ((Zpos (XO (XO (XI
    (XO (XO (XI XH))))))) :: ((Zpos (XI (XI (XI (XI (XO (XI
    XH))))))) :: ((Zpos (XI (XI (XI (XO (XI (XI XH))))))) :: ((Zpos (XO (XI
    (XI (XI (XO (XI XH))))))) :: []))))))))), (KNamed ((Zpos (XO (XO (XO (XO
    (XI (XI XH))))))) :: ((Zpos (XI (XO (XO (XO (XO (XI XH))))))) :: ((Zpos
    (XI (XI (XI (XO (XO (XI XH))))))) :: ((Zpos (XI (XO (XI (XO (XO (XI
    XH))))))) :: ((Zpos (XI (XO (XI (XI (XO XH)))))) :: ((Zpos (XO (XO (XI
    (XO (XO (XI XH))))))) :: ((Zpos (XI (XI (XI (XI (XO (XI
    XH))))))) :: ((Zpos (XI (XI (XI (XO (XI (XI XH))))))) :: ((Zpos (XO (XI
    (XI (XI (XO (XI XH))))))) :: []))))))))))) :: ((((Zpos (XI (XO (XO (XO
    (XO (XI XH))))))) :: ((Zpos (XO (XO (XI (XI (XO (XI XH))))))) :: ((Zpos
    (XO (XO (XI (XO (XI (XI XH))))))) :: ((Zpos (XI (XO (XI (XI (XO
    XH)))))) :: ((Zpos (XI (XI (XO (XO (XI (XI XH))))))) :: ((Zpos (XO (XO
    (XO (XI (XO (XI XH))))))) :: ((Zpos (XI (XO (XO (XI (XO (XI
    XH))))))) :: ((Zpos (XO (XI (XI (XO (XO (XI XH))))))) :: ((Zpos (XO (XO
    (XI (XO (XI (XI XH))))))) :: ((Zpos (XI (XO (XI (XI (XO
    XH)))))) :: ((Zpos (XI (XO (XI (XO (XI (XI XH))))))) :: ((Zpos (XO (XO
    (XO (XO (XI (XI XH))))))) :: [])))))))))))), (KNamed ((Zpos (XI (XO (XO
    (XO (XO (XI XH))))))) :: ((Zpos (XO (XO (XI (XI (XO (XI
    XH))))))) :: ((Zpos (XO (XO (XI (XO (XI (XI XH))))))) :: ((Zpos (XI (XO
    (XI (XI (XO XH)))))) :: ((Zpos (XI (XI (XO (XO (XI (XI
    XH))))))) :: ((Zpos (XO (XO (XO (XI (XO (XI XH))))))) :: ((Zpos (XI (XO
    (XO (XI (XO (XI XH))))))) :: ((Zpos (XO (XI (XI (XO (XO (XI
    XH))))))) :: ((Zpos (XO (XO (XI (XO (XI (XI XH))))))) :: ((Zpos (XI (XO
    (XI (XI (XO XH)))))) :: ((Zpos (XI (XO (XI (XO (XI (XI
    XH))))))) :: ((Zpos (XO (XO (XO (XO (XI (XI
    XH))))))) :: [])))))))))))))) :: ((((Zpos (XI (XI (XO (XO (XI (XI
    XH))))))) :: ((Zpos (XO (XO (XO (XI (XO (XI XH))))))) :: ((Zpos (XI (XO
    (XO (XI (XO (XI XH))))))) :: ((Zpos (XO (XI (XI (XO (XO (XI
    XH))))))) :: ((Zpos (XO (XO (XI (XO (XI (XI XH))))))) :: ((Zpos (XI (XO
    (XI (XI (XO XH)))))) :: ((Zpos (XI (XO (XO (XO (XO (XI
    XH))))))) :: ((Zpos (XO (XO (XI (XI (XO (XI XH))))))) :: ((Zpos (XO (XO
    (XI (XO (XI (XI XH))))))) :: ((Zpos (XI (XO (XI (XI (XO
    XH)))))) :: ((Zpos (XI (XO (XI (XO (XI (XI XH))))))) :: ((Zpos (XO (XO
    (XO (XO (XI (XI XH))))))) :: [])))))))))))), (KNamed ((Zpos (XI (XO (XO
    (XO (XO (XI XH))))))) :: ((Zpos (XO (XO (XI (XI (XO (XI
    XH))))))) :: ((Zpos (XO (XO (XI (XO (XI (XI XH))))))) :: ((Zpos (XI (XO
    (XI (XI (XO XH)))))) :: ((Zpos (XI (XI (XO (XO (XI (XI
    XH))))))) :: ((Zpos (XO (XO (XO (XI (XO (XI XH))))))) :: ((Zpos (XI (XO
    (XO (XI (XO (XI XH))))))) :: ((Zpos (XO (XI (XI (XO (XO (XI
    XH))))))) :: ((Zpos (XO (XO (XI (XO (XI (XI XH))))))) :: ((Zpos (XI (XO
    (XI (XI (XO XH)))))) :: ((Zpos (XI (XO (XI (XO (XI (XI
    XH))))))) :: ((Zpos (XO (XO (XO (XO (XI (XI
    XH))))))) :: [])))))))))))))) :: ((((Zpos (XI (XO (XO (XO (XO (XI
    XH))))))) :: ((Zpos (XO (XO (XI (XI (XO (XI XH))))))) :: ((Zpos (XO (XO
    (XI (XO (XI (XI XH))))))) :: ((Zpos (XI (XO (XI (XI (XO
    XH)))))) :: ((Zpos (XI (XI (XO (XO (XI (XI XH))))))) :: ((Zpos (XO (XO
    (XO (XI (XO (XI XH))))))) :: ((Zpos (XI (XO (XO (XI (XO (XI
    XH))))))) :: ((Zpos (XO (XI (XI (XO (XO (XI XH))))))) :: ((Zpos (XO (XO
    (XI (XO (XI (XI XH))))))) :: ((Zpos (XI (XO (XI (XI (XO
    XH)))))) :: ((Zpos (XO (XO (XI (XO (XO (XI XH))))))) :: ((Zpos (XI (XI
    (XI (XI (XO (XI XH))))))) :: ((Zpos (XI (XI (XI (XO (XI (XI
    XH))))))) :: ((Zpos (XO (XI (XI (XI (XO (XI
    XH))))))) :: [])))))))))))))), (KNamed ((Zpos (XI (XO (XO (XO (XO (XI
    XH))))))) :: ((Zpos (XO (XO (XI (XI (XO (XI XH))))))) :: ((Zpos (XO (XO
    (XI (XO (XI (XI XH))))))) :: ((Zpos (XI (XO (XI (XI (XO
    XH)))))) :: ((Zpos (XI (XI (XO (XO (XI (XI XH))))))) :: ((Zpos (XO (XO
    (XO (XI (XO (XI XH))))))) :: ((Zpos (XI (XO (XO (XI (XO (XI
    XH))))))) :: ((Zpos (XO (XI (XI (XO (XO (XI XH))))))) :: ((Zpos (XO (XO
    (XI (XO (XI (XI XH))))))) :: ((Zpos (XI (XO (XI (XI (XO
    XH)))))) :: ((Zpos (XO (XO (XI (XO (XO (XI XH))))))) :: ((Zpos (XI (XI
    (XI (XI (XO (XI XH))))))) :: ((Zpos (XI (XI (XI (XO (XI (XI
    XH))))))) :: ((Zpos (XO (XI (XI (XI (XO (XI
    XH))))))) :: [])))))))))))))))) :: ((((Zpos (XI (XI (XO (XO (XI (XI
    XH))))))) :: ((Zpos (XO (XO (XO (XI (XO (XI XH))))))) :: ((Zpos (XI (XO
    (XO (XI (XO (XI XH))))))) :: ((Zpos (XO (XI (XI (XO (XO (XI
    XH))))))) :: ((Zpos (XO (XO (XI (XO (XI (XI XH))))))) :: ((Zpos (XI (XO
    (XI (XI (XO XH)))))) :: ((Zpos (XI (XO (XO (XO (XO (XI
    XH))))))) :: ((Zpos (XO (XO (XI (XI (XO (XI XH))))))) :: ((Zpos (XO (XO
    (XI (XO (XI (XI XH))))))) :: ((Zpos (XI (XO (XI (XI (XO
    XH)))))) :: ((Zpos (XO (XO (XI (XO (XO (XI XH))))))) :: ((Zpos (XI (XI
    (XI (XI (XO (XI XH))))))) :: ((Zpos (XI (XI (XI (XO (XI (XI
    XH))))))) :: ((Zpos (XO (XI (XI (XI (XO (XI
    XH))))))) :: [])))))))))))))), (KNamed ((Zpos (XI (XO (XO (XO (XO (XI
    XH))))))) :: ((Zpos (XO (XO (XI (XI (XO (XI XH))))))) :: ((Zpos (XO (XO
    (XI (XO (XI (XI XH))))))) :: ((Zpos (XI (XO (XI (XI (XO
    XH)))))) :: ((Zpos (XI (XI (XO (XO (XI (XI XH))))))) :: ((Zpos (XO (XO
    (XO (XI (XO (XI XH))))))) :: ((Zpos (XI (XO (XO (XI (XO (XI
    XH))))))) :: ((Zpos (XO (XI (XI (XO (XO (XI XH))))))) :: ((Zpos (XO (XO
    (XI (XO (XI (XI XH))))))) :: ((Zpos (XI (XO (XI (XI (XO
    XH)))))) :: ((Zpos (XO (XO (XI (XO (XO (XI XH))))))) :: ((Zpos (XI (XI
    (XI (XI (XO (XI XH))))))) :: ((Zpos (XI (XI (XI (XO (XI (XI
    XH))))))) :: ((Zpos (XO (XI (XI (XI (XO (XI
    XH))))))) :: [])))))))))))))))) :: ((((Zpos (XI (XO (XO (XO (XO (XI
    XH))))))) :: ((Zpos (XO (XO (XI (XI (XO (XI XH))))))) :: ((Zpos (XO (XO
    (XI (XO (XI (XI XH))))))) :: ((Zpos (XI (XO (XI (XI (XO
    XH)))))) :: ((Zpos (XI (XI (XO (XO (XI (XI XH))))))) :: ((Zpos (XO (XO
    (XO (XI (XO (XI XH))))))) :: ((Zpos (XI (XO (XO (XI (XO (XI
    XH))))))) :: ((Zpos (XO (XI (XI (XO (XO (XI XH))))))) :: ((Zpos (XO (XO
    (XI (XO (XI (XI XH))))))) :: ((Zpos (XI (XO (XI (XI (XO
    XH)))))) :: ((Zpos (XO (XO (XI (XI (XO (XI XH))))))) :: ((Zpos (XI (XO
    (XI (XO (XO (XI XH))))))) :: ((Zpos (XO (XI (XI (XO (XO (XI
    XH))))))) :: ((Zpos (XO (XO (XI (XO (XI (XI
    XH))))))) :: [])))))))))))))), (KNamed ((Zpos (XI (XO (XO (XO (XO (XI
    XH))))))) :: ((Zpos (XO (XO (XI (XI (XO (XI XH))))))) :: ((Zpos (XO (XO
    (XI (XO (XI (XI XH))))))) :: ((Zpos (XI (XO (XI (XI (XO
    XH)))))) :: ((Zpos (XI (XI (XO (XO (XI (XI XH))))))) :: ((Zpos (XO (XO
    (XO (XI (XO (XI XH))))))) :: ((Zpos (XI (XO (XO (XI (XO (XI
    XH))))))) :: ((Zpos (XO (XI (XI (XO (XO (XI XH))))))) :: ((Zpos (XO (XO
    (XI (XO (XI (XI XH))))))) :: ((Zpos (XI (XO (XI (XI (XO
    XH)))))) :: ((Zpos (XO (XO (XI (XI (XO (XI XH))))))) :: ((Zpos (XI (XO
    (XI (XO (XO (XI XH))))))) :: ((Zpos (XO (XI (XI (XO (XO (XI
    XH))))))) :: ((Zpos (XO (XO (XI (XO (XI (XI
    XH))))))) :: [])))))))))))))))) :: ((((Zpos (XI (XI (XO (XO (XI (XI
    XH))))))) :: ((Zpos (XO (XO (XO (XI (XO (XI XH))))))) :: ((Zpos (XI (XO
    (XO (XI (XO (XI XH))))))) :: ((Zpos (XO (XI (XI (XO (XO (XI
    XH))))))) :: ((Zpos (XO (XO (XI (XO (XI (XI XH))))))) :: ((Zpos (XI (XO
    (XI (XI (XO XH)))))) :: ((Zpos (XI (XO (XO (XO (XO (XI
    XH))))))) :: ((Zpos (XO (XO (XI (XI (XO (XI XH))))))) :: ((Zpos (XO (XO
    (XI (XO (XI (XI XH))))))) :: ((Zpos (XI (XO (XI (XI (XO
    XH)))))) :: ((Zpos (XO (XO (XI (XI (XO (XI XH))))))) :: ((Zpos (XI (XO
    (XI (XO (XO (XI XH))))))) :: ((Zpos (XO (XI (XI (XO (XO (XI
    XH))))))) :: ((Zpos (XO (XO (XI (XO (XI (XI
    XH))))))) :: [])))))))))))))), (KNamed ((Zpos (XI (XO (XO (XO (XO (XI
    XH))))))) :: ((Zpos (XO (XO (XI (XI (XO (XI XH))))))) :: ((Zpos (XO (XO
    (XI (XO (XI (XI XH))))))) :: ((Zpos (XI (XO (XI (XI (XO
    XH)))))) :: ((Zpos (XI (XI (XO (XO (XI (XI XH))))))) :: ((Zpos (XO (XO
    (XO (XI (XO (XI XH))))))) :: ((Zpos (XI (XO (XO (XI (XO (XI
    XH))))))) :: ((Zpos (XO (XI (XI (XO (XO (XI XH))))))) :: ((Zpos (XO (XO
    (XI (XO (XI (XI XH))))))) :: ((Zpos (XI (XO (XI (XI (XO
    XH)))))) :: ((Zpos (XO (XO (XI (XI (XO (XI XH))))))) :: ((Zpos (XI (XO
    (XI (XO (XO (XI XH))))))) :: ((Zpos (XO (XI (XI (XO (XO (XI
    XH))))))) :: ((Zpos (XO (XO (XI (XO (XI (XI
    XH))))))) :: [])))))))))))))))) :: ((((Zpos (XI (XO (XO (XO (XO (XI
    XH))))))) :: ((Zpos (XO (XO (XI (XI (XO (XI XH))))))) :: ((Zpos (XO (XO
    (XI (XO (XI (XI XH))))))) :: ((Zpos (XI (XO (XI (XI (XO
    XH)))))) :: ((Zpos (XI (XI (XO (XO (XI (XI XH))))))) :: ((Zpos (XO (XO
    (XO (XI (XO (XI XH))))))) :: ((Zpos (XI (XO (XO (XI (XO (XI
    XH))))))) :: ((Zpos (XO (XI (XI (XO (XO (XI XH))))))) :: ((Zpos (XO (XO
    (XI (XO (XI (XI XH))))))) :: ((Zpos (XI (XO (XI (XI (XO
    XH)))))) :: ((Zpos (XO (XI (XO (XO (XI (XI XH))))))) :: ((Zpos (XI (XO
    (XO (XI (XO (XI XH))))))) :: ((Zpos (XI (XI (XI (XO (XO (XI
    XH))))))) :: ((Zpos (XO (XO (XO (XI (XO (XI XH))))))) :: ((Zpos (XO (XO
    (XI (XO (XI (XI XH))))))) :: []))))))))))))))), (KNamed ((Zpos (XI (XO
    (XO (XO (XO (XI XH))))))) :: ((Zpos (XO (XO (XI (XI (XO (XI
    XH))))))) :: ((Zpos (XO (XO (XI (XO (XI (XI XH))))))) :: ((Zpos (XI (XO
    (XI (XI (XO XH)))))) :: ((Zpos (XI (XI (XO (XO (XI (XI
    XH))))))) :: ((Zpos (XO (XO (XO (XI (XO (XI XH))))))) :: ((Zpos (XI (XO
    (XO (XI (XO (XI XH))))))) :: ((Zpos (XO (XI (XI (XO (XO (XI
    XH))))))) :: ((Zpos (XO (XO (XI (XO (XI (XI XH))))))) :: ((Zpos (XI (XO
    (XI (XI (XO XH)))))) :: ((Zpos (XO (XI (XO (XO (XI (XI
    XH))))))) :: ((Zpos (XI (XO (XO (XI (XO (XI XH))))))) :: ((Zpos (XI (XI
    (XI (XO (XO (XI XH))))))) :: ((Zpos (XO (XO (XO (XI (XO (XI
    XH))))))) :: ((Zpos (XO (XO (XI (XO (XI (XI
    XH))))))) :: []))))))))))))))))) :: ((((Zpos (XI (XI (XO (XO (XI (XI
    XH))))))) :: ((Zpos (XO (XO (XO (XI (XO (XI XH))))))) :: ((Zpos (XI (XO
    (XO (XI (XO (XI XH))))))) :: ((Zpos (XO (XI (XI (XO (XO (XI
    XH))))))) :: ((Zpos (XO (XO (XI (XO (XI (XI XH))))))) :: ((Zpos (XI (XO
    (XI (XI (XO XH)))))) :: ((Zpos (XI (XO (XO (XO (XO (XI
    XH))))))) :: ((Zpos (XO (XO (XI (XI (XO (XI XH))))))) :: ((Zpos (XO (XO
    (XI (XO (XI (XI XH))))))) :: ((Zpos (XI (XO (XI (XI (XO
    XH)))))) :: ((Zpos (XO (XI (XO (XO (XI (XI XH))))))) :: ((Zpos (XI (XO
    (XO (XI (XO (XI XH))))))) :: ((Zpos (XI (XI (XI (XO (XO (XI
    XH))))))) :: ((Zpos (XO (XO (XO (XI (XO (XI XH))))))) :: ((Zpos (XO (XO
    (XI (XO (XI (XI XH))))))) :: []))))))))))))))), (KNamed ((Zpos (XI (XO
    (XO (XO (XO (XI XH))))))) :: ((Zpos (XO (XO (XI (XI (XO (XI
    XH))))))) :: ((Zpos (XO (XO (XI (XO (XI (XI XH))))))) :: ((Zpos (XI (XO
    (XI (XI (XO XH)))))) :: ((Zpos (XI (XI (XO (XO (XI (XI
    XH))))))) :: ((Zpos (XO (XO (XO (XI (XO (XI XH))))))) :: ((Zpos (XI (XO
    (XO (XI (XO (XI XH))))))) :: ((Zpos (XO (XI (XI (XO (XO (XI
    XH))))))) :: ((Zpos (XO (XO (XI (XO (XI (XI XH))))))) :: ((Zpos (XI (XO
    (XI (XI (XO XH)))))) :: ((Zpos (XO (XI (XO (XO (XI (XI
    XH))))))) :: ((Zpos (XI (XO (XO (XI (XO (XI XH))))))) :: ((Zpos (XI (XI
    (XI (XO (XO (XI XH))))))) :: ((Zpos (XO (XO (XO (XI (XO (XI
    XH))))))) :: ((Zpos (XO (XO (XI (XO (XI (XI
    XH))))))) :: []))))))))))))))))) :: ((((Zpos (XI (XI (XO (XO (XI (XI
    XH))))))) :: ((Zpos (XO (XO (XO (XI (XO (XI XH))))))) :: ((Zpos (XI (XO
    (XO (XI (XO (XI XH))))))) :: ((Zpos (XO (XI (XI (XO (XO (XI
    XH))))))) :: ((Zpos (XO (XO (XI (XO (XI (XI XH))))))) :: ((Zpos (XI (XO
    (XI (XI (XO XH)))))) :: ((Zpos (XI (XO (XI (XO (XI (XI
    XH))))))) :: ((Zpos (XO (XO (XO (XO (XI (XI XH))))))) :: [])))))))),
    (KNamed ((Zpos (XI (XI (XO (XO (XI (XI XH))))))) :: ((Zpos (XO (XO (XO
    (XI (XO (XI XH))))))) :: ((Zpos (XI (XO (XO (XI (XO (XI
    XH))))))) :: ((Zpos (XO (XI (XI (XO (XO (XI XH))))))) :: ((Zpos (XO (XO
    (XI (XO (XI (XI XH))))))) :: ((Zpos (XI (XO (XI (XI (XO
    XH)))))) :: ((Zpos (XI (XO (XI (XO (XI (XI XH))))))) :: ((Zpos (XO (XO
    (XO (XO (XI (XI XH))))))) :: [])))))))))) :: ((((Zpos (XI (XI (XO (XO (XI
    (XI XH))))))) :: ((Zpos (XO (XO (XO (XI (XO (XI XH))))))) :: ((Zpos (XI
    (XO (XO (XI (XO (XI XH))))))) :: ((Zpos (XO (XI (XI (XO (XO (XI
    XH))))))) :: ((Zpos (XO (XO (XI (XO (XI (XI XH))))))) :: ((Zpos (XI (XO
    (XI (XI (XO XH)))))) :: ((Zpos (XO (XO (XI (XO (XO (XI
    XH))))))) :: ((Zpos (XI (XI (XI (XI (XO (XI XH))))))) :: ((Zpos (XI (XI
    (XI (XO (XI (XI XH))))))) :: ((Zpos (XO (XI (XI (XI (XO (XI
    XH))))))) :: [])))))))))), (KNamed ((Zpos (XI (XI (XO (XO (XI (XI
    XH))))))) :: ((Zpos (XO (XO (XO (XI (XO (XI XH))))))) :: ((Zpos (XI (XO
    (XO (XI (XO (XI XH))))))) :: ((Zpos (XO (XI (XI (XO (XO (XI
    XH))))))) :: ((Zpos (XO (XO (XI (XO (XI (XI XH))))))) :: ((Zpos (XI (XO
    (XI (XI (XO XH)))))) :: ((Zpos (XO (XO (XI (XO (XO (XI
    XH))))))) :: ((Zpos (XI (XI (XI (XI (XO (XI XH))))))) :: ((Zpos (XI (XI
    (XI (XO (XI (XI XH))))))) :: ((Zpos (XO (XI (XI (XI (XO (XI
    XH))))))) :: [])))))))))))) :: ((((Zpos (XI (XI (XO (XO (XI (XI
    XH))))))) :: ((Zpos (XO (XO (XO (XI (XO (XI XH))))))) :: ((Zpos (XI (XO
    (XO (XI (XO (XI XH))))))) :: ((Zpos (XO (XI (XI (XO (XO (XI
    XH))))))) :: ((Zpos (XO (XO (XI (XO (XI (XI XH))))))) :: ((Zpos (XI (XO
    (XI (XI (XO XH)))))) :: ((Zpos (XO (XO (XI (XI (XO (XI
    XH))))))) :: ((Zpos (XI (XO (XI (XO (XO (XI XH))))))) :: ((Zpos (XO (XI
    (XI (XO (XO (XI XH))))))) :: ((Zpos (XO (XO (XI (XO (XI (XI
    XH))))))) :: [])))))))))), (KNamed ((Zpos (XI (XI (XO (XO (XI (XI
    XH))))))) :: ((Zpos (XO (XO (XO (XI (XO (XI XH))))))) :: ((Zpos (XI (XO
    (XO (XI (XO (XI XH))))))) :: ((Zpos (XO (XI (XI (XO (XO (XI
    XH))))))) :: ((Zpos (XO (XO (XI (XO (XI (XI XH))))))) :: ((Zpos (XI (XO
    (XI (XI (XO XH)))))) :: ((Zpos (XO (XO (XI (XI (XO (XI
    XH))))))) :: ((Zpos (XI (XO (XI (XO (XO (XI XH))))))) :: ((Zpos (XO (XI
    (XI (XO (XO (XI XH))))))) :: ((Zpos (XO (XO (XI (XO (XI (XI
    XH))))))) :: [])))))))))))) :: ((((Zpos (XI (XI (XO (XO (XI (XI
    XH))))))) :: ((Zpos (XO (XO (XO (XI (XO (XI XH))))))) :: ((Zpos (XI (XO
    (XO (XI (XO (XI XH))))))) :: ((Zpos (XO (XI (XI (XO (XO (XI
    XH))))))) :: ((Zpos (XO (XO (XI (XO (XI (XI XH))))))) :: ((Zpos (XI (XO
    (XI (XI (XO XH)))))) :: ((Zpos (XO (XI (XO (XO (XI (XI
    XH))))))) :: ((Zpos (XI (XO (XO (XI (XO (XI XH))))))) :: ((Zpos (XI (XI
    (XI (XO (XO (XI XH))))))) :: ((Zpos (XO (XO (XO (XI (XO (XI
    XH))))))) :: ((Zpos (XO (XO (XI (XO (XI (XI XH))))))) :: []))))))))))),
    (KNamed ((Zpos (XI (XI (XO (XO (XI (XI XH))))))) :: ((Zpos (XO (XO (XO
    (XI (XO (XI XH))))))) :: ((Zpos (XI (XO (XO (XI (XO (XI
    XH))))))) :: ((Zpos (XO (XI (XI (XO (XO (XI XH))))))) :: ((Zpos (XO (XO
    (XI (XO (XI (XI XH))))))) :: ((Zpos (XI (XO (XI (XI (XO
    XH)))))) :: ((Zpos (XO (XI (XO (XO (XI (XI XH))))))) :: ((Zpos (XI (XO
    (XO (XI (XO (XI XH))))))) :: ((Zpos (XI (XI (XI (XO (XO (XI
    XH))))))) :: ((Zpos (XO (XO (XO (XI (XO (XI XH))))))) :: ((Zpos (XO (XO
    (XI (XO (XI (XI XH))))))) :: []))))))))))))) :: ((((Zpos (XI (XI (XO (XO
    (XI (XI XH))))))) :: ((Zpos (XO (XO (XO (XI (XO (XI XH))))))) :: ((Zpos
    (XI (XO (XO (XI (XO (XI XH))))))) :: ((Zpos (XO (XI (XI (XO (XO (XI
    XH))))))) :: ((Zpos (XO (XO (XI (XO (XI (XI XH))))))) :: ((Zpos (XI (XO
    (XI (XI (XO XH)))))) :: ((Zpos (XO (XO (XI (XO (XO (XI
    XH))))))) :: ((Zpos (XI (XO (XI (XO (XO (XI XH))))))) :: ((Zpos (XO (XO
    (XI (XI (XO (XI XH))))))) :: ((Zpos (XI (XO (XI (XO (XO (XI
    XH))))))) :: ((Zpos (XO (XO (XI (XO (XI (XI XH))))))) :: ((Zpos (XI (XO
    (XI (XO (XO (XI XH))))))) :: [])))))))))))), (KNamed ((Zpos (XI (XI (XO
    (XO (XI (XI XH))))))) :: ((Zpos (XO (XO (XO (XI (XO (XI
    XH))))))) :: ((Zpos (XI (XO (XO (XI (XO (XI XH))))))) :: ((Zpos (XO (XI
    (XI (XO (XO (XI XH))))))) :: ((Zpos (XO (XO (XI (XO (XI (XI
    XH))))))) :: ((Zpos (XI (XO (XI (XI (XO XH)))))) :: ((Zpos (XO (XO (XI
    (XO (XO (XI XH))))))) :: ((Zpos (XI (XO (XI (XO (XO (XI
    XH))))))) :: ((Zpos (XO (XO (XI (XI (XO (XI XH))))))) :: ((Zpos (XI (XO
    (XI (XO (XO (XI XH))))))) :: ((Zpos (XO (XO (XI (XO (XI (XI
    XH))))))) :: ((Zpos (XI (XO (XI (XO (XO (XI
    XH))))))) :: [])))))))))))))) :: ((((Zpos (XO (XO (XI (XI (XO (XI
    XH))))))) :: ((Zpos (XI (XO (XI (XO (XO (XI XH))))))) :: ((Zpos (XO (XI
    (XI (XO (XO (XI XH))))))) :: ((Zpos (XO (XO (XI (XO (XI (XI
    XH))))))) :: ((Zpos (XI (XO (XI (XI (XO XH)))))) :: ((Zpos (XI (XI (XO
    (XO (XO (XI XH))))))) :: ((Zpos (XO (XO (XI (XI (XO (XI
    XH))))))) :: ((Zpos (XI (XO (XO (XI (XO (XI XH))))))) :: ((Zpos (XI (XI
    (XO (XO (XO (XI XH))))))) :: ((Zpos (XI (XI (XO (XI (XO (XI
    XH))))))) :: [])))))))))), (KNamed ((Zpos (XO (XO (XI (XI (XO (XI
    XH))))))) :: ((Zpos (XI (XO (XI (XO (XO (XI XH))))))) :: ((Zpos (XO (XI
    (XI (XO (XO (XI XH))))))) :: ((Zpos (XO (XO (XI (XO (XI (XI
    XH))))))) :: ((Zpos (XI (XO (XI (XI (XO XH)))))) :: ((Zpos (XI (XI (XO
    (XO (XO (XI XH))))))) :: ((Zpos (XO (XO (XI (XI (XO (XI
    XH))))))) :: ((Zpos (XI (XO (XO (XI (XO (XI XH))))))) :: ((Zpos (XI (XI
    (XO (XO (XO (XI XH))))))) :: ((Zpos (XI (XI (XO (XI (XO (XI
    XH))))))) :: [])))))))))))) :: ((((Zpos (XO (XI (XO (XO (XI (XI
    XH))))))) :: ((Zpos (XI (XO (XO (XI (XO (XI XH))))))) :: ((Zpos (XI (XI
    (XI (XO (XO (XI XH))))))) :: ((Zpos (XO (XO (XO (XI (XO (XI
    XH))))))) :: ((Zpos (XO (XO (XI (XO (XI (XI XH))))))) :: ((Zpos (XI (XO
    (XI (XI (XO XH)))))) :: ((Zpos (XI (XI (XO (XO (XO (XI
    XH))))))) :: ((Zpos (XO (XO (XI (XI (XO (XI XH))))))) :: ((Zpos (XI (XO
    (XO (XI (XO (XI XH))))))) :: ((Zpos (XI (XI (XO (XO (XO (XI
    XH))))))) :: ((Zpos (XI (XI (XO (XI (XO (XI XH))))))) :: []))))))))))),
    (KNamed ((Zpos (XO (XI (XO (XO (XI (XI XH))))))) :: ((Zpos (XI (XO (XO
    (XI (XO (XI XH))))))) :: ((Zpos (XI (XI (XI (XO (XO (XI
    XH))))))) :: ((Zpos (XO (XO (XO (XI (XO (XI XH))))))) :: ((Zpos (XO (XO
    (XI (XO (XI (XI XH))))))) :: ((Zpos (XI (XO (XI (XI (XO
    XH)))))) :: ((Zpos (XI (XI (XO (XO (XO (XI XH))))))) :: ((Zpos (XO (XO
    (XI (XI (XO (XI XH))))))) :: ((Zpos (XI (XO (XO (XI (XO (XI
    XH))))))) :: ((Zpos (XI (XI (XO (XO (XO (XI XH))))))) :: ((Zpos (XI (XI
    (XO (XI (XO (XI XH))))))) :: []))))))))))))) :: ((((Zpos (XI (XI (XO (XO
    (XI (XI XH))))))) :: ((Zpos (XO (XO (XO (XI (XO (XI XH))))))) :: ((Zpos
    (XI (XO (XO (XI (XO (XI XH))))))) :: ((Zpos (XO (XI (XI (XO (XO (XI
    XH))))))) :: ((Zpos (XO (XO (XI (XO (XI (XI XH))))))) :: ((Zpos (XI (XO
    (XI (XI (XO XH)))))) :: ((Zpos (XO (XO (XI (XI (XO (XI
    XH))))))) :: ((Zpos (XI (XO (XI (XO (XO (XI XH))))))) :: ((Zpos (XO (XI
    (XI (XO (XO (XI XH))))))) :: ((Zpos (XO (XO (XI (XO (XI (XI
    XH))))))) :: ((Zpos (XI (XO (XI (XI (XO XH)))))) :: ((Zpos (XI (XI (XO
    (XO (XO (XI XH))))))) :: ((Zpos (XO (XO (XI (XI (XO (XI
    XH))))))) :: ((Zpos (XI (XO (XO (XI (XO (XI XH))))))) :: ((Zpos (XI (XI
    (XO (XO (XO (XI XH))))))) :: ((Zpos (XI (XI (XO (XI (XO (XI
    XH))))))) :: [])))))))))))))))), (KNamed ((Zpos (XI (XI (XO (XO (XI (XI
    XH))))))) :: ((Zpos (XI (XO (XI (XI (XO XH)))))) :: ((Zpos (XO (XO (XI
    (XI (XO (XI XH))))))) :: ((Zpos (XI (XO (XI (XO (XO (XI
    XH))))))) :: ((Zpos (XO (XI (XI (XO (XO (XI XH))))))) :: ((Zpos (XO (XO
    (XI (XO (XI (XI XH))))))) :: ((Zpos (XI (XO (XI (XI (XO
    XH)))))) :: ((Zpos (XI (XI (XO (XO (XO (XI XH))))))) :: ((Zpos (XO (XO
    (XI (XI (XO (XI XH))))))) :: ((Zpos (XI (XO (XO (XI (XO (XI
    XH))))))) :: ((Zpos (XI (XI (XO (XO (XO (XI XH))))))) :: ((Zpos (XI (XI
    (XO (XI (XO (XI XH))))))) :: [])))))))))))))) :: ((((Zpos (XI (XI (XO (XO
    (XI (XI XH))))))) :: ((Zpos (XO (XO (XO (XI (XO (XI XH))))))) :: ((Zpos
    (XI (XO (XO (XI (XO (XI XH))))))) :: ((Zpos (XO (XI (XI (XO (XO (XI
    XH))))))) :: ((Zpos (XO (XO (XI (XO (XI (XI XH))))))) :: ((Zpos (XI (XO
    (XI (XI (XO XH)))))) :: ((Zpos (XO (XI (XO (XO (XI (XI
    XH))))))) :: ((Zpos (XI (XO (XO (XI (XO (XI XH))))))) :: ((Zpos (XI (XI
    (XI (XO (XO (XI XH))))))) :: ((Zpos (XO (XO (XO (XI (XO (XI
    XH))))))) :: ((Zpos (XO (XO (XI (XO (XI (XI XH))))))) :: ((Zpos (XI (XO
    (XI (XI (XO XH)))))) :: ((Zpos (XI (XI (XO (XO (XO (XI
    XH))))))) :: ((Zpos (XO (XO (XI (XI (XO (XI XH))))))) :: ((Zpos (XI (XO
    (XO (XI (XO (XI XH))))))) :: ((Zpos (XI (XI (XO (XO (XO (XI
    XH))))))) :: ((Zpos (XI (XI (XO (XI (XO (XI
    XH))))))) :: []))))))))))))))))), (KNamed ((Zpos (XI (XI (XO (XO (XI (XI
    XH))))))) :: ((Zpos (XI (XO (XI (XI (XO XH)))))) :: ((Zpos (XO (XI (XO
    (XO (XI (XI XH))))))) :: ((Zpos (XI (XO (XO (XI (XO (XI
    XH))))))) :: ((Zpos (XI (XI (XI (XO (XO (XI XH))))))) :: ((Zpos (XO (XO
    (XO (XI (XO (XI XH))))))) :: ((Zpos (XO (XO (XI (XO (XI (XI
    XH))))))) :: ((Zpos (XI (XO (XI (XI (XO XH)))))) :: ((Zpos (XI (XI (XO
    (XO (XO (XI XH))))))) :: ((Zpos (XO (XO (XI (XI (XO (XI
    XH))))))) :: ((Zpos (XI (XO (XO (XI (XO (XI XH))))))) :: ((Zpos (XI (XI
    (XO (XO (XO (XI XH))))))) :: ((Zpos (XI (XI (XO (XI (XO (XI
    XH))))))) :: []))))))))))))))) :: ((((Zpos (XO (XO (XI (XO (XO (XI
    XH))))))) :: ((Zpos (XI (XI (XI (XI (XO (XI XH))))))) :: ((Zpos (XI (XO
    (XI (XO (XI (XI XH))))))) :: ((Zpos (XO (XI (XO (XO (XO (XI
    XH))))))) :: ((Zpos (XO (XO (XI (XI (XO (XI XH))))))) :: ((Zpos (XI (XO
    (XI (XO (XO (XI XH))))))) :: ((Zpos (XI (XO (XI (XI (XO
    XH)))))) :: ((Zpos (XI (XI (XO (XO (XO (XI XH))))))) :: ((Zpos (XO (XO
    (XI (XI (XO (XI XH))))))) :: ((Zpos (XI (XO (XO (XI (XO (XI
    XH))))))) :: ((Zpos (XI (XI (XO (XO (XO (XI XH))))))) :: ((Zpos (XI (XI
    (XO (XI (XO (XI XH))))))) :: [])))))))))))), (KNamed ((Zpos (XO (XO (XI
    (XO (XO (XI XH))))))) :: ((Zpos (XI (XI (XI (XI (XO (XI
    XH))))))) :: ((Zpos (XI (XO (XI (XO (XI (XI XH))))))) :: ((Zpos (XO (XI
    (XO (XO (XO (XI XH))))))) :: ((Zpos (XO (XO (XI (XI (XO (XI
    XH))))))) :: ((Zpos (XI (XO (XI (XO (XO (XI XH))))))) :: ((Zpos (XI (XO
    (XI (XI (XO XH)))))) :: ((Zpos (XI (XI (XO (XO (XO (XI
    XH))))))) :: ((Zpos (XO (XO (XI (XI (XO (XI XH))))))) :: ((Zpos (XI (XO
    (XO (XI (XO (XI XH))))))) :: ((Zpos (XI (XI (XO (XO (XO (XI
    XH))))))) :: ((Zpos (XI (XI (XO (XI (XO (XI
    XH))))))) :: [])))))))))))))) :: ((((Zpos (XI (XI (XO (XO (XI (XI
    XH))))))) :: ((Zpos (XI (XI (XO (XO (XO (XI XH))))))) :: ((Zpos (XO (XI
    (XO (XO (XI (XI XH))))))) :: ((Zpos (XI (XI (XI (XI (XO (XI
    XH))))))) :: ((Zpos (XO (XO (XI (XI (XO (XI XH))))))) :: ((Zpos (XO (XO
    (XI (XI (XO (XI XH))))))) :: ((Zpos (XI (XO (XI (XI (XO
    XH)))))) :: ((Zpos (XI (XO (XI (XO (XI (XI XH))))))) :: ((Zpos (XO (XO
    (XO (XO (XI (XI XH))))))) :: []))))))))), (KNamed ((Zpos (XI (XI (XO (XO
    (XI (XI XH))))))) :: ((Zpos (XI (XI (XO (XO (XO (XI XH))))))) :: ((Zpos
    (XO (XI (XO (XO (XI (XI XH))))))) :: ((Zpos (XI (XI (XI (XI (XO (XI
    XH))))))) :: ((Zpos (XO (XO (XI (XI (XO (XI XH))))))) :: ((Zpos (XO (XO
    (XI (XI (XO (XI XH))))))) :: ((Zpos (XI (XO (XI (XI (XO
    XH)))))) :: ((Zpos (XI (XO (XI (XO (XI (XI XH))))))) :: ((Zpos (XO (XO
    (XO (XO (XI (XI XH))))))) :: []))))))))))) :: ((((Zpos (XI (XI (XO (XO
    (XI (XI XH))))))) :: ((Zpos (XI (XI (XO (XO (XO (XI XH))))))) :: ((Zpos
    (XO (XI (XO (XO (XI (XI XH))))))) :: ((Zpos (XI (XI (XI (XI (XO (XI
    XH))))))) :: ((Zpos (XO (XO (XI (XI (XO (XI XH))))))) :: ((Zpos (XO (XO
    (XI (XI (XO (XI XH))))))) :: ((Zpos (XI (XO (XI (XI (XO
    XH)))))) :: ((Zpos (XO (XO (XI (XO (XO (XI XH))))))) :: ((Zpos (XI (XI
    (XI (XI (XO (XI XH))))))) :: ((Zpos (XI (XI (XI (XO (XI (XI
    XH))))))) :: ((Zpos (XO (XI (XI (XI (XO (XI XH))))))) :: []))))))))))),
    (KNamed ((Zpos (XI (XI (XO (XO (XI (XI XH))))))) :: ((Zpos (XI (XI (XO
    (XO (XO (XI XH))))))) :: ((Zpos (XO (XI (XO (XO (XI (XI
    XH))))))) :: ((Zpos (XI (XI (XI (XI (XO (XI XH))))))) :: ((Zpos (XO (XO
    (XI (XI (XO (XI XH))))))) :: ((Zpos (XO (XO (XI (XI (XO (XI
    XH))))))) :: ((Zpos (XI (XO (XI (XI (XO XH)))))) :: ((Zpos (XO (XO (XI
    (XO (XO (XI XH))))))) :: ((Zpos (XI (XI (XI (XI (XO (XI
    XH))))))) :: ((Zpos (XI (XI (XI (XO (XI (XI XH))))))) :: ((Zpos (XO (XI
    (XI (XI (XO (XI XH))))))) :: []))))))))))))) :: ((((Zpos (XI (XI (XO (XO
    (XI (XI XH))))))) :: ((Zpos (XO (XO (XO (XI (XO (XI XH))))))) :: ((Zpos
    (XI (XO (XO (XI (XO (XI XH))))))) :: ((Zpos (XO (XI (XI (XO (XO (XI
    XH))))))) :: ((Zpos (XO (XO (XI (XO (XI (XI XH))))))) :: ((Zpos (XI (XO
    (XI (XI (XO XH)))))) :: ((Zpos (XI (XI (XO (XO (XI (XI
    XH))))))) :: ((Zpos (XI (XI (XO (XO (XO (XI XH))))))) :: ((Zpos (XO (XI
    (XO (XO (XI (XI XH))))))) :: ((Zpos (XI (XI (XI (XI (XO (XI
    XH))))))) :: ((Zpos (XO (XO (XI (XI (XO (XI XH))))))) :: ((Zpos (XO (XO
    (XI (XI (XO (XI XH))))))) :: ((Zpos (XI (XO (XI (XI (XO
    XH)))))) :: ((Zpos (XI (XO (XI (XO (XI (XI XH))))))) :: ((Zpos (XO (XO
    (XO (XO (XI (XI XH))))))) :: []))))))))))))))), (KNamed ((Zpos (XI (XI
    (XO (XO (XI (XI XH))))))) :: ((Zpos (XI (XO (XI (XI (XO
    XH)))))) :: ((Zpos (XI (XI (XO (XO (XI (XI XH))))))) :: ((Zpos (XI (XI
    (XO (XO (XO (XI XH))))))) :: ((Zpos (XO (XI (XO (XO (XI (XI
    XH))))))) :: ((Zpos (XI (XI (XI (XI (XO (XI XH))))))) :: ((Zpos (XO (XO
    (XI (XI (XO (XI XH))))))) :: ((Zpos (XO (XO (XI (XI (XO (XI
    XH))))))) :: ((Zpos (XI (XO (XI (XI (XO XH)))))) :: ((Zpos (XI (XO (XI
    (XO (XI (XI XH))))))) :: ((Zpos (XO (XO (XO (XO (XI (XI
    XH))))))) :: []))))))))))))) :: ((((Zpos (XI (XI (XO (XO (XI (XI
    XH))))))) :: ((Zpos (XO (XO (XO (XI (XO (XI XH))))))) :: ((Zpos (XI (XO
    (XO (XI (XO (XI XH))))))) :: ((Zpos (XO (XI (XI (XO (XO (XI
    XH))))))) :: ((Zpos (XO (XO (XI (XO (XI (XI XH))))))) :: ((Zpos (XI (XO
    (XI (XI (XO XH)))))) :: ((Zpos (XI (XI (XO (XO (XI (XI
    XH))))))) :: ((Zpos (XI (XI (XO (XO (XO (XI XH))))))) :: ((Zpos (XO (XI
    (XO (XO (XI (XI XH))))))) :: ((Zpos (XI (XI (XI (XI (XO (XI
    XH))))))) :: ((Zpos (XO (XO (XI (XI (XO (XI XH))))))) :: ((Zpos (XO (XO
    (XI (XI (XO (XI XH))))))) :: ((Zpos (XI (XO (XI (XI (XO
    XH)))))) :: ((Zpos (XO (XO (XI (XO (XO (XI XH))))))) :: ((Zpos (XI (XI
    (XI (XI (XO (XI XH))))))) :: ((Zpos (XI (XI (XI (XO (XI (XI
    XH))))))) :: ((Zpos (XO (XI (XI (XI (XO (XI
    XH))))))) :: []))))))))))))))))), (KNamed ((Zpos (XI (XI (XO (XO (XI (XI
    XH))))))) :: ((Zpos (XI (XO (XI (XI (XO XH)))))) :: ((Zpos (XI (XI (XO
    (XO (XI (XI XH))))))) :: ((Zpos (XI (XI (XO (XO (XO (XI
    XH))))))) :: ((Zpos (XO (XI (XO (XO (XI (XI XH))))))) :: ((Zpos (XI (XI
    (XI (XI (XO (XI XH))))))) :: ((Zpos (XO (XO (XI (XI (XO (XI
    XH))))))) :: ((Zpos (XO (XO (XI (XI (XO (XI XH))))))) :: ((Zpos (XI (XO
    (XI (XI (XO XH)))))) :: ((Zpos (XO (XO (XI (XO (XO (XI
    XH))))))) :: ((Zpos (XI (XI (XI (XI (XO (XI XH))))))) :: ((Zpos (XI (XI
    (XI (XO (XI (XI XH))))))) :: ((Zpos (XO (XI (XI (XI (XO (XI
    XH))))))) :: []))))))))))))))) :: ((((Zpos (XO (XO (XO (XO (XI (XI
    XH))))))) :: ((Zpos (XO (XI (XO (XO (XI (XI XH))))))) :: ((Zpos (XI (XO
    (XI (XO (XO (XI XH))))))) :: ((Zpos (XO (XI (XI (XO (XI (XI
    XH))))))) :: ((Zpos (XI (XO (XO (XI (XO (XI XH))))))) :: ((Zpos (XI (XO
    (XI (XO (XO (XI XH))))))) :: ((Zpos (XI (XI (XI (XO (XI (XI
    XH))))))) :: ((Zpos (XI (XO (XI (XI (XO XH)))))) :: ((Zpos (XI (XI (XO
    (XO (XI (XI XH))))))) :: ((Zpos (XI (XI (XO (XO (XO (XI
    XH))))))) :: ((Zpos (XO (XI (XO (XO (XI (XI XH))))))) :: ((Zpos (XI (XI
    (XI (XI (XO (XI XH))))))) :: ((Zpos (XO (XO (XI (XI (XO (XI
    XH))))))) :: ((Zpos (XO (XO (XI (XI (XO (XI XH))))))) :: ((Zpos (XI (XO
    (XI (XI (XO XH)))))) :: ((Zpos (XI (XO (XI (XO (XI (XI
    XH))))))) :: ((Zpos (XO (XO (XO (XO (XI (XI
    XH))))))) :: []))))))))))))))))), (KNamed ((Zpos (XO (XO (XO (XO (XI (XI
    XH))))))) :: ((Zpos (XO (XI (XO (XO (XI (XI XH))))))) :: ((Zpos (XI (XO
    (XI (XO (XO (XI XH))))))) :: ((Zpos (XO (XI (XI (XO (XI (XI
    XH))))))) :: ((Zpos (XI (XO (XO (XI (XO (XI XH))))))) :: ((Zpos (XI (XO
    (XI (XO (XO (XI XH))))))) :: ((Zpos (XI (XI (XI (XO (XI (XI
    XH))))))) :: ((Zpos (XI (XO (XI (XI (XO XH)))))) :: ((Zpos (XI (XI (XO
    (XO (XI (XI XH))))))) :: ((Zpos (XI (XI (XO (XO (XO (XI
    XH))))))) :: ((Zpos (XO (XI (XO (XO (XI (XI XH))))))) :: ((Zpos (XI (XI
    (XI (XI (XO (XI XH))))))) :: ((Zpos (XO (XO (XI (XI (XO (XI
    XH))))))) :: ((Zpos (XO (XO (XI (XI (XO (XI XH))))))) :: ((Zpos (XI (XO
    (XI (XI (XO XH)))))) :: ((Zpos (XI (XO (XI (XO (XI (XI
    XH))))))) :: ((Zpos (XO (XO (XO (XO (XI (XI
    XH))))))) :: []))))))))))))))))))) :: ((((Zpos (XO (XO (XO (XO (XI (XI
    XH))))))) :: ((Zpos (XO (XI (XO (XO (XI (XI XH))))))) :: ((Zpos (XI (XO
    (XI (XO (XO (XI XH))))))) :: ((Zpos (XO (XI (XI (XO (XI (XI
    XH))))))) :: ((Zpos (XI (XO (XO (XI (XO (XI XH))))))) :: ((Zpos (XI (XO
    (XI (XO (XO (XI XH))))))) :: ((Zpos (XI (XI (XI (XO (XI (XI
    XH))))))) :: ((Zpos (XI (XO (XI (XI (XO XH)))))) :: ((Zpos (XI (XI (XO
    (XO (XI (XI XH))))))) :: ((Zpos (XI (XI (XO (XO (XO (XI
    XH))))))) :: ((Zpos (XO (XI (XO (XO (XI (XI XH))))))) :: ((Zpos (XI (XI
    (XI (XI (XO (XI XH))))))) :: ((Zpos (XO (XO (XI (XI (XO (XI
    XH))))))) :: ((Zpos (XO (XO (XI (XI (XO (XI XH))))))) :: ((Zpos (XI (XO
    (XI (XI (XO XH)))))) :: ((Zpos (XO (XO (XI (XO (XO (XI
    XH))))))) :: ((Zpos (XI (XI (XI (XI (XO (XI XH))))))) :: ((Zpos (XI (XI
    (XI (XO (XI (XI XH))))))) :: ((Zpos (XO (XI (XI (XI (XO (XI
    XH))))))) :: []))))))))))))))))))), (KNamed ((Zpos (XO (XO (XO (XO (XI
    (XI XH))))))) :: ((Zpos (XO (XI (XO (XO (XI (XI XH))))))) :: ((Zpos (XI
    (XO (XI (XO (XO (XI XH))))))) :: ((Zpos (XO (XI (XI (XO (XI (XI
    XH))))))) :: ((Zpos (XI (XO (XO (XI (XO (XI XH))))))) :: ((Zpos (XI (XO
    (XI (XO (XO (XI XH))))))) :: ((Zpos (XI (XI (XI (XO (XI (XI
    XH))))))) :: ((Zpos (XI (XO (XI (XI (XO XH)))))) :: ((Zpos (XI (XI (XO
    (XO (XI (XI XH))))))) :: ((Zpos (XI (XI (XO (XO (XO (XI
    XH))))))) :: ((Zpos (XO (XI (XO (XO (XI (XI XH))))))) :: ((Zpos (XI (XI
    (XI (XI (XO (XI XH))))))) :: ((Zpos (XO (XO (XI (XI (XO (XI
    XH))))))) :: ((Zpos (XO (XO (XI (XI (XO (XI XH))))))) :: ((Zpos (XI (XO
    (XI (XI (XO XH)))))) :: ((Zpos (XO (XO (XI (XO (XO (XI
    XH))))))) :: ((Zpos (XI (XI (XI (XI (XO (XI XH))))))) :: ((Zpos (XI (XI
    (XI (XO (XI (XI XH))))))) :: ((Zpos (XO (XI (XI (XI (XO (XI
    XH))))))) :: []))))))))))))))))))))) :: ((((Zpos (XO (XI (XI (XO (XO (XI
    XH))))))) :: ((Zpos (XI (XO (XO (XO (XI XH)))))) :: ((Zpos (XO (XO (XO
    (XO (XI XH)))))) :: []))), (KF (Zpos (XO (XI (XO XH)))))) :: ((((Zpos (XO
    (XI (XI (XO (XO (XI XH))))))) :: ((Zpos (XI (XO (XO (XO (XI
    XH)))))) :: ((Zpos (XI (XO (XO (XO (XI XH)))))) :: []))), (KF (Zpos (XI
    (XI (XO XH)))))) :: ((((Zpos (XO (XI (XI (XO (XO (XI XH))))))) :: ((Zpos
    (XI (XO (XO (XO (XI XH)))))) :: ((Zpos (XO (XI (XO (XO (XI
    XH)))))) :: []))), (KF (Zpos (XO (XO (XI
    XH)))))) :: [])))))))))))))))))))))))))))))))))))))))))))))))))))))))))))))))))))))))))))))))

(** val assoc_str : str -> (str * 'a1) list -> 'a1 option **)

let rec assoc_str k = function
| [] -> None
| p :: r -> let (k', v) = p in if str_eqb k k' then Some v else assoc_str k r

(** val has_prefix : str -> str -> bool **)

let has_prefix p s =
  str_eqb p (firstn (length p) s)

(** val s_f : str **)

let s_f =
  (Zpos (XO (XI (XI (XO (XO (XI XH))))))) :: []

(** val s_alt : str **)

let s_alt =
  (Zpos (XI (XO (XO (XO (XO (XI XH))))))) :: ((Zpos (XO (XO (XI (XI (XO (XI
    XH))))))) :: ((Zpos (XO (XO (XI (XO (XI (XI XH))))))) :: ((Zpos (XI (XO
    (XI (XI (XO XH)))))) :: [])))

(** val s_ctrl : str **)

let s_ctrl =
  (Zpos (XI (XI (XO (XO (XO (XI XH))))))) :: ((Zpos (XO (XO (XI (XO (XI (XI
    XH))))))) :: ((Zpos (XO (XI (XO (XO (XI (XI XH))))))) :: ((Zpos (XO (XO
    (XI (XI (XO (XI XH))))))) :: ((Zpos (XI (XO (XI (XI (XO XH)))))) :: []))))

(** val s_ctrl_alt : str **)

let s_ctrl_alt =
  (Zpos (XI (XI (XO (XO (XO (XI XH))))))) :: ((Zpos (XO (XO (XI (XO (XI (XI
    XH))))))) :: ((Zpos (XO (XI (XO (XO (XI (XI XH))))))) :: ((Zpos (XO (XO
    (XI (XI (XO (XI XH))))))) :: ((Zpos (XI (XO (XI (XI (XO
    XH)))))) :: ((Zpos (XI (XO (XO (XO (XO (XI XH))))))) :: ((Zpos (XO (XO
    (XI (XI (XO (XI XH))))))) :: ((Zpos (XO (XO (XI (XO (XI (XI
    XH))))))) :: ((Zpos (XI (XO (XI (XI (XO XH)))))) :: []))))))))

(** val key_of_token : str -> key option **)

let key_of_token tok =
  let l = to_lower tok in
  (match assoc_str l named_keys with
   | Some k -> Some k
   | None ->
     (match tok with
      | [] -> None
      | c :: l0 ->
        (match l0 with
         | [] ->
           if Z.ltb c (Zpos (XO (XO (XO (XO (XO (XO (XO XH))))))))
           then Some (KRune c)
           else None
         | d :: l1 ->
           (match l1 with
            | [] ->
              if (&&)
                   ((&&) (has_prefix s_f l)
                     (Z.leb (Zpos (XI (XO (XO (XO (XI XH)))))) d))
                   (Z.leb d (Zpos (XI (XO (XO (XI (XI XH)))))))
              then Some (KF (Z.sub d (Zpos (XO (XO (XO (XO (XI XH))))))))
              else None
            | _ :: l2 ->
              (match l2 with
               | [] -> None
               | _ :: l3 ->
                 (match l3 with
                  | [] -> None
                  | r :: l4 ->
                    (match l4 with
                     | [] ->
                       if (&&) (has_prefix s_alt l)
                            (Z.ltb r (Zpos (XO (XO (XO (XO (XO (XO (XO
                              XH)))))))))
                       then Some (KAlt r)
                       else None
                     | c0 :: l5 ->
                       (match l5 with
                        | [] ->
                          if (&&) (has_prefix s_ctrl l) (is_lower (lower c0))
                          then Some (KCtrl
                                 (Z.sub (lower c0) (Zpos (XI (XO (XO (XO (XO
                                   (XI XH)))))))))
                          else None
                        | _ :: l6 ->
                          (match l6 with
                           | [] -> None
                           | _ :: l7 ->
                             (match l7 with
                              | [] -> None
                              | _ :: l8 ->
                                (match l8 with
                                 | [] -> None
                                 | c1 :: l9 ->
                                   (match l9 with
                                    | [] ->
                                      if (&&) (has_prefix s_ctrl_alt l)
                                           (is_lower (lower c1))
                                      then Some (KCtrlAlt c1)
                                      else None
                                    | _ :: _ -> None))))))))))))

type action = str * str

(** val simple_actions : (str * str list) list **)

let simple_actions =
  (((Zpos (XI (XO (XO (XI (XO (XI XH))))))) :: ((Zpos (XI (XI (XI (XO (XO (XI
    XH))))))) :: ((Zpos (XO (XI (XI (XI (XO (XI XH))))))) :: ((Zpos (XI (XI
    (XI (XI (XO (XI XH))))))) :: ((Zpos (XO (XI (XO (XO (XI (XI
    XH))))))) :: ((Zpos (XI (XO (XI (XO (XO (XI XH))))))) :: [])))))),
    (((Zpos (XI (XO (XO (XI (XO (XI XH))))))) :: ((Zpos (XI (XI (XI (XO (XO
    (XI XH))))))) :: ((Zpos (XO (XI (XI (XI (XO (XI XH))))))) :: ((Zpos (XI
    (XI (XI (XI (XO (XI XH))))))) :: ((Zpos (XO (XI (XO (XO (XI (XI
    XH))))))) :: ((Zpos (XI (XO (XI (XO (XO (XI
    XH))))))) :: [])))))) :: [])) :: ((((Zpos (XO (XI (XO (XO (XO (XI
    XH))))))) :: ((Zpos (XI (XO (XI (XO (XO (XI XH))))))) :: ((Zpos (XI (XI
    (XI (XO (XO (XI XH))))))) :: ((Zpos (XI (XO (XO (XI (XO (XI
    XH))))))) :: ((Zpos (XO (XI (XI (XI (XO (XI XH))))))) :: ((Zpos (XO (XI
    (XI (XI (XO (XI XH))))))) :: ((Zpos (XI (XO (XO (XI (XO (XI
    XH))))))) :: ((Zpos (XO (XI (XI (XI (XO (XI XH))))))) :: ((Zpos (XI (XI
    (XI (XO (XO (XI XH))))))) :: ((Zpos (XI (XO (XI (XI (XO
    XH)))))) :: ((Zpos (XI (XI (XI (XI (XO (XI XH))))))) :: ((Zpos (XO (XI
    (XI (XO (XO (XI XH))))))) :: ((Zpos (XI (XO (XI (XI (XO
    XH)))))) :: ((Zpos (XO (XO (XI (XI (XO (XI XH))))))) :: ((Zpos (XI (XO
    (XO (XI (XO (XI XH))))))) :: ((Zpos (XO (XI (XI (XI (XO (XI
    XH))))))) :: ((Zpos (XI (XO (XI (XO (XO (XI
    XH))))))) :: []))))))))))))))))), (((Zpos (XO (XI (XO (XO (XO (XI
    XH))))))) :: ((Zpos (XI (XO (XI (XO (XO (XI XH))))))) :: ((Zpos (XI (XI
    (XI (XO (XO (XI XH))))))) :: ((Zpos (XI (XO (XO (XI (XO (XI
    XH))))))) :: ((Zpos (XO (XI (XI (XI (XO (XI XH))))))) :: ((Zpos (XO (XI
    (XI (XI (XO (XI XH))))))) :: ((Zpos (XI (XO (XO (XI (XO (XI
    XH))))))) :: ((Zpos (XO (XI (XI (XI (XO (XI XH))))))) :: ((Zpos (XI (XI
    (XI (XO (XO (XI XH))))))) :: ((Zpos (XI (XO (XI (XI (XO
    XH)))))) :: ((Zpos (XI (XI (XI (XI (XO (XI XH))))))) :: ((Zpos (XO (XI
    (XI (XO (XO (XI XH))))))) :: ((Zpos (XI (XO (XI (XI (XO
    XH)))))) :: ((Zpos (XO (XO (XI (XI (XO (XI XH))))))) :: ((Zpos (XI (XO
    (XO (XI (XO (XI XH))))))) :: ((Zpos (XO (XI (XI (XI (XO (XI
    XH))))))) :: ((Zpos (XI (XO (XI (XO (XO (XI
    XH))))))) :: []))))))))))))))))) :: [])) :: ((((Zpos (XI (XO (XO (XO (XO
    (XI XH))))))) :: ((Zpos (XO (XI (XO (XO (XO (XI XH))))))) :: ((Zpos (XI
    (XI (XI (XI (XO (XI XH))))))) :: ((Zpos (XO (XI (XO (XO (XI (XI
    XH))))))) :: ((Zpos (XO (XO (XI (XO (XI (XI XH))))))) :: []))))), (((Zpos
    (XI (XO (XO (XO (XO (XI XH))))))) :: ((Zpos (XO (XI (XO (XO (XO (XI
    XH))))))) :: ((Zpos (XI (XI (XI (XI (XO (XI XH))))))) :: ((Zpos (XO (XI
    (XO (XO (XI (XI XH))))))) :: ((Zpos (XO (XO (XI (XO (XI (XI
    XH))))))) :: []))))) :: [])) :: ((((Zpos (XI (XO (XO (XO (XO (XI
    XH))))))) :: ((Zpos (XI (XI (XO (XO (XO (XI XH))))))) :: ((Zpos (XI (XI
    (XO (XO (XO (XI XH))))))) :: ((Zpos (XI (XO (XI (XO (XO (XI
    XH))))))) :: ((Zpos (XO (XO (XO (XO (XI (XI XH))))))) :: ((Zpos (XO (XO
    (XI (XO (XI (XI XH))))))) :: [])))))), (((Zpos (XI (XO (XO (XO (XO (XI
    XH))))))) :: ((Zpos (XI (XI (XO (XO (XO (XI XH))))))) :: ((Zpos (XI (XI
    (XO (XO (XO (XI XH))))))) :: ((Zpos (XI (XO (XI (XO (XO (XI
    XH))))))) :: ((Zpos (XO (XO (XO (XO (XI (XI XH))))))) :: ((Zpos (XO (XO
    (XI (XO (XI (XI XH))))))) :: [])))))) :: [])) :: ((((Zpos (XI (XO (XO (XO
    (XO (XI XH))))))) :: ((Zpos (XI (XI (XO (XO (XO (XI XH))))))) :: ((Zpos
    (XI (XI (XO (XO (XO (XI XH))))))) :: ((Zpos (XI (XO (XI (XO (XO (XI
    XH))))))) :: ((Zpos (XO (XO (XO (XO (XI (XI XH))))))) :: ((Zpos (XO (XO
    (XI (XO (XI (XI XH))))))) :: ((Zpos (XI (XO (XI (XI (XO
    XH)))))) :: ((Zpos (XO (XI (XI (XI (XO (XI XH))))))) :: ((Zpos (XI (XI
    (XI (XI (XO (XI XH))))))) :: ((Zpos (XO (XI (XI (XI (XO (XI
    XH))))))) :: ((Zpos (XI (XO (XI (XI (XO XH)))))) :: ((Zpos (XI (XO (XI
    (XO (XO (XI XH))))))) :: ((Zpos (XI (XO (XI (XI (XO (XI
    XH))))))) :: ((Zpos (XO (XO (XO (XO (XI (XI XH))))))) :: ((Zpos (XO (XO
    (XI (XO (XI (XI XH))))))) :: ((Zpos (XI (XO (XO (XI (XI (XI
    XH))))))) :: [])))))))))))))))), (((Zpos (XI (XO (XO (XO (XO (XI
    XH))))))) :: ((Zpos (XI (XI (XO (XO (XO (XI XH))))))) :: ((Zpos (XI (XI
    (XO (XO (XO (XI XH))))))) :: ((Zpos (XI (XO (XI (XO (XO (XI
    XH))))))) :: ((Zpos (XO (XO (XO (XO (XI (XI XH))))))) :: ((Zpos (XO (XO
    (XI (XO (XI (XI XH))))))) :: ((Zpos (XI (XO (XI (XI (XO
    XH)))))) :: ((Zpos (XO (XI (XI (XI (XO (XI XH))))))) :: ((Zpos (XI (XI
    (XI (XI (XO (XI XH))))))) :: ((Zpos (XO (XI (XI (XI (XO (XI
    XH))))))) :: ((Zpos (XI (XO (XI (XI (XO XH)))))) :: ((Zpos (XI (XO (XI
    (XO (XO (XI XH))))))) :: ((Zpos (XI (XO (XI (XI (XO (XI
    XH))))))) :: ((Zpos (XO (XO (XO (XO (XI (XI XH))))))) :: ((Zpos (XO (XO
    (XI (XO (XI (XI XH))))))) :: ((Zpos (XI (XO (XO (XI (XI (XI
    XH))))))) :: [])))))))))))))))) :: [])) :: ((((Zpos (XI (XO (XO (XO (XO
    (XI XH))))))) :: ((Zpos (XI (XI (XO (XO (XO (XI XH))))))) :: ((Zpos (XI
    (XI (XO (XO (XO (XI XH))))))) :: ((Zpos (XI (XO (XI (XO (XO (XI
    XH))))))) :: ((Zpos (XO (XO (XO (XO (XI (XI XH))))))) :: ((Zpos (XO (XO
    (XI (XO (XI (XI XH))))))) :: ((Zpos (XI (XO (XI (XI (XO
    XH)))))) :: ((Zpos (XI (XI (XI (XI (XO (XI XH))))))) :: ((Zpos (XO (XI
    (XO (XO (XI (XI XH))))))) :: ((Zpos (XI (XO (XI (XI (XO
    XH)))))) :: ((Zpos (XO (XO (XO (XO (XI (XI XH))))))) :: ((Zpos (XO (XI
    (XO (XO (XI (XI XH))))))) :: ((Zpos (XI (XO (XO (XI (XO (XI
    XH))))))) :: ((Zpos (XO (XI (XI (XI (XO (XI XH))))))) :: ((Zpos (XO (XO
    (XI (XO (XI (XI XH))))))) :: ((Zpos (XI (XO (XI (XI (XO
    XH)))))) :: ((Zpos (XI (XO (XO (XO (XI (XI XH))))))) :: ((Zpos (XI (XO
    (XI (XO (XI (XI XH))))))) :: ((Zpos (XI (XO (XI (XO (XO (XI
    XH))))))) :: ((Zpos (XO (XI (XO (XO (XI (XI XH))))))) :: ((Zpos (XI (XO
    (XO (XI (XI (XI XH))))))) :: []))))))))))))))))))))), (((Zpos (XI (XO (XO
    (XO (XO (XI XH))))))) :: ((Zpos (XI (XI (XO (XO (XO (XI
    XH))))))) :: ((Zpos (XI (XI (XO (XO (XO (XI XH))))))) :: ((Zpos (XI (XO
    (XI (XO (XO (XI XH))))))) :: ((Zpos (XO (XO (XO (XO (XI (XI
    XH))))))) :: ((Zpos (XO (XO (XI (XO (XI (XI XH))))))) :: ((Zpos (XI (XO
    (XI (XI (XO XH)))))) :: ((Zpos (XI (XI (XI (XI (XO (XI
    XH))))))) :: ((Zpos (XO (XI (XO (XO (XI (XI XH))))))) :: ((Zpos (XI (XO
    (XI (XI (XO XH)))))) :: ((Zpos (XO (XO (XO (XO (XI (XI
    XH))))))) :: ((Zpos (XO (XI (XO (XO (XI (XI XH))))))) :: ((Zpos (XI (XO
    (XO (XI (XO (XI XH))))))) :: ((Zpos (XO (XI (XI (XI (XO (XI
    XH))))))) :: ((Zpos (XO (XO (XI (XO (XI (XI XH))))))) :: ((Zpos (XI (XO
    (XI (XI (XO XH)))))) :: ((Zpos (XI (XO (XO (XO (XI (XI
    XH))))))) :: ((Zpos (XI (XO (XI (XO (XI (XI XH))))))) :: ((Zpos (XI (XO
    (XI (XO (XO (XI XH))))))) :: ((Zpos (XO (XI (XO (XO (XI (XI
    XH))))))) :: ((Zpos (XI (XO (XO (XI (XI (XI
    XH))))))) :: []))))))))))))))))))))) :: [])) :: ((((Zpos (XO (XO (XO (XO
    (XI (XI XH))))))) :: ((Zpos (XO (XI (XO (XO (XI (XI XH))))))) :: ((Zpos
    (XI (XO (XO (XI (XO (XI XH))))))) :: ((Zpos (XO (XI (XI (XI (XO (XI
    XH))))))) :: ((Zpos (XO (XO (XI (XO (XI (XI XH))))))) :: ((Zpos (XI (XO
    (XI (XI (XO XH)))))) :: ((Zpos (XI (XO (XO (XO (XI (XI
    XH))))))) :: ((Zpos (XI (XO (XI (XO (XI (XI XH))))))) :: ((Zpos (XI (XO
    (XI (XO (XO (XI XH))))))) :: ((Zpos (XO (XI (XO (XO (XI (XI
    XH))))))) :: ((Zpos (XI (XO (XO (XI (XI (XI XH))))))) :: []))))))))))),
    (((Zpos (XO (XO (XO (XO (XI (XI XH))))))) :: ((Zpos (XO (XI (XO (XO (XI
    (XI XH))))))) :: ((Zpos (XI (XO (XO (XI (XO (XI XH))))))) :: ((Zpos (XO
    (XI (XI (XI (XO (XI XH))))))) :: ((Zpos (XO (XO (XI (XO (XI (XI
    XH))))))) :: ((Zpos (XI (XO (XI (XI (XO XH)))))) :: ((Zpos (XI (XO (XO
    (XO (XI (XI XH))))))) :: ((Zpos (XI (XO (XI (XO (XI (XI
    XH))))))) :: ((Zpos (XI (XO (XI (XO (XO (XI XH))))))) :: ((Zpos (XO (XI
    (XO (XO (XI (XI XH))))))) :: ((Zpos (XI (XO (XO (XI (XI (XI
    XH))))))) :: []))))))))))) :: [])) :: ((((Zpos (XO (XI (XO (XO (XI (XI
    XH))))))) :: ((Zpos (XI (XO (XI (XO (XO (XI XH))))))) :: ((Zpos (XO (XI
    (XI (XO (XO (XI XH))))))) :: ((Zpos (XO (XI (XO (XO (XI (XI
    XH))))))) :: ((Zpos (XI (XO (XI (XO (XO (XI XH))))))) :: ((Zpos (XI (XI
    (XO (XO (XI (XI XH))))))) :: ((Zpos (XO (XO (XO (XI (XO (XI
    XH))))))) :: ((Zpos (XI (XO (XI (XI (XO XH)))))) :: ((Zpos (XO (XO (XO
    (XO (XI (XI XH))))))) :: ((Zpos (XO (XI (XO (XO (XI (XI
    XH))))))) :: ((Zpos (XI (XO (XI (XO (XO (XI XH))))))) :: ((Zpos (XO (XI
    (XI (XO (XI (XI XH))))))) :: ((Zpos (XI (XO (XO (XI (XO (XI
    XH))))))) :: ((Zpos (XI (XO (XI (XO (XO (XI XH))))))) :: ((Zpos (XI (XI
    (XI (XO (XI (XI XH))))))) :: []))))))))))))))), (((Zpos (XO (XI (XO (XO
    (XI (XI XH))))))) :: ((Zpos (XI (XO (XI (XO (XO (XI XH))))))) :: ((Zpos
    (XO (XI (XI (XO (XO (XI XH))))))) :: ((Zpos (XO (XI (XO (XO (XI (XI
    XH))))))) :: ((Zpos (XI (XO (XI (XO (XO (XI XH))))))) :: ((Zpos (XI (XI
    (XO (XO (XI (XI XH))))))) :: ((Zpos (XO (XO (XO (XI (XO (XI
    XH))))))) :: ((Zpos (XI (XO (XI (XI (XO XH)))))) :: ((Zpos (XO (XO (XO
    (XO (XI (XI XH))))))) :: ((Zpos (XO (XI (XO (XO (XI (XI
    XH))))))) :: ((Zpos (XI (XO (XI (XO (XO (XI XH))))))) :: ((Zpos (XO (XI
    (XI (XO (XI (XI XH))))))) :: ((Zpos (XI (XO (XO (XI (XO (XI
    XH))))))) :: ((Zpos (XI (XO (XI (XO (XO (XI XH))))))) :: ((Zpos (XI (XI
    (XI (XO (XI (XI XH))))))) :: []))))))))))))))) :: [])) :: ((((Zpos (XO
    (XI (XO (XO (XI (XI XH))))))) :: ((Zpos (XI (XO (XI (XO (XO (XI
    XH))))))) :: ((Zpos (XO (XO (XO (XO (XI (XI XH))))))) :: ((Zpos (XO (XO
    (XI (XI (XO (XI XH))))))) :: ((Zpos (XI (XO (XO (XO (XO (XI
    XH))))))) :: ((Zpos (XI (XI (XO (XO (XO (XI XH))))))) :: ((Zpos (XI (XO
    (XI (XO (XO (XI XH))))))) :: ((Zpos (XI (XO (XI (XI (XO
    XH)))))) :: ((Zpos (XI (XO (XO (XO (XI (XI XH))))))) :: ((Zpos (XI (XO
    (XI (XO (XI (XI XH))))))) :: ((Zpos (XI (XO (XI (XO (XO (XI
    XH))))))) :: ((Zpos (XO (XI (XO (XO (XI (XI XH))))))) :: ((Zpos (XI (XO
    (XO (XI (XI (XI XH))))))) :: []))))))))))))), (((Zpos (XO (XI (XO (XO (XI
    (XI XH))))))) :: ((Zpos (XI (XO (XI (XO (XO (XI XH))))))) :: ((Zpos (XO
    (XO (XO (XO (XI (XI XH))))))) :: ((Zpos (XO (XO (XI (XI (XO (XI
    XH))))))) :: ((Zpos (XI (XO (XO (XO (XO (XI XH))))))) :: ((Zpos (XI (XI
    (XO (XO (XO (XI XH))))))) :: ((Zpos (XI (XO (XI (XO (XO (XI
    XH))))))) :: ((Zpos (XI (XO (XI (XI (XO XH)))))) :: ((Zpos (XI (XO (XO
    (XO (XI (XI XH))))))) :: ((Zpos (XI (XO (XI (XO (XI (XI
    XH))))))) :: ((Zpos (XI (XO (XI (XO (XO (XI XH))))))) :: ((Zpos (XO (XI
    (XO (XO (XI (XI XH))))))) :: ((Zpos (XI (XO (XO (XI (XI (XI
    XH))))))) :: []))))))))))))) :: [])) :: ((((Zpos (XO (XI (XO (XO (XO (XI
    XH))))))) :: ((Zpos (XI (XO (XO (XO (XO (XI XH))))))) :: ((Zpos (XI (XI
    (XO (XO (XO (XI XH))))))) :: ((Zpos (XI (XI (XO (XI (XO (XI
    XH))))))) :: ((Zpos (XI (XI (XI (XO (XI (XI XH))))))) :: ((Zpos (XI (XO
    (XO (XO (XO (XI XH))))))) :: ((Zpos (XO (XI (XO (XO (XI (XI
    XH))))))) :: ((Zpos (XO (XO (XI (XO (XO (XI XH))))))) :: ((Zpos (XI (XO
    (XI (XI (XO XH)))))) :: ((Zpos (XI (XI (XO (XO (XO (XI
    XH))))))) :: ((Zpos (XO (XO (XO (XI (XO (XI XH))))))) :: ((Zpos (XI (XO
    (XO (XO (XO (XI XH))))))) :: ((Zpos (XO (XI (XO (XO (XI (XI
    XH))))))) :: []))))))))))))), (((Zpos (XO (XI (XO (XO (XO (XI
    XH))))))) :: ((Zpos (XI (XO (XO (XO (XO (XI XH))))))) :: ((Zpos (XI (XI
    (XO (XO (XO (XI XH))))))) :: ((Zpos (XI (XI (XO (XI (XO (XI
    XH))))))) :: ((Zpos (XI (XI (XI (XO (XI (XI XH))))))) :: ((Zpos (XI (XO
    (XO (XO (XO (XI XH))))))) :: ((Zpos (XO (XI (XO (XO (XI (XI
    XH))))))) :: ((Zpos (XO (XO (XI (XO (XO (XI XH))))))) :: ((Zpos (XI (XO
    (XI (XI (XO XH)))))) :: ((Zpos (XI (XI (XO (XO (XO (XI
    XH))))))) :: ((Zpos (XO (XO (XO (XI (XO (XI XH))))))) :: ((Zpos (XI (XO
    (XO (XO (XO (XI XH))))))) :: ((Zpos (XO (XI (XO (XO (XI (XI
    XH))))))) :: []))))))))))))) :: [])) :: ((((Zpos (XO (XI (XO (XO (XO (XI
    XH))))))) :: ((Zpos (XI (XO (XO (XO (XO (XI XH))))))) :: ((Zpos (XI (XI
    (XO (XO (XO (XI XH))))))) :: ((Zpos (XI (XI (XO (XI (XO (XI
    XH))))))) :: ((Zpos (XI (XI (XI (XO (XI (XI XH))))))) :: ((Zpos (XI (XO
    (XO (XO (XO (XI XH))))))) :: ((Zpos (XO (XI (XO (XO (XI (XI
    XH))))))) :: ((Zpos (XO (XO (XI (XO (XO (XI XH))))))) :: ((Zpos (XI (XO
    (XI (XI (XO XH)))))) :: ((Zpos (XO (XO (XI (XO (XO (XI
    XH))))))) :: ((Zpos (XI (XO (XI (XO (XO (XI XH))))))) :: ((Zpos (XO (XO
    (XI (XI (XO (XI XH))))))) :: ((Zpos (XI (XO (XI (XO (XO (XI
    XH))))))) :: ((Zpos (XO (XO (XI (XO (XI (XI XH))))))) :: ((Zpos (XI (XO
    (XI (XO (XO (XI XH))))))) :: ((Zpos (XI (XO (XI (XI (XO
    XH)))))) :: ((Zpos (XI (XI (XO (XO (XO (XI XH))))))) :: ((Zpos (XO (XO
    (XO (XI (XO (XI XH))))))) :: ((Zpos (XI (XO (XO (XO (XO (XI
    XH))))))) :: ((Zpos (XO (XI (XO (XO (XI (XI
    XH))))))) :: [])))))))))))))))))))), (((Zpos (XO (XI (XO (XO (XO (XI
    XH))))))) :: ((Zpos (XI (XO (XO (XO (XO (XI XH))))))) :: ((Zpos (XI (XI
    (XO (XO (XO (XI XH))))))) :: ((Zpos (XI (XI (XO (XI (XO (XI
    XH))))))) :: ((Zpos (XI (XI (XI (XO (XI (XI XH))))))) :: ((Zpos (XI (XO
    (XO (XO (XO (XI XH))))))) :: ((Zpos (XO (XI (XO (XO (XI (XI
    XH))))))) :: ((Zpos (XO (XO (XI (XO (XO (XI XH))))))) :: ((Zpos (XI (XO
    (XI (XI (XO XH)))))) :: ((Zpos (XO (XO (XI (XO (XO (XI
    XH))))))) :: ((Zpos (XI (XO (XI (XO (XO (XI XH))))))) :: ((Zpos (XO (XO
    (XI (XI (XO (XI XH))))))) :: ((Zpos (XI (XO (XI (XO (XO (XI
    XH))))))) :: ((Zpos (XO (XO (XI (XO (XI (XI XH))))))) :: ((Zpos (XI (XO
    (XI (XO (XO (XI XH))))))) :: ((Zpos (XI (XO (XI (XI (XO
    XH)))))) :: ((Zpos (XI (XI (XO (XO (XO (XI XH))))))) :: ((Zpos (XO (XO
    (XO (XI (XO (XI XH))))))) :: ((Zpos (XI (XO (XO (XO (XO (XI
    XH))))))) :: ((Zpos (XO (XI (XO (XO (XI (XI
    XH))))))) :: [])))))))))))))))))))) :: [])) :: ((((Zpos (XO (XI (XO (XO
    (XO (XI XH))))))) :: ((Zpos (XI (XO (XO (XO (XO (XI XH))))))) :: ((Zpos
    (XI (XI (XO (XO (XO (XI XH))))))) :: ((Zpos (XI (XI (XO (XI (XO (XI
    XH))))))) :: ((Zpos (XI (XI (XI (XO (XI (XI XH))))))) :: ((Zpos (XI (XO
    (XO (XO (XO (XI XH))))))) :: ((Zpos (XO (XI (XO (XO (XI (XI
    XH))))))) :: ((Zpos (XO (XO (XI (XO (XO (XI XH))))))) :: ((Zpos (XI (XO
    (XI (XI (XO XH)))))) :: ((Zpos (XO (XO (XI (XO (XO (XI
    XH))))))) :: ((Zpos (XI (XO (XI (XO (XO (XI XH))))))) :: ((Zpos (XO (XO
    (XI (XI (XO (XI XH))))))) :: ((Zpos (XI (XO (XI (XO (XO (XI
    XH))))))) :: ((Zpos (XO (XO (XI (XO (XI (XI XH))))))) :: ((Zpos (XI (XO
    (XI (XO (XO (XI XH))))))) :: ((Zpos (XI (XO (XI (XI (XO
    XH)))))) :: ((Zpos (XI (XI (XO (XO (XO (XI XH))))))) :: ((Zpos (XO (XO
    (XO (XI (XO (XI XH))))))) :: ((Zpos (XI (XO (XO (XO (XO (XI
    XH))))))) :: ((Zpos (XO (XI (XO (XO (XI (XI XH))))))) :: ((Zpos (XI (XI
    (XI (XI (XO XH)))))) :: ((Zpos (XI (XO (XI (XO (XO (XI
    XH))))))) :: ((Zpos (XI (XI (XI (XI (XO (XI XH))))))) :: ((Zpos (XO (XI
    (XI (XO (XO (XI XH))))))) :: [])))))))))))))))))))))))), (((Zpos (XO (XI
    (XO (XO (XO (XI XH))))))) :: ((Zpos (XI (XO (XO (XO (XO (XI
    XH))))))) :: ((Zpos (XI (XI (XO (XO (XO (XI XH))))))) :: ((Zpos (XI (XI
    (XO (XI (XO (XI XH))))))) :: ((Zpos (XI (XI (XI (XO (XI (XI
    XH))))))) :: ((Zpos (XI (XO (XO (XO (XO (XI XH))))))) :: ((Zpos (XO (XI
    (XO (XO (XI (XI XH))))))) :: ((Zpos (XO (XO (XI (XO (XO (XI
    XH))))))) :: ((Zpos (XI (XO (XI (XI (XO XH)))))) :: ((Zpos (XO (XO (XI
    (XO (XO (XI XH))))))) :: ((Zpos (XI (XO (XI (XO (XO (XI
    XH))))))) :: ((Zpos (XO (XO (XI (XI (XO (XI XH))))))) :: ((Zpos (XI (XO
    (XI (XO (XO (XI XH))))))) :: ((Zpos (XO (XO (XI (XO (XI (XI
    XH))))))) :: ((Zpos (XI (XO (XI (XO (XO (XI XH))))))) :: ((Zpos (XI (XO
    (XI (XI (XO XH)))))) :: ((Zpos (XI (XI (XO (XO (XO (XI
    XH))))))) :: ((Zpos (XO (XO (XO (XI (XO (XI XH))))))) :: ((Zpos (XI (XO
    (XO (XO (XO (XI XH))))))) :: ((Zpos (XO (XI (XO (XO (XI (XI
    XH))))))) :: ((Zpos (XI (XO (XI (XI (XO XH)))))) :: ((Zpos (XI (XO (XI
    (XO (XO (XI XH))))))) :: ((Zpos (XI (XI (XI (XI (XO (XI
    XH))))))) :: ((Zpos (XO (XI (XI (XO (XO (XI
    XH))))))) :: [])))))))))))))))))))))))) :: [])) :: ((((Zpos (XO (XI (XO
    (XO (XO (XI XH))))))) :: ((Zpos (XI (XO (XO (XO (XO (XI
    XH))))))) :: ((Zpos (XI (XI (XO (XO (XO (XI XH))))))) :: ((Zpos (XI (XI
    (XO (XI (XO (XI XH))))))) :: ((Zpos (XI (XI (XI (XO (XI (XI
    XH))))))) :: ((Zpos (XI (XO (XO (XO (XO (XI XH))))))) :: ((Zpos (XO (XI
    (XO (XO (XI (XI XH))))))) :: ((Zpos (XO (XO (XI (XO (XO (XI
    XH))))))) :: ((Zpos (XI (XO (XI (XI (XO XH)))))) :: ((Zpos (XI (XI (XI
    (XO (XI (XI XH))))))) :: ((Zpos (XI (XI (XI (XI (XO (XI
    XH))))))) :: ((Zpos (XO (XI (XO (XO (XI (XI XH))))))) :: ((Zpos (XO (XO
    (XI (XO (XO (XI XH))))))) :: []))))))))))))), (((Zpos (XO (XI (XO (XO (XO
    (XI XH))))))) :: ((Zpos (XI (XO (XO (XO (XO (XI XH))))))) :: ((Zpos (XI
    (XI (XO (XO (XO (XI XH))))))) :: ((Zpos (XI (XI (XO (XI (XO (XI
    XH))))))) :: ((Zpos (XI (XI (XI (XO (XI (XI XH))))))) :: ((Zpos (XI (XO
    (XO (XO (XO (XI XH))))))) :: ((Zpos (XO (XI (XO (XO (XI (XI
    XH))))))) :: ((Zpos (XO (XO (XI (XO (XO (XI XH))))))) :: ((Zpos (XI (XO
    (XI (XI (XO XH)))))) :: ((Zpos (XI (XI (XI (XO (XI (XI
    XH))))))) :: ((Zpos (XI (XI (XI (XI (XO (XI XH))))))) :: ((Zpos (XO (XI
    (XO (XO (XI (XI XH))))))) :: ((Zpos (XO (XO (XI (XO (XO (XI
    XH))))))) :: []))))))))))))) :: [])) :: ((((Zpos (XI (XI (XO (XO (XO (XI
    XH))))))) :: ((Zpos (XO (XO (XI (XI (XO (XI XH))))))) :: ((Zpos (XI (XO
    (XI (XO (XO (XI XH))))))) :: ((Zpos (XI (XO (XO (XO (XO (XI
    XH))))))) :: ((Zpos (XO (XI (XO (XO (XI (XI XH))))))) :: ((Zpos (XI (XO
    (XI (XI (XO XH)))))) :: ((Zpos (XI (XI (XO (XO (XI (XI
    XH))))))) :: ((Zpos (XI (XI (XO (XO (XO (XI XH))))))) :: ((Zpos (XO (XI
    (XO (XO (XI (XI XH))))))) :: ((Zpos (XI (XO (XI (XO (XO (XI
    XH))))))) :: ((Zpos (XI (XO (XI (XO (XO (XI XH))))))) :: ((Zpos (XO (XI
    (XI (XI (XO (XI XH))))))) :: [])))))))))))), (((Zpos (XI (XI (XO (XO (XO
    (XI XH))))))) :: ((Zpos (XO (XO (XI (XI (XO (XI XH))))))) :: ((Zpos (XI
    (XO (XI (XO (XO (XI XH))))))) :: ((Zpos (XI (XO (XO (XO (XO (XI
    XH))))))) :: ((Zpos (XO (XI (XO (XO (XI (XI XH))))))) :: ((Zpos (XI (XO
    (XI (XI (XO XH)))))) :: ((Zpos (XI (XI (XO (XO (XI (XI
    XH))))))) :: ((Zpos (XI (XI (XO (XO (XO (XI XH))))))) :: ((Zpos (XO (XI
    (XO (XO (XI (XI XH))))))) :: ((Zpos (XI (XO (XI (XO (XO (XI
    XH))))))) :: ((Zpos (XI (XO (XI (XO (XO (XI XH))))))) :: ((Zpos (XO (XI
    (XI (XI (XO (XI XH))))))) :: [])))))))))))) :: [])) :: ((((Zpos (XO (XO
    (XI (XO (XO (XI XH))))))) :: ((Zpos (XI (XO (XI (XO (XO (XI
    XH))))))) :: ((Zpos (XO (XO (XI (XI (XO (XI XH))))))) :: ((Zpos (XI (XO
    (XI (XO (XO (XI XH))))))) :: ((Zpos (XO (XO (XI (XO (XI (XI
    XH))))))) :: ((Zpos (XI (XO (XI (XO (XO (XI XH))))))) :: ((Zpos (XI (XO
    (XI (XI (XO XH)))))) :: ((Zpos (XI (XI (XO (XO (XO (XI
    XH))))))) :: ((Zpos (XO (XO (XO (XI (XO (XI XH))))))) :: ((Zpos (XI (XO
    (XO (XO (XO (XI XH))))))) :: ((Zpos (XO (XI (XO (XO (XI (XI
    XH))))))) :: []))))))))))), (((Zpos (XO (XO (XI (XO (XO (XI
    XH))))))) :: ((Zpos (XI (XO (XI (XO (XO (XI XH))))))) :: ((Zpos (XO (XO
    (XI (XI (XO (XI XH))))))) :: ((Zpos (XI (XO (XI (XO (XO (XI
    XH))))))) :: ((Zpos (XO (XO (XI (XO (XI (XI XH))))))) :: ((Zpos (XI (XO
    (XI (XO (XO (XI XH))))))) :: ((Zpos (XI (XO (XI (XI (XO
    XH)))))) :: ((Zpos (XI (XI (XO (XO (XO (XI XH))))))) :: ((Zpos (XO (XO
    (XO (XI (XO (XI XH))))))) :: ((Zpos (XI (XO (XO (XO (XO (XI
    XH))))))) :: ((Zpos (XO (XI (XO (XO (XI (XI
    XH))))))) :: []))))))))))) :: [])) :: ((((Zpos (XO (XO (XI (XO (XO (XI
    XH))))))) :: ((Zpos (XI (XO (XI (XO (XO (XI XH))))))) :: ((Zpos (XO (XO
    (XI (XI (XO (XI XH))))))) :: ((Zpos (XI (XO (XI (XO (XO (XI
    XH))))))) :: ((Zpos (XO (XO (XI (XO (XI (XI XH))))))) :: ((Zpos (XI (XO
    (XI (XO (XO (XI XH))))))) :: ((Zpos (XI (XO (XI (XI (XO
    XH)))))) :: ((Zpos (XI (XI (XO (XO (XO (XI XH))))))) :: ((Zpos (XO (XO
    (XO (XI (XO (XI XH))))))) :: ((Zpos (XI (XO (XO (XO (XO (XI
    XH))))))) :: ((Zpos (XO (XI (XO (XO (XI (XI XH))))))) :: ((Zpos (XI (XI
    (XI (XI (XO XH)))))) :: ((Zpos (XI (XO (XI (XO (XO (XI
    XH))))))) :: ((Zpos (XI (XI (XI (XI (XO (XI XH))))))) :: ((Zpos (XO (XI
    (XI (XO (XO (XI XH))))))) :: []))))))))))))))), (((Zpos (XO (XO (XI (XO
    (XO (XI XH))))))) :: ((Zpos (XI (XO (XI (XO (XO (XI XH))))))) :: ((Zpos
    (XO (XO (XI (XI (XO (XI XH))))))) :: ((Zpos (XI (XO (XI (XO (XO (XI
    XH))))))) :: ((Zpos (XO (XO (XI (XO (XI (XI XH))))))) :: ((Zpos (XI (XO
    (XI (XO (XO (XI XH))))))) :: ((Zpos (XI (XO (XI (XI (XO
    XH)))))) :: ((Zpos (XI (XI (XO (XO (XO (XI XH))))))) :: ((Zpos (XO (XO
    (XO (XI (XO (XI XH))))))) :: ((Zpos (XI (XO (XO (XO (XO (XI
    XH))))))) :: ((Zpos (XO (XI (XO (XO (XI (XI XH))))))) :: ((Zpos (XI (XO
    (XI (XI (XO XH)))))) :: ((Zpos (XI (XO (XI (XO (XO (XI
    XH))))))) :: ((Zpos (XI (XI (XI (XI (XO (XI XH))))))) :: ((Zpos (XO (XI
    (XI (XO (XO (XI XH))))))) :: []))))))))))))))) :: [])) :: ((((Zpos (XO
    (XO (XI (XO (XO (XI XH))))))) :: ((Zpos (XI (XO (XI (XO (XO (XI
    XH))))))) :: ((Zpos (XI (XI (XO (XO (XI (XI XH))))))) :: ((Zpos (XI (XO
    (XI (XO (XO (XI XH))))))) :: ((Zpos (XO (XO (XI (XI (XO (XI
    XH))))))) :: ((Zpos (XI (XO (XI (XO (XO (XI XH))))))) :: ((Zpos (XI (XI
    (XO (XO (XO (XI XH))))))) :: ((Zpos (XO (XO (XI (XO (XI (XI
    XH))))))) :: [])))))))), (((Zpos (XO (XO (XI (XO (XO (XI
    XH))))))) :: ((Zpos (XI (XO (XI (XO (XO (XI XH))))))) :: ((Zpos (XI (XI
    (XO (XO (XI (XI XH))))))) :: ((Zpos (XI (XO (XI (XO (XO (XI
    XH))))))) :: ((Zpos (XO (XO (XI (XI (XO (XI XH))))))) :: ((Zpos (XI (XO
    (XI (XO (XO (XI XH))))))) :: ((Zpos (XI (XI (XO (XO (XO (XI
    XH))))))) :: ((Zpos (XO (XO (XI (XO (XI (XI
    XH))))))) :: [])))))))) :: [])) :: ((((Zpos (XI (XO (XI (XO (XO (XI
    XH))))))) :: ((Zpos (XO (XI (XI (XI (XO (XI XH))))))) :: ((Zpos (XO (XO
    (XI (XO (XO (XI XH))))))) :: ((Zpos (XI (XO (XI (XI (XO
    XH)))))) :: ((Zpos (XI (XI (XI (XI (XO (XI XH))))))) :: ((Zpos (XO (XI
    (XI (XO (XO (XI XH))))))) :: ((Zpos (XI (XO (XI (XI (XO
    XH)))))) :: ((Zpos (XO (XO (XI (XI (XO (XI XH))))))) :: ((Zpos (XI (XO
    (XO (XI (XO (XI XH))))))) :: ((Zpos (XO (XI (XI (XI (XO (XI
    XH))))))) :: ((Zpos (XI (XO (XI (XO (XO (XI XH))))))) :: []))))))))))),
    (((Zpos (XI (XO (XI (XO (XO (XI XH))))))) :: ((Zpos (XO (XI (XI (XI (XO
    (XI XH))))))) :: ((Zpos (XO (XO (XI (XO (XO (XI XH))))))) :: ((Zpos (XI
    (XO (XI (XI (XO XH)))))) :: ((Zpos (XI (XI (XI (XI (XO (XI
    XH))))))) :: ((Zpos (XO (XI (XI (XO (XO (XI XH))))))) :: ((Zpos (XI (XO
    (XI (XI (XO XH)))))) :: ((Zpos (XO (XO (XI (XI (XO (XI
    XH))))))) :: ((Zpos (XI (XO (XO (XI (XO (XI XH))))))) :: ((Zpos (XO (XI
    (XI (XI (XO (XI XH))))))) :: ((Zpos (XI (XO (XI (XO (XO (XI
    XH))))))) :: []))))))))))) :: [])) :: ((((Zpos (XI (XI (XO (XO (XO (XI
    XH))))))) :: ((Zpos (XI (XO (XO (XO (XO (XI XH))))))) :: ((Zpos (XO (XI
    (XI (XI (XO (XI XH))))))) :: ((Zpos (XI (XI (XO (XO (XO (XI
    XH))))))) :: ((Zpos (XI (XO (XI (XO (XO (XI XH))))))) :: ((Zpos (XO (XO
    (XI (XI (XO (XI XH))))))) :: [])))))), (((Zpos (XI (XI (XO (XO (XO (XI
    XH))))))) :: ((Zpos (XI (XO (XO (XO (XO (XI XH))))))) :: ((Zpos (XO (XI
    (XI (XI (XO (XI XH))))))) :: ((Zpos (XI (XI (XO (XO (XO (XI
    XH))))))) :: ((Zpos (XI (XO (XI (XO (XO (XI XH))))))) :: ((Zpos (XO (XO
    (XI (XI (XO (XI XH))))))) :: [])))))) :: [])) :: ((((Zpos (XI (XI (XO (XO
    (XO (XI XH))))))) :: ((Zpos (XO (XO (XI (XI (XO (XI XH))))))) :: ((Zpos
    (XI (XO (XI (XO (XO (XI XH))))))) :: ((Zpos (XI (XO (XO (XO (XO (XI
    XH))))))) :: ((Zpos (XO (XI (XO (XO (XI (XI XH))))))) :: ((Zpos (XI (XO
    (XI (XI (XO XH)))))) :: ((Zpos (XI (XO (XO (XO (XI (XI
    XH))))))) :: ((Zpos (XI (XO (XI (XO (XI (XI XH))))))) :: ((Zpos (XI (XO
    (XI (XO (XO (XI XH))))))) :: ((Zpos (XO (XI (XO (XO (XI (XI
    XH))))))) :: ((Zpos (XI (XO (XO (XI (XI (XI XH))))))) :: []))))))))))),
    (((Zpos (XI (XI (XO (XO (XO (XI XH))))))) :: ((Zpos (XO (XO (XI (XI (XO
    (XI XH))))))) :: ((Zpos (XI (XO (XI (XO (XO (XI XH))))))) :: ((Zpos (XI
    (XO (XO (XO (XO (XI XH))))))) :: ((Zpos (XO (XI (XO (XO (XI (XI
    XH))))))) :: ((Zpos (XI (XO (XI (XI (XO XH)))))) :: ((Zpos (XI (XO (XO
    (XO (XI (XI XH))))))) :: ((Zpos (XI (XO (XI (XO (XI (XI
    XH))))))) :: ((Zpos (XI (XO (XI (XO (XO (XI XH))))))) :: ((Zpos (XO (XI
    (XO (XO (XI (XI XH))))))) :: ((Zpos (XI (XO (XO (XI (XI (XI
    XH))))))) :: []))))))))))) :: [])) :: ((((Zpos (XI (XI (XO (XO (XO (XI
    XH))))))) :: ((Zpos (XO (XO (XI (XI (XO (XI XH))))))) :: ((Zpos (XI (XO
    (XI (XO (XO (XI XH))))))) :: ((Zpos (XI (XO (XO (XO (XO (XI
    XH))))))) :: ((Zpos (XO (XI (XO (XO (XI (XI XH))))))) :: ((Zpos (XI (XO
    (XI (XI (XO XH)))))) :: ((Zpos (XI (XI (XO (XO (XI (XI
    XH))))))) :: ((Zpos (XI (XO (XI (XO (XO (XI XH))))))) :: ((Zpos (XO (XO
    (XI (XI (XO (XI XH))))))) :: ((Zpos (XI (XO (XI (XO (XO (XI
    XH))))))) :: ((Zpos (XI (XI (XO (XO (XO (XI XH))))))) :: ((Zpos (XO (XO
    (XI (XO (XI (XI XH))))))) :: ((Zpos (XI (XO (XO (XI (XO (XI
    XH))))))) :: ((Zpos (XI (XI (XI (XI (XO (XI XH))))))) :: ((Zpos (XO (XI
    (XI (XI (XO (XI XH))))))) :: []))))))))))))))), (((Zpos (XI (XI (XO (XO
    (XO (XI XH))))))) :: ((Zpos (XO (XO (XI (XI (XO (XI XH))))))) :: ((Zpos
    (XI (XO (XI (XO (XO (XI XH))))))) :: ((Zpos (XI (XO (XO (XO (XO (XI
    XH))))))) :: ((Zpos (XO (XI (XO (XO (XI (XI XH))))))) :: ((Zpos (XI (XO
    (XI (XI (XO XH)))))) :: ((Zpos (XI (XI (XO (XO (XI (XI
    XH))))))) :: ((Zpos (XI (XO (XI (XO (XO (XI XH))))))) :: ((Zpos (XO (XO
    (XI (XI (XO (XI XH))))))) :: ((Zpos (XI (XO (XI (XO (XO (XI
    XH))))))) :: ((Zpos (XI (XI (XO (XO (XO (XI XH))))))) :: ((Zpos (XO (XO
    (XI (XO (XI (XI XH))))))) :: ((Zpos (XI (XO (XO (XI (XO (XI
    XH))))))) :: ((Zpos (XI (XI (XI (XI (XO (XI XH))))))) :: ((Zpos (XO (XI
    (XI (XI (XO (XI XH))))))) :: []))))))))))))))) :: [])) :: ((((Zpos (XO
    (XI (XI (XO (XO (XI XH))))))) :: ((Zpos (XI (XI (XI (XI (XO (XI
    XH))))))) :: ((Zpos (XO (XI (XO (XO (XI (XI XH))))))) :: ((Zpos (XI (XI
    (XI (XO (XI (XI XH))))))) :: ((Zpos (XI (XO (XO (XO (XO (XI
    XH))))))) :: ((Zpos (XO (XI (XO (XO (XI (XI XH))))))) :: ((Zpos (XO (XO
    (XI (XO (XO (XI XH))))))) :: ((Zpos (XI (XO (XI (XI (XO
    XH)))))) :: ((Zpos (XI (XI (XO (XO (XO (XI XH))))))) :: ((Zpos (XO (XO
    (XO (XI (XO (XI XH))))))) :: ((Zpos (XI (XO (XO (XO (XO (XI
    XH))))))) :: ((Zpos (XO (XI (XO (XO (XI (XI XH))))))) :: [])))))))))))),
    (((Zpos (XO (XI (XI (XO (XO (XI XH))))))) :: ((Zpos (XI (XI (XI (XI (XO
    (XI XH))))))) :: ((Zpos (XO (XI (XO (XO (XI (XI XH))))))) :: ((Zpos (XI
    (XI (XI (XO (XI (XI XH))))))) :: ((Zpos (XI (XO (XO (XO (XO (XI
    XH))))))) :: ((Zpos (XO (XI (XO (XO (XI (XI XH))))))) :: ((Zpos (XO (XO
    (XI (XO (XO (XI XH))))))) :: ((Zpos (XI (XO (XI (XI (XO
    XH)))))) :: ((Zpos (XI (XI (XO (XO (XO (XI XH))))))) :: ((Zpos (XO (XO
    (XO (XI (XO (XI XH))))))) :: ((Zpos (XI (XO (XO (XO (XO (XI
    XH))))))) :: ((Zpos (XO (XI (XO (XO (XI (XI
    XH))))))) :: [])))))))))))) :: [])) :: ((((Zpos (XO (XI (XI (XO (XO (XI
    XH))))))) :: ((Zpos (XI (XI (XI (XI (XO (XI XH))))))) :: ((Zpos (XO (XI
    (XO (XO (XI (XI XH))))))) :: ((Zpos (XI (XI (XI (XO (XI (XI
    XH))))))) :: ((Zpos (XI (XO (XO (XO (XO (XI XH))))))) :: ((Zpos (XO (XI
    (XO (XO (XI (XI XH))))))) :: ((Zpos (XO (XO (XI (XO (XO (XI
    XH))))))) :: ((Zpos (XI (XO (XI (XI (XO XH)))))) :: ((Zpos (XI (XI (XI
    (XO (XI (XI XH))))))) :: ((Zpos (XI (XI (XI (XI (XO (XI
    XH))))))) :: ((Zpos (XO (XI (XO (XO (XI (XI XH))))))) :: ((Zpos (XO (XO
    (XI (XO (XO (XI XH))))))) :: [])))))))))))), (((Zpos (XO (XI (XI (XO (XO
    (XI XH))))))) :: ((Zpos (XI (XI (XI (XI (XO (XI XH))))))) :: ((Zpos (XO
    (XI (XO (XO (XI (XI XH))))))) :: ((Zpos (XI (XI (XI (XO (XI (XI
    XH))))))) :: ((Zpos (XI (XO (XO (XO (XO (XI XH))))))) :: ((Zpos (XO (XI
    (XO (XO (XI (XI XH))))))) :: ((Zpos (XO (XO (XI (XO (XO (XI
    XH))))))) :: ((Zpos (XI (XO (XI (XI (XO XH)))))) :: ((Zpos (XI (XI (XI
    (XO (XI (XI XH))))))) :: ((Zpos (XI (XI (XI (XI (XO (XI
    XH))))))) :: ((Zpos (XO (XI (XO (XO (XI (XI XH))))))) :: ((Zpos (XO (XO
    (XI (XO (XO (XI XH))))))) :: [])))))))))))) :: [])) :: ((((Zpos (XO (XI
    (XO (XI (XO (XI XH))))))) :: ((Zpos (XI (XO (XI (XO (XI (XI
    XH))))))) :: ((Zpos (XI (XO (XI (XI (XO (XI XH))))))) :: ((Zpos (XO (XO
    (XO (XO (XI (XI XH))))))) :: [])))), (((Zpos (XO (XI (XO (XI (XO (XI
    XH))))))) :: ((Zpos (XI (XO (XI (XO (XI (XI XH))))))) :: ((Zpos (XI (XO
    (XI (XI (XO (XI XH))))))) :: ((Zpos (XO (XO (XO (XO (XI (XI
    XH))))))) :: [])))) :: [])) :: ((((Zpos (XO (XI (XO (XI (XO (XI
    XH))))))) :: ((Zpos (XI (XO (XI (XO (XI (XI XH))))))) :: ((Zpos (XI (XO
    (XI (XI (XO (XI XH))))))) :: ((Zpos (XO (XO (XO (XO (XI (XI
    XH))))))) :: ((Zpos (XI (XO (XI (XI (XO XH)))))) :: ((Zpos (XI (XO (XO
    (XO (XO (XI XH))))))) :: ((Zpos (XI (XI (XO (XO (XO (XI
    XH))))))) :: ((Zpos (XI (XI (XO (XO (XO (XI XH))))))) :: ((Zpos (XI (XO
    (XI (XO (XO (XI XH))))))) :: ((Zpos (XO (XO (XO (XO (XI (XI
    XH))))))) :: ((Zpos (XO (XO (XI (XO (XI (XI XH))))))) :: []))))))))))),
    (((Zpos (XO (XI (XO (XI (XO (XI XH))))))) :: ((Zpos (XI (XO (XI (XO (XI
    (XI XH))))))) :: ((Zpos (XI (XO (XI (XI (XO (XI XH))))))) :: ((Zpos (XO
    (XO (XO (XO (XI (XI XH))))))) :: ((Zpos (XI (XO (XI (XI (XO
    XH)))))) :: ((Zpos (XI (XO (XO (XO (XO (XI XH))))))) :: ((Zpos (XI (XI
    (XO (XO (XO (XI XH))))))) :: ((Zpos (XI (XI (XO (XO (XO (XI
    XH))))))) :: ((Zpos (XI (XO (XI (XO (XO (XI XH))))))) :: ((Zpos (XO (XO
    (XO (XO (XI (XI XH))))))) :: ((Zpos (XO (XO (XI (XO (XI (XI
    XH))))))) :: []))))))))))) :: [])) :: ((((Zpos (XI (XI (XO (XI (XO (XI
    XH))))))) :: ((Zpos (XI (XO (XO (XI (XO (XI XH))))))) :: ((Zpos (XO (XO
    (XI (XI (XO (XI XH))))))) :: ((Zpos (XO (XO (XI (XI (XO (XI
    XH))))))) :: ((Zpos (XI (XO (XI (XI (XO XH)))))) :: ((Zpos (XO (XO (XI
    (XI (XO (XI XH))))))) :: ((Zpos (XI (XO (XO (XI (XO (XI
    XH))))))) :: ((Zpos (XO (XI (XI (XI (XO (XI XH))))))) :: ((Zpos (XI (XO
    (XI (XO (XO (XI XH))))))) :: []))))))))), (((Zpos (XI (XI (XO (XI (XO (XI
    XH))))))) :: ((Zpos (XI (XO (XO (XI (XO (XI XH))))))) :: ((Zpos (XO (XO
    (XI (XI (XO (XI XH))))))) :: ((Zpos (XO (XO (XI (XI (XO (XI
    XH))))))) :: ((Zpos (XI (XO (XI (XI (XO XH)))))) :: ((Zpos (XO (XO (XI
    (XI (XO (XI XH))))))) :: ((Zpos (XI (XO (XO (XI (XO (XI
    XH))))))) :: ((Zpos (XO (XI (XI (XI (XO (XI XH))))))) :: ((Zpos (XI (XO
    (XI (XO (XO (XI XH))))))) :: []))))))))) :: [])) :: ((((Zpos (XI (XI (XO
    (XI (XO (XI XH))))))) :: ((Zpos (XI (XO (XO (XI (XO (XI
    XH))))))) :: ((Zpos (XO (XO (XI (XI (XO (XI XH))))))) :: ((Zpos (XO (XO
    (XI (XI (XO (XI XH))))))) :: ((Zpos (XI (XO (XI (XI (XO
    XH)))))) :: ((Zpos (XI (XI (XI (XO (XI (XI XH))))))) :: ((Zpos (XI (XI
    (XI (XI (XO (XI XH))))))) :: ((Zpos (XO (XI (XO (XO (XI (XI
    XH))))))) :: ((Zpos (XO (XO (XI (XO (XO (XI XH))))))) :: []))))))))),
    (((Zpos (XI (XI (XO (XI (XO (XI XH))))))) :: ((Zpos (XI (XO (XO (XI (XO
    (XI XH))))))) :: ((Zpos (XO (XO (XI (XI (XO (XI XH))))))) :: ((Zpos (XO
    (XO (XI (XI (XO (XI XH))))))) :: ((Zpos (XI (XO (XI (XI (XO
    XH)))))) :: ((Zpos (XI (XI (XI (XO (XI (XI XH))))))) :: ((Zpos (XI (XI
    (XI (XI (XO (XI XH))))))) :: ((Zpos (XO (XI (XO (XO (XI (XI
    XH))))))) :: ((Zpos (XO (XO (XI (XO (XO (XI
    XH))))))) :: []))))))))) :: [])) :: ((((Zpos (XI (XO (XI (XO (XI (XI
    XH))))))) :: ((Zpos (XO (XI (XI (XI (XO (XI XH))))))) :: ((Zpos (XI (XO
    (XO (XI (XO (XI XH))))))) :: ((Zpos (XO (XO (XO (XI (XI (XI
    XH))))))) :: ((Zpos (XI (XO (XI (XI (XO XH)))))) :: ((Zpos (XO (XO (XI
    (XI (XO (XI XH))))))) :: ((Zpos (XI (XO (XO (XI (XO (XI
    XH))))))) :: ((Zpos (XO (XI (XI (XI (XO (XI XH))))))) :: ((Zpos (XI (XO
    (XI (XO (XO (XI XH))))))) :: ((Zpos (XI (XO (XI (XI (XO
    XH)))))) :: ((Zpos (XO (XO (XI (XO (XO (XI XH))))))) :: ((Zpos (XI (XO
    (XO (XI (XO (XI XH))))))) :: ((Zpos (XI (XI (XO (XO (XI (XI
    XH))))))) :: ((Zpos (XI (XI (XO (XO (XO (XI XH))))))) :: ((Zpos (XI (XO
    (XO (XO (XO (XI XH))))))) :: ((Zpos (XO (XI (XO (XO (XI (XI
    XH))))))) :: ((Zpos (XO (XO (XI (XO (XO (XI
    XH))))))) :: []))))))))))))))))), (((Zpos (XI (XO (XI (XO (XI (XI
    XH))))))) :: ((Zpos (XO (XI (XI (XI (XO (XI XH))))))) :: ((Zpos (XI (XO
    (XO (XI (XO (XI XH))))))) :: ((Zpos (XO (XO (XO (XI (XI (XI
    XH))))))) :: ((Zpos (XI (XO (XI (XI (XO XH)))))) :: ((Zpos (XO (XO (XI
    (XI (XO (XI XH))))))) :: ((Zpos (XI (XO (XO (XI (XO (XI
    XH))))))) :: ((Zpos (XO (XI (XI (XI (XO (XI XH))))))) :: ((Zpos (XI (XO
    (XI (XO (XO (XI XH))))))) :: ((Zpos (XI (XO (XI (XI (XO
    XH)))))) :: ((Zpos (XO (XO (XI (XO (XO (XI XH))))))) :: ((Zpos (XI (XO
    (XO (XI (XO (XI XH))))))) :: ((Zpos (XI (XI (XO (XO (XI (XI
    XH))))))) :: ((Zpos (XI (XI (XO (XO (XO (XI XH))))))) :: ((Zpos (XI (XO
    (XO (XO (XO (XI XH))))))) :: ((Zpos (XO (XI (XO (XO (XI (XI
    XH))))))) :: ((Zpos (XO (XO (XI (XO (XO (XI
    XH))))))) :: []))))))))))))))))) :: [])) :: ((((Zpos (XO (XO (XI (XI (XO
    (XI XH))))))) :: ((Zpos (XI (XO (XO (XI (XO (XI XH))))))) :: ((Zpos (XO
    (XI (XI (XI (XO (XI XH))))))) :: ((Zpos (XI (XO (XI (XO (XO (XI
    XH))))))) :: ((Zpos (XI (XO (XI (XI (XO XH)))))) :: ((Zpos (XO (XO (XI
    (XO (XO (XI XH))))))) :: ((Zpos (XI (XO (XO (XI (XO (XI
    XH))))))) :: ((Zpos (XI (XI (XO (XO (XI (XI XH))))))) :: ((Zpos (XI (XI
    (XO (XO (XO (XI XH))))))) :: ((Zpos (XI (XO (XO (XO (XO (XI
    XH))))))) :: ((Zpos (XO (XI (XO (XO (XI (XI XH))))))) :: ((Zpos (XO (XO
    (XI (XO (XO (XI XH))))))) :: [])))))))))))), (((Zpos (XI (XO (XI (XO (XI
    (XI XH))))))) :: ((Zpos (XO (XI (XI (XI (XO (XI XH))))))) :: ((Zpos (XI
    (XO (XO (XI (XO (XI XH))))))) :: ((Zpos (XO (XO (XO (XI (XI (XI
    XH))))))) :: ((Zpos (XI (XO (XI (XI (XO XH)))))) :: ((Zpos (XO (XO (XI
    (XI (XO (XI XH))))))) :: ((Zpos (XI (XO (XO (XI (XO (XI
    XH))))))) :: ((Zpos (XO (XI (XI (XI (XO (XI XH))))))) :: ((Zpos (XI (XO
    (XI (XO (XO (XI XH))))))) :: ((Zpos (XI (XO (XI (XI (XO
    XH)))))) :: ((Zpos (XO (XO (XI (XO (XO (XI XH))))))) :: ((Zpos (XI (XO
    (XO (XI (XO (XI XH))))))) :: ((Zpos (XI (XI (XO (XO (XI (XI
    XH))))))) :: ((Zpos (XI (XI (XO (XO (XO (XI XH))))))) :: ((Zpos (XI (XO
    (XO (XO (XO (XI XH))))))) :: ((Zpos (XO (XI (XO (XO (XI (XI
    XH))))))) :: ((Zpos (XO (XO (XI (XO (XO (XI
    XH))))))) :: []))))))))))))))))) :: [])) :: ((((Zpos (XI (XO (XI (XO (XI
    (XI XH))))))) :: ((Zpos (XO (XI (XI (XI (XO (XI XH))))))) :: ((Zpos (XI
    (XO (XO (XI (XO (XI XH))))))) :: ((Zpos (XO (XO (XO (XI (XI (XI
    XH))))))) :: ((Zpos (XI (XO (XI (XI (XO XH)))))) :: ((Zpos (XI (XI (XI
    (XO (XI (XI XH))))))) :: ((Zpos (XI (XI (XI (XI (XO (XI
    XH))))))) :: ((Zpos (XO (XI (XO (XO (XI (XI XH))))))) :: ((Zpos (XO (XO
    (XI (XO (XO (XI XH))))))) :: ((Zpos (XI (XO (XI (XI (XO
    XH)))))) :: ((Zpos (XO (XI (XO (XO (XI (XI XH))))))) :: ((Zpos (XI (XO
    (XI (XO (XI (XI XH))))))) :: ((Zpos (XO (XI (XO (XO (XO (XI
    XH))))))) :: ((Zpos (XI (XI (XI (XI (XO (XI XH))))))) :: ((Zpos (XI (XO
    (XI (XO (XI (XI XH))))))) :: ((Zpos (XO (XO (XI (XO (XI (XI
    XH))))))) :: [])))))))))))))))), (((Zpos (XI (XO (XI (XO (XI (XI
    XH))))))) :: ((Zpos (XO (XI (XI (XI (XO (XI XH))))))) :: ((Zpos (XI (XO
    (XO (XI (XO (XI XH))))))) :: ((Zpos (XO (XO (XO (XI (XI (XI
    XH))))))) :: ((Zpos (XI (XO (XI (XI (XO XH)))))) :: ((Zpos (XI (XI (XI
    (XO (XI (XI XH))))))) :: ((Zpos (XI (XI (XI (XI (XO (XI
    XH))))))) :: ((Zpos (XO (XI (XO (XO (XI (XI XH))))))) :: ((Zpos (XO (XO
    (XI (XO (XO (XI XH))))))) :: ((Zpos (XI (XO (XI (XI (XO
    XH)))))) :: ((Zpos (XO (XI (XO (XO (XI (XI XH))))))) :: ((Zpos (XI (XO
    (XI (XO (XI (XI XH))))))) :: ((Zpos (XO (XI (XO (XO (XO (XI
    XH))))))) :: ((Zpos (XI (XI (XI (XI (XO (XI XH))))))) :: ((Zpos (XI (XO
    (XI (XO (XI (XI XH))))))) :: ((Zpos (XO (XO (XI (XO (XI (XI
    XH))))))) :: [])))))))))))))))) :: [])) :: ((((Zpos (XI (XI (XI (XO (XI
    (XI XH))))))) :: ((Zpos (XI (XI (XI (XI (XO (XI XH))))))) :: ((Zpos (XO
    (XI (XO (XO (XI (XI XH))))))) :: ((Zpos (XO (XO (XI (XO (XO (XI
    XH))))))) :: ((Zpos (XI (XO (XI (XI (XO XH)))))) :: ((Zpos (XO (XI (XO
    (XO (XI (XI XH))))))) :: ((Zpos (XI (XO (XI (XO (XI (XI
    XH))))))) :: ((Zpos (XO (XI (XO (XO (XO (XI XH))))))) :: ((Zpos (XI (XI
    (XI (XI (XO (XI XH))))))) :: ((Zpos (XI (XO (XI (XO (XI (XI
    XH))))))) :: ((Zpos (XO (XO (XI (XO (XI (XI XH))))))) :: []))))))))))),
    (((Zpos (XI (XO (XI (XO (XI (XI XH))))))) :: ((Zpos (XO (XI (XI (XI (XO
    (XI XH))))))) :: ((Zpos (XI (XO (XO (XI (XO (XI XH))))))) :: ((Zpos (XO
    (XO (XO (XI (XI (XI XH))))))) :: ((Zpos (XI (XO (XI (XI (XO
    XH)))))) :: ((Zpos (XI (XI (XI (XO (XI (XI XH))))))) :: ((Zpos (XI (XI
    (XI (XI (XO (XI XH))))))) :: ((Zpos (XO (XI (XO (XO (XI (XI
    XH))))))) :: ((Zpos (XO (XO (XI (XO (XO (XI XH))))))) :: ((Zpos (XI (XO
    (XI (XI (XO XH)))))) :: ((Zpos (XO (XI (XO (XO (XI (XI
    XH))))))) :: ((Zpos (XI (XO (XI (XO (XI (XI XH))))))) :: ((Zpos (XO (XI
    (XO (XO (XO (XI XH))))))) :: ((Zpos (XI (XI (XI (XI (XO (XI
    XH))))))) :: ((Zpos (XI (XO (XI (XO (XI (XI XH))))))) :: ((Zpos (XO (XO
    (XI (XO (XI (XI XH))))))) :: [])))))))))))))))) :: [])) :: ((((Zpos (XI
    (XO (XO (XI (XI (XI XH))))))) :: ((Zpos (XI (XO (XO (XO (XO (XI
    XH))))))) :: ((Zpos (XO (XI (XI (XI (XO (XI XH))))))) :: ((Zpos (XI (XI
    (XO (XI (XO (XI XH))))))) :: [])))), (((Zpos (XI (XO (XO (XI (XI (XI
    XH))))))) :: ((Zpos (XI (XO (XO (XO (XO (XI XH))))))) :: ((Zpos (XO (XI
    (XI (XI (XO (XI XH))))))) :: ((Zpos (XI (XI (XO (XI (XO (XI
    XH))))))) :: [])))) :: [])) :: ((((Zpos (XO (XI (XO (XO (XO (XI
    XH))))))) :: ((Zpos (XI (XO (XO (XO (XO (XI XH))))))) :: ((Zpos (XI (XI
    (XO (XO (XO (XI XH))))))) :: ((Zpos (XI (XI (XO (XI (XO (XI
    XH))))))) :: ((Zpos (XI (XI (XI (XO (XI (XI XH))))))) :: ((Zpos (XI (XO
    (XO (XO (XO (XI XH))))))) :: ((Zpos (XO (XI (XO (XO (XI (XI
    XH))))))) :: ((Zpos (XO (XO (XI (XO (XO (XI XH))))))) :: ((Zpos (XI (XO
    (XI (XI (XO XH)))))) :: ((Zpos (XI (XI (XO (XI (XO (XI
    XH))))))) :: ((Zpos (XI (XO (XO (XI (XO (XI XH))))))) :: ((Zpos (XO (XO
    (XI (XI (XO (XI XH))))))) :: ((Zpos (XO (XO (XI (XI (XO (XI
    XH))))))) :: ((Zpos (XI (XO (XI (XI (XO XH)))))) :: ((Zpos (XI (XI (XI
    (XO (XI (XI XH))))))) :: ((Zpos (XI (XI (XI (XI (XO (XI
    XH))))))) :: ((Zpos (XO (XI (XO (XO (XI (XI XH))))))) :: ((Zpos (XO (XO
    (XI (XO (XO (XI XH))))))) :: [])))))))))))))))))), (((Zpos (XO (XI (XO
    (XO (XO (XI XH))))))) :: ((Zpos (XI (XO (XO (XO (XO (XI
    XH))))))) :: ((Zpos (XI (XI (XO (XO (XO (XI XH))))))) :: ((Zpos (XI (XI
    (XO (XI (XO (XI XH))))))) :: ((Zpos (XI (XI (XI (XO (XI (XI
    XH))))))) :: ((Zpos (XI (XO (XO (XO (XO (XI XH))))))) :: ((Zpos (XO (XI
    (XO (XO (XI (XI XH))))))) :: ((Zpos (XO (XO (XI (XO (XO (XI
    XH))))))) :: ((Zpos (XI (XO (XI (XI (XO XH)))))) :: ((Zpos (XI (XI (XO
    (XI (XO (XI XH))))))) :: ((Zpos (XI (XO (XO (XI (XO (XI
    XH))))))) :: ((Zpos (XO (XO (XI (XI (XO (XI XH))))))) :: ((Zpos (XO (XO
    (XI (XI (XO (XI XH))))))) :: ((Zpos (XI (XO (XI (XI (XO
    XH)))))) :: ((Zpos (XI (XI (XI (XO (XI (XI XH))))))) :: ((Zpos (XI (XI
    (XI (XI (XO (XI XH))))))) :: ((Zpos (XO (XI (XO (XO (XI (XI
    XH))))))) :: ((Zpos (XO (XO (XI (XO (XO (XI
    XH))))))) :: [])))))))))))))))))) :: [])) :: ((((Zpos (XO (XO (XI (XO (XI
    (XI XH))))))) :: ((Zpos (XI (XI (XI (XI (XO (XI XH))))))) :: ((Zpos (XI
    (XI (XI (XO (XO (XI XH))))))) :: ((Zpos (XI (XI (XI (XO (XO (XI
    XH))))))) :: ((Zpos (XO (XO (XI (XI (XO (XI XH))))))) :: ((Zpos (XI (XO
    (XI (XO (XO (XI XH))))))) :: ((Zpos (XI (XO (XI (XI (XO
    XH)))))) :: ((Zpos (XO (XO (XI (XO (XO (XI XH))))))) :: ((Zpos (XI (XI
    (XI (XI (XO (XI XH))))))) :: ((Zpos (XI (XI (XI (XO (XI (XI
    XH))))))) :: ((Zpos (XO (XI (XI (XI (XO (XI XH))))))) :: []))))))))))),
    (((Zpos (XO (XO (XI (XO (XI (XI XH))))))) :: ((Zpos (XI (XI (XI (XI (XO
    (XI XH))))))) :: ((Zpos (XI (XI (XI (XO (XO (XI XH))))))) :: ((Zpos (XI
    (XI (XI (XO (XO (XI XH))))))) :: ((Zpos (XO (XO (XI (XI (XO (XI
    XH))))))) :: ((Zpos (XI (XO (XI (XO (XO (XI
    XH))))))) :: [])))))) :: (((Zpos (XO (XO (XI (XO (XO (XI
    XH))))))) :: ((Zpos (XI (XI (XI (XI (XO (XI XH))))))) :: ((Zpos (XI (XI
    (XI (XO (XI (XI XH))))))) :: ((Zpos (XO (XI (XI (XI (XO (XI
    XH))))))) :: [])))) :: []))) :: ((((Zpos (XO (XO (XI (XO (XI (XI
    XH))))))) :: ((Zpos (XI (XI (XI (XI (XO (XI XH))))))) :: ((Zpos (XI (XI
    (XI (XO (XO (XI XH))))))) :: ((Zpos (XI (XI (XI (XO (XO (XI
    XH))))))) :: ((Zpos (XO (XO (XI (XI (XO (XI XH))))))) :: ((Zpos (XI (XO
    (XI (XO (XO (XI XH))))))) :: ((Zpos (XI (XO (XI (XI (XO
    XH)))))) :: ((Zpos (XI (XO (XI (XO (XI (XI XH))))))) :: ((Zpos (XO (XO
    (XO (XO (XI (XI XH))))))) :: []))))))))), (((Zpos (XO (XO (XI (XO (XI (XI
    XH))))))) :: ((Zpos (XI (XI (XI (XI (XO (XI XH))))))) :: ((Zpos (XI (XI
    (XI (XO (XO (XI XH))))))) :: ((Zpos (XI (XI (XI (XO (XO (XI
    XH))))))) :: ((Zpos (XO (XO (XI (XI (XO (XI XH))))))) :: ((Zpos (XI (XO
    (XI (XO (XO (XI XH))))))) :: [])))))) :: (((Zpos (XI (XO (XI (XO (XI (XI
    XH))))))) :: ((Zpos (XO (XO (XO (XO (XI (XI
    XH))))))) :: [])) :: []))) :: ((((Zpos (XO (XO (XI (XO (XI (XI
    XH))))))) :: ((Zpos (XI (XI (XI (XI (XO (XI XH))))))) :: ((Zpos (XI (XI
    (XI (XO (XO (XI XH))))))) :: ((Zpos (XI (XI (XI (XO (XO (XI
    XH))))))) :: ((Zpos (XO (XO (XI (XI (XO (XI XH))))))) :: ((Zpos (XI (XO
    (XI (XO (XO (XI XH))))))) :: ((Zpos (XI (XO (XI (XI (XO
    XH)))))) :: ((Zpos (XI (XO (XO (XI (XO (XI XH))))))) :: ((Zpos (XO (XI
    (XI (XI (XO (XI XH))))))) :: []))))))))), (((Zpos (XO (XO (XI (XO (XI (XI
    XH))))))) :: ((Zpos (XI (XI (XI (XI (XO (XI XH))))))) :: ((Zpos (XI (XI
    (XI (XO (XO (XI XH))))))) :: ((Zpos (XI (XI (XI (XO (XO (XI
    XH))))))) :: ((Zpos (XO (XO (XI (XI (XO (XI XH))))))) :: ((Zpos (XI (XO
    (XI (XO (XO (XI XH))))))) :: ((Zpos (XI (XO (XI (XI (XO
    XH)))))) :: ((Zpos (XI (XO (XO (XI (XO (XI XH))))))) :: ((Zpos (XO (XI
    (XI (XI (XO (XI XH))))))) :: []))))))))) :: [])) :: ((((Zpos (XO (XO (XI
    (XO (XI (XI XH))))))) :: ((Zpos (XI (XI (XI (XI (XO (XI
    XH))))))) :: ((Zpos (XI (XI (XI (XO (XO (XI XH))))))) :: ((Zpos (XI (XI
    (XI (XO (XO (XI XH))))))) :: ((Zpos (XO (XO (XI (XI (XO (XI
    XH))))))) :: ((Zpos (XI (XO (XI (XO (XO (XI XH))))))) :: ((Zpos (XI (XO
    (XI (XI (XO XH)))))) :: ((Zpos (XI (XI (XI (XI (XO (XI
    XH))))))) :: ((Zpos (XI (XO (XI (XO (XI (XI XH))))))) :: ((Zpos (XO (XO
    (XI (XO (XI (XI XH))))))) :: [])))))))))), (((Zpos (XO (XO (XI (XO (XI
    (XI XH))))))) :: ((Zpos (XI (XI (XI (XI (XO (XI XH))))))) :: ((Zpos (XI
    (XI (XI (XO (XO (XI XH))))))) :: ((Zpos (XI (XI (XI (XO (XO (XI
    XH))))))) :: ((Zpos (XO (XO (XI (XI (XO (XI XH))))))) :: ((Zpos (XI (XO
    (XI (XO (XO (XI XH))))))) :: ((Zpos (XI (XO (XI (XI (XO
    XH)))))) :: ((Zpos (XI (XI (XI (XI (XO (XI XH))))))) :: ((Zpos (XI (XO
    (XI (XO (XI (XI XH))))))) :: ((Zpos (XO (XO (XI (XO (XI (XI
    XH))))))) :: [])))))))))) :: [])) :: ((((Zpos (XO (XO (XI (XO (XI (XI
    XH))))))) :: ((Zpos (XI (XI (XI (XI (XO (XI XH))))))) :: ((Zpos (XI (XI
    (XI (XO (XO (XI XH))))))) :: ((Zpos (XI (XI (XI (XO (XO (XI
    XH))))))) :: ((Zpos (XO (XO (XI (XI (XO (XI XH))))))) :: ((Zpos (XI (XO
    (XI (XO (XO (XI XH))))))) :: ((Zpos (XI (XO (XI (XI (XO
    XH)))))) :: ((Zpos (XI (XO (XO (XO (XO (XI XH))))))) :: ((Zpos (XO (XO
    (XI (XI (XO (XI XH))))))) :: ((Zpos (XO (XO (XI (XI (XO (XI
    XH))))))) :: [])))))))))), (((Zpos (XO (XO (XI (XO (XI (XI
    XH))))))) :: ((Zpos (XI (XI (XI (XI (XO (XI XH))))))) :: ((Zpos (XI (XI
    (XI (XO (XO (XI XH))))))) :: ((Zpos (XI (XI (XI (XO (XO (XI
    XH))))))) :: ((Zpos (XO (XO (XI (XI (XO (XI XH))))))) :: ((Zpos (XI (XO
    (XI (XO (XO (XI XH))))))) :: ((Zpos (XI (XO (XI (XI (XO
    XH)))))) :: ((Zpos (XI (XO (XO (XO (XO (XI XH))))))) :: ((Zpos (XO (XO
    (XI (XI (XO (XI XH))))))) :: ((Zpos (XO (XO (XI (XI (XO (XI
    XH))))))) :: [])))))))))) :: [])) :: ((((Zpos (XO (XO (XI (XO (XI (XI
    XH))))))) :: ((Zpos (XI (XI (XI (XI (XO (XI XH))))))) :: ((Zpos (XI (XI
    (XI (XO (XO (XI XH))))))) :: ((Zpos (XI (XI (XI (XO (XO (XI
    XH))))))) :: ((Zpos (XO (XO (XI (XI (XO (XI XH))))))) :: ((Zpos (XI (XO
    (XI (XO (XO (XI XH))))))) :: ((Zpos (XI (XO (XI (XI (XO
    XH)))))) :: ((Zpos (XI (XI (XO (XO (XI (XI XH))))))) :: ((Zpos (XI (XO
    (XI (XO (XO (XI XH))))))) :: ((Zpos (XI (XO (XO (XO (XO (XI
    XH))))))) :: ((Zpos (XO (XI (XO (XO (XI (XI XH))))))) :: ((Zpos (XI (XI
    (XO (XO (XO (XI XH))))))) :: ((Zpos (XO (XO (XO (XI (XO (XI
    XH))))))) :: []))))))))))))), (((Zpos (XO (XO (XI (XO (XI (XI
    XH))))))) :: ((Zpos (XI (XI (XI (XI (XO (XI XH))))))) :: ((Zpos (XI (XI
    (XI (XO (XO (XI XH))))))) :: ((Zpos (XI (XI (XI (XO (XO (XI
    XH))))))) :: ((Zpos (XO (XO (XI (XI (XO (XI XH))))))) :: ((Zpos (XI (XO
    (XI (XO (XO (XI XH))))))) :: ((Zpos (XI (XO (XI (XI (XO
    XH)))))) :: ((Zpos (XI (XI (XO (XO (XI (XI XH))))))) :: ((Zpos (XI (XO
    (XI (XO (XO (XI XH))))))) :: ((Zpos (XI (XO (XO (XO (XO (XI
    XH))))))) :: ((Zpos (XO (XI (XO (XO (XI (XI XH))))))) :: ((Zpos (XI (XI
    (XO (XO (XO (XI XH))))))) :: ((Zpos (XO (XO (XO (XI (XO (XI
    XH))))))) :: []))))))))))))) :: [])) :: ((((Zpos (XO (XO (XI (XO (XI (XI
    XH))))))) :: ((Zpos (XI (XI (XI (XI (XO (XI XH))))))) :: ((Zpos (XI (XI
    (XI (XO (XO (XI XH))))))) :: ((Zpos (XI (XI (XI (XO (XO (XI
    XH))))))) :: ((Zpos (XO (XO (XI (XI (XO (XI XH))))))) :: ((Zpos (XI (XO
    (XI (XO (XO (XI XH))))))) :: ((Zpos (XI (XO (XI (XI (XO
    XH)))))) :: ((Zpos (XO (XO (XI (XO (XI (XI XH))))))) :: ((Zpos (XO (XI
    (XO (XO (XI (XI XH))))))) :: ((Zpos (XI (XO (XO (XO (XO (XI
    XH))))))) :: ((Zpos (XI (XI (XO (XO (XO (XI XH))))))) :: ((Zpos (XI (XI
    (XO (XI (XO (XI XH))))))) :: [])))))))))))), (((Zpos (XO (XO (XI (XO (XI
    (XI XH))))))) :: ((Zpos (XI (XI (XI (XI (XO (XI XH))))))) :: ((Zpos (XI
    (XI (XI (XO (XO (XI XH))))))) :: ((Zpos (XI (XI (XI (XO (XO (XI
    XH))))))) :: ((Zpos (XO (XO (XI (XI (XO (XI XH))))))) :: ((Zpos (XI (XO
    (XI (XO (XO (XI XH))))))) :: ((Zpos (XI (XO (XI (XI (XO
    XH)))))) :: ((Zpos (XO (XO (XI (XO (XI (XI XH))))))) :: ((Zpos (XO (XI
    (XO (XO (XI (XI XH))))))) :: ((Zpos (XI (XO (XO (XO (XO (XI
    XH))))))) :: ((Zpos (XI (XI (XO (XO (XO (XI XH))))))) :: ((Zpos (XI (XI
    (XO (XI (XO (XI XH))))))) :: [])))))))))))) :: [])) :: ((((Zpos (XO (XO
    (XI (XO (XI (XI XH))))))) :: ((Zpos (XI (XI (XI (XI (XO (XI
    XH))))))) :: ((Zpos (XI (XI (XI (XO (XO (XI XH))))))) :: ((Zpos (XI (XI
    (XI (XO (XO (XI XH))))))) :: ((Zpos (XO (XO (XI (XI (XO (XI
    XH))))))) :: ((Zpos (XI (XO (XI (XO (XO (XI XH))))))) :: ((Zpos (XI (XO
    (XI (XI (XO XH)))))) :: ((Zpos (XO (XO (XI (XO (XI (XI
    XH))))))) :: ((Zpos (XO (XI (XO (XO (XI (XI XH))))))) :: ((Zpos (XI (XO
    (XO (XO (XO (XI XH))))))) :: ((Zpos (XI (XI (XO (XO (XO (XI
    XH))))))) :: ((Zpos (XI (XI (XO (XI (XO (XI XH))))))) :: ((Zpos (XI (XO
    (XI (XI (XO XH)))))) :: ((Zpos (XI (XI (XO (XO (XO (XI
    XH))))))) :: ((Zpos (XI (XO (XI (XO (XI (XI XH))))))) :: ((Zpos (XO (XI
    (XO (XO (XI (XI XH))))))) :: ((Zpos (XO (XI (XO (XO (XI (XI
    XH))))))) :: ((Zpos (XI (XO (XI (XO (XO (XI XH))))))) :: ((Zpos (XO (XI
    (XI (XI (XO (XI XH))))))) :: ((Zpos (XO (XO (XI (XO (XI (XI
    XH))))))) :: [])))))))))))))))))))), (((Zpos (XO (XO (XI (XO (XI (XI
    XH))))))) :: ((Zpos (XI (XI (XI (XI (XO (XI XH))))))) :: ((Zpos (XI (XI
    (XI (XO (XO (XI XH))))))) :: ((Zpos (XI (XI (XI (XO (XO (XI
    XH))))))) :: ((Zpos (XO (XO (XI (XI (XO (XI XH))))))) :: ((Zpos (XI (XO
    (XI (XO (XO (XI XH))))))) :: ((Zpos (XI (XO (XI (XI (XO
    XH)))))) :: ((Zpos (XO (XO (XI (XO (XI (XI XH))))))) :: ((Zpos (XO (XI
    (XO (XO (XI (XI XH))))))) :: ((Zpos (XI (XO (XO (XO (XO (XI
    XH))))))) :: ((Zpos (XI (XI (XO (XO (XO (XI XH))))))) :: ((Zpos (XI (XI
    (XO (XI (XO (XI XH))))))) :: ((Zpos (XI (XO (XI (XI (XO
    XH)))))) :: ((Zpos (XI (XI (XO (XO (XO (XI XH))))))) :: ((Zpos (XI (XO
    (XI (XO (XI (XI XH))))))) :: ((Zpos (XO (XI (XO (XO (XI (XI
    XH))))))) :: ((Zpos (XO (XI (XO (XO (XI (XI XH))))))) :: ((Zpos (XI (XO
    (XI (XO (XO (XI XH))))))) :: ((Zpos (XO (XI (XI (XI (XO (XI
    XH))))))) :: ((Zpos (XO (XO (XI (XO (XI (XI
    XH))))))) :: [])))))))))))))))))))) :: [])) :: ((((Zpos (XO (XO (XI (XO
    (XI (XI XH))))))) :: ((Zpos (XI (XI (XI (XI (XO (XI XH))))))) :: ((Zpos
    (XI (XI (XI (XO (XO (XI XH))))))) :: ((Zpos (XI (XI (XI (XO (XO (XI
    XH))))))) :: ((Zpos (XO (XO (XI (XI (XO (XI XH))))))) :: ((Zpos (XI (XO
    (XI (XO (XO (XI XH))))))) :: ((Zpos (XI (XO (XI (XI (XO
    XH)))))) :: ((Zpos (XI (XO (XO (XI (XO (XI XH))))))) :: ((Zpos (XO (XI
    (XI (XI (XO (XI XH))))))) :: ((Zpos (XO (XO (XO (XO (XI (XI
    XH))))))) :: ((Zpos (XI (XO (XI (XO (XI (XI XH))))))) :: ((Zpos (XO (XO
    (XI (XO (XI (XI XH))))))) :: [])))))))))))), (((Zpos (XO (XO (XI (XO (XI
    (XI XH))))))) :: ((Zpos (XI (XI (XI (XI (XO (XI XH))))))) :: ((Zpos (XI
    (XI (XI (XO (XO (XI XH))))))) :: ((Zpos (XI (XI (XI (XO (XO (XI
    XH))))))) :: ((Zpos (XO (XO (XI (XI (XO (XI XH))))))) :: ((Zpos (XI (XO
    (XI (XO (XO (XI XH))))))) :: ((Zpos (XI (XO (XI (XI (XO
    XH)))))) :: ((Zpos (XI (XO (XO (XI (XO (XI XH))))))) :: ((Zpos (XO (XI
    (XI (XI (XO (XI XH))))))) :: ((Zpos (XO (XO (XO (XO (XI (XI
    XH))))))) :: ((Zpos (XI (XO (XI (XO (XI (XI XH))))))) :: ((Zpos (XO (XO
    (XI (XO (XI (XI XH))))))) :: [])))))))))))) :: [])) :: ((((Zpos (XO (XO
    (XO (XI (XO (XI XH))))))) :: ((Zpos (XI (XO (XO (XI (XO (XI
    XH))))))) :: ((Zpos (XO (XO (XI (XO (XO (XI XH))))))) :: ((Zpos (XI (XO
    (XI (XO (XO (XI XH))))))) :: ((Zpos (XI (XO (XI (XI (XO
    XH)))))) :: ((Zpos (XI (XO (XO (XI (XO (XI XH))))))) :: ((Zpos (XO (XI
    (XI (XI (XO (XI XH))))))) :: ((Zpos (XO (XO (XO (XO (XI (XI
    XH))))))) :: ((Zpos (XI (XO (XI (XO (XI (XI XH))))))) :: ((Zpos (XO (XO
    (XI (XO (XI (XI XH))))))) :: [])))))))))), (((Zpos (XO (XO (XO (XI (XO
    (XI XH))))))) :: ((Zpos (XI (XO (XO (XI (XO (XI XH))))))) :: ((Zpos (XO
    (XO (XI (XO (XO (XI XH))))))) :: ((Zpos (XI (XO (XI (XO (XO (XI
    XH))))))) :: ((Zpos (XI (XO (XI (XI (XO XH)))))) :: ((Zpos (XI (XO (XO
    (XI (XO (XI XH))))))) :: ((Zpos (XO (XI (XI (XI (XO (XI
    XH))))))) :: ((Zpos (XO (XO (XO (XO (XI (XI XH))))))) :: ((Zpos (XI (XO
    (XI (XO (XI (XI XH))))))) :: ((Zpos (XO (XO (XI (XO (XI (XI
    XH))))))) :: [])))))))))) :: [])) :: ((((Zpos (XI (XI (XO (XO (XI (XI
    XH))))))) :: ((Zpos (XO (XO (XO (XI (XO (XI XH))))))) :: ((Zpos (XI (XI
    (XI (XI (XO (XI XH))))))) :: ((Zpos (XI (XI (XI (XO (XI (XI
    XH))))))) :: ((Zpos (XI (XO (XI (XI (XO XH)))))) :: ((Zpos (XI (XO (XO
    (XI (XO (XI XH))))))) :: ((Zpos (XO (XI (XI (XI (XO (XI
    XH))))))) :: ((Zpos (XO (XO (XO (XO (XI (XI XH))))))) :: ((Zpos (XI (XO
    (XI (XO (XI (XI XH))))))) :: ((Zpos (XO (XO (XI (XO (XI (XI
    XH))))))) :: [])))))))))), (((Zpos (XI (XI (XO (XO (XI (XI
    XH))))))) :: ((Zpos (XO (XO (XO (XI (XO (XI XH))))))) :: ((Zpos (XI (XI
    (XI (XI (XO (XI XH))))))) :: ((Zpos (XI (XI (XI (XO (XI (XI
    XH))))))) :: ((Zpos (XI (XO (XI (XI (XO XH)))))) :: ((Zpos (XI (XO (XO
    (XI (XO (XI XH))))))) :: ((Zpos (XO (XI (XI (XI (XO (XI
    XH))))))) :: ((Zpos (XO (XO (XO (XO (XI (XI XH))))))) :: ((Zpos (XI (XO
    (XI (XO (XI (XI XH))))))) :: ((Zpos (XO (XO (XI (XO (XI (XI
    XH))))))) :: [])))))))))) :: [])) :: ((((Zpos (XO (XO (XI (XO (XI (XI
    XH))))))) :: ((Zpos (XI (XI (XI (XI (XO (XI XH))))))) :: ((Zpos (XI (XI
    (XI (XO (XO (XI XH))))))) :: ((Zpos (XI (XI (XI (XO (XO (XI
    XH))))))) :: ((Zpos (XO (XO (XI (XI (XO (XI XH))))))) :: ((Zpos (XI (XO
    (XI (XO (XO (XI XH))))))) :: ((Zpos (XI (XO (XI (XI (XO
    XH)))))) :: ((Zpos (XO (XO (XO (XI (XO (XI XH))))))) :: ((Zpos (XI (XO
    (XI (XO (XO (XI XH))))))) :: ((Zpos (XI (XO (XO (XO (XO (XI
    XH))))))) :: ((Zpos (XO (XO (XI (XO (XO (XI XH))))))) :: ((Zpos (XI (XO
    (XI (XO (XO (XI XH))))))) :: ((Zpos (XO (XI (XO (XO (XI (XI
    XH))))))) :: []))))))))))))), (((Zpos (XO (XO (XI (XO (XI (XI
    XH))))))) :: ((Zpos (XI (XI (XI (XI (XO (XI XH))))))) :: ((Zpos (XI (XI
    (XI (XO (XO (XI XH))))))) :: ((Zpos (XI (XI (XI (XO (XO (XI
    XH))))))) :: ((Zpos (XO (XO (XI (XI (XO (XI XH))))))) :: ((Zpos (XI (XO
    (XI (XO (XO (XI XH))))))) :: ((Zpos (XI (XO (XI (XI (XO
    XH)))))) :: ((Zpos (XO (XO (XO (XI (XO (XI XH))))))) :: ((Zpos (XI (XO
    (XI (XO (XO (XI XH))))))) :: ((Zpos (XI (XO (XO (XO (XO (XI
    XH))))))) :: ((Zpos (XO (XO (XI (XO (XO (XI XH))))))) :: ((Zpos (XI (XO
    (XI (XO (XO (XI XH))))))) :: ((Zpos (XO (XI (XO (XO (XI (XI
    XH))))))) :: []))))))))))))) :: [])) :: ((((Zpos (XO (XO (XI (XO (XI (XI
    XH))))))) :: ((Zpos (XI (XI (XI (XI (XO (XI XH))))))) :: ((Zpos (XI (XI
    (XI (XO (XO (XI XH))))))) :: ((Zpos (XI (XI (XI (XO (XO (XI
    XH))))))) :: ((Zpos (XO (XO (XI (XI (XO (XI XH))))))) :: ((Zpos (XI (XO
    (XI (XO (XO (XI XH))))))) :: ((Zpos (XI (XO (XI (XI (XO
    XH)))))) :: ((Zpos (XI (XI (XI (XO (XI (XI XH))))))) :: ((Zpos (XO (XI
    (XO (XO (XI (XI XH))))))) :: ((Zpos (XI (XO (XO (XO (XO (XI
    XH))))))) :: ((Zpos (XO (XO (XO (XO (XI (XI XH))))))) :: []))))))))))),
    (((Zpos (XO (XO (XI (XO (XI (XI XH))))))) :: ((Zpos (XI (XI (XI (XI (XO
    (XI XH))))))) :: ((Zpos (XI (XI (XI (XO (XO (XI XH))))))) :: ((Zpos (XI
    (XI (XI (XO (XO (XI XH))))))) :: ((Zpos (XO (XO (XI (XI (XO (XI
    XH))))))) :: ((Zpos (XI (XO (XI (XO (XO (XI XH))))))) :: ((Zpos (XI (XO
    (XI (XI (XO XH)))))) :: ((Zpos (XI (XI (XI (XO (XI (XI
    XH))))))) :: ((Zpos (XO (XI (XO (XO (XI (XI XH))))))) :: ((Zpos (XI (XO
    (XO (XO (XO (XI XH))))))) :: ((Zpos (XO (XO (XO (XO (XI (XI
    XH))))))) :: []))))))))))) :: [])) :: ((((Zpos (XO (XO (XI (XO (XI (XI
    XH))))))) :: ((Zpos (XI (XI (XI (XI (XO (XI XH))))))) :: ((Zpos (XI (XI
    (XI (XO (XO (XI XH))))))) :: ((Zpos (XI (XI (XI (XO (XO (XI
    XH))))))) :: ((Zpos (XO (XO (XI (XI (XO (XI XH))))))) :: ((Zpos (XI (XO
    (XI (XO (XO (XI XH))))))) :: ((Zpos (XI (XO (XI (XI (XO
    XH)))))) :: ((Zpos (XI (XO (XI (XI (XO (XI XH))))))) :: ((Zpos (XI (XO
    (XI (XO (XI (XI XH))))))) :: ((Zpos (XO (XO (XI (XI (XO (XI
    XH))))))) :: ((Zpos (XO (XO (XI (XO (XI (XI XH))))))) :: ((Zpos (XI (XO
    (XO (XI (XO (XI XH))))))) :: ((Zpos (XI (XO (XI (XI (XO
    XH)))))) :: ((Zpos (XO (XO (XI (XI (XO (XI XH))))))) :: ((Zpos (XI (XO
    (XO (XI (XO (XI XH))))))) :: ((Zpos (XO (XI (XI (XI (XO (XI
    XH))))))) :: ((Zpos (XI (XO (XI (XO (XO (XI
    XH))))))) :: []))))))))))))))))), (((Zpos (XO (XO (XI (XO (XI (XI
    XH))))))) :: ((Zpos (XI (XI (XI (XI (XO (XI XH))))))) :: ((Zpos (XI (XI
    (XI (XO (XO (XI XH))))))) :: ((Zpos (XI (XI (XI (XO (XO (XI
    XH))))))) :: ((Zpos (XO (XO (XI (XI (XO (XI XH))))))) :: ((Zpos (XI (XO
    (XI (XO (XO (XI XH))))))) :: ((Zpos (XI (XO (XI (XI (XO
    XH)))))) :: ((Zpos (XI (XO (XI (XI (XO (XI XH))))))) :: ((Zpos (XI (XO
    (XI (XO (XI (XI XH))))))) :: ((Zpos (XO (XO (XI (XI (XO (XI
    XH))))))) :: ((Zpos (XO (XO (XI (XO (XI (XI XH))))))) :: ((Zpos (XI (XO
    (XO (XI (XO (XI XH))))))) :: ((Zpos (XI (XO (XI (XI (XO
    XH)))))) :: ((Zpos (XO (XO (XI (XI (XO (XI XH))))))) :: ((Zpos (XI (XO
    (XO (XI (XO (XI XH))))))) :: ((Zpos (XO (XI (XI (XI (XO (XI
    XH))))))) :: ((Zpos (XI (XO (XI (XO (XO (XI
    XH))))))) :: []))))))))))))))))) :: [])) :: ((((Zpos (XO (XO (XI (XO (XI
    (XI XH))))))) :: ((Zpos (XI (XI (XI (XI (XO (XI XH))))))) :: ((Zpos (XI
    (XI (XI (XO (XO (XI XH))))))) :: ((Zpos (XI (XI (XI (XO (XO (XI
    XH))))))) :: ((Zpos (XO (XO (XI (XI (XO (XI XH))))))) :: ((Zpos (XI (XO
    (XI (XO (XO (XI XH))))))) :: ((Zpos (XI (XO (XI (XI (XO
    XH)))))) :: ((Zpos (XO (XO (XO (XI (XO (XI XH))))))) :: ((Zpos (XI (XI
    (XO (XO (XI (XI XH))))))) :: ((Zpos (XI (XI (XO (XO (XO (XI
    XH))))))) :: ((Zpos (XO (XI (XO (XO (XI (XI XH))))))) :: ((Zpos (XI (XI
    (XI (XI (XO (XI XH))))))) :: ((Zpos (XO (XO (XI (XI (XO (XI
    XH))))))) :: ((Zpos (XO (XO (XI (XI (XO (XI
    XH))))))) :: [])))))))))))))), (((Zpos (XO (XO (XI (XO (XI (XI
    XH))))))) :: ((Zpos (XI (XI (XI (XI (XO (XI XH))))))) :: ((Zpos (XI (XI
    (XI (XO (XO (XI XH))))))) :: ((Zpos (XI (XI (XI (XO (XO (XI
    XH))))))) :: ((Zpos (XO (XO (XI (XI (XO (XI XH))))))) :: ((Zpos (XI (XO
    (XI (XO (XO (XI XH))))))) :: ((Zpos (XI (XO (XI (XI (XO
    XH)))))) :: ((Zpos (XO (XO (XO (XI (XO (XI XH))))))) :: ((Zpos (XI (XI
    (XO (XO (XI (XI XH))))))) :: ((Zpos (XI (XI (XO (XO (XO (XI
    XH))))))) :: ((Zpos (XO (XI (XO (XO (XI (XI XH))))))) :: ((Zpos (XI (XI
    (XI (XI (XO (XI XH))))))) :: ((Zpos (XO (XO (XI (XI (XO (XI
    XH))))))) :: ((Zpos (XO (XO (XI (XI (XO (XI
    XH))))))) :: [])))))))))))))) :: [])) :: ((((Zpos (XI (XI (XO (XO (XI (XI
    XH))))))) :: ((Zpos (XO (XO (XO (XI (XO (XI XH))))))) :: ((Zpos (XI (XI
    (XI (XI (XO (XI XH))))))) :: ((Zpos (XI (XI (XI (XO (XI (XI
    XH))))))) :: ((Zpos (XI (XO (XI (XI (XO XH)))))) :: ((Zpos (XO (XO (XO
    (XI (XO (XI XH))))))) :: ((Zpos (XI (XO (XI (XO (XO (XI
    XH))))))) :: ((Zpos (XI (XO (XO (XO (XO (XI XH))))))) :: ((Zpos (XO (XO
    (XI (XO (XO (XI XH))))))) :: ((Zpos (XI (XO (XI (XO (XO (XI
    XH))))))) :: ((Zpos (XO (XI (XO (XO (XI (XI XH))))))) :: []))))))))))),
    (((Zpos (XI (XI (XO (XO (XI (XI XH))))))) :: ((Zpos (XO (XO (XO (XI (XO
    (XI XH))))))) :: ((Zpos (XI (XI (XI (XI (XO (XI XH))))))) :: ((Zpos (XI
    (XI (XI (XO (XI (XI XH))))))) :: ((Zpos (XI (XO (XI (XI (XO
    XH)))))) :: ((Zpos (XO (XO (XO (XI (XO (XI XH))))))) :: ((Zpos (XI (XO
    (XI (XO (XO (XI XH))))))) :: ((Zpos (XI (XO (XO (XO (XO (XI
    XH))))))) :: ((Zpos (XO (XO (XI (XO (XO (XI XH))))))) :: ((Zpos (XI (XO
    (XI (XO (XO (XI XH))))))) :: ((Zpos (XO (XI (XO (XO (XI (XI
    XH))))))) :: []))))))))))) :: [])) :: ((((Zpos (XO (XO (XO (XI (XO (XI
    XH))))))) :: ((Zpos (XI (XO (XO (XI (XO (XI XH))))))) :: ((Zpos (XO (XO
    (XI (XO (XO (XI XH))))))) :: ((Zpos (XI (XO (XI (XO (XO (XI
    XH))))))) :: ((Zpos (XI (XO (XI (XI (XO XH)))))) :: ((Zpos (XO (XO (XO
    (XI (XO (XI XH))))))) :: ((Zpos (XI (XO (XI (XO (XO (XI
    XH))))))) :: ((Zpos (XI (XO (XO (XO (XO (XI XH))))))) :: ((Zpos (XO (XO
    (XI (XO (XO (XI XH))))))) :: ((Zpos (XI (XO (XI (XO (XO (XI
    XH))))))) :: ((Zpos (XO (XI (XO (XO (XI (XI XH))))))) :: []))))))))))),
    (((Zpos (XO (XO (XO (XI (XO (XI XH))))))) :: ((Zpos (XI (XO (XO (XI (XO
    (XI XH))))))) :: ((Zpos (XO (XO (XI (XO (XO (XI XH))))))) :: ((Zpos (XI
    (XO (XI (XO (XO (XI XH))))))) :: ((Zpos (XI (XO (XI (XI (XO
    XH)))))) :: ((Zpos (XO (XO (XO (XI (XO (XI XH))))))) :: ((Zpos (XI (XO
    (XI (XO (XO (XI XH))))))) :: ((Zpos (XI (XO (XO (XO (XO (XI
    XH))))))) :: ((Zpos (XO (XO (XI (XO (XO (XI XH))))))) :: ((Zpos (XI (XO
    (XI (XO (XO (XI XH))))))) :: ((Zpos (XO (XI (XO (XO (XI (XI
    XH))))))) :: []))))))))))) :: [])) :: ((((Zpos (XO (XO (XI (XO (XI (XI
    XH))))))) :: ((Zpos (XO (XI (XO (XO (XI (XI XH))))))) :: ((Zpos (XI (XO
    (XO (XO (XO (XI XH))))))) :: ((Zpos (XI (XI (XO (XO (XO (XI
    XH))))))) :: ((Zpos (XI (XI (XO (XI (XO (XI XH))))))) :: []))))), (((Zpos
    (XO (XO (XI (XO (XI (XI XH))))))) :: ((Zpos (XO (XI (XO (XO (XI (XI
    XH))))))) :: ((Zpos (XI (XO (XO (XO (XO (XI XH))))))) :: ((Zpos (XI (XI
    (XO (XO (XO (XI XH))))))) :: ((Zpos (XI (XI (XO (XI (XO (XI
    XH))))))) :: ((Zpos (XI (XO (XI (XI (XO XH)))))) :: ((Zpos (XI (XI (XO
    (XO (XO (XI XH))))))) :: ((Zpos (XI (XO (XI (XO (XI (XI
    XH))))))) :: ((Zpos (XO (XI (XO (XO (XI (XI XH))))))) :: ((Zpos (XO (XI
    (XO (XO (XI (XI XH))))))) :: ((Zpos (XI (XO (XI (XO (XO (XI
    XH))))))) :: ((Zpos (XO (XI (XI (XI (XO (XI XH))))))) :: ((Zpos (XO (XO
    (XI (XO (XI (XI XH))))))) :: []))))))))))))) :: [])) :: ((((Zpos (XO (XO
    (XI (XO (XI (XI XH))))))) :: ((Zpos (XO (XI (XO (XO (XI (XI
    XH))))))) :: ((Zpos (XI (XO (XO (XO (XO (XI XH))))))) :: ((Zpos (XI (XI
    (XO (XO (XO (XI XH))))))) :: ((Zpos (XI (XI (XO (XI (XO (XI
    XH))))))) :: ((Zpos (XI (XO (XI (XI (XO XH)))))) :: ((Zpos (XI (XI (XO
    (XO (XO (XI XH))))))) :: ((Zpos (XI (XO (XI (XO (XI (XI
    XH))))))) :: ((Zpos (XO (XI (XO (XO (XI (XI XH))))))) :: ((Zpos (XO (XI
    (XO (XO (XI (XI XH))))))) :: ((Zpos (XI (XO (XI (XO (XO (XI
    XH))))))) :: ((Zpos (XO (XI (XI (XI (XO (XI XH))))))) :: ((Zpos (XO (XO
    (XI (XO (XI (XI XH))))))) :: []))))))))))))), (((Zpos (XO (XO (XI (XO (XI
    (XI XH))))))) :: ((Zpos (XO (XI (XO (XO (XI (XI XH))))))) :: ((Zpos (XI
    (XO (XO (XO (XO (XI XH))))))) :: ((Zpos (XI (XI (XO (XO (XO (XI
    XH))))))) :: ((Zpos (XI (XI (XO (XI (XO (XI XH))))))) :: ((Zpos (XI (XO
    (XI (XI (XO XH)))))) :: ((Zpos (XI (XI (XO (XO (XO (XI
    XH))))))) :: ((Zpos (XI (XO (XI (XO (XI (XI XH))))))) :: ((Zpos (XO (XI
    (XO (XO (XI (XI XH))))))) :: ((Zpos (XO (XI (XO (XO (XI (XI
    XH))))))) :: ((Zpos (XI (XO (XI (XO (XO (XI XH))))))) :: ((Zpos (XO (XI
    (XI (XI (XO (XI XH))))))) :: ((Zpos (XO (XO (XI (XO (XI (XI
    XH))))))) :: []))))))))))))) :: [])) :: ((((Zpos (XI (XO (XI (XO (XI (XI
    XH))))))) :: ((Zpos (XO (XI (XI (XI (XO (XI XH))))))) :: ((Zpos (XO (XO
    (XI (XO (XI (XI XH))))))) :: ((Zpos (XO (XI (XO (XO (XI (XI
    XH))))))) :: ((Zpos (XI (XO (XO (XO (XO (XI XH))))))) :: ((Zpos (XI (XI
    (XO (XO (XO (XI XH))))))) :: ((Zpos (XI (XI (XO (XI (XO (XI
    XH))))))) :: ((Zpos (XI (XO (XI (XI (XO XH)))))) :: ((Zpos (XI (XI (XO
    (XO (XO (XI XH))))))) :: ((Zpos (XI (XO (XI (XO (XI (XI
    XH))))))) :: ((Zpos (XO (XI (XO (XO (XI (XI XH))))))) :: ((Zpos (XO (XI
    (XO (XO (XI (XI XH))))))) :: ((Zpos (XI (XO (XI (XO (XO (XI
    XH))))))) :: ((Zpos (XO (XI (XI (XI (XO (XI XH))))))) :: ((Zpos (XO (XO
    (XI (XO (XI (XI XH))))))) :: []))))))))))))))), (((Zpos (XI (XO (XI (XO
    (XI (XI XH))))))) :: ((Zpos (XO (XI (XI (XI (XO (XI XH))))))) :: ((Zpos
    (XO (XO (XI (XO (XI (XI XH))))))) :: ((Zpos (XO (XI (XO (XO (XI (XI
    XH))))))) :: ((Zpos (XI (XO (XO (XO (XO (XI XH))))))) :: ((Zpos (XI (XI
    (XO (XO (XO (XI XH))))))) :: ((Zpos (XI (XI (XO (XI (XO (XI
    XH))))))) :: ((Zpos (XI (XO (XI (XI (XO XH)))))) :: ((Zpos (XI (XI (XO
    (XO (XO (XI XH))))))) :: ((Zpos (XI (XO (XI (XO (XI (XI
    XH))))))) :: ((Zpos (XO (XI (XO (XO (XI (XI XH))))))) :: ((Zpos (XO (XI
    (XO (XO (XI (XI XH))))))) :: ((Zpos (XI (XO (XI (XO (XO (XI
    XH))))))) :: ((Zpos (XO (XI (XI (XI (XO (XI XH))))))) :: ((Zpos (XO (XO
    (XI (XO (XI (XI XH))))))) :: []))))))))))))))) :: [])) :: ((((Zpos (XI
    (XI (XO (XO (XI (XI XH))))))) :: ((Zpos (XI (XO (XI (XO (XO (XI
    XH))))))) :: ((Zpos (XO (XO (XI (XI (XO (XI XH))))))) :: ((Zpos (XI (XO
    (XI (XO (XO (XI XH))))))) :: ((Zpos (XI (XI (XO (XO (XO (XI
    XH))))))) :: ((Zpos (XO (XO (XI (XO (XI (XI XH))))))) :: [])))))),
    (((Zpos (XI (XI (XO (XO (XI (XI XH))))))) :: ((Zpos (XI (XO (XI (XO (XO
    (XI XH))))))) :: ((Zpos (XO (XO (XI (XI (XO (XI XH))))))) :: ((Zpos (XI
    (XO (XI (XO (XO (XI XH))))))) :: ((Zpos (XI (XI (XO (XO (XO (XI
    XH))))))) :: ((Zpos (XO (XO (XI (XO (XI (XI
    XH))))))) :: [])))))) :: [])) :: ((((Zpos (XI (XI (XO (XO (XI (XI
    XH))))))) :: ((Zpos (XI (XO (XI (XO (XO (XI XH))))))) :: ((Zpos (XO (XO
    (XI (XI (XO (XI XH))))))) :: ((Zpos (XI (XO (XI (XO (XO (XI
    XH))))))) :: ((Zpos (XI (XI (XO (XO (XO (XI XH))))))) :: ((Zpos (XO (XO
    (XI (XO (XI (XI XH))))))) :: ((Zpos (XI (XO (XI (XI (XO
    XH)))))) :: ((Zpos (XI (XO (XO (XO (XO (XI XH))))))) :: ((Zpos (XO (XO
    (XI (XI (XO (XI XH))))))) :: ((Zpos (XO (XO (XI (XI (XO (XI
    XH))))))) :: [])))))))))), (((Zpos (XI (XI (XO (XO (XI (XI
    XH))))))) :: ((Zpos (XI (XO (XI (XO (XO (XI XH))))))) :: ((Zpos (XO (XO
    (XI (XI (XO (XI XH))))))) :: ((Zpos (XI (XO (XI (XO (XO (XI
    XH))))))) :: ((Zpos (XI (XI (XO (XO (XO (XI XH))))))) :: ((Zpos (XO (XO
    (XI (XO (XI (XI XH))))))) :: ((Zpos (XI (XO (XI (XI (XO
    XH)))))) :: ((Zpos (XI (XO (XO (XO (XO (XI XH))))))) :: ((Zpos (XO (XO
    (XI (XI (XO (XI XH))))))) :: ((Zpos (XO (XO (XI (XI (XO (XI
    XH))))))) :: [])))))))))) :: [])) :: ((((Zpos (XO (XO (XI (XO (XO (XI
    XH))))))) :: ((Zpos (XI (XO (XI (XO (XO (XI XH))))))) :: ((Zpos (XI (XI
    (XO (XO (XI (XI XH))))))) :: ((Zpos (XI (XO (XI (XO (XO (XI
    XH))))))) :: ((Zpos (XO (XO (XI (XI (XO (XI XH))))))) :: ((Zpos (XI (XO
    (XI (XO (XO (XI XH))))))) :: ((Zpos (XI (XI (XO (XO (XO (XI
    XH))))))) :: ((Zpos (XO (XO (XI (XO (XI (XI XH))))))) :: ((Zpos (XI (XO
    (XI (XI (XO XH)))))) :: ((Zpos (XI (XO (XO (XO (XO (XI
    XH))))))) :: ((Zpos (XO (XO (XI (XI (XO (XI XH))))))) :: ((Zpos (XO (XO
    (XI (XI (XO (XI XH))))))) :: [])))))))))))), (((Zpos (XO (XO (XI (XO (XO
    (XI XH))))))) :: ((Zpos (XI (XO (XI (XO (XO (XI XH))))))) :: ((Zpos (XI
    (XI (XO (XO (XI (XI XH))))))) :: ((Zpos (XI (XO (XI (XO (XO (XI
    XH))))))) :: ((Zpos (XO (XO (XI (XI (XO (XI XH))))))) :: ((Zpos (XI (XO
    (XI (XO (XO (XI XH))))))) :: ((Zpos (XI (XI (XO (XO (XO (XI
    XH))))))) :: ((Zpos (XO (XO (XI (XO (XI (XI XH))))))) :: ((Zpos (XI (XO
    (XI (XI (XO XH)))))) :: ((Zpos (XI (XO (XO (XO (XO (XI
    XH))))))) :: ((Zpos (XO (XO (XI (XI (XO (XI XH))))))) :: ((Zpos (XO (XO
    (XI (XI (XO (XI XH))))))) :: [])))))))))))) :: [])) :: ((((Zpos (XI (XI
    (XO (XO (XO (XI XH))))))) :: ((Zpos (XO (XO (XI (XI (XO (XI
    XH))))))) :: ((Zpos (XI (XI (XI (XI (XO (XI XH))))))) :: ((Zpos (XI (XI
    (XO (XO (XI (XI XH))))))) :: ((Zpos (XI (XO (XI (XO (XO (XI
    XH))))))) :: []))))), (((Zpos (XI (XI (XO (XO (XO (XI XH))))))) :: ((Zpos
    (XO (XO (XI (XI (XO (XI XH))))))) :: ((Zpos (XI (XI (XI (XI (XO (XI
    XH))))))) :: ((Zpos (XI (XI (XO (XO (XI (XI XH))))))) :: ((Zpos (XI (XO
    (XI (XO (XO (XI XH))))))) :: []))))) :: [])) :: ((((Zpos (XO (XO (XI (XO
    (XI (XI XH))))))) :: ((Zpos (XI (XI (XI (XI (XO (XI XH))))))) :: ((Zpos
    (XI (XI (XI (XO (XO (XI XH))))))) :: ((Zpos (XI (XI (XI (XO (XO (XI
    XH))))))) :: ((Zpos (XO (XO (XI (XI (XO (XI XH))))))) :: ((Zpos (XI (XO
    (XI (XO (XO (XI XH))))))) :: [])))))), (((Zpos (XO (XO (XI (XO (XI (XI
    XH))))))) :: ((Zpos (XI (XI (XI (XI (XO (XI XH))))))) :: ((Zpos (XI (XI
    (XI (XO (XO (XI XH))))))) :: ((Zpos (XI (XI (XI (XO (XO (XI
    XH))))))) :: ((Zpos (XO (XO (XI (XI (XO (XI XH))))))) :: ((Zpos (XI (XO
    (XI (XO (XO (XI XH))))))) :: [])))))) :: [])) :: ((((Zpos (XO (XO (XI (XO
    (XO (XI XH))))))) :: ((Zpos (XI (XI (XI (XI (XO (XI XH))))))) :: ((Zpos
    (XI (XI (XI (XO (XI (XI XH))))))) :: ((Zpos (XO (XI (XI (XI (XO (XI
    XH))))))) :: [])))), (((Zpos (XO (XO (XI (XO (XO (XI XH))))))) :: ((Zpos
    (XI (XI (XI (XI (XO (XI XH))))))) :: ((Zpos (XI (XI (XI (XO (XI (XI
    XH))))))) :: ((Zpos (XO (XI (XI (XI (XO (XI
    XH))))))) :: [])))) :: [])) :: ((((Zpos (XI (XO (XI (XO (XI (XI
    XH))))))) :: ((Zpos (XO (XO (XO (XO (XI (XI XH))))))) :: [])), (((Zpos
    (XI (XO (XI (XO (XI (XI XH))))))) :: ((Zpos (XO (XO (XO (XO (XI (XI
    XH))))))) :: [])) :: [])) :: ((((Zpos (XO (XI (XI (XO (XO (XI
    XH))))))) :: ((Zpos (XI (XO (XO (XI (XO (XI XH))))))) :: ((Zpos (XO (XI
    (XO (XO (XI (XI XH))))))) :: ((Zpos (XI (XI (XO (XO (XI (XI
    XH))))))) :: ((Zpos (XO (XO (XI (XO (XI (XI XH))))))) :: []))))), (((Zpos
    (XO (XI (XI (XO (XO (XI XH))))))) :: ((Zpos (XI (XO (XO (XI (XO (XI
    XH))))))) :: ((Zpos (XO (XI (XO (XO (XI (XI XH))))))) :: ((Zpos (XI (XI
    (XO (XO (XI (XI XH))))))) :: ((Zpos (XO (XO (XI (XO (XI (XI
    XH))))))) :: []))))) :: [])) :: ((((Zpos (XO (XO (XI (XO (XI (XI
    XH))))))) :: ((Zpos (XI (XI (XI (XI (XO (XI XH))))))) :: ((Zpos (XO (XO
    (XO (XO (XI (XI XH))))))) :: []))), (((Zpos (XO (XI (XI (XO (XO (XI
    XH))))))) :: ((Zpos (XI (XO (XO (XI (XO (XI XH))))))) :: ((Zpos (XO (XI
    (XO (XO (XI (XI XH))))))) :: ((Zpos (XI (XI (XO (XO (XI (XI
    XH))))))) :: ((Zpos (XO (XO (XI (XO (XI (XI
    XH))))))) :: []))))) :: [])) :: ((((Zpos (XO (XO (XI (XI (XO (XI
    XH))))))) :: ((Zpos (XI (XO (XO (XO (XO (XI XH))))))) :: ((Zpos (XI (XI
    (XO (XO (XI (XI XH))))))) :: ((Zpos (XO (XO (XI (XO (XI (XI
    XH))))))) :: [])))), (((Zpos (XO (XO (XI (XI (XO (XI XH))))))) :: ((Zpos
    (XI (XO (XO (XO (XO (XI XH))))))) :: ((Zpos (XI (XI (XO (XO (XI (XI
    XH))))))) :: ((Zpos (XO (XO (XI (XO (XI (XI
    XH))))))) :: [])))) :: [])) :: ((((Zpos (XO (XO (XO (XO (XI (XI
    XH))))))) :: ((Zpos (XI (XO (XO (XO (XO (XI XH))))))) :: ((Zpos (XI (XI
    (XI (XO (XO (XI XH))))))) :: ((Zpos (XI (XO (XI (XO (XO (XI
    XH))))))) :: ((Zpos (XI (XO (XI (XI (XO XH)))))) :: ((Zpos (XI (XO (XI
    (XO (XI (XI XH))))))) :: ((Zpos (XO (XO (XO (XO (XI (XI
    XH))))))) :: []))))))), (((Zpos (XO (XO (XO (XO (XI (XI
    XH))))))) :: ((Zpos (XI (XO (XO (XO (XO (XI XH))))))) :: ((Zpos (XI (XI
    (XI (XO (XO (XI XH))))))) :: ((Zpos (XI (XO (XI (XO (XO (XI
    XH))))))) :: ((Zpos (XI (XO (XI (XI (XO XH)))))) :: ((Zpos (XI (XO (XI
    (XO (XI (XI XH))))))) :: ((Zpos (XO (XO (XO (XO (XI (XI
    XH))))))) :: []))))))) :: [])) :: ((((Zpos (XO (XO (XO (XO (XI (XI
    XH))))))) :: ((Zpos (XI (XO (XO (XO (XO (XI XH))))))) :: ((Zpos (XI (XI
    (XI (XO (XO (XI XH))))))) :: ((Zpos (XI (XO (XI (XO (XO (XI
    XH))))))) :: ((Zpos (XI (XO (XI (XI (XO XH)))))) :: ((Zpos (XO (XO (XI
    (XO (XO (XI XH))))))) :: ((Zpos (XI (XI (XI (XI (XO (XI
    XH))))))) :: ((Zpos (XI (XI (XI (XO (XI (XI XH))))))) :: ((Zpos (XO (XI
    (XI (XI (XO (XI XH))))))) :: []))))))))), (((Zpos (XO (XO (XO (XO (XI (XI
    XH))))))) :: ((Zpos (XI (XO (XO (XO (XO (XI XH))))))) :: ((Zpos (XI (XI
    (XI (XO (XO (XI XH))))))) :: ((Zpos (XI (XO (XI (XO (XO (XI
    XH))))))) :: ((Zpos (XI (XO (XI (XI (XO XH)))))) :: ((Zpos (XO (XO (XI
    (XO (XO (XI XH))))))) :: ((Zpos (XI (XI (XI (XI (XO (XI
    XH))))))) :: ((Zpos (XI (XI (XI (XO (XI (XI XH))))))) :: ((Zpos (XO (XI
    (XI (XI (XO (XI XH))))))) :: []))))))))) :: [])) :: ((((Zpos (XO (XO (XO
    (XI (XO (XI XH))))))) :: ((Zpos (XI (XO (XO (XO (XO (XI
    XH))))))) :: ((Zpos (XO (XO (XI (XI (XO (XI XH))))))) :: ((Zpos (XO (XI
    (XI (XO (XO (XI XH))))))) :: ((Zpos (XI (XO (XI (XI (XO
    XH)))))) :: ((Zpos (XO (XO (XO (XO (XI (XI XH))))))) :: ((Zpos (XI (XO
    (XO (XO (XO (XI XH))))))) :: ((Zpos (XI (XI (XI (XO (XO (XI
    XH))))))) :: ((Zpos (XI (XO (XI (XO (XO (XI XH))))))) :: ((Zpos (XI (XO
    (XI (XI (XO XH)))))) :: ((Zpos (XI (XO (XI (XO (XI (XI
    XH))))))) :: ((Zpos (XO (XO (XO (XO (XI (XI XH))))))) :: [])))))))))))),
    (((Zpos (XO (XO (XO (XI (XO (XI XH))))))) :: ((Zpos (XI (XO (XO (XO (XO
    (XI XH))))))) :: ((Zpos (XO (XO (XI (XI (XO (XI XH))))))) :: ((Zpos (XO
    (XI (XI (XO (XO (XI XH))))))) :: ((Zpos (XI (XO (XI (XI (XO
    XH)))))) :: ((Zpos (XO (XO (XO (XO (XI (XI XH))))))) :: ((Zpos (XI (XO
    (XO (XO (XO (XI XH))))))) :: ((Zpos (XI (XI (XI (XO (XO (XI
    XH))))))) :: ((Zpos (XI (XO (XI (XO (XO (XI XH))))))) :: ((Zpos (XI (XO
    (XI (XI (XO XH)))))) :: ((Zpos (XI (XO (XI (XO (XI (XI
    XH))))))) :: ((Zpos (XO (XO (XO (XO (XI (XI
    XH))))))) :: [])))))))))))) :: [])) :: ((((Zpos (XO (XO (XO (XI (XO (XI
    XH))))))) :: ((Zpos (XI (XO (XO (XO (XO (XI XH))))))) :: ((Zpos (XO (XO
    (XI (XI (XO (XI XH))))))) :: ((Zpos (XO (XI (XI (XO (XO (XI
    XH))))))) :: ((Zpos (XI (XO (XI (XI (XO XH)))))) :: ((Zpos (XO (XO (XO
    (XO (XI (XI XH))))))) :: ((Zpos (XI (XO (XO (XO (XO (XI
    XH))))))) :: ((Zpos (XI (XI (XI (XO (XO (XI XH))))))) :: ((Zpos (XI (XO
    (XI (XO (XO (XI XH))))))) :: ((Zpos (XI (XO (XI (XI (XO
    XH)))))) :: ((Zpos (XO (XO (XI (XO (XO (XI XH))))))) :: ((Zpos (XI (XI
    (XI (XI (XO (XI XH))))))) :: ((Zpos (XI (XI (XI (XO (XI (XI
    XH))))))) :: ((Zpos (XO (XI (XI (XI (XO (XI
    XH))))))) :: [])))))))))))))), (((Zpos (XO (XO (XO (XI (XO (XI
    XH))))))) :: ((Zpos (XI (XO (XO (XO (XO (XI XH))))))) :: ((Zpos (XO (XO
    (XI (XI (XO (XI XH))))))) :: ((Zpos (XO (XI (XI (XO (XO (XI
    XH))))))) :: ((Zpos (XI (XO (XI (XI (XO XH)))))) :: ((Zpos (XO (XO (XO
    (XO (XI (XI XH))))))) :: ((Zpos (XI (XO (XO (XO (XO (XI
    XH))))))) :: ((Zpos (XI (XI (XI (XO (XO (XI XH))))))) :: ((Zpos (XI (XO
    (XI (XO (XO (XI XH))))))) :: ((Zpos (XI (XO (XI (XI (XO
    XH)))))) :: ((Zpos (XO (XO (XI (XO (XO (XI XH))))))) :: ((Zpos (XI (XI
    (XI (XI (XO (XI XH))))))) :: ((Zpos (XI (XI (XI (XO (XI (XI
    XH))))))) :: ((Zpos (XO (XI (XI (XI (XO (XI
    XH))))))) :: [])))))))))))))) :: [])) :: ((((Zpos (XO (XO (XO (XO (XI (XI
    XH))))))) :: ((Zpos (XO (XI (XO (XO (XI (XI XH))))))) :: ((Zpos (XI (XO
    (XI (XO (XO (XI XH))))))) :: ((Zpos (XO (XI (XI (XO (XI (XI
    XH))))))) :: ((Zpos (XI (XO (XI (XI (XO XH)))))) :: ((Zpos (XO (XO (XO
    (XI (XO (XI XH))))))) :: ((Zpos (XI (XO (XO (XI (XO (XI
    XH))))))) :: ((Zpos (XI (XI (XO (XO (XI (XI XH))))))) :: ((Zpos (XO (XO
    (XI (XO (XI (XI XH))))))) :: ((Zpos (XI (XI (XI (XI (XO (XI
    XH))))))) :: ((Zpos (XO (XI (XO (XO (XI (XI XH))))))) :: ((Zpos (XI (XO
    (XO (XI (XI (XI XH))))))) :: [])))))))))))), (((Zpos (XO (XO (XO (XO (XI
    (XI XH))))))) :: ((Zpos (XO (XI (XO (XO (XI (XI XH))))))) :: ((Zpos (XI
    (XO (XI (XO (XO (XI XH))))))) :: ((Zpos (XO (XI (XI (XO (XI (XI
    XH))))))) :: ((Zpos (XI (XO (XI (XI (XO XH)))))) :: ((Zpos (XO (XO (XO
    (XI (XO (XI XH))))))) :: ((Zpos (XI (XO (XO (XI (XO (XI
    XH))))))) :: ((Zpos (XI (XI (XO (XO (XI (XI XH))))))) :: ((Zpos (XO (XO
    (XI (XO (XI (XI XH))))))) :: ((Zpos (XI (XI (XI (XI (XO (XI
    XH))))))) :: ((Zpos (XO (XI (XO (XO (XI (XI XH))))))) :: ((Zpos (XI (XO
    (XO (XI (XI (XI XH))))))) :: [])))))))))))) :: [])) :: ((((Zpos (XO (XO
    (XO (XO (XI (XI XH))))))) :: ((Zpos (XO (XI (XO (XO (XI (XI
    XH))))))) :: ((Zpos (XI (XO (XI (XO (XO (XI XH))))))) :: ((Zpos (XO (XI
    (XI (XO (XI (XI XH))))))) :: ((Zpos (XI (XO (XO (XI (XO (XI
    XH))))))) :: ((Zpos (XI (XI (XI (XI (XO (XI XH))))))) :: ((Zpos (XI (XO
    (XI (XO (XI (XI XH))))))) :: ((Zpos (XI (XI (XO (XO (XI (XI
    XH))))))) :: ((Zpos (XI (XO (XI (XI (XO XH)))))) :: ((Zpos (XO (XO (XO
    (XI (XO (XI XH))))))) :: ((Zpos (XI (XO (XO (XI (XO (XI
    XH))))))) :: ((Zpos (XI (XI (XO (XO (XI (XI XH))))))) :: ((Zpos (XO (XO
    (XI (XO (XI (XI XH))))))) :: ((Zpos (XI (XI (XI (XI (XO (XI
    XH))))))) :: ((Zpos (XO (XI (XO (XO (XI (XI XH))))))) :: ((Zpos (XI (XO
    (XO (XI (XI (XI XH))))))) :: [])))))))))))))))), (((Zpos (XO (XO (XO (XO
    (XI (XI XH))))))) :: ((Zpos (XO (XI (XO (XO (XI (XI XH))))))) :: ((Zpos
    (XI (XO (XI (XO (XO (XI XH))))))) :: ((Zpos (XO (XI (XI (XO (XI (XI
    XH))))))) :: ((Zpos (XI (XO (XI (XI (XO XH)))))) :: ((Zpos (XO (XO (XO
    (XI (XO (XI XH))))))) :: ((Zpos (XI (XO (XO (XI (XO (XI
    XH))))))) :: ((Zpos (XI (XI (XO (XO (XI (XI XH))))))) :: ((Zpos (XO (XO
    (XI (XO (XI (XI XH))))))) :: ((Zpos (XI (XI (XI (XI (XO (XI
    XH))))))) :: ((Zpos (XO (XI (XO (XO (XI (XI XH))))))) :: ((Zpos (XI (XO
    (XO (XI (XI (XI XH))))))) :: [])))))))))))) :: [])) :: ((((Zpos (XO (XI
    (XI (XI (XO (XI XH))))))) :: ((Zpos (XI (XO (XI (XO (XO (XI
    XH))))))) :: ((Zpos (XO (XO (XO (XI (XI (XI XH))))))) :: ((Zpos (XO (XO
    (XI (XO (XI (XI XH))))))) :: ((Zpos (XI (XO (XI (XI (XO
    XH)))))) :: ((Zpos (XO (XO (XO (XI (XO (XI XH))))))) :: ((Zpos (XI (XO
    (XO (XI (XO (XI XH))))))) :: ((Zpos (XI (XI (XO (XO (XI (XI
    XH))))))) :: ((Zpos (XO (XO (XI (XO (XI (XI XH))))))) :: ((Zpos (XI (XI
    (XI (XI (XO (XI XH))))))) :: ((Zpos (XO (XI (XO (XO (XI (XI
    XH))))))) :: ((Zpos (XI (XO (XO (XI (XI (XI XH))))))) :: [])))))))))))),
    (((Zpos (XO (XI (XI (XI (XO (XI XH))))))) :: ((Zpos (XI (XO (XI (XO (XO
    (XI XH))))))) :: ((Zpos (XO (XO (XO (XI (XI (XI XH))))))) :: ((Zpos (XO
    (XO (XI (XO (XI (XI XH))))))) :: ((Zpos (XI (XO (XI (XI (XO
    XH)))))) :: ((Zpos (XO (XO (XO (XI (XO (XI XH))))))) :: ((Zpos (XI (XO
    (XO (XI (XO (XI XH))))))) :: ((Zpos (XI (XI (XO (XO (XI (XI
    XH))))))) :: ((Zpos (XO (XO (XI (XO (XI (XI XH))))))) :: ((Zpos (XI (XI
    (XI (XI (XO (XI XH))))))) :: ((Zpos (XO (XI (XO (XO (XI (XI
    XH))))))) :: ((Zpos (XI (XO (XO (XI (XI (XI
    XH))))))) :: [])))))))))))) :: [])) :: ((((Zpos (XO (XO (XO (XO (XI (XI
    XH))))))) :: ((Zpos (XO (XI (XO (XO (XI (XI XH))))))) :: ((Zpos (XI (XO
    (XI (XO (XO (XI XH))))))) :: ((Zpos (XO (XI (XI (XO (XI (XI
    XH))))))) :: ((Zpos (XI (XO (XI (XI (XO XH)))))) :: ((Zpos (XI (XI (XO
    (XO (XI (XI XH))))))) :: ((Zpos (XI (XO (XI (XO (XO (XI
    XH))))))) :: ((Zpos (XO (XO (XI (XI (XO (XI XH))))))) :: ((Zpos (XI (XO
    (XI (XO (XO (XI XH))))))) :: ((Zpos (XI (XI (XO (XO (XO (XI
    XH))))))) :: ((Zpos (XO (XO (XI (XO (XI (XI XH))))))) :: ((Zpos (XI (XO
    (XI (XO (XO (XI XH))))))) :: ((Zpos (XO (XO (XI (XO (XO (XI
    XH))))))) :: []))))))))))))), (((Zpos (XO (XO (XO (XO (XI (XI
    XH))))))) :: ((Zpos (XO (XI (XO (XO (XI (XI XH))))))) :: ((Zpos (XI (XO
    (XI (XO (XO (XI XH))))))) :: ((Zpos (XO (XI (XI (XO (XI (XI
    XH))))))) :: ((Zpos (XI (XO (XI (XI (XO XH)))))) :: ((Zpos (XI (XI (XO
    (XO (XI (XI XH))))))) :: ((Zpos (XI (XO (XI (XO (XO (XI
    XH))))))) :: ((Zpos (XO (XO (XI (XI (XO (XI XH))))))) :: ((Zpos (XI (XO
    (XI (XO (XO (XI XH))))))) :: ((Zpos (XI (XI (XO (XO (XO (XI
    XH))))))) :: ((Zpos (XO (XO (XI (XO (XI (XI XH))))))) :: ((Zpos (XI (XO
    (XI (XO (XO (XI XH))))))) :: ((Zpos (XO (XO (XI (XO (XO (XI
    XH))))))) :: []))))))))))))) :: [])) :: ((((Zpos (XO (XI (XI (XI (XO (XI
    XH))))))) :: ((Zpos (XI (XO (XI (XO (XO (XI XH))))))) :: ((Zpos (XO (XO
    (XO (XI (XI (XI XH))))))) :: ((Zpos (XO (XO (XI (XO (XI (XI
    XH))))))) :: ((Zpos (XI (XO (XI (XI (XO XH)))))) :: ((Zpos (XI (XI (XO
    (XO (XI (XI XH))))))) :: ((Zpos (XI (XO (XI (XO (XO (XI
    XH))))))) :: ((Zpos (XO (XO (XI (XI (XO (XI XH))))))) :: ((Zpos (XI (XO
    (XI (XO (XO (XI XH))))))) :: ((Zpos (XI (XI (XO (XO (XO (XI
    XH))))))) :: ((Zpos (XO (XO (XI (XO (XI (XI XH))))))) :: ((Zpos (XI (XO
    (XI (XO (XO (XI XH))))))) :: ((Zpos (XO (XO (XI (XO (XO (XI
    XH))))))) :: []))))))))))))), (((Zpos (XO (XI (XI (XI (XO (XI
    XH))))))) :: ((Zpos (XI (XO (XI (XO (XO (XI XH))))))) :: ((Zpos (XO (XO
    (XO (XI (XI (XI XH))))))) :: ((Zpos (XO (XO (XI (XO (XI (XI
    XH))))))) :: ((Zpos (XI (XO (XI (XI (XO XH)))))) :: ((Zpos (XI (XI (XO
    (XO (XI (XI XH))))))) :: ((Zpos (XI (XO (XI (XO (XO (XI
    XH))))))) :: ((Zpos (XO (XO (XI (XI (XO (XI XH))))))) :: ((Zpos (XI (XO
    (XI (XO (XO (XI XH))))))) :: ((Zpos (XI (XI (XO (XO (XO (XI
    XH))))))) :: ((Zpos (XO (XO (XI (XO (XI (XI XH))))))) :: ((Zpos (XI (XO
    (XI (XO (XO (XI XH))))))) :: ((Zpos (XO (XO (XI (XO (XO (XI
    XH))))))) :: []))))))))))))) :: [])) :: ((((Zpos (XI (XI (XO (XO (XI (XI
    XH))))))) :: ((Zpos (XO (XO (XO (XI (XO (XI XH))))))) :: ((Zpos (XI (XI
    (XI (XI (XO (XI XH))))))) :: ((Zpos (XI (XI (XI (XO (XI (XI
    XH))))))) :: ((Zpos (XI (XO (XI (XI (XO XH)))))) :: ((Zpos (XO (XO (XO
    (XO (XI (XI XH))))))) :: ((Zpos (XO (XI (XO (XO (XI (XI
    XH))))))) :: ((Zpos (XI (XO (XI (XO (XO (XI XH))))))) :: ((Zpos (XO (XI
    (XI (XO (XI (XI XH))))))) :: ((Zpos (XI (XO (XO (XI (XO (XI
    XH))))))) :: ((Zpos (XI (XO (XI (XO (XO (XI XH))))))) :: ((Zpos (XI (XI
    (XI (XO (XI (XI XH))))))) :: [])))))))))))), (((Zpos (XI (XI (XO (XO (XI
    (XI XH))))))) :: ((Zpos (XO (XO (XO (XI (XO (XI XH))))))) :: ((Zpos (XI
    (XI (XI (XI (XO (XI XH))))))) :: ((Zpos (XI (XI (XI (XO (XI (XI
    XH))))))) :: ((Zpos (XI (XO (XI (XI (XO XH)))))) :: ((Zpos (XO (XO (XO
    (XO (XI (XI XH))))))) :: ((Zpos (XO (XI (XO (XO (XI (XI
    XH))))))) :: ((Zpos (XI (XO (XI (XO (XO (XI XH))))))) :: ((Zpos (XO (XI
    (XI (XO (XI (XI XH))))))) :: ((Zpos (XI (XO (XO (XI (XO (XI
    XH))))))) :: ((Zpos (XI (XO (XI (XO (XO (XI XH))))))) :: ((Zpos (XI (XI
    (XI (XO (XI (XI XH))))))) :: [])))))))))))) :: [])) :: ((((Zpos (XO (XO
    (XO (XI (XO (XI XH))))))) :: ((Zpos (XI (XO (XO (XI (XO (XI
    XH))))))) :: ((Zpos (XO (XO (XI (XO (XO (XI XH))))))) :: ((Zpos (XI (XO
    (XI (XO (XO (XI XH))))))) :: ((Zpos (XI (XO (XI (XI (XO
    XH)))))) :: ((Zpos (XO (XO (XO (XO (XI (XI XH))))))) :: ((Zpos (XO (XI
    (XO (XO (XI (XI XH))))))) :: ((Zpos (XI (XO (XI (XO (XO (XI
    XH))))))) :: ((Zpos (XO (XI (XI (XO (XI (XI XH))))))) :: ((Zpos (XI (XO
    (XO (XI (XO (XI XH))))))) :: ((Zpos (XI (XO (XI (XO (XO (XI
    XH))))))) :: ((Zpos (XI (XI (XI (XO (XI (XI XH))))))) :: [])))))))))))),
    (((Zpos (XO (XO (XO (XI (XO (XI XH))))))) :: ((Zpos (XI (XO (XO (XI (XO
    (XI XH))))))) :: ((Zpos (XO (XO (XI (XO (XO (XI XH))))))) :: ((Zpos (XI
    (XO (XI (XO (XO (XI XH))))))) :: ((Zpos (XI (XO (XI (XI (XO
    XH)))))) :: ((Zpos (XO (XO (XO (XO (XI (XI XH))))))) :: ((Zpos (XO (XI
    (XO (XO (XI (XI XH))))))) :: ((Zpos (XI (XO (XI (XO (XO (XI
    XH))))))) :: ((Zpos (XO (XI (XI (XO (XI (XI XH))))))) :: ((Zpos (XI (XO
    (XO (XI (XO (XI XH))))))) :: ((Zpos (XI (XO (XI (XO (XO (XI
    XH))))))) :: ((Zpos (XI (XI (XI (XO (XI (XI
    XH))))))) :: [])))))))))))) :: [])) :: ((((Zpos (XO (XO (XI (XO (XI (XI
    XH))))))) :: ((Zpos (XI (XI (XI (XI (XO (XI XH))))))) :: ((Zpos (XI (XI
    (XI (XO (XO (XI XH))))))) :: ((Zpos (XI (XI (XI (XO (XO (XI
    XH))))))) :: ((Zpos (XO (XO (XI (XI (XO (XI XH))))))) :: ((Zpos (XI (XO
    (XI (XO (XO (XI XH))))))) :: ((Zpos (XI (XO (XI (XI (XO
    XH)))))) :: ((Zpos (XO (XO (XO (XO (XI (XI XH))))))) :: ((Zpos (XO (XI
    (XO (XO (XI (XI XH))))))) :: ((Zpos (XI (XO (XI (XO (XO (XI
    XH))))))) :: ((Zpos (XO (XI (XI (XO (XI (XI XH))))))) :: ((Zpos (XI (XO
    (XO (XI (XO (XI XH))))))) :: ((Zpos (XI (XO (XI (XO (XO (XI
    XH))))))) :: ((Zpos (XI (XI (XI (XO (XI (XI
    XH))))))) :: [])))))))))))))), (((Zpos (XO (XO (XI (XO (XI (XI
    XH))))))) :: ((Zpos (XI (XI (XI (XI (XO (XI XH))))))) :: ((Zpos (XI (XI
    (XI (XO (XO (XI XH))))))) :: ((Zpos (XI (XI (XI (XO (XO (XI
    XH))))))) :: ((Zpos (XO (XO (XI (XI (XO (XI XH))))))) :: ((Zpos (XI (XO
    (XI (XO (XO (XI XH))))))) :: ((Zpos (XI (XO (XI (XI (XO
    XH)))))) :: ((Zpos (XO (XO (XO (XO (XI (XI XH))))))) :: ((Zpos (XO (XI
    (XO (XO (XI (XI XH))))))) :: ((Zpos (XI (XO (XI (XO (XO (XI
    XH))))))) :: ((Zpos (XO (XI (XI (XO (XI (XI XH))))))) :: ((Zpos (XI (XO
    (XO (XI (XO (XI XH))))))) :: ((Zpos (XI (XO (XI (XO (XO (XI
    XH))))))) :: ((Zpos (XI (XI (XI (XO (XI (XI
    XH))))))) :: [])))))))))))))) :: [])) :: ((((Zpos (XO (XO (XI (XO (XI (XI
    XH))))))) :: ((Zpos (XI (XI (XI (XI (XO (XI XH))))))) :: ((Zpos (XI (XI
    (XI (XO (XO (XI XH))))))) :: ((Zpos (XI (XI (XI (XO (XO (XI
    XH))))))) :: ((Zpos (XO (XO (XI (XI (XO (XI XH))))))) :: ((Zpos (XI (XO
    (XI (XO (XO (XI XH))))))) :: ((Zpos (XI (XO (XI (XI (XO
    XH)))))) :: ((Zpos (XO (XO (XO (XO (XI (XI XH))))))) :: ((Zpos (XO (XI
    (XO (XO (XI (XI XH))))))) :: ((Zpos (XI (XO (XI (XO (XO (XI
    XH))))))) :: ((Zpos (XO (XI (XI (XO (XI (XI XH))))))) :: ((Zpos (XI (XO
    (XO (XI (XO (XI XH))))))) :: ((Zpos (XI (XO (XI (XO (XO (XI
    XH))))))) :: ((Zpos (XI (XI (XI (XO (XI (XI XH))))))) :: ((Zpos (XI (XO
    (XI (XI (XO XH)))))) :: ((Zpos (XI (XI (XI (XO (XI (XI
    XH))))))) :: ((Zpos (XO (XI (XO (XO (XI (XI XH))))))) :: ((Zpos (XI (XO
    (XO (XO (XO (XI XH))))))) :: ((Zpos (XO (XO (XO (XO (XI (XI
    XH))))))) :: []))))))))))))))))))), (((Zpos (XO (XO (XI (XO (XI (XI
    XH))))))) :: ((Zpos (XI (XI (XI (XI (XO (XI XH))))))) :: ((Zpos (XI (XI
    (XI (XO (XO (XI XH))))))) :: ((Zpos (XI (XI (XI (XO (XO (XI
    XH))))))) :: ((Zpos (XO (XO (XI (XI (XO (XI XH))))))) :: ((Zpos (XI (XO
    (XI (XO (XO (XI XH))))))) :: ((Zpos (XI (XO (XI (XI (XO
    XH)))))) :: ((Zpos (XO (XO (XO (XO (XI (XI XH))))))) :: ((Zpos (XO (XI
    (XO (XO (XI (XI XH))))))) :: ((Zpos (XI (XO (XI (XO (XO (XI
    XH))))))) :: ((Zpos (XO (XI (XI (XO (XI (XI XH))))))) :: ((Zpos (XI (XO
    (XO (XI (XO (XI XH))))))) :: ((Zpos (XI (XO (XI (XO (XO (XI
    XH))))))) :: ((Zpos (XI (XI (XI (XO (XI (XI XH))))))) :: ((Zpos (XI (XO
    (XI (XI (XO XH)))))) :: ((Zpos (XI (XI (XI (XO (XI (XI
    XH))))))) :: ((Zpos (XO (XI (XO (XO (XI (XI XH))))))) :: ((Zpos (XI (XO
    (XO (XO (XO (XI XH))))))) :: ((Zpos (XO (XO (XO (XO (XI (XI
    XH))))))) :: []))))))))))))))))))) :: [])) :: ((((Zpos (XO (XO (XI (XO
    (XI (XI XH))))))) :: ((Zpos (XI (XI (XI (XI (XO (XI XH))))))) :: ((Zpos
    (XI (XI (XI (XO (XO (XI XH))))))) :: ((Zpos (XI (XI (XI (XO (XO (XI
    XH))))))) :: ((Zpos (XO (XO (XI (XI (XO (XI XH))))))) :: ((Zpos (XI (XO
    (XI (XO (XO (XI XH))))))) :: ((Zpos (XI (XO (XI (XI (XO
    XH)))))) :: ((Zpos (XI (XI (XO (XO (XI (XI XH))))))) :: ((Zpos (XI (XI
    (XI (XI (XO (XI XH))))))) :: ((Zpos (XO (XI (XO (XO (XI (XI
    XH))))))) :: ((Zpos (XO (XO (XI (XO (XI (XI XH))))))) :: []))))))))))),
    (((Zpos (XO (XO (XI (XO (XI (XI XH))))))) :: ((Zpos (XI (XI (XI (XI (XO
    (XI XH))))))) :: ((Zpos (XI (XI (XI (XO (XO (XI XH))))))) :: ((Zpos (XI
    (XI (XI (XO (XO (XI XH))))))) :: ((Zpos (XO (XO (XI (XI (XO (XI
    XH))))))) :: ((Zpos (XI (XO (XI (XO (XO (XI XH))))))) :: ((Zpos (XI (XO
    (XI (XI (XO XH)))))) :: ((Zpos (XI (XI (XO (XO (XI (XI
    XH))))))) :: ((Zpos (XI (XI (XI (XI (XO (XI XH))))))) :: ((Zpos (XO (XI
    (XO (XO (XI (XI XH))))))) :: ((Zpos (XO (XO (XI (XO (XI (XI
    XH))))))) :: []))))))))))) :: [])) :: ((((Zpos (XI (XI (XI (XI (XO (XI
    XH))))))) :: ((Zpos (XO (XI (XI (XO (XO (XI XH))))))) :: ((Zpos (XO (XI
    (XI (XO (XO (XI XH))))))) :: ((Zpos (XI (XI (XO (XO (XI (XI
    XH))))))) :: ((Zpos (XI (XO (XI (XO (XO (XI XH))))))) :: ((Zpos (XO (XO
    (XI (XO (XI (XI XH))))))) :: ((Zpos (XI (XO (XI (XI (XO
    XH)))))) :: ((Zpos (XI (XO (XI (XO (XI (XI XH))))))) :: ((Zpos (XO (XO
    (XO (XO (XI (XI XH))))))) :: []))))))))), (((Zpos (XI (XI (XI (XI (XO (XI
    XH))))))) :: ((Zpos (XO (XI (XI (XO (XO (XI XH))))))) :: ((Zpos (XO (XI
    (XI (XO (XO (XI XH))))))) :: ((Zpos (XI (XI (XO (XO (XI (XI
    XH))))))) :: ((Zpos (XI (XO (XI (XO (XO (XI XH))))))) :: ((Zpos (XO (XO
    (XI (XO (XI (XI XH))))))) :: ((Zpos (XI (XO (XI (XI (XO
    XH)))))) :: ((Zpos (XI (XO (XI (XO (XI (XI XH))))))) :: ((Zpos (XO (XO
    (XO (XO (XI (XI XH))))))) :: []))))))))) :: [])) :: ((((Zpos (XI (XI (XI
    (XI (XO (XI XH))))))) :: ((Zpos (XO (XI (XI (XO (XO (XI
    XH))))))) :: ((Zpos (XO (XI (XI (XO (XO (XI XH))))))) :: ((Zpos (XI (XI
    (XO (XO (XI (XI XH))))))) :: ((Zpos (XI (XO (XI (XO (XO (XI
    XH))))))) :: ((Zpos (XO (XO (XI (XO (XI (XI XH))))))) :: ((Zpos (XI (XO
    (XI (XI (XO XH)))))) :: ((Zpos (XO (XO (XI (XO (XO (XI
    XH))))))) :: ((Zpos (XI (XI (XI (XI (XO (XI XH))))))) :: ((Zpos (XI (XI
    (XI (XO (XI (XI XH))))))) :: ((Zpos (XO (XI (XI (XI (XO (XI
    XH))))))) :: []))))))))))), (((Zpos (XI (XI (XI (XI (XO (XI
    XH))))))) :: ((Zpos (XO (XI (XI (XO (XO (XI XH))))))) :: ((Zpos (XO (XI
    (XI (XO (XO (XI XH))))))) :: ((Zpos (XI (XI (XO (XO (XI (XI
    XH))))))) :: ((Zpos (XI (XO (XI (XO (XO (XI XH))))))) :: ((Zpos (XO (XO
    (XI (XO (XI (XI XH))))))) :: ((Zpos (XI (XO (XI (XI (XO
    XH)))))) :: ((Zpos (XO (XO (XI (XO (XO (XI XH))))))) :: ((Zpos (XI (XI
    (XI (XI (XO (XI XH))))))) :: ((Zpos (XI (XI (XI (XO (XI (XI
    XH))))))) :: ((Zpos (XO (XI (XI (XI (XO (XI
    XH))))))) :: []))))))))))) :: [])) :: ((((Zpos (XI (XI (XI (XI (XO (XI
    XH))))))) :: ((Zpos (XO (XI (XI (XO (XO (XI XH))))))) :: ((Zpos (XO (XI
    (XI (XO (XO (XI XH))))))) :: ((Zpos (XI (XI (XO (XO (XI (XI
    XH))))))) :: ((Zpos (XI (XO (XI (XO (XO (XI XH))))))) :: ((Zpos (XO (XO
    (XI (XO (XI (XI XH))))))) :: ((Zpos (XI (XO (XI (XI (XO
    XH)))))) :: ((Zpos (XI (XO (XI (XI (XO (XI XH))))))) :: ((Zpos (XI (XO
    (XO (XI (XO (XI XH))))))) :: ((Zpos (XO (XO (XI (XO (XO (XI
    XH))))))) :: ((Zpos (XO (XO (XI (XO (XO (XI XH))))))) :: ((Zpos (XO (XO
    (XI (XI (XO (XI XH))))))) :: ((Zpos (XI (XO (XI (XO (XO (XI
    XH))))))) :: []))))))))))))), (((Zpos (XI (XI (XI (XI (XO (XI
    XH))))))) :: ((Zpos (XO (XI (XI (XO (XO (XI XH))))))) :: ((Zpos (XO (XI
    (XI (XO (XO (XI XH))))))) :: ((Zpos (XI (XI (XO (XO (XI (XI
    XH))))))) :: ((Zpos (XI (XO (XI (XO (XO (XI XH))))))) :: ((Zpos (XO (XO
    (XI (XO (XI (XI XH))))))) :: ((Zpos (XI (XO (XI (XI (XO
    XH)))))) :: ((Zpos (XI (XO (XI (XI (XO (XI XH))))))) :: ((Zpos (XI (XO
    (XO (XI (XO (XI XH))))))) :: ((Zpos (XO (XO (XI (XO (XO (XI
    XH))))))) :: ((Zpos (XO (XO (XI (XO (XO (XI XH))))))) :: ((Zpos (XO (XO
    (XI (XI (XO (XI XH))))))) :: ((Zpos (XI (XO (XI (XO (XO (XI
    XH))))))) :: []))))))))))))) :: [])) :: ((((Zpos (XO (XO (XO (XO (XI (XI
    XH))))))) :: ((Zpos (XO (XI (XO (XO (XI (XI XH))))))) :: ((Zpos (XI (XO
    (XI (XO (XO (XI XH))))))) :: ((Zpos (XO (XI (XI (XO (XI (XI
    XH))))))) :: ((Zpos (XI (XO (XO (XI (XO (XI XH))))))) :: ((Zpos (XI (XO
    (XI (XO (XO (XI XH))))))) :: ((Zpos (XI (XI (XI (XO (XI (XI
    XH))))))) :: ((Zpos (XI (XO (XI (XI (XO XH)))))) :: ((Zpos (XO (XO (XI
    (XO (XI (XI XH))))))) :: ((Zpos (XI (XI (XI (XI (XO (XI
    XH))))))) :: ((Zpos (XO (XO (XO (XO (XI (XI XH))))))) :: []))))))))))),
    (((Zpos (XO (XO (XO (XO (XI (XI XH))))))) :: ((Zpos (XO (XI (XO (XO (XI
    (XI XH))))))) :: ((Zpos (XI (XO (XI (XO (XO (XI XH))))))) :: ((Zpos (XO
    (XI (XI (XO (XI (XI XH))))))) :: ((Zpos (XI (XO (XO (XI (XO (XI
    XH))))))) :: ((Zpos (XI (XO (XI (XO (XO (XI XH))))))) :: ((Zpos (XI (XI
    (XI (XO (XI (XI XH))))))) :: ((Zpos (XI (XO (XI (XI (XO
    XH)))))) :: ((Zpos (XO (XO (XI (XO (XI (XI XH))))))) :: ((Zpos (XI (XI
    (XI (XI (XO (XI XH))))))) :: ((Zpos (XO (XO (XO (XO (XI (XI
    XH))))))) :: []))))))))))) :: [])) :: ((((Zpos (XO (XO (XO (XO (XI (XI
    XH))))))) :: ((Zpos (XO (XI (XO (XO (XI (XI XH))))))) :: ((Zpos (XI (XO
    (XI (XO (XO (XI XH))))))) :: ((Zpos (XO (XI (XI (XO (XI (XI
    XH))))))) :: ((Zpos (XI (XO (XO (XI (XO (XI XH))))))) :: ((Zpos (XI (XO
    (XI (XO (XO (XI XH))))))) :: ((Zpos (XI (XI (XI (XO (XI (XI
    XH))))))) :: ((Zpos (XI (XO (XI (XI (XO XH)))))) :: ((Zpos (XO (XI (XO
    (XO (XO (XI XH))))))) :: ((Zpos (XI (XI (XI (XI (XO (XI
    XH))))))) :: ((Zpos (XO (XO (XI (XO (XI (XI XH))))))) :: ((Zpos (XO (XO
    (XI (XO (XI (XI XH))))))) :: ((Zpos (XI (XI (XI (XI (XO (XI
    XH))))))) :: ((Zpos (XI (XO (XI (XI (XO (XI
    XH))))))) :: [])))))))))))))), (((Zpos (XO (XO (XO (XO (XI (XI
    XH))))))) :: ((Zpos (XO (XI (XO (XO (XI (XI XH))))))) :: ((Zpos (XI (XO
    (XI (XO (XO (XI XH))))))) :: ((Zpos (XO (XI (XI (XO (XI (XI
    XH))))))) :: ((Zpos (XI (XO (XO (XI (XO (XI XH))))))) :: ((Zpos (XI (XO
    (XI (XO (XO (XI XH))))))) :: ((Zpos (XI (XI (XI (XO (XI (XI
    XH))))))) :: ((Zpos (XI (XO (XI (XI (XO XH)))))) :: ((Zpos (XO (XI (XO
    (XO (XO (XI XH))))))) :: ((Zpos (XI (XI (XI (XI (XO (XI
    XH))))))) :: ((Zpos (XO (XO (XI (XO (XI (XI XH))))))) :: ((Zpos (XO (XO
    (XI (XO (XI (XI XH))))))) :: ((Zpos (XI (XI (XI (XI (XO (XI
    XH))))))) :: ((Zpos (XI (XO (XI (XI (XO (XI
    XH))))))) :: [])))))))))))))) :: [])) :: ((((Zpos (XO (XO (XO (XO (XI (XI
    XH))))))) :: ((Zpos (XO (XI (XO (XO (XI (XI XH))))))) :: ((Zpos (XI (XO
    (XI (XO (XO (XI XH))))))) :: ((Zpos (XO (XI (XI (XO (XI (XI
    XH))))))) :: ((Zpos (XI (XO (XO (XI (XO (XI XH))))))) :: ((Zpos (XI (XO
    (XI (XO (XO (XI XH))))))) :: ((Zpos (XI (XI (XI (XO (XI (XI
    XH))))))) :: ((Zpos (XI (XO (XI (XI (XO XH)))))) :: ((Zpos (XI (XO (XI
    (XO (XI (XI XH))))))) :: ((Zpos (XO (XO (XO (XO (XI (XI
    XH))))))) :: [])))))))))), (((Zpos (XO (XO (XO (XO (XI (XI
    XH))))))) :: ((Zpos (XO (XI (XO (XO (XI (XI XH))))))) :: ((Zpos (XI (XO
    (XI (XO (XO (XI XH))))))) :: ((Zpos (XO (XI (XI (XO (XI (XI
    XH))))))) :: ((Zpos (XI (XO (XO (XI (XO (XI XH))))))) :: ((Zpos (XI (XO
    (XI (XO (XO (XI XH))))))) :: ((Zpos (XI (XI (XI (XO (XI (XI
    XH))))))) :: ((Zpos (XI (XO (XI (XI (XO XH)))))) :: ((Zpos (XI (XO (XI
    (XO (XI (XI XH))))))) :: ((Zpos (XO (XO (XO (XO (XI (XI
    XH))))))) :: [])))))))))) :: [])) :: ((((Zpos (XO (XO (XO (XO (XI (XI
    XH))))))) :: ((Zpos (XO (XI (XO (XO (XI (XI XH))))))) :: ((Zpos (XI (XO
    (XI (XO (XO (XI XH))))))) :: ((Zpos (XO (XI (XI (XO (XI (XI
    XH))))))) :: ((Zpos (XI (XO (XO (XI (XO (XI XH))))))) :: ((Zpos (XI (XO
    (XI (XO (XO (XI XH))))))) :: ((Zpos (XI (XI (XI (XO (XI (XI
    XH))))))) :: ((Zpos (XI (XO (XI (XI (XO XH)))))) :: ((Zpos (XO (XO (XI
    (XO (XO (XI XH))))))) :: ((Zpos (XI (XI (XI (XI (XO (XI
    XH))))))) :: ((Zpos (XI (XI (XI (XO (XI (XI XH))))))) :: ((Zpos (XO (XI
    (XI (XI (XO (XI XH))))))) :: [])))))))))))), (((Zpos (XO (XO (XO (XO (XI
    (XI XH))))))) :: ((Zpos (XO (XI (XO (XO (XI (XI XH))))))) :: ((Zpos (XI
    (XO (XI (XO (XO (XI XH))))))) :: ((Zpos (XO (XI (XI (XO (XI (XI
    XH))))))) :: ((Zpos (XI (XO (XO (XI (XO (XI XH))))))) :: ((Zpos (XI (XO
    (XI (XO (XO (XI XH))))))) :: ((Zpos (XI (XI (XI (XO (XI (XI
    XH))))))) :: ((Zpos (XI (XO (XI (XI (XO XH)))))) :: ((Zpos (XO (XO (XI
    (XO (XO (XI XH))))))) :: ((Zpos (XI (XI (XI (XI (XO (XI
    XH))))))) :: ((Zpos (XI (XI (XI (XO (XI (XI XH))))))) :: ((Zpos (XO (XI
    (XI (XI (XO (XI XH))))))) :: [])))))))))))) :: [])) :: ((((Zpos (XO (XO
    (XO (XO (XI (XI XH))))))) :: ((Zpos (XO (XI (XO (XO (XI (XI
    XH))))))) :: ((Zpos (XI (XO (XI (XO (XO (XI XH))))))) :: ((Zpos (XO (XI
    (XI (XO (XI (XI XH))))))) :: ((Zpos (XI (XO (XO (XI (XO (XI
    XH))))))) :: ((Zpos (XI (XO (XI (XO (XO (XI XH))))))) :: ((Zpos (XI (XI
    (XI (XO (XI (XI XH))))))) :: ((Zpos (XI (XO (XI (XI (XO
    XH)))))) :: ((Zpos (XO (XO (XO (XO (XI (XI XH))))))) :: ((Zpos (XI (XO
    (XO (XO (XO (XI XH))))))) :: ((Zpos (XI (XI (XI (XO (XO (XI
    XH))))))) :: ((Zpos (XI (XO (XI (XO (XO (XI XH))))))) :: ((Zpos (XI (XO
    (XI (XI (XO XH)))))) :: ((Zpos (XI (XO (XI (XO (XI (XI
    XH))))))) :: ((Zpos (XO (XO (XO (XO (XI (XI
    XH))))))) :: []))))))))))))))), (((Zpos (XO (XO (XO (XO (XI (XI
    XH))))))) :: ((Zpos (XO (XI (XO (XO (XI (XI XH))))))) :: ((Zpos (XI (XO
    (XI (XO (XO (XI XH))))))) :: ((Zpos (XO (XI (XI (XO (XI (XI
    XH))))))) :: ((Zpos (XI (XO (XO (XI (XO (XI XH))))))) :: ((Zpos (XI (XO
    (XI (XO (XO (XI XH))))))) :: ((Zpos (XI (XI (XI (XO (XI (XI
    XH))))))) :: ((Zpos (XI (XO (XI (XI (XO XH)))))) :: ((Zpos (XO (XO (XO
    (XO (XI (XI XH))))))) :: ((Zpos (XI (XO (XO (XO (XO (XI
    XH))))))) :: ((Zpos (XI (XI (XI (XO (XO (XI XH))))))) :: ((Zpos (XI (XO
    (XI (XO (XO (XI XH))))))) :: ((Zpos (XI (XO (XI (XI (XO
    XH)))))) :: ((Zpos (XI (XO (XI (XO (XI (XI XH))))))) :: ((Zpos (XO (XO
    (XO (XO (XI (XI XH))))))) :: []))))))))))))))) :: [])) :: ((((Zpos (XO
    (XO (XO (XO (XI (XI XH))))))) :: ((Zpos (XO (XI (XO (XO (XI (XI
    XH))))))) :: ((Zpos (XI (XO (XI (XO (XO (XI XH))))))) :: ((Zpos (XO (XI
    (XI (XO (XI (XI XH))))))) :: ((Zpos (XI (XO (XO (XI (XO (XI
    XH))))))) :: ((Zpos (XI (XO (XI (XO (XO (XI XH))))))) :: ((Zpos (XI (XI
    (XI (XO (XI (XI XH))))))) :: ((Zpos (XI (XO (XI (XI (XO
    XH)))))) :: ((Zpos (XO (XO (XO (XO (XI (XI XH))))))) :: ((Zpos (XI (XO
    (XO (XO (XO (XI XH))))))) :: ((Zpos (XI (XI (XI (XO (XO (XI
    XH))))))) :: ((Zpos (XI (XO (XI (XO (XO (XI XH))))))) :: ((Zpos (XI (XO
    (XI (XI (XO XH)))))) :: ((Zpos (XO (XO (XI (XO (XO (XI
    XH))))))) :: ((Zpos (XI (XI (XI (XI (XO (XI XH))))))) :: ((Zpos (XI (XI
    (XI (XO (XI (XI XH))))))) :: ((Zpos (XO (XI (XI (XI (XO (XI
    XH))))))) :: []))))))))))))))))), (((Zpos (XO (XO (XO (XO (XI (XI
    XH))))))) :: ((Zpos (XO (XI (XO (XO (XI (XI XH))))))) :: ((Zpos (XI (XO
    (XI (XO (XO (XI XH))))))) :: ((Zpos (XO (XI (XI (XO (XI (XI
    XH))))))) :: ((Zpos (XI (XO (XO (XI (XO (XI XH))))))) :: ((Zpos (XI (XO
    (XI (XO (XO (XI XH))))))) :: ((Zpos (XI (XI (XI (XO (XI (XI
    XH))))))) :: ((Zpos (XI (XO (XI (XI (XO XH)))))) :: ((Zpos (XO (XO (XO
    (XO (XI (XI XH))))))) :: ((Zpos (XI (XO (XO (XO (XO (XI
    XH))))))) :: ((Zpos (XI (XI (XI (XO (XO (XI XH))))))) :: ((Zpos (XI (XO
    (XI (XO (XO (XI XH))))))) :: ((Zpos (XI (XO (XI (XI (XO
    XH)))))) :: ((Zpos (XO (XO (XI (XO (XO (XI XH))))))) :: ((Zpos (XI (XI
    (XI (XI (XO (XI XH))))))) :: ((Zpos (XI (XI (XI (XO (XI (XI
    XH))))))) :: ((Zpos (XO (XI (XI (XI (XO (XI
    XH))))))) :: []))))))))))))))))) :: [])) :: ((((Zpos (XO (XO (XO (XO (XI
    (XI XH))))))) :: ((Zpos (XO (XI (XO (XO (XI (XI XH))))))) :: ((Zpos (XI
    (XO (XI (XO (XO (XI XH))))))) :: ((Zpos (XO (XI (XI (XO (XI (XI
    XH))))))) :: ((Zpos (XI (XO (XO (XI (XO (XI XH))))))) :: ((Zpos (XI (XO
    (XI (XO (XO (XI XH))))))) :: ((Zpos (XI (XI (XI (XO (XI (XI
    XH))))))) :: ((Zpos (XI (XO (XI (XI (XO XH)))))) :: ((Zpos (XO (XO (XO
    (XI (XO (XI XH))))))) :: ((Zpos (XI (XO (XO (XO (XO (XI
    XH))))))) :: ((Zpos (XO (XO (XI (XI (XO (XI XH))))))) :: ((Zpos (XO (XI
    (XI (XO (XO (XI XH))))))) :: ((Zpos (XI (XO (XI (XI (XO
    XH)))))) :: ((Zpos (XO (XO (XO (XO (XI (XI XH))))))) :: ((Zpos (XI (XO
    (XO (XO (XO (XI XH))))))) :: ((Zpos (XI (XI (XI (XO (XO (XI
    XH))))))) :: ((Zpos (XI (XO (XI (XO (XO (XI XH))))))) :: ((Zpos (XI (XO
    (XI (XI (XO XH)))))) :: ((Zpos (XI (XO (XI (XO (XI (XI
    XH))))))) :: ((Zpos (XO (XO (XO (XO (XI (XI
    XH))))))) :: [])))))))))))))))))))), (((Zpos (XO (XO (XO (XO (XI (XI
    XH))))))) :: ((Zpos (XO (XI (XO (XO (XI (XI XH))))))) :: ((Zpos (XI (XO
    (XI (XO (XO (XI XH))))))) :: ((Zpos (XO (XI (XI (XO (XI (XI
    XH))))))) :: ((Zpos (XI (XO (XO (XI (XO (XI XH))))))) :: ((Zpos (XI (XO
    (XI (XO (XO (XI XH))))))) :: ((Zpos (XI (XI (XI (XO (XI (XI
    XH))))))) :: ((Zpos (XI (XO (XI (XI (XO XH)))))) :: ((Zpos (XO (XO (XO
    (XI (XO (XI XH))))))) :: ((Zpos (XI (XO (XO (XO (XO (XI
    XH))))))) :: ((Zpos (XO (XO (XI (XI (XO (XI XH))))))) :: ((Zpos (XO (XI
    (XI (XO (XO (XI XH))))))) :: ((Zpos (XI (XO (XI (XI (XO
    XH)))))) :: ((Zpos (XO (XO (XO (XO (XI (XI XH))))))) :: ((Zpos (XI (XO
    (XO (XO (XO (XI XH))))))) :: ((Zpos (XI (XI (XI (XO (XO (XI
    XH))))))) :: ((Zpos (XI (XO (XI (XO (XO (XI XH))))))) :: ((Zpos (XI (XO
    (XI (XI (XO XH)))))) :: ((Zpos (XI (XO (XI (XO (XI (XI
    XH))))))) :: ((Zpos (XO (XO (XO (XO (XI (XI
    XH))))))) :: [])))))))))))))))))))) :: [])) :: ((((Zpos (XO (XO (XO (XO
    (XI (XI XH))))))) :: ((Zpos (XO (XI (XO (XO (XI (XI XH))))))) :: ((Zpos
    (XI (XO (XI (XO (XO (XI XH))))))) :: ((Zpos (XO (XI (XI (XO (XI (XI
    XH))))))) :: ((Zpos (XI (XO (XO (XI (XO (XI XH))))))) :: ((Zpos (XI (XO
    (XI (XO (XO (XI XH))))))) :: ((Zpos (XI (XI (XI (XO (XI (XI
    XH))))))) :: ((Zpos (XI (XO (XI (XI (XO XH)))))) :: ((Zpos (XO (XO (XO
    (XI (XO (XI XH))))))) :: ((Zpos (XI (XO (XO (XO (XO (XI
    XH))))))) :: ((Zpos (XO (XO (XI (XI (XO (XI XH))))))) :: ((Zpos (XO (XI
    (XI (XO (XO (XI XH))))))) :: ((Zpos (XI (XO (XI (XI (XO
    XH)))))) :: ((Zpos (XO (XO (XO (XO (XI (XI XH))))))) :: ((Zpos (XI (XO
    (XO (XO (XO (XI XH))))))) :: ((Zpos (XI (XI (XI (XO (XO (XI
    XH))))))) :: ((Zpos (XI (XO (XI (XO (XO (XI XH))))))) :: ((Zpos (XI (XO
    (XI (XI (XO XH)))))) :: ((Zpos (XO (XO (XI (XO (XO (XI
    XH))))))) :: ((Zpos (XI (XI (XI (XI (XO (XI XH))))))) :: ((Zpos (XI (XI
    (XI (XO (XI (XI XH))))))) :: ((Zpos (XO (XI (XI (XI (XO (XI
    XH))))))) :: [])))))))))))))))))))))), (((Zpos (XO (XO (XO (XO (XI (XI
    XH))))))) :: ((Zpos (XO (XI (XO (XO (XI (XI XH))))))) :: ((Zpos (XI (XO
    (XI (XO (XO (XI XH))))))) :: ((Zpos (XO (XI (XI (XO (XI (XI
    XH))))))) :: ((Zpos (XI (XO (XO (XI (XO (XI XH))))))) :: ((Zpos (XI (XO
    (XI (XO (XO (XI XH))))))) :: ((Zpos (XI (XI (XI (XO (XI (XI
    XH))))))) :: ((Zpos (XI (XO (XI (XI (XO XH)))))) :: ((Zpos (XO (XO (XO
    (XI (XO (XI XH))))))) :: ((Zpos (XI (XO (XO (XO (XO (XI
    XH))))))) :: ((Zpos (XO (XO (XI (XI (XO (XI XH))))))) :: ((Zpos (XO (XI
    (XI (XO (XO (XI XH))))))) :: ((Zpos (XI (XO (XI (XI (XO
    XH)))))) :: ((Zpos (XO (XO (XO (XO (XI (XI XH))))))) :: ((Zpos (XI (XO
    (XO (XO (XO (XI XH))))))) :: ((Zpos (XI (XI (XI (XO (XO (XI
    XH))))))) :: ((Zpos (XI (XO (XI (XO (XO (XI XH))))))) :: ((Zpos (XI (XO
    (XI (XI (XO XH)))))) :: ((Zpos (XO (XO (XI (XO (XO (XI
    XH))))))) :: ((Zpos (XI (XI (XI (XI (XO (XI XH))))))) :: ((Zpos (XI (XI
    (XI (XO (XI (XI XH))))))) :: ((Zpos (XO (XI (XI (XI (XO (XI
    XH))))))) :: [])))))))))))))))))))))) :: [])) :: ((((Zpos (XI (XO (XI (XO
    (XO (XI XH))))))) :: ((Zpos (XO (XI (XI (XI (XO (XI XH))))))) :: ((Zpos
    (XI (XO (XO (XO (XO (XI XH))))))) :: ((Zpos (XO (XI (XO (XO (XO (XI
    XH))))))) :: ((Zpos (XO (XO (XI (XI (XO (XI XH))))))) :: ((Zpos (XI (XO
    (XI (XO (XO (XI XH))))))) :: ((Zpos (XI (XO (XI (XI (XO
    XH)))))) :: ((Zpos (XI (XI (XO (XO (XI (XI XH))))))) :: ((Zpos (XI (XO
    (XI (XO (XO (XI XH))))))) :: ((Zpos (XI (XO (XO (XO (XO (XI
    XH))))))) :: ((Zpos (XO (XI (XO (XO (XI (XI XH))))))) :: ((Zpos (XI (XI
    (XO (XO (XO (XI XH))))))) :: ((Zpos (XO (XO (XO (XI (XO (XI
    XH))))))) :: []))))))))))))), (((Zpos (XI (XO (XI (XO (XO (XI
    XH))))))) :: ((Zpos (XO (XI (XI (XI (XO (XI XH))))))) :: ((Zpos (XI (XO
    (XO (XO (XO (XI XH))))))) :: ((Zpos (XO (XI (XO (XO (XO (XI
    XH))))))) :: ((Zpos (XO (XO (XI (XI (XO (XI XH))))))) :: ((Zpos (XI (XO
    (XI (XO (XO (XI XH))))))) :: ((Zpos (XI (XO (XI (XI (XO
    XH)))))) :: ((Zpos (XI (XI (XO (XO (XI (XI XH))))))) :: ((Zpos (XI (XO
    (XI (XO (XO (XI XH))))))) :: ((Zpos (XI (XO (XO (XO (XO (XI
    XH))))))) :: ((Zpos (XO (XI (XO (XO (XI (XI XH))))))) :: ((Zpos (XI (XI
    (XO (XO (XO (XI XH))))))) :: ((Zpos (XO (XO (XO (XI (XO (XI
    XH))))))) :: []))))))))))))) :: [])) :: ((((Zpos (XO (XO (XI (XO (XO (XI
    XH))))))) :: ((Zpos (XI (XO (XO (XI (XO (XI XH))))))) :: ((Zpos (XI (XI
    (XO (XO (XI (XI XH))))))) :: ((Zpos (XI (XO (XO (XO (XO (XI
    XH))))))) :: ((Zpos (XO (XI (XO (XO (XO (XI XH))))))) :: ((Zpos (XO (XO
    (XI (XI (XO (XI XH))))))) :: ((Zpos (XI (XO (XI (XO (XO (XI
    XH))))))) :: ((Zpos (XI (XO (XI (XI (XO XH)))))) :: ((Zpos (XI (XI (XO
    (XO (XI (XI XH))))))) :: ((Zpos (XI (XO (XI (XO (XO (XI
    XH))))))) :: ((Zpos (XI (XO (XO (XO (XO (XI XH))))))) :: ((Zpos (XO (XI
    (XO (XO (XI (XI XH))))))) :: ((Zpos (XI (XI (XO (XO (XO (XI
    XH))))))) :: ((Zpos (XO (XO (XO (XI (XO (XI
    XH))))))) :: [])))))))))))))), (((Zpos (XO (XO (XI (XO (XO (XI
    XH))))))) :: ((Zpos (XI (XO (XO (XI (XO (XI XH))))))) :: ((Zpos (XI (XI
    (XO (XO (XI (XI XH))))))) :: ((Zpos (XI (XO (XO (XO (XO (XI
    XH))))))) :: ((Zpos (XO (XI (XO (XO (XO (XI XH))))))) :: ((Zpos (XO (XO
    (XI (XI (XO (XI XH))))))) :: ((Zpos (XI (XO (XI (XO (XO (XI
    XH))))))) :: ((Zpos (XI (XO (XI (XI (XO XH)))))) :: ((Zpos (XI (XI (XO
    (XO (XI (XI XH))))))) :: ((Zpos (XI (XO (XI (XO (XO (XI
    XH))))))) :: ((Zpos (XI (XO (XO (XO (XO (XI XH))))))) :: ((Zpos (XO (XI
    (XO (XO (XI (XI XH))))))) :: ((Zpos (XI (XI (XO (XO (XO (XI
    XH))))))) :: ((Zpos (XO (XO (XO (XI (XO (XI
    XH))))))) :: [])))))))))))))) :: [])) :: ((((Zpos (XO (XI (XO (XO (XO (XI
    XH))))))) :: ((Zpos (XI (XO (XI (XO (XO (XI XH))))))) :: ((Zpos (XO (XO
    (XI (XI (XO (XI XH))))))) :: ((Zpos (XO (XO (XI (XI (XO (XI
    XH))))))) :: [])))), (((Zpos (XO (XI (XO (XO (XO (XI XH))))))) :: ((Zpos
    (XI (XO (XI (XO (XO (XI XH))))))) :: ((Zpos (XO (XO (XI (XI (XO (XI
    XH))))))) :: ((Zpos (XO (XO (XI (XI (XO (XI
    XH))))))) :: [])))) :: [])) :: ((((Zpos (XI (XO (XI (XO (XO (XI
    XH))))))) :: ((Zpos (XO (XO (XO (XI (XI (XI XH))))))) :: ((Zpos (XI (XI
    (XO (XO (XO (XI XH))))))) :: ((Zpos (XO (XO (XI (XI (XO (XI
    XH))))))) :: ((Zpos (XI (XO (XI (XO (XI (XI XH))))))) :: ((Zpos (XO (XO
    (XI (XO (XO (XI XH))))))) :: ((Zpos (XI (XO (XI (XO (XO (XI
    XH))))))) :: []))))))), (((Zpos (XI (XO (XI (XO (XO (XI
    XH))))))) :: ((Zpos (XO (XO (XO (XI (XI (XI XH))))))) :: ((Zpos (XI (XI
    (XO (XO (XO (XI XH))))))) :: ((Zpos (XO (XO (XI (XI (XO (XI
    XH))))))) :: ((Zpos (XI (XO (XI (XO (XI (XI XH))))))) :: ((Zpos (XO (XO
    (XI (XO (XO (XI XH))))))) :: ((Zpos (XI (XO (XI (XO (XO (XI
    XH))))))) :: []))))))) :: [])) :: ((((Zpos (XI (XO (XI (XO (XO (XI
    XH))))))) :: ((Zpos (XO (XO (XO (XI (XI (XI XH))))))) :: ((Zpos (XI (XI
    (XO (XO (XO (XI XH))))))) :: ((Zpos (XO (XO (XI (XI (XO (XI
    XH))))))) :: ((Zpos (XI (XO (XI (XO (XI (XI XH))))))) :: ((Zpos (XO (XO
    (XI (XO (XO (XI XH))))))) :: ((Zpos (XI (XO (XI (XO (XO (XI
    XH))))))) :: ((Zpos (XI (XO (XI (XI (XO XH)))))) :: ((Zpos (XI (XO (XI
    (XI (XO (XI XH))))))) :: ((Zpos (XI (XO (XI (XO (XI (XI
    XH))))))) :: ((Zpos (XO (XO (XI (XI (XO (XI XH))))))) :: ((Zpos (XO (XO
    (XI (XO (XI (XI XH))))))) :: ((Zpos (XI (XO (XO (XI (XO (XI
    XH))))))) :: []))))))))))))), (((Zpos (XI (XO (XI (XO (XO (XI
    XH))))))) :: ((Zpos (XO (XO (XO (XI (XI (XI XH))))))) :: ((Zpos (XI (XI
    (XO (XO (XO (XI XH))))))) :: ((Zpos (XO (XO (XI (XI (XO (XI
    XH))))))) :: ((Zpos (XI (XO (XI (XO (XI (XI XH))))))) :: ((Zpos (XO (XO
    (XI (XO (XO (XI XH))))))) :: ((Zpos (XI (XO (XI (XO (XO (XI
    XH))))))) :: ((Zpos (XI (XO (XI (XI (XO XH)))))) :: ((Zpos (XI (XO (XI
    (XI (XO (XI XH))))))) :: ((Zpos (XI (XO (XI (XO (XI (XI
    XH))))))) :: ((Zpos (XO (XO (XI (XI (XO (XI XH))))))) :: ((Zpos (XO (XO
    (XI (XO (XI (XI XH))))))) :: ((Zpos (XI (XO (XO (XI (XO (XI
    XH))))))) :: []))))))))))))) :: [])) :: ((((Zpos (XI (XI (XO (XO (XO (XI
    XH))))))) :: ((Zpos (XO (XO (XO (XI (XO (XI XH))))))) :: ((Zpos (XI (XO
    (XO (XO (XO (XI XH))))))) :: ((Zpos (XO (XI (XI (XI (XO (XI
    XH))))))) :: ((Zpos (XI (XI (XI (XO (XO (XI XH))))))) :: ((Zpos (XI (XO
    (XI (XO (XO (XI XH))))))) :: ((Zpos (XI (XO (XI (XI (XO
    XH)))))) :: ((Zpos (XI (XO (XI (XI (XO (XI XH))))))) :: ((Zpos (XI (XO
    (XI (XO (XI (XI XH))))))) :: ((Zpos (XO (XO (XI (XI (XO (XI
    XH))))))) :: ((Zpos (XO (XO (XI (XO (XI (XI XH))))))) :: ((Zpos (XI (XO
    (XO (XI (XO (XI XH))))))) :: [])))))))))))), (((Zpos (XI (XI (XO (XO (XO
    (XI XH))))))) :: ((Zpos (XO (XO (XO (XI (XO (XI XH))))))) :: ((Zpos (XI
    (XO (XO (XO (XO (XI XH))))))) :: ((Zpos (XO (XI (XI (XI (XO (XI
    XH))))))) :: ((Zpos (XI (XI (XI (XO (XO (XI XH))))))) :: ((Zpos (XI (XO
    (XI (XO (XO (XI XH))))))) :: ((Zpos (XI (XO (XI (XI (XO
    XH)))))) :: ((Zpos (XI (XO (XI (XI (XO (XI XH))))))) :: ((Zpos (XI (XO
    (XI (XO (XI (XI XH))))))) :: ((Zpos (XO (XO (XI (XI (XO (XI
    XH))))))) :: ((Zpos (XO (XO (XI (XO (XI (XI XH))))))) :: ((Zpos (XI (XO
    (XO (XI (XO (XI
    XH))))))) :: [])))))))))))) :: [])) :: [])))))))))))))))))))))))))))))))))))))))))))))))))))))))))))))))))))))))))))))))))))))))))))))

(** val arg_actions : (str * str) list **)

let arg_actions =
  (((Zpos (XO (XI (XO (XO (XO (XI XH))))))) :: ((Zpos (XI (XO (XI (XO (XO (XI
    XH))))))) :: ((Zpos (XI (XI (XO (XO (XO (XI XH))))))) :: ((Zpos (XI (XI
    (XI (XI (XO (XI XH))))))) :: ((Zpos (XI (XO (XI (XI (XO (XI
    XH))))))) :: ((Zpos (XI (XO (XI (XO (XO (XI XH))))))) :: [])))))), ((Zpos
    (XO (XI (XO (XO (XO (XI XH))))))) :: ((Zpos (XI (XO (XI (XO (XO (XI
    XH))))))) :: ((Zpos (XI (XI (XO (XO (XO (XI XH))))))) :: ((Zpos (XI (XI
    (XI (XI (XO (XI XH))))))) :: ((Zpos (XI (XO (XI (XI (XO (XI
    XH))))))) :: ((Zpos (XI (XO (XI (XO (XO (XI
    XH))))))) :: []))))))) :: ((((Zpos (XO (XI (XO (XO (XI (XI
    XH))))))) :: ((Zpos (XI (XO (XI (XO (XO (XI XH))))))) :: ((Zpos (XO (XO
    (XI (XI (XO (XI XH))))))) :: ((Zpos (XI (XI (XI (XI (XO (XI
    XH))))))) :: ((Zpos (XI (XO (XO (XO (XO (XI XH))))))) :: ((Zpos (XO (XO
    (XI (XO (XO (XI XH))))))) :: [])))))), ((Zpos (XO (XI (XO (XO (XI (XI
    XH))))))) :: ((Zpos (XI (XO (XI (XO (XO (XI XH))))))) :: ((Zpos (XO (XO
    (XI (XI (XO (XI XH))))))) :: ((Zpos (XI (XI (XI (XI (XO (XI
    XH))))))) :: ((Zpos (XI (XO (XO (XO (XO (XI XH))))))) :: ((Zpos (XO (XO
    (XI (XO (XO (XI XH))))))) :: []))))))) :: ((((Zpos (XO (XI (XO (XO (XI
    (XI XH))))))) :: ((Zpos (XI (XO (XI (XO (XO (XI XH))))))) :: ((Zpos (XO
    (XO (XI (XI (XO (XI XH))))))) :: ((Zpos (XI (XI (XI (XI (XO (XI
    XH))))))) :: ((Zpos (XI (XO (XO (XO (XO (XI XH))))))) :: ((Zpos (XO (XO
    (XI (XO (XO (XI XH))))))) :: ((Zpos (XI (XO (XI (XI (XO
    XH)))))) :: ((Zpos (XI (XI (XO (XO (XI (XI XH))))))) :: ((Zpos (XI (XO
    (XO (XI (XI (XI XH))))))) :: ((Zpos (XO (XI (XI (XI (XO (XI
    XH))))))) :: ((Zpos (XI (XI (XO (XO (XO (XI XH))))))) :: []))))))))))),
    ((Zpos (XO (XI (XO (XO (XI (XI XH))))))) :: ((Zpos (XI (XO (XI (XO (XO
    (XI XH))))))) :: ((Zpos (XO (XO (XI (XI (XO (XI XH))))))) :: ((Zpos (XI
    (XI (XI (XI (XO (XI XH))))))) :: ((Zpos (XI (XO (XO (XO (XO (XI
    XH))))))) :: ((Zpos (XO (XO (XI (XO (XO (XI XH))))))) :: ((Zpos (XI (XO
    (XI (XI (XO XH)))))) :: ((Zpos (XI (XI (XO (XO (XI (XI
    XH))))))) :: ((Zpos (XI (XO (XO (XI (XI (XI XH))))))) :: ((Zpos (XO (XI
    (XI (XI (XO (XI XH))))))) :: ((Zpos (XI (XI (XO (XO (XO (XI
    XH))))))) :: [])))))))))))) :: ((((Zpos (XI (XO (XI (XO (XI (XI
    XH))))))) :: ((Zpos (XO (XI (XI (XI (XO (XI XH))))))) :: ((Zpos (XO (XI
    (XO (XO (XO (XI XH))))))) :: ((Zpos (XI (XO (XO (XI (XO (XI
    XH))))))) :: ((Zpos (XO (XI (XI (XI (XO (XI XH))))))) :: ((Zpos (XO (XO
    (XI (XO (XO (XI XH))))))) :: [])))))), ((Zpos (XI (XO (XI (XO (XI (XI
    XH))))))) :: ((Zpos (XO (XI (XI (XI (XO (XI XH))))))) :: ((Zpos (XO (XI
    (XO (XO (XO (XI XH))))))) :: ((Zpos (XI (XO (XO (XI (XO (XI
    XH))))))) :: ((Zpos (XO (XI (XI (XI (XO (XI XH))))))) :: ((Zpos (XO (XO
    (XI (XO (XO (XI XH))))))) :: []))))))) :: ((((Zpos (XO (XI (XO (XO (XI
    (XI XH))))))) :: ((Zpos (XI (XO (XI (XO (XO (XI XH))))))) :: ((Zpos (XO
    (XI (XO (XO (XO (XI XH))))))) :: ((Zpos (XI (XO (XO (XI (XO (XI
    XH))))))) :: ((Zpos (XO (XI (XI (XI (XO (XI XH))))))) :: ((Zpos (XO (XO
    (XI (XO (XO (XI XH))))))) :: [])))))), ((Zpos (XO (XI (XO (XO (XI (XI
    XH))))))) :: ((Zpos (XI (XO (XI (XO (XO (XI XH))))))) :: ((Zpos (XO (XI
    (XO (XO (XO (XI XH))))))) :: ((Zpos (XI (XO (XO (XI (XO (XI
    XH))))))) :: ((Zpos (XO (XI (XI (XI (XO (XI XH))))))) :: ((Zpos (XO (XO
    (XI (XO (XO (XI XH))))))) :: []))))))) :: ((((Zpos (XO (XO (XI (XO (XI
    (XI XH))))))) :: ((Zpos (XI (XI (XI (XI (XO (XI XH))))))) :: ((Zpos (XI
    (XI (XI (XO (XO (XI XH))))))) :: ((Zpos (XI (XI (XI (XO (XO (XI
    XH))))))) :: ((Zpos (XO (XO (XI (XI (XO (XI XH))))))) :: ((Zpos (XI (XO
    (XI (XO (XO (XI XH))))))) :: ((Zpos (XI (XO (XI (XI (XO
    XH)))))) :: ((Zpos (XO (XI (XO (XO (XO (XI XH))))))) :: ((Zpos (XI (XO
    (XO (XI (XO (XI XH))))))) :: ((Zpos (XO (XI (XI (XI (XO (XI
    XH))))))) :: ((Zpos (XO (XO (XI (XO (XO (XI XH))))))) :: []))))))))))),
    ((Zpos (XO (XO (XI (XO (XI (XI XH))))))) :: ((Zpos (XI (XI (XI (XI (XO
    (XI XH))))))) :: ((Zpos (XI (XI (XI (XO (XO (XI XH))))))) :: ((Zpos (XI
    (XI (XI (XO (XO (XI XH))))))) :: ((Zpos (XO (XO (XI (XI (XO (XI
    XH))))))) :: ((Zpos (XI (XO (XI (XO (XO (XI XH))))))) :: ((Zpos (XI (XO
    (XI (XI (XO XH)))))) :: ((Zpos (XO (XI (XO (XO (XO (XI
    XH))))))) :: ((Zpos (XI (XO (XO (XI (XO (XI XH))))))) :: ((Zpos (XO (XI
    (XI (XI (XO (XI XH))))))) :: ((Zpos (XO (XO (XI (XO (XO (XI
    XH))))))) :: [])))))))))))) :: ((((Zpos (XO (XO (XO (XO (XI (XI
    XH))))))) :: ((Zpos (XO (XI (XO (XO (XI (XI XH))))))) :: ((Zpos (XI (XO
    (XI (XO (XO (XI XH))))))) :: ((Zpos (XO (XI (XI (XO (XI (XI
    XH))))))) :: ((Zpos (XI (XO (XO (XI (XO (XI XH))))))) :: ((Zpos (XI (XO
    (XI (XO (XO (XI XH))))))) :: ((Zpos (XI (XI (XI (XO (XI (XI
    XH))))))) :: []))))))), ((Zpos (XO (XO (XO (XO (XI (XI
    XH))))))) :: ((Zpos (XO (XI (XO (XO (XI (XI XH))))))) :: ((Zpos (XI (XO
    (XI (XO (XO (XI XH))))))) :: ((Zpos (XO (XI (XI (XO (XI (XI
    XH))))))) :: ((Zpos (XI (XO (XO (XI (XO (XI XH))))))) :: ((Zpos (XI (XO
    (XI (XO (XO (XI XH))))))) :: ((Zpos (XI (XI (XI (XO (XI (XI
    XH))))))) :: [])))))))) :: ((((Zpos (XI (XI (XO (XO (XO (XI
    XH))))))) :: ((Zpos (XO (XO (XO (XI (XO (XI XH))))))) :: ((Zpos (XI (XO
    (XO (XO (XO (XI XH))))))) :: ((Zpos (XO (XI (XI (XI (XO (XI
    XH))))))) :: ((Zpos (XI (XI (XI (XO (XO (XI XH))))))) :: ((Zpos (XI (XO
    (XI (XO (XO (XI XH))))))) :: ((Zpos (XI (XO (XI (XI (XO
    XH)))))) :: ((Zpos (XO (XO (XO (XI (XO (XI XH))))))) :: ((Zpos (XI (XO
    (XI (XO (XO (XI XH))))))) :: ((Zpos (XI (XO (XO (XO (XO (XI
    XH))))))) :: ((Zpos (XO (XO (XI (XO (XO (XI XH))))))) :: ((Zpos (XI (XO
    (XI (XO (XO (XI XH))))))) :: ((Zpos (XO (XI (XO (XO (XI (XI
    XH))))))) :: []))))))))))))), ((Zpos (XI (XI (XO (XO (XO (XI
    XH))))))) :: ((Zpos (XO (XO (XO (XI (XO (XI XH))))))) :: ((Zpos (XI (XO
    (XO (XO (XO (XI XH))))))) :: ((Zpos (XO (XI (XI (XI (XO (XI
    XH))))))) :: ((Zpos (XI (XI (XI (XO (XO (XI XH))))))) :: ((Zpos (XI (XO
    (XI (XO (XO (XI XH))))))) :: ((Zpos (XI (XO (XI (XI (XO
    XH)))))) :: ((Zpos (XO (XO (XO (XI (XO (XI XH))))))) :: ((Zpos (XI (XO
    (XI (XO (XO (XI XH))))))) :: ((Zpos (XI (XO (XO (XO (XO (XI
    XH))))))) :: ((Zpos (XO (XO (XI (XO (XO (XI XH))))))) :: ((Zpos (XI (XO
    (XI (XO (XO (XI XH))))))) :: ((Zpos (XO (XI (XO (XO (XI (XI
    XH))))))) :: [])))))))))))))) :: ((((Zpos (XI (XI (XO (XO (XO (XI
    XH))))))) :: ((Zpos (XO (XO (XO (XI (XO (XI XH))))))) :: ((Zpos (XI (XO
    (XO (XO (XO (XI XH))))))) :: ((Zpos (XO (XI (XI (XI (XO (XI
    XH))))))) :: ((Zpos (XI (XI (XI (XO (XO (XI XH))))))) :: ((Zpos (XI (XO
    (XI (XO (XO (XI XH))))))) :: ((Zpos (XI (XO (XI (XI (XO
    XH)))))) :: ((Zpos (XO (XO (XI (XI (XO (XI XH))))))) :: ((Zpos (XI (XO
    (XO (XI (XO (XI XH))))))) :: ((Zpos (XI (XI (XO (XO (XI (XI
    XH))))))) :: ((Zpos (XO (XO (XI (XO (XI (XI XH))))))) :: ((Zpos (XI (XO
    (XI (XI (XO XH)))))) :: ((Zpos (XO (XO (XI (XI (XO (XI
    XH))))))) :: ((Zpos (XI (XO (XO (XO (XO (XI XH))))))) :: ((Zpos (XO (XI
    (XO (XO (XO (XI XH))))))) :: ((Zpos (XI (XO (XI (XO (XO (XI
    XH))))))) :: ((Zpos (XO (XO (XI (XI (XO (XI
    XH))))))) :: []))))))))))))))))), ((Zpos (XI (XI (XO (XO (XO (XI
    XH))))))) :: ((Zpos (XO (XO (XO (XI (XO (XI XH))))))) :: ((Zpos (XI (XO
    (XO (XO (XO (XI XH))))))) :: ((Zpos (XO (XI (XI (XI (XO (XI
    XH))))))) :: ((Zpos (XI (XI (XI (XO (XO (XI XH))))))) :: ((Zpos (XI (XO
    (XI (XO (XO (XI XH))))))) :: ((Zpos (XI (XO (XI (XI (XO
    XH)))))) :: ((Zpos (XO (XO (XI (XI (XO (XI XH))))))) :: ((Zpos (XI (XO
    (XO (XI (XO (XI XH))))))) :: ((Zpos (XI (XI (XO (XO (XI (XI
    XH))))))) :: ((Zpos (XO (XO (XI (XO (XI (XI XH))))))) :: ((Zpos (XI (XO
    (XI (XI (XO XH)))))) :: ((Zpos (XO (XO (XI (XI (XO (XI
    XH))))))) :: ((Zpos (XI (XO (XO (XO (XO (XI XH))))))) :: ((Zpos (XO (XI
    (XO (XO (XO (XI XH))))))) :: ((Zpos (XI (XO (XI (XO (XO (XI
    XH))))))) :: ((Zpos (XO (XO (XI (XI (XO (XI
    XH))))))) :: [])))))))))))))))))) :: ((((Zpos (XI (XI (XO (XO (XO (XI
    XH))))))) :: ((Zpos (XO (XO (XO (XI (XO (XI XH))))))) :: ((Zpos (XI (XO
    (XO (XO (XO (XI XH))))))) :: ((Zpos (XO (XI (XI (XI (XO (XI
    XH))))))) :: ((Zpos (XI (XI (XI (XO (XO (XI XH))))))) :: ((Zpos (XI (XO
    (XI (XO (XO (XI XH))))))) :: ((Zpos (XI (XO (XI (XI (XO
    XH)))))) :: ((Zpos (XO (XI (XO (XO (XO (XI XH))))))) :: ((Zpos (XI (XI
    (XI (XI (XO (XI XH))))))) :: ((Zpos (XO (XI (XO (XO (XI (XI
    XH))))))) :: ((Zpos (XO (XO (XI (XO (XO (XI XH))))))) :: ((Zpos (XI (XO
    (XI (XO (XO (XI XH))))))) :: ((Zpos (XO (XI (XO (XO (XI (XI
    XH))))))) :: ((Zpos (XI (XO (XI (XI (XO XH)))))) :: ((Zpos (XO (XO (XI
    (XI (XO (XI XH))))))) :: ((Zpos (XI (XO (XO (XO (XO (XI
    XH))))))) :: ((Zpos (XO (XI (XO (XO (XO (XI XH))))))) :: ((Zpos (XI (XO
    (XI (XO (XO (XI XH))))))) :: ((Zpos (XO (XO (XI (XI (XO (XI
    XH))))))) :: []))))))))))))))))))), ((Zpos (XI (XI (XO (XO (XO (XI
    XH))))))) :: ((Zpos (XO (XO (XO (XI (XO (XI XH))))))) :: ((Zpos (XI (XO
    (XO (XO (XO (XI XH))))))) :: ((Zpos (XO (XI (XI (XI (XO (XI
    XH))))))) :: ((Zpos (XI (XI (XI (XO (XO (XI XH))))))) :: ((Zpos (XI (XO
    (XI (XO (XO (XI XH))))))) :: ((Zpos (XI (XO (XI (XI (XO
    XH)))))) :: ((Zpos (XO (XI (XO (XO (XO (XI XH))))))) :: ((Zpos (XI (XI
    (XI (XI (XO (XI XH))))))) :: ((Zpos (XO (XI (XO (XO (XI (XI
    XH))))))) :: ((Zpos (XO (XO (XI (XO (XO (XI XH))))))) :: ((Zpos (XI (XO
    (XI (XO (XO (XI XH))))))) :: ((Zpos (XO (XI (XO (XO (XI (XI
    XH))))))) :: ((Zpos (XI (XO (XI (XI (XO XH)))))) :: ((Zpos (XO (XO (XI
    (XI (XO (XI XH))))))) :: ((Zpos (XI (XO (XO (XO (XO (XI
    XH))))))) :: ((Zpos (XO (XI (XO (XO (XO (XI XH))))))) :: ((Zpos (XI (XO
    (XI (XO (XO (XI XH))))))) :: ((Zpos (XO (XO (XI (XI (XO (XI
    XH))))))) :: [])))))))))))))))))))) :: ((((Zpos (XI (XI (XO (XO (XO (XI
    XH))))))) :: ((Zpos (XO (XO (XO (XI (XO (XI XH))))))) :: ((Zpos (XI (XO
    (XO (XO (XO (XI XH))))))) :: ((Zpos (XO (XI (XI (XI (XO (XI
    XH))))))) :: ((Zpos (XI (XI (XI (XO (XO (XI XH))))))) :: ((Zpos (XI (XO
    (XI (XO (XO (XI XH))))))) :: ((Zpos (XI (XO (XI (XI (XO
    XH)))))) :: ((Zpos (XO (XO (XO (XO (XI (XI XH))))))) :: ((Zpos (XO (XI
    (XO (XO (XI (XI XH))))))) :: ((Zpos (XI (XO (XI (XO (XO (XI
    XH))))))) :: ((Zpos (XO (XI (XI (XO (XI (XI XH))))))) :: ((Zpos (XI (XO
    (XO (XI (XO (XI XH))))))) :: ((Zpos (XI (XO (XI (XO (XO (XI
    XH))))))) :: ((Zpos (XI (XI (XI (XO (XI (XI XH))))))) :: ((Zpos (XI (XO
    (XI (XI (XO XH)))))) :: ((Zpos (XO (XO (XI (XI (XO (XI
    XH))))))) :: ((Zpos (XI (XO (XO (XO (XO (XI XH))))))) :: ((Zpos (XO (XI
    (XO (XO (XO (XI XH))))))) :: ((Zpos (XI (XO (XI (XO (XO (XI
    XH))))))) :: ((Zpos (XO (XO (XI (XI (XO (XI
    XH))))))) :: [])))))))))))))))))))), ((Zpos (XI (XI (XO (XO (XO (XI
    XH))))))) :: ((Zpos (XO (XO (XO (XI (XO (XI XH))))))) :: ((Zpos (XI (XO
    (XO (XO (XO (XI XH))))))) :: ((Zpos (XO (XI (XI (XI (XO (XI
    XH))))))) :: ((Zpos (XI (XI (XI (XO (XO (XI XH))))))) :: ((Zpos (XI (XO
    (XI (XO (XO (XI XH))))))) :: ((Zpos (XI (XO (XI (XI (XO
    XH)))))) :: ((Zpos (XO (XO (XO (XO (XI (XI XH))))))) :: ((Zpos (XO (XI
    (XO (XO (XI (XI XH))))))) :: ((Zpos (XI (XO (XI (XO (XO (XI
    XH))))))) :: ((Zpos (XO (XI (XI (XO (XI (XI XH))))))) :: ((Zpos (XI (XO
    (XO (XI (XO (XI XH))))))) :: ((Zpos (XI (XO (XI (XO (XO (XI
    XH))))))) :: ((Zpos (XI (XI (XI (XO (XI (XI XH))))))) :: ((Zpos (XI (XO
    (XI (XI (XO XH)))))) :: ((Zpos (XO (XO (XI (XI (XO (XI
    XH))))))) :: ((Zpos (XI (XO (XO (XO (XO (XI XH))))))) :: ((Zpos (XO (XI
    (XO (XO (XO (XI XH))))))) :: ((Zpos (XI (XO (XI (XO (XO (XI
    XH))))))) :: ((Zpos (XO (XO (XI (XI (XO (XI
    XH))))))) :: []))))))))))))))))))))) :: ((((Zpos (XI (XI (XO (XO (XO (XI
    XH))))))) :: ((Zpos (XO (XO (XO (XI (XO (XI XH))))))) :: ((Zpos (XI (XO
    (XO (XO (XO (XI XH))))))) :: ((Zpos (XO (XI (XI (XI (XO (XI
    XH))))))) :: ((Zpos (XI (XI (XI (XO (XO (XI XH))))))) :: ((Zpos (XI (XO
    (XI (XO (XO (XI XH))))))) :: ((Zpos (XI (XO (XI (XI (XO
    XH)))))) :: ((Zpos (XI (XO (XO (XI (XO (XI XH))))))) :: ((Zpos (XO (XI
    (XI (XI (XO (XI XH))))))) :: ((Zpos (XO (XO (XO (XO (XI (XI
    XH))))))) :: ((Zpos (XI (XO (XI (XO (XI (XI XH))))))) :: ((Zpos (XO (XO
    (XI (XO (XI (XI XH))))))) :: ((Zpos (XI (XO (XI (XI (XO
    XH)))))) :: ((Zpos (XO (XO (XI (XI (XO (XI XH))))))) :: ((Zpos (XI (XO
    (XO (XO (XO (XI XH))))))) :: ((Zpos (XO (XI (XO (XO (XO (XI
    XH))))))) :: ((Zpos (XI (XO (XI (XO (XO (XI XH))))))) :: ((Zpos (XO (XO
    (XI (XI (XO (XI XH))))))) :: [])))))))))))))))))), ((Zpos (XI (XI (XO (XO
    (XO (XI XH))))))) :: ((Zpos (XO (XO (XO (XI (XO (XI XH))))))) :: ((Zpos
    (XI (XO (XO (XO (XO (XI XH))))))) :: ((Zpos (XO (XI (XI (XI (XO (XI
    XH))))))) :: ((Zpos (XI (XI (XI (XO (XO (XI XH))))))) :: ((Zpos (XI (XO
    (XI (XO (XO (XI XH))))))) :: ((Zpos (XI (XO (XI (XI (XO
    XH)))))) :: ((Zpos (XI (XO (XO (XI (XO (XI XH))))))) :: ((Zpos (XO (XI
    (XI (XI (XO (XI XH))))))) :: ((Zpos (XO (XO (XO (XO (XI (XI
    XH))))))) :: ((Zpos (XI (XO (XI (XO (XI (XI XH))))))) :: ((Zpos (XO (XO
    (XI (XO (XI (XI XH))))))) :: ((Zpos (XI (XO (XI (XI (XO
    XH)))))) :: ((Zpos (XO (XO (XI (XI (XO (XI XH))))))) :: ((Zpos (XI (XO
    (XO (XO (XO (XI XH))))))) :: ((Zpos (XO (XI (XO (XO (XO (XI
    XH))))))) :: ((Zpos (XI (XO (XI (XO (XO (XI XH))))))) :: ((Zpos (XO (XO
    (XI (XI (XO (XI XH))))))) :: []))))))))))))))))))) :: ((((Zpos (XI (XI
    (XO (XO (XO (XI XH))))))) :: ((Zpos (XO (XO (XO (XI (XO (XI
    XH))))))) :: ((Zpos (XI (XO (XO (XO (XO (XI XH))))))) :: ((Zpos (XO (XI
    (XI (XI (XO (XI XH))))))) :: ((Zpos (XI (XI (XI (XO (XO (XI
    XH))))))) :: ((Zpos (XI (XO (XI (XO (XO (XI XH))))))) :: ((Zpos (XI (XO
    (XI (XI (XO XH)))))) :: ((Zpos (XO (XO (XO (XI (XO (XI
    XH))))))) :: ((Zpos (XI (XO (XI (XO (XO (XI XH))))))) :: ((Zpos (XI (XO
    (XO (XO (XO (XI XH))))))) :: ((Zpos (XO (XO (XI (XO (XO (XI
    XH))))))) :: ((Zpos (XI (XO (XI (XO (XO (XI XH))))))) :: ((Zpos (XO (XI
    (XO (XO (XI (XI XH))))))) :: ((Zpos (XI (XO (XI (XI (XO
    XH)))))) :: ((Zpos (XO (XO (XI (XI (XO (XI XH))))))) :: ((Zpos (XI (XO
    (XO (XO (XO (XI XH))))))) :: ((Zpos (XO (XI (XO (XO (XO (XI
    XH))))))) :: ((Zpos (XI (XO (XI (XO (XO (XI XH))))))) :: ((Zpos (XO (XO
    (XI (XI (XO (XI XH))))))) :: []))))))))))))))))))), ((Zpos (XI (XI (XO
    (XO (XO (XI XH))))))) :: ((Zpos (XO (XO (XO (XI (XO (XI
    XH))))))) :: ((Zpos (XI (XO (XO (XO (XO (XI XH))))))) :: ((Zpos (XO (XI
    (XI (XI (XO (XI XH))))))) :: ((Zpos (XI (XI (XI (XO (XO (XI
    XH))))))) :: ((Zpos (XI (XO (XI (XO (XO (XI XH))))))) :: ((Zpos (XI (XO
    (XI (XI (XO XH)))))) :: ((Zpos (XO (XO (XO (XI (XO (XI
    XH))))))) :: ((Zpos (XI (XO (XI (XO (XO (XI XH))))))) :: ((Zpos (XI (XO
    (XO (XO (XO (XI XH))))))) :: ((Zpos (XO (XO (XI (XO (XO (XI
    XH))))))) :: ((Zpos (XI (XO (XI (XO (XO (XI XH))))))) :: ((Zpos (XO (XI
    (XO (XO (XI (XI XH))))))) :: ((Zpos (XI (XO (XI (XI (XO
    XH)))))) :: ((Zpos (XO (XO (XI (XI (XO (XI XH))))))) :: ((Zpos (XI (XO
    (XO (XO (XO (XI XH))))))) :: ((Zpos (XO (XI (XO (XO (XO (XI
    XH))))))) :: ((Zpos (XI (XO (XI (XO (XO (XI XH))))))) :: ((Zpos (XO (XO
    (XI (XI (XO (XI XH))))))) :: [])))))))))))))))))))) :: ((((Zpos (XI (XI
    (XO (XO (XO (XI XH))))))) :: ((Zpos (XO (XO (XO (XI (XO (XI
    XH))))))) :: ((Zpos (XI (XO (XO (XO (XO (XI XH))))))) :: ((Zpos (XO (XI
    (XI (XI (XO (XI XH))))))) :: ((Zpos (XI (XI (XI (XO (XO (XI
    XH))))))) :: ((Zpos (XI (XO (XI (XO (XO (XI XH))))))) :: ((Zpos (XI (XO
    (XI (XI (XO XH)))))) :: ((Zpos (XI (XI (XI (XO (XO (XI
    XH))))))) :: ((Zpos (XO (XO (XO (XI (XO (XI XH))))))) :: ((Zpos (XI (XI
    (XI (XI (XO (XI XH))))))) :: ((Zpos (XI (XI (XO (XO (XI (XI
    XH))))))) :: ((Zpos (XO (XO (XI (XO (XI (XI XH))))))) :: [])))))))))))),
    ((Zpos (XI (XI (XO (XO (XO (XI XH))))))) :: ((Zpos (XO (XO (XO (XI (XO
    (XI XH))))))) :: ((Zpos (XI (XO (XO (XO (XO (XI XH))))))) :: ((Zpos (XO
    (XI (XI (XI (XO (XI XH))))))) :: ((Zpos (XI (XI (XI (XO (XO (XI
    XH))))))) :: ((Zpos (XI (XO (XI (XO (XO (XI XH))))))) :: ((Zpos (XI (XO
    (XI (XI (XO XH)))))) :: ((Zpos (XI (XI (XI (XO (XO (XI
    XH))))))) :: ((Zpos (XO (XO (XO (XI (XO (XI XH))))))) :: ((Zpos (XI (XI
    (XI (XI (XO (XI XH))))))) :: ((Zpos (XI (XI (XO (XO (XI (XI
    XH))))))) :: ((Zpos (XO (XO (XI (XO (XI (XI
    XH))))))) :: []))))))))))))) :: ((((Zpos (XI (XI (XO (XO (XO (XI
    XH))))))) :: ((Zpos (XO (XO (XO (XI (XO (XI XH))))))) :: ((Zpos (XI (XO
    (XO (XO (XO (XI XH))))))) :: ((Zpos (XO (XI (XI (XI (XO (XI
    XH))))))) :: ((Zpos (XI (XI (XI (XO (XO (XI XH))))))) :: ((Zpos (XI (XO
    (XI (XO (XO (XI XH))))))) :: ((Zpos (XI (XO (XI (XI (XO
    XH)))))) :: ((Zpos (XO (XO (XO (XO (XI (XI XH))))))) :: ((Zpos (XI (XI
    (XI (XI (XO (XI XH))))))) :: ((Zpos (XI (XO (XO (XI (XO (XI
    XH))))))) :: ((Zpos (XO (XI (XI (XI (XO (XI XH))))))) :: ((Zpos (XO (XO
    (XI (XO (XI (XI XH))))))) :: ((Zpos (XI (XO (XI (XO (XO (XI
    XH))))))) :: ((Zpos (XO (XI (XO (XO (XI (XI
    XH))))))) :: [])))))))))))))), ((Zpos (XI (XI (XO (XO (XO (XI
    XH))))))) :: ((Zpos (XO (XO (XO (XI (XO (XI XH))))))) :: ((Zpos (XI (XO
    (XO (XO (XO (XI XH))))))) :: ((Zpos (XO (XI (XI (XI (XO (XI
    XH))))))) :: ((Zpos (XI (XI (XI (XO (XO (XI XH))))))) :: ((Zpos (XI (XO
    (XI (XO (XO (XI XH))))))) :: ((Zpos (XI (XO (XI (XI (XO
    XH)))))) :: ((Zpos (XO (XO (XO (XO (XI (XI XH))))))) :: ((Zpos (XI (XI
    (XI (XI (XO (XI XH))))))) :: ((Zpos (XI (XO (XO (XI (XO (XI
    XH))))))) :: ((Zpos (XO (XI (XI (XI (XO (XI XH))))))) :: ((Zpos (XO (XO
    (XI (XO (XI (XI XH))))))) :: ((Zpos (XI (XO (XI (XO (XO (XI
    XH))))))) :: ((Zpos (XO (XI (XO (XO (XI (XI
    XH))))))) :: []))))))))))))))) :: ((((Zpos (XI (XI (XO (XO (XO (XI
    XH))))))) :: ((Zpos (XO (XO (XO (XI (XO (XI XH))))))) :: ((Zpos (XI (XO
    (XO (XO (XO (XI XH))))))) :: ((Zpos (XO (XI (XI (XI (XO (XI
    XH))))))) :: ((Zpos (XI (XI (XI (XO (XO (XI XH))))))) :: ((Zpos (XI (XO
    (XI (XO (XO (XI XH))))))) :: ((Zpos (XI (XO (XI (XI (XO
    XH)))))) :: ((Zpos (XO (XO (XO (XO (XI (XI XH))))))) :: ((Zpos (XO (XI
    (XO (XO (XI (XI XH))))))) :: ((Zpos (XI (XO (XI (XO (XO (XI
    XH))))))) :: ((Zpos (XO (XI (XI (XO (XI (XI XH))))))) :: ((Zpos (XI (XO
    (XO (XI (XO (XI XH))))))) :: ((Zpos (XI (XO (XI (XO (XO (XI
    XH))))))) :: ((Zpos (XI (XI (XI (XO (XI (XI XH))))))) :: ((Zpos (XI (XO
    (XI (XI (XO XH)))))) :: ((Zpos (XI (XI (XI (XO (XI (XI
    XH))))))) :: ((Zpos (XI (XO (XO (XI (XO (XI XH))))))) :: ((Zpos (XO (XI
    (XI (XI (XO (XI XH))))))) :: ((Zpos (XO (XO (XI (XO (XO (XI
    XH))))))) :: ((Zpos (XI (XI (XI (XI (XO (XI XH))))))) :: ((Zpos (XI (XI
    (XI (XO (XI (XI XH))))))) :: []))))))))))))))))))))), ((Zpos (XI (XI (XO
    (XO (XO (XI XH))))))) :: ((Zpos (XO (XO (XO (XI (XO (XI
    XH))))))) :: ((Zpos (XI (XO (XO (XO (XO (XI XH))))))) :: ((Zpos (XO (XI
    (XI (XI (XO (XI XH))))))) :: ((Zpos (XI (XI (XI (XO (XO (XI
    XH))))))) :: ((Zpos (XI (XO (XI (XO (XO (XI XH))))))) :: ((Zpos (XI (XO
    (XI (XI (XO XH)))))) :: ((Zpos (XO (XO (XO (XO (XI (XI
    XH))))))) :: ((Zpos (XO (XI (XO (XO (XI (XI XH))))))) :: ((Zpos (XI (XO
    (XI (XO (XO (XI XH))))))) :: ((Zpos (XO (XI (XI (XO (XI (XI
    XH))))))) :: ((Zpos (XI (XO (XO (XI (XO (XI XH))))))) :: ((Zpos (XI (XO
    (XI (XO (XO (XI XH))))))) :: ((Zpos (XI (XI (XI (XO (XI (XI
    XH))))))) :: ((Zpos (XI (XO (XI (XI (XO XH)))))) :: ((Zpos (XI (XI (XI
    (XO (XI (XI XH))))))) :: ((Zpos (XI (XO (XO (XI (XO (XI
    XH))))))) :: ((Zpos (XO (XI (XI (XI (XO (XI XH))))))) :: ((Zpos (XO (XO
    (XI (XO (XO (XI XH))))))) :: ((Zpos (XI (XI (XI (XI (XO (XI
    XH))))))) :: ((Zpos (XI (XI (XI (XO (XI (XI
    XH))))))) :: [])))))))))))))))))))))) :: ((((Zpos (XI (XI (XO (XO (XO (XI
    XH))))))) :: ((Zpos (XO (XO (XO (XI (XO (XI XH))))))) :: ((Zpos (XI (XO
    (XO (XO (XO (XI XH))))))) :: ((Zpos (XO (XI (XI (XI (XO (XI
    XH))))))) :: ((Zpos (XI (XI (XI (XO (XO (XI XH))))))) :: ((Zpos (XI (XO
    (XI (XO (XO (XI XH))))))) :: ((Zpos (XI (XO (XI (XI (XO
    XH)))))) :: ((Zpos (XO (XO (XO (XO (XI (XI XH))))))) :: ((Zpos (XO (XI
    (XO (XO (XI (XI XH))))))) :: ((Zpos (XI (XO (XI (XO (XO (XI
    XH))))))) :: ((Zpos (XO (XI (XI (XO (XI (XI XH))))))) :: ((Zpos (XI (XO
    (XO (XI (XO (XI XH))))))) :: ((Zpos (XI (XO (XI (XO (XO (XI
    XH))))))) :: ((Zpos (XI (XI (XI (XO (XI (XI
    XH))))))) :: [])))))))))))))), ((Zpos (XI (XI (XO (XO (XO (XI
    XH))))))) :: ((Zpos (XO (XO (XO (XI (XO (XI XH))))))) :: ((Zpos (XI (XO
    (XO (XO (XO (XI XH))))))) :: ((Zpos (XO (XI (XI (XI (XO (XI
    XH))))))) :: ((Zpos (XI (XI (XI (XO (XO (XI XH))))))) :: ((Zpos (XI (XO
    (XI (XO (XO (XI XH))))))) :: ((Zpos (XI (XO (XI (XI (XO
    XH)))))) :: ((Zpos (XO (XO (XO (XO (XI (XI XH))))))) :: ((Zpos (XO (XI
    (XO (XO (XI (XI XH))))))) :: ((Zpos (XI (XO (XI (XO (XO (XI
    XH))))))) :: ((Zpos (XO (XI (XI (XO (XI (XI XH))))))) :: ((Zpos (XI (XO
    (XO (XI (XO (XI XH))))))) :: ((Zpos (XI (XO (XI (XO (XO (XI
    XH))))))) :: ((Zpos (XI (XI (XI (XO (XI (XI
    XH))))))) :: []))))))))))))))) :: ((((Zpos (XI (XI (XO (XO (XO (XI
    XH))))))) :: ((Zpos (XO (XO (XO (XI (XO (XI XH))))))) :: ((Zpos (XI (XO
    (XO (XO (XO (XI XH))))))) :: ((Zpos (XO (XI (XI (XI (XO (XI
    XH))))))) :: ((Zpos (XI (XI (XI (XO (XO (XI XH))))))) :: ((Zpos (XI (XO
    (XI (XO (XO (XI XH))))))) :: ((Zpos (XI (XO (XI (XI (XO
    XH)))))) :: ((Zpos (XO (XO (XO (XO (XI (XI XH))))))) :: ((Zpos (XO (XI
    (XO (XO (XI (XI XH))))))) :: ((Zpos (XI (XI (XI (XI (XO (XI
    XH))))))) :: ((Zpos (XI (XO (XI (XI (XO (XI XH))))))) :: ((Zpos (XO (XO
    (XO (XO (XI (XI XH))))))) :: ((Zpos (XO (XO (XI (XO (XI (XI
    XH))))))) :: []))))))))))))), ((Zpos (XI (XI (XO (XO (XO (XI
    XH))))))) :: ((Zpos (XO (XO (XO (XI (XO (XI XH))))))) :: ((Zpos (XI (XO
    (XO (XO (XO (XI XH))))))) :: ((Zpos (XO (XI (XI (XI (XO (XI
    XH))))))) :: ((Zpos (XI (XI (XI (XO (XO (XI XH))))))) :: ((Zpos (XI (XO
    (XI (XO (XO (XI XH))))))) :: ((Zpos (XI (XO (XI (XI (XO
    XH)))))) :: ((Zpos (XO (XO (XO (XO (XI (XI XH))))))) :: ((Zpos (XO (XI
    (XO (XO (XI (XI XH))))))) :: ((Zpos (XI (XI (XI (XI (XO (XI
    XH))))))) :: ((Zpos (XI (XO (XI (XI (XO (XI XH))))))) :: ((Zpos (XO (XO
    (XO (XO (XI (XI XH))))))) :: ((Zpos (XO (XO (XI (XO (XI (XI
    XH))))))) :: [])))))))))))))) :: ((((Zpos (XI (XI (XO (XO (XO (XI
    XH))))))) :: ((Zpos (XO (XO (XO (XI (XO (XI XH))))))) :: ((Zpos (XI (XO
    (XO (XO (XO (XI XH))))))) :: ((Zpos (XO (XI (XI (XI (XO (XI
    XH))))))) :: ((Zpos (XI (XI (XI (XO (XO (XI XH))))))) :: ((Zpos (XI (XO
    (XI (XO (XO (XI XH))))))) :: ((Zpos (XI (XO (XI (XI (XO
    XH)))))) :: ((Zpos (XI (XO (XO (XO (XI (XI XH))))))) :: ((Zpos (XI (XO
    (XI (XO (XI (XI XH))))))) :: ((Zpos (XI (XO (XI (XO (XO (XI
    XH))))))) :: ((Zpos (XO (XI (XO (XO (XI (XI XH))))))) :: ((Zpos (XI (XO
    (XO (XI (XI (XI XH))))))) :: [])))))))))))), ((Zpos (XI (XI (XO (XO (XO
    (XI XH))))))) :: ((Zpos (XO (XO (XO (XI (XO (XI XH))))))) :: ((Zpos (XI
    (XO (XO (XO (XO (XI XH))))))) :: ((Zpos (XO (XI (XI (XI (XO (XI
    XH))))))) :: ((Zpos (XI (XI (XI (XO (XO (XI XH))))))) :: ((Zpos (XI (XO
    (XI (XO (XO (XI XH))))))) :: ((Zpos (XI (XO (XI (XI (XO
    XH)))))) :: ((Zpos (XI (XO (XO (XO (XI (XI XH))))))) :: ((Zpos (XI (XO
    (XI (XO (XI (XI XH))))))) :: ((Zpos (XI (XO (XI (XO (XO (XI
    XH))))))) :: ((Zpos (XO (XI (XO (XO (XI (XI XH))))))) :: ((Zpos (XI (XO
    (XO (XI (XI (XI XH))))))) :: []))))))))))))) :: ((((Zpos (XI (XI (XO (XO
    (XO (XI XH))))))) :: ((Zpos (XO (XO (XO (XI (XO (XI XH))))))) :: ((Zpos
    (XI (XO (XO (XO (XO (XI XH))))))) :: ((Zpos (XO (XI (XI (XI (XO (XI
    XH))))))) :: ((Zpos (XI (XI (XI (XO (XO (XI XH))))))) :: ((Zpos (XI (XO
    (XI (XO (XO (XI XH))))))) :: ((Zpos (XI (XO (XI (XI (XO
    XH)))))) :: ((Zpos (XI (XO (XI (XI (XO (XI XH))))))) :: ((Zpos (XI (XO
    (XI (XO (XI (XI XH))))))) :: ((Zpos (XO (XO (XI (XI (XO (XI
    XH))))))) :: ((Zpos (XO (XO (XI (XO (XI (XI XH))))))) :: ((Zpos (XI (XO
    (XO (XI (XO (XI XH))))))) :: [])))))))))))), ((Zpos (XI (XI (XO (XO (XO
    (XI XH))))))) :: ((Zpos (XO (XO (XO (XI (XO (XI XH))))))) :: ((Zpos (XI
    (XO (XO (XO (XO (XI XH))))))) :: ((Zpos (XO (XI (XI (XI (XO (XI
    XH))))))) :: ((Zpos (XI (XI (XI (XO (XO (XI XH))))))) :: ((Zpos (XI (XO
    (XI (XO (XO (XI XH))))))) :: ((Zpos (XI (XO (XI (XI (XO
    XH)))))) :: ((Zpos (XI (XO (XI (XI (XO (XI XH))))))) :: ((Zpos (XI (XO
    (XI (XO (XI (XI XH))))))) :: ((Zpos (XO (XO (XI (XI (XO (XI
    XH))))))) :: ((Zpos (XO (XO (XI (XO (XI (XI XH))))))) :: ((Zpos (XI (XO
    (XO (XI (XO (XI XH))))))) :: []))))))))))))) :: ((((Zpos (XI (XI (XO (XO
    (XO (XI XH))))))) :: ((Zpos (XO (XO (XO (XI (XO (XI XH))))))) :: ((Zpos
    (XI (XO (XO (XO (XO (XI XH))))))) :: ((Zpos (XO (XI (XI (XI (XO (XI
    XH))))))) :: ((Zpos (XI (XI (XI (XO (XO (XI XH))))))) :: ((Zpos (XI (XO
    (XI (XO (XO (XI XH))))))) :: ((Zpos (XI (XO (XI (XI (XO
    XH)))))) :: ((Zpos (XO (XI (XI (XI (XO (XI XH))))))) :: ((Zpos (XO (XO
    (XI (XO (XI (XI XH))))))) :: ((Zpos (XO (XO (XO (XI (XO (XI
    XH))))))) :: [])))))))))), ((Zpos (XI (XI (XO (XO (XO (XI
    XH))))))) :: ((Zpos (XO (XO (XO (XI (XO (XI XH))))))) :: ((Zpos (XI (XO
    (XO (XO (XO (XI XH))))))) :: ((Zpos (XO (XI (XI (XI (XO (XI
    XH))))))) :: ((Zpos (XI (XI (XI (XO (XO (XI XH))))))) :: ((Zpos (XI (XO
    (XI (XO (XO (XI XH))))))) :: ((Zpos (XI (XO (XI (XI (XO
    XH)))))) :: ((Zpos (XO (XI (XI (XI (XO (XI XH))))))) :: ((Zpos (XO (XO
    (XI (XO (XI (XI XH))))))) :: ((Zpos (XO (XO (XO (XI (XO (XI
    XH))))))) :: []))))))))))) :: ((((Zpos (XO (XO (XO (XO (XI (XI
    XH))))))) :: ((Zpos (XI (XI (XI (XI (XO (XI XH))))))) :: ((Zpos (XI (XI
    (XO (XO (XI (XI XH))))))) :: []))), ((Zpos (XO (XO (XO (XO (XI (XI
    XH))))))) :: ((Zpos (XI (XI (XI (XI (XO (XI XH))))))) :: ((Zpos (XI (XI
    (XO (XO (XI (XI XH))))))) :: ((Zpos (XI (XO (XO (XI (XO (XI
    XH))))))) :: ((Zpos (XO (XO (XI (XO (XI (XI XH))))))) :: ((Zpos (XI (XO
    (XO (XI (XO (XI XH))))))) :: ((Zpos (XI (XI (XI (XI (XO (XI
    XH))))))) :: ((Zpos (XO (XI (XI (XI (XO (XI
    XH))))))) :: []))))))))) :: ((((Zpos (XI (XO (XI (XO (XO (XI
    XH))))))) :: ((Zpos (XO (XO (XO (XI (XI (XI XH))))))) :: ((Zpos (XI (XO
    (XI (XO (XO (XI XH))))))) :: ((Zpos (XI (XI (XO (XO (XO (XI
    XH))))))) :: ((Zpos (XI (XO (XI (XO (XI (XI XH))))))) :: ((Zpos (XO (XO
    (XI (XO (XI (XI XH))))))) :: ((Zpos (XI (XO (XI (XO (XO (XI
    XH))))))) :: []))))))), ((Zpos (XI (XO (XI (XO (XO (XI
    XH))))))) :: ((Zpos (XO (XO (XO (XI (XI (XI XH))))))) :: ((Zpos (XI (XO
    (XI (XO (XO (XI XH))))))) :: ((Zpos (XI (XI (XO (XO (XO (XI
    XH))))))) :: ((Zpos (XI (XO (XI (XO (XI (XI XH))))))) :: ((Zpos (XO (XO
    (XI (XO (XI (XI XH))))))) :: ((Zpos (XI (XO (XI (XO (XO (XI
    XH))))))) :: [])))))))) :: ((((Zpos (XI (XO (XI (XO (XO (XI
    XH))))))) :: ((Zpos (XO (XO (XO (XI (XI (XI XH))))))) :: ((Zpos (XI (XO
    (XI (XO (XO (XI XH))))))) :: ((Zpos (XI (XI (XO (XO (XO (XI
    XH))))))) :: ((Zpos (XI (XO (XI (XO (XI (XI XH))))))) :: ((Zpos (XO (XO
    (XI (XO (XI (XI XH))))))) :: ((Zpos (XI (XO (XI (XO (XO (XI
    XH))))))) :: ((Zpos (XI (XO (XI (XI (XO XH)))))) :: ((Zpos (XI (XI (XO
    (XO (XI (XI XH))))))) :: ((Zpos (XI (XO (XO (XI (XO (XI
    XH))))))) :: ((Zpos (XO (XO (XI (XI (XO (XI XH))))))) :: ((Zpos (XI (XO
    (XI (XO (XO (XI XH))))))) :: ((Zpos (XO (XI (XI (XI (XO (XI
    XH))))))) :: ((Zpos (XO (XO (XI (XO (XI (XI
    XH))))))) :: [])))))))))))))), ((Zpos (XI (XO (XI (XO (XO (XI
    XH))))))) :: ((Zpos (XO (XO (XO (XI (XI (XI XH))))))) :: ((Zpos (XI (XO
    (XI (XO (XO (XI XH))))))) :: ((Zpos (XI (XI (XO (XO (XO (XI
    XH))))))) :: ((Zpos (XI (XO (XI (XO (XI (XI XH))))))) :: ((Zpos (XO (XO
    (XI (XO (XI (XI XH))))))) :: ((Zpos (XI (XO (XI (XO (XO (XI
    XH))))))) :: ((Zpos (XI (XO (XI (XI (XO XH)))))) :: ((Zpos (XI (XI (XO
    (XO (XI (XI XH))))))) :: ((Zpos (XI (XO (XO (XI (XO (XI
    XH))))))) :: ((Zpos (XO (XO (XI (XI (XO (XI XH))))))) :: ((Zpos (XI (XO
    (XI (XO (XO (XI XH))))))) :: ((Zpos (XO (XI (XI (XI (XO (XI
    XH))))))) :: ((Zpos (XO (XO (XI (XO (XI (XI
    XH))))))) :: []))))))))))))))) :: ((((Zpos (XI (XO (XI (XO (XO (XI
    XH))))))) :: ((Zpos (XO (XO (XO (XI (XI (XI XH))))))) :: ((Zpos (XI (XO
    (XI (XO (XO (XI XH))))))) :: ((Zpos (XI (XI (XO (XO (XO (XI
    XH))))))) :: ((Zpos (XI (XO (XI (XO (XI (XI XH))))))) :: ((Zpos (XO (XO
    (XI (XO (XI (XI XH))))))) :: ((Zpos (XI (XO (XI (XO (XO (XI
    XH))))))) :: ((Zpos (XI (XO (XI (XI (XO XH)))))) :: ((Zpos (XI (XO (XI
    (XI (XO (XI XH))))))) :: ((Zpos (XI (XO (XI (XO (XI (XI
    XH))))))) :: ((Zpos (XO (XO (XI (XI (XO (XI XH))))))) :: ((Zpos (XO (XO
    (XI (XO (XI (XI XH))))))) :: ((Zpos (XI (XO (XO (XI (XO (XI
    XH))))))) :: []))))))))))))), ((Zpos (XI (XO (XI (XO (XO (XI
    XH))))))) :: ((Zpos (XO (XO (XO (XI (XI (XI XH))))))) :: ((Zpos (XI (XO
    (XI (XO (XO (XI XH))))))) :: ((Zpos (XI (XI (XO (XO (XO (XI
    XH))))))) :: ((Zpos (XI (XO (XI (XO (XI (XI XH))))))) :: ((Zpos (XO (XO
    (XI (XO (XI (XI XH))))))) :: ((Zpos (XI (XO (XI (XO (XO (XI
    XH))))))) :: ((Zpos (XI (XO (XI (XI (XO XH)))))) :: ((Zpos (XI (XO (XI
    (XI (XO (XI XH))))))) :: ((Zpos (XI (XO (XI (XO (XI (XI
    XH))))))) :: ((Zpos (XO (XO (XI (XI (XO (XI XH))))))) :: ((Zpos (XO (XO
    (XI (XO (XI (XI XH))))))) :: ((Zpos (XI (XO (XO (XI (XO (XI
    XH))))))) :: [])))))))))))))) :: ((((Zpos (XO (XO (XO (XO (XI (XI
    XH))))))) :: ((Zpos (XO (XI (XO (XO (XI (XI XH))))))) :: ((Zpos (XI (XO
    (XO (XI (XO (XI XH))))))) :: ((Zpos (XO (XI (XI (XI (XO (XI
    XH))))))) :: ((Zpos (XO (XO (XI (XO (XI (XI XH))))))) :: []))))), ((Zpos
    (XO (XO (XO (XO (XI (XI XH))))))) :: ((Zpos (XO (XI (XO (XO (XI (XI
    XH))))))) :: ((Zpos (XI (XO (XO (XI (XO (XI XH))))))) :: ((Zpos (XO (XI
    (XI (XI (XO (XI XH))))))) :: ((Zpos (XO (XO (XI (XO (XI (XI
    XH))))))) :: [])))))) :: ((((Zpos (XO (XO (XO (XO (XI (XI
    XH))))))) :: ((Zpos (XI (XO (XI (XO (XI (XI XH))))))) :: ((Zpos (XO (XO
    (XI (XO (XI (XI XH))))))) :: []))), ((Zpos (XO (XO (XO (XO (XI (XI
    XH))))))) :: ((Zpos (XI (XO (XI (XO (XI (XI XH))))))) :: ((Zpos (XO (XO
    (XI (XO (XI (XI XH))))))) :: [])))) :: ((((Zpos (XO (XO (XI (XO (XI (XI
    XH))))))) :: ((Zpos (XO (XI (XO (XO (XI (XI XH))))))) :: ((Zpos (XI (XO
    (XO (XO (XO (XI XH))))))) :: ((Zpos (XO (XI (XI (XI (XO (XI
    XH))))))) :: ((Zpos (XI (XI (XO (XO (XI (XI XH))))))) :: ((Zpos (XO (XI
    (XI (XO (XO (XI XH))))))) :: ((Zpos (XI (XI (XI (XI (XO (XI
    XH))))))) :: ((Zpos (XO (XI (XO (XO (XI (XI XH))))))) :: ((Zpos (XI (XO
    (XI (XI (XO (XI XH))))))) :: []))))))))), ((Zpos (XO (XO (XI (XO (XI (XI
    XH))))))) :: ((Zpos (XO (XI (XO (XO (XI (XI XH))))))) :: ((Zpos (XI (XO
    (XO (XO (XO (XI XH))))))) :: ((Zpos (XO (XI (XI (XI (XO (XI
    XH))))))) :: ((Zpos (XI (XI (XO (XO (XI (XI XH))))))) :: ((Zpos (XO (XI
    (XI (XO (XO (XI XH))))))) :: ((Zpos (XI (XI (XI (XI (XO (XI
    XH))))))) :: ((Zpos (XO (XI (XO (XO (XI (XI XH))))))) :: ((Zpos (XI (XO
    (XI (XI (XO (XI XH))))))) :: [])))))))))) :: ((((Zpos (XO (XO (XI (XO (XI
    (XI XH))))))) :: ((Zpos (XO (XI (XO (XO (XI (XI XH))))))) :: ((Zpos (XI
    (XO (XO (XO (XO (XI XH))))))) :: ((Zpos (XO (XI (XI (XI (XO (XI
    XH))))))) :: ((Zpos (XI (XI (XO (XO (XI (XI XH))))))) :: ((Zpos (XO (XI
    (XI (XO (XO (XI XH))))))) :: ((Zpos (XI (XI (XI (XI (XO (XI
    XH))))))) :: ((Zpos (XO (XI (XO (XO (XI (XI XH))))))) :: ((Zpos (XI (XO
    (XI (XI (XO (XI XH))))))) :: ((Zpos (XI (XO (XI (XI (XO
    XH)))))) :: ((Zpos (XO (XO (XI (XI (XO (XI XH))))))) :: ((Zpos (XI (XO
    (XO (XI (XO (XI XH))))))) :: ((Zpos (XI (XI (XO (XO (XI (XI
    XH))))))) :: ((Zpos (XO (XO (XI (XO (XI (XI XH))))))) :: ((Zpos (XI (XO
    (XI (XI (XO XH)))))) :: ((Zpos (XO (XO (XI (XI (XO (XI
    XH))))))) :: ((Zpos (XI (XO (XO (XO (XO (XI XH))))))) :: ((Zpos (XO (XI
    (XO (XO (XO (XI XH))))))) :: ((Zpos (XI (XO (XI (XO (XO (XI
    XH))))))) :: ((Zpos (XO (XO (XI (XI (XO (XI
    XH))))))) :: [])))))))))))))))))))), ((Zpos (XO (XO (XI (XO (XI (XI
    XH))))))) :: ((Zpos (XO (XI (XO (XO (XI (XI XH))))))) :: ((Zpos (XI (XO
    (XO (XO (XO (XI XH))))))) :: ((Zpos (XO (XI (XI (XI (XO (XI
    XH))))))) :: ((Zpos (XI (XI (XO (XO (XI (XI XH))))))) :: ((Zpos (XO (XI
    (XI (XO (XO (XI XH))))))) :: ((Zpos (XI (XI (XI (XI (XO (XI
    XH))))))) :: ((Zpos (XO (XI (XO (XO (XI (XI XH))))))) :: ((Zpos (XI (XO
    (XI (XI (XO (XI XH))))))) :: ((Zpos (XI (XO (XI (XI (XO
    XH)))))) :: ((Zpos (XO (XO (XI (XI (XO (XI XH))))))) :: ((Zpos (XI (XO
    (XO (XI (XO (XI XH))))))) :: ((Zpos (XI (XI (XO (XO (XI (XI
    XH))))))) :: ((Zpos (XO (XO (XI (XO (XI (XI XH))))))) :: ((Zpos (XI (XO
    (XI (XI (XO XH)))))) :: ((Zpos (XO (XO (XI (XI (XO (XI
    XH))))))) :: ((Zpos (XI (XO (XO (XO (XO (XI XH))))))) :: ((Zpos (XO (XI
    (XO (XO (XO (XI XH))))))) :: ((Zpos (XI (XO (XI (XO (XO (XI
    XH))))))) :: ((Zpos (XO (XO (XI (XI (XO (XI
    XH))))))) :: []))))))))))))))))))))) :: ((((Zpos (XO (XO (XI (XO (XI (XI
    XH))))))) :: ((Zpos (XO (XI (XO (XO (XI (XI XH))))))) :: ((Zpos (XI (XO
    (XO (XO (XO (XI XH))))))) :: ((Zpos (XO (XI (XI (XI (XO (XI
    XH))))))) :: ((Zpos (XI (XI (XO (XO (XI (XI XH))))))) :: ((Zpos (XO (XI
    (XI (XO (XO (XI XH))))))) :: ((Zpos (XI (XI (XI (XI (XO (XI
    XH))))))) :: ((Zpos (XO (XI (XO (XO (XI (XI XH))))))) :: ((Zpos (XI (XO
    (XI (XI (XO (XI XH))))))) :: ((Zpos (XI (XO (XI (XI (XO
    XH)))))) :: ((Zpos (XO (XI (XO (XO (XO (XI XH))))))) :: ((Zpos (XI (XI
    (XI (XI (XO (XI XH))))))) :: ((Zpos (XO (XI (XO (XO (XI (XI
    XH))))))) :: ((Zpos (XO (XO (XI (XO (XO (XI XH))))))) :: ((Zpos (XI (XO
    (XI (XO (XO (XI XH))))))) :: ((Zpos (XO (XI (XO (XO (XI (XI
    XH))))))) :: ((Zpos (XI (XO (XI (XI (XO XH)))))) :: ((Zpos (XO (XO (XI
    (XI (XO (XI XH))))))) :: ((Zpos (XI (XO (XO (XO (XO (XI
    XH))))))) :: ((Zpos (XO (XI (XO (XO (XO (XI XH))))))) :: ((Zpos (XI (XO
    (XI (XO (XO (XI XH))))))) :: ((Zpos (XO (XO (XI (XI (XO (XI
    XH))))))) :: [])))))))))))))))))))))), ((Zpos (XO (XO (XI (XO (XI (XI
    XH))))))) :: ((Zpos (XO (XI (XO (XO (XI (XI XH))))))) :: ((Zpos (XI (XO
    (XO (XO (XO (XI XH))))))) :: ((Zpos (XO (XI (XI (XI (XO (XI
    XH))))))) :: ((Zpos (XI (XI (XO (XO (XI (XI XH))))))) :: ((Zpos (XO (XI
    (XI (XO (XO (XI XH))))))) :: ((Zpos (XI (XI (XI (XI (XO (XI
    XH))))))) :: ((Zpos (XO (XI (XO (XO (XI (XI XH))))))) :: ((Zpos (XI (XO
    (XI (XI (XO (XI XH))))))) :: ((Zpos (XI (XO (XI (XI (XO
    XH)))))) :: ((Zpos (XO (XI (XO (XO (XO (XI XH))))))) :: ((Zpos (XI (XI
    (XI (XI (XO (XI XH))))))) :: ((Zpos (XO (XI (XO (XO (XI (XI
    XH))))))) :: ((Zpos (XO (XO (XI (XO (XO (XI XH))))))) :: ((Zpos (XI (XO
    (XI (XO (XO (XI XH))))))) :: ((Zpos (XO (XI (XO (XO (XI (XI
    XH))))))) :: ((Zpos (XI (XO (XI (XI (XO XH)))))) :: ((Zpos (XO (XO (XI
    (XI (XO (XI XH))))))) :: ((Zpos (XI (XO (XO (XO (XO (XI
    XH))))))) :: ((Zpos (XO (XI (XO (XO (XO (XI XH))))))) :: ((Zpos (XI (XO
    (XI (XO (XO (XI XH))))))) :: ((Zpos (XO (XO (XI (XI (XO (XI
    XH))))))) :: []))))))))))))))))))))))) :: ((((Zpos (XO (XO (XI (XO (XI
    (XI XH))))))) :: ((Zpos (XO (XI (XO (XO (XI (XI XH))))))) :: ((Zpos (XI
    (XO (XO (XO (XO (XI XH))))))) :: ((Zpos (XO (XI (XI (XI (XO (XI
    XH))))))) :: ((Zpos (XI (XI (XO (XO (XI (XI XH))))))) :: ((Zpos (XO (XI
    (XI (XO (XO (XI XH))))))) :: ((Zpos (XI (XI (XI (XI (XO (XI
    XH))))))) :: ((Zpos (XO (XI (XO (XO (XI (XI XH))))))) :: ((Zpos (XI (XO
    (XI (XI (XO (XI XH))))))) :: ((Zpos (XI (XO (XI (XI (XO
    XH)))))) :: ((Zpos (XO (XO (XO (XO (XI (XI XH))))))) :: ((Zpos (XO (XI
    (XO (XO (XI (XI XH))))))) :: ((Zpos (XI (XO (XI (XO (XO (XI
    XH))))))) :: ((Zpos (XO (XI (XI (XO (XI (XI XH))))))) :: ((Zpos (XI (XO
    (XO (XI (XO (XI XH))))))) :: ((Zpos (XI (XO (XI (XO (XO (XI
    XH))))))) :: ((Zpos (XI (XI (XI (XO (XI (XI XH))))))) :: ((Zpos (XI (XO
    (XI (XI (XO XH)))))) :: ((Zpos (XO (XO (XI (XI (XO (XI
    XH))))))) :: ((Zpos (XI (XO (XO (XO (XO (XI XH))))))) :: ((Zpos (XO (XI
    (XO (XO (XO (XI XH))))))) :: ((Zpos (XI (XO (XI (XO (XO (XI
    XH))))))) :: ((Zpos (XO (XO (XI (XI (XO (XI
    XH))))))) :: []))))))))))))))))))))))), ((Zpos (XO (XO (XI (XO (XI (XI
    XH))))))) :: ((Zpos (XO (XI (XO (XO (XI (XI XH))))))) :: ((Zpos (XI (XO
    (XO (XO (XO (XI XH))))))) :: ((Zpos (XO (XI (XI (XI (XO (XI
    XH))))))) :: ((Zpos (XI (XI (XO (XO (XI (XI XH))))))) :: ((Zpos (XO (XI
    (XI (XO (XO (XI XH))))))) :: ((Zpos (XI (XI (XI (XI (XO (XI
    XH))))))) :: ((Zpos (XO (XI (XO (XO (XI (XI XH))))))) :: ((Zpos (XI (XO
    (XI (XI (XO (XI XH))))))) :: ((Zpos (XI (XO (XI (XI (XO
    XH)))))) :: ((Zpos (XO (XO (XO (XO (XI (XI XH))))))) :: ((Zpos (XO (XI
    (XO (XO (XI (XI XH))))))) :: ((Zpos (XI (XO (XI (XO (XO (XI
    XH))))))) :: ((Zpos (XO (XI (XI (XO (XI (XI XH))))))) :: ((Zpos (XI (XO
    (XO (XI (XO (XI XH))))))) :: ((Zpos (XI (XO (XI (XO (XO (XI
    XH))))))) :: ((Zpos (XI (XI (XI (XO (XI (XI XH))))))) :: ((Zpos (XI (XO
    (XI (XI (XO XH)))))) :: ((Zpos (XO (XO (XI (XI (XO (XI
    XH))))))) :: ((Zpos (XI (XO (XO (XO (XO (XI XH))))))) :: ((Zpos (XO (XI
    (XO (XO (XO (XI XH))))))) :: ((Zpos (XI (XO (XI (XO (XO (XI
    XH))))))) :: ((Zpos (XO (XO (XI (XI (XO (XI
    XH))))))) :: [])))))))))))))))))))))))) :: ((((Zpos (XO (XO (XI (XO (XI
    (XI XH))))))) :: ((Zpos (XO (XI (XO (XO (XI (XI XH))))))) :: ((Zpos (XI
    (XO (XO (XO (XO (XI XH))))))) :: ((Zpos (XO (XI (XI (XI (XO (XI
    XH))))))) :: ((Zpos (XI (XI (XO (XO (XI (XI XH))))))) :: ((Zpos (XO (XI
    (XI (XO (XO (XI XH))))))) :: ((Zpos (XI (XI (XI (XI (XO (XI
    XH))))))) :: ((Zpos (XO (XI (XO (XO (XI (XI XH))))))) :: ((Zpos (XI (XO
    (XI (XI (XO (XI XH))))))) :: ((Zpos (XI (XO (XI (XI (XO
    XH)))))) :: ((Zpos (XI (XO (XO (XI (XO (XI XH))))))) :: ((Zpos (XO (XI
    (XI (XI (XO (XI XH))))))) :: ((Zpos (XO (XO (XO (XO (XI (XI
    XH))))))) :: ((Zpos (XI (XO (XI (XO (XI (XI XH))))))) :: ((Zpos (XO (XO
    (XI (XO (XI (XI XH))))))) :: ((Zpos (XI (XO (XI (XI (XO
    XH)))))) :: ((Zpos (XO (XO (XI (XI (XO (XI XH))))))) :: ((Zpos (XI (XO
    (XO (XO (XO (XI XH))))))) :: ((Zpos (XO (XI (XO (XO (XO (XI
    XH))))))) :: ((Zpos (XI (XO (XI (XO (XO (XI XH))))))) :: ((Zpos (XO (XO
    (XI (XI (XO (XI XH))))))) :: []))))))))))))))))))))), ((Zpos (XO (XO (XI
    (XO (XI (XI XH))))))) :: ((Zpos (XO (XI (XO (XO (XI (XI
    XH))))))) :: ((Zpos (XI (XO (XO (XO (XO (XI XH))))))) :: ((Zpos (XO (XI
    (XI (XI (XO (XI XH))))))) :: ((Zpos (XI (XI (XO (XO (XI (XI
    XH))))))) :: ((Zpos (XO (XI (XI (XO (XO (XI XH))))))) :: ((Zpos (XI (XI
    (XI (XI (XO (XI XH))))))) :: ((Zpos (XO (XI (XO (XO (XI (XI
    XH))))))) :: ((Zpos (XI (XO (XI (XI (XO (XI XH))))))) :: ((Zpos (XI (XO
    (XI (XI (XO XH)))))) :: ((Zpos (XI (XO (XO (XI (XO (XI
    XH))))))) :: ((Zpos (XO (XI (XI (XI (XO (XI XH))))))) :: ((Zpos (XO (XO
    (XO (XO (XI (XI XH))))))) :: ((Zpos (XI (XO (XI (XO (XI (XI
    XH))))))) :: ((Zpos (XO (XO (XI (XO (XI (XI XH))))))) :: ((Zpos (XI (XO
    (XI (XI (XO XH)))))) :: ((Zpos (XO (XO (XI (XI (XO (XI
    XH))))))) :: ((Zpos (XI (XO (XO (XO (XO (XI XH))))))) :: ((Zpos (XO (XI
    (XO (XO (XO (XI XH))))))) :: ((Zpos (XI (XO (XI (XO (XO (XI
    XH))))))) :: ((Zpos (XO (XO (XI (XI (XO (XI
    XH))))))) :: [])))))))))))))))))))))) :: ((((Zpos (XO (XO (XI (XO (XI (XI
    XH))))))) :: ((Zpos (XO (XI (XO (XO (XI (XI XH))))))) :: ((Zpos (XI (XO
    (XO (XO (XO (XI XH))))))) :: ((Zpos (XO (XI (XI (XI (XO (XI
    XH))))))) :: ((Zpos (XI (XI (XO (XO (XI (XI XH))))))) :: ((Zpos (XO (XI
    (XI (XO (XO (XI XH))))))) :: ((Zpos (XI (XI (XI (XI (XO (XI
    XH))))))) :: ((Zpos (XO (XI (XO (XO (XI (XI XH))))))) :: ((Zpos (XI (XO
    (XI (XI (XO (XI XH))))))) :: ((Zpos (XI (XO (XI (XI (XO
    XH)))))) :: ((Zpos (XO (XO (XO (XI (XO (XI XH))))))) :: ((Zpos (XI (XO
    (XI (XO (XO (XI XH))))))) :: ((Zpos (XI (XO (XO (XO (XO (XI
    XH))))))) :: ((Zpos (XO (XO (XI (XO (XO (XI XH))))))) :: ((Zpos (XI (XO
    (XI (XO (XO (XI XH))))))) :: ((Zpos (XO (XI (XO (XO (XI (XI
    XH))))))) :: ((Zpos (XI (XO (XI (XI (XO XH)))))) :: ((Zpos (XO (XO (XI
    (XI (XO (XI XH))))))) :: ((Zpos (XI (XO (XO (XO (XO (XI
    XH))))))) :: ((Zpos (XO (XI (XO (XO (XO (XI XH))))))) :: ((Zpos (XI (XO
    (XI (XO (XO (XI XH))))))) :: ((Zpos (XO (XO (XI (XI (XO (XI
    XH))))))) :: [])))))))))))))))))))))), ((Zpos (XO (XO (XI (XO (XI (XI
    XH))))))) :: ((Zpos (XO (XI (XO (XO (XI (XI XH))))))) :: ((Zpos (XI (XO
    (XO (XO (XO (XI XH))))))) :: ((Zpos (XO (XI (XI (XI (XO (XI
    XH))))))) :: ((Zpos (XI (XI (XO (XO (XI (XI XH))))))) :: ((Zpos (XO (XI
    (XI (XO (XO (XI XH))))))) :: ((Zpos (XI (XI (XI (XI (XO (XI
    XH))))))) :: ((Zpos (XO (XI (XO (XO (XI (XI XH))))))) :: ((Zpos (XI (XO
    (XI (XI (XO (XI XH))))))) :: ((Zpos (XI (XO (XI (XI (XO
    XH)))))) :: ((Zpos (XO (XO (XO (XI (XO (XI XH))))))) :: ((Zpos (XI (XO
    (XI (XO (XO (XI XH))))))) :: ((Zpos (XI (XO (XO (XO (XO (XI
    XH))))))) :: ((Zpos (XO (XO (XI (XO (XO (XI XH))))))) :: ((Zpos (XI (XO
    (XI (XO (XO (XI XH))))))) :: ((Zpos (XO (XI (XO (XO (XI (XI
    XH))))))) :: ((Zpos (XI (XO (XI (XI (XO XH)))))) :: ((Zpos (XO (XO (XI
    (XI (XO (XI XH))))))) :: ((Zpos (XI (XO (XO (XO (XO (XI
    XH))))))) :: ((Zpos (XO (XI (XO (XO (XO (XI XH))))))) :: ((Zpos (XI (XO
    (XI (XO (XO (XI XH))))))) :: ((Zpos (XO (XO (XI (XI (XO (XI
    XH))))))) :: []))))))))))))))))))))))) :: ((((Zpos (XO (XO (XI (XO (XI
    (XI XH))))))) :: ((Zpos (XO (XI (XO (XO (XI (XI XH))))))) :: ((Zpos (XI
    (XO (XO (XO (XO (XI XH))))))) :: ((Zpos (XO (XI (XI (XI (XO (XI
    XH))))))) :: ((Zpos (XI (XI (XO (XO (XI (XI XH))))))) :: ((Zpos (XO (XI
    (XI (XO (XO (XI XH))))))) :: ((Zpos (XI (XI (XI (XI (XO (XI
    XH))))))) :: ((Zpos (XO (XI (XO (XO (XI (XI XH))))))) :: ((Zpos (XI (XO
    (XI (XI (XO (XI XH))))))) :: ((Zpos (XI (XO (XI (XI (XO
    XH)))))) :: ((Zpos (XO (XO (XO (XI (XO (XI XH))))))) :: ((Zpos (XI (XO
    (XI (XO (XO (XI XH))))))) :: ((Zpos (XI (XO (XO (XO (XO (XI
    XH))))))) :: ((Zpos (XO (XO (XI (XO (XO (XI XH))))))) :: ((Zpos (XI (XO
    (XI (XO (XO (XI XH))))))) :: ((Zpos (XO (XI (XO (XO (XI (XI
    XH))))))) :: [])))))))))))))))), ((Zpos (XO (XO (XI (XO (XI (XI
    XH))))))) :: ((Zpos (XO (XI (XO (XO (XI (XI XH))))))) :: ((Zpos (XI (XO
    (XO (XO (XO (XI XH))))))) :: ((Zpos (XO (XI (XI (XI (XO (XI
    XH))))))) :: ((Zpos (XI (XI (XO (XO (XI (XI XH))))))) :: ((Zpos (XO (XI
    (XI (XO (XO (XI XH))))))) :: ((Zpos (XI (XI (XI (XI (XO (XI
    XH))))))) :: ((Zpos (XO (XI (XO (XO (XI (XI XH))))))) :: ((Zpos (XI (XO
    (XI (XI (XO (XI XH))))))) :: ((Zpos (XI (XO (XI (XI (XO
    XH)))))) :: ((Zpos (XO (XO (XO (XI (XO (XI XH))))))) :: ((Zpos (XI (XO
    (XI (XO (XO (XI XH))))))) :: ((Zpos (XI (XO (XO (XO (XO (XI
    XH))))))) :: ((Zpos (XO (XO (XI (XO (XO (XI XH))))))) :: ((Zpos (XI (XO
    (XI (XO (XO (XI XH))))))) :: ((Zpos (XO (XI (XO (XO (XI (XI
    XH))))))) :: []))))))))))))))))) :: ((((Zpos (XO (XO (XI (XO (XI (XI
    XH))))))) :: ((Zpos (XO (XI (XO (XO (XI (XI XH))))))) :: ((Zpos (XI (XO
    (XO (XO (XO (XI XH))))))) :: ((Zpos (XO (XI (XI (XI (XO (XI
    XH))))))) :: ((Zpos (XI (XI (XO (XO (XI (XI XH))))))) :: ((Zpos (XO (XI
    (XI (XO (XO (XI XH))))))) :: ((Zpos (XI (XI (XI (XI (XO (XI
    XH))))))) :: ((Zpos (XO (XI (XO (XO (XI (XI XH))))))) :: ((Zpos (XI (XO
    (XI (XI (XO (XI XH))))))) :: ((Zpos (XI (XO (XI (XI (XO
    XH)))))) :: ((Zpos (XI (XI (XI (XO (XO (XI XH))))))) :: ((Zpos (XO (XO
    (XO (XI (XO (XI XH))))))) :: ((Zpos (XI (XI (XI (XI (XO (XI
    XH))))))) :: ((Zpos (XI (XI (XO (XO (XI (XI XH))))))) :: ((Zpos (XO (XO
    (XI (XO (XI (XI XH))))))) :: []))))))))))))))), ((Zpos (XO (XO (XI (XO
    (XI (XI XH))))))) :: ((Zpos (XO (XI (XO (XO (XI (XI XH))))))) :: ((Zpos
    (XI (XO (XO (XO (XO (XI XH))))))) :: ((Zpos (XO (XI (XI (XI (XO (XI
    XH))))))) :: ((Zpos (XI (XI (XO (XO (XI (XI XH))))))) :: ((Zpos (XO (XI
    (XI (XO (XO (XI XH))))))) :: ((Zpos (XI (XI (XI (XI (XO (XI
    XH))))))) :: ((Zpos (XO (XI (XO (XO (XI (XI XH))))))) :: ((Zpos (XI (XO
    (XI (XI (XO (XI XH))))))) :: ((Zpos (XI (XO (XI (XI (XO
    XH)))))) :: ((Zpos (XI (XI (XI (XO (XO (XI XH))))))) :: ((Zpos (XO (XO
    (XO (XI (XO (XI XH))))))) :: ((Zpos (XI (XI (XI (XI (XO (XI
    XH))))))) :: ((Zpos (XI (XI (XO (XO (XI (XI XH))))))) :: ((Zpos (XO (XO
    (XI (XO (XI (XI XH))))))) :: [])))))))))))))))) :: ((((Zpos (XO (XO (XI
    (XO (XI (XI XH))))))) :: ((Zpos (XO (XI (XO (XO (XI (XI
    XH))))))) :: ((Zpos (XI (XO (XO (XO (XO (XI XH))))))) :: ((Zpos (XO (XI
    (XI (XI (XO (XI XH))))))) :: ((Zpos (XI (XI (XO (XO (XI (XI
    XH))))))) :: ((Zpos (XO (XI (XI (XO (XO (XI XH))))))) :: ((Zpos (XI (XI
    (XI (XI (XO (XI XH))))))) :: ((Zpos (XO (XI (XO (XO (XI (XI
    XH))))))) :: ((Zpos (XI (XO (XI (XI (XO (XI XH))))))) :: ((Zpos (XI (XO
    (XI (XI (XO XH)))))) :: ((Zpos (XO (XI (XI (XI (XO (XI
    XH))))))) :: ((Zpos (XO (XO (XI (XO (XI (XI XH))))))) :: ((Zpos (XO (XO
    (XO (XI (XO (XI XH))))))) :: []))))))))))))), ((Zpos (XO (XO (XI (XO (XI
    (XI XH))))))) :: ((Zpos (XO (XI (XO (XO (XI (XI XH))))))) :: ((Zpos (XI
    (XO (XO (XO (XO (XI XH))))))) :: ((Zpos (XO (XI (XI (XI (XO (XI
    XH))))))) :: ((Zpos (XI (XI (XO (XO (XI (XI XH))))))) :: ((Zpos (XO (XI
    (XI (XO (XO (XI XH))))))) :: ((Zpos (XI (XI (XI (XI (XO (XI
    XH))))))) :: ((Zpos (XO (XI (XO (XO (XI (XI XH))))))) :: ((Zpos (XI (XO
    (XI (XI (XO (XI XH))))))) :: ((Zpos (XI (XO (XI (XI (XO
    XH)))))) :: ((Zpos (XO (XI (XI (XI (XO (XI XH))))))) :: ((Zpos (XO (XO
    (XI (XO (XI (XI XH))))))) :: ((Zpos (XO (XO (XO (XI (XO (XI
    XH))))))) :: [])))))))))))))) :: ((((Zpos (XO (XO (XI (XO (XI (XI
    XH))))))) :: ((Zpos (XO (XI (XO (XO (XI (XI XH))))))) :: ((Zpos (XI (XO
    (XO (XO (XO (XI XH))))))) :: ((Zpos (XO (XI (XI (XI (XO (XI
    XH))))))) :: ((Zpos (XI (XI (XO (XO (XI (XI XH))))))) :: ((Zpos (XO (XI
    (XI (XO (XO (XI XH))))))) :: ((Zpos (XI (XI (XI (XI (XO (XI
    XH))))))) :: ((Zpos (XO (XI (XO (XO (XI (XI XH))))))) :: ((Zpos (XI (XO
    (XI (XI (XO (XI XH))))))) :: ((Zpos (XI (XO (XI (XI (XO
    XH)))))) :: ((Zpos (XO (XO (XO (XO (XI (XI XH))))))) :: ((Zpos (XI (XI
    (XI (XI (XO (XI XH))))))) :: ((Zpos (XI (XO (XO (XI (XO (XI
    XH))))))) :: ((Zpos (XO (XI (XI (XI (XO (XI XH))))))) :: ((Zpos (XO (XO
    (XI (XO (XI (XI XH))))))) :: ((Zpos (XI (XO (XI (XO (XO (XI
    XH))))))) :: ((Zpos (XO (XI (XO (XO (XI (XI
    XH))))))) :: []))))))))))))))))), ((Zpos (XO (XO (XI (XO (XI (XI
    XH))))))) :: ((Zpos (XO (XI (XO (XO (XI (XI XH))))))) :: ((Zpos (XI (XO
    (XO (XO (XO (XI XH))))))) :: ((Zpos (XO (XI (XI (XI (XO (XI
    XH))))))) :: ((Zpos (XI (XI (XO (XO (XI (XI XH))))))) :: ((Zpos (XO (XI
    (XI (XO (XO (XI XH))))))) :: ((Zpos (XI (XI (XI (XI (XO (XI
    XH))))))) :: ((Zpos (XO (XI (XO (XO (XI (XI XH))))))) :: ((Zpos (XI (XO
    (XI (XI (XO (XI XH))))))) :: ((Zpos (XI (XO (XI (XI (XO
    XH)))))) :: ((Zpos (XO (XO (XO (XO (XI (XI XH))))))) :: ((Zpos (XI (XI
    (XI (XI (XO (XI XH))))))) :: ((Zpos (XI (XO (XO (XI (XO (XI
    XH))))))) :: ((Zpos (XO (XI (XI (XI (XO (XI XH))))))) :: ((Zpos (XO (XO
    (XI (XO (XI (XI XH))))))) :: ((Zpos (XI (XO (XI (XO (XO (XI
    XH))))))) :: ((Zpos (XO (XI (XO (XO (XI (XI
    XH))))))) :: [])))))))))))))))))) :: ((((Zpos (XO (XO (XI (XO (XI (XI
    XH))))))) :: ((Zpos (XO (XI (XO (XO (XI (XI XH))))))) :: ((Zpos (XI (XO
    (XO (XO (XO (XI XH))))))) :: ((Zpos (XO (XI (XI (XI (XO (XI
    XH))))))) :: ((Zpos (XI (XI (XO (XO (XI (XI XH))))))) :: ((Zpos (XO (XI
    (XI (XO (XO (XI XH))))))) :: ((Zpos (XI (XI (XI (XI (XO (XI
    XH))))))) :: ((Zpos (XO (XI (XO (XO (XI (XI XH))))))) :: ((Zpos (XI (XO
    (XI (XI (XO (XI XH))))))) :: ((Zpos (XI (XO (XI (XI (XO
    XH)))))) :: ((Zpos (XO (XO (XO (XO (XI (XI XH))))))) :: ((Zpos (XO (XI
    (XO (XO (XI (XI XH))))))) :: ((Zpos (XI (XI (XI (XI (XO (XI
    XH))))))) :: ((Zpos (XI (XO (XI (XI (XO (XI XH))))))) :: ((Zpos (XO (XO
    (XO (XO (XI (XI XH))))))) :: ((Zpos (XO (XO (XI (XO (XI (XI
    XH))))))) :: [])))))))))))))))), ((Zpos (XO (XO (XI (XO (XI (XI
    XH))))))) :: ((Zpos (XO (XI (XO (XO (XI (XI XH))))))) :: ((Zpos (XI (XO
    (XO (XO (XO (XI XH))))))) :: ((Zpos (XO (XI (XI (XI (XO (XI
    XH))))))) :: ((Zpos (XI (XI (XO (XO (XI (XI XH))))))) :: ((Zpos (XO (XI
    (XI (XO (XO (XI XH))))))) :: ((Zpos (XI (XI (XI (XI (XO (XI
    XH))))))) :: ((Zpos (XO (XI (XO (XO (XI (XI XH))))))) :: ((Zpos (XI (XO
    (XI (XI (XO (XI XH))))))) :: ((Zpos (XI (XO (XI (XI (XO
    XH)))))) :: ((Zpos (XO (XO (XO (XO (XI (XI XH))))))) :: ((Zpos (XO (XI
    (XO (XO (XI (XI XH))))))) :: ((Zpos (XI (XI (XI (XI (XO (XI
    XH))))))) :: ((Zpos (XI (XO (XI (XI (XO (XI XH))))))) :: ((Zpos (XO (XO
    (XO (XO (XI (XI XH))))))) :: ((Zpos (XO (XO (XI (XO (XI (XI
    XH))))))) :: []))))))))))))))))) :: ((((Zpos (XO (XO (XI (XO (XI (XI
    XH))))))) :: ((Zpos (XO (XI (XO (XO (XI (XI XH))))))) :: ((Zpos (XI (XO
    (XO (XO (XO (XI XH))))))) :: ((Zpos (XO (XI (XI (XI (XO (XI
    XH))))))) :: ((Zpos (XI (XI (XO (XO (XI (XI XH))))))) :: ((Zpos (XO (XI
    (XI (XO (XO (XI XH))))))) :: ((Zpos (XI (XI (XI (XI (XO (XI
    XH))))))) :: ((Zpos (XO (XI (XO (XO (XI (XI XH))))))) :: ((Zpos (XI (XO
    (XI (XI (XO (XI XH))))))) :: ((Zpos (XI (XO (XI (XI (XO
    XH)))))) :: ((Zpos (XI (XO (XO (XO (XI (XI XH))))))) :: ((Zpos (XI (XO
    (XI (XO (XI (XI XH))))))) :: ((Zpos (XI (XO (XI (XO (XO (XI
    XH))))))) :: ((Zpos (XO (XI (XO (XO (XI (XI XH))))))) :: ((Zpos (XI (XO
    (XO (XI (XI (XI XH))))))) :: []))))))))))))))), ((Zpos (XO (XO (XI (XO
    (XI (XI XH))))))) :: ((Zpos (XO (XI (XO (XO (XI (XI XH))))))) :: ((Zpos
    (XI (XO (XO (XO (XO (XI XH))))))) :: ((Zpos (XO (XI (XI (XI (XO (XI
    XH))))))) :: ((Zpos (XI (XI (XO (XO (XI (XI XH))))))) :: ((Zpos (XO (XI
    (XI (XO (XO (XI XH))))))) :: ((Zpos (XI (XI (XI (XI (XO (XI
    XH))))))) :: ((Zpos (XO (XI (XO (XO (XI (XI XH))))))) :: ((Zpos (XI (XO
    (XI (XI (XO (XI XH))))))) :: ((Zpos (XI (XO (XI (XI (XO
    XH)))))) :: ((Zpos (XI (XO (XO (XO (XI (XI XH))))))) :: ((Zpos (XI (XO
    (XI (XO (XI (XI XH))))))) :: ((Zpos (XI (XO (XI (XO (XO (XI
    XH))))))) :: ((Zpos (XO (XI (XO (XO (XI (XI XH))))))) :: ((Zpos (XI (XO
    (XO (XI (XI (XI XH))))))) :: [])))))))))))))))) :: ((((Zpos (XO (XO (XI
    (XO (XI (XI XH))))))) :: ((Zpos (XO (XI (XO (XO (XI (XI
    XH))))))) :: ((Zpos (XI (XO (XO (XO (XO (XI XH))))))) :: ((Zpos (XO (XI
    (XI (XI (XO (XI XH))))))) :: ((Zpos (XI (XI (XO (XO (XI (XI
    XH))))))) :: ((Zpos (XO (XI (XI (XO (XO (XI XH))))))) :: ((Zpos (XI (XI
    (XI (XI (XO (XI XH))))))) :: ((Zpos (XO (XI (XO (XO (XI (XI
    XH))))))) :: ((Zpos (XI (XO (XI (XI (XO (XI XH))))))) :: ((Zpos (XI (XO
    (XI (XI (XO XH)))))) :: ((Zpos (XI (XI (XO (XO (XI (XI
    XH))))))) :: ((Zpos (XI (XO (XI (XO (XO (XI XH))))))) :: ((Zpos (XI (XO
    (XO (XO (XO (XI XH))))))) :: ((Zpos (XO (XI (XO (XO (XI (XI
    XH))))))) :: ((Zpos (XI (XI (XO (XO (XO (XI XH))))))) :: ((Zpos (XO (XO
    (XO (XI (XO (XI XH))))))) :: [])))))))))))))))), ((Zpos (XO (XO (XI (XO
    (XI (XI XH))))))) :: ((Zpos (XO (XI (XO (XO (XI (XI XH))))))) :: ((Zpos
    (XI (XO (XO (XO (XO (XI XH))))))) :: ((Zpos (XO (XI (XI (XI (XO (XI
    XH))))))) :: ((Zpos (XI (XI (XO (XO (XI (XI XH))))))) :: ((Zpos (XO (XI
    (XI (XO (XO (XI XH))))))) :: ((Zpos (XI (XI (XI (XI (XO (XI
    XH))))))) :: ((Zpos (XO (XI (XO (XO (XI (XI XH))))))) :: ((Zpos (XI (XO
    (XI (XI (XO (XI XH))))))) :: ((Zpos (XI (XO (XI (XI (XO
    XH)))))) :: ((Zpos (XI (XI (XO (XO (XI (XI XH))))))) :: ((Zpos (XI (XO
    (XI (XO (XO (XI XH))))))) :: ((Zpos (XI (XO (XO (XO (XO (XI
    XH))))))) :: ((Zpos (XO (XI (XO (XO (XI (XI XH))))))) :: ((Zpos (XI (XI
    (XO (XO (XO (XI XH))))))) :: ((Zpos (XO (XO (XO (XI (XO (XI
    XH))))))) :: []))))))))))))))))) :: ((((Zpos (XI (XI (XO (XO (XI (XI
    XH))))))) :: ((Zpos (XI (XO (XI (XO (XO (XI XH))))))) :: ((Zpos (XI (XO
    (XO (XO (XO (XI XH))))))) :: ((Zpos (XO (XI (XO (XO (XI (XI
    XH))))))) :: ((Zpos (XI (XI (XO (XO (XO (XI XH))))))) :: ((Zpos (XO (XO
    (XO (XI (XO (XI XH))))))) :: [])))))), ((Zpos (XI (XI (XO (XO (XI (XI
    XH))))))) :: ((Zpos (XI (XO (XI (XO (XO (XI XH))))))) :: ((Zpos (XI (XO
    (XO (XO (XO (XI XH))))))) :: ((Zpos (XO (XI (XO (XO (XI (XI
    XH))))))) :: ((Zpos (XI (XI (XO (XO (XO (XI XH))))))) :: ((Zpos (XO (XO
    (XO (XI (XO (XI
    XH))))))) :: []))))))) :: []))))))))))))))))))))))))))))))))))))))))

(** val checked_arg_actions : str list **)

let checked_arg_actions =
  ((Zpos (XI (XO (XI (XO (XI (XI XH))))))) :: ((Zpos (XO (XI (XI (XI (XO (XI
    XH))))))) :: ((Zpos (XO (XI (XO (XO (XO (XI XH))))))) :: ((Zpos (XI (XO
    (XO (XI (XO (XI XH))))))) :: ((Zpos (XO (XI (XI (XI (XO (XI
    XH))))))) :: ((Zpos (XO (XO (XI (XO (XO (XI
    XH))))))) :: [])))))) :: (((Zpos (XO (XI (XO (XO (XI (XI
    XH))))))) :: ((Zpos (XI (XO (XI (XO (XO (XI XH))))))) :: ((Zpos (XO (XI
    (XO (XO (XO (XI XH))))))) :: ((Zpos (XI (XO (XO (XI (XO (XI
    XH))))))) :: ((Zpos (XO (XI (XI (XI (XO (XI XH))))))) :: ((Zpos (XO (XO
    (XI (XO (XO (XI XH))))))) :: [])))))) :: (((Zpos (XO (XO (XI (XO (XI (XI
    XH))))))) :: ((Zpos (XI (XI (XI (XI (XO (XI XH))))))) :: ((Zpos (XI (XI
    (XI (XO (XO (XI XH))))))) :: ((Zpos (XI (XI (XI (XO (XO (XI
    XH))))))) :: ((Zpos (XO (XO (XI (XI (XO (XI XH))))))) :: ((Zpos (XI (XO
    (XI (XO (XO (XI XH))))))) :: ((Zpos (XI (XO (XI (XI (XO
    XH)))))) :: ((Zpos (XO (XI (XO (XO (XO (XI XH))))))) :: ((Zpos (XI (XO
    (XO (XI (XO (XI XH))))))) :: ((Zpos (XO (XI (XI (XI (XO (XI
    XH))))))) :: ((Zpos (XO (XO (XI (XO (XO (XI
    XH))))))) :: []))))))))))) :: (((Zpos (XI (XI (XO (XO (XO (XI
    XH))))))) :: ((Zpos (XO (XO (XO (XI (XO (XI XH))))))) :: ((Zpos (XI (XO
    (XO (XO (XO (XI XH))))))) :: ((Zpos (XO (XI (XI (XI (XO (XI
    XH))))))) :: ((Zpos (XI (XI (XI (XO (XO (XI XH))))))) :: ((Zpos (XI (XO
    (XI (XO (XO (XI XH))))))) :: ((Zpos (XI (XO (XI (XI (XO
    XH)))))) :: ((Zpos (XO (XO (XO (XO (XI (XI XH))))))) :: ((Zpos (XO (XI
    (XO (XO (XI (XI XH))))))) :: ((Zpos (XI (XO (XI (XO (XO (XI
    XH))))))) :: ((Zpos (XO (XI (XI (XO (XI (XI XH))))))) :: ((Zpos (XI (XO
    (XO (XI (XO (XI XH))))))) :: ((Zpos (XI (XO (XI (XO (XO (XI
    XH))))))) :: ((Zpos (XI (XI (XI (XO (XI (XI XH))))))) :: ((Zpos (XI (XO
    (XI (XI (XO XH)))))) :: ((Zpos (XI (XI (XI (XO (XI (XI
    XH))))))) :: ((Zpos (XI (XO (XO (XI (XO (XI XH))))))) :: ((Zpos (XO (XI
    (XI (XI (XO (XI XH))))))) :: ((Zpos (XO (XO (XI (XO (XO (XI
    XH))))))) :: ((Zpos (XI (XI (XI (XI (XO (XI XH))))))) :: ((Zpos (XI (XI
    (XI (XO (XI (XI XH))))))) :: []))))))))))))))))))))) :: [])))

(** val mem_str : str -> str list -> bool **)

let rec mem_str s = function
| [] -> false
| x :: r -> (||) (str_eqb s x) (mem_str s r)

type aform =
| FPair of z * z
| FColon

(** val closer_of : z -> z option **)

let closer_of c =
  if Z.eqb c (Zpos (XO (XO (XO (XI (XO XH))))))
  then Some (Zpos (XI (XO (XO (XI (XO XH))))))
  else if Z.eqb c (Zpos (XI (XI (XO (XI (XI (XI XH)))))))
       then Some (Zpos (XI (XO (XI (XI (XI (XI XH)))))))
       else if Z.eqb c (Zpos (XI (XI (XO (XI (XI (XO XH)))))))
            then Some (Zpos (XI (XO (XI (XI (XI (XO XH)))))))
            else if Z.eqb c (Zpos (XO (XO (XI (XI (XI XH))))))
                 then Some (Zpos (XO (XI (XI (XI (XI XH))))))
                 else if (||)
                           ((||)
                             ((||)
                               ((||)
                                 ((||)
                                   ((||)
                                     ((||)
                                       ((||)
                                         ((||)
                                           ((||)
                                             ((||)
                                               (Z.eqb c (Zpos (XO (XI (XI (XI
                                                 (XI (XI XH))))))))
                                               (Z.eqb c (Zpos (XI (XO (XO (XO
                                                 (XO XH))))))))
                                             (Z.eqb c (Zpos (XO (XO (XO (XO
                                               (XO (XO XH)))))))))
                                           (Z.eqb c (Zpos (XI (XI (XO (XO (XO
                                             XH))))))))
                                         (Z.eqb c (Zpos (XO (XO (XI (XO (XO
                                           XH))))))))
                                       (Z.eqb c (Zpos (XI (XO (XI (XO (XO
                                         XH))))))))
                                     (Z.eqb c (Zpos (XO (XI (XI (XI (XI (XO
                                       XH)))))))))
                                   (Z.eqb c (Zpos (XO (XI (XI (XO (XO
                                     XH))))))))
                                 (Z.eqb c (Zpos (XO (XI (XO (XI (XO XH))))))))
                               (Z.eqb c (Zpos (XI (XI (XO (XI (XI XH))))))))
                             (Z.eqb c (Zpos (XI (XI (XI (XI (XO XH))))))))
                           (Z.eqb c (Zpos (XO (XO (XI (XI (XI (XI XH))))))))
                      then Some c
                      else None

(** val form_ok : aform -> bool **)

let form_ok = function
| FPair (o, c) ->
  (match closer_of o with
   | Some c' -> Z.eqb c c'
   | None -> false)
| FColon -> true

type act =
| ASimple of str
| AArg of str * aform * str

type bpair = str list * act list

type bind0 = bpair list

(** val join : z -> str list -> str **)

let rec join sep0 = function
| [] -> []
| x :: r -> (match r with
             | [] -> x
             | _ :: _ -> app x (sep0 :: (join sep0 r)))

(** val render_act : act -> str **)

let render_act = function
| ASimple n -> n
| AArg (n, f, arg0) ->
  (match f with
   | FPair (o, c) -> app n (o :: (app arg0 (c :: [])))
   | FColon -> app n (cOLON :: arg0))

(** val render_pair : bpair -> str **)

let render_pair p =
  app (join cOMMA (fst p)) (cOLON :: (join pLUS (map render_act (snd p))))

(** val render : bind0 -> str **)

let render bd =
  join cOMMA (map render_pair bd)

(** val arg_free : z -> str -> bool **)

let rec arg_free c = function
| [] -> true
| x :: r ->
  (&&)
    (negb
      ((&&) (Z.eqb x c)
        (match r with
         | [] -> false
         | y :: _ -> (||) (Z.eqb y pLUS) (Z.eqb y cOMMA)))) (arg_free c r)

(** val key_spelling_ok : str -> bool **)

let key_spelling_ok k =
  (&&) ((&&) (nonemptyb k) (forallb (fun c -> negb (is_sep c)) k))
    (match key_of_token k with
     | Some _ -> true
     | None -> false)

(** val act_ok : bool -> act -> bool **)

let act_ok last0 = function
| ASimple n ->
  (match assoc_str n simple_actions with
   | Some _ -> true
   | None -> false)
| AArg (n, f, arg0) ->
  (&&)
    ((&&)
      ((&&)
        (match assoc_str n arg_actions with
         | Some _ -> true
         | None -> false) (negb (mem_str n checked_arg_actions))) (form_ok f))
    (match f with
     | FPair (_, c) -> arg_free c arg0
     | FColon -> last0)

(** val acts_ok : bool -> act list -> bool **)

let rec acts_ok last0 = function
| [] -> true
| a :: r ->
  (match r with
   | [] -> act_ok last0 a
   | _ :: _ -> (&&) (act_ok false a) (acts_ok last0 r))

(** val pair_ok : bool -> bpair -> bool **)

let pair_ok last0 p =
  (&&)
    ((&&) ((&&) (nonemptyb (fst p)) (forallb key_spelling_ok (fst p)))
      (nonemptyb (snd p))) (acts_ok last0 (snd p))

(** val wf_bind : bind0 -> bool **)

let rec wf_bind = function
| [] -> false
| p :: r ->
  (match r with
   | [] -> pair_ok true p
   | _ :: _ -> (&&) (pair_ok false p) (wf_bind r))

type keymap = (key * action list) list

(** val km_get : keymap -> key -> action list **)

let rec km_get m k =
  match m with
  | [] -> []
  | p :: r -> let (k', v) = p in if key_eqb k k' then v else km_get r k

(** val km_set : keymap -> key -> action list -> keymap **)

let rec km_set m k v =
  match m with
  | [] -> (k, v) :: []
  | p :: r ->
    let (k', v') = p in
    if key_eqb k k' then (k', v) :: r else (k', v') :: (km_set r k v)

(** val act_denote : act -> action list **)

let act_denote = function
| ASimple n ->
  (match assoc_str n simple_actions with
   | Some cs -> map (fun c -> (c, [])) cs
   | None -> [])
| AArg (n, _, arg0) ->
  (match assoc_str n arg_actions with
   | Some c -> (c, arg0) :: []
   | None -> [])

(** val acts_denote : act list -> action list **)

let acts_denote l =
  flat_map act_denote l

(** val key_denote : str -> key **)

let key_denote k =
  match key_of_token k with
  | Some x -> x
  | None -> KRune Z0

(** val pair_denote : keymap -> bpair -> keymap **)

let pair_denote m p =
  fold_left (fun m0 k -> km_set m0 (key_denote k) (acts_denote (snd p)))
    (fst p) m

(** val denote : keymap -> bind0 -> keymap **)

let denote m bd =
  fold_left pair_denote bd m

type 'a outcome =
| Good of 'a
| Bad of z

(** val e_KEY_REQUIRED : z **)

let e_KEY_REQUIRED =
  Zpos XH

(** val e_UNSUPPORTED_KEY : z **)

let e_UNSUPPORTED_KEY =
  Zpos (XO XH)

(** val e_UNKNOWN_ACTION : z **)

let e_UNKNOWN_ACTION =
  Zpos (XI XH)

(** val e_PUT : z **)

let e_PUT =
  Zpos (XO (XO XH))

(** val e_NO_ACTION : z **)

let e_NO_ACTION =
  Zpos (XI (XO XH))

(** val exec_names : str list **)

let exec_names =
  ((Zpos (XO (XI (XO (XO (XO (XI XH))))))) :: ((Zpos (XI (XO (XI (XO (XO (XI
    XH))))))) :: ((Zpos (XI (XI (XO (XO (XO (XI XH))))))) :: ((Zpos (XI (XI
    (XI (XI (XO (XI XH))))))) :: ((Zpos (XI (XO (XI (XI (XO (XI
    XH))))))) :: ((Zpos (XI (XO (XI (XO (XO (XI
    XH))))))) :: [])))))) :: (((Zpos (XI (XO (XI (XO (XO (XI
    XH))))))) :: ((Zpos (XO (XO (XO (XI (XI (XI XH))))))) :: ((Zpos (XI (XO
    (XI (XO (XO (XI XH))))))) :: ((Zpos (XI (XI (XO (XO (XO (XI
    XH))))))) :: ((Zpos (XI (XO (XI (XO (XI (XI XH))))))) :: ((Zpos (XO (XO
    (XI (XO (XI (XI XH))))))) :: ((Zpos (XI (XO (XI (XO (XO (XI
    XH))))))) :: ((Zpos (XI (XO (XI (XI (XO XH)))))) :: ((Zpos (XI (XO (XI
    (XI (XO (XI XH))))))) :: ((Zpos (XI (XO (XI (XO (XI (XI
    XH))))))) :: ((Zpos (XO (XO (XI (XI (XO (XI XH))))))) :: ((Zpos (XO (XO
    (XI (XO (XI (XI XH))))))) :: ((Zpos (XI (XO (XO (XI (XO (XI
    XH))))))) :: []))))))))))))) :: (((Zpos (XI (XO (XI (XO (XO (XI
    XH))))))) :: ((Zpos (XO (XO (XO (XI (XI (XI XH))))))) :: ((Zpos (XI (XO
    (XI (XO (XO (XI XH))))))) :: ((Zpos (XI (XI (XO (XO (XO (XI
    XH))))))) :: ((Zpos (XI (XO (XI (XO (XI (XI XH))))))) :: ((Zpos (XO (XO
    (XI (XO (XI (XI XH))))))) :: ((Zpos (XI (XO (XI (XO (XO (XI
    XH))))))) :: ((Zpos (XI (XO (XI (XI (XO XH)))))) :: ((Zpos (XI (XI (XO
    (XO (XI (XI XH))))))) :: ((Zpos (XI (XO (XO (XI (XO (XI
    XH))))))) :: ((Zpos (XO (XO (XI (XI (XO (XI XH))))))) :: ((Zpos (XI (XO
    (XI (XO (XO (XI XH))))))) :: ((Zpos (XO (XI (XI (XI (XO (XI
    XH))))))) :: ((Zpos (XO (XO (XI (XO (XI (XI
    XH))))))) :: [])))))))))))))) :: (((Zpos (XI (XO (XI (XO (XO (XI
    XH))))))) :: ((Zpos (XO (XO (XO (XI (XI (XI XH))))))) :: ((Zpos (XI (XO
    (XI (XO (XO (XI XH))))))) :: ((Zpos (XI (XI (XO (XO (XO (XI
    XH))))))) :: ((Zpos (XI (XO (XI (XO (XI (XI XH))))))) :: ((Zpos (XO (XO
    (XI (XO (XI (XI XH))))))) :: ((Zpos (XI (XO (XI (XO (XO (XI
    XH))))))) :: []))))))) :: (((Zpos (XO (XI (XO (XO (XI (XI
    XH))))))) :: ((Zpos (XI (XO (XI (XO (XO (XI XH))))))) :: ((Zpos (XO (XO
    (XI (XI (XO (XI XH))))))) :: ((Zpos (XI (XI (XI (XI (XO (XI
    XH))))))) :: ((Zpos (XI (XO (XO (XO (XO (XI XH))))))) :: ((Zpos (XO (XO
    (XI (XO (XO (XI XH))))))) :: ((Zpos (XI (XO (XI (XI (XO
    XH)))))) :: ((Zpos (XI (XI (XO (XO (XI (XI XH))))))) :: ((Zpos (XI (XO
    (XO (XI (XI (XI XH))))))) :: ((Zpos (XO (XI (XI (XI (XO (XI
    XH))))))) :: ((Zpos (XI (XI (XO (XO (XO (XI
    XH))))))) :: []))))))))))) :: (((Zpos (XO (XI (XO (XO (XI (XI
    XH))))))) :: ((Zpos (XI (XO (XI (XO (XO (XI XH))))))) :: ((Zpos (XO (XO
    (XI (XI (XO (XI XH))))))) :: ((Zpos (XI (XI (XI (XI (XO (XI
    XH))))))) :: ((Zpos (XI (XO (XO (XO (XO (XI XH))))))) :: ((Zpos (XO (XO
    (XI (XO (XO (XI XH))))))) :: [])))))) :: (((Zpos (XO (XO (XO (XO (XI (XI
    XH))))))) :: ((Zpos (XO (XI (XO (XO (XI (XI XH))))))) :: ((Zpos (XI (XO
    (XI (XO (XO (XI XH))))))) :: ((Zpos (XO (XI (XI (XO (XI (XI
    XH))))))) :: ((Zpos (XI (XO (XO (XI (XO (XI XH))))))) :: ((Zpos (XI (XO
    (XI (XO (XO (XI XH))))))) :: ((Zpos (XI (XI (XI (XO (XI (XI
    XH))))))) :: []))))))) :: (((Zpos (XI (XI (XO (XO (XO (XI
    XH))))))) :: ((Zpos (XO (XO (XO (XI (XO (XI XH))))))) :: ((Zpos (XI (XO
    (XO (XO (XO (XI XH))))))) :: ((Zpos (XO (XI (XI (XI (XO (XI
    XH))))))) :: ((Zpos (XI (XI (XI (XO (XO (XI XH))))))) :: ((Zpos (XI (XO
    (XI (XO (XO (XI XH))))))) :: ((Zpos (XI (XO (XI (XI (XO
    XH)))))) :: ((Zpos (XI (XO (XO (XO (XI (XI XH))))))) :: ((Zpos (XI (XO
    (XI (XO (XI (XI XH))))))) :: ((Zpos (XI (XO (XI (XO (XO (XI
    XH))))))) :: ((Zpos (XO (XI (XO (XO (XI (XI XH))))))) :: ((Zpos (XI (XO
    (XO (XI (XI (XI XH))))))) :: [])))))))))))) :: (((Zpos (XI (XI (XO (XO
    (XO (XI XH))))))) :: ((Zpos (XO (XO (XO (XI (XO (XI XH))))))) :: ((Zpos
    (XI (XO (XO (XO (XO (XI XH))))))) :: ((Zpos (XO (XI (XI (XI (XO (XI
    XH))))))) :: ((Zpos (XI (XI (XI (XO (XO (XI XH))))))) :: ((Zpos (XI (XO
    (XI (XO (XO (XI XH))))))) :: ((Zpos (XI (XO (XI (XI (XO
    XH)))))) :: ((Zpos (XO (XO (XO (XO (XI (XI XH))))))) :: ((Zpos (XO (XI
    (XO (XO (XI (XI XH))))))) :: ((Zpos (XI (XI (XI (XI (XO (XI
    XH))))))) :: ((Zpos (XI (XO (XI (XI (XO (XI XH))))))) :: ((Zpos (XO (XO
    (XO (XO (XI (XI XH))))))) :: ((Zpos (XO (XO (XI (XO (XI (XI
    XH))))))) :: []))))))))))))) :: (((Zpos (XI (XI (XO (XO (XO (XI
    XH))))))) :: ((Zpos (XO (XO (XO (XI (XO (XI XH))))))) :: ((Zpos (XI (XO
    (XO (XO (XO (XI XH))))))) :: ((Zpos (XO (XI (XI (XI (XO (XI
    XH))))))) :: ((Zpos (XI (XI (XI (XO (XO (XI XH))))))) :: ((Zpos (XI (XO
    (XI (XO (XO (XI XH))))))) :: ((Zpos (XI (XO (XI (XI (XO
    XH)))))) :: ((Zpos (XO (XI (XO (XO (XO (XI XH))))))) :: ((Zpos (XI (XI
    (XI (XI (XO (XI XH))))))) :: ((Zpos (XO (XI (XO (XO (XI (XI
    XH))))))) :: ((Zpos (XO (XO (XI (XO (XO (XI XH))))))) :: ((Zpos (XI (XO
    (XI (XO (XO (XI XH))))))) :: ((Zpos (XO (XI (XO (XO (XI (XI
    XH))))))) :: ((Zpos (XI (XO (XI (XI (XO XH)))))) :: ((Zpos (XO (XO (XI
    (XI (XO (XI XH))))))) :: ((Zpos (XI (XO (XO (XO (XO (XI
    XH))))))) :: ((Zpos (XO (XI (XO (XO (XO (XI XH))))))) :: ((Zpos (XI (XO
    (XI (XO (XO (XI XH))))))) :: ((Zpos (XO (XO (XI (XI (XO (XI
    XH))))))) :: []))))))))))))))))))) :: (((Zpos (XI (XI (XO (XO (XO (XI
    XH))))))) :: ((Zpos (XO (XO (XO (XI (XO (XI XH))))))) :: ((Zpos (XI (XO
    (XO (XO (XO (XI XH))))))) :: ((Zpos (XO (XI (XI (XI (XO (XI
    XH))))))) :: ((Zpos (XI (XI (XI (XO (XO (XI XH))))))) :: ((Zpos (XI (XO
    (XI (XO (XO (XI XH))))))) :: ((Zpos (XI (XO (XI (XI (XO
    XH)))))) :: ((Zpos (XO (XO (XI (XI (XO (XI XH))))))) :: ((Zpos (XI (XO
    (XO (XI (XO (XI XH))))))) :: ((Zpos (XI (XI (XO (XO (XI (XI
    XH))))))) :: ((Zpos (XO (XO (XI (XO (XI (XI XH))))))) :: ((Zpos (XI (XO
    (XI (XI (XO XH)))))) :: ((Zpos (XO (XO (XI (XI (XO (XI
    XH))))))) :: ((Zpos (XI (XO (XO (XO (XO (XI XH))))))) :: ((Zpos (XO (XI
    (XO (XO (XO (XI XH))))))) :: ((Zpos (XI (XO (XI (XO (XO (XI
    XH))))))) :: ((Zpos (XO (XO (XI (XI (XO (XI
    XH))))))) :: []))))))))))))))))) :: (((Zpos (XI (XI (XO (XO (XO (XI
    XH))))))) :: ((Zpos (XO (XO (XO (XI (XO (XI XH))))))) :: ((Zpos (XI (XO
    (XO (XO (XO (XI XH))))))) :: ((Zpos (XO (XI (XI (XI (XO (XI
    XH))))))) :: ((Zpos (XI (XI (XI (XO (XO (XI XH))))))) :: ((Zpos (XI (XO
    (XI (XO (XO (XI XH))))))) :: ((Zpos (XI (XO (XI (XI (XO
    XH)))))) :: ((Zpos (XO (XO (XO (XO (XI (XI XH))))))) :: ((Zpos (XO (XI
    (XO (XO (XI (XI XH))))))) :: ((Zpos (XI (XO (XI (XO (XO (XI
    XH))))))) :: ((Zpos (XO (XI (XI (XO (XI (XI XH))))))) :: ((Zpos (XI (XO
    (XO (XI (XO (XI XH))))))) :: ((Zpos (XI (XO (XI (XO (XO (XI
    XH))))))) :: ((Zpos (XI (XI (XI (XO (XI (XI XH))))))) :: ((Zpos (XI (XO
    (XI (XI (XO XH)))))) :: ((Zpos (XO (XO (XI (XI (XO (XI
    XH))))))) :: ((Zpos (XI (XO (XO (XO (XO (XI XH))))))) :: ((Zpos (XO (XI
    (XO (XO (XO (XI XH))))))) :: ((Zpos (XI (XO (XI (XO (XO (XI
    XH))))))) :: ((Zpos (XO (XO (XI (XI (XO (XI
    XH))))))) :: [])))))))))))))))))))) :: (((Zpos (XI (XI (XO (XO (XO (XI
    XH))))))) :: ((Zpos (XO (XO (XO (XI (XO (XI XH))))))) :: ((Zpos (XI (XO
    (XO (XO (XO (XI XH))))))) :: ((Zpos (XO (XI (XI (XI (XO (XI
    XH))))))) :: ((Zpos (XI (XI (XI (XO (XO (XI XH))))))) :: ((Zpos (XI (XO
    (XI (XO (XO (XI XH))))))) :: ((Zpos (XI (XO (XI (XI (XO
    XH)))))) :: ((Zpos (XI (XO (XO (XI (XO (XI XH))))))) :: ((Zpos (XO (XI
    (XI (XI (XO (XI XH))))))) :: ((Zpos (XO (XO (XO (XO (XI (XI
    XH))))))) :: ((Zpos (XI (XO (XI (XO (XI (XI XH))))))) :: ((Zpos (XO (XO
    (XI (XO (XI (XI XH))))))) :: ((Zpos (XI (XO (XI (XI (XO
    XH)))))) :: ((Zpos (XO (XO (XI (XI (XO (XI XH))))))) :: ((Zpos (XI (XO
    (XO (XO (XO (XI XH))))))) :: ((Zpos (XO (XI (XO (XO (XO (XI
    XH))))))) :: ((Zpos (XI (XO (XI (XO (XO (XI XH))))))) :: ((Zpos (XO (XO
    (XI (XI (XO (XI XH))))))) :: [])))))))))))))))))) :: (((Zpos (XI (XI (XO
    (XO (XO (XI XH))))))) :: ((Zpos (XO (XO (XO (XI (XO (XI
    XH))))))) :: ((Zpos (XI (XO (XO (XO (XO (XI XH))))))) :: ((Zpos (XO (XI
    (XI (XI (XO (XI XH))))))) :: ((Zpos (XI (XI (XI (XO (XO (XI
    XH))))))) :: ((Zpos (XI (XO (XI (XO (XO (XI XH))))))) :: ((Zpos (XI (XO
    (XI (XI (XO XH)))))) :: ((Zpos (XO (XO (XO (XI (XO (XI
    XH))))))) :: ((Zpos (XI (XO (XI (XO (XO (XI XH))))))) :: ((Zpos (XI (XO
    (XO (XO (XO (XI XH))))))) :: ((Zpos (XO (XO (XI (XO (XO (XI
    XH))))))) :: ((Zpos (XI (XO (XI (XO (XO (XI XH))))))) :: ((Zpos (XO (XI
    (XO (XO (XI (XI XH))))))) :: ((Zpos (XI (XO (XI (XI (XO
    XH)))))) :: ((Zpos (XO (XO (XI (XI (XO (XI XH))))))) :: ((Zpos (XI (XO
    (XO (XO (XO (XI XH))))))) :: ((Zpos (XO (XI (XO (XO (XO (XI
    XH))))))) :: ((Zpos (XI (XO (XI (XO (XO (XI XH))))))) :: ((Zpos (XO (XO
    (XI (XI (XO (XI XH))))))) :: []))))))))))))))))))) :: (((Zpos (XI (XI (XO
    (XO (XO (XI XH))))))) :: ((Zpos (XO (XO (XO (XI (XO (XI
    XH))))))) :: ((Zpos (XI (XO (XO (XO (XO (XI XH))))))) :: ((Zpos (XO (XI
    (XI (XI (XO (XI XH))))))) :: ((Zpos (XI (XI (XI (XO (XO (XI
    XH))))))) :: ((Zpos (XI (XO (XI (XO (XO (XI XH))))))) :: ((Zpos (XI (XO
    (XI (XI (XO XH)))))) :: ((Zpos (XO (XO (XO (XI (XO (XI
    XH))))))) :: ((Zpos (XI (XO (XI (XO (XO (XI XH))))))) :: ((Zpos (XI (XO
    (XO (XO (XO (XI XH))))))) :: ((Zpos (XO (XO (XI (XO (XO (XI
    XH))))))) :: ((Zpos (XI (XO (XI (XO (XO (XI XH))))))) :: ((Zpos (XO (XI
    (XO (XO (XI (XI XH))))))) :: []))))))))))))) :: (((Zpos (XI (XI (XO (XO
    (XO (XI XH))))))) :: ((Zpos (XO (XO (XO (XI (XO (XI XH))))))) :: ((Zpos
    (XI (XO (XO (XO (XO (XI XH))))))) :: ((Zpos (XO (XI (XI (XI (XO (XI
    XH))))))) :: ((Zpos (XI (XI (XI (XO (XO (XI XH))))))) :: ((Zpos (XI (XO
    (XI (XO (XO (XI XH))))))) :: ((Zpos (XI (XO (XI (XI (XO
    XH)))))) :: ((Zpos (XI (XI (XO (XO (XI (XI XH))))))) :: ((Zpos (XI (XO
    (XI (XO (XO (XI XH))))))) :: ((Zpos (XI (XO (XO (XO (XO (XI
    XH))))))) :: ((Zpos (XO (XI (XO (XO (XI (XI XH))))))) :: ((Zpos (XI (XI
    (XO (XO (XO (XI XH))))))) :: ((Zpos (XO (XO (XO (XI (XO (XI
    XH))))))) :: []))))))))))))) :: (((Zpos (XI (XI (XO (XO (XO (XI
    XH))))))) :: ((Zpos (XO (XO (XO (XI (XO (XI XH))))))) :: ((Zpos (XI (XO
    (XO (XO (XO (XI XH))))))) :: ((Zpos (XO (XI (XI (XI (XO (XI
    XH))))))) :: ((Zpos (XI (XI (XI (XO (XO (XI XH))))))) :: ((Zpos (XI (XO
    (XI (XO (XO (XI XH))))))) :: ((Zpos (XI (XO (XI (XI (XO
    XH)))))) :: ((Zpos (XO (XI (XI (XI (XO (XI XH))))))) :: ((Zpos (XO (XO
    (XI (XO (XI (XI XH))))))) :: ((Zpos (XO (XO (XO (XI (XO (XI
    XH))))))) :: [])))))))))) :: (((Zpos (XI (XI (XO (XO (XO (XI
    XH))))))) :: ((Zpos (XO (XO (XO (XI (XO (XI XH))))))) :: ((Zpos (XI (XO
    (XO (XO (XO (XI XH))))))) :: ((Zpos (XO (XI (XI (XI (XO (XI
    XH))))))) :: ((Zpos (XI (XI (XI (XO (XO (XI XH))))))) :: ((Zpos (XI (XO
    (XI (XO (XO (XI XH))))))) :: ((Zpos (XI (XO (XI (XI (XO
    XH)))))) :: ((Zpos (XO (XO (XO (XO (XI (XI XH))))))) :: ((Zpos (XI (XI
    (XI (XI (XO (XI XH))))))) :: ((Zpos (XI (XO (XO (XI (XO (XI
    XH))))))) :: ((Zpos (XO (XI (XI (XI (XO (XI XH))))))) :: ((Zpos (XO (XO
    (XI (XO (XI (XI XH))))))) :: ((Zpos (XI (XO (XI (XO (XO (XI
    XH))))))) :: ((Zpos (XO (XI (XO (XO (XI (XI
    XH))))))) :: [])))))))))))))) :: (((Zpos (XI (XI (XO (XO (XO (XI
    XH))))))) :: ((Zpos (XO (XO (XO (XI (XO (XI XH))))))) :: ((Zpos (XI (XO
    (XO (XO (XO (XI XH))))))) :: ((Zpos (XO (XI (XI (XI (XO (XI
    XH))))))) :: ((Zpos (XI (XI (XI (XO (XO (XI XH))))))) :: ((Zpos (XI (XO
    (XI (XO (XO (XI XH))))))) :: ((Zpos (XI (XO (XI (XI (XO
    XH)))))) :: ((Zpos (XI (XI (XI (XO (XO (XI XH))))))) :: ((Zpos (XO (XO
    (XO (XI (XO (XI XH))))))) :: ((Zpos (XI (XI (XI (XI (XO (XI
    XH))))))) :: ((Zpos (XI (XI (XO (XO (XI (XI XH))))))) :: ((Zpos (XO (XO
    (XI (XO (XI (XI XH))))))) :: [])))))))))))) :: (((Zpos (XO (XO (XI (XO
    (XI (XI XH))))))) :: ((Zpos (XO (XI (XO (XO (XI (XI XH))))))) :: ((Zpos
    (XI (XO (XO (XO (XO (XI XH))))))) :: ((Zpos (XO (XI (XI (XI (XO (XI
    XH))))))) :: ((Zpos (XI (XI (XO (XO (XI (XI XH))))))) :: ((Zpos (XO (XI
    (XI (XO (XO (XI XH))))))) :: ((Zpos (XI (XI (XI (XI (XO (XI
    XH))))))) :: ((Zpos (XO (XI (XO (XO (XI (XI XH))))))) :: ((Zpos (XI (XO
    (XI (XI (XO (XI XH))))))) :: ((Zpos (XI (XO (XI (XI (XO
    XH)))))) :: ((Zpos (XI (XO (XO (XO (XI (XI XH))))))) :: ((Zpos (XI (XO
    (XI (XO (XI (XI XH))))))) :: ((Zpos (XI (XO (XI (XO (XO (XI
    XH))))))) :: ((Zpos (XO (XI (XO (XO (XI (XI XH))))))) :: ((Zpos (XI (XO
    (XO (XI (XI (XI XH))))))) :: []))))))))))))))) :: (((Zpos (XO (XO (XI (XO
    (XI (XI XH))))))) :: ((Zpos (XO (XI (XO (XO (XI (XI XH))))))) :: ((Zpos
    (XI (XO (XO (XO (XO (XI XH))))))) :: ((Zpos (XO (XI (XI (XI (XO (XI
    XH))))))) :: ((Zpos (XI (XI (XO (XO (XI (XI XH))))))) :: ((Zpos (XO (XI
    (XI (XO (XO (XI XH))))))) :: ((Zpos (XI (XI (XI (XI (XO (XI
    XH))))))) :: ((Zpos (XO (XI (XO (XO (XI (XI XH))))))) :: ((Zpos (XI (XO
    (XI (XI (XO (XI XH))))))) :: ((Zpos (XI (XO (XI (XI (XO
    XH)))))) :: ((Zpos (XO (XO (XO (XO (XI (XI XH))))))) :: ((Zpos (XO (XI
    (XO (XO (XI (XI XH))))))) :: ((Zpos (XI (XI (XI (XI (XO (XI
    XH))))))) :: ((Zpos (XI (XO (XI (XI (XO (XI XH))))))) :: ((Zpos (XO (XO
    (XO (XO (XI (XI XH))))))) :: ((Zpos (XO (XO (XI (XO (XI (XI
    XH))))))) :: [])))))))))))))))) :: (((Zpos (XO (XO (XI (XO (XI (XI
    XH))))))) :: ((Zpos (XO (XI (XO (XO (XI (XI XH))))))) :: ((Zpos (XI (XO
    (XO (XO (XO (XI XH))))))) :: ((Zpos (XO (XI (XI (XI (XO (XI
    XH))))))) :: ((Zpos (XI (XI (XO (XO (XI (XI XH))))))) :: ((Zpos (XO (XI
    (XI (XO (XO (XI XH))))))) :: ((Zpos (XI (XI (XI (XI (XO (XI
    XH))))))) :: ((Zpos (XO (XI (XO (XO (XI (XI XH))))))) :: ((Zpos (XI (XO
    (XI (XI (XO (XI XH))))))) :: ((Zpos (XI (XO (XI (XI (XO
    XH)))))) :: ((Zpos (XO (XI (XO (XO (XO (XI XH))))))) :: ((Zpos (XI (XI
    (XI (XI (XO (XI XH))))))) :: ((Zpos (XO (XI (XO (XO (XI (XI
    XH))))))) :: ((Zpos (XO (XO (XI (XO (XO (XI XH))))))) :: ((Zpos (XI (XO
    (XI (XO (XO (XI XH))))))) :: ((Zpos (XO (XI (XO (XO (XI (XI
    XH))))))) :: ((Zpos (XI (XO (XI (XI (XO XH)))))) :: ((Zpos (XO (XO (XI
    (XI (XO (XI XH))))))) :: ((Zpos (XI (XO (XO (XO (XO (XI
    XH))))))) :: ((Zpos (XO (XI (XO (XO (XO (XI XH))))))) :: ((Zpos (XI (XO
    (XI (XO (XO (XI XH))))))) :: ((Zpos (XO (XO (XI (XI (XO (XI
    XH))))))) :: [])))))))))))))))))))))) :: (((Zpos (XO (XO (XI (XO (XI (XI
    XH))))))) :: ((Zpos (XO (XI (XO (XO (XI (XI XH))))))) :: ((Zpos (XI (XO
    (XO (XO (XO (XI XH))))))) :: ((Zpos (XO (XI (XI (XI (XO (XI
    XH))))))) :: ((Zpos (XI (XI (XO (XO (XI (XI XH))))))) :: ((Zpos (XO (XI
    (XI (XO (XO (XI XH))))))) :: ((Zpos (XI (XI (XI (XI (XO (XI
    XH))))))) :: ((Zpos (XO (XI (XO (XO (XI (XI XH))))))) :: ((Zpos (XI (XO
    (XI (XI (XO (XI XH))))))) :: ((Zpos (XI (XO (XI (XI (XO
    XH)))))) :: ((Zpos (XO (XO (XI (XI (XO (XI XH))))))) :: ((Zpos (XI (XO
    (XO (XI (XO (XI XH))))))) :: ((Zpos (XI (XI (XO (XO (XI (XI
    XH))))))) :: ((Zpos (XO (XO (XI (XO (XI (XI XH))))))) :: ((Zpos (XI (XO
    (XI (XI (XO XH)))))) :: ((Zpos (XO (XO (XI (XI (XO (XI
    XH))))))) :: ((Zpos (XI (XO (XO (XO (XO (XI XH))))))) :: ((Zpos (XO (XI
    (XO (XO (XO (XI XH))))))) :: ((Zpos (XI (XO (XI (XO (XO (XI
    XH))))))) :: ((Zpos (XO (XO (XI (XI (XO (XI
    XH))))))) :: [])))))))))))))))))))) :: (((Zpos (XO (XO (XI (XO (XI (XI
    XH))))))) :: ((Zpos (XO (XI (XO (XO (XI (XI XH))))))) :: ((Zpos (XI (XO
    (XO (XO (XO (XI XH))))))) :: ((Zpos (XO (XI (XI (XI (XO (XI
    XH))))))) :: ((Zpos (XI (XI (XO (XO (XI (XI XH))))))) :: ((Zpos (XO (XI
    (XI (XO (XO (XI XH))))))) :: ((Zpos (XI (XI (XI (XI (XO (XI
    XH))))))) :: ((Zpos (XO (XI (XO (XO (XI (XI XH))))))) :: ((Zpos (XI (XO
    (XI (XI (XO (XI XH))))))) :: ((Zpos (XI (XO (XI (XI (XO
    XH)))))) :: ((Zpos (XO (XO (XO (XO (XI (XI XH))))))) :: ((Zpos (XO (XI
    (XO (XO (XI (XI XH))))))) :: ((Zpos (XI (XO (XI (XO (XO (XI
    XH))))))) :: ((Zpos (XO (XI (XI (XO (XI (XI XH))))))) :: ((Zpos (XI (XO
    (XO (XI (XO (XI XH))))))) :: ((Zpos (XI (XO (XI (XO (XO (XI
    XH))))))) :: ((Zpos (XI (XI (XI (XO (XI (XI XH))))))) :: ((Zpos (XI (XO
    (XI (XI (XO XH)))))) :: ((Zpos (XO (XO (XI (XI (XO (XI
    XH))))))) :: ((Zpos (XI (XO (XO (XO (XO (XI XH))))))) :: ((Zpos (XO (XI
    (XO (XO (XO (XI XH))))))) :: ((Zpos (XI (XO (XI (XO (XO (XI
    XH))))))) :: ((Zpos (XO (XO (XI (XI (XO (XI
    XH))))))) :: []))))))))))))))))))))))) :: (((Zpos (XO (XO (XI (XO (XI (XI
    XH))))))) :: ((Zpos (XO (XI (XO (XO (XI (XI XH))))))) :: ((Zpos (XI (XO
    (XO (XO (XO (XI XH))))))) :: ((Zpos (XO (XI (XI (XI (XO (XI
    XH))))))) :: ((Zpos (XI (XI (XO (XO (XI (XI XH))))))) :: ((Zpos (XO (XI
    (XI (XO (XO (XI XH))))))) :: ((Zpos (XI (XI (XI (XI (XO (XI
    XH))))))) :: ((Zpos (XO (XI (XO (XO (XI (XI XH))))))) :: ((Zpos (XI (XO
    (XI (XI (XO (XI XH))))))) :: ((Zpos (XI (XO (XI (XI (XO
    XH)))))) :: ((Zpos (XI (XO (XO (XI (XO (XI XH))))))) :: ((Zpos (XO (XI
    (XI (XI (XO (XI XH))))))) :: ((Zpos (XO (XO (XO (XO (XI (XI
    XH))))))) :: ((Zpos (XI (XO (XI (XO (XI (XI XH))))))) :: ((Zpos (XO (XO
    (XI (XO (XI (XI XH))))))) :: ((Zpos (XI (XO (XI (XI (XO
    XH)))))) :: ((Zpos (XO (XO (XI (XI (XO (XI XH))))))) :: ((Zpos (XI (XO
    (XO (XO (XO (XI XH))))))) :: ((Zpos (XO (XI (XO (XO (XO (XI
    XH))))))) :: ((Zpos (XI (XO (XI (XO (XO (XI XH))))))) :: ((Zpos (XO (XO
    (XI (XI (XO (XI XH))))))) :: []))))))))))))))))))))) :: (((Zpos (XO (XO
    (XI (XO (XI (XI XH))))))) :: ((Zpos (XO (XI (XO (XO (XI (XI
    XH))))))) :: ((Zpos (XI (XO (XO (XO (XO (XI XH))))))) :: ((Zpos (XO (XI
    (XI (XI (XO (XI XH))))))) :: ((Zpos (XI (XI (XO (XO (XI (XI
    XH))))))) :: ((Zpos (XO (XI (XI (XO (XO (XI XH))))))) :: ((Zpos (XI (XI
    (XI (XI (XO (XI XH))))))) :: ((Zpos (XO (XI (XO (XO (XI (XI
    XH))))))) :: ((Zpos (XI (XO (XI (XI (XO (XI XH))))))) :: ((Zpos (XI (XO
    (XI (XI (XO XH)))))) :: ((Zpos (XO (XO (XO (XI (XO (XI
    XH))))))) :: ((Zpos (XI (XO (XI (XO (XO (XI XH))))))) :: ((Zpos (XI (XO
    (XO (XO (XO (XI XH))))))) :: ((Zpos (XO (XO (XI (XO (XO (XI
    XH))))))) :: ((Zpos (XI (XO (XI (XO (XO (XI XH))))))) :: ((Zpos (XO (XI
    (XO (XO (XI (XI XH))))))) :: ((Zpos (XI (XO (XI (XI (XO
    XH)))))) :: ((Zpos (XO (XO (XI (XI (XO (XI XH))))))) :: ((Zpos (XI (XO
    (XO (XO (XO (XI XH))))))) :: ((Zpos (XO (XI (XO (XO (XO (XI
    XH))))))) :: ((Zpos (XI (XO (XI (XO (XO (XI XH))))))) :: ((Zpos (XO (XO
    (XI (XI (XO (XI XH))))))) :: [])))))))))))))))))))))) :: (((Zpos (XO (XO
    (XI (XO (XI (XI XH))))))) :: ((Zpos (XO (XI (XO (XO (XI (XI
    XH))))))) :: ((Zpos (XI (XO (XO (XO (XO (XI XH))))))) :: ((Zpos (XO (XI
    (XI (XI (XO (XI XH))))))) :: ((Zpos (XI (XI (XO (XO (XI (XI
    XH))))))) :: ((Zpos (XO (XI (XI (XO (XO (XI XH))))))) :: ((Zpos (XI (XI
    (XI (XI (XO (XI XH))))))) :: ((Zpos (XO (XI (XO (XO (XI (XI
    XH))))))) :: ((Zpos (XI (XO (XI (XI (XO (XI XH))))))) :: ((Zpos (XI (XO
    (XI (XI (XO XH)))))) :: ((Zpos (XO (XO (XO (XI (XO (XI
    XH))))))) :: ((Zpos (XI (XO (XI (XO (XO (XI XH))))))) :: ((Zpos (XI (XO
    (XO (XO (XO (XI XH))))))) :: ((Zpos (XO (XO (XI (XO (XO (XI
    XH))))))) :: ((Zpos (XI (XO (XI (XO (XO (XI XH))))))) :: ((Zpos (XO (XI
    (XO (XO (XI (XI XH))))))) :: [])))))))))))))))) :: (((Zpos (XO (XO (XI
    (XO (XI (XI XH))))))) :: ((Zpos (XO (XI (XO (XO (XI (XI
    XH))))))) :: ((Zpos (XI (XO (XO (XO (XO (XI XH))))))) :: ((Zpos (XO (XI
    (XI (XI (XO (XI XH))))))) :: ((Zpos (XI (XI (XO (XO (XI (XI
    XH))))))) :: ((Zpos (XO (XI (XI (XO (XO (XI XH))))))) :: ((Zpos (XI (XI
    (XI (XI (XO (XI XH))))))) :: ((Zpos (XO (XI (XO (XO (XI (XI
    XH))))))) :: ((Zpos (XI (XO (XI (XI (XO (XI XH))))))) :: ((Zpos (XI (XO
    (XI (XI (XO XH)))))) :: ((Zpos (XI (XI (XO (XO (XI (XI
    XH))))))) :: ((Zpos (XI (XO (XI (XO (XO (XI XH))))))) :: ((Zpos (XI (XO
    (XO (XO (XO (XI XH))))))) :: ((Zpos (XO (XI (XO (XO (XI (XI
    XH))))))) :: ((Zpos (XI (XI (XO (XO (XO (XI XH))))))) :: ((Zpos (XO (XO
    (XO (XI (XO (XI XH))))))) :: [])))))))))))))))) :: (((Zpos (XO (XO (XI
    (XO (XI (XI XH))))))) :: ((Zpos (XO (XI (XO (XO (XI (XI
    XH))))))) :: ((Zpos (XI (XO (XO (XO (XO (XI XH))))))) :: ((Zpos (XO (XI
    (XI (XI (XO (XI XH))))))) :: ((Zpos (XI (XI (XO (XO (XI (XI
    XH))))))) :: ((Zpos (XO (XI (XI (XO (XO (XI XH))))))) :: ((Zpos (XI (XI
    (XI (XI (XO (XI XH))))))) :: ((Zpos (XO (XI (XO (XO (XI (XI
    XH))))))) :: ((Zpos (XI (XO (XI (XI (XO (XI XH))))))) :: ((Zpos (XI (XO
    (XI (XI (XO XH)))))) :: ((Zpos (XO (XI (XI (XI (XO (XI
    XH))))))) :: ((Zpos (XO (XO (XI (XO (XI (XI XH))))))) :: ((Zpos (XO (XO
    (XO (XI (XO (XI XH))))))) :: []))))))))))))) :: (((Zpos (XO (XO (XI (XO
    (XI (XI XH))))))) :: ((Zpos (XO (XI (XO (XO (XI (XI XH))))))) :: ((Zpos
    (XI (XO (XO (XO (XO (XI XH))))))) :: ((Zpos (XO (XI (XI (XI (XO (XI
    XH))))))) :: ((Zpos (XI (XI (XO (XO (XI (XI XH))))))) :: ((Zpos (XO (XI
    (XI (XO (XO (XI XH))))))) :: ((Zpos (XI (XI (XI (XI (XO (XI
    XH))))))) :: ((Zpos (XO (XI (XO (XO (XI (XI XH))))))) :: ((Zpos (XI (XO
    (XI (XI (XO (XI XH))))))) :: ((Zpos (XI (XO (XI (XI (XO
    XH)))))) :: ((Zpos (XO (XO (XO (XO (XI (XI XH))))))) :: ((Zpos (XI (XI
    (XI (XI (XO (XI XH))))))) :: ((Zpos (XI (XO (XO (XI (XO (XI
    XH))))))) :: ((Zpos (XO (XI (XI (XI (XO (XI XH))))))) :: ((Zpos (XO (XO
    (XI (XO (XI (XI XH))))))) :: ((Zpos (XI (XO (XI (XO (XO (XI
    XH))))))) :: ((Zpos (XO (XI (XO (XO (XI (XI
    XH))))))) :: []))))))))))))))))) :: (((Zpos (XO (XO (XI (XO (XI (XI
    XH))))))) :: ((Zpos (XO (XI (XO (XO (XI (XI XH))))))) :: ((Zpos (XI (XO
    (XO (XO (XO (XI XH))))))) :: ((Zpos (XO (XI (XI (XI (XO (XI
    XH))))))) :: ((Zpos (XI (XI (XO (XO (XI (XI XH))))))) :: ((Zpos (XO (XI
    (XI (XO (XO (XI XH))))))) :: ((Zpos (XI (XI (XI (XI (XO (XI
    XH))))))) :: ((Zpos (XO (XI (XO (XO (XI (XI XH))))))) :: ((Zpos (XI (XO
    (XI (XI (XO (XI XH))))))) :: ((Zpos (XI (XO (XI (XI (XO
    XH)))))) :: ((Zpos (XI (XI (XI (XO (XO (XI XH))))))) :: ((Zpos (XO (XO
    (XO (XI (XO (XI XH))))))) :: ((Zpos (XI (XI (XI (XI (XO (XI
    XH))))))) :: ((Zpos (XI (XI (XO (XO (XI (XI XH))))))) :: ((Zpos (XO (XO
    (XI (XO (XI (XI XH))))))) :: []))))))))))))))) :: (((Zpos (XO (XO (XI (XO
    (XI (XI XH))))))) :: ((Zpos (XO (XI (XO (XO (XI (XI XH))))))) :: ((Zpos
    (XI (XO (XO (XO (XO (XI XH))))))) :: ((Zpos (XO (XI (XI (XI (XO (XI
    XH))))))) :: ((Zpos (XI (XI (XO (XO (XI (XI XH))))))) :: ((Zpos (XO (XI
    (XI (XO (XO (XI XH))))))) :: ((Zpos (XI (XI (XI (XI (XO (XI
    XH))))))) :: ((Zpos (XO (XI (XO (XO (XI (XI XH))))))) :: ((Zpos (XI (XO
    (XI (XI (XO (XI XH))))))) :: []))))))))) :: (((Zpos (XI (XI (XO (XO (XO
    (XI XH))))))) :: ((Zpos (XO (XO (XO (XI (XO (XI XH))))))) :: ((Zpos (XI
    (XO (XO (XO (XO (XI XH))))))) :: ((Zpos (XO (XI (XI (XI (XO (XI
    XH))))))) :: ((Zpos (XI (XI (XI (XO (XO (XI XH))))))) :: ((Zpos (XI (XO
    (XI (XO (XO (XI XH))))))) :: ((Zpos (XI (XO (XI (XI (XO
    XH)))))) :: ((Zpos (XO (XO (XO (XO (XI (XI XH))))))) :: ((Zpos (XO (XI
    (XO (XO (XI (XI XH))))))) :: ((Zpos (XI (XO (XI (XO (XO (XI
    XH))))))) :: ((Zpos (XO (XI (XI (XO (XI (XI XH))))))) :: ((Zpos (XI (XO
    (XO (XI (XO (XI XH))))))) :: ((Zpos (XI (XO (XI (XO (XO (XI
    XH))))))) :: ((Zpos (XI (XI (XI (XO (XI (XI XH))))))) :: ((Zpos (XI (XO
    (XI (XI (XO XH)))))) :: ((Zpos (XI (XI (XI (XO (XI (XI
    XH))))))) :: ((Zpos (XI (XO (XO (XI (XO (XI XH))))))) :: ((Zpos (XO (XI
    (XI (XI (XO (XI XH))))))) :: ((Zpos (XO (XO (XI (XO (XO (XI
    XH))))))) :: ((Zpos (XI (XI (XI (XI (XO (XI XH))))))) :: ((Zpos (XI (XI
    (XI (XO (XI (XI XH))))))) :: []))))))))))))))))))))) :: (((Zpos (XI (XI
    (XO (XO (XO (XI XH))))))) :: ((Zpos (XO (XO (XO (XI (XO (XI
    XH))))))) :: ((Zpos (XI (XO (XO (XO (XO (XI XH))))))) :: ((Zpos (XO (XI
    (XI (XI (XO (XI XH))))))) :: ((Zpos (XI (XI (XI (XO (XO (XI
    XH))))))) :: ((Zpos (XI (XO (XI (XO (XO (XI XH))))))) :: ((Zpos (XI (XO
    (XI (XI (XO XH)))))) :: ((Zpos (XO (XO (XO (XO (XI (XI
    XH))))))) :: ((Zpos (XO (XI (XO (XO (XI (XI XH))))))) :: ((Zpos (XI (XO
    (XI (XO (XO (XI XH))))))) :: ((Zpos (XO (XI (XI (XO (XI (XI
    XH))))))) :: ((Zpos (XI (XO (XO (XI (XO (XI XH))))))) :: ((Zpos (XI (XO
    (XI (XO (XO (XI XH))))))) :: ((Zpos (XI (XI (XI (XO (XI (XI
    XH))))))) :: [])))))))))))))) :: (((Zpos (XI (XI (XO (XO (XO (XI
    XH))))))) :: ((Zpos (XO (XO (XO (XI (XO (XI XH))))))) :: ((Zpos (XI (XO
    (XO (XO (XO (XI XH))))))) :: ((Zpos (XO (XI (XI (XI (XO (XI
    XH))))))) :: ((Zpos (XI (XI (XI (XO (XO (XI XH))))))) :: ((Zpos (XI (XO
    (XI (XO (XO (XI XH))))))) :: ((Zpos (XI (XO (XI (XI (XO
    XH)))))) :: ((Zpos (XI (XO (XI (XI (XO (XI XH))))))) :: ((Zpos (XI (XO
    (XI (XO (XI (XI XH))))))) :: ((Zpos (XO (XO (XI (XI (XO (XI
    XH))))))) :: ((Zpos (XO (XO (XI (XO (XI (XI XH))))))) :: ((Zpos (XI (XO
    (XO (XI (XO (XI XH))))))) :: [])))))))))))) :: (((Zpos (XO (XI (XO (XO
    (XI (XI XH))))))) :: ((Zpos (XI (XO (XI (XO (XO (XI XH))))))) :: ((Zpos
    (XO (XI (XO (XO (XO (XI XH))))))) :: ((Zpos (XI (XO (XO (XI (XO (XI
    XH))))))) :: ((Zpos (XO (XI (XI (XI (XO (XI XH))))))) :: ((Zpos (XO (XO
    (XI (XO (XO (XI XH))))))) :: [])))))) :: (((Zpos (XI (XO (XI (XO (XI (XI
    XH))))))) :: ((Zpos (XO (XI (XI (XI (XO (XI XH))))))) :: ((Zpos (XO (XI
    (XO (XO (XO (XI XH))))))) :: ((Zpos (XI (XO (XO (XI (XO (XI
    XH))))))) :: ((Zpos (XO (XI (XI (XI (XO (XI XH))))))) :: ((Zpos (XO (XO
    (XI (XO (XO (XI XH))))))) :: [])))))) :: (((Zpos (XO (XO (XI (XO (XI (XI
    XH))))))) :: ((Zpos (XI (XI (XI (XI (XO (XI XH))))))) :: ((Zpos (XI (XI
    (XI (XO (XO (XI XH))))))) :: ((Zpos (XI (XI (XI (XO (XO (XI
    XH))))))) :: ((Zpos (XO (XO (XI (XI (XO (XI XH))))))) :: ((Zpos (XI (XO
    (XI (XO (XO (XI XH))))))) :: ((Zpos (XI (XO (XI (XI (XO
    XH)))))) :: ((Zpos (XO (XI (XO (XO (XO (XI XH))))))) :: ((Zpos (XI (XO
    (XO (XI (XO (XI XH))))))) :: ((Zpos (XO (XI (XI (XI (XO (XI
    XH))))))) :: ((Zpos (XO (XO (XI (XO (XO (XI
    XH))))))) :: []))))))))))) :: (((Zpos (XO (XO (XO (XO (XI (XI
    XH))))))) :: ((Zpos (XI (XI (XI (XI (XO (XI XH))))))) :: ((Zpos (XI (XI
    (XO (XO (XI (XI XH))))))) :: []))) :: (((Zpos (XO (XO (XO (XO (XI (XI
    XH))))))) :: ((Zpos (XI (XO (XI (XO (XI (XI XH))))))) :: ((Zpos (XO (XO
    (XI (XO (XI (XI XH))))))) :: []))) :: (((Zpos (XO (XO (XO (XO (XI (XI
    XH))))))) :: ((Zpos (XO (XI (XO (XO (XI (XI XH))))))) :: ((Zpos (XI (XO
    (XO (XI (XO (XI XH))))))) :: ((Zpos (XO (XI (XI (XI (XO (XI
    XH))))))) :: ((Zpos (XO (XO (XI (XO (XI (XI
    XH))))))) :: []))))) :: (((Zpos (XI (XI (XO (XO (XI (XI
    XH))))))) :: ((Zpos (XI (XO (XI (XO (XO (XI XH))))))) :: ((Zpos (XI (XO
    (XO (XO (XO (XI XH))))))) :: ((Zpos (XO (XI (XO (XO (XI (XI
    XH))))))) :: ((Zpos (XI (XI (XO (XO (XO (XI XH))))))) :: ((Zpos (XO (XO
    (XO (XI (XO (XI
    XH))))))) :: [])))))) :: [])))))))))))))))))))))))))))))))))))))))))

(** val prefix_ci : str -> str -> bool **)

let rec prefix_ci n s =
  match n with
  | [] -> true
  | a :: n' ->
    (match s with
     | [] -> false
     | c :: s' -> (&&) (Z.eqb (lower c) a) (prefix_ci n' s'))

(** val first_match : str list -> str -> nat option **)

let rec first_match names s =
  match names with
  | [] -> None
  | n :: r -> if prefix_ci n s then Some (length n) else first_match r s

(** val is_colon_plus : z -> bool **)

let is_colon_plus c =
  (||) (Z.eqb c cOLON) (Z.eqb c pLUS)

(** val find_exec : str -> nat option **)

let rec find_exec = function
| [] -> None
| c :: t0 ->
  if is_colon_plus c
  then (match first_match exec_names t0 with
        | Some n -> Some (S n)
        | None -> option_map (fun x -> S x) (find_exec t0))
  else option_map (fun x -> S x) (find_exec t0)

(** val find_close_from : z -> str -> nat option **)

let rec find_close_from ce = function
| [] -> None
| c :: t0 ->
  if (&&) (Z.eqb c ce)
       (match t0 with
        | [] -> true
        | d :: _ -> (||) (Z.eqb d pLUS) (Z.eqb d cOMMA))
  then Some (S O)
  else option_map (fun x -> S x) (find_close_from ce t0)

(** val find_close : z -> str -> nat option **)

let find_close ce = function
| [] -> None
| _ :: t0 -> option_map (fun x -> S x) (find_close_from ce t0)

(** val blanks : nat -> str **)

let blanks n =
  repeat sPACE n

(** val mask_loop : nat -> str -> str res **)

let rec mask_loop fuel action2 =
  match fuel with
  | O -> Err OutOfFuel
  | S f ->
    (match find_exec action2 with
     | Some e ->
       let pre = firstn e action2 in
       let rest = skipn e action2 in
       (match rest with
        | [] -> Ok pre
        | c :: _ ->
          if Z.eqb c cOLON
          then Ok (app pre (blanks (length rest)))
          else (match closer_of c with
                | Some ce ->
                  (match find_close ce rest with
                   | Some n ->
                     bind (mask_loop f (skipn n rest)) (fun m -> Ok
                       (app pre (app (blanks n) m)))
                   | None -> Ok (app pre rest))
                | None -> bind (mask_loop f rest) (fun m -> Ok (app pre m))))
     | None -> Ok action2)

(** val rep2 : z -> z -> z -> z -> str -> str **)

let rec rep2 a c x y s = match s with
| [] -> s
| c1 :: t1 ->
  (match t1 with
   | [] -> s
   | c2 :: t0 ->
     if (&&) (Z.eqb c1 a) (Z.eqb c2 c)
     then x :: (y :: (rep2 a c x y t0))
     else c1 :: (rep2 a c x y t1))

(** val rep3 : z -> z -> z -> z -> z -> z -> str -> str **)

let rec rep3 a c d x y z0 s = match s with
| [] -> s
| c1 :: t1 ->
  (match t1 with
   | [] -> s
   | c2 :: t2 ->
     (match t2 with
      | [] -> s
      | c3 :: t0 ->
        if (&&) ((&&) (Z.eqb c1 a) (Z.eqb c2 c)) (Z.eqb c3 d)
        then x :: (y :: (z0 :: (rep3 a c d x y z0 t0)))
        else c1 :: (rep3 a c d x y z0 t1)))

(** val eSC_COLON : z **)

let eSC_COLON =
  Z0

(** val eSC_COMMA : z **)

let eSC_COMMA =
  Zpos XH

(** val eSC_PLUS : z **)

let eSC_PLUS =
  Zpos (XO XH)

(** val escapes : str -> str **)

let escapes m =
  let m0 = rep3 cOMMA cOMMA cOMMA cOMMA eSC_COMMA cOMMA m in
  let m1 = rep3 cOMMA cOLON cOMMA cOMMA eSC_COLON cOMMA m0 in
  let m2 = rep2 cOLON cOLON eSC_COLON cOLON m1 in
  let m3 = rep2 cOMMA cOLON eSC_COMMA cOLON m2 in
  rep2 pLUS cOLON eSC_PLUS cOLON m3

(** val mask_action_contents : str -> str res **)

let mask_action_contents action2 =
  bind (mask_loop (S (length action2)) action2) (fun m -> Ok (escapes m))

(** val s_alt_comma : str **)

let s_alt_comma =
  (Zpos (XI (XO (XO (XO (XO (XI XH))))))) :: ((Zpos (XO (XO (XI (XI (XO (XI
    XH))))))) :: ((Zpos (XO (XO (XI (XO (XI (XI XH))))))) :: ((Zpos (XI (XO
    (XI (XI (XO XH)))))) :: ((Zpos (XO (XO (XI (XI (XO XH)))))) :: []))))

(** val s_put : str **)

let s_put =
  (Zpos (XO (XO (XO (XO (XI (XI XH))))))) :: ((Zpos (XI (XO (XI (XO (XI (XI
    XH))))))) :: ((Zpos (XO (XO (XI (XO (XI (XI XH))))))) :: []))

(** val s_change_multi : str **)

let s_change_multi =
  (Zpos (XI (XI (XO (XO (XO (XI XH))))))) :: ((Zpos (XO (XO (XO (XI (XO (XI
    XH))))))) :: ((Zpos (XI (XO (XO (XO (XO (XI XH))))))) :: ((Zpos (XO (XI
    (XI (XI (XO (XI XH))))))) :: ((Zpos (XI (XI (XI (XO (XO (XI
    XH))))))) :: ((Zpos (XI (XO (XI (XO (XO (XI XH))))))) :: ((Zpos (XI (XO
    (XI (XI (XO XH)))))) :: ((Zpos (XI (XO (XI (XI (XO (XI
    XH))))))) :: ((Zpos (XI (XO (XI (XO (XI (XI XH))))))) :: ((Zpos (XO (XO
    (XI (XI (XO (XI XH))))))) :: ((Zpos (XO (XO (XI (XO (XI (XI
    XH))))))) :: ((Zpos (XI (XO (XO (XI (XO (XI XH))))))) :: [])))))))))))

(** val key_arg_actions : str list **)

let key_arg_actions =
  ((Zpos (XI (XO (XI (XO (XI (XI XH))))))) :: ((Zpos (XO (XI (XI (XI (XO (XI
    XH))))))) :: ((Zpos (XO (XI (XO (XO (XO (XI XH))))))) :: ((Zpos (XI (XO
    (XO (XI (XO (XI XH))))))) :: ((Zpos (XO (XI (XI (XI (XO (XI
    XH))))))) :: ((Zpos (XO (XO (XI (XO (XO (XI
    XH))))))) :: [])))))) :: (((Zpos (XO (XI (XO (XO (XI (XI
    XH))))))) :: ((Zpos (XI (XO (XI (XO (XO (XI XH))))))) :: ((Zpos (XO (XI
    (XO (XO (XO (XI XH))))))) :: ((Zpos (XI (XO (XO (XI (XO (XI
    XH))))))) :: ((Zpos (XO (XI (XI (XI (XO (XI XH))))))) :: ((Zpos (XO (XO
    (XI (XO (XO (XI XH))))))) :: [])))))) :: (((Zpos (XO (XO (XI (XO (XI (XI
    XH))))))) :: ((Zpos (XI (XI (XI (XI (XO (XI XH))))))) :: ((Zpos (XI (XI
    (XI (XO (XO (XI XH))))))) :: ((Zpos (XI (XI (XI (XO (XO (XI
    XH))))))) :: ((Zpos (XO (XO (XI (XI (XO (XI XH))))))) :: ((Zpos (XI (XO
    (XI (XO (XO (XI XH))))))) :: ((Zpos (XI (XO (XI (XI (XO
    XH)))))) :: ((Zpos (XO (XI (XO (XO (XO (XI XH))))))) :: ((Zpos (XI (XO
    (XO (XI (XO (XI XH))))))) :: ((Zpos (XO (XI (XI (XI (XO (XI
    XH))))))) :: ((Zpos (XO (XO (XI (XO (XO (XI
    XH))))))) :: []))))))))))) :: []))

(** val alt_comma : nat -> str -> str **)

let rec alt_comma fuel s =
  match fuel with
  | O -> s
  | S f ->
    (match s with
     | [] -> []
     | c :: t0 ->
       if prefix_ci s_alt_comma s
       then app (firstn (S (S (S (S O)))) s)
              (eSC_COMMA :: (alt_comma f (skipn (S (S (S (S (S O))))) s)))
       else c :: (alt_comma f t0))

(** val contains : str -> str -> bool **)

let rec contains p s = match s with
| [] -> (match p with
         | [] -> true
         | _ :: _ -> false)
| _ :: t0 -> (||) (has_prefix p s) (contains p t0)

(** val has_suffix : str -> str -> bool **)

let has_suffix p s =
  has_prefix (rev p) (rev s)

(** val key_of_masked_token : str -> key option **)

let key_of_masked_token tok =
  let tok0 = map (fun c -> if Z.eqb c eSC_COMMA then cOMMA else c) tok in
  let tok1 =
    match tok0 with
    | [] -> tok0
    | a :: l ->
      (match l with
       | [] -> tok0
       | c :: l0 ->
         (match l0 with
          | [] -> tok0
          | d :: l1 ->
            (match l1 with
             | [] -> tok0
             | e :: l2 ->
               (match l2 with
                | [] -> tok0
                | r :: l3 ->
                  (match l3 with
                   | [] ->
                     if has_prefix s_alt (to_lower tok0)
                     then a :: (c :: (d :: (e :: ((if Z.eqb r eSC_COLON
                                                   then cOLON
                                                   else if Z.eqb r eSC_PLUS
                                                        then pLUS
                                                        else r) :: []))))
                     else tok0
                   | _ :: _ -> tok0)))))
  in
  key_of_token tok1

(** val add_key : key -> key list -> key list **)

let rec add_key k l = match l with
| [] -> k :: []
| x :: r -> if key_eqb k x then l else x :: (add_key k r)

(** val chords_loop : str list -> key list -> key list outcome **)

let rec chords_loop toks acc =
  match toks with
  | [] -> Good acc
  | t0 :: r ->
    (match t0 with
     | [] -> chords_loop r acc
     | _ :: _ ->
       (match key_of_masked_token t0 with
        | Some k -> chords_loop r (add_key k acc)
        | None -> Bad e_UNSUPPORTED_KEY))

(** val parse_key_chords : str -> key list outcome **)

let parse_key_chords s = match s with
| [] -> Bad e_KEY_REQUIRED
| _ :: _ ->
  let s0 = alt_comma (length s) s in
  let toks = split_on cOMMA s0 in
  let toks0 =
    if (||)
         ((||)
           ((||) (str_eqb s0 (cOMMA :: []))
             (has_prefix (cOMMA :: (cOMMA :: [])) s0))
           (has_suffix (cOMMA :: (cOMMA :: [])) s0))
         (contains (cOMMA :: (cOMMA :: (cOMMA :: []))) s0)
    then app toks ((cOMMA :: []) :: [])
    else toks
  in
  chords_loop toks0 []

(** val is_name_char : z -> bool **)

let is_name_char c =
  (||) ((||) (is_lower c) (is_upper c)) (Z.eqb c dASH)

(** val take_while : (z -> bool) -> str -> str **)

let rec take_while p = function
| [] -> []
| c :: r -> if p c then c :: (take_while p r) else []

(** val name_prefix : str -> str **)

let name_prefix s =
  take_while is_name_char s

(** val switch_table : (str * str list) list **)

let switch_table =
  (((Zpos (XO (XO (XO (XO (XI (XI XH))))))) :: ((Zpos (XI (XO (XI (XO (XI (XI
    XH))))))) :: ((Zpos (XO (XO (XI (XO (XI (XI XH))))))) :: []))), (((Zpos
    (XI (XI (XO (XO (XO (XI XH))))))) :: ((Zpos (XO (XO (XO (XI (XO (XI
    XH))))))) :: ((Zpos (XI (XO (XO (XO (XO (XI XH))))))) :: ((Zpos (XO (XI
    (XO (XO (XI (XI XH))))))) :: [])))) :: [])) :: ((((Zpos (XI (XO (XO (XI
    (XO (XI XH))))))) :: ((Zpos (XI (XI (XI (XO (XO (XI XH))))))) :: ((Zpos
    (XO (XI (XI (XI (XO (XI XH))))))) :: ((Zpos (XI (XI (XI (XI (XO (XI
    XH))))))) :: ((Zpos (XO (XI (XO (XO (XI (XI XH))))))) :: ((Zpos (XI (XO
    (XI (XO (XO (XI XH))))))) :: [])))))), (((Zpos (XI (XO (XO (XI (XO (XI
    XH))))))) :: ((Zpos (XI (XI (XI (XO (XO (XI XH))))))) :: ((Zpos (XO (XI
    (XI (XI (XO (XI XH))))))) :: ((Zpos (XI (XI (XI (XI (XO (XI
    XH))))))) :: ((Zpos (XO (XI (XO (XO (XI (XI XH))))))) :: ((Zpos (XI (XO
    (XI (XO (XO (XI XH))))))) :: [])))))) :: [])) :: ((((Zpos (XO (XI (XO (XO
    (XO (XI XH))))))) :: ((Zpos (XI (XO (XI (XO (XO (XI XH))))))) :: ((Zpos
    (XI (XI (XI (XO (XO (XI XH))))))) :: ((Zpos (XI (XO (XO (XI (XO (XI
    XH))))))) :: ((Zpos (XO (XI (XI (XI (XO (XI XH))))))) :: ((Zpos (XO (XI
    (XI (XI (XO (XI XH))))))) :: ((Zpos (XI (XO (XO (XI (XO (XI
    XH))))))) :: ((Zpos (XO (XI (XI (XI (XO (XI XH))))))) :: ((Zpos (XI (XI
    (XI (XO (XO (XI XH))))))) :: ((Zpos (XI (XO (XI (XI (XO
    XH)))))) :: ((Zpos (XI (XI (XI (XI (XO (XI XH))))))) :: ((Zpos (XO (XI
    (XI (XO (XO (XI XH))))))) :: ((Zpos (XI (XO (XI (XI (XO
    XH)))))) :: ((Zpos (XO (XO (XI (XI (XO (XI XH))))))) :: ((Zpos (XI (XO
    (XO (XI (XO (XI XH))))))) :: ((Zpos (XO (XI (XI (XI (XO (XI
    XH))))))) :: ((Zpos (XI (XO (XI (XO (XO (XI
    XH))))))) :: []))))))))))))))))), (((Zpos (XO (XI (XO (XO (XO (XI
    XH))))))) :: ((Zpos (XI (XO (XI (XO (XO (XI XH))))))) :: ((Zpos (XI (XI
    (XI (XO (XO (XI XH))))))) :: ((Zpos (XI (XO (XO (XI (XO (XI
    XH))))))) :: ((Zpos (XO (XI (XI (XI (XO (XI XH))))))) :: ((Zpos (XO (XI
    (XI (XI (XO (XI XH))))))) :: ((Zpos (XI (XO (XO (XI (XO (XI
    XH))))))) :: ((Zpos (XO (XI (XI (XI (XO (XI XH))))))) :: ((Zpos (XI (XI
    (XI (XO (XO (XI XH))))))) :: ((Zpos (XI (XO (XI (XI (XO
    XH)))))) :: ((Zpos (XI (XI (XI (XI (XO (XI XH))))))) :: ((Zpos (XO (XI
    (XI (XO (XO (XI XH))))))) :: ((Zpos (XI (XO (XI (XI (XO
    XH)))))) :: ((Zpos (XO (XO (XI (XI (XO (XI XH))))))) :: ((Zpos (XI (XO
    (XO (XI (XO (XI XH))))))) :: ((Zpos (XO (XI (XI (XI (XO (XI
    XH))))))) :: ((Zpos (XI (XO (XI (XO (XO (XI
    XH))))))) :: []))))))))))))))))) :: [])) :: ((((Zpos (XI (XO (XO (XO (XO
    (XI XH))))))) :: ((Zpos (XO (XI (XO (XO (XO (XI XH))))))) :: ((Zpos (XI
    (XI (XI (XI (XO (XI XH))))))) :: ((Zpos (XO (XI (XO (XO (XI (XI
    XH))))))) :: ((Zpos (XO (XO (XI (XO (XI (XI XH))))))) :: []))))), (((Zpos
    (XI (XO (XO (XO (XO (XI XH))))))) :: ((Zpos (XO (XI (XO (XO (XO (XI
    XH))))))) :: ((Zpos (XI (XI (XI (XI (XO (XI XH))))))) :: ((Zpos (XO (XI
    (XO (XO (XI (XI XH))))))) :: ((Zpos (XO (XO (XI (XO (XI (XI
    XH))))))) :: []))))) :: [])) :: ((((Zpos (XI (XO (XO (XO (XO (XI
    XH))))))) :: ((Zpos (XI (XI (XO (XO (XO (XI XH))))))) :: ((Zpos (XI (XI
    (XO (XO (XO (XI XH))))))) :: ((Zpos (XI (XO (XI (XO (XO (XI
    XH))))))) :: ((Zpos (XO (XO (XO (XO (XI (XI XH))))))) :: ((Zpos (XO (XO
    (XI (XO (XI (XI XH))))))) :: [])))))), (((Zpos (XI (XO (XO (XO (XO (XI
    XH))))))) :: ((Zpos (XI (XI (XO (XO (XO (XI XH))))))) :: ((Zpos (XI (XI
    (XO (XO (XO (XI XH))))))) :: ((Zpos (XI (XO (XI (XO (XO (XI
    XH))))))) :: ((Zpos (XO (XO (XO (XO (XI (XI XH))))))) :: ((Zpos (XO (XO
    (XI (XO (XI (XI XH))))))) :: [])))))) :: [])) :: ((((Zpos (XI (XO (XO (XO
    (XO (XI XH))))))) :: ((Zpos (XI (XI (XO (XO (XO (XI XH))))))) :: ((Zpos
    (XI (XI (XO (XO (XO (XI XH))))))) :: ((Zpos (XI (XO (XI (XO (XO (XI
    XH))))))) :: ((Zpos (XO (XO (XO (XO (XI (XI XH))))))) :: ((Zpos (XO (XO
    (XI (XO (XI (XI XH))))))) :: ((Zpos (XI (XO (XI (XI (XO
    XH)))))) :: ((Zpos (XO (XI (XI (XI (XO (XI XH))))))) :: ((Zpos (XI (XI
    (XI (XI (XO (XI XH))))))) :: ((Zpos (XO (XI (XI (XI (XO (XI
    XH))))))) :: ((Zpos (XI (XO (XI (XI (XO XH)))))) :: ((Zpos (XI (XO (XI
    (XO (XO (XI XH))))))) :: ((Zpos (XI (XO (XI (XI (XO (XI
    XH))))))) :: ((Zpos (XO (XO (XO (XO (XI (XI XH))))))) :: ((Zpos (XO (XO
    (XI (XO (XI (XI XH))))))) :: ((Zpos (XI (XO (XO (XI (XI (XI
    XH))))))) :: [])))))))))))))))), (((Zpos (XI (XO (XO (XO (XO (XI
    XH))))))) :: ((Zpos (XI (XI (XO (XO (XO (XI XH))))))) :: ((Zpos (XI (XI
    (XO (XO (XO (XI XH))))))) :: ((Zpos (XI (XO (XI (XO (XO (XI
    XH))))))) :: ((Zpos (XO (XO (XO (XO (XI (XI XH))))))) :: ((Zpos (XO (XO
    (XI (XO (XI (XI XH))))))) :: ((Zpos (XI (XO (XI (XI (XO
    XH)))))) :: ((Zpos (XO (XI (XI (XI (XO (XI XH))))))) :: ((Zpos (XI (XI
    (XI (XI (XO (XI XH))))))) :: ((Zpos (XO (XI (XI (XI (XO (XI
    XH))))))) :: ((Zpos (XI (XO (XI (XI (XO XH)))))) :: ((Zpos (XI (XO (XI
    (XO (XO (XI XH))))))) :: ((Zpos (XI (XO (XI (XI (XO (XI
    XH))))))) :: ((Zpos (XO (XO (XO (XO (XI (XI XH))))))) :: ((Zpos (XO (XO
    (XI (XO (XI (XI XH))))))) :: ((Zpos (XI (XO (XO (XI (XI (XI
    XH))))))) :: [])))))))))))))))) :: [])) :: ((((Zpos (XI (XO (XO (XO (XO
    (XI XH))))))) :: ((Zpos (XI (XI (XO (XO (XO (XI XH))))))) :: ((Zpos (XI
    (XI (XO (XO (XO (XI XH))))))) :: ((Zpos (XI (XO (XI (XO (XO (XI
    XH))))))) :: ((Zpos (XO (XO (XO (XO (XI (XI XH))))))) :: ((Zpos (XO (XO
    (XI (XO (XI (XI XH))))))) :: ((Zpos (XI (XO (XI (XI (XO
    XH)))))) :: ((Zpos (XI (XI (XI (XI (XO (XI XH))))))) :: ((Zpos (XO (XI
    (XO (XO (XI (XI XH))))))) :: ((Zpos (XI (XO (XI (XI (XO
    XH)))))) :: ((Zpos (XO (XO (XO (XO (XI (XI XH))))))) :: ((Zpos (XO (XI
    (XO (XO (XI (XI XH))))))) :: ((Zpos (XI (XO (XO (XI (XO (XI
    XH))))))) :: ((Zpos (XO (XI (XI (XI (XO (XI XH))))))) :: ((Zpos (XO (XO
    (XI (XO (XI (XI XH))))))) :: ((Zpos (XI (XO (XI (XI (XO
    XH)))))) :: ((Zpos (XI (XO (XO (XO (XI (XI XH))))))) :: ((Zpos (XI (XO
    (XI (XO (XI (XI XH))))))) :: ((Zpos (XI (XO (XI (XO (XO (XI
    XH))))))) :: ((Zpos (XO (XI (XO (XO (XI (XI XH))))))) :: ((Zpos (XI (XO
    (XO (XI (XI (XI XH))))))) :: []))))))))))))))))))))), (((Zpos (XI (XO (XO
    (XO (XO (XI XH))))))) :: ((Zpos (XI (XI (XO (XO (XO (XI
    XH))))))) :: ((Zpos (XI (XI (XO (XO (XO (XI XH))))))) :: ((Zpos (XI (XO
    (XI (XO (XO (XI XH))))))) :: ((Zpos (XO (XO (XO (XO (XI (XI
    XH))))))) :: ((Zpos (XO (XO (XI (XO (XI (XI XH))))))) :: ((Zpos (XI (XO
    (XI (XI (XO XH)))))) :: ((Zpos (XI (XI (XI (XI (XO (XI
    XH))))))) :: ((Zpos (XO (XI (XO (XO (XI (XI XH))))))) :: ((Zpos (XI (XO
    (XI (XI (XO XH)))))) :: ((Zpos (XO (XO (XO (XO (XI (XI
    XH))))))) :: ((Zpos (XO (XI (XO (XO (XI (XI XH))))))) :: ((Zpos (XI (XO
    (XO (XI (XO (XI XH))))))) :: ((Zpos (XO (XI (XI (XI (XO (XI
    XH))))))) :: ((Zpos (XO (XO (XI (XO (XI (XI XH))))))) :: ((Zpos (XI (XO
    (XI (XI (XO XH)))))) :: ((Zpos (XI (XO (XO (XO (XI (XI
    XH))))))) :: ((Zpos (XI (XO (XI (XO (XI (XI XH))))))) :: ((Zpos (XI (XO
    (XI (XO (XO (XI XH))))))) :: ((Zpos (XO (XI (XO (XO (XI (XI
    XH))))))) :: ((Zpos (XI (XO (XO (XI (XI (XI
    XH))))))) :: []))))))))))))))))))))) :: [])) :: ((((Zpos (XO (XO (XO (XO
    (XI (XI XH))))))) :: ((Zpos (XO (XI (XO (XO (XI (XI XH))))))) :: ((Zpos
    (XI (XO (XO (XI (XO (XI XH))))))) :: ((Zpos (XO (XI (XI (XI (XO (XI
    XH))))))) :: ((Zpos (XO (XO (XI (XO (XI (XI XH))))))) :: ((Zpos (XI (XO
    (XI (XI (XO XH)))))) :: ((Zpos (XI (XO (XO (XO (XI (XI
    XH))))))) :: ((Zpos (XI (XO (XI (XO (XI (XI XH))))))) :: ((Zpos (XI (XO
    (XI (XO (XO (XI XH))))))) :: ((Zpos (XO (XI (XO (XO (XI (XI
    XH))))))) :: ((Zpos (XI (XO (XO (XI (XI (XI XH))))))) :: []))))))))))),
    (((Zpos (XO (XO (XO (XO (XI (XI XH))))))) :: ((Zpos (XO (XI (XO (XO (XI
    (XI XH))))))) :: ((Zpos (XI (XO (XO (XI (XO (XI XH))))))) :: ((Zpos (XO
    (XI (XI (XI (XO (XI XH))))))) :: ((Zpos (XO (XO (XI (XO (XI (XI
    XH))))))) :: ((Zpos (XI (XO (XI (XI (XO XH)))))) :: ((Zpos (XI (XO (XO
    (XO (XI (XI XH))))))) :: ((Zpos (XI (XO (XI (XO (XI (XI
    XH))))))) :: ((Zpos (XI (XO (XI (XO (XO (XI XH))))))) :: ((Zpos (XO (XI
    (XO (XO (XI (XI XH))))))) :: ((Zpos (XI (XO (XO (XI (XI (XI
    XH))))))) :: []))))))))))) :: [])) :: ((((Zpos (XO (XI (XO (XO (XI (XI
    XH))))))) :: ((Zpos (XI (XO (XI (XO (XO (XI XH))))))) :: ((Zpos (XO (XI
    (XI (XO (XO (XI XH))))))) :: ((Zpos (XO (XI (XO (XO (XI (XI
    XH))))))) :: ((Zpos (XI (XO (XI (XO (XO (XI XH))))))) :: ((Zpos (XI (XI
    (XO (XO (XI (XI XH))))))) :: ((Zpos (XO (XO (XO (XI (XO (XI
    XH))))))) :: ((Zpos (XI (XO (XI (XI (XO XH)))))) :: ((Zpos (XO (XO (XO
    (XO (XI (XI XH))))))) :: ((Zpos (XO (XI (XO (XO (XI (XI
    XH))))))) :: ((Zpos (XI (XO (XI (XO (XO (XI XH))))))) :: ((Zpos (XO (XI
    (XI (XO (XI (XI XH))))))) :: ((Zpos (XI (XO (XO (XI (XO (XI
    XH))))))) :: ((Zpos (XI (XO (XI (XO (XO (XI XH))))))) :: ((Zpos (XI (XI
    (XI (XO (XI (XI XH))))))) :: []))))))))))))))), (((Zpos (XO (XI (XO (XO
    (XI (XI XH))))))) :: ((Zpos (XI (XO (XI (XO (XO (XI XH))))))) :: ((Zpos
    (XO (XI (XI (XO (XO (XI XH))))))) :: ((Zpos (XO (XI (XO (XO (XI (XI
    XH))))))) :: ((Zpos (XI (XO (XI (XO (XO (XI XH))))))) :: ((Zpos (XI (XI
    (XO (XO (XI (XI XH))))))) :: ((Zpos (XO (XO (XO (XI (XO (XI
    XH))))))) :: ((Zpos (XI (XO (XI (XI (XO XH)))))) :: ((Zpos (XO (XO (XO
    (XO (XI (XI XH))))))) :: ((Zpos (XO (XI (XO (XO (XI (XI
    XH))))))) :: ((Zpos (XI (XO (XI (XO (XO (XI XH))))))) :: ((Zpos (XO (XI
    (XI (XO (XI (XI XH))))))) :: ((Zpos (XI (XO (XO (XI (XO (XI
    XH))))))) :: ((Zpos (XI (XO (XI (XO (XO (XI XH))))))) :: ((Zpos (XI (XI
    (XI (XO (XI (XI XH))))))) :: []))))))))))))))) :: [])) :: ((((Zpos (XO
    (XI (XO (XO (XI (XI XH))))))) :: ((Zpos (XI (XO (XI (XO (XO (XI
    XH))))))) :: ((Zpos (XO (XO (XO (XO (XI (XI XH))))))) :: ((Zpos (XO (XO
    (XI (XI (XO (XI XH))))))) :: ((Zpos (XI (XO (XO (XO (XO (XI
    XH))))))) :: ((Zpos (XI (XI (XO (XO (XO (XI XH))))))) :: ((Zpos (XI (XO
    (XI (XO (XO (XI XH))))))) :: ((Zpos (XI (XO (XI (XI (XO
    XH)))))) :: ((Zpos (XI (XO (XO (XO (XI (XI XH))))))) :: ((Zpos (XI (XO
    (XI (XO (XI (XI XH))))))) :: ((Zpos (XI (XO (XI (XO (XO (XI
    XH))))))) :: ((Zpos (XO (XI (XO (XO (XI (XI XH))))))) :: ((Zpos (XI (XO
    (XO (XI (XI (XI XH))))))) :: []))))))))))))), (((Zpos (XO (XI (XO (XO (XI
    (XI XH))))))) :: ((Zpos (XI (XO (XI (XO (XO (XI XH))))))) :: ((Zpos (XO
    (XO (XO (XO (XI (XI XH))))))) :: ((Zpos (XO (XO (XI (XI (XO (XI
    XH))))))) :: ((Zpos (XI (XO (XO (XO (XO (XI XH))))))) :: ((Zpos (XI (XI
    (XO (XO (XO (XI XH))))))) :: ((Zpos (XI (XO (XI (XO (XO (XI
    XH))))))) :: ((Zpos (XI (XO (XI (XI (XO XH)))))) :: ((Zpos (XI (XO (XO
    (XO (XI (XI XH))))))) :: ((Zpos (XI (XO (XI (XO (XI (XI
    XH))))))) :: ((Zpos (XI (XO (XI (XO (XO (XI XH))))))) :: ((Zpos (XO (XI
    (XO (XO (XI (XI XH))))))) :: ((Zpos (XI (XO (XO (XI (XI (XI
    XH))))))) :: []))))))))))))) :: [])) :: ((((Zpos (XO (XI (XO (XO (XO (XI
    XH))))))) :: ((Zpos (XI (XO (XO (XO (XO (XI XH))))))) :: ((Zpos (XI (XI
    (XO (XO (XO (XI XH))))))) :: ((Zpos (XI (XI (XO (XI (XO (XI
    XH))))))) :: ((Zpos (XI (XI (XI (XO (XI (XI XH))))))) :: ((Zpos (XI (XO
    (XO (XO (XO (XI XH))))))) :: ((Zpos (XO (XI (XO (XO (XI (XI
    XH))))))) :: ((Zpos (XO (XO (XI (XO (XO (XI XH))))))) :: ((Zpos (XI (XO
    (XI (XI (XO XH)))))) :: ((Zpos (XI (XI (XO (XO (XO (XI
    XH))))))) :: ((Zpos (XO (XO (XO (XI (XO (XI XH))))))) :: ((Zpos (XI (XO
    (XO (XO (XO (XI XH))))))) :: ((Zpos (XO (XI (XO (XO (XI (XI
    XH))))))) :: []))))))))))))), (((Zpos (XO (XI (XO (XO (XO (XI
    XH))))))) :: ((Zpos (XI (XO (XO (XO (XO (XI XH))))))) :: ((Zpos (XI (XI
    (XO (XO (XO (XI XH))))))) :: ((Zpos (XI (XI (XO (XI (XO (XI
    XH))))))) :: ((Zpos (XI (XI (XI (XO (XI (XI XH))))))) :: ((Zpos (XI (XO
    (XO (XO (XO (XI XH))))))) :: ((Zpos (XO (XI (XO (XO (XI (XI
    XH))))))) :: ((Zpos (XO (XO (XI (XO (XO (XI XH))))))) :: ((Zpos (XI (XO
    (XI (XI (XO XH)))))) :: ((Zpos (XI (XI (XO (XO (XO (XI
    XH))))))) :: ((Zpos (XO (XO (XO (XI (XO (XI XH))))))) :: ((Zpos (XI (XO
    (XO (XO (XO (XI XH))))))) :: ((Zpos (XO (XI (XO (XO (XI (XI
    XH))))))) :: []))))))))))))) :: [])) :: ((((Zpos (XO (XI (XO (XO (XO (XI
    XH))))))) :: ((Zpos (XI (XO (XO (XO (XO (XI XH))))))) :: ((Zpos (XI (XI
    (XO (XO (XO (XI XH))))))) :: ((Zpos (XI (XI (XO (XI (XO (XI
    XH))))))) :: ((Zpos (XI (XI (XI (XO (XI (XI XH))))))) :: ((Zpos (XI (XO
    (XO (XO (XO (XI XH))))))) :: ((Zpos (XO (XI (XO (XO (XI (XI
    XH))))))) :: ((Zpos (XO (XO (XI (XO (XO (XI XH))))))) :: ((Zpos (XI (XO
    (XI (XI (XO XH)))))) :: ((Zpos (XO (XO (XI (XO (XO (XI
    XH))))))) :: ((Zpos (XI (XO (XI (XO (XO (XI XH))))))) :: ((Zpos (XO (XO
    (XI (XI (XO (XI XH))))))) :: ((Zpos (XI (XO (XI (XO (XO (XI
    XH))))))) :: ((Zpos (XO (XO (XI (XO (XI (XI XH))))))) :: ((Zpos (XI (XO
    (XI (XO (XO (XI XH))))))) :: ((Zpos (XI (XO (XI (XI (XO
    XH)))))) :: ((Zpos (XI (XI (XO (XO (XO (XI XH))))))) :: ((Zpos (XO (XO
    (XO (XI (XO (XI XH))))))) :: ((Zpos (XI (XO (XO (XO (XO (XI
    XH))))))) :: ((Zpos (XO (XI (XO (XO (XI (XI
    XH))))))) :: [])))))))))))))))))))), (((Zpos (XO (XI (XO (XO (XO (XI
    XH))))))) :: ((Zpos (XI (XO (XO (XO (XO (XI XH))))))) :: ((Zpos (XI (XI
    (XO (XO (XO (XI XH))))))) :: ((Zpos (XI (XI (XO (XI (XO (XI
    XH))))))) :: ((Zpos (XI (XI (XI (XO (XI (XI XH))))))) :: ((Zpos (XI (XO
    (XO (XO (XO (XI XH))))))) :: ((Zpos (XO (XI (XO (XO (XI (XI
    XH))))))) :: ((Zpos (XO (XO (XI (XO (XO (XI XH))))))) :: ((Zpos (XI (XO
    (XI (XI (XO XH)))))) :: ((Zpos (XO (XO (XI (XO (XO (XI
    XH))))))) :: ((Zpos (XI (XO (XI (XO (XO (XI XH))))))) :: ((Zpos (XO (XO
    (XI (XI (XO (XI XH))))))) :: ((Zpos (XI (XO (XI (XO (XO (XI
    XH))))))) :: ((Zpos (XO (XO (XI (XO (XI (XI XH))))))) :: ((Zpos (XI (XO
    (XI (XO (XO (XI XH))))))) :: ((Zpos (XI (XO (XI (XI (XO
    XH)))))) :: ((Zpos (XI (XI (XO (XO (XO (XI XH))))))) :: ((Zpos (XO (XO
    (XO (XI (XO (XI XH))))))) :: ((Zpos (XI (XO (XO (XO (XO (XI
    XH))))))) :: ((Zpos (XO (XI (XO (XO (XI (XI
    XH))))))) :: [])))))))))))))))))))) :: [])) :: ((((Zpos (XO (XI (XO (XO
    (XO (XI XH))))))) :: ((Zpos (XI (XO (XO (XO (XO (XI XH))))))) :: ((Zpos
    (XI (XI (XO (XO (XO (XI XH))))))) :: ((Zpos (XI (XI (XO (XI (XO (XI
    XH))))))) :: ((Zpos (XI (XI (XI (XO (XI (XI XH))))))) :: ((Zpos (XI (XO
    (XO (XO (XO (XI XH))))))) :: ((Zpos (XO (XI (XO (XO (XI (XI
    XH))))))) :: ((Zpos (XO (XO (XI (XO (XO (XI XH))))))) :: ((Zpos (XI (XO
    (XI (XI (XO XH)))))) :: ((Zpos (XO (XO (XI (XO (XO (XI
    XH))))))) :: ((Zpos (XI (XO (XI (XO (XO (XI XH))))))) :: ((Zpos (XO (XO
    (XI (XI (XO (XI XH))))))) :: ((Zpos (XI (XO (XI (XO (XO (XI
    XH))))))) :: ((Zpos (XO (XO (XI (XO (XI (XI XH))))))) :: ((Zpos (XI (XO
    (XI (XO (XO (XI XH))))))) :: ((Zpos (XI (XO (XI (XI (XO
    XH)))))) :: ((Zpos (XI (XI (XO (XO (XO (XI XH))))))) :: ((Zpos (XO (XO
    (XO (XI (XO (XI XH))))))) :: ((Zpos (XI (XO (XO (XO (XO (XI
    XH))))))) :: ((Zpos (XO (XI (XO (XO (XI (XI XH))))))) :: ((Zpos (XI (XI
    (XI (XI (XO XH)))))) :: ((Zpos (XI (XO (XI (XO (XO (XI
    XH))))))) :: ((Zpos (XI (XI (XI (XI (XO (XI XH))))))) :: ((Zpos (XO (XI
    (XI (XO (XO (XI XH))))))) :: [])))))))))))))))))))))))), (((Zpos (XO (XI
    (XO (XO (XO (XI XH))))))) :: ((Zpos (XI (XO (XO (XO (XO (XI
    XH))))))) :: ((Zpos (XI (XI (XO (XO (XO (XI XH))))))) :: ((Zpos (XI (XI
    (XO (XI (XO (XI XH))))))) :: ((Zpos (XI (XI (XI (XO (XI (XI
    XH))))))) :: ((Zpos (XI (XO (XO (XO (XO (XI XH))))))) :: ((Zpos (XO (XI
    (XO (XO (XI (XI XH))))))) :: ((Zpos (XO (XO (XI (XO (XO (XI
    XH))))))) :: ((Zpos (XI (XO (XI (XI (XO XH)))))) :: ((Zpos (XO (XO (XI
    (XO (XO (XI XH))))))) :: ((Zpos (XI (XO (XI (XO (XO (XI
    XH))))))) :: ((Zpos (XO (XO (XI (XI (XO (XI XH))))))) :: ((Zpos (XI (XO
    (XI (XO (XO (XI XH))))))) :: ((Zpos (XO (XO (XI (XO (XI (XI
    XH))))))) :: ((Zpos (XI (XO (XI (XO (XO (XI XH))))))) :: ((Zpos (XI (XO
    (XI (XI (XO XH)))))) :: ((Zpos (XI (XI (XO (XO (XO (XI
    XH))))))) :: ((Zpos (XO (XO (XO (XI (XO (XI XH))))))) :: ((Zpos (XI (XO
    (XO (XO (XO (XI XH))))))) :: ((Zpos (XO (XI (XO (XO (XI (XI
    XH))))))) :: ((Zpos (XI (XO (XI (XI (XO XH)))))) :: ((Zpos (XI (XO (XI
    (XO (XO (XI XH))))))) :: ((Zpos (XI (XI (XI (XI (XO (XI
    XH))))))) :: ((Zpos (XO (XI (XI (XO (XO (XI
    XH))))))) :: [])))))))))))))))))))))))) :: [])) :: ((((Zpos (XO (XI (XO
    (XO (XO (XI XH))))))) :: ((Zpos (XI (XO (XO (XO (XO (XI
    XH))))))) :: ((Zpos (XI (XI (XO (XO (XO (XI XH))))))) :: ((Zpos (XI (XI
    (XO (XI (XO (XI XH))))))) :: ((Zpos (XI (XI (XI (XO (XI (XI
    XH))))))) :: ((Zpos (XI (XO (XO (XO (XO (XI XH))))))) :: ((Zpos (XO (XI
    (XO (XO (XI (XI XH))))))) :: ((Zpos (XO (XO (XI (XO (XO (XI
    XH))))))) :: ((Zpos (XI (XO (XI (XI (XO XH)))))) :: ((Zpos (XI (XI (XI
    (XO (XI (XI XH))))))) :: ((Zpos (XI (XI (XI (XI (XO (XI
    XH))))))) :: ((Zpos (XO (XI (XO (XO (XI (XI XH))))))) :: ((Zpos (XO (XO
    (XI (XO (XO (XI XH))))))) :: []))))))))))))), (((Zpos (XO (XI (XO (XO (XO
    (XI XH))))))) :: ((Zpos (XI (XO (XO (XO (XO (XI XH))))))) :: ((Zpos (XI
    (XI (XO (XO (XO (XI XH))))))) :: ((Zpos (XI (XI (XO (XI (XO (XI
    XH))))))) :: ((Zpos (XI (XI (XI (XO (XI (XI XH))))))) :: ((Zpos (XI (XO
    (XO (XO (XO (XI XH))))))) :: ((Zpos (XO (XI (XO (XO (XI (XI
    XH))))))) :: ((Zpos (XO (XO (XI (XO (XO (XI XH))))))) :: ((Zpos (XI (XO
    (XI (XI (XO XH)))))) :: ((Zpos (XI (XI (XI (XO (XI (XI
    XH))))))) :: ((Zpos (XI (XI (XI (XI (XO (XI XH))))))) :: ((Zpos (XO (XI
    (XO (XO (XI (XI XH))))))) :: ((Zpos (XO (XO (XI (XO (XO (XI
    XH))))))) :: []))))))))))))) :: [])) :: ((((Zpos (XI (XI (XO (XO (XO (XI
    XH))))))) :: ((Zpos (XO (XO (XI (XI (XO (XI XH))))))) :: ((Zpos (XI (XO
    (XI (XO (XO (XI XH))))))) :: ((Zpos (XI (XO (XO (XO (XO (XI
    XH))))))) :: ((Zpos (XO (XI (XO (XO (XI (XI XH))))))) :: ((Zpos (XI (XO
    (XI (XI (XO XH)))))) :: ((Zpos (XI (XI (XO (XO (XI (XI
    XH))))))) :: ((Zpos (XI (XI (XO (XO (XO (XI XH))))))) :: ((Zpos (XO (XI
    (XO (XO (XI (XI XH))))))) :: ((Zpos (XI (XO (XI (XO (XO (XI
    XH))))))) :: ((Zpos (XI (XO (XI (XO (XO (XI XH))))))) :: ((Zpos (XO (XI
    (XI (XI (XO (XI XH))))))) :: [])))))))))))), (((Zpos (XI (XI (XO (XO (XO
    (XI XH))))))) :: ((Zpos (XO (XO (XI (XI (XO (XI XH))))))) :: ((Zpos (XI
    (XO (XI (XO (XO (XI XH))))))) :: ((Zpos (XI (XO (XO (XO (XO (XI
    XH))))))) :: ((Zpos (XO (XI (XO (XO (XI (XI XH))))))) :: ((Zpos (XI (XO
    (XI (XI (XO XH)))))) :: ((Zpos (XI (XI (XO (XO (XI (XI
    XH))))))) :: ((Zpos (XI (XI (XO (XO (XO (XI XH))))))) :: ((Zpos (XO (XI
    (XO (XO (XI (XI XH))))))) :: ((Zpos (XI (XO (XI (XO (XO (XI
    XH))))))) :: ((Zpos (XI (XO (XI (XO (XO (XI XH))))))) :: ((Zpos (XO (XI
    (XI (XI (XO (XI XH))))))) :: [])))))))))))) :: [])) :: ((((Zpos (XO (XO
    (XI (XO (XO (XI XH))))))) :: ((Zpos (XI (XO (XI (XO (XO (XI
    XH))))))) :: ((Zpos (XO (XO (XI (XI (XO (XI XH))))))) :: ((Zpos (XI (XO
    (XI (XO (XO (XI XH))))))) :: ((Zpos (XO (XO (XI (XO (XI (XI
    XH))))))) :: ((Zpos (XI (XO (XI (XO (XO (XI XH))))))) :: ((Zpos (XI (XO
    (XI (XI (XO XH)))))) :: ((Zpos (XI (XI (XO (XO (XO (XI
    XH))))))) :: ((Zpos (XO (XO (XO (XI (XO (XI XH))))))) :: ((Zpos (XI (XO
    (XO (XO (XO (XI XH))))))) :: ((Zpos (XO (XI (XO (XO (XI (XI
    XH))))))) :: []))))))))))), (((Zpos (XO (XO (XI (XO (XO (XI
    XH))))))) :: ((Zpos (XI (XO (XI (XO (XO (XI XH))))))) :: ((Zpos (XO (XO
    (XI (XI (XO (XI XH))))))) :: ((Zpos (XI (XO (XI (XO (XO (XI
    XH))))))) :: ((Zpos (XO (XO (XI (XO (XI (XI XH))))))) :: ((Zpos (XI (XO
    (XI (XO (XO (XI XH))))))) :: ((Zpos (XI (XO (XI (XI (XO
    XH)))))) :: ((Zpos (XI (XI (XO (XO (XO (XI XH))))))) :: ((Zpos (XO (XO
    (XO (XI (XO (XI XH))))))) :: ((Zpos (XI (XO (XO (XO (XO (XI
    XH))))))) :: ((Zpos (XO (XI (XO (XO (XI (XI
    XH))))))) :: []))))))))))) :: [])) :: ((((Zpos (XO (XO (XI (XO (XO (XI
    XH))))))) :: ((Zpos (XI (XO (XI (XO (XO (XI XH))))))) :: ((Zpos (XO (XO
    (XI (XI (XO (XI XH))))))) :: ((Zpos (XI (XO (XI (XO (XO (XI
    XH))))))) :: ((Zpos (XO (XO (XI (XO (XI (XI XH))))))) :: ((Zpos (XI (XO
    (XI (XO (XO (XI XH))))))) :: ((Zpos (XI (XO (XI (XI (XO
    XH)))))) :: ((Zpos (XI (XI (XO (XO (XO (XI XH))))))) :: ((Zpos (XO (XO
    (XO (XI (XO (XI XH))))))) :: ((Zpos (XI (XO (XO (XO (XO (XI
    XH))))))) :: ((Zpos (XO (XI (XO (XO (XI (XI XH))))))) :: ((Zpos (XI (XI
    (XI (XI (XO XH)))))) :: ((Zpos (XI (XO (XI (XO (XO (XI
    XH))))))) :: ((Zpos (XI (XI (XI (XI (XO (XI XH))))))) :: ((Zpos (XO (XI
    (XI (XO (XO (XI XH))))))) :: []))))))))))))))), (((Zpos (XO (XO (XI (XO
    (XO (XI XH))))))) :: ((Zpos (XI (XO (XI (XO (XO (XI XH))))))) :: ((Zpos
    (XO (XO (XI (XI (XO (XI XH))))))) :: ((Zpos (XI (XO (XI (XO (XO (XI
    XH))))))) :: ((Zpos (XO (XO (XI (XO (XI (XI XH))))))) :: ((Zpos (XI (XO
    (XI (XO (XO (XI XH))))))) :: ((Zpos (XI (XO (XI (XI (XO
    XH)))))) :: ((Zpos (XI (XI (XO (XO (XO (XI XH))))))) :: ((Zpos (XO (XO
    (XO (XI (XO (XI XH))))))) :: ((Zpos (XI (XO (XO (XO (XO (XI
    XH))))))) :: ((Zpos (XO (XI (XO (XO (XI (XI XH))))))) :: ((Zpos (XI (XO
    (XI (XI (XO XH)))))) :: ((Zpos (XI (XO (XI (XO (XO (XI
    XH))))))) :: ((Zpos (XI (XI (XI (XI (XO (XI XH))))))) :: ((Zpos (XO (XI
    (XI (XO (XO (XI XH))))))) :: []))))))))))))))) :: [])) :: ((((Zpos (XO
    (XO (XI (XO (XO (XI XH))))))) :: ((Zpos (XI (XO (XI (XO (XO (XI
    XH))))))) :: ((Zpos (XI (XI (XO (XO (XI (XI XH))))))) :: ((Zpos (XI (XO
    (XI (XO (XO (XI XH))))))) :: ((Zpos (XO (XO (XI (XI (XO (XI
    XH))))))) :: ((Zpos (XI (XO (XI (XO (XO (XI XH))))))) :: ((Zpos (XI (XI
    (XO (XO (XO (XI XH))))))) :: ((Zpos (XO (XO (XI (XO (XI (XI
    XH))))))) :: [])))))))), (((Zpos (XO (XO (XI (XO (XO (XI
    XH))))))) :: ((Zpos (XI (XO (XI (XO (XO (XI XH))))))) :: ((Zpos (XI (XI
    (XO (XO (XI (XI XH))))))) :: ((Zpos (XI (XO (XI (XO (XO (XI
    XH))))))) :: ((Zpos (XO (XO (XI (XI (XO (XI XH))))))) :: ((Zpos (XI (XO
    (XI (XO (XO (XI XH))))))) :: ((Zpos (XI (XI (XO (XO (XO (XI
    XH))))))) :: ((Zpos (XO (XO (XI (XO (XI (XI
    XH))))))) :: [])))))))) :: [])) :: ((((Zpos (XI (XO (XI (XO (XO (XI
    XH))))))) :: ((Zpos (XO (XI (XI (XI (XO (XI XH))))))) :: ((Zpos (XO (XO
    (XI (XO (XO (XI XH))))))) :: ((Zpos (XI (XO (XI (XI (XO
    XH)))))) :: ((Zpos (XI (XI (XI (XI (XO (XI XH))))))) :: ((Zpos (XO (XI
    (XI (XO (XO (XI XH))))))) :: ((Zpos (XI (XO (XI (XI (XO
    XH)))))) :: ((Zpos (XO (XO (XI (XI (XO (XI XH))))))) :: ((Zpos (XI (XO
    (XO (XI (XO (XI XH))))))) :: ((Zpos (XO (XI (XI (XI (XO (XI
    XH))))))) :: ((Zpos (XI (XO (XI (XO (XO (XI XH))))))) :: []))))))))))),
    (((Zpos (XI (XO (XI (XO (XO (XI XH))))))) :: ((Zpos (XO (XI (XI (XI (XO
    (XI XH))))))) :: ((Zpos (XO (XO (XI (XO (XO (XI XH))))))) :: ((Zpos (XI
    (XO (XI (XI (XO XH)))))) :: ((Zpos (XI (XI (XI (XI (XO (XI
    XH))))))) :: ((Zpos (XO (XI (XI (XO (XO (XI XH))))))) :: ((Zpos (XI (XO
    (XI (XI (XO XH)))))) :: ((Zpos (XO (XO (XI (XI (XO (XI
    XH))))))) :: ((Zpos (XI (XO (XO (XI (XO (XI XH))))))) :: ((Zpos (XO (XI
    (XI (XI (XO (XI XH))))))) :: ((Zpos (XI (XO (XI (XO (XO (XI
    XH))))))) :: []))))))))))) :: [])) :: ((((Zpos (XI (XI (XO (XO (XO (XI
    XH))))))) :: ((Zpos (XI (XO (XO (XO (XO (XI XH))))))) :: ((Zpos (XO (XI
    (XI (XI (XO (XI XH))))))) :: ((Zpos (XI (XI (XO (XO (XO (XI
    XH))))))) :: ((Zpos (XI (XO (XI (XO (XO (XI XH))))))) :: ((Zpos (XO (XO
    (XI (XI (XO (XI XH))))))) :: [])))))), (((Zpos (XI (XI (XO (XO (XO (XI
    XH))))))) :: ((Zpos (XI (XO (XO (XO (XO (XI XH))))))) :: ((Zpos (XO (XI
    (XI (XI (XO (XI XH))))))) :: ((Zpos (XI (XI (XO (XO (XO (XI
    XH))))))) :: ((Zpos (XI (XO (XI (XO (XO (XI XH))))))) :: ((Zpos (XO (XO
    (XI (XI (XO (XI XH))))))) :: [])))))) :: [])) :: ((((Zpos (XI (XI (XO (XO
    (XO (XI XH))))))) :: ((Zpos (XO (XO (XI (XI (XO (XI XH))))))) :: ((Zpos
    (XI (XO (XI (XO (XO (XI XH))))))) :: ((Zpos (XI (XO (XO (XO (XO (XI
    XH))))))) :: ((Zpos (XO (XI (XO (XO (XI (XI XH))))))) :: ((Zpos (XI (XO
    (XI (XI (XO XH)))))) :: ((Zpos (XI (XO (XO (XO (XI (XI
    XH))))))) :: ((Zpos (XI (XO (XI (XO (XI (XI XH))))))) :: ((Zpos (XI (XO
    (XI (XO (XO (XI XH))))))) :: ((Zpos (XO (XI (XO (XO (XI (XI
    XH))))))) :: ((Zpos (XI (XO (XO (XI (XI (XI XH))))))) :: []))))))))))),
    (((Zpos (XI (XI (XO (XO (XO (XI XH))))))) :: ((Zpos (XO (XO (XI (XI (XO
    (XI XH))))))) :: ((Zpos (XI (XO (XI (XO (XO (XI XH))))))) :: ((Zpos (XI
    (XO (XO (XO (XO (XI XH))))))) :: ((Zpos (XO (XI (XO (XO (XI (XI
    XH))))))) :: ((Zpos (XI (XO (XI (XI (XO XH)))))) :: ((Zpos (XI (XO (XO
    (XO (XI (XI XH))))))) :: ((Zpos (XI (XO (XI (XO (XI (XI
    XH))))))) :: ((Zpos (XI (XO (XI (XO (XO (XI XH))))))) :: ((Zpos (XO (XI
    (XO (XO (XI (XI XH))))))) :: ((Zpos (XI (XO (XO (XI (XI (XI
    XH))))))) :: []))))))))))) :: [])) :: ((((Zpos (XI (XI (XO (XO (XO (XI
    XH))))))) :: ((Zpos (XO (XO (XI (XI (XO (XI XH))))))) :: ((Zpos (XI (XO
    (XI (XO (XO (XI XH))))))) :: ((Zpos (XI (XO (XO (XO (XO (XI
    XH))))))) :: ((Zpos (XO (XI (XO (XO (XI (XI XH))))))) :: ((Zpos (XI (XO
    (XI (XI (XO XH)))))) :: ((Zpos (XI (XI (XO (XO (XI (XI
    XH))))))) :: ((Zpos (XI (XO (XI (XO (XO (XI XH))))))) :: ((Zpos (XO (XO
    (XI (XI (XO (XI XH))))))) :: ((Zpos (XI (XO (XI (XO (XO (XI
    XH))))))) :: ((Zpos (XI (XI (XO (XO (XO (XI XH))))))) :: ((Zpos (XO (XO
    (XI (XO (XI (XI XH))))))) :: ((Zpos (XI (XO (XO (XI (XO (XI
    XH))))))) :: ((Zpos (XI (XI (XI (XI (XO (XI XH))))))) :: ((Zpos (XO (XI
    (XI (XI (XO (XI XH))))))) :: []))))))))))))))), (((Zpos (XI (XI (XO (XO
    (XO (XI XH))))))) :: ((Zpos (XO (XO (XI (XI (XO (XI XH))))))) :: ((Zpos
    (XI (XO (XI (XO (XO (XI XH))))))) :: ((Zpos (XI (XO (XO (XO (XO (XI
    XH))))))) :: ((Zpos (XO (XI (XO (XO (XI (XI XH))))))) :: ((Zpos (XI (XO
    (XI (XI (XO XH)))))) :: ((Zpos (XI (XI (XO (XO (XI (XI
    XH))))))) :: ((Zpos (XI (XO (XI (XO (XO (XI XH))))))) :: ((Zpos (XO (XO
    (XI (XI (XO (XI XH))))))) :: ((Zpos (XI (XO (XI (XO (XO (XI
    XH))))))) :: ((Zpos (XI (XI (XO (XO (XO (XI XH))))))) :: ((Zpos (XO (XO
    (XI (XO (XI (XI XH))))))) :: ((Zpos (XI (XO (XO (XI (XO (XI
    XH))))))) :: ((Zpos (XI (XI (XI (XI (XO (XI XH))))))) :: ((Zpos (XO (XI
    (XI (XI (XO (XI XH))))))) :: []))))))))))))))) :: [])) :: ((((Zpos (XO
    (XI (XI (XO (XO (XI XH))))))) :: ((Zpos (XI (XI (XI (XI (XO (XI
    XH))))))) :: ((Zpos (XO (XI (XO (XO (XI (XI XH))))))) :: ((Zpos (XI (XI
    (XI (XO (XI (XI XH))))))) :: ((Zpos (XI (XO (XO (XO (XO (XI
    XH))))))) :: ((Zpos (XO (XI (XO (XO (XI (XI XH))))))) :: ((Zpos (XO (XO
    (XI (XO (XO (XI XH))))))) :: ((Zpos (XI (XO (XI (XI (XO
    XH)))))) :: ((Zpos (XI (XI (XO (XO (XO (XI XH))))))) :: ((Zpos (XO (XO
    (XO (XI (XO (XI XH))))))) :: ((Zpos (XI (XO (XO (XO (XO (XI
    XH))))))) :: ((Zpos (XO (XI (XO (XO (XI (XI XH))))))) :: [])))))))))))),
    (((Zpos (XO (XI (XI (XO (XO (XI XH))))))) :: ((Zpos (XI (XI (XI (XI (XO
    (XI XH))))))) :: ((Zpos (XO (XI (XO (XO (XI (XI XH))))))) :: ((Zpos (XI
    (XI (XI (XO (XI (XI XH))))))) :: ((Zpos (XI (XO (XO (XO (XO (XI
    XH))))))) :: ((Zpos (XO (XI (XO (XO (XI (XI XH))))))) :: ((Zpos (XO (XO
    (XI (XO (XO (XI XH))))))) :: ((Zpos (XI (XO (XI (XI (XO
    XH)))))) :: ((Zpos (XI (XI (XO (XO (XO (XI XH))))))) :: ((Zpos (XO (XO
    (XO (XI (XO (XI XH))))))) :: ((Zpos (XI (XO (XO (XO (XO (XI
    XH))))))) :: ((Zpos (XO (XI (XO (XO (XI (XI
    XH))))))) :: [])))))))))))) :: [])) :: ((((Zpos (XO (XI (XI (XO (XO (XI
    XH))))))) :: ((Zpos (XI (XI (XI (XI (XO (XI XH))))))) :: ((Zpos (XO (XI
    (XO (XO (XI (XI XH))))))) :: ((Zpos (XI (XI (XI (XO (XI (XI
    XH))))))) :: ((Zpos (XI (XO (XO (XO (XO (XI XH))))))) :: ((Zpos (XO (XI
    (XO (XO (XI (XI XH))))))) :: ((Zpos (XO (XO (XI (XO (XO (XI
    XH))))))) :: ((Zpos (XI (XO (XI (XI (XO XH)))))) :: ((Zpos (XI (XI (XI
    (XO (XI (XI XH))))))) :: ((Zpos (XI (XI (XI (XI (XO (XI
    XH))))))) :: ((Zpos (XO (XI (XO (XO (XI (XI XH))))))) :: ((Zpos (XO (XO
    (XI (XO (XO (XI XH))))))) :: [])))))))))))), (((Zpos (XO (XI (XI (XO (XO
    (XI XH))))))) :: ((Zpos (XI (XI (XI (XI (XO (XI XH))))))) :: ((Zpos (XO
    (XI (XO (XO (XI (XI XH))))))) :: ((Zpos (XI (XI (XI (XO (XI (XI
    XH))))))) :: ((Zpos (XI (XO (XO (XO (XO (XI XH))))))) :: ((Zpos (XO (XI
    (XO (XO (XI (XI XH))))))) :: ((Zpos (XO (XO (XI (XO (XO (XI
    XH))))))) :: ((Zpos (XI (XO (XI (XI (XO XH)))))) :: ((Zpos (XI (XI (XI
    (XO (XI (XI XH))))))) :: ((Zpos (XI (XI (XI (XI (XO (XI
    XH))))))) :: ((Zpos (XO (XI (XO (XO (XI (XI XH))))))) :: ((Zpos (XO (XO
    (XI (XO (XO (XI XH))))))) :: [])))))))))))) :: [])) :: ((((Zpos (XO (XI
    (XO (XI (XO (XI XH))))))) :: ((Zpos (XI (XO (XI (XO (XI (XI
    XH))))))) :: ((Zpos (XI (XO (XI (XI (XO (XI XH))))))) :: ((Zpos (XO (XO
    (XO (XO (XI (XI XH))))))) :: [])))), (((Zpos (XO (XI (XO (XI (XO (XI
    XH))))))) :: ((Zpos (XI (XO (XI (XO (XI (XI XH))))))) :: ((Zpos (XI (XO
    (XI (XI (XO (XI XH))))))) :: ((Zpos (XO (XO (XO (XO (XI (XI
    XH))))))) :: [])))) :: [])) :: ((((Zpos (XO (XI (XO (XI (XO (XI
    XH))))))) :: ((Zpos (XI (XO (XI (XO (XI (XI XH))))))) :: ((Zpos (XI (XO
    (XI (XI (XO (XI XH))))))) :: ((Zpos (XO (XO (XO (XO (XI (XI
    XH))))))) :: ((Zpos (XI (XO (XI (XI (XO XH)))))) :: ((Zpos (XI (XO (XO
    (XO (XO (XI XH))))))) :: ((Zpos (XI (XI (XO (XO (XO (XI
    XH))))))) :: ((Zpos (XI (XI (XO (XO (XO (XI XH))))))) :: ((Zpos (XI (XO
    (XI (XO (XO (XI XH))))))) :: ((Zpos (XO (XO (XO (XO (XI (XI
    XH))))))) :: ((Zpos (XO (XO (XI (XO (XI (XI XH))))))) :: []))))))))))),
    (((Zpos (XO (XI (XO (XI (XO (XI XH))))))) :: ((Zpos (XI (XO (XI (XO (XI
    (XI XH))))))) :: ((Zpos (XI (XO (XI (XI (XO (XI XH))))))) :: ((Zpos (XO
    (XO (XO (XO (XI (XI XH))))))) :: ((Zpos (XI (XO (XI (XI (XO
    XH)))))) :: ((Zpos (XI (XO (XO (XO (XO (XI XH))))))) :: ((Zpos (XI (XI
    (XO (XO (XO (XI XH))))))) :: ((Zpos (XI (XI (XO (XO (XO (XI
    XH))))))) :: ((Zpos (XI (XO (XI (XO (XO (XI XH))))))) :: ((Zpos (XO (XO
    (XO (XO (XI (XI XH))))))) :: ((Zpos (XO (XO (XI (XO (XI (XI
    XH))))))) :: []))))))))))) :: [])) :: ((((Zpos (XI (XI (XO (XI (XO (XI
    XH))))))) :: ((Zpos (XI (XO (XO (XI (XO (XI XH))))))) :: ((Zpos (XO (XO
    (XI (XI (XO (XI XH))))))) :: ((Zpos (XO (XO (XI (XI (XO (XI
    XH))))))) :: ((Zpos (XI (XO (XI (XI (XO XH)))))) :: ((Zpos (XO (XO (XI
    (XI (XO (XI XH))))))) :: ((Zpos (XI (XO (XO (XI (XO (XI
    XH))))))) :: ((Zpos (XO (XI (XI (XI (XO (XI XH))))))) :: ((Zpos (XI (XO
    (XI (XO (XO (XI XH))))))) :: []))))))))), (((Zpos (XI (XI (XO (XI (XO (XI
    XH))))))) :: ((Zpos (XI (XO (XO (XI (XO (XI XH))))))) :: ((Zpos (XO (XO
    (XI (XI (XO (XI XH))))))) :: ((Zpos (XO (XO (XI (XI (XO (XI
    XH))))))) :: ((Zpos (XI (XO (XI (XI (XO XH)))))) :: ((Zpos (XO (XO (XI
    (XI (XO (XI XH))))))) :: ((Zpos (XI (XO (XO (XI (XO (XI
    XH))))))) :: ((Zpos (XO (XI (XI (XI (XO (XI XH))))))) :: ((Zpos (XI (XO
    (XI (XO (XO (XI XH))))))) :: []))))))))) :: [])) :: ((((Zpos (XI (XI (XO
    (XI (XO (XI XH))))))) :: ((Zpos (XI (XO (XO (XI (XO (XI
    XH))))))) :: ((Zpos (XO (XO (XI (XI (XO (XI XH))))))) :: ((Zpos (XO (XO
    (XI (XI (XO (XI XH))))))) :: ((Zpos (XI (XO (XI (XI (XO
    XH)))))) :: ((Zpos (XI (XI (XI (XO (XI (XI XH))))))) :: ((Zpos (XI (XI
    (XI (XI (XO (XI XH))))))) :: ((Zpos (XO (XI (XO (XO (XI (XI
    XH))))))) :: ((Zpos (XO (XO (XI (XO (XO (XI XH))))))) :: []))))))))),
    (((Zpos (XI (XI (XO (XI (XO (XI XH))))))) :: ((Zpos (XI (XO (XO (XI (XO
    (XI XH))))))) :: ((Zpos (XO (XO (XI (XI (XO (XI XH))))))) :: ((Zpos (XO
    (XO (XI (XI (XO (XI XH))))))) :: ((Zpos (XI (XO (XI (XI (XO
    XH)))))) :: ((Zpos (XI (XI (XI (XO (XI (XI XH))))))) :: ((Zpos (XI (XI
    (XI (XI (XO (XI XH))))))) :: ((Zpos (XO (XI (XO (XO (XI (XI
    XH))))))) :: ((Zpos (XO (XO (XI (XO (XO (XI
    XH))))))) :: []))))))))) :: [])) :: ((((Zpos (XI (XO (XI (XO (XI (XI
    XH))))))) :: ((Zpos (XO (XI (XI (XI (XO (XI XH))))))) :: ((Zpos (XI (XO
    (XO (XI (XO (XI XH))))))) :: ((Zpos (XO (XO (XO (XI (XI (XI
    XH))))))) :: ((Zpos (XI (XO (XI (XI (XO XH)))))) :: ((Zpos (XO (XO (XI
    (XI (XO (XI XH))))))) :: ((Zpos (XI (XO (XO (XI (XO (XI
    XH))))))) :: ((Zpos (XO (XI (XI (XI (XO (XI XH))))))) :: ((Zpos (XI (XO
    (XI (XO (XO (XI XH))))))) :: ((Zpos (XI (XO (XI (XI (XO
    XH)))))) :: ((Zpos (XO (XO (XI (XO (XO (XI XH))))))) :: ((Zpos (XI (XO
    (XO (XI (XO (XI XH))))))) :: ((Zpos (XI (XI (XO (XO (XI (XI
    XH))))))) :: ((Zpos (XI (XI (XO (XO (XO (XI XH))))))) :: ((Zpos (XI (XO
    (XO (XO (XO (XI XH))))))) :: ((Zpos (XO (XI (XO (XO (XI (XI
    XH))))))) :: ((Zpos (XO (XO (XI (XO (XO (XI
    XH))))))) :: []))))))))))))))))), (((Zpos (XI (XO (XI (XO (XI (XI
    XH))))))) :: ((Zpos (XO (XI (XI (XI (XO (XI XH))))))) :: ((Zpos (XI (XO
    (XO (XI (XO (XI XH))))))) :: ((Zpos (XO (XO (XO (XI (XI (XI
    XH))))))) :: ((Zpos (XI (XO (XI (XI (XO XH)))))) :: ((Zpos (XO (XO (XI
    (XI (XO (XI XH))))))) :: ((Zpos (XI (XO (XO (XI (XO (XI
    XH))))))) :: ((Zpos (XO (XI (XI (XI (XO (XI XH))))))) :: ((Zpos (XI (XO
    (XI (XO (XO (XI XH))))))) :: ((Zpos (XI (XO (XI (XI (XO
    XH)))))) :: ((Zpos (XO (XO (XI (XO (XO (XI XH))))))) :: ((Zpos (XI (XO
    (XO (XI (XO (XI XH))))))) :: ((Zpos (XI (XI (XO (XO (XI (XI
    XH))))))) :: ((Zpos (XI (XI (XO (XO (XO (XI XH))))))) :: ((Zpos (XI (XO
    (XO (XO (XO (XI XH))))))) :: ((Zpos (XO (XI (XO (XO (XI (XI
    XH))))))) :: ((Zpos (XO (XO (XI (XO (XO (XI
    XH))))))) :: []))))))))))))))))) :: [])) :: ((((Zpos (XO (XO (XI (XI (XO
    (XI XH))))))) :: ((Zpos (XI (XO (XO (XI (XO (XI XH))))))) :: ((Zpos (XO
    (XI (XI (XI (XO (XI XH))))))) :: ((Zpos (XI (XO (XI (XO (XO (XI
    XH))))))) :: ((Zpos (XI (XO (XI (XI (XO XH)))))) :: ((Zpos (XO (XO (XI
    (XO (XO (XI XH))))))) :: ((Zpos (XI (XO (XO (XI (XO (XI
    XH))))))) :: ((Zpos (XI (XI (XO (XO (XI (XI XH))))))) :: ((Zpos (XI (XI
    (XO (XO (XO (XI XH))))))) :: ((Zpos (XI (XO (XO (XO (XO (XI
    XH))))))) :: ((Zpos (XO (XI (XO (XO (XI (XI XH))))))) :: ((Zpos (XO (XO
    (XI (XO (XO (XI XH))))))) :: [])))))))))))), (((Zpos (XI (XO (XI (XO (XI
    (XI XH))))))) :: ((Zpos (XO (XI (XI (XI (XO (XI XH))))))) :: ((Zpos (XI
    (XO (XO (XI (XO (XI XH))))))) :: ((Zpos (XO (XO (XO (XI (XI (XI
    XH))))))) :: ((Zpos (XI (XO (XI (XI (XO XH)))))) :: ((Zpos (XO (XO (XI
    (XI (XO (XI XH))))))) :: ((Zpos (XI (XO (XO (XI (XO (XI
    XH))))))) :: ((Zpos (XO (XI (XI (XI (XO (XI XH))))))) :: ((Zpos (XI (XO
    (XI (XO (XO (XI XH))))))) :: ((Zpos (XI (XO (XI (XI (XO
    XH)))))) :: ((Zpos (XO (XO (XI (XO (XO (XI XH))))))) :: ((Zpos (XI (XO
    (XO (XI (XO (XI XH))))))) :: ((Zpos (XI (XI (XO (XO (XI (XI
    XH))))))) :: ((Zpos (XI (XI (XO (XO (XO (XI XH))))))) :: ((Zpos (XI (XO
    (XO (XO (XO (XI XH))))))) :: ((Zpos (XO (XI (XO (XO (XI (XI
    XH))))))) :: ((Zpos (XO (XO (XI (XO (XO (XI
    XH))))))) :: []))))))))))))))))) :: [])) :: ((((Zpos (XI (XO (XI (XO (XI
    (XI XH))))))) :: ((Zpos (XO (XI (XI (XI (XO (XI XH))))))) :: ((Zpos (XI
    (XO (XO (XI (XO (XI XH))))))) :: ((Zpos (XO (XO (XO (XI (XI (XI
    XH))))))) :: ((Zpos (XI (XO (XI (XI (XO XH)))))) :: ((Zpos (XI (XI (XI
    (XO (XI (XI XH))))))) :: ((Zpos (XI (XI (XI (XI (XO (XI
    XH))))))) :: ((Zpos (XO (XI (XO (XO (XI (XI XH))))))) :: ((Zpos (XO (XO
    (XI (XO (XO (XI XH))))))) :: ((Zpos (XI (XO (XI (XI (XO
    XH)))))) :: ((Zpos (XO (XI (XO (XO (XI (XI XH))))))) :: ((Zpos (XI (XO
    (XI (XO (XI (XI XH))))))) :: ((Zpos (XO (XI (XO (XO (XO (XI
    XH))))))) :: ((Zpos (XI (XI (XI (XI (XO (XI XH))))))) :: ((Zpos (XI (XO
    (XI (XO (XI (XI XH))))))) :: ((Zpos (XO (XO (XI (XO (XI (XI
    XH))))))) :: [])))))))))))))))), (((Zpos (XI (XO (XI (XO (XI (XI
    XH))))))) :: ((Zpos (XO (XI (XI (XI (XO (XI XH))))))) :: ((Zpos (XI (XO
    (XO (XI (XO (XI XH))))))) :: ((Zpos (XO (XO (XO (XI (XI (XI
    XH))))))) :: ((Zpos (XI (XO (XI (XI (XO XH)))))) :: ((Zpos (XI (XI (XI
    (XO (XI (XI XH))))))) :: ((Zpos (XI (XI (XI (XI (XO (XI
    XH))))))) :: ((Zpos (XO (XI (XO (XO (XI (XI XH))))))) :: ((Zpos (XO (XO
    (XI (XO (XO (XI XH))))))) :: ((Zpos (XI (XO (XI (XI (XO
    XH)))))) :: ((Zpos (XO (XI (XO (XO (XI (XI XH))))))) :: ((Zpos (XI (XO
    (XI (XO (XI (XI XH))))))) :: ((Zpos (XO (XI (XO (XO (XO (XI
    XH))))))) :: ((Zpos (XI (XI (XI (XI (XO (XI XH))))))) :: ((Zpos (XI (XO
    (XI (XO (XI (XI XH))))))) :: ((Zpos (XO (XO (XI (XO (XI (XI
    XH))))))) :: [])))))))))))))))) :: [])) :: ((((Zpos (XI (XI (XI (XO (XI
    (XI XH))))))) :: ((Zpos (XI (XI (XI (XI (XO (XI XH))))))) :: ((Zpos (XO
    (XI (XO (XO (XI (XI XH))))))) :: ((Zpos (XO (XO (XI (XO (XO (XI
    XH))))))) :: ((Zpos (XI (XO (XI (XI (XO XH)))))) :: ((Zpos (XO (XI (XO
    (XO (XI (XI XH))))))) :: ((Zpos (XI (XO (XI (XO (XI (XI
    XH))))))) :: ((Zpos (XO (XI (XO (XO (XO (XI XH))))))) :: ((Zpos (XI (XI
    (XI (XI (XO (XI XH))))))) :: ((Zpos (XI (XO (XI (XO (XI (XI
    XH))))))) :: ((Zpos (XO (XO (XI (XO (XI (XI XH))))))) :: []))))))))))),
    (((Zpos (XI (XO (XI (XO (XI (XI XH))))))) :: ((Zpos (XO (XI (XI (XI (XO
    (XI XH))))))) :: ((Zpos (XI (XO (XO (XI (XO (XI XH))))))) :: ((Zpos (XO
    (XO (XO (XI (XI (XI XH))))))) :: ((Zpos (XI (XO (XI (XI (XO
    XH)))))) :: ((Zpos (XI (XI (XI (XO (XI (XI XH))))))) :: ((Zpos (XI (XI
    (XI (XI (XO (XI XH))))))) :: ((Zpos (XO (XI (XO (XO (XI (XI
    XH))))))) :: ((Zpos (XO (XO (XI (XO (XO (XI XH))))))) :: ((Zpos (XI (XO
    (XI (XI (XO XH)))))) :: ((Zpos (XO (XI (XO (XO (XI (XI
    XH))))))) :: ((Zpos (XI (XO (XI (XO (XI (XI XH))))))) :: ((Zpos (XO (XI
    (XO (XO (XO (XI XH))))))) :: ((Zpos (XI (XI (XI (XI (XO (XI
    XH))))))) :: ((Zpos (XI (XO (XI (XO (XI (XI XH))))))) :: ((Zpos (XO (XO
    (XI (XO (XI (XI XH))))))) :: [])))))))))))))))) :: [])) :: ((((Zpos (XI
    (XO (XO (XI (XI (XI XH))))))) :: ((Zpos (XI (XO (XO (XO (XO (XI
    XH))))))) :: ((Zpos (XO (XI (XI (XI (XO (XI XH))))))) :: ((Zpos (XI (XI
    (XO (XI (XO (XI XH))))))) :: [])))), (((Zpos (XI (XO (XO (XI (XI (XI
    XH))))))) :: ((Zpos (XI (XO (XO (XO (XO (XI XH))))))) :: ((Zpos (XO (XI
    (XI (XI (XO (XI XH))))))) :: ((Zpos (XI (XI (XO (XI (XO (XI
    XH))))))) :: [])))) :: [])) :: ((((Zpos (XO (XI (XO (XO (XO (XI
    XH))))))) :: ((Zpos (XI (XO (XO (XO (XO (XI XH))))))) :: ((Zpos (XI (XI
    (XO (XO (XO (XI XH))))))) :: ((Zpos (XI (XI (XO (XI (XO (XI
    XH))))))) :: ((Zpos (XI (XI (XI (XO (XI (XI XH))))))) :: ((Zpos (XI (XO
    (XO (XO (XO (XI XH))))))) :: ((Zpos (XO (XI (XO (XO (XI (XI
    XH))))))) :: ((Zpos (XO (XO (XI (XO (XO (XI XH))))))) :: ((Zpos (XI (XO
    (XI (XI (XO XH)))))) :: ((Zpos (XI (XI (XO (XI (XO (XI
    XH))))))) :: ((Zpos (XI (XO (XO (XI (XO (XI XH))))))) :: ((Zpos (XO (XO
    (XI (XI (XO (XI XH))))))) :: ((Zpos (XO (XO (XI (XI (XO (XI
    XH))))))) :: ((Zpos (XI (XO (XI (XI (XO XH)))))) :: ((Zpos (XI (XI (XI
    (XO (XI (XI XH))))))) :: ((Zpos (XI (XI (XI (XI (XO (XI
    XH))))))) :: ((Zpos (XO (XI (XO (XO (XI (XI XH))))))) :: ((Zpos (XO (XO
    (XI (XO (XO (XI XH))))))) :: [])))))))))))))))))), (((Zpos (XO (XI (XO
    (XO (XO (XI XH))))))) :: ((Zpos (XI (XO (XO (XO (XO (XI
    XH))))))) :: ((Zpos (XI (XI (XO (XO (XO (XI XH))))))) :: ((Zpos (XI (XI
    (XO (XI (XO (XI XH))))))) :: ((Zpos (XI (XI (XI (XO (XI (XI
    XH))))))) :: ((Zpos (XI (XO (XO (XO (XO (XI XH))))))) :: ((Zpos (XO (XI
    (XO (XO (XI (XI XH))))))) :: ((Zpos (XO (XO (XI (XO (XO (XI
    XH))))))) :: ((Zpos (XI (XO (XI (XI (XO XH)))))) :: ((Zpos (XI (XI (XO
    (XI (XO (XI XH))))))) :: ((Zpos (XI (XO (XO (XI (XO (XI
    XH))))))) :: ((Zpos (XO (XO (XI (XI (XO (XI XH))))))) :: ((Zpos (XO (XO
    (XI (XI (XO (XI XH))))))) :: ((Zpos (XI (XO (XI (XI (XO
    XH)))))) :: ((Zpos (XI (XI (XI (XO (XI (XI XH))))))) :: ((Zpos (XI (XI
    (XI (XI (XO (XI XH))))))) :: ((Zpos (XO (XI (XO (XO (XI (XI
    XH))))))) :: ((Zpos (XO (XO (XI (XO (XO (XI
    XH))))))) :: [])))))))))))))))))) :: [])) :: ((((Zpos (XO (XO (XI (XO (XI
    (XI XH))))))) :: ((Zpos (XI (XI (XI (XI (XO (XI XH))))))) :: ((Zpos (XI
    (XI (XI (XO (XO (XI XH))))))) :: ((Zpos (XI (XI (XI (XO (XO (XI
    XH))))))) :: ((Zpos (XO (XO (XI (XI (XO (XI XH))))))) :: ((Zpos (XI (XO
    (XI (XO (XO (XI XH))))))) :: ((Zpos (XI (XO (XI (XI (XO
    XH)))))) :: ((Zpos (XO (XO (XI (XO (XO (XI XH))))))) :: ((Zpos (XI (XI
    (XI (XI (XO (XI XH))))))) :: ((Zpos (XI (XI (XI (XO (XI (XI
    XH))))))) :: ((Zpos (XO (XI (XI (XI (XO (XI XH))))))) :: []))))))))))),
    (((Zpos (XO (XO (XI (XO (XI (XI XH))))))) :: ((Zpos (XI (XI (XI (XI (XO
    (XI XH))))))) :: ((Zpos (XI (XI (XI (XO (XO (XI XH))))))) :: ((Zpos (XI
    (XI (XI (XO (XO (XI XH))))))) :: ((Zpos (XO (XO (XI (XI (XO (XI
    XH))))))) :: ((Zpos (XI (XO (XI (XO (XO (XI
    XH))))))) :: [])))))) :: (((Zpos (XO (XO (XI (XO (XO (XI
    XH))))))) :: ((Zpos (XI (XI (XI (XI (XO (XI XH))))))) :: ((Zpos (XI (XI
    (XI (XO (XI (XI XH))))))) :: ((Zpos (XO (XI (XI (XI (XO (XI
    XH))))))) :: [])))) :: []))) :: ((((Zpos (XO (XO (XI (XO (XI (XI
    XH))))))) :: ((Zpos (XI (XI (XI (XI (XO (XI XH))))))) :: ((Zpos (XI (XI
    (XI (XO (XO (XI XH))))))) :: ((Zpos (XI (XI (XI (XO (XO (XI
    XH))))))) :: ((Zpos (XO (XO (XI (XI (XO (XI XH))))))) :: ((Zpos (XI (XO
    (XI (XO (XO (XI XH))))))) :: ((Zpos (XI (XO (XI (XI (XO
    XH)))))) :: ((Zpos (XI (XO (XI (XO (XI (XI XH))))))) :: ((Zpos (XO (XO
    (XO (XO (XI (XI XH))))))) :: []))))))))), (((Zpos (XO (XO (XI (XO (XI (XI
    XH))))))) :: ((Zpos (XI (XI (XI (XI (XO (XI XH))))))) :: ((Zpos (XI (XI
    (XI (XO (XO (XI XH))))))) :: ((Zpos (XI (XI (XI (XO (XO (XI
    XH))))))) :: ((Zpos (XO (XO (XI (XI (XO (XI XH))))))) :: ((Zpos (XI (XO
    (XI (XO (XO (XI XH))))))) :: [])))))) :: (((Zpos (XI (XO (XI (XO (XI (XI
    XH))))))) :: ((Zpos (XO (XO (XO (XO (XI (XI
    XH))))))) :: [])) :: []))) :: ((((Zpos (XO (XO (XI (XO (XI (XI
    XH))))))) :: ((Zpos (XI (XI (XI (XI (XO (XI XH))))))) :: ((Zpos (XI (XI
    (XI (XO (XO (XI XH))))))) :: ((Zpos (XI (XI (XI (XO (XO (XI
    XH))))))) :: ((Zpos (XO (XO (XI (XI (XO (XI XH))))))) :: ((Zpos (XI (XO
    (XI (XO (XO (XI XH))))))) :: ((Zpos (XI (XO (XI (XI (XO
    XH)))))) :: ((Zpos (XI (XO (XO (XI (XO (XI XH))))))) :: ((Zpos (XO (XI
    (XI (XI (XO (XI XH))))))) :: []))))))))), (((Zpos (XO (XO (XI (XO (XI (XI
    XH))))))) :: ((Zpos (XI (XI (XI (XI (XO (XI XH))))))) :: ((Zpos (XI (XI
    (XI (XO (XO (XI XH))))))) :: ((Zpos (XI (XI (XI (XO (XO (XI
    XH))))))) :: ((Zpos (XO (XO (XI (XI (XO (XI XH))))))) :: ((Zpos (XI (XO
    (XI (XO (XO (XI XH))))))) :: ((Zpos (XI (XO (XI (XI (XO
    XH)))))) :: ((Zpos (XI (XO (XO (XI (XO (XI XH))))))) :: ((Zpos (XO (XI
    (XI (XI (XO (XI XH))))))) :: []))))))))) :: [])) :: ((((Zpos (XO (XO (XI
    (XO (XI (XI XH))))))) :: ((Zpos (XI (XI (XI (XI (XO (XI
    XH))))))) :: ((Zpos (XI (XI (XI (XO (XO (XI XH))))))) :: ((Zpos (XI (XI
    (XI (XO (XO (XI XH))))))) :: ((Zpos (XO (XO (XI (XI (XO (XI
    XH))))))) :: ((Zpos (XI (XO (XI (XO (XO (XI XH))))))) :: ((Zpos (XI (XO
    (XI (XI (XO XH)))))) :: ((Zpos (XI (XI (XI (XI (XO (XI
    XH))))))) :: ((Zpos (XI (XO (XI (XO (XI (XI XH))))))) :: ((Zpos (XO (XO
    (XI (XO (XI (XI XH))))))) :: [])))))))))), (((Zpos (XO (XO (XI (XO (XI
    (XI XH))))))) :: ((Zpos (XI (XI (XI (XI (XO (XI XH))))))) :: ((Zpos (XI
    (XI (XI (XO (XO (XI XH))))))) :: ((Zpos (XI (XI (XI (XO (XO (XI
    XH))))))) :: ((Zpos (XO (XO (XI (XI (XO (XI XH))))))) :: ((Zpos (XI (XO
    (XI (XO (XO (XI XH))))))) :: ((Zpos (XI (XO (XI (XI (XO
    XH)))))) :: ((Zpos (XI (XI (XI (XI (XO (XI XH))))))) :: ((Zpos (XI (XO
    (XI (XO (XI (XI XH))))))) :: ((Zpos (XO (XO (XI (XO (XI (XI
    XH))))))) :: [])))))))))) :: [])) :: ((((Zpos (XO (XO (XI (XO (XI (XI
    XH))))))) :: ((Zpos (XI (XI (XI (XI (XO (XI XH))))))) :: ((Zpos (XI (XI
    (XI (XO (XO (XI XH))))))) :: ((Zpos (XI (XI (XI (XO (XO (XI
    XH))))))) :: ((Zpos (XO (XO (XI (XI (XO (XI XH))))))) :: ((Zpos (XI (XO
    (XI (XO (XO (XI XH))))))) :: ((Zpos (XI (XO (XI (XI (XO
    XH)))))) :: ((Zpos (XI (XO (XO (XO (XO (XI XH))))))) :: ((Zpos (XO (XO
    (XI (XI (XO (XI XH))))))) :: ((Zpos (XO (XO (XI (XI (XO (XI
    XH))))))) :: [])))))))))), (((Zpos (XO (XO (XI (XO (XI (XI
    XH))))))) :: ((Zpos (XI (XI (XI (XI (XO (XI XH))))))) :: ((Zpos (XI (XI
    (XI (XO (XO (XI XH))))))) :: ((Zpos (XI (XI (XI (XO (XO (XI
    XH))))))) :: ((Zpos (XO (XO (XI (XI (XO (XI XH))))))) :: ((Zpos (XI (XO
    (XI (XO (XO (XI XH))))))) :: ((Zpos (XI (XO (XI (XI (XO
    XH)))))) :: ((Zpos (XI (XO (XO (XO (XO (XI XH))))))) :: ((Zpos (XO (XO
    (XI (XI (XO (XI XH))))))) :: ((Zpos (XO (XO (XI (XI (XO (XI
    XH))))))) :: [])))))))))) :: [])) :: ((((Zpos (XO (XO (XI (XO (XI (XI
    XH))))))) :: ((Zpos (XI (XI (XI (XI (XO (XI XH))))))) :: ((Zpos (XI (XI
    (XI (XO (XO (XI XH))))))) :: ((Zpos (XI (XI (XI (XO (XO (XI
    XH))))))) :: ((Zpos (XO (XO (XI (XI (XO (XI XH))))))) :: ((Zpos (XI (XO
    (XI (XO (XO (XI XH))))))) :: ((Zpos (XI (XO (XI (XI (XO
    XH)))))) :: ((Zpos (XI (XI (XO (XO (XI (XI XH))))))) :: ((Zpos (XI (XO
    (XI (XO (XO (XI XH))))))) :: ((Zpos (XI (XO (XO (XO (XO (XI
    XH))))))) :: ((Zpos (XO (XI (XO (XO (XI (XI XH))))))) :: ((Zpos (XI (XI
    (XO (XO (XO (XI XH))))))) :: ((Zpos (XO (XO (XO (XI (XO (XI
    XH))))))) :: []))))))))))))), (((Zpos (XO (XO (XI (XO (XI (XI
    XH))))))) :: ((Zpos (XI (XI (XI (XI (XO (XI XH))))))) :: ((Zpos (XI (XI
    (XI (XO (XO (XI XH))))))) :: ((Zpos (XI (XI (XI (XO (XO (XI
    XH))))))) :: ((Zpos (XO (XO (XI (XI (XO (XI XH))))))) :: ((Zpos (XI (XO
    (XI (XO (XO (XI XH))))))) :: ((Zpos (XI (XO (XI (XI (XO
    XH)))))) :: ((Zpos (XI (XI (XO (XO (XI (XI XH))))))) :: ((Zpos (XI (XO
    (XI (XO (XO (XI XH))))))) :: ((Zpos (XI (XO (XO (XO (XO (XI
    XH))))))) :: ((Zpos (XO (XI (XO (XO (XI (XI XH))))))) :: ((Zpos (XI (XI
    (XO (XO (XO (XI XH))))))) :: ((Zpos (XO (XO (XO (XI (XO (XI
    XH))))))) :: []))))))))))))) :: [])) :: ((((Zpos (XO (XO (XI (XO (XI (XI
    XH))))))) :: ((Zpos (XI (XI (XI (XI (XO (XI XH))))))) :: ((Zpos (XI (XI
    (XI (XO (XO (XI XH))))))) :: ((Zpos (XI (XI (XI (XO (XO (XI
    XH))))))) :: ((Zpos (XO (XO (XI (XI (XO (XI XH))))))) :: ((Zpos (XI (XO
    (XI (XO (XO (XI XH))))))) :: ((Zpos (XI (XO (XI (XI (XO
    XH)))))) :: ((Zpos (XO (XO (XI (XO (XI (XI XH))))))) :: ((Zpos (XO (XI
    (XO (XO (XI (XI XH))))))) :: ((Zpos (XI (XO (XO (XO (XO (XI
    XH))))))) :: ((Zpos (XI (XI (XO (XO (XO (XI XH))))))) :: ((Zpos (XI (XI
    (XO (XI (XO (XI XH))))))) :: [])))))))))))), (((Zpos (XO (XO (XI (XO (XI
    (XI XH))))))) :: ((Zpos (XI (XI (XI (XI (XO (XI XH))))))) :: ((Zpos (XI
    (XI (XI (XO (XO (XI XH))))))) :: ((Zpos (XI (XI (XI (XO (XO (XI
    XH))))))) :: ((Zpos (XO (XO (XI (XI (XO (XI XH))))))) :: ((Zpos (XI (XO
    (XI (XO (XO (XI XH))))))) :: ((Zpos (XI (XO (XI (XI (XO
    XH)))))) :: ((Zpos (XO (XO (XI (XO (XI (XI XH))))))) :: ((Zpos (XO (XI
    (XO (XO (XI (XI XH))))))) :: ((Zpos (XI (XO (XO (XO (XO (XI
    XH))))))) :: ((Zpos (XI (XI (XO (XO (XO (XI XH))))))) :: ((Zpos (XI (XI
    (XO (XI (XO (XI XH))))))) :: [])))))))))))) :: [])) :: ((((Zpos (XO (XO
    (XI (XO (XI (XI XH))))))) :: ((Zpos (XI (XI (XI (XI (XO (XI
    XH))))))) :: ((Zpos (XI (XI (XI (XO (XO (XI XH))))))) :: ((Zpos (XI (XI
    (XI (XO (XO (XI XH))))))) :: ((Zpos (XO (XO (XI (XI (XO (XI
    XH))))))) :: ((Zpos (XI (XO (XI (XO (XO (XI XH))))))) :: ((Zpos (XI (XO
    (XI (XI (XO XH)))))) :: ((Zpos (XO (XO (XI (XO (XI (XI
    XH))))))) :: ((Zpos (XO (XI (XO (XO (XI (XI XH))))))) :: ((Zpos (XI (XO
    (XO (XO (XO (XI XH))))))) :: ((Zpos (XI (XI (XO (XO (XO (XI
    XH))))))) :: ((Zpos (XI (XI (XO (XI (XO (XI XH))))))) :: ((Zpos (XI (XO
    (XI (XI (XO XH)))))) :: ((Zpos (XI (XI (XO (XO (XO (XI
    XH))))))) :: ((Zpos (XI (XO (XI (XO (XI (XI XH))))))) :: ((Zpos (XO (XI
    (XO (XO (XI (XI XH))))))) :: ((Zpos (XO (XI (XO (XO (XI (XI
    XH))))))) :: ((Zpos (XI (XO (XI (XO (XO (XI XH))))))) :: ((Zpos (XO (XI
    (XI (XI (XO (XI XH))))))) :: ((Zpos (XO (XO (XI (XO (XI (XI
    XH))))))) :: [])))))))))))))))))))), (((Zpos (XO (XO (XI (XO (XI (XI
    XH))))))) :: ((Zpos (XI (XI (XI (XI (XO (XI XH))))))) :: ((Zpos (XI (XI
    (XI (XO (XO (XI XH))))))) :: ((Zpos (XI (XI (XI (XO (XO (XI
    XH))))))) :: ((Zpos (XO (XO (XI (XI (XO (XI XH))))))) :: ((Zpos (XI (XO
    (XI (XO (XO (XI XH))))))) :: ((Zpos (XI (XO (XI (XI (XO
    XH)))))) :: ((Zpos (XO (XO (XI (XO (XI (XI XH))))))) :: ((Zpos (XO (XI
    (XO (XO (XI (XI XH))))))) :: ((Zpos (XI (XO (XO (XO (XO (XI
    XH))))))) :: ((Zpos (XI (XI (XO (XO (XO (XI XH))))))) :: ((Zpos (XI (XI
    (XO (XI (XO (XI XH))))))) :: ((Zpos (XI (XO (XI (XI (XO
    XH)))))) :: ((Zpos (XI (XI (XO (XO (XO (XI XH))))))) :: ((Zpos (XI (XO
    (XI (XO (XI (XI XH))))))) :: ((Zpos (XO (XI (XO (XO (XI (XI
    XH))))))) :: ((Zpos (XO (XI (XO (XO (XI (XI XH))))))) :: ((Zpos (XI (XO
    (XI (XO (XO (XI XH))))))) :: ((Zpos (XO (XI (XI (XI (XO (XI
    XH))))))) :: ((Zpos (XO (XO (XI (XO (XI (XI
    XH))))))) :: [])))))))))))))))))))) :: [])) :: ((((Zpos (XO (XO (XI (XO
    (XI (XI XH))))))) :: ((Zpos (XI (XI (XI (XI (XO (XI XH))))))) :: ((Zpos
    (XI (XI (XI (XO (XO (XI XH))))))) :: ((Zpos (XI (XI (XI (XO (XO (XI
    XH))))))) :: ((Zpos (XO (XO (XI (XI (XO (XI XH))))))) :: ((Zpos (XI (XO
    (XI (XO (XO (XI XH))))))) :: ((Zpos (XI (XO (XI (XI (XO
    XH)))))) :: ((Zpos (XI (XO (XO (XI (XO (XI XH))))))) :: ((Zpos (XO (XI
    (XI (XI (XO (XI XH))))))) :: ((Zpos (XO (XO (XO (XO (XI (XI
    XH))))))) :: ((Zpos (XI (XO (XI (XO (XI (XI XH))))))) :: ((Zpos (XO (XO
    (XI (XO (XI (XI XH))))))) :: [])))))))))))), (((Zpos (XO (XO (XI (XO (XI
    (XI XH))))))) :: ((Zpos (XI (XI (XI (XI (XO (XI XH))))))) :: ((Zpos (XI
    (XI (XI (XO (XO (XI XH))))))) :: ((Zpos (XI (XI (XI (XO (XO (XI
    XH))))))) :: ((Zpos (XO (XO (XI (XI (XO (XI XH))))))) :: ((Zpos (XI (XO
    (XI (XO (XO (XI XH))))))) :: ((Zpos (XI (XO (XI (XI (XO
    XH)))))) :: ((Zpos (XI (XO (XO (XI (XO (XI XH))))))) :: ((Zpos (XO (XI
    (XI (XI (XO (XI XH))))))) :: ((Zpos (XO (XO (XO (XO (XI (XI
    XH))))))) :: ((Zpos (XI (XO (XI (XO (XI (XI XH))))))) :: ((Zpos (XO (XO
    (XI (XO (XI (XI XH))))))) :: [])))))))))))) :: [])) :: ((((Zpos (XO (XO
    (XO (XI (XO (XI XH))))))) :: ((Zpos (XI (XO (XO (XI (XO (XI
    XH))))))) :: ((Zpos (XO (XO (XI (XO (XO (XI XH))))))) :: ((Zpos (XI (XO
    (XI (XO (XO (XI XH))))))) :: ((Zpos (XI (XO (XI (XI (XO
    XH)))))) :: ((Zpos (XI (XO (XO (XI (XO (XI XH))))))) :: ((Zpos (XO (XI
    (XI (XI (XO (XI XH))))))) :: ((Zpos (XO (XO (XO (XO (XI (XI
    XH))))))) :: ((Zpos (XI (XO (XI (XO (XI (XI XH))))))) :: ((Zpos (XO (XO
    (XI (XO (XI (XI XH))))))) :: [])))))))))), (((Zpos (XO (XO (XO (XI (XO
    (XI XH))))))) :: ((Zpos (XI (XO (XO (XI (XO (XI XH))))))) :: ((Zpos (XO
    (XO (XI (XO (XO (XI XH))))))) :: ((Zpos (XI (XO (XI (XO (XO (XI
    XH))))))) :: ((Zpos (XI (XO (XI (XI (XO XH)))))) :: ((Zpos (XI (XO (XO
    (XI (XO (XI XH))))))) :: ((Zpos (XO (XI (XI (XI (XO (XI
    XH))))))) :: ((Zpos (XO (XO (XO (XO (XI (XI XH))))))) :: ((Zpos (XI (XO
    (XI (XO (XI (XI XH))))))) :: ((Zpos (XO (XO (XI (XO (XI (XI
    XH))))))) :: [])))))))))) :: [])) :: ((((Zpos (XI (XI (XO (XO (XI (XI
    XH))))))) :: ((Zpos (XO (XO (XO (XI (XO (XI XH))))))) :: ((Zpos (XI (XI
    (XI (XI (XO (XI XH))))))) :: ((Zpos (XI (XI (XI (XO (XI (XI
    XH))))))) :: ((Zpos (XI (XO (XI (XI (XO XH)))))) :: ((Zpos (XI (XO (XO
    (XI (XO (XI XH))))))) :: ((Zpos (XO (XI (XI (XI (XO (XI
    XH))))))) :: ((Zpos (XO (XO (XO (XO (XI (XI XH))))))) :: ((Zpos (XI (XO
    (XI (XO (XI (XI XH))))))) :: ((Zpos (XO (XO (XI (XO (XI (XI
    XH))))))) :: [])))))))))), (((Zpos (XI (XI (XO (XO (XI (XI
    XH))))))) :: ((Zpos (XO (XO (XO (XI (XO (XI XH))))))) :: ((Zpos (XI (XI
    (XI (XI (XO (XI XH))))))) :: ((Zpos (XI (XI (XI (XO (XI (XI
    XH))))))) :: ((Zpos (XI (XO (XI (XI (XO XH)))))) :: ((Zpos (XI (XO (XO
    (XI (XO (XI XH))))))) :: ((Zpos (XO (XI (XI (XI (XO (XI
    XH))))))) :: ((Zpos (XO (XO (XO (XO (XI (XI XH))))))) :: ((Zpos (XI (XO
    (XI (XO (XI (XI XH))))))) :: ((Zpos (XO (XO (XI (XO (XI (XI
    XH))))))) :: [])))))))))) :: [])) :: ((((Zpos (XO (XO (XI (XO (XI (XI
    XH))))))) :: ((Zpos (XI (XI (XI (XI (XO (XI XH))))))) :: ((Zpos (XI (XI
    (XI (XO (XO (XI XH))))))) :: ((Zpos (XI (XI (XI (XO (XO (XI
    XH))))))) :: ((Zpos (XO (XO (XI (XI (XO (XI XH))))))) :: ((Zpos (XI (XO
    (XI (XO (XO (XI XH))))))) :: ((Zpos (XI (XO (XI (XI (XO
    XH)))))) :: ((Zpos (XO (XO (XO (XI (XO (XI XH))))))) :: ((Zpos (XI (XO
    (XI (XO (XO (XI XH))))))) :: ((Zpos (XI (XO (XO (XO (XO (XI
    XH))))))) :: ((Zpos (XO (XO (XI (XO (XO (XI XH))))))) :: ((Zpos (XI (XO
    (XI (XO (XO (XI XH))))))) :: ((Zpos (XO (XI (XO (XO (XI (XI
    XH))))))) :: []))))))))))))), (((Zpos (XO (XO (XI (XO (XI (XI
    XH))))))) :: ((Zpos (XI (XI (XI (XI (XO (XI XH))))))) :: ((Zpos (XI (XI
    (XI (XO (XO (XI XH))))))) :: ((Zpos (XI (XI (XI (XO (XO (XI
    XH))))))) :: ((Zpos (XO (XO (XI (XI (XO (XI XH))))))) :: ((Zpos (XI (XO
    (XI (XO (XO (XI XH))))))) :: ((Zpos (XI (XO (XI (XI (XO
    XH)))))) :: ((Zpos (XO (XO (XO (XI (XO (XI XH))))))) :: ((Zpos (XI (XO
    (XI (XO (XO (XI XH))))))) :: ((Zpos (XI (XO (XO (XO (XO (XI
    XH))))))) :: ((Zpos (XO (XO (XI (XO (XO (XI XH))))))) :: ((Zpos (XI (XO
    (XI (XO (XO (XI XH))))))) :: ((Zpos (XO (XI (XO (XO (XI (XI
    XH))))))) :: []))))))))))))) :: [])) :: ((((Zpos (XO (XO (XI (XO (XI (XI
    XH))))))) :: ((Zpos (XI (XI (XI (XI (XO (XI XH))))))) :: ((Zpos (XI (XI
    (XI (XO (XO (XI XH))))))) :: ((Zpos (XI (XI (XI (XO (XO (XI
    XH))))))) :: ((Zpos (XO (XO (XI (XI (XO (XI XH))))))) :: ((Zpos (XI (XO
    (XI (XO (XO (XI XH))))))) :: ((Zpos (XI (XO (XI (XI (XO
    XH)))))) :: ((Zpos (XI (XI (XI (XO (XI (XI XH))))))) :: ((Zpos (XO (XI
    (XO (XO (XI (XI XH))))))) :: ((Zpos (XI (XO (XO (XO (XO (XI
    XH))))))) :: ((Zpos (XO (XO (XO (XO (XI (XI XH))))))) :: []))))))))))),
    (((Zpos (XO (XO (XI (XO (XI (XI XH))))))) :: ((Zpos (XI (XI (XI (XI (XO
    (XI XH))))))) :: ((Zpos (XI (XI (XI (XO (XO (XI XH))))))) :: ((Zpos (XI
    (XI (XI (XO (XO (XI XH))))))) :: ((Zpos (XO (XO (XI (XI (XO (XI
    XH))))))) :: ((Zpos (XI (XO (XI (XO (XO (XI XH))))))) :: ((Zpos (XI (XO
    (XI (XI (XO XH)))))) :: ((Zpos (XI (XI (XI (XO (XI (XI
    XH))))))) :: ((Zpos (XO (XI (XO (XO (XI (XI XH))))))) :: ((Zpos (XI (XO
    (XO (XO (XO (XI XH))))))) :: ((Zpos (XO (XO (XO (XO (XI (XI
    XH))))))) :: []))))))))))) :: [])) :: ((((Zpos (XO (XO (XI (XO (XI (XI
    XH))))))) :: ((Zpos (XI (XI (XI (XI (XO (XI XH))))))) :: ((Zpos (XI (XI
    (XI (XO (XO (XI XH))))))) :: ((Zpos (XI (XI (XI (XO (XO (XI
    XH))))))) :: ((Zpos (XO (XO (XI (XI (XO (XI XH))))))) :: ((Zpos (XI (XO
    (XI (XO (XO (XI XH))))))) :: ((Zpos (XI (XO (XI (XI (XO
    XH)))))) :: ((Zpos (XI (XO (XI (XI (XO (XI XH))))))) :: ((Zpos (XI (XO
    (XI (XO (XI (XI XH))))))) :: ((Zpos (XO (XO (XI (XI (XO (XI
    XH))))))) :: ((Zpos (XO (XO (XI (XO (XI (XI XH))))))) :: ((Zpos (XI (XO
    (XO (XI (XO (XI XH))))))) :: ((Zpos (XI (XO (XI (XI (XO
    XH)))))) :: ((Zpos (XO (XO (XI (XI (XO (XI XH))))))) :: ((Zpos (XI (XO
    (XO (XI (XO (XI XH))))))) :: ((Zpos (XO (XI (XI (XI (XO (XI
    XH))))))) :: ((Zpos (XI (XO (XI (XO (XO (XI
    XH))))))) :: []))))))))))))))))), (((Zpos (XO (XO (XI (XO (XI (XI
    XH))))))) :: ((Zpos (XI (XI (XI (XI (XO (XI XH))))))) :: ((Zpos (XI (XI
    (XI (XO (XO (XI XH))))))) :: ((Zpos (XI (XI (XI (XO (XO (XI
    XH))))))) :: ((Zpos (XO (XO (XI (XI (XO (XI XH))))))) :: ((Zpos (XI (XO
    (XI (XO (XO (XI XH))))))) :: ((Zpos (XI (XO (XI (XI (XO
    XH)))))) :: ((Zpos (XI (XO (XI (XI (XO (XI XH))))))) :: ((Zpos (XI (XO
    (XI (XO (XI (XI XH))))))) :: ((Zpos (XO (XO (XI (XI (XO (XI
    XH))))))) :: ((Zpos (XO (XO (XI (XO (XI (XI XH))))))) :: ((Zpos (XI (XO
    (XO (XI (XO (XI XH))))))) :: ((Zpos (XI (XO (XI (XI (XO
    XH)))))) :: ((Zpos (XO (XO (XI (XI (XO (XI XH))))))) :: ((Zpos (XI (XO
    (XO (XI (XO (XI XH))))))) :: ((Zpos (XO (XI (XI (XI (XO (XI
    XH))))))) :: ((Zpos (XI (XO (XI (XO (XO (XI
    XH))))))) :: []))))))))))))))))) :: [])) :: ((((Zpos (XO (XO (XI (XO (XI
    (XI XH))))))) :: ((Zpos (XI (XI (XI (XI (XO (XI XH))))))) :: ((Zpos (XI
    (XI (XI (XO (XO (XI XH))))))) :: ((Zpos (XI (XI (XI (XO (XO (XI
    XH))))))) :: ((Zpos (XO (XO (XI (XI (XO (XI XH))))))) :: ((Zpos (XI (XO
    (XI (XO (XO (XI XH))))))) :: ((Zpos (XI (XO (XI (XI (XO
    XH)))))) :: ((Zpos (XO (XO (XO (XI (XO (XI XH))))))) :: ((Zpos (XI (XI
    (XO (XO (XI (XI XH))))))) :: ((Zpos (XI (XI (XO (XO (XO (XI
    XH))))))) :: ((Zpos (XO (XI (XO (XO (XI (XI XH))))))) :: ((Zpos (XI (XI
    (XI (XI (XO (XI XH))))))) :: ((Zpos (XO (XO (XI (XI (XO (XI
    XH))))))) :: ((Zpos (XO (XO (XI (XI (XO (XI
    XH))))))) :: [])))))))))))))), (((Zpos (XO (XO (XI (XO (XI (XI
    XH))))))) :: ((Zpos (XI (XI (XI (XI (XO (XI XH))))))) :: ((Zpos (XI (XI
    (XI (XO (XO (XI XH))))))) :: ((Zpos (XI (XI (XI (XO (XO (XI
    XH))))))) :: ((Zpos (XO (XO (XI (XI (XO (XI XH))))))) :: ((Zpos (XI (XO
    (XI (XO (XO (XI XH))))))) :: ((Zpos (XI (XO (XI (XI (XO
    XH)))))) :: ((Zpos (XO (XO (XO (XI (XO (XI XH))))))) :: ((Zpos (XI (XI
    (XO (XO (XI (XI XH))))))) :: ((Zpos (XI (XI (XO (XO (XO (XI
    XH))))))) :: ((Zpos (XO (XI (XO (XO (XI (XI XH))))))) :: ((Zpos (XI (XI
    (XI (XI (XO (XI XH))))))) :: ((Zpos (XO (XO (XI (XI (XO (XI
    XH))))))) :: ((Zpos (XO (XO (XI (XI (XO (XI
    XH))))))) :: [])))))))))))))) :: [])) :: ((((Zpos (XI (XI (XO (XO (XI (XI
    XH))))))) :: ((Zpos (XO (XO (XO (XI (XO (XI XH))))))) :: ((Zpos (XI (XI
    (XI (XI (XO (XI XH))))))) :: ((Zpos (XI (XI (XI (XO (XI (XI
    XH))))))) :: ((Zpos (XI (XO (XI (XI (XO XH)))))) :: ((Zpos (XO (XO (XO
    (XI (XO (XI XH))))))) :: ((Zpos (XI (XO (XI (XO (XO (XI
    XH))))))) :: ((Zpos (XI (XO (XO (XO (XO (XI XH))))))) :: ((Zpos (XO (XO
    (XI (XO (XO (XI XH))))))) :: ((Zpos (XI (XO (XI (XO (XO (XI
    XH))))))) :: ((Zpos (XO (XI (XO (XO (XI (XI XH))))))) :: []))))))))))),
    (((Zpos (XI (XI (XO (XO (XI (XI XH))))))) :: ((Zpos (XO (XO (XO (XI (XO
    (XI XH))))))) :: ((Zpos (XI (XI (XI (XI (XO (XI XH))))))) :: ((Zpos (XI
    (XI (XI (XO (XI (XI XH))))))) :: ((Zpos (XI (XO (XI (XI (XO
    XH)))))) :: ((Zpos (XO (XO (XO (XI (XO (XI XH))))))) :: ((Zpos (XI (XO
    (XI (XO (XO (XI XH))))))) :: ((Zpos (XI (XO (XO (XO (XO (XI
    XH))))))) :: ((Zpos (XO (XO (XI (XO (XO (XI XH))))))) :: ((Zpos (XI (XO
    (XI (XO (XO (XI XH))))))) :: ((Zpos (XO (XI (XO (XO (XI (XI
    XH))))))) :: []))))))))))) :: [])) :: ((((Zpos (XO (XO (XO (XI (XO (XI
    XH))))))) :: ((Zpos (XI (XO (XO (XI (XO (XI XH))))))) :: ((Zpos (XO (XO
    (XI (XO (XO (XI XH))))))) :: ((Zpos (XI (XO (XI (XO (XO (XI
    XH))))))) :: ((Zpos (XI (XO (XI (XI (XO XH)))))) :: ((Zpos (XO (XO (XO
    (XI (XO (XI XH))))))) :: ((Zpos (XI (XO (XI (XO (XO (XI
    XH))))))) :: ((Zpos (XI (XO (XO (XO (XO (XI XH))))))) :: ((Zpos (XO (XO
    (XI (XO (XO (XI XH))))))) :: ((Zpos (XI (XO (XI (XO (XO (XI
    XH))))))) :: ((Zpos (XO (XI (XO (XO (XI (XI XH))))))) :: []))))))))))),
    (((Zpos (XO (XO (XO (XI (XO (XI XH))))))) :: ((Zpos (XI (XO (XO (XI (XO
    (XI XH))))))) :: ((Zpos (XO (XO (XI (XO (XO (XI XH))))))) :: ((Zpos (XI
    (XO (XI (XO (XO (XI XH))))))) :: ((Zpos (XI (XO (XI (XI (XO
    XH)))))) :: ((Zpos (XO (XO (XO (XI (XO (XI XH))))))) :: ((Zpos (XI (XO
    (XI (XO (XO (XI XH))))))) :: ((Zpos (XI (XO (XO (XO (XO (XI
    XH))))))) :: ((Zpos (XO (XO (XI (XO (XO (XI XH))))))) :: ((Zpos (XI (XO
    (XI (XO (XO (XI XH))))))) :: ((Zpos (XO (XI (XO (XO (XI (XI
    XH))))))) :: []))))))))))) :: [])) :: ((((Zpos (XO (XO (XI (XO (XI (XI
    XH))))))) :: ((Zpos (XO (XI (XO (XO (XI (XI XH))))))) :: ((Zpos (XI (XO
    (XO (XO (XO (XI XH))))))) :: ((Zpos (XI (XI (XO (XO (XO (XI
    XH))))))) :: ((Zpos (XI (XI (XO (XI (XO (XI XH))))))) :: []))))), (((Zpos
    (XO (XO (XI (XO (XI (XI XH))))))) :: ((Zpos (XO (XI (XO (XO (XI (XI
    XH))))))) :: ((Zpos (XI (XO (XO (XO (XO (XI XH))))))) :: ((Zpos (XI (XI
    (XO (XO (XO (XI XH))))))) :: ((Zpos (XI (XI (XO (XI (XO (XI
    XH))))))) :: ((Zpos (XI (XO (XI (XI (XO XH)))))) :: ((Zpos (XI (XI (XO
    (XO (XO (XI XH))))))) :: ((Zpos (XI (XO (XI (XO (XI (XI
    XH))))))) :: ((Zpos (XO (XI (XO (XO (XI (XI XH))))))) :: ((Zpos (XO (XI
    (XO (XO (XI (XI XH))))))) :: ((Zpos (XI (XO (XI (XO (XO (XI
    XH))))))) :: ((Zpos (XO (XI (XI (XI (XO (XI XH))))))) :: ((Zpos (XO (XO
    (XI (XO (XI (XI XH))))))) :: []))))))))))))) :: [])) :: ((((Zpos (XO (XO
    (XI (XO (XI (XI XH))))))) :: ((Zpos (XO (XI (XO (XO (XI (XI
    XH))))))) :: ((Zpos (XI (XO (XO (XO (XO (XI XH))))))) :: ((Zpos (XI (XI
    (XO (XO (XO (XI XH))))))) :: ((Zpos (XI (XI (XO (XI (XO (XI
    XH))))))) :: ((Zpos (XI (XO (XI (XI (XO XH)))))) :: ((Zpos (XI (XI (XO
    (XO (XO (XI XH))))))) :: ((Zpos (XI (XO (XI (XO (XI (XI
    XH))))))) :: ((Zpos (XO (XI (XO (XO (XI (XI XH))))))) :: ((Zpos (XO (XI
    (XO (XO (XI (XI XH))))))) :: ((Zpos (XI (XO (XI (XO (XO (XI
    XH))))))) :: ((Zpos (XO (XI (XI (XI (XO (XI XH))))))) :: ((Zpos (XO (XO
    (XI (XO (XI (XI XH))))))) :: []))))))))))))), (((Zpos (XO (XO (XI (XO (XI
    (XI XH))))))) :: ((Zpos (XO (XI (XO (XO (XI (XI XH))))))) :: ((Zpos (XI
    (XO (XO (XO (XO (XI XH))))))) :: ((Zpos (XI (XI (XO (XO (XO (XI
    XH))))))) :: ((Zpos (XI (XI (XO (XI (XO (XI XH))))))) :: ((Zpos (XI (XO
    (XI (XI (XO XH)))))) :: ((Zpos (XI (XI (XO (XO (XO (XI
    XH))))))) :: ((Zpos (XI (XO (XI (XO (XI (XI XH))))))) :: ((Zpos (XO (XI
    (XO (XO (XI (XI XH))))))) :: ((Zpos (XO (XI (XO (XO (XI (XI
    XH))))))) :: ((Zpos (XI (XO (XI (XO (XO (XI XH))))))) :: ((Zpos (XO (XI
    (XI (XI (XO (XI XH))))))) :: ((Zpos (XO (XO (XI (XO (XI (XI
    XH))))))) :: []))))))))))))) :: [])) :: ((((Zpos (XI (XO (XI (XO (XI (XI
    XH))))))) :: ((Zpos (XO (XI (XI (XI (XO (XI XH))))))) :: ((Zpos (XO (XO
    (XI (XO (XI (XI XH))))))) :: ((Zpos (XO (XI (XO (XO (XI (XI
    XH))))))) :: ((Zpos (XI (XO (XO (XO (XO (XI XH))))))) :: ((Zpos (XI (XI
    (XO (XO (XO (XI XH))))))) :: ((Zpos (XI (XI (XO (XI (XO (XI
    XH))))))) :: ((Zpos (XI (XO (XI (XI (XO XH)))))) :: ((Zpos (XI (XI (XO
    (XO (XO (XI XH))))))) :: ((Zpos (XI (XO (XI (XO (XI (XI
    XH))))))) :: ((Zpos (XO (XI (XO (XO (XI (XI XH))))))) :: ((Zpos (XO (XI
    (XO (XO (XI (XI XH))))))) :: ((Zpos (XI (XO (XI (XO (XO (XI
    XH))))))) :: ((Zpos (XO (XI (XI (XI (XO (XI XH))))))) :: ((Zpos (XO (XO
    (XI (XO (XI (XI XH))))))) :: []))))))))))))))), (((Zpos (XI (XO (XI (XO
    (XI (XI XH))))))) :: ((Zpos (XO (XI (XI (XI (XO (XI XH))))))) :: ((Zpos
    (XO (XO (XI (XO (XI (XI XH))))))) :: ((Zpos (XO (XI (XO (XO (XI (XI
    XH))))))) :: ((Zpos (XI (XO (XO (XO (XO (XI XH))))))) :: ((Zpos (XI (XI
    (XO (XO (XO (XI XH))))))) :: ((Zpos (XI (XI (XO (XI (XO (XI
    XH))))))) :: ((Zpos (XI (XO (XI (XI (XO XH)))))) :: ((Zpos (XI (XI (XO
    (XO (XO (XI XH))))))) :: ((Zpos (XI (XO (XI (XO (XI (XI
    XH))))))) :: ((Zpos (XO (XI (XO (XO (XI (XI XH))))))) :: ((Zpos (XO (XI
    (XO (XO (XI (XI XH))))))) :: ((Zpos (XI (XO (XI (XO (XO (XI
    XH))))))) :: ((Zpos (XO (XI (XI (XI (XO (XI XH))))))) :: ((Zpos (XO (XO
    (XI (XO (XI (XI XH))))))) :: []))))))))))))))) :: [])) :: ((((Zpos (XI
    (XI (XO (XO (XI (XI XH))))))) :: ((Zpos (XI (XO (XI (XO (XO (XI
    XH))))))) :: ((Zpos (XO (XO (XI (XI (XO (XI XH))))))) :: ((Zpos (XI (XO
    (XI (XO (XO (XI XH))))))) :: ((Zpos (XI (XI (XO (XO (XO (XI
    XH))))))) :: ((Zpos (XO (XO (XI (XO (XI (XI XH))))))) :: [])))))),
    (((Zpos (XI (XI (XO (XO (XI (XI XH))))))) :: ((Zpos (XI (XO (XI (XO (XO
    (XI XH))))))) :: ((Zpos (XO (XO (XI (XI (XO (XI XH))))))) :: ((Zpos (XI
    (XO (XI (XO (XO (XI XH))))))) :: ((Zpos (XI (XI (XO (XO (XO (XI
    XH))))))) :: ((Zpos (XO (XO (XI (XO (XI (XI
    XH))))))) :: [])))))) :: [])) :: ((((Zpos (XI (XI (XO (XO (XI (XI
    XH))))))) :: ((Zpos (XI (XO (XI (XO (XO (XI XH))))))) :: ((Zpos (XO (XO
    (XI (XI (XO (XI XH))))))) :: ((Zpos (XI (XO (XI (XO (XO (XI
    XH))))))) :: ((Zpos (XI (XI (XO (XO (XO (XI XH))))))) :: ((Zpos (XO (XO
    (XI (XO (XI (XI XH))))))) :: ((Zpos (XI (XO (XI (XI (XO
    XH)))))) :: ((Zpos (XI (XO (XO (XO (XO (XI XH))))))) :: ((Zpos (XO (XO
    (XI (XI (XO (XI XH))))))) :: ((Zpos (XO (XO (XI (XI (XO (XI
    XH))))))) :: [])))))))))), (((Zpos (XI (XI (XO (XO (XI (XI
    XH))))))) :: ((Zpos (XI (XO (XI (XO (XO (XI XH))))))) :: ((Zpos (XO (XO
    (XI (XI (XO (XI XH))))))) :: ((Zpos (XI (XO (XI (XO (XO (XI
    XH))))))) :: ((Zpos (XI (XI (XO (XO (XO (XI XH))))))) :: ((Zpos (XO (XO
    (XI (XO (XI (XI XH))))))) :: ((Zpos (XI (XO (XI (XI (XO
    XH)))))) :: ((Zpos (XI (XO (XO (XO (XO (XI XH))))))) :: ((Zpos (XO (XO
    (XI (XI (XO (XI XH))))))) :: ((Zpos (XO (XO (XI (XI (XO (XI
    XH))))))) :: [])))))))))) :: [])) :: ((((Zpos (XO (XO (XI (XO (XO (XI
    XH))))))) :: ((Zpos (XI (XO (XI (XO (XO (XI XH))))))) :: ((Zpos (XI (XI
    (XO (XO (XI (XI XH))))))) :: ((Zpos (XI (XO (XI (XO (XO (XI
    XH))))))) :: ((Zpos (XO (XO (XI (XI (XO (XI XH))))))) :: ((Zpos (XI (XO
    (XI (XO (XO (XI XH))))))) :: ((Zpos (XI (XI (XO (XO (XO (XI
    XH))))))) :: ((Zpos (XO (XO (XI (XO (XI (XI XH))))))) :: ((Zpos (XI (XO
    (XI (XI (XO XH)))))) :: ((Zpos (XI (XO (XO (XO (XO (XI
    XH))))))) :: ((Zpos (XO (XO (XI (XI (XO (XI XH))))))) :: ((Zpos (XO (XO
    (XI (XI (XO (XI XH))))))) :: [])))))))))))), (((Zpos (XO (XO (XI (XO (XO
    (XI XH))))))) :: ((Zpos (XI (XO (XI (XO (XO (XI XH))))))) :: ((Zpos (XI
    (XI (XO (XO (XI (XI XH))))))) :: ((Zpos (XI (XO (XI (XO (XO (XI
    XH))))))) :: ((Zpos (XO (XO (XI (XI (XO (XI XH))))))) :: ((Zpos (XI (XO
    (XI (XO (XO (XI XH))))))) :: ((Zpos (XI (XI (XO (XO (XO (XI
    XH))))))) :: ((Zpos (XO (XO (XI (XO (XI (XI XH))))))) :: ((Zpos (XI (XO
    (XI (XI (XO XH)))))) :: ((Zpos (XI (XO (XO (XO (XO (XI
    XH))))))) :: ((Zpos (XO (XO (XI (XI (XO (XI XH))))))) :: ((Zpos (XO (XO
    (XI (XI (XO (XI XH))))))) :: [])))))))))))) :: [])) :: ((((Zpos (XI (XI
    (XO (XO (XO (XI XH))))))) :: ((Zpos (XO (XO (XI (XI (XO (XI
    XH))))))) :: ((Zpos (XI (XI (XI (XI (XO (XI XH))))))) :: ((Zpos (XI (XI
    (XO (XO (XI (XI XH))))))) :: ((Zpos (XI (XO (XI (XO (XO (XI
    XH))))))) :: []))))), (((Zpos (XI (XI (XO (XO (XO (XI XH))))))) :: ((Zpos
    (XO (XO (XI (XI (XO (XI XH))))))) :: ((Zpos (XI (XI (XI (XI (XO (XI
    XH))))))) :: ((Zpos (XI (XI (XO (XO (XI (XI XH))))))) :: ((Zpos (XI (XO
    (XI (XO (XO (XI XH))))))) :: []))))) :: [])) :: ((((Zpos (XO (XO (XI (XO
    (XI (XI XH))))))) :: ((Zpos (XI (XI (XI (XI (XO (XI XH))))))) :: ((Zpos
    (XI (XI (XI (XO (XO (XI XH))))))) :: ((Zpos (XI (XI (XI (XO (XO (XI
    XH))))))) :: ((Zpos (XO (XO (XI (XI (XO (XI XH))))))) :: ((Zpos (XI (XO
    (XI (XO (XO (XI XH))))))) :: [])))))), (((Zpos (XO (XO (XI (XO (XI (XI
    XH))))))) :: ((Zpos (XI (XI (XI (XI (XO (XI XH))))))) :: ((Zpos (XI (XI
    (XI (XO (XO (XI XH))))))) :: ((Zpos (XI (XI (XI (XO (XO (XI
    XH))))))) :: ((Zpos (XO (XO (XI (XI (XO (XI XH))))))) :: ((Zpos (XI (XO
    (XI (XO (XO (XI XH))))))) :: [])))))) :: [])) :: ((((Zpos (XO (XO (XI (XO
    (XO (XI XH))))))) :: ((Zpos (XI (XI (XI (XI (XO (XI XH))))))) :: ((Zpos
    (XI (XI (XI (XO (XI (XI XH))))))) :: ((Zpos (XO (XI (XI (XI (XO (XI
    XH))))))) :: [])))), (((Zpos (XO (XO (XI (XO (XO (XI XH))))))) :: ((Zpos
    (XI (XI (XI (XI (XO (XI XH))))))) :: ((Zpos (XI (XI (XI (XO (XI (XI
    XH))))))) :: ((Zpos (XO (XI (XI (XI (XO (XI
    XH))))))) :: [])))) :: [])) :: ((((Zpos (XI (XO (XI (XO (XI (XI
    XH))))))) :: ((Zpos (XO (XO (XO (XO (XI (XI XH))))))) :: [])), (((Zpos
    (XI (XO (XI (XO (XI (XI XH))))))) :: ((Zpos (XO (XO (XO (XO (XI (XI
    XH))))))) :: [])) :: [])) :: ((((Zpos (XO (XI (XI (XO (XO (XI
    XH))))))) :: ((Zpos (XI (XO (XO (XI (XO (XI XH))))))) :: ((Zpos (XO (XI
    (XO (XO (XI (XI XH))))))) :: ((Zpos (XI (XI (XO (XO (XI (XI
    XH))))))) :: ((Zpos (XO (XO (XI (XO (XI (XI XH))))))) :: []))))), (((Zpos
    (XO (XI (XI (XO (XO (XI XH))))))) :: ((Zpos (XI (XO (XO (XI (XO (XI
    XH))))))) :: ((Zpos (XO (XI (XO (XO (XI (XI XH))))))) :: ((Zpos (XI (XI
    (XO (XO (XI (XI XH))))))) :: ((Zpos (XO (XO (XI (XO (XI (XI
    XH))))))) :: []))))) :: [])) :: ((((Zpos (XO (XO (XI (XO (XI (XI
    XH))))))) :: ((Zpos (XI (XI (XI (XI (XO (XI XH))))))) :: ((Zpos (XO (XO
    (XO (XO (XI (XI XH))))))) :: []))), (((Zpos (XO (XI (XI (XO (XO (XI
    XH))))))) :: ((Zpos (XI (XO (XO (XI (XO (XI XH))))))) :: ((Zpos (XO (XI
    (XO (XO (XI (XI XH))))))) :: ((Zpos (XI (XI (XO (XO (XI (XI
    XH))))))) :: ((Zpos (XO (XO (XI (XO (XI (XI
    XH))))))) :: []))))) :: [])) :: ((((Zpos (XO (XO (XI (XI (XO (XI
    XH))))))) :: ((Zpos (XI (XO (XO (XO (XO (XI XH))))))) :: ((Zpos (XI (XI
    (XO (XO (XI (XI XH))))))) :: ((Zpos (XO (XO (XI (XO (XI (XI
    XH))))))) :: [])))), (((Zpos (XO (XO (XI (XI (XO (XI XH))))))) :: ((Zpos
    (XI (XO (XO (XO (XO (XI XH))))))) :: ((Zpos (XI (XI (XO (XO (XI (XI
    XH))))))) :: ((Zpos (XO (XO (XI (XO (XI (XI
    XH))))))) :: [])))) :: [])) :: ((((Zpos (XO (XO (XO (XO (XI (XI
    XH))))))) :: ((Zpos (XI (XO (XO (XO (XO (XI XH))))))) :: ((Zpos (XI (XI
    (XI (XO (XO (XI XH))))))) :: ((Zpos (XI (XO (XI (XO (XO (XI
    XH))))))) :: ((Zpos (XI (XO (XI (XI (XO XH)))))) :: ((Zpos (XI (XO (XI
    (XO (XI (XI XH))))))) :: ((Zpos (XO (XO (XO (XO (XI (XI
    XH))))))) :: []))))))), (((Zpos (XO (XO (XO (XO (XI (XI
    XH))))))) :: ((Zpos (XI (XO (XO (XO (XO (XI XH))))))) :: ((Zpos (XI (XI
    (XI (XO (XO (XI XH))))))) :: ((Zpos (XI (XO (XI (XO (XO (XI
    XH))))))) :: ((Zpos (XI (XO (XI (XI (XO XH)))))) :: ((Zpos (XI (XO (XI
    (XO (XI (XI XH))))))) :: ((Zpos (XO (XO (XO (XO (XI (XI
    XH))))))) :: []))))))) :: [])) :: ((((Zpos (XO (XO (XO (XO (XI (XI
    XH))))))) :: ((Zpos (XI (XO (XO (XO (XO (XI XH))))))) :: ((Zpos (XI (XI
    (XI (XO (XO (XI XH))))))) :: ((Zpos (XI (XO (XI (XO (XO (XI
    XH))))))) :: ((Zpos (XI (XO (XI (XI (XO XH)))))) :: ((Zpos (XO (XO (XI
    (XO (XO (XI XH))))))) :: ((Zpos (XI (XI (XI (XI (XO (XI
    XH))))))) :: ((Zpos (XI (XI (XI (XO (XI (XI XH))))))) :: ((Zpos (XO (XI
    (XI (XI (XO (XI XH))))))) :: []))))))))), (((Zpos (XO (XO (XO (XO (XI (XI
    XH))))))) :: ((Zpos (XI (XO (XO (XO (XO (XI XH))))))) :: ((Zpos (XI (XI
    (XI (XO (XO (XI XH))))))) :: ((Zpos (XI (XO (XI (XO (XO (XI
    XH))))))) :: ((Zpos (XI (XO (XI (XI (XO XH)))))) :: ((Zpos (XO (XO (XI
    (XO (XO (XI XH))))))) :: ((Zpos (XI (XI (XI (XI (XO (XI
    XH))))))) :: ((Zpos (XI (XI (XI (XO (XI (XI XH))))))) :: ((Zpos (XO (XI
    (XI (XI (XO (XI XH))))))) :: []))))))))) :: [])) :: ((((Zpos (XO (XO (XO
    (XI (XO (XI XH))))))) :: ((Zpos (XI (XO (XO (XO (XO (XI
    XH))))))) :: ((Zpos (XO (XO (XI (XI (XO (XI XH))))))) :: ((Zpos (XO (XI
    (XI (XO (XO (XI XH))))))) :: ((Zpos (XI (XO (XI (XI (XO
    XH)))))) :: ((Zpos (XO (XO (XO (XO (XI (XI XH))))))) :: ((Zpos (XI (XO
    (XO (XO (XO (XI XH))))))) :: ((Zpos (XI (XI (XI (XO (XO (XI
    XH))))))) :: ((Zpos (XI (XO (XI (XO (XO (XI XH))))))) :: ((Zpos (XI (XO
    (XI (XI (XO XH)))))) :: ((Zpos (XI (XO (XI (XO (XI (XI
    XH))))))) :: ((Zpos (XO (XO (XO (XO (XI (XI XH))))))) :: [])))))))))))),
    (((Zpos (XO (XO (XO (XI (XO (XI XH))))))) :: ((Zpos (XI (XO (XO (XO (XO
    (XI XH))))))) :: ((Zpos (XO (XO (XI (XI (XO (XI XH))))))) :: ((Zpos (XO
    (XI (XI (XO (XO (XI XH))))))) :: ((Zpos (XI (XO (XI (XI (XO
    XH)))))) :: ((Zpos (XO (XO (XO (XO (XI (XI XH))))))) :: ((Zpos (XI (XO
    (XO (XO (XO (XI XH))))))) :: ((Zpos (XI (XI (XI (XO (XO (XI
    XH))))))) :: ((Zpos (XI (XO (XI (XO (XO (XI XH))))))) :: ((Zpos (XI (XO
    (XI (XI (XO XH)))))) :: ((Zpos (XI (XO (XI (XO (XI (XI
    XH))))))) :: ((Zpos (XO (XO (XO (XO (XI (XI
    XH))))))) :: [])))))))))))) :: [])) :: ((((Zpos (XO (XO (XO (XI (XO (XI
    XH))))))) :: ((Zpos (XI (XO (XO (XO (XO (XI XH))))))) :: ((Zpos (XO (XO
    (XI (XI (XO (XI XH))))))) :: ((Zpos (XO (XI (XI (XO (XO (XI
    XH))))))) :: ((Zpos (XI (XO (XI (XI (XO XH)))))) :: ((Zpos (XO (XO (XO
    (XO (XI (XI XH))))))) :: ((Zpos (XI (XO (XO (XO (XO (XI
    XH))))))) :: ((Zpos (XI (XI (XI (XO (XO (XI XH))))))) :: ((Zpos (XI (XO
    (XI (XO (XO (XI XH))))))) :: ((Zpos (XI (XO (XI (XI (XO
    XH)))))) :: ((Zpos (XO (XO (XI (XO (XO (XI XH))))))) :: ((Zpos (XI (XI
    (XI (XI (XO (XI XH))))))) :: ((Zpos (XI (XI (XI (XO (XI (XI
    XH))))))) :: ((Zpos (XO (XI (XI (XI (XO (XI
    XH))))))) :: [])))))))))))))), (((Zpos (XO (XO (XO (XI (XO (XI
    XH))))))) :: ((Zpos (XI (XO (XO (XO (XO (XI XH))))))) :: ((Zpos (XO (XO
    (XI (XI (XO (XI XH))))))) :: ((Zpos (XO (XI (XI (XO (XO (XI
    XH))))))) :: ((Zpos (XI (XO (XI (XI (XO XH)))))) :: ((Zpos (XO (XO (XO
    (XO (XI (XI XH))))))) :: ((Zpos (XI (XO (XO (XO (XO (XI
    XH))))))) :: ((Zpos (XI (XI (XI (XO (XO (XI XH))))))) :: ((Zpos (XI (XO
    (XI (XO (XO (XI XH))))))) :: ((Zpos (XI (XO (XI (XI (XO
    XH)))))) :: ((Zpos (XO (XO (XI (XO (XO (XI XH))))))) :: ((Zpos (XI (XI
    (XI (XI (XO (XI XH))))))) :: ((Zpos (XI (XI (XI (XO (XI (XI
    XH))))))) :: ((Zpos (XO (XI (XI (XI (XO (XI
    XH))))))) :: [])))))))))))))) :: [])) :: ((((Zpos (XO (XO (XO (XO (XI (XI
    XH))))))) :: ((Zpos (XO (XI (XO (XO (XI (XI XH))))))) :: ((Zpos (XI (XO
    (XI (XO (XO (XI XH))))))) :: ((Zpos (XO (XI (XI (XO (XI (XI
    XH))))))) :: ((Zpos (XI (XO (XI (XI (XO XH)))))) :: ((Zpos (XO (XO (XO
    (XI (XO (XI XH))))))) :: ((Zpos (XI (XO (XO (XI (XO (XI
    XH))))))) :: ((Zpos (XI (XI (XO (XO (XI (XI XH))))))) :: ((Zpos (XO (XO
    (XI (XO (XI (XI XH))))))) :: ((Zpos (XI (XI (XI (XI (XO (XI
    XH))))))) :: ((Zpos (XO (XI (XO (XO (XI (XI XH))))))) :: ((Zpos (XI (XO
    (XO (XI (XI (XI XH))))))) :: [])))))))))))), (((Zpos (XO (XO (XO (XO (XI
    (XI XH))))))) :: ((Zpos (XO (XI (XO (XO (XI (XI XH))))))) :: ((Zpos (XI
    (XO (XI (XO (XO (XI XH))))))) :: ((Zpos (XO (XI (XI (XO (XI (XI
    XH))))))) :: ((Zpos (XI (XO (XI (XI (XO XH)))))) :: ((Zpos (XO (XO (XO
    (XI (XO (XI XH))))))) :: ((Zpos (XI (XO (XO (XI (XO (XI
    XH))))))) :: ((Zpos (XI (XI (XO (XO (XI (XI XH))))))) :: ((Zpos (XO (XO
    (XI (XO (XI (XI XH))))))) :: ((Zpos (XI (XI (XI (XI (XO (XI
    XH))))))) :: ((Zpos (XO (XI (XO (XO (XI (XI XH))))))) :: ((Zpos (XI (XO
    (XO (XI (XI (XI XH))))))) :: [])))))))))))) :: [])) :: ((((Zpos (XO (XO
    (XO (XO (XI (XI XH))))))) :: ((Zpos (XO (XI (XO (XO (XI (XI
    XH))))))) :: ((Zpos (XI (XO (XI (XO (XO (XI XH))))))) :: ((Zpos (XO (XI
    (XI (XO (XI (XI XH))))))) :: ((Zpos (XI (XO (XO (XI (XO (XI
    XH))))))) :: ((Zpos (XI (XI (XI (XI (XO (XI XH))))))) :: ((Zpos (XI (XO
    (XI (XO (XI (XI XH))))))) :: ((Zpos (XI (XI (XO (XO (XI (XI
    XH))))))) :: ((Zpos (XI (XO (XI (XI (XO XH)))))) :: ((Zpos (XO (XO (XO
    (XI (XO (XI XH))))))) :: ((Zpos (XI (XO (XO (XI (XO (XI
    XH))))))) :: ((Zpos (XI (XI (XO (XO (XI (XI XH))))))) :: ((Zpos (XO (XO
    (XI (XO (XI (XI XH))))))) :: ((Zpos (XI (XI (XI (XI (XO (XI
    XH))))))) :: ((Zpos (XO (XI (XO (XO (XI (XI XH))))))) :: ((Zpos (XI (XO
    (XO (XI (XI (XI XH))))))) :: [])))))))))))))))), (((Zpos (XO (XO (XO (XO
    (XI (XI XH))))))) :: ((Zpos (XO (XI (XO (XO (XI (XI XH))))))) :: ((Zpos
    (XI (XO (XI (XO (XO (XI XH))))))) :: ((Zpos (XO (XI (XI (XO (XI (XI
    XH))))))) :: ((Zpos (XI (XO (XI (XI (XO XH)))))) :: ((Zpos (XO (XO (XO
    (XI (XO (XI XH))))))) :: ((Zpos (XI (XO (XO (XI (XO (XI
    XH))))))) :: ((Zpos (XI (XI (XO (XO (XI (XI XH))))))) :: ((Zpos (XO (XO
    (XI (XO (XI (XI XH))))))) :: ((Zpos (XI (XI (XI (XI (XO (XI
    XH))))))) :: ((Zpos (XO (XI (XO (XO (XI (XI XH))))))) :: ((Zpos (XI (XO
    (XO (XI (XI (XI XH))))))) :: [])))))))))))) :: [])) :: ((((Zpos (XO (XI
    (XI (XI (XO (XI XH))))))) :: ((Zpos (XI (XO (XI (XO (XO (XI
    XH))))))) :: ((Zpos (XO (XO (XO (XI (XI (XI XH))))))) :: ((Zpos (XO (XO
    (XI (XO (XI (XI XH))))))) :: ((Zpos (XI (XO (XI (XI (XO
    XH)))))) :: ((Zpos (XO (XO (XO (XI (XO (XI XH))))))) :: ((Zpos (XI (XO
    (XO (XI (XO (XI XH))))))) :: ((Zpos (XI (XI (XO (XO (XI (XI
    XH))))))) :: ((Zpos (XO (XO (XI (XO (XI (XI XH))))))) :: ((Zpos (XI (XI
    (XI (XI (XO (XI XH))))))) :: ((Zpos (XO (XI (XO (XO (XI (XI
    XH))))))) :: ((Zpos (XI (XO (XO (XI (XI (XI XH))))))) :: [])))))))))))),
    (((Zpos (XO (XI (XI (XI (XO (XI XH))))))) :: ((Zpos (XI (XO (XI (XO (XO
    (XI XH))))))) :: ((Zpos (XO (XO (XO (XI (XI (XI XH))))))) :: ((Zpos (XO
    (XO (XI (XO (XI (XI XH))))))) :: ((Zpos (XI (XO (XI (XI (XO
    XH)))))) :: ((Zpos (XO (XO (XO (XI (XO (XI XH))))))) :: ((Zpos (XI (XO
    (XO (XI (XO (XI XH))))))) :: ((Zpos (XI (XI (XO (XO (XI (XI
    XH))))))) :: ((Zpos (XO (XO (XI (XO (XI (XI XH))))))) :: ((Zpos (XI (XI
    (XI (XI (XO (XI XH))))))) :: ((Zpos (XO (XI (XO (XO (XI (XI
    XH))))))) :: ((Zpos (XI (XO (XO (XI (XI (XI
    XH))))))) :: [])))))))))))) :: [])) :: ((((Zpos (XO (XO (XO (XO (XI (XI
    XH))))))) :: ((Zpos (XO (XI (XO (XO (XI (XI XH))))))) :: ((Zpos (XI (XO
    (XI (XO (XO (XI XH))))))) :: ((Zpos (XO (XI (XI (XO (XI (XI
    XH))))))) :: ((Zpos (XI (XO (XI (XI (XO XH)))))) :: ((Zpos (XI (XI (XO
    (XO (XI (XI XH))))))) :: ((Zpos (XI (XO (XI (XO (XO (XI
    XH))))))) :: ((Zpos (XO (XO (XI (XI (XO (XI XH))))))) :: ((Zpos (XI (XO
    (XI (XO (XO (XI XH))))))) :: ((Zpos (XI (XI (XO (XO (XO (XI
    XH))))))) :: ((Zpos (XO (XO (XI (XO (XI (XI XH))))))) :: ((Zpos (XI (XO
    (XI (XO (XO (XI XH))))))) :: ((Zpos (XO (XO (XI (XO (XO (XI
    XH))))))) :: []))))))))))))), (((Zpos (XO (XO (XO (XO (XI (XI
    XH))))))) :: ((Zpos (XO (XI (XO (XO (XI (XI XH))))))) :: ((Zpos (XI (XO
    (XI (XO (XO (XI XH))))))) :: ((Zpos (XO (XI (XI (XO (XI (XI
    XH))))))) :: ((Zpos (XI (XO (XI (XI (XO XH)))))) :: ((Zpos (XI (XI (XO
    (XO (XI (XI XH))))))) :: ((Zpos (XI (XO (XI (XO (XO (XI
    XH))))))) :: ((Zpos (XO (XO (XI (XI (XO (XI XH))))))) :: ((Zpos (XI (XO
    (XI (XO (XO (XI XH))))))) :: ((Zpos (XI (XI (XO (XO (XO (XI
    XH))))))) :: ((Zpos (XO (XO (XI (XO (XI (XI XH))))))) :: ((Zpos (XI (XO
    (XI (XO (XO (XI XH))))))) :: ((Zpos (XO (XO (XI (XO (XO (XI
    XH))))))) :: []))))))))))))) :: [])) :: ((((Zpos (XO (XI (XI (XI (XO (XI
    XH))))))) :: ((Zpos (XI (XO (XI (XO (XO (XI XH))))))) :: ((Zpos (XO (XO
    (XO (XI (XI (XI XH))))))) :: ((Zpos (XO (XO (XI (XO (XI (XI
    XH))))))) :: ((Zpos (XI (XO (XI (XI (XO XH)))))) :: ((Zpos (XI (XI (XO
    (XO (XI (XI XH))))))) :: ((Zpos (XI (XO (XI (XO (XO (XI
    XH))))))) :: ((Zpos (XO (XO (XI (XI (XO (XI XH))))))) :: ((Zpos (XI (XO
    (XI (XO (XO (XI XH))))))) :: ((Zpos (XI (XI (XO (XO (XO (XI
    XH))))))) :: ((Zpos (XO (XO (XI (XO (XI (XI XH))))))) :: ((Zpos (XI (XO
    (XI (XO (XO (XI XH))))))) :: ((Zpos (XO (XO (XI (XO (XO (XI
    XH))))))) :: []))))))))))))), (((Zpos (XO (XI (XI (XI (XO (XI
    XH))))))) :: ((Zpos (XI (XO (XI (XO (XO (XI XH))))))) :: ((Zpos (XO (XO
    (XO (XI (XI (XI XH))))))) :: ((Zpos (XO (XO (XI (XO (XI (XI
    XH))))))) :: ((Zpos (XI (XO (XI (XI (XO XH)))))) :: ((Zpos (XI (XI (XO
    (XO (XI (XI XH))))))) :: ((Zpos (XI (XO (XI (XO (XO (XI
    XH))))))) :: ((Zpos (XO (XO (XI (XI (XO (XI XH))))))) :: ((Zpos (XI (XO
    (XI (XO (XO (XI XH))))))) :: ((Zpos (XI (XI (XO (XO (XO (XI
    XH))))))) :: ((Zpos (XO (XO (XI (XO (XI (XI XH))))))) :: ((Zpos (XI (XO
    (XI (XO (XO (XI XH))))))) :: ((Zpos (XO (XO (XI (XO (XO (XI
    XH))))))) :: []))))))))))))) :: [])) :: ((((Zpos (XI (XI (XO (XO (XI (XI
    XH))))))) :: ((Zpos (XO (XO (XO (XI (XO (XI XH))))))) :: ((Zpos (XI (XI
    (XI (XI (XO (XI XH))))))) :: ((Zpos (XI (XI (XI (XO (XI (XI
    XH))))))) :: ((Zpos (XI (XO (XI (XI (XO XH)))))) :: ((Zpos (XO (XO (XO
    (XO (XI (XI XH))))))) :: ((Zpos (XO (XI (XO (XO (XI (XI
    XH))))))) :: ((Zpos (XI (XO (XI (XO (XO (XI XH))))))) :: ((Zpos (XO (XI
    (XI (XO (XI (XI XH))))))) :: ((Zpos (XI (XO (XO (XI (XO (XI
    XH))))))) :: ((Zpos (XI (XO (XI (XO (XO (XI XH))))))) :: ((Zpos (XI (XI
    (XI (XO (XI (XI XH))))))) :: [])))))))))))), (((Zpos (XI (XI (XO (XO (XI
    (XI XH))))))) :: ((Zpos (XO (XO (XO (XI (XO (XI XH))))))) :: ((Zpos (XI
    (XI (XI (XI (XO (XI XH))))))) :: ((Zpos (XI (XI (XI (XO (XI (XI
    XH))))))) :: ((Zpos (XI (XO (XI (XI (XO XH)))))) :: ((Zpos (XO (XO (XO
    (XO (XI (XI XH))))))) :: ((Zpos (XO (XI (XO (XO (XI (XI
    XH))))))) :: ((Zpos (XI (XO (XI (XO (XO (XI XH))))))) :: ((Zpos (XO (XI
    (XI (XO (XI (XI XH))))))) :: ((Zpos (XI (XO (XO (XI (XO (XI
    XH))))))) :: ((Zpos (XI (XO (XI (XO (XO (XI XH))))))) :: ((Zpos (XI (XI
    (XI (XO (XI (XI XH))))))) :: [])))))))))))) :: [])) :: ((((Zpos (XO (XO
    (XO (XI (XO (XI XH))))))) :: ((Zpos (XI (XO (XO (XI (XO (XI
    XH))))))) :: ((Zpos (XO (XO (XI (XO (XO (XI XH))))))) :: ((Zpos (XI (XO
    (XI (XO (XO (XI XH))))))) :: ((Zpos (XI (XO (XI (XI (XO
    XH)))))) :: ((Zpos (XO (XO (XO (XO (XI (XI XH))))))) :: ((Zpos (XO (XI
    (XO (XO (XI (XI XH))))))) :: ((Zpos (XI (XO (XI (XO (XO (XI
    XH))))))) :: ((Zpos (XO (XI (XI (XO (XI (XI XH))))))) :: ((Zpos (XI (XO
    (XO (XI (XO (XI XH))))))) :: ((Zpos (XI (XO (XI (XO (XO (XI
    XH))))))) :: ((Zpos (XI (XI (XI (XO (XI (XI XH))))))) :: [])))))))))))),
    (((Zpos (XO (XO (XO (XI (XO (XI XH))))))) :: ((Zpos (XI (XO (XO (XI (XO
    (XI XH))))))) :: ((Zpos (XO (XO (XI (XO (XO (XI XH))))))) :: ((Zpos (XI
    (XO (XI (XO (XO (XI XH))))))) :: ((Zpos (XI (XO (XI (XI (XO
    XH)))))) :: ((Zpos (XO (XO (XO (XO (XI (XI XH))))))) :: ((Zpos (XO (XI
    (XO (XO (XI (XI XH))))))) :: ((Zpos (XI (XO (XI (XO (XO (XI
    XH))))))) :: ((Zpos (XO (XI (XI (XO (XI (XI XH))))))) :: ((Zpos (XI (XO
    (XO (XI (XO (XI XH))))))) :: ((Zpos (XI (XO (XI (XO (XO (XI
    XH))))))) :: ((Zpos (XI (XI (XI (XO (XI (XI
    XH))))))) :: [])))))))))))) :: [])) :: ((((Zpos (XO (XO (XI (XO (XI (XI
    XH))))))) :: ((Zpos (XI (XI (XI (XI (XO (XI XH))))))) :: ((Zpos (XI (XI
    (XI (XO (XO (XI XH))))))) :: ((Zpos (XI (XI (XI (XO (XO (XI
    XH))))))) :: ((Zpos (XO (XO (XI (XI (XO (XI XH))))))) :: ((Zpos (XI (XO
    (XI (XO (XO (XI XH))))))) :: ((Zpos (XI (XO (XI (XI (XO
    XH)))))) :: ((Zpos (XO (XO (XO (XO (XI (XI XH))))))) :: ((Zpos (XO (XI
    (XO (XO (XI (XI XH))))))) :: ((Zpos (XI (XO (XI (XO (XO (XI
    XH))))))) :: ((Zpos (XO (XI (XI (XO (XI (XI XH))))))) :: ((Zpos (XI (XO
    (XO (XI (XO (XI XH))))))) :: ((Zpos (XI (XO (XI (XO (XO (XI
    XH))))))) :: ((Zpos (XI (XI (XI (XO (XI (XI
    XH))))))) :: [])))))))))))))), (((Zpos (XO (XO (XI (XO (XI (XI
    XH))))))) :: ((Zpos (XI (XI (XI (XI (XO (XI XH))))))) :: ((Zpos (XI (XI
    (XI (XO (XO (XI XH))))))) :: ((Zpos (XI (XI (XI (XO (XO (XI
    XH))))))) :: ((Zpos (XO (XO (XI (XI (XO (XI XH))))))) :: ((Zpos (XI (XO
    (XI (XO (XO (XI XH))))))) :: ((Zpos (XI (XO (XI (XI (XO
    XH)))))) :: ((Zpos (XO (XO (XO (XO (XI (XI XH))))))) :: ((Zpos (XO (XI
    (XO (XO (XI (XI XH))))))) :: ((Zpos (XI (XO (XI (XO (XO (XI
    XH))))))) :: ((Zpos (XO (XI (XI (XO (XI (XI XH))))))) :: ((Zpos (XI (XO
    (XO (XI (XO (XI XH))))))) :: ((Zpos (XI (XO (XI (XO (XO (XI
    XH))))))) :: ((Zpos (XI (XI (XI (XO (XI (XI
    XH))))))) :: [])))))))))))))) :: [])) :: ((((Zpos (XO (XO (XI (XO (XI (XI
    XH))))))) :: ((Zpos (XI (XI (XI (XI (XO (XI XH))))))) :: ((Zpos (XI (XI
    (XI (XO (XO (XI XH))))))) :: ((Zpos (XI (XI (XI (XO (XO (XI
    XH))))))) :: ((Zpos (XO (XO (XI (XI (XO (XI XH))))))) :: ((Zpos (XI (XO
    (XI (XO (XO (XI XH))))))) :: ((Zpos (XI (XO (XI (XI (XO
    XH)))))) :: ((Zpos (XO (XO (XO (XO (XI (XI XH))))))) :: ((Zpos (XO (XI
    (XO (XO (XI (XI XH))))))) :: ((Zpos (XI (XO (XI (XO (XO (XI
    XH))))))) :: ((Zpos (XO (XI (XI (XO (XI (XI XH))))))) :: ((Zpos (XI (XO
    (XO (XI (XO (XI XH))))))) :: ((Zpos (XI (XO (XI (XO (XO (XI
    XH))))))) :: ((Zpos (XI (XI (XI (XO (XI (XI XH))))))) :: ((Zpos (XI (XO
    (XI (XI (XO XH)))))) :: ((Zpos (XI (XI (XI (XO (XI (XI
    XH))))))) :: ((Zpos (XO (XI (XO (XO (XI (XI XH))))))) :: ((Zpos (XI (XO
    (XO (XO (XO (XI XH))))))) :: ((Zpos (XO (XO (XO (XO (XI (XI
    XH))))))) :: []))))))))))))))))))), (((Zpos (XO (XO (XI (XO (XI (XI
    XH))))))) :: ((Zpos (XI (XI (XI (XI (XO (XI XH))))))) :: ((Zpos (XI (XI
    (XI (XO (XO (XI XH))))))) :: ((Zpos (XI (XI (XI (XO (XO (XI
    XH))))))) :: ((Zpos (XO (XO (XI (XI (XO (XI XH))))))) :: ((Zpos (XI (XO
    (XI (XO (XO (XI XH))))))) :: ((Zpos (XI (XO (XI (XI (XO
    XH)))))) :: ((Zpos (XO (XO (XO (XO (XI (XI XH))))))) :: ((Zpos (XO (XI
    (XO (XO (XI (XI XH))))))) :: ((Zpos (XI (XO (XI (XO (XO (XI
    XH))))))) :: ((Zpos (XO (XI (XI (XO (XI (XI XH))))))) :: ((Zpos (XI (XO
    (XO (XI (XO (XI XH))))))) :: ((Zpos (XI (XO (XI (XO (XO (XI
    XH))))))) :: ((Zpos (XI (XI (XI (XO (XI (XI XH))))))) :: ((Zpos (XI (XO
    (XI (XI (XO XH)))))) :: ((Zpos (XI (XI (XI (XO (XI (XI
    XH))))))) :: ((Zpos (XO (XI (XO (XO (XI (XI XH))))))) :: ((Zpos (XI (XO
    (XO (XO (XO (XI XH))))))) :: ((Zpos (XO (XO (XO (XO (XI (XI
    XH))))))) :: []))))))))))))))))))) :: [])) :: ((((Zpos (XO (XO (XI (XO
    (XI (XI XH))))))) :: ((Zpos (XI (XI (XI (XI (XO (XI XH))))))) :: ((Zpos
    (XI (XI (XI (XO (XO (XI XH))))))) :: ((Zpos (XI (XI (XI (XO (XO (XI
    XH))))))) :: ((Zpos (XO (XO (XI (XI (XO (XI XH))))))) :: ((Zpos (XI (XO
    (XI (XO (XO (XI XH))))))) :: ((Zpos (XI (XO (XI (XI (XO
    XH)))))) :: ((Zpos (XI (XI (XO (XO (XI (XI XH))))))) :: ((Zpos (XI (XI
    (XI (XI (XO (XI XH))))))) :: ((Zpos (XO (XI (XO (XO (XI (XI
    XH))))))) :: ((Zpos (XO (XO (XI (XO (XI (XI XH))))))) :: []))))))))))),
    (((Zpos (XO (XO (XI (XO (XI (XI XH))))))) :: ((Zpos (XI (XI (XI (XI (XO
    (XI XH))))))) :: ((Zpos (XI (XI (XI (XO (XO (XI XH))))))) :: ((Zpos (XI
    (XI (XI (XO (XO (XI XH))))))) :: ((Zpos (XO (XO (XI (XI (XO (XI
    XH))))))) :: ((Zpos (XI (XO (XI (XO (XO (XI XH))))))) :: ((Zpos (XI (XO
    (XI (XI (XO XH)))))) :: ((Zpos (XI (XI (XO (XO (XI (XI
    XH))))))) :: ((Zpos (XI (XI (XI (XI (XO (XI XH))))))) :: ((Zpos (XO (XI
    (XO (XO (XI (XI XH))))))) :: ((Zpos (XO (XO (XI (XO (XI (XI
    XH))))))) :: []))))))))))) :: [])) :: ((((Zpos (XI (XI (XI (XI (XO (XI
    XH))))))) :: ((Zpos (XO (XI (XI (XO (XO (XI XH))))))) :: ((Zpos (XO (XI
    (XI (XO (XO (XI XH))))))) :: ((Zpos (XI (XI (XO (XO (XI (XI
    XH))))))) :: ((Zpos (XI (XO (XI (XO (XO (XI XH))))))) :: ((Zpos (XO (XO
    (XI (XO (XI (XI XH))))))) :: ((Zpos (XI (XO (XI (XI (XO
    XH)))))) :: ((Zpos (XI (XO (XI (XO (XI (XI XH))))))) :: ((Zpos (XO (XO
    (XO (XO (XI (XI XH))))))) :: []))))))))), (((Zpos (XI (XI (XI (XI (XO (XI
    XH))))))) :: ((Zpos (XO (XI (XI (XO (XO (XI XH))))))) :: ((Zpos (XO (XI
    (XI (XO (XO (XI XH))))))) :: ((Zpos (XI (XI (XO (XO (XI (XI
    XH))))))) :: ((Zpos (XI (XO (XI (XO (XO (XI XH))))))) :: ((Zpos (XO (XO
    (XI (XO (XI (XI XH))))))) :: ((Zpos (XI (XO (XI (XI (XO
    XH)))))) :: ((Zpos (XI (XO (XI (XO (XI (XI XH))))))) :: ((Zpos (XO (XO
    (XO (XO (XI (XI XH))))))) :: []))))))))) :: [])) :: ((((Zpos (XI (XI (XI
    (XI (XO (XI XH))))))) :: ((Zpos (XO (XI (XI (XO (XO (XI
    XH))))))) :: ((Zpos (XO (XI (XI (XO (XO (XI XH))))))) :: ((Zpos (XI (XI
    (XO (XO (XI (XI XH))))))) :: ((Zpos (XI (XO (XI (XO (XO (XI
    XH))))))) :: ((Zpos (XO (XO (XI (XO (XI (XI XH))))))) :: ((Zpos (XI (XO
    (XI (XI (XO XH)))))) :: ((Zpos (XO (XO (XI (XO (XO (XI
    XH))))))) :: ((Zpos (XI (XI (XI (XI (XO (XI XH))))))) :: ((Zpos (XI (XI
    (XI (XO (XI (XI XH))))))) :: ((Zpos (XO (XI (XI (XI (XO (XI
    XH))))))) :: []))))))))))), (((Zpos (XI (XI (XI (XI (XO (XI
    XH))))))) :: ((Zpos (XO (XI (XI (XO (XO (XI XH))))))) :: ((Zpos (XO (XI
    (XI (XO (XO (XI XH))))))) :: ((Zpos (XI (XI (XO (XO (XI (XI
    XH))))))) :: ((Zpos (XI (XO (XI (XO (XO (XI XH))))))) :: ((Zpos (XO (XO
    (XI (XO (XI (XI XH))))))) :: ((Zpos (XI (XO (XI (XI (XO
    XH)))))) :: ((Zpos (XO (XO (XI (XO (XO (XI XH))))))) :: ((Zpos (XI (XI
    (XI (XI (XO (XI XH))))))) :: ((Zpos (XI (XI (XI (XO (XI (XI
    XH))))))) :: ((Zpos (XO (XI (XI (XI (XO (XI
    XH))))))) :: []))))))))))) :: [])) :: ((((Zpos (XI (XI (XI (XI (XO (XI
    XH))))))) :: ((Zpos (XO (XI (XI (XO (XO (XI XH))))))) :: ((Zpos (XO (XI
    (XI (XO (XO (XI XH))))))) :: ((Zpos (XI (XI (XO (XO (XI (XI
    XH))))))) :: ((Zpos (XI (XO (XI (XO (XO (XI XH))))))) :: ((Zpos (XO (XO
    (XI (XO (XI (XI XH))))))) :: ((Zpos (XI (XO (XI (XI (XO
    XH)))))) :: ((Zpos (XI (XO (XI (XI (XO (XI XH))))))) :: ((Zpos (XI (XO
    (XO (XI (XO (XI XH))))))) :: ((Zpos (XO (XO (XI (XO (XO (XI
    XH))))))) :: ((Zpos (XO (XO (XI (XO (XO (XI XH))))))) :: ((Zpos (XO (XO
    (XI (XI (XO (XI XH))))))) :: ((Zpos (XI (XO (XI (XO (XO (XI
    XH))))))) :: []))))))))))))), (((Zpos (XI (XI (XI (XI (XO (XI
    XH))))))) :: ((Zpos (XO (XI (XI (XO (XO (XI XH))))))) :: ((Zpos (XO (XI
    (XI (XO (XO (XI XH))))))) :: ((Zpos (XI (XI (XO (XO (XI (XI
    XH))))))) :: ((Zpos (XI (XO (XI (XO (XO (XI XH))))))) :: ((Zpos (XO (XO
    (XI (XO (XI (XI XH))))))) :: ((Zpos (XI (XO (XI (XI (XO
    XH)))))) :: ((Zpos (XI (XO (XI (XI (XO (XI XH))))))) :: ((Zpos (XI (XO
    (XO (XI (XO (XI XH))))))) :: ((Zpos (XO (XO (XI (XO (XO (XI
    XH))))))) :: ((Zpos (XO (XO (XI (XO (XO (XI XH))))))) :: ((Zpos (XO (XO
    (XI (XI (XO (XI XH))))))) :: ((Zpos (XI (XO (XI (XO (XO (XI
    XH))))))) :: []))))))))))))) :: [])) :: ((((Zpos (XO (XO (XO (XO (XI (XI
    XH))))))) :: ((Zpos (XO (XI (XO (XO (XI (XI XH))))))) :: ((Zpos (XI (XO
    (XI (XO (XO (XI XH))))))) :: ((Zpos (XO (XI (XI (XO (XI (XI
    XH))))))) :: ((Zpos (XI (XO (XO (XI (XO (XI XH))))))) :: ((Zpos (XI (XO
    (XI (XO (XO (XI XH))))))) :: ((Zpos (XI (XI (XI (XO (XI (XI
    XH))))))) :: ((Zpos (XI (XO (XI (XI (XO XH)))))) :: ((Zpos (XO (XO (XI
    (XO (XI (XI XH))))))) :: ((Zpos (XI (XI (XI (XI (XO (XI
    XH))))))) :: ((Zpos (XO (XO (XO (XO (XI (XI XH))))))) :: []))))))))))),
    (((Zpos (XO (XO (XO (XO (XI (XI XH))))))) :: ((Zpos (XO (XI (XO (XO (XI
    (XI XH))))))) :: ((Zpos (XI (XO (XI (XO (XO (XI XH))))))) :: ((Zpos (XO
    (XI (XI (XO (XI (XI XH))))))) :: ((Zpos (XI (XO (XO (XI (XO (XI
    XH))))))) :: ((Zpos (XI (XO (XI (XO (XO (XI XH))))))) :: ((Zpos (XI (XI
    (XI (XO (XI (XI XH))))))) :: ((Zpos (XI (XO (XI (XI (XO
    XH)))))) :: ((Zpos (XO (XO (XI (XO (XI (XI XH))))))) :: ((Zpos (XI (XI
    (XI (XI (XO (XI XH))))))) :: ((Zpos (XO (XO (XO (XO (XI (XI
    XH))))))) :: []))))))))))) :: [])) :: ((((Zpos (XO (XO (XO (XO (XI (XI
    XH))))))) :: ((Zpos (XO (XI (XO (XO (XI (XI XH))))))) :: ((Zpos (XI (XO
    (XI (XO (XO (XI XH))))))) :: ((Zpos (XO (XI (XI (XO (XI (XI
    XH))))))) :: ((Zpos (XI (XO (XO (XI (XO (XI XH))))))) :: ((Zpos (XI (XO
    (XI (XO (XO (XI XH))))))) :: ((Zpos (XI (XI (XI (XO (XI (XI
    XH))))))) :: ((Zpos (XI (XO (XI (XI (XO XH)))))) :: ((Zpos (XO (XI (XO
    (XO (XO (XI XH))))))) :: ((Zpos (XI (XI (XI (XI (XO (XI
    XH))))))) :: ((Zpos (XO (XO (XI (XO (XI (XI XH))))))) :: ((Zpos (XO (XO
    (XI (XO (XI (XI XH))))))) :: ((Zpos (XI (XI (XI (XI (XO (XI
    XH))))))) :: ((Zpos (XI (XO (XI (XI (XO (XI
    XH))))))) :: [])))))))))))))), (((Zpos (XO (XO (XO (XO (XI (XI
    XH))))))) :: ((Zpos (XO (XI (XO (XO (XI (XI XH))))))) :: ((Zpos (XI (XO
    (XI (XO (XO (XI XH))))))) :: ((Zpos (XO (XI (XI (XO (XI (XI
    XH))))))) :: ((Zpos (XI (XO (XO (XI (XO (XI XH))))))) :: ((Zpos (XI (XO
    (XI (XO (XO (XI XH))))))) :: ((Zpos (XI (XI (XI (XO (XI (XI
    XH))))))) :: ((Zpos (XI (XO (XI (XI (XO XH)))))) :: ((Zpos (XO (XI (XO
    (XO (XO (XI XH))))))) :: ((Zpos (XI (XI (XI (XI (XO (XI
    XH))))))) :: ((Zpos (XO (XO (XI (XO (XI (XI XH))))))) :: ((Zpos (XO (XO
    (XI (XO (XI (XI XH))))))) :: ((Zpos (XI (XI (XI (XI (XO (XI
    XH))))))) :: ((Zpos (XI (XO (XI (XI (XO (XI
    XH))))))) :: [])))))))))))))) :: [])) :: ((((Zpos (XO (XO (XO (XO (XI (XI
    XH))))))) :: ((Zpos (XO (XI (XO (XO (XI (XI XH))))))) :: ((Zpos (XI (XO
    (XI (XO (XO (XI XH))))))) :: ((Zpos (XO (XI (XI (XO (XI (XI
    XH))))))) :: ((Zpos (XI (XO (XO (XI (XO (XI XH))))))) :: ((Zpos (XI (XO
    (XI (XO (XO (XI XH))))))) :: ((Zpos (XI (XI (XI (XO (XI (XI
    XH))))))) :: ((Zpos (XI (XO (XI (XI (XO XH)))))) :: ((Zpos (XI (XO (XI
    (XO (XI (XI XH))))))) :: ((Zpos (XO (XO (XO (XO (XI (XI
    XH))))))) :: [])))))))))), (((Zpos (XO (XO (XO (XO (XI (XI
    XH))))))) :: ((Zpos (XO (XI (XO (XO (XI (XI XH))))))) :: ((Zpos (XI (XO
    (XI (XO (XO (XI XH))))))) :: ((Zpos (XO (XI (XI (XO (XI (XI
    XH))))))) :: ((Zpos (XI (XO (XO (XI (XO (XI XH))))))) :: ((Zpos (XI (XO
    (XI (XO (XO (XI XH))))))) :: ((Zpos (XI (XI (XI (XO (XI (XI
    XH))))))) :: ((Zpos (XI (XO (XI (XI (XO XH)))))) :: ((Zpos (XI (XO (XI
    (XO (XI (XI XH))))))) :: ((Zpos (XO (XO (XO (XO (XI (XI
    XH))))))) :: [])))))))))) :: [])) :: ((((Zpos (XO (XO (XO (XO (XI (XI
    XH))))))) :: ((Zpos (XO (XI (XO (XO (XI (XI XH))))))) :: ((Zpos (XI (XO
    (XI (XO (XO (XI XH))))))) :: ((Zpos (XO (XI (XI (XO (XI (XI
    XH))))))) :: ((Zpos (XI (XO (XO (XI (XO (XI XH))))))) :: ((Zpos (XI (XO
    (XI (XO (XO (XI XH))))))) :: ((Zpos (XI (XI (XI (XO (XI (XI
    XH))))))) :: ((Zpos (XI (XO (XI (XI (XO XH)))))) :: ((Zpos (XO (XO (XI
    (XO (XO (XI XH))))))) :: ((Zpos (XI (XI (XI (XI (XO (XI
    XH))))))) :: ((Zpos (XI (XI (XI (XO (XI (XI XH))))))) :: ((Zpos (XO (XI
    (XI (XI (XO (XI XH))))))) :: [])))))))))))), (((Zpos (XO (XO (XO (XO (XI
    (XI XH))))))) :: ((Zpos (XO (XI (XO (XO (XI (XI XH))))))) :: ((Zpos (XI
    (XO (XI (XO (XO (XI XH))))))) :: ((Zpos (XO (XI (XI (XO (XI (XI
    XH))))))) :: ((Zpos (XI (XO (XO (XI (XO (XI XH))))))) :: ((Zpos (XI (XO
    (XI (XO (XO (XI XH))))))) :: ((Zpos (XI (XI (XI (XO (XI (XI
    XH))))))) :: ((Zpos (XI (XO (XI (XI (XO XH)))))) :: ((Zpos (XO (XO (XI
    (XO (XO (XI XH))))))) :: ((Zpos (XI (XI (XI (XI (XO (XI
    XH))))))) :: ((Zpos (XI (XI (XI (XO (XI (XI XH))))))) :: ((Zpos (XO (XI
    (XI (XI (XO (XI XH))))))) :: [])))))))))))) :: [])) :: ((((Zpos (XO (XO
    (XO (XO (XI (XI XH))))))) :: ((Zpos (XO (XI (XO (XO (XI (XI
    XH))))))) :: ((Zpos (XI (XO (XI (XO (XO (XI XH))))))) :: ((Zpos (XO (XI
    (XI (XO (XI (XI XH))))))) :: ((Zpos (XI (XO (XO (XI (XO (XI
    XH))))))) :: ((Zpos (XI (XO (XI (XO (XO (XI XH))))))) :: ((Zpos (XI (XI
    (XI (XO (XI (XI XH))))))) :: ((Zpos (XI (XO (XI (XI (XO
    XH)))))) :: ((Zpos (XO (XO (XO (XO (XI (XI XH))))))) :: ((Zpos (XI (XO
    (XO (XO (XO (XI XH))))))) :: ((Zpos (XI (XI (XI (XO (XO (XI
    XH))))))) :: ((Zpos (XI (XO (XI (XO (XO (XI XH))))))) :: ((Zpos (XI (XO
    (XI (XI (XO XH)))))) :: ((Zpos (XI (XO (XI (XO (XI (XI
    XH))))))) :: ((Zpos (XO (XO (XO (XO (XI (XI
    XH))))))) :: []))))))))))))))), (((Zpos (XO (XO (XO (XO (XI (XI
    XH))))))) :: ((Zpos (XO (XI (XO (XO (XI (XI XH))))))) :: ((Zpos (XI (XO
    (XI (XO (XO (XI XH))))))) :: ((Zpos (XO (XI (XI (XO (XI (XI
    XH))))))) :: ((Zpos (XI (XO (XO (XI (XO (XI XH))))))) :: ((Zpos (XI (XO
    (XI (XO (XO (XI XH))))))) :: ((Zpos (XI (XI (XI (XO (XI (XI
    XH))))))) :: ((Zpos (XI (XO (XI (XI (XO XH)))))) :: ((Zpos (XO (XO (XO
    (XO (XI (XI XH))))))) :: ((Zpos (XI (XO (XO (XO (XO (XI
    XH))))))) :: ((Zpos (XI (XI (XI (XO (XO (XI XH))))))) :: ((Zpos (XI (XO
    (XI (XO (XO (XI XH))))))) :: ((Zpos (XI (XO (XI (XI (XO
    XH)))))) :: ((Zpos (XI (XO (XI (XO (XI (XI XH))))))) :: ((Zpos (XO (XO
    (XO (XO (XI (XI XH))))))) :: []))))))))))))))) :: [])) :: ((((Zpos (XO
    (XO (XO (XO (XI (XI XH))))))) :: ((Zpos (XO (XI (XO (XO (XI (XI
    XH))))))) :: ((Zpos (XI (XO (XI (XO (XO (XI XH))))))) :: ((Zpos (XO (XI
    (XI (XO (XI (XI XH))))))) :: ((Zpos (XI (XO (XO (XI (XO (XI
    XH))))))) :: ((Zpos (XI (XO (XI (XO (XO (XI XH))))))) :: ((Zpos (XI (XI
    (XI (XO (XI (XI XH))))))) :: ((Zpos (XI (XO (XI (XI (XO
    XH)))))) :: ((Zpos (XO (XO (XO (XO (XI (XI XH))))))) :: ((Zpos (XI (XO
    (XO (XO (XO (XI XH))))))) :: ((Zpos (XI (XI (XI (XO (XO (XI
    XH))))))) :: ((Zpos (XI (XO (XI (XO (XO (XI XH))))))) :: ((Zpos (XI (XO
    (XI (XI (XO XH)))))) :: ((Zpos (XO (XO (XI (XO (XO (XI
    XH))))))) :: ((Zpos (XI (XI (XI (XI (XO (XI XH))))))) :: ((Zpos (XI (XI
    (XI (XO (XI (XI XH))))))) :: ((Zpos (XO (XI (XI (XI (XO (XI
    XH))))))) :: []))))))))))))))))), (((Zpos (XO (XO (XO (XO (XI (XI
    XH))))))) :: ((Zpos (XO (XI (XO (XO (XI (XI XH))))))) :: ((Zpos (XI (XO
    (XI (XO (XO (XI XH))))))) :: ((Zpos (XO (XI (XI (XO (XI (XI
    XH))))))) :: ((Zpos (XI (XO (XO (XI (XO (XI XH))))))) :: ((Zpos (XI (XO
    (XI (XO (XO (XI XH))))))) :: ((Zpos (XI (XI (XI (XO (XI (XI
    XH))))))) :: ((Zpos (XI (XO (XI (XI (XO XH)))))) :: ((Zpos (XO (XO (XO
    (XO (XI (XI XH))))))) :: ((Zpos (XI (XO (XO (XO (XO (XI
    XH))))))) :: ((Zpos (XI (XI (XI (XO (XO (XI XH))))))) :: ((Zpos (XI (XO
    (XI (XO (XO (XI XH))))))) :: ((Zpos (XI (XO (XI (XI (XO
    XH)))))) :: ((Zpos (XO (XO (XI (XO (XO (XI XH))))))) :: ((Zpos (XI (XI
    (XI (XI (XO (XI XH))))))) :: ((Zpos (XI (XI (XI (XO (XI (XI
    XH))))))) :: ((Zpos (XO (XI (XI (XI (XO (XI
    XH))))))) :: []))))))))))))))))) :: [])) :: ((((Zpos (XO (XO (XO (XO (XI
    (XI XH))))))) :: ((Zpos (XO (XI (XO (XO (XI (XI XH))))))) :: ((Zpos (XI
    (XO (XI (XO (XO (XI XH))))))) :: ((Zpos (XO (XI (XI (XO (XI (XI
    XH))))))) :: ((Zpos (XI (XO (XO (XI (XO (XI XH))))))) :: ((Zpos (XI (XO
    (XI (XO (XO (XI XH))))))) :: ((Zpos (XI (XI (XI (XO (XI (XI
    XH))))))) :: ((Zpos (XI (XO (XI (XI (XO XH)))))) :: ((Zpos (XO (XO (XO
    (XI (XO (XI XH))))))) :: ((Zpos (XI (XO (XO (XO (XO (XI
    XH))))))) :: ((Zpos (XO (XO (XI (XI (XO (XI XH))))))) :: ((Zpos (XO (XI
    (XI (XO (XO (XI XH))))))) :: ((Zpos (XI (XO (XI (XI (XO
    XH)))))) :: ((Zpos (XO (XO (XO (XO (XI (XI XH))))))) :: ((Zpos (XI (XO
    (XO (XO (XO (XI XH))))))) :: ((Zpos (XI (XI (XI (XO (XO (XI
    XH))))))) :: ((Zpos (XI (XO (XI (XO (XO (XI XH))))))) :: ((Zpos (XI (XO
    (XI (XI (XO XH)))))) :: ((Zpos (XI (XO (XI (XO (XI (XI
    XH))))))) :: ((Zpos (XO (XO (XO (XO (XI (XI
    XH))))))) :: [])))))))))))))))))))), (((Zpos (XO (XO (XO (XO (XI (XI
    XH))))))) :: ((Zpos (XO (XI (XO (XO (XI (XI XH))))))) :: ((Zpos (XI (XO
    (XI (XO (XO (XI XH))))))) :: ((Zpos (XO (XI (XI (XO (XI (XI
    XH))))))) :: ((Zpos (XI (XO (XO (XI (XO (XI XH))))))) :: ((Zpos (XI (XO
    (XI (XO (XO (XI XH))))))) :: ((Zpos (XI (XI (XI (XO (XI (XI
    XH))))))) :: ((Zpos (XI (XO (XI (XI (XO XH)))))) :: ((Zpos (XO (XO (XO
    (XI (XO (XI XH))))))) :: ((Zpos (XI (XO (XO (XO (XO (XI
    XH))))))) :: ((Zpos (XO (XO (XI (XI (XO (XI XH))))))) :: ((Zpos (XO (XI
    (XI (XO (XO (XI XH))))))) :: ((Zpos (XI (XO (XI (XI (XO
    XH)))))) :: ((Zpos (XO (XO (XO (XO (XI (XI XH))))))) :: ((Zpos (XI (XO
    (XO (XO (XO (XI XH))))))) :: ((Zpos (XI (XI (XI (XO (XO (XI
    XH))))))) :: ((Zpos (XI (XO (XI (XO (XO (XI XH))))))) :: ((Zpos (XI (XO
    (XI (XI (XO XH)))))) :: ((Zpos (XI (XO (XI (XO (XI (XI
    XH))))))) :: ((Zpos (XO (XO (XO (XO (XI (XI
    XH))))))) :: [])))))))))))))))))))) :: [])) :: ((((Zpos (XO (XO (XO (XO
    (XI (XI XH))))))) :: ((Zpos (XO (XI (XO (XO (XI (XI XH))))))) :: ((Zpos
    (XI (XO (XI (XO (XO (XI XH))))))) :: ((Zpos (XO (XI (XI (XO (XI (XI
    XH))))))) :: ((Zpos (XI (XO (XO (XI (XO (XI XH))))))) :: ((Zpos (XI (XO
    (XI (XO (XO (XI XH))))))) :: ((Zpos (XI (XI (XI (XO (XI (XI
    XH))))))) :: ((Zpos (XI (XO (XI (XI (XO XH)))))) :: ((Zpos (XO (XO (XO
    (XI (XO (XI XH))))))) :: ((Zpos (XI (XO (XO (XO (XO (XI
    XH))))))) :: ((Zpos (XO (XO (XI (XI (XO (XI XH))))))) :: ((Zpos (XO (XI
    (XI (XO (XO (XI XH))))))) :: ((Zpos (XI (XO (XI (XI (XO
    XH)))))) :: ((Zpos (XO (XO (XO (XO (XI (XI XH))))))) :: ((Zpos (XI (XO
    (XO (XO (XO (XI XH))))))) :: ((Zpos (XI (XI (XI (XO (XO (XI
    XH))))))) :: ((Zpos (XI (XO (XI (XO (XO (XI XH))))))) :: ((Zpos (XI (XO
    (XI (XI (XO XH)))))) :: ((Zpos (XO (XO (XI (XO (XO (XI
    XH))))))) :: ((Zpos (XI (XI (XI (XI (XO (XI XH))))))) :: ((Zpos (XI (XI
    (XI (XO (XI (XI XH))))))) :: ((Zpos (XO (XI (XI (XI (XO (XI
    XH))))))) :: [])))))))))))))))))))))), (((Zpos (XO (XO (XO (XO (XI (XI
    XH))))))) :: ((Zpos (XO (XI (XO (XO (XI (XI XH))))))) :: ((Zpos (XI (XO
    (XI (XO (XO (XI XH))))))) :: ((Zpos (XO (XI (XI (XO (XI (XI
    XH))))))) :: ((Zpos (XI (XO (XO (XI (XO (XI XH))))))) :: ((Zpos (XI (XO
    (XI (XO (XO (XI XH))))))) :: ((Zpos (XI (XI (XI (XO (XI (XI
    XH))))))) :: ((Zpos (XI (XO (XI (XI (XO XH)))))) :: ((Zpos (XO (XO (XO
    (XI (XO (XI XH))))))) :: ((Zpos (XI (XO (XO (XO (XO (XI
    XH))))))) :: ((Zpos (XO (XO (XI (XI (XO (XI XH))))))) :: ((Zpos (XO (XI
    (XI (XO (XO (XI XH))))))) :: ((Zpos (XI (XO (XI (XI (XO
    XH)))))) :: ((Zpos (XO (XO (XO (XO (XI (XI XH))))))) :: ((Zpos (XI (XO
    (XO (XO (XO (XI XH))))))) :: ((Zpos (XI (XI (XI (XO (XO (XI
    XH))))))) :: ((Zpos (XI (XO (XI (XO (XO (XI XH))))))) :: ((Zpos (XI (XO
    (XI (XI (XO XH)))))) :: ((Zpos (XO (XO (XI (XO (XO (XI
    XH))))))) :: ((Zpos (XI (XI (XI (XI (XO (XI XH))))))) :: ((Zpos (XI (XI
    (XI (XO (XI (XI XH))))))) :: ((Zpos (XO (XI (XI (XI (XO (XI
    XH))))))) :: [])))))))))))))))))))))) :: [])) :: ((((Zpos (XI (XO (XI (XO
    (XO (XI XH))))))) :: ((Zpos (XO (XI (XI (XI (XO (XI XH))))))) :: ((Zpos
    (XI (XO (XO (XO (XO (XI XH))))))) :: ((Zpos (XO (XI (XO (XO (XO (XI
    XH))))))) :: ((Zpos (XO (XO (XI (XI (XO (XI XH))))))) :: ((Zpos (XI (XO
    (XI (XO (XO (XI XH))))))) :: ((Zpos (XI (XO (XI (XI (XO
    XH)))))) :: ((Zpos (XI (XI (XO (XO (XI (XI XH))))))) :: ((Zpos (XI (XO
    (XI (XO (XO (XI XH))))))) :: ((Zpos (XI (XO (XO (XO (XO (XI
    XH))))))) :: ((Zpos (XO (XI (XO (XO (XI (XI XH))))))) :: ((Zpos (XI (XI
    (XO (XO (XO (XI XH))))))) :: ((Zpos (XO (XO (XO (XI (XO (XI
    XH))))))) :: []))))))))))))), (((Zpos (XI (XO (XI (XO (XO (XI
    XH))))))) :: ((Zpos (XO (XI (XI (XI (XO (XI XH))))))) :: ((Zpos (XI (XO
    (XO (XO (XO (XI XH))))))) :: ((Zpos (XO (XI (XO (XO (XO (XI
    XH))))))) :: ((Zpos (XO (XO (XI (XI (XO (XI XH))))))) :: ((Zpos (XI (XO
    (XI (XO (XO (XI XH))))))) :: ((Zpos (XI (XO (XI (XI (XO
    XH)))))) :: ((Zpos (XI (XI (XO (XO (XI (XI XH))))))) :: ((Zpos (XI (XO
    (XI (XO (XO (XI XH))))))) :: ((Zpos (XI (XO (XO (XO (XO (XI
    XH))))))) :: ((Zpos (XO (XI (XO (XO (XI (XI XH))))))) :: ((Zpos (XI (XI
    (XO (XO (XO (XI XH))))))) :: ((Zpos (XO (XO (XO (XI (XO (XI
    XH))))))) :: []))))))))))))) :: [])) :: ((((Zpos (XO (XO (XI (XO (XO (XI
    XH))))))) :: ((Zpos (XI (XO (XO (XI (XO (XI XH))))))) :: ((Zpos (XI (XI
    (XO (XO (XI (XI XH))))))) :: ((Zpos (XI (XO (XO (XO (XO (XI
    XH))))))) :: ((Zpos (XO (XI (XO (XO (XO (XI XH))))))) :: ((Zpos (XO (XO
    (XI (XI (XO (XI XH))))))) :: ((Zpos (XI (XO (XI (XO (XO (XI
    XH))))))) :: ((Zpos (XI (XO (XI (XI (XO XH)))))) :: ((Zpos (XI (XI (XO
    (XO (XI (XI XH))))))) :: ((Zpos (XI (XO (XI (XO (XO (XI
    XH))))))) :: ((Zpos (XI (XO (XO (XO (XO (XI XH))))))) :: ((Zpos (XO (XI
    (XO (XO (XI (XI XH))))))) :: ((Zpos (XI (XI (XO (XO (XO (XI
    XH))))))) :: ((Zpos (XO (XO (XO (XI (XO (XI
    XH))))))) :: [])))))))))))))), (((Zpos (XO (XO (XI (XO (XO (XI
    XH))))))) :: ((Zpos (XI (XO (XO (XI (XO (XI XH))))))) :: ((Zpos (XI (XI
    (XO (XO (XI (XI XH))))))) :: ((Zpos (XI (XO (XO (XO (XO (XI
    XH))))))) :: ((Zpos (XO (XI (XO (XO (XO (XI XH))))))) :: ((Zpos (XO (XO
    (XI (XI (XO (XI XH))))))) :: ((Zpos (XI (XO (XI (XO (XO (XI
    XH))))))) :: ((Zpos (XI (XO (XI (XI (XO XH)))))) :: ((Zpos (XI (XI (XO
    (XO (XI (XI XH))))))) :: ((Zpos (XI (XO (XI (XO (XO (XI
    XH))))))) :: ((Zpos (XI (XO (XO (XO (XO (XI XH))))))) :: ((Zpos (XO (XI
    (XO (XO (XI (XI XH))))))) :: ((Zpos (XI (XI (XO (XO (XO (XI
    XH))))))) :: ((Zpos (XO (XO (XO (XI (XO (XI
    XH))))))) :: [])))))))))))))) :: [])) :: ((((Zpos (XO (XI (XO (XO (XO (XI
    XH))))))) :: ((Zpos (XI (XO (XI (XO (XO (XI XH))))))) :: ((Zpos (XO (XO
    (XI (XI (XO (XI XH))))))) :: ((Zpos (XO (XO (XI (XI (XO (XI
    XH))))))) :: [])))), (((Zpos (XO (XI (XO (XO (XO (XI XH))))))) :: ((Zpos
    (XI (XO (XI (XO (XO (XI XH))))))) :: ((Zpos (XO (XO (XI (XI (XO (XI
    XH))))))) :: ((Zpos (XO (XO (XI (XI (XO (XI
    XH))))))) :: [])))) :: [])) :: ((((Zpos (XI (XO (XI (XO (XO (XI
    XH))))))) :: ((Zpos (XO (XO (XO (XI (XI (XI XH))))))) :: ((Zpos (XI (XI
    (XO (XO (XO (XI XH))))))) :: ((Zpos (XO (XO (XI (XI (XO (XI
    XH))))))) :: ((Zpos (XI (XO (XI (XO (XI (XI XH))))))) :: ((Zpos (XO (XO
    (XI (XO (XO (XI XH))))))) :: ((Zpos (XI (XO (XI (XO (XO (XI
    XH))))))) :: []))))))), (((Zpos (XI (XO (XI (XO (XO (XI
    XH))))))) :: ((Zpos (XO (XO (XO (XI (XI (XI XH))))))) :: ((Zpos (XI (XI
    (XO (XO (XO (XI XH))))))) :: ((Zpos (XO (XO (XI (XI (XO (XI
    XH))))))) :: ((Zpos (XI (XO (XI (XO (XI (XI XH))))))) :: ((Zpos (XO (XO
    (XI (XO (XO (XI XH))))))) :: ((Zpos (XI (XO (XI (XO (XO (XI
    XH))))))) :: []))))))) :: [])) :: ((((Zpos (XI (XO (XI (XO (XO (XI
    XH))))))) :: ((Zpos (XO (XO (XO (XI (XI (XI XH))))))) :: ((Zpos (XI (XI
    (XO (XO (XO (XI XH))))))) :: ((Zpos (XO (XO (XI (XI (XO (XI
    XH))))))) :: ((Zpos (XI (XO (XI (XO (XI (XI XH))))))) :: ((Zpos (XO (XO
    (XI (XO (XO (XI XH))))))) :: ((Zpos (XI (XO (XI (XO (XO (XI
    XH))))))) :: ((Zpos (XI (XO (XI (XI (XO XH)))))) :: ((Zpos (XI (XO (XI
    (XI (XO (XI XH))))))) :: ((Zpos (XI (XO (XI (XO (XI (XI
    XH))))))) :: ((Zpos (XO (XO (XI (XI (XO (XI XH))))))) :: ((Zpos (XO (XO
    (XI (XO (XI (XI XH))))))) :: ((Zpos (XI (XO (XO (XI (XO (XI
    XH))))))) :: []))))))))))))), (((Zpos (XI (XO (XI (XO (XO (XI
    XH))))))) :: ((Zpos (XO (XO (XO (XI (XI (XI XH))))))) :: ((Zpos (XI (XI
    (XO (XO (XO (XI XH))))))) :: ((Zpos (XO (XO (XI (XI (XO (XI
    XH))))))) :: ((Zpos (XI (XO (XI (XO (XI (XI XH))))))) :: ((Zpos (XO (XO
    (XI (XO (XO (XI XH))))))) :: ((Zpos (XI (XO (XI (XO (XO (XI
    XH))))))) :: ((Zpos (XI (XO (XI (XI (XO XH)))))) :: ((Zpos (XI (XO (XI
    (XI (XO (XI XH))))))) :: ((Zpos (XI (XO (XI (XO (XI (XI
    XH))))))) :: ((Zpos (XO (XO (XI (XI (XO (XI XH))))))) :: ((Zpos (XO (XO
    (XI (XO (XI (XI XH))))))) :: ((Zpos (XI (XO (XO (XI (XO (XI
    XH))))))) :: []))))))))))))) :: [])) :: [])))))))))))))))))))))))))))))))))))))))))))))))))))))))))))))))))))))))))))))))))))))))))))))

(** val is_execute_action : str -> str option res **)

let is_execute_action low =
  bind (mask_action_contents (cOLON :: low)) (fun m ->
    match m with
    | [] -> Err OutOfRange
    | _ :: masked ->
      if str_eqb masked low
      then Ok None
      else Ok (assoc_str (name_prefix low) arg_actions))

(** val check_arg : str -> str -> unit outcome **)

let check_arg canon arg0 =
  if mem_str canon key_arg_actions
  then (match parse_key_chords arg0 with
        | Good _ -> Good ()
        | Bad e -> Bad e)
  else Good ()

(** val pal_loop :
    str list -> bool -> str -> action list -> action list -> bool -> action
    list outcome res **)

let rec pal_loop specs first prev_spec acc prev_actions put_allowed =
  match specs with
  | [] -> Ok (Good acc)
  | sp :: rest ->
    let spec = app prev_spec sp in
    let low = to_lower spec in
    (match assoc_str low switch_table with
     | Some canon ->
       if (&&) (str_eqb low s_put) (negb put_allowed)
       then Ok (Bad e_PUT)
       else pal_loop rest false [] (app acc (map (fun c -> (c, [])) canon))
              prev_actions put_allowed
     | None ->
       bind (is_execute_action low) (fun t0 ->
         match t0 with
         | Some canon ->
           let offset = length (name_prefix spec) in
           bind (get spec offset) (fun c ->
             if Z.eqb c cOLON
             then (match rest with
                   | [] ->
                     let arg0 = skipn (S offset) spec in
                     (match check_arg canon arg0 with
                      | Good _ ->
                        pal_loop rest false []
                          (app acc ((canon, arg0) :: [])) prev_actions
                          put_allowed
                      | Bad e -> Ok (Bad e))
                   | _ :: _ ->
                     pal_loop rest false (app spec (pLUS :: [])) acc
                       prev_actions put_allowed)
             else if Nat.leb (S offset) (sub (length spec) (S O))
                  then let arg0 =
                         firstn (sub (sub (length spec) (S O)) (S offset))
                           (skipn (S offset) spec)
                       in
                       (match check_arg canon arg0 with
                        | Good _ ->
                          pal_loop rest false []
                            (app acc ((canon, arg0) :: [])) prev_actions
                            put_allowed
                        | Bad e -> Ok (Bad e))
                  else Err Panic)
         | None ->
           if (&&) first (negb (nonemptyb low))
           then pal_loop rest false [] (app prev_actions acc) prev_actions
                  put_allowed
           else if str_eqb low s_change_multi
                then pal_loop rest false []
                       (app acc ((s_change_multi, []) :: [])) prev_actions
                       put_allowed
                else Ok (Bad e_UNKNOWN_ACTION)))

(** val split2_aux :
    z -> (z * z) list -> (z * z) list -> (z * z) list list **)

let rec split2_aux sep0 cur = function
| [] -> (rev cur) :: []
| c :: r ->
  if Z.eqb (fst c) sep0
  then (rev cur) :: (split2_aux sep0 [] r)
  else split2_aux sep0 (c :: cur) r

(** val split2 : z -> (z * z) list -> (z * z) list list **)

let split2 sep0 s =
  split2_aux sep0 [] s

(** val parse_action_list :
    str -> str -> action list -> bool -> action list outcome res **)

let parse_action_list masked original prev put_allowed =
  if Nat.eqb (length masked) (length original)
  then pal_loop (map (map snd) (split2 pLUS (combine masked original))) true
         [] [] prev put_allowed
  else Err Panic

(** val parse_single_action_list : str -> action list outcome res **)

let parse_single_action_list s =
  bind (mask_action_contents (cOLON :: s)) (fun m ->
    match m with
    | [] -> Err OutOfRange
    | _ :: masked -> parse_action_list masked s [] false)

(** val break_colon :
    (z * z) list -> (z * z) list -> (z * z) list * (z * z) list option **)

let rec break_colon cur = function
| [] -> ((rev cur), None)
| c :: r ->
  if Z.eqb (fst c) cOLON
  then ((rev cur), (Some r))
  else break_colon (c :: cur) r

(** val key_of_name : str -> key outcome **)

let key_of_name name = match name with
| [] ->
  (match parse_key_chords name with
   | Good a -> (match a with
                | [] -> Good (KRune Z0)
                | k :: _ -> Good k)
   | Bad e -> Bad e)
| c :: l ->
  (match l with
   | [] ->
     if Z.eqb c eSC_COLON
     then Good (KRune cOLON)
     else if Z.eqb c eSC_COMMA
          then Good (KRune cOMMA)
          else if Z.eqb c eSC_PLUS
               then Good (KRune pLUS)
               else (match parse_key_chords name with
                     | Good a ->
                       (match a with
                        | [] -> Bad e_UNSUPPORTED_KEY
                        | k :: _ -> Good k)
                     | Bad e -> Bad e)
   | _ :: _ ->
     (match parse_key_chords name with
      | Good a -> (match a with
                   | [] -> Good (KRune Z0)
                   | k :: _ -> Good k)
      | Bad e -> Bad e))

(** val put_allowed_for : key -> bool **)

let put_allowed_for = function
| KRune r ->
  (&&) (Z.leb (Zpos (XO (XO (XO (XO (XO XH)))))) r)
    (Z.leb r (Zpos (XO (XI (XI (XI (XI (XI XH))))))))
| _ -> false

(** val bind_keys : str list -> keymap -> str -> str -> keymap outcome res **)

let rec bind_keys keys m masked_acts orig_acts =
  match keys with
  | [] -> Ok (Good m)
  | kn :: r ->
    (match key_of_name kn with
     | Good k ->
       bind
         (parse_action_list masked_acts orig_acts (km_get m k)
           (put_allowed_for k)) (fun o ->
         match o with
         | Good acts -> bind_keys r (km_set m k acts) masked_acts orig_acts
         | Bad e -> Ok (Bad e))
     | Bad e -> Ok (Bad e))

(** val keymap_loop :
    (z * z) list list -> str list -> keymap -> keymap outcome res **)

let rec keymap_loop pieces keys m =
  match pieces with
  | [] -> (match keys with
           | [] -> Ok (Good m)
           | _ :: _ -> Ok (Bad e_NO_ACTION))
  | p :: r ->
    let (k, rest) = break_colon [] p in
    (match k with
     | [] -> Ok (Bad e_KEY_REQUIRED)
     | _ :: _ ->
       let keys0 = app keys ((map fst k) :: []) in
       (match rest with
        | Some acts ->
          bind (bind_keys keys0 m (map fst acts) (map snd acts)) (fun o ->
            match o with
            | Good m' -> keymap_loop r [] m'
            | Bad e -> Ok (Bad e))
        | None -> keymap_loop r keys0 m))

(** val parse_keymap : keymap -> str -> keymap outcome res **)

let parse_keymap m s =
  bind (mask_action_contents s) (fun masked ->
    if Nat.eqb (length masked) (length s)
    then keymap_loop (split2 cOMMA (combine masked s)) [] m
    else Err Panic)

(** val parse_keymaps : keymap -> str list -> keymap outcome res **)

let rec parse_keymaps m = function
| [] -> Ok (Good m)
| s :: r ->
  bind (parse_keymap m s) (fun o ->
    match o with
    | Good m' -> parse_keymaps m' r
    | Bad e -> Ok (Bad e))

(** val enc_key : key -> val0 **)

let enc_key = function
| KRune r -> VL ((VI Z0) :: ((VI r) :: ((VL []) :: [])))
| KCtrl i -> VL ((VI (Zpos XH)) :: ((VI i) :: ((VL []) :: [])))
| KNamed n -> VL ((VI (Zpos (XO XH))) :: ((VI Z0) :: ((vstr n) :: [])))
| KF n -> VL ((VI (Zpos (XI XH))) :: ((VI n) :: ((VL []) :: [])))
| KAlt r -> VL ((VI (Zpos (XO (XO XH)))) :: ((VI r) :: ((VL []) :: [])))
| KCtrlAlt r -> VL ((VI (Zpos (XI (XO XH)))) :: ((VI r) :: ((VL []) :: [])))

(** val enc_action : action -> val0 **)

let enc_action a =
  VL ((vstr (fst a)) :: ((vstr (snd a)) :: []))

(** val enc_keymap : keymap -> val0 **)

let enc_keymap m =
  VL
    (map (fun e -> VL ((enc_key (fst e)) :: ((VL
      (map enc_action (snd e))) :: []))) m)

(** val enc_out : ('a1 -> val0) -> 'a1 outcome res -> val0 **)

let enc_out f = function
| Ok a0 ->
  (match a0 with
   | Good a -> VL ((VI (Zpos XH)) :: ((f a) :: []))
   | Bad e -> VL ((VI Z0) :: ((VI e) :: [])))
| Err _ -> verr

(** val dec_act : val0 -> act **)

let dec_act v =
  if Z.eqb (as_int (arg v O)) Z0
  then ASimple (as_str (arg v (S O)))
  else AArg ((as_str (arg v (S O))),
         (if Z.eqb (as_int (arg v (S (S O)))) Z0
          then FColon
          else FPair ((as_int (arg v (S (S O)))),
                 (as_int (arg v (S (S (S O))))))),
         (as_str (arg v (S (S (S (S O)))))))

(** val dec_pair : val0 -> bpair **)

let dec_pair v =
  ((as_strs (arg v O)), (map dec_act (as_list (arg v (S O)))))

(** val dec_bind : val0 -> bind0 **)

let dec_bind v =
  map dec_pair (as_list v)

(** val dispatch_bind : z -> val0 -> val0 option **)

let dispatch_bind op a =
  if Z.eqb op (Zpos (XI (XO (XI (XO (XO (XI (XO (XI (XO (XI XH)))))))))))
  then Some (enc_out enc_keymap (parse_keymaps [] (as_strs a)))
  else if Z.eqb op (Zpos (XO (XI (XI (XO (XO (XI (XO (XI (XO (XI XH)))))))))))
       then let bd = dec_bind a in
            Some (VL
            ((vstr (render bd)) :: ((vbool (wf_bind bd)) :: ((enc_keymap
                                                               (denote [] bd)) :: []))))
       else if Z.eqb op (Zpos (XI (XI (XI (XO (XO (XI (XO (XI (XO (XI
                 XH)))))))))))
            then Some
                   (match mask_action_contents (as_str a) with
                    | Ok m -> VL ((vstr m) :: [])
                    | Err _ -> verr)
            else if Z.eqb op (Zpos (XO (XO (XO (XI (XO (XI (XO (XI (XO (XI
                      XH)))))))))))
                 then Some
                        (enc_out (fun l -> VL (map enc_action l))
                          (parse_single_action_list (as_str a)))
                 else if Z.eqb op (Zpos (XI (XO (XO (XI (XO (XI (XO (XI (XO
                           (XI XH)))))))))))
                      then Some
                             (enc_out (fun l -> VL (map enc_key l)) (Ok
                               (parse_key_chords (as_str a))))
                      else None

(** val mAXQ : nat **)

let mAXQ =
  S (S (S (S (S (S (S (S (S (S (S (S (S (S (S (S (S (S (S (S (S (S (S (S (S
    (S (S (S (S (S (S (S (S (S (S (S (S (S (S (S (S (S (S (S (S (S (S (S (S
    (S (S (S (S (S (S (S (S (S (S (S (S (S (S (S (S (S (S (S (S (S (S (S (S
    (S (S (S (S (S (S (S (S (S (S (S (S (S (S (S (S (S (S (S (S (S (S (S (S
    (S (S (S (S (S (S (S (S (S (S (S (S (S (S (S (S (S (S (S (S (S (S (S (S
    (S (S (S (S (S (S (S (S (S (S (S (S (S (S (S (S (S (S (S (S (S (S (S (S
    (S (S (S (S (S (S (S (S (S (S (S (S (S (S (S (S (S (S (S (S (S (S (S (S
    (S (S (S (S (S (S (S (S (S (S (S (S (S (S (S (S (S (S (S (S (S (S (S (S
    (S (S (S (S (S (S (S (S (S (S (S (S (S (S (S (S (S (S (S (S (S (S (S (S
    (S (S (S (S (S (S (S (S (S (S (S (S (S (S (S (S (S (S (S (S (S (S (S (S
    (S (S (S (S (S (S (S (S (S (S (S (S (S (S (S (S (S (S (S (S (S (S (S (S
    (S (S (S (S (S (S (S (S (S (S (S (S (S (S (S (S (S (S (S (S (S (S (S (S
    (S (S (S (S (S (S (S (S (S (S (S (S (S (S (S (S (S (S (S (S (S (S (S (S
    (S (S (S (S (S (S (S (S (S (S (S (S (S (S (S (S (S (S (S (S (S (S (S (S
    (S (S (S (S (S (S (S (S (S (S (S (S (S (S (S (S (S (S (S (S (S (S (S (S
    (S (S (S (S (S (S (S (S (S (S (S (S (S (S (S (S (S (S (S (S (S (S (S (S
    (S (S (S (S (S (S (S (S (S (S (S (S (S (S (S (S (S (S (S (S (S (S (S (S
    (S (S (S (S (S (S (S (S (S (S (S (S (S (S (S (S (S (S (S (S (S (S (S (S
    (S (S (S (S (S (S (S (S (S (S (S (S (S (S (S (S (S (S (S (S (S (S (S (S
    (S (S (S (S (S (S (S (S (S (S (S (S (S (S (S (S (S (S (S (S (S (S (S (S
    (S (S (S (S (S (S (S (S (S (S (S (S (S (S (S (S (S (S (S (S (S (S (S (S
    (S (S (S (S (S (S (S (S (S (S (S (S (S (S (S (S (S (S (S (S (S (S (S (S
    (S (S (S (S (S (S (S (S (S (S (S (S (S (S (S (S (S (S (S (S (S (S (S (S
    (S (S (S (S (S (S (S (S (S (S (S (S (S (S (S (S (S (S (S (S (S (S (S (S
    (S (S (S (S (S (S (S (S (S (S (S (S (S (S (S (S (S (S (S (S (S (S (S (S
    (S (S (S (S (S (S (S (S (S (S (S (S (S (S (S (S (S (S (S (S (S (S (S (S
    (S (S (S (S (S (S (S (S (S (S (S (S (S (S (S (S (S (S (S (S (S (S (S (S
    (S (S (S (S (S (S (S (S (S (S (S (S (S (S (S (S (S (S (S (S (S (S (S (S
    (S (S (S (S (S (S (S (S (S (S (S (S (S (S (S (S (S (S (S (S (S (S (S (S
    (S (S (S (S (S (S (S (S (S (S (S (S (S (S (S (S (S (S (S (S (S (S (S (S
    (S (S (S (S (S (S (S (S (S (S (S (S (S (S (S (S (S (S (S (S (S (S (S (S
    (S (S (S (S (S (S (S (S (S (S (S (S (S (S (S (S (S (S (S (S (S (S (S (S
    (S (S (S (S (S (S (S (S (S (S (S (S (S (S (S (S (S (S (S (S (S (S (S (S
    (S (S (S (S (S (S (S (S (S (S (S (S (S (S (S (S (S (S (S (S (S (S (S (S
    (S (S (S (S (S (S (S (S (S (S (S (S (S (S (S (S (S (S (S (S (S (S (S (S
    (S (S (S (S (S (S (S (S (S (S (S (S (S (S (S (S (S (S (S (S (S (S (S (S
    (S (S (S (S (S (S (S (S (S (S (S (S (S (S (S (S (S (S (S (S (S (S (S (S
    (S (S (S (S (S (S (S (S (S (S (S (S (S (S (S (S (S (S (S (S (S (S (S (S
    (S (S (S (S (S (S (S (S (S (S (S (S (S (S (S (S (S (S (S (S (S (S (S (S
    (S (S (S (S (S (S (S (S (S (S (S (S (S (S (S (S (S (S (S (S (S (S (S (S
    (S (S (S (S (S (S (S (S (S (S (S (S (S (S (S (S (S (S (S (S (S (S (S (S
    (S (S (S (S (S (S (S (S (S (S (S (S (S (S (S
    O)))))))))))))))))))))))))))))))))))))))))))))))))))))))))))))))))))))))))))))))))))))))))))))))))))))))))))))))))))))))))))))))))))))))))))))))))))))))))))))))))))))))))))))))))))))))))))))))))))))))))))))))))))))))))))))))))))))))))))))))))))))))))))))))))))))))))))))))))))))))))))))))))))))))))))))))))))))))))))))))))))))))))))))))))))))))))))))))))))))))))))))))))))))))))))))))))))))))))))))))))))))))))))))))))))))))))))))))))))))))))))))))))))))))))))))))))))))))))))))))))))))))))))))))))))))))))))))))))))))))))))))))))))))))))))))))))))))))))))))))))))))))))))))))))))))))))))))))))))))))))))))))))))))))))))))))))))))))))))))))))))))))))))))))))))))))))))))))))))))))))))))))))))))))))))))))))))))))))))))))))))))))))))))))))))))))))))))))))))))))))))))))))))))))))))))))))))))))))))))))))))))))))))))))))))))))))))))))))))))))))))))))))))))))))))))))))))))))))))))))))))))))))))))))))))))))))))))))))))))))))))))))))))))))))))))))))))))))))))))))))))))))))))))))))))))))))))))))))))))))

(** val nLc : z **)

let nLc =
  Zpos (XO (XI (XO XH)))

(** val pATHSEP : z **)

let pATHSEP =
  Zpos (XI (XI (XI (XI (XO XH)))))

type item = z * str

(** val idx : item -> z **)

let idx =
  fst

type act0 =
| AChar of z
| APut of str
| ABackwardDeleteChar
| ADeleteChar
| ABackwardChar
| AForwardChar
| ABeginningOfLine
| AEndOfLine
| AKillLine
| AUnixLineDiscard
| AUnixWordRubout
| ABackwardKillWord
| ABackwardWord
| AForwardWord
| AKillWord
| AYank
| AClearQuery
| ACancel
| AChangeQuery of str
| AReplaceQuery
| AUp
| ADown
| AFirst
| ALast
| APos of z
| APageUp
| APageDown
| AHalfPageUp
| AHalfPageDown
| AToggle
| AToggleIn
| AToggleOut
| ASelect
| ADeselect
| ASelectAll
| ADeselectAll
| AToggleAll
| AClearSelection
| ATruncate
| ARender
| AUpdate of item list * bool

type zip = { zb : str; za : str; zk : str }

(** val ztext : zip -> str **)

let ztext z0 =
  app (rev z0.zb) z0.za

(** val is_blank : z -> bool **)

let is_blank c =
  (||)
    ((||)
      ((||)
        ((||) (Z.eqb c (Zpos (XO (XO (XO (XO (XO XH)))))))
          (Z.eqb c (Zpos (XI (XO (XO XH))))))
        (Z.eqb c (Zpos (XO (XI (XO XH))))))
      (Z.eqb c (Zpos (XO (XO (XI XH)))))) (Z.eqb c (Zpos (XI (XO (XI XH)))))

(** val word_span : (z -> bool) -> str -> nat **)

let word_span isw0 l =
  sub (length l)
    (length (drop_while isw0 (drop_while (fun c -> negb (isw0 c)) l)))

(** val move_left : nat -> zip -> zip **)

let move_left k z0 =
  { zb = (skipn k z0.zb); za = (app (rev (firstn k z0.zb)) z0.za); zk =
    z0.zk }

(** val move_right : nat -> zip -> zip **)

let move_right k z0 =
  { zb = (app (rev (firstn k z0.za)) z0.zb); za = (skipn k z0.za); zk =
    z0.zk }

(** val kill_left : nat -> zip -> zip **)

let kill_left k z0 =
  match k with
  | O -> z0
  | S _ -> { zb = (skipn k z0.zb); za = z0.za; zk = (rev (firstn k z0.zb)) }

(** val kill_right : nat -> zip -> zip **)

let kill_right k z0 =
  match k with
  | O -> z0
  | S _ -> { zb = z0.zb; za = (skipn k z0.za); zk = (firstn k z0.za) }

(** val zinsert : str -> zip -> zip **)

let zinsert s z0 =
  { zb = (app (rev s) z0.zb); za = z0.za; zk = z0.zk }

type ecmd =
| EInsert of str
| EBackDel
| EDel
| ELeft
| ERight
| EHome
| EEnd
| EKillLine
| ELineDiscard
| EWordRubout
| EBackKillWord
| EBackWord
| EFwdWord
| EKillWord
| EYank
| EClear
| ECancel
| ESet of str
| ETrunc
| ENop

(** val zstep : (z -> bool) -> zip -> ecmd -> zip **)

let zstep isw0 z0 = function
| EInsert s -> zinsert s z0
| EBackDel -> { zb = (tl z0.zb); za = z0.za; zk = z0.zk }
| EDel -> { zb = z0.zb; za = (tl z0.za); zk = z0.zk }
| ELeft -> move_left (S O) z0
| ERight -> move_right (S O) z0
| EHome -> move_left (length z0.zb) z0
| EEnd -> move_right (length z0.za) z0
| EKillLine -> kill_right (length z0.za) z0
| ELineDiscard -> kill_left (length z0.zb) z0
| EWordRubout -> kill_left (word_span (fun c0 -> negb (is_blank c0)) z0.zb) z0
| EBackKillWord -> kill_left (word_span isw0 z0.zb) z0
| EBackWord -> move_left (word_span isw0 z0.zb) z0
| EFwdWord -> move_right (word_span isw0 z0.za) z0
| EKillWord -> kill_right (word_span isw0 z0.za) z0
| EYank -> zinsert z0.zk z0
| EClear -> { zb = []; za = []; zk = z0.zk }
| ECancel ->
  (match ztext z0 with
   | [] -> z0
   | z1 :: l -> { zb = []; za = []; zk = (z1 :: l) })
| ESet s -> { zb = (rev s); za = []; zk = z0.zk }
| ETrunc ->
  let b = skipn (sub (length z0.zb) mAXQ) z0.zb in
  { zb = b; za = (firstn (sub mAXQ (length b)) z0.za); zk = z0.zk }
| ENop -> z0

(** val clampz : z -> z -> z -> z **)

let clampz v lo hi =
  if Z.ltb v lo then lo else if Z.ltb hi v then hi else v

(** val clamp_pos : z -> z -> z **)

let clamp_pos count0 p =
  clampz p Z0 (Z.max Z0 (Z.sub count0 (Zpos XH)))

(** val cur_move : bool -> z -> z -> z -> z **)

let cur_move cycle count0 pos d =
  let dest = Z.add pos d in
  if (&&) ((&&) cycle (Z.ltb (Z.sub count0 (Zpos XH)) dest))
       (Z.eqb pos (Z.sub count0 (Zpos XH)))
  then clamp_pos count0 Z0
  else if (&&) ((&&) cycle (Z.ltb dest Z0)) (Z.eqb pos Z0)
       then clamp_pos count0 (Z.sub count0 (Zpos XH))
       else clamp_pos count0 dest

(** val sel_mem : z -> item list -> bool **)

let sel_mem i sel0 =
  existsb (fun it -> Z.eqb (idx it) i) sel0

(** val sel_remove : z -> item list -> item list **)

let sel_remove i sel0 =
  filter (fun it -> negb (Z.eqb (idx it) i)) sel0

(** val sel_add : z -> item -> item list -> bool * item list **)

let sel_add limit it sel0 =
  if Z.leb limit (Z.of_nat (length sel0))
  then (false, sel0)
  else if sel_mem (idx it) sel0
       then (true, sel0)
       else (true, (app sel0 (it :: [])))

(** val sel_toggle : z -> item -> item list -> bool * item list **)

let sel_toggle limit it sel0 =
  if sel_mem (idx it) sel0
  then (true, (sel_remove (idx it) sel0))
  else sel_add limit it sel0

(** val sel_add_all : z -> item list -> item list -> item list **)

let rec sel_add_all limit rs sel0 =
  match rs with
  | [] -> sel0
  | it :: r ->
    let (ok, sel') = sel_add limit it sel0 in
    if ok then sel_add_all limit r sel' else sel'

(** val sel_remove_all : item list -> item list -> item list **)

let sel_remove_all rs sel0 =
  filter (fun it -> negb (sel_mem (idx it) rs)) sel0

(** val sel_toggle_all : z -> item list -> item list -> item list **)

let sel_toggle_all limit rs sel0 =
  sel_add_all limit (filter (fun it -> negb (sel_mem (idx it) sel0)) rs)
    (sel_remove_all rs sel0)

(** val spec_output : item list -> item option -> item list **)

let spec_output sel0 current =
  match sel0 with
  | [] -> (match current with
           | Some it -> it :: []
           | None -> [])
  | _ :: _ -> sel0

type sparams = { sp_multi : z; sp_cycle : bool; sp_flip : bool; sp_page : 
                 z; sp_noinput : bool }

type sstate = { ss_zip : zip; ss_res : item list; ss_pos : z;
                ss_sel : item list }

(** val ss_count : sstate -> z **)

let ss_count s =
  Z.of_nat (length s.ss_res)

(** val ss_current : sstate -> item option **)

let ss_current s =
  if (&&) (Z.leb Z0 s.ss_pos) (Z.ltb s.ss_pos (ss_count s))
  then nth_error s.ss_res (Z.to_nat s.ss_pos)
  else None

(** val ecmd_of_spec : sstate -> act0 -> ecmd **)

let ecmd_of_spec s = function
| AChar c -> EInsert (c :: [])
| APut t0 -> EInsert t0
| ABackwardDeleteChar -> EBackDel
| ADeleteChar -> EDel
| ABackwardChar -> ELeft
| AForwardChar -> ERight
| ABeginningOfLine -> EHome
| AEndOfLine -> EEnd
| AKillLine -> EKillLine
| AUnixLineDiscard -> ELineDiscard
| AUnixWordRubout -> EWordRubout
| ABackwardKillWord -> EBackKillWord
| ABackwardWord -> EBackWord
| AForwardWord -> EFwdWord
| AKillWord -> EKillWord
| AYank -> EYank
| AClearQuery -> EClear
| ACancel -> ECancel
| AChangeQuery t0 -> ESet t0
| AReplaceQuery ->
  (match ss_current s with
   | Some it -> ESet (snd it)
   | None -> ENop)
| ATruncate -> ETrunc
| _ -> ENop

(** val dirz : sparams -> bool -> z **)

let dirz p up =
  if xorb up p.sp_flip then Zpos XH else Zneg XH

(** val with_pos : sstate -> z -> sstate **)

let with_pos s q =
  { ss_zip = s.ss_zip; ss_res = s.ss_res; ss_pos = q; ss_sel = s.ss_sel }

(** val with_sel : sstate -> item list -> sstate **)

let with_sel s sel0 =
  { ss_zip = s.ss_zip; ss_res = s.ss_res; ss_pos = s.ss_pos; ss_sel = sel0 }

(** val smove : sparams -> sstate -> bool -> sstate **)

let smove p s up =
  with_pos s (cur_move p.sp_cycle (ss_count s) s.ss_pos (dirz p up))

(** val stoggle : sparams -> sstate -> bool * sstate **)

let stoggle p s =
  match ss_current s with
  | Some it ->
    if Z.ltb Z0 p.sp_multi
    then let (ok, sel0) = sel_toggle p.sp_multi it s.ss_sel in
         (ok, (with_sel s sel0))
    else (false, s)
  | None -> (false, s)

(** val sstep_list : sparams -> sstate -> act0 -> sstate **)

let sstep_list p s a =
  let count0 = ss_count s in
  let multi = Z.ltb Z0 p.sp_multi in
  (match a with
   | AUp -> smove p s true
   | ADown -> smove p s false
   | AFirst -> with_pos s (clamp_pos count0 Z0)
   | ALast -> with_pos s (clamp_pos count0 (Z.sub count0 (Zpos XH)))
   | APos n ->
     with_pos s
       (clamp_pos count0
         (if Z.ltb Z0 n
          then Z.sub n (Zpos XH)
          else if Z.ltb n Z0 then Z.add n count0 else n))
   | APageUp ->
     with_pos s
       (clamp_pos count0
         (Z.add s.ss_pos
           (Z.mul (dirz p true) (Z.max (Zpos XH) (Z.sub p.sp_page (Zpos XH))))))
   | APageDown ->
     with_pos s
       (clamp_pos count0
         (Z.add s.ss_pos
           (Z.mul (dirz p false)
             (Z.max (Zpos XH) (Z.sub p.sp_page (Zpos XH))))))
   | AHalfPageUp ->
     with_pos s
       (clamp_pos count0
         (Z.add s.ss_pos
           (Z.mul (dirz p true)
             (Z.max (Zpos XH) (Z.div p.sp_page (Zpos (XO XH)))))))
   | AHalfPageDown ->
     with_pos s
       (clamp_pos count0
         (Z.add s.ss_pos
           (Z.mul (dirz p false)
             (Z.max (Zpos XH) (Z.div p.sp_page (Zpos (XO XH)))))))
   | AToggle -> snd (stoggle p s)
   | AToggleIn -> smove p (snd (stoggle p s)) p.sp_flip
   | AToggleOut -> smove p (snd (stoggle p s)) (negb p.sp_flip)
   | ASelect ->
     (match ss_current s with
      | Some it ->
        if multi then with_sel s (snd (sel_add p.sp_multi it s.ss_sel)) else s
      | None -> s)
   | ADeselect ->
     (match ss_current s with
      | Some it ->
        if multi then with_sel s (sel_remove (idx it) s.ss_sel) else s
      | None -> s)
   | ASelectAll ->
     if multi
     then with_sel s (sel_add_all p.sp_multi s.ss_res s.ss_sel)
     else s
   | ADeselectAll ->
     if multi then with_sel s (sel_remove_all s.ss_res s.ss_sel) else s
   | AToggleAll ->
     if multi
     then with_sel s (sel_toggle_all p.sp_multi s.ss_res s.ss_sel)
     else s
   | AClearSelection -> if multi then with_sel s [] else s
   | AUpdate (rs, reload) ->
     { ss_zip = s.ss_zip; ss_res = rs; ss_pos =
       (clamp_pos (Z.of_nat (length rs)) s.ss_pos); ss_sel =
       (if reload then [] else s.ss_sel) }
   | _ -> s)

(** val sstep : (z -> bool) -> sparams -> sstate -> act0 -> sstate **)

let sstep isw0 p s a =
  let s1 = sstep_list p s a in
  if p.sp_noinput
  then s1
  else { ss_zip = (zstep isw0 s.ss_zip (ecmd_of_spec s a)); ss_res =
         s1.ss_res; ss_pos = s1.ss_pos; ss_sel = s1.ss_sel }

(** val srun : (z -> bool) -> sparams -> sstate -> act0 list -> sstate **)

let srun isw0 p s acts =
  fold_left (sstep isw0 p) acts s

(** val obs_cursor_ok : z -> z -> z option -> z list -> bool **)

let obs_cursor_ok count0 pos current matches =
  if Z.eqb count0 Z0
  then (match current with
        | Some _ -> false
        | None -> true)
  else (&&) ((&&) (Z.leb Z0 pos) (Z.ltb pos count0))
         (match current with
          | Some c ->
            (match nth_error matches (Z.to_nat pos) with
             | Some m -> Z.eqb c m
             | None -> false)
          | None -> false)

(** val nodupz : z list -> bool **)

let rec nodupz = function
| [] -> true
| x :: r -> (&&) (negb (existsb (Z.eqb x) r)) (nodupz r)

(** val obs_sel_ok : z -> z list -> bool **)

let obs_sel_ok multi sel0 =
  (&&) (Z.leb (Z.of_nat (length sel0)) multi) (nodupz sel0)

type cfg = { c_multi : z; c_cycle : bool; c_default_layout : bool;
             c_inputless : bool; c_track : bool; c_maxitems : z;
             c_scrolloff : z; c_fileword : bool }

type st = { s_input : str; s_cx : nat; s_yanked : str; s_res : item list;
            s_cy : z; s_offset : z; s_sel : item list }

(** val take : 'a1 list -> nat -> 'a1 list res **)

let take l n =
  if Nat.leb n (length l) then Ok (firstn n l) else Err OutOfRange

(** val drop : 'a1 list -> nat -> 'a1 list res **)

let drop l n =
  if Nat.leb n (length l) then Ok (skipn n l) else Err OutOfRange

(** val slice : 'a1 list -> nat -> nat -> 'a1 list res **)

let slice l a b =
  if Nat.leb a b then bind (take l b) (fun p -> drop p a) else Err OutOfRange

(** val constrain_z : z -> z -> z -> z **)

let constrain_z v lo hi =
  if Z.ltb v lo then lo else if Z.ltb hi v then hi else v

(** val isw : (z -> bool) -> cfg -> z -> bool **)

let isw is_alnum c x =
  if c.c_fileword then negb (Z.eqb x pATHSEP) else is_alnum x

(** val rx_word_rubout : (z -> bool) -> cfg -> z -> z -> bool **)

let rx_word_rubout is_alnum c a b =
  (&&) (negb (isw is_alnum c a)) (isw is_alnum c b)

(** val rx_space_nonspace : z -> z -> bool **)

let rx_space_nonspace a b =
  (&&) (is_blank a) (negb (is_blank b))

(** val find_last : (z -> z -> bool) -> str -> nat option **)

let rec find_last p3 = function
| [] -> None
| a :: t0 ->
  (match find_last p3 t0 with
   | Some j -> Some (S j)
   | None ->
     (match t0 with
      | [] -> None
      | b :: _ -> if p3 a b then Some O else None))

(** val find_last_plus1 : (z -> z -> bool) -> str -> nat **)

let find_last_plus1 p3 s =
  match find_last p3 s with
  | Some i -> S i
  | None -> O

(** val find_first_next : (z -> bool) -> cfg -> str -> nat option **)

let rec find_first_next is_alnum c = function
| [] -> None
| a :: t0 ->
  (match t0 with
   | [] -> if Z.eqb a nLc then None else Some O
   | b :: _ ->
     if (&&) (isw is_alnum c a) (negb (isw is_alnum c b))
     then Some O
     else (match find_first_next is_alnum c t0 with
           | Some j -> Some (S j)
           | None -> None))

(** val find_first_plus1 : (z -> bool) -> cfg -> str -> nat **)

let find_first_plus1 is_alnum c s =
  match find_first_next is_alnum c s with
  | Some i -> S i
  | None -> O

(** val count : st -> z **)

let count s =
  Z.of_nat (length s.s_res)

(** val set_edit : st -> str -> nat -> str -> st **)

let set_edit s inp cx y =
  { s_input = inp; s_cx = cx; s_yanked = y; s_res = s.s_res; s_cy = s.s_cy;
    s_offset = s.s_offset; s_sel = s.s_sel }

(** val set_cy : st -> z -> st **)

let set_cy s cy =
  { s_input = s.s_input; s_cx = s.s_cx; s_yanked = s.s_yanked; s_res =
    s.s_res; s_cy = cy; s_offset = s.s_offset; s_sel = s.s_sel }

(** val set_sel : st -> item list -> st **)

let set_sel s sel0 =
  { s_input = s.s_input; s_cx = s.s_cx; s_yanked = s.s_yanked; s_res =
    s.s_res; s_cy = s.s_cy; s_offset = s.s_offset; s_sel = sel0 }

(** val current_item : st -> item option res **)

let current_item s =
  if (&&) ((&&) (Z.leb Z0 s.s_cy) (Z.ltb Z0 (count s)))
       (Z.ltb s.s_cy (count s))
  then bind (get s.s_res (Z.to_nat s.s_cy)) (fun it -> Ok (Some it))
  else Ok None

(** val insert_at : st -> str -> st res **)

let insert_at s t0 =
  bind (drop s.s_input s.s_cx) (fun suffix ->
    bind (take s.s_input s.s_cx) (fun prefix -> Ok
      (set_edit s (app prefix (app t0 suffix)) (add s.s_cx (length t0))
        s.s_yanked)))

(** val rubout : st -> (z -> z -> bool) -> st res **)

let rubout s p3 =
  let pcx = s.s_cx in
  bind (drop s.s_input pcx) (fun after ->
    bind (take s.s_input pcx) (fun pre ->
      let ncx = find_last_plus1 p3 pre in
      bind (slice s.s_input ncx pcx) (fun y ->
        bind (take s.s_input ncx) (fun keep -> Ok
          (set_edit s (app keep after) ncx y)))))

(** val do_edit : (z -> bool) -> cfg -> st -> act0 -> st res **)

let do_edit is_alnum c s a =
  let inp = s.s_input in
  let cx = s.s_cx in
  (match a with
   | AChar ch -> insert_at s (ch :: [])
   | APut t0 -> insert_at s t0
   | ABackwardDeleteChar ->
     if Nat.ltb O cx
     then bind (take inp (sub cx (S O))) (fun p ->
            bind (drop inp cx) (fun q -> Ok
              (set_edit s (app p q) (sub cx (S O)) s.s_yanked)))
     else Ok s
   | ADeleteChar ->
     if (&&) (Nat.ltb O (length inp)) (Nat.ltb cx (length inp))
     then bind (take inp cx) (fun p ->
            bind (drop inp (add cx (S O))) (fun q -> Ok
              (set_edit s (app p q) cx s.s_yanked)))
     else Ok s
   | ABackwardChar ->
     Ok (if Nat.ltb O cx then set_edit s inp (sub cx (S O)) s.s_yanked else s)
   | AForwardChar ->
     Ok
       (if Nat.ltb cx (length inp)
        then set_edit s inp (add cx (S O)) s.s_yanked
        else s)
   | ABeginningOfLine -> Ok (set_edit s inp O s.s_yanked)
   | AEndOfLine -> Ok (set_edit s inp (length inp) s.s_yanked)
   | AKillLine ->
     if Nat.ltb cx (length inp)
     then bind (drop inp cx) (fun y ->
            bind (take inp cx) (fun p -> Ok (set_edit s p cx y)))
     else Ok s
   | AUnixLineDiscard ->
     if Nat.ltb O cx
     then bind (take inp cx) (fun y ->
            bind (drop inp cx) (fun q -> Ok (set_edit s q O y)))
     else Ok s
   | AUnixWordRubout ->
     if Nat.ltb O cx then rubout s rx_space_nonspace else Ok s
   | ABackwardKillWord ->
     if Nat.ltb O cx then rubout s (rx_word_rubout is_alnum c) else Ok s
   | ABackwardWord ->
     bind (take inp cx) (fun pre -> Ok
       (set_edit s inp (find_last_plus1 (rx_word_rubout is_alnum c) pre)
         s.s_yanked))
   | AForwardWord ->
     bind (drop inp cx) (fun suf -> Ok
       (set_edit s inp (add cx (find_first_plus1 is_alnum c suf)) s.s_yanked))
   | AKillWord ->
     bind (drop inp cx) (fun suf ->
       let ncx = add cx (find_first_plus1 is_alnum c suf) in
       if Nat.ltb cx ncx
       then bind (slice inp cx ncx) (fun y ->
              bind (take inp cx) (fun p ->
                bind (drop inp ncx) (fun q -> Ok (set_edit s (app p q) cx y))))
       else Ok s)
   | AYank -> insert_at s s.s_yanked
   | AClearQuery -> Ok (set_edit s [] O s.s_yanked)
   | ACancel -> Ok (match inp with
                    | [] -> s
                    | _ :: _ -> set_edit s [] O inp)
   | AChangeQuery t0 -> Ok (set_edit s t0 (length t0) s.s_yanked)
   | AReplaceQuery ->
     bind (current_item s) (fun cur -> Ok
       (match cur with
        | Some it -> set_edit s (snd it) (length (snd it)) s.s_yanked
        | None -> s))
   | ATruncate ->
     if c.c_inputless
     then Ok s
     else bind (take inp (Nat.min (length inp) mAXQ)) (fun inp' -> Ok
            (set_edit s inp' (Nat.min cx (length inp')) s.s_yanked))
   | _ -> Ok s)

(** val vset : st -> z -> st **)

let vset s o =
  set_cy s (constrain_z o Z0 (Z.sub (count s) (Zpos XH)))

(** val vmove : cfg -> st -> z -> st **)

let vmove c s o =
  let o0 = if c.c_default_layout then o else Z.opp o in
  let dest = Z.add s.s_cy o0 in
  let dest0 =
    if c.c_cycle
    then let mx = Z.sub (count s) (Zpos XH) in
         if Z.ltb mx dest
         then if Z.eqb s.s_cy mx then Z0 else dest
         else if Z.ltb dest Z0
              then if Z.eqb s.s_cy Z0 then mx else dest
              else dest
    else dest
  in
  vset s dest0

(** val adjust : nat -> bool -> z -> z -> z -> z -> z -> z -> z res **)

let rec adjust fuel phase1 cy maxLines so minOffset maxOffset newOffset =
  match fuel with
  | O -> Err OutOfFuel
  | S fuel0 ->
    let linesBefore = Z.sub cy newOffset in
    let linesAfter = Z.sub maxLines (Z.add linesBefore (Zpos XH)) in
    if (&&) (Z.ltb linesBefore so) (Z.ltb linesAfter so)
    then Ok newOffset
    else let n' =
           if (&&) (negb phase1) (Z.ltb linesBefore so)
           then Z.max minOffset (Z.sub newOffset (Zpos XH))
           else if (&&) phase1 (Z.ltb linesAfter so)
                then Z.min maxOffset (Z.add newOffset (Zpos XH))
                else newOffset
         in
         if Z.eqb n' newOffset
         then Ok newOffset
         else adjust fuel0 phase1 cy maxLines so minOffset maxOffset n'

(** val constrain_loop : cfg -> nat -> z -> z -> z -> z -> (z * z) res **)

let rec constrain_loop c tries cnt maxLines cy offset =
  match tries with
  | O -> Ok (cy, offset)
  | S tries0 ->
    let cy0 = constrain_z cy Z0 (Z.max Z0 (Z.sub cnt (Zpos XH))) in
    let minOffset = Z.max (Z.add (Z.sub cy0 maxLines) (Zpos XH)) Z0 in
    let maxOffset = Z.max (Z.min (Z.sub cnt maxLines) cy0) Z0 in
    let offset0 = constrain_z offset minOffset maxOffset in
    bind
      (if Z.ltb Z0 c.c_scrolloff
       then let so = Z.min (Z.div maxLines (Zpos (XO XH))) c.c_scrolloff in
            let fuel = S (S (Z.to_nat maxLines)) in
            bind
              (adjust fuel false cy0 maxLines so minOffset maxOffset offset0)
              (fun o1 ->
              adjust fuel true cy0 maxLines so minOffset maxOffset o1)
       else Ok offset0) (fun offset1 ->
      if Z.eqb offset1 offset
      then Ok (cy0, offset1)
      else constrain_loop c tries0 cnt maxLines cy0 offset1)

(** val constrain : cfg -> st -> st res **)

let constrain c s =
  let cnt = count s in
  let maxLines = c.c_maxitems in
  let offset = constrain_z s.s_offset Z0 cnt in
  bind (constrain_loop c (Z.to_nat maxLines) cnt maxLines s.s_cy offset)
    (fun r -> Ok { s_input = s.s_input; s_cx = s.s_cx; s_yanked = s.s_yanked;
    s_res = s.s_res; s_cy = (fst r); s_offset = (snd r); s_sel = s.s_sel })

(** val select_item : cfg -> item -> item list -> bool * item list **)

let select_item c it sel0 =
  if Z.leb c.c_multi (Z.of_nat (length sel0))
  then (false, sel0)
  else if sel_mem (idx it) sel0
       then (true, sel0)
       else (true, (app sel0 (it :: [])))

(** val deselect_item : item -> item list -> item list **)

let deselect_item it sel0 =
  filter (fun x -> negb (Z.eqb (idx x) (idx it))) sel0

(** val toggle_item : cfg -> item -> item list -> bool * item list **)

let toggle_item c it sel0 =
  if negb (sel_mem (idx it) sel0)
  then select_item c it sel0
  else (true, (deselect_item it sel0))

(** val toggle_current : cfg -> st -> (bool * st) res **)

let toggle_current c s =
  bind (current_item s) (fun cur ->
    match cur with
    | Some it ->
      let (ok, sel0) = toggle_item c it s.s_sel in Ok (ok, (set_sel s sel0))
    | None -> Ok (false, s))

(** val select_all_loop : cfg -> item list -> item list -> item list **)

let rec select_all_loop c rs sel0 =
  match rs with
  | [] -> sel0
  | it :: r ->
    let (ok, sel') = select_item c it sel0 in
    if ok then select_all_loop c r sel' else sel'

(** val deselect_all_loop : item list -> item list -> item list **)

let rec deselect_all_loop rs sel0 =
  match rs with
  | [] -> sel0
  | it :: r ->
    (match sel0 with
     | [] -> sel0
     | _ :: _ -> deselect_all_loop r (deselect_item it sel0))

(** val toggle_all_first :
    item list -> nat -> item list -> nat list * item list **)

let rec toggle_all_first rs i sel0 =
  match rs with
  | [] -> ([], sel0)
  | it :: r ->
    (match sel0 with
     | [] -> ([], sel0)
     | _ :: _ ->
       if sel_mem (idx it) sel0
       then let (ps, sel') = toggle_all_first r (S i) (deselect_item it sel0)
            in
            ((i :: ps), sel')
       else toggle_all_first r (S i) sel0)

(** val toggle_all_second :
    cfg -> item list -> nat -> nat list -> item list -> item list **)

let rec toggle_all_second c rs i prev sel0 =
  match rs with
  | [] -> sel0
  | it :: r ->
    if existsb (Nat.eqb i) prev
    then toggle_all_second c r (S i) prev sel0
    else let (ok, sel') = select_item c it sel0 in
         if ok then toggle_all_second c r (S i) prev sel' else sel'

(** val multi_on : cfg -> bool **)

let multi_on c =
  Z.ltb Z0 c.c_multi

(** val toggle_and_move : cfg -> st -> z -> st res **)

let toggle_and_move c s o =
  if (&&) (multi_on c) (Z.ltb Z0 (count s))
  then bind (toggle_current c s) (fun r -> Ok
         (if fst r then vmove c (snd r) o else snd r))
  else Ok s

(** val page_move : cfg -> st -> bool -> bool -> st **)

let page_move c s half up =
  let maxItems = c.c_maxitems in
  let lines =
    if half then Z.div maxItems (Zpos (XO XH)) else Z.sub maxItems (Zpos XH)
  in
  let lines0 = Z.max (Zpos XH) lines in
  let direction = if up then Zpos XH else Zneg XH in
  let direction0 = if c.c_default_layout then direction else Z.opp direction
  in
  vset s (Z.add s.s_cy (Z.mul direction0 lines0))

(** val find_index : z -> item list -> nat option **)

let find_index i rs =
  let rec go0 rs0 k =
    match rs0 with
    | [] -> None
    | it :: r -> if Z.eqb (idx it) i then Some k else go0 r (S k)
  in go0 rs O

(** val update_list : cfg -> st -> item list -> bool -> st res **)

let update_list c s rs reload =
  bind
    (if (&&) (negb reload) c.c_track
     then if Z.ltb Z0 (count s)
          then bind (current_item s) (fun cur -> Ok
                 (match cur with
                  | Some it -> idx it
                  | None -> Zneg XH))
          else Ok (match rs with
                   | [] -> Zneg XH
                   | it :: _ -> idx it)
     else Ok (Zneg XH)) (fun prevIndex ->
    let sel0 = if reload then [] else s.s_sel in
    let cnt = Z.of_nat (length rs) in
    let (cy, offset) =
      if Z.leb Z0 prevIndex
      then let pos = Z.sub s.s_cy s.s_offset in
           (match find_index prevIndex rs with
            | Some i -> ((Z.of_nat i), (Z.sub (Z.of_nat i) pos))
            | None ->
              if Z.ltb cnt s.s_cy
              then ((Z.add (Z.sub cnt (Z.min cnt c.c_maxitems)) pos),
                     s.s_offset)
              else (s.s_cy, s.s_offset))
      else (s.s_cy, s.s_offset)
    in
    Ok { s_input = s.s_input; s_cx = s.s_cx; s_yanked = s.s_yanked; s_res =
    rs; s_cy = cy; s_offset = offset; s_sel = sel0 })

(** val do_list : cfg -> st -> act0 -> st res **)

let do_list c s = function
| AUp -> Ok (vmove c s (Zpos XH))
| ADown -> Ok (vmove c s (Zneg XH))
| AFirst -> constrain c (vset s Z0)
| ALast -> constrain c (vset s (Z.sub (count s) (Zpos XH)))
| APos n ->
  let n0 =
    if Z.ltb Z0 n
    then Z.sub n (Zpos XH)
    else if Z.ltb n Z0 then Z.add n (count s) else n
  in
  constrain c (vset s n0)
| APageUp -> Ok (page_move c s false true)
| APageDown -> Ok (page_move c s false false)
| AHalfPageUp -> Ok (page_move c s true true)
| AHalfPageDown -> Ok (page_move c s true false)
| AToggle ->
  if (&&) (multi_on c) (Z.ltb Z0 (count s))
  then bind (toggle_current c s) (fun r -> Ok (snd r))
  else Ok s
| AToggleIn ->
  if c.c_default_layout
  then toggle_and_move c s (Zneg XH)
  else toggle_and_move c s (Zpos XH)
| AToggleOut ->
  if c.c_default_layout
  then toggle_and_move c s (Zpos XH)
  else toggle_and_move c s (Zneg XH)
| ASelect ->
  bind (current_item s) (fun cur -> Ok
    (match cur with
     | Some it ->
       if (&&) (multi_on c) (negb (sel_mem (idx it) s.s_sel))
       then set_sel s (snd (select_item c it s.s_sel))
       else s
     | None -> s))
| ADeselect ->
  bind (current_item s) (fun cur -> Ok
    (match cur with
     | Some it ->
       if (&&) (multi_on c) (sel_mem (idx it) s.s_sel)
       then set_sel s (deselect_item it s.s_sel)
       else s
     | None -> s))
| ASelectAll ->
  Ok (if multi_on c then set_sel s (select_all_loop c s.s_res s.s_sel) else s)
| ADeselectAll ->
  Ok (if multi_on c then set_sel s (deselect_all_loop s.s_res s.s_sel) else s)
| AToggleAll ->
  Ok
    (if multi_on c
     then let (prev, sel0) = toggle_all_first s.s_res O s.s_sel in
          set_sel s (toggle_all_second c s.s_res O prev sel0)
     else s)
| AClearSelection -> Ok (if multi_on c then set_sel s [] else s)
| ARender -> constrain c s
| AUpdate (rs, reload) -> update_list c s rs reload
| _ -> Ok s

(** val is_edit : act0 -> bool **)

let is_edit = function
| AUp -> false
| ADown -> false
| AFirst -> false
| ALast -> false
| APos _ -> false
| APageUp -> false
| APageDown -> false
| AHalfPageUp -> false
| AHalfPageDown -> false
| AToggle -> false
| AToggleIn -> false
| AToggleOut -> false
| ASelect -> false
| ADeselect -> false
| ASelectAll -> false
| ADeselectAll -> false
| AToggleAll -> false
| AClearSelection -> false
| ARender -> false
| AUpdate (_, _) -> false
| _ -> true

(** val is_action : act0 -> bool **)

let is_action = function
| ATruncate -> false
| ARender -> false
| AUpdate (_, _) -> false
| _ -> true

(** val do_action : (z -> bool) -> cfg -> st -> act0 -> st res **)

let do_action is_alnum c s a =
  bind (if is_edit a then do_edit is_alnum c s a else do_list c s a)
    (fun s1 ->
    if (&&) c.c_inputless (is_action a)
    then Ok (set_edit s1 s.s_input (length s.s_input) s1.s_yanked)
    else Ok s1)

(** val run : (z -> bool) -> cfg -> st -> act0 list -> st res **)

let rec run is_alnum c s = function
| [] -> Ok s
| a :: r -> bind (do_action is_alnum c s a) (fun s' -> run is_alnum c s' r)

(** val output : st -> item list res **)

let output s =
  match s.s_sel with
  | [] ->
    bind (current_item s) (fun cur -> Ok
      (match cur with
       | Some it -> it :: []
       | None -> []))
  | i :: l -> Ok (i :: l)

(** val as_item : val0 -> item **)

let as_item v =
  ((as_int (arg v O)), (as_str (arg v (S O))))

(** val vitem : item -> val0 **)

let vitem it =
  VL ((VI (fst it)) :: ((vstr (snd it)) :: []))

(** val as_items : val0 -> item list **)

let as_items v =
  map as_item (as_list v)

(** val vitems : item list -> val0 **)

let vitems l =
  VL (map vitem l)

(** val as_table : val0 -> z -> bool **)

let as_table v =
  let t0 = map as_int (as_list v) in (fun c -> existsb (Z.eqb c) t0)

(** val as_cfg : val0 -> cfg **)

let as_cfg v =
  { c_multi = (as_int (arg v O)); c_cycle = (as_bool (arg v (S O)));
    c_default_layout = (as_bool (arg v (S (S O)))); c_inputless =
    (as_bool (arg v (S (S (S O))))); c_track =
    (as_bool (arg v (S (S (S (S O)))))); c_maxitems =
    (as_int (arg v (S (S (S (S (S O))))))); c_scrolloff =
    (as_int (arg v (S (S (S (S (S (S O)))))))); c_fileword =
    (as_bool (arg v (S (S (S (S (S (S (S O))))))))) }

(** val as_st : val0 -> st **)

let as_st v =
  { s_input = (as_str (arg v O)); s_cx = (as_nat (arg v (S O))); s_yanked =
    (as_str (arg v (S (S O)))); s_res = (as_items (arg v (S (S (S O)))));
    s_cy = (as_int (arg v (S (S (S (S O)))))); s_offset =
    (as_int (arg v (S (S (S (S (S O))))))); s_sel =
    (as_items (arg v (S (S (S (S (S (S O)))))))) }

(** val vst : st -> val0 **)

let vst s =
  VL
    ((vstr s.s_input) :: ((vnat s.s_cx) :: ((vstr s.s_yanked) :: ((vitems
                                                                    s.s_res) :: ((VI
    s.s_cy) :: ((VI s.s_offset) :: ((vitems s.s_sel) :: [])))))))

(** val as_act : val0 -> act0 **)

let as_act v =
  let t0 = as_int (arg v O) in
  if Z.eqb t0 Z0
  then AChar (as_int (arg v (S O)))
  else if Z.eqb t0 (Zpos XH)
       then APut (as_str (arg v (S O)))
       else if Z.eqb t0 (Zpos (XO XH))
            then ABackwardDeleteChar
            else if Z.eqb t0 (Zpos (XI XH))
                 then ADeleteChar
                 else if Z.eqb t0 (Zpos (XO (XO XH)))
                      then ABackwardChar
                      else if Z.eqb t0 (Zpos (XI (XO XH)))
                           then AForwardChar
                           else if Z.eqb t0 (Zpos (XO (XI XH)))
                                then ABeginningOfLine
                                else if Z.eqb t0 (Zpos (XI (XI XH)))
                                     then AEndOfLine
                                     else if Z.eqb t0 (Zpos (XO (XO (XO XH))))
                                          then AKillLine
                                          else if Z.eqb t0 (Zpos (XI (XO (XO
                                                    XH))))
                                               then AUnixLineDiscard
                                               else if Z.eqb t0 (Zpos (XO (XI
                                                         (XO XH))))
                                                    then AUnixWordRubout
                                                    else if Z.eqb t0 (Zpos
                                                              (XI (XI (XO
                                                              XH))))
                                                         then ABackwardKillWord
                                                         else if Z.eqb t0
                                                                   (Zpos (XO
                                                                   (XO (XI
                                                                   XH))))
                                                              then ABackwardWord
                                                              else if 
                                                                    Z.eqb t0
                                                                    (Zpos (XI
                                                                    (XO (XI
                                                                    XH))))
                                                                   then 
                                                                    AForwardWord
                                                                   else 
                                                                    if 
                                                                    Z.eqb t0
                                                                    (Zpos (XO
                                                                    (XI (XI
                                                                    XH))))
                                                                    then 
                                                                    AKillWord
                                                                    else 
                                                                    if 
                                                                    Z.eqb t0
                                                                    (Zpos (XI
                                                                    (XI (XI
                                                                    XH))))
                                                                    then AYank
                                                                    else 
                                                                    if 
                                                                    Z.eqb t0
                                                                    (Zpos (XO
                                                                    (XO (XO
                                                                    (XO
                                                                    XH)))))
                                                                    then 
                                                                    AClearQuery
                                                                    else 
                                                                    if 
                                                                    Z.eqb t0
                                                                    (Zpos (XI
                                                                    (XO (XO
                                                                    (XO
                                                                    XH)))))
                                                                    then 
                                                                    ACancel
                                                                    else 
                                                                    if 
                                                                    Z.eqb t0
                                                                    (Zpos (XO
                                                                    (XI (XO
                                                                    (XO
                                                                    XH)))))
                                                                    then 
                                                                    AChangeQuery
                                                                    (as_str
                                                                    (arg v (S
                                                                    O)))
                                                                    else 
                                                                    if 
                                                                    Z.eqb t0
                                                                    (Zpos (XI
                                                                    (XI (XO
                                                                    (XO
                                                                    XH)))))
                                                                    then 
                                                                    AReplaceQuery
                                                                    else 
                                                                    if 
                                                                    Z.eqb t0
                                                                    (Zpos (XO
                                                                    (XO (XI
                                                                    (XO
                                                                    XH)))))
                                                                    then AUp
                                                                    else 
                                                                    if 
                                                                    Z.eqb t0
                                                                    (Zpos (XI
                                                                    (XO (XI
                                                                    (XO
                                                                    XH)))))
                                                                    then ADown
                                                                    else 
                                                                    if 
                                                                    Z.eqb t0
                                                                    (Zpos (XO
                                                                    (XI (XI
                                                                    (XO
                                                                    XH)))))
                                                                    then 
                                                                    AFirst
                                                                    else 
                                                                    if 
                                                                    Z.eqb t0
                                                                    (Zpos (XI
                                                                    (XI (XI
                                                                    (XO
                                                                    XH)))))
                                                                    then ALast
                                                                    else 
                                                                    if 
                                                                    Z.eqb t0
                                                                    (Zpos (XO
                                                                    (XO (XO
                                                                    (XI
                                                                    XH)))))
                                                                    then 
                                                                    APos
                                                                    (as_int
                                                                    (arg v (S
                                                                    O)))
                                                                    else 
                                                                    if 
                                                                    Z.eqb t0
                                                                    (Zpos (XI
                                                                    (XO (XO
                                                                    (XI
                                                                    XH)))))
                                                                    then 
                                                                    APageUp
                                                                    else 
                                                                    if 
                                                                    Z.eqb t0
                                                                    (Zpos (XO
                                                                    (XI (XO
                                                                    (XI
                                                                    XH)))))
                                                                    then 
                                                                    APageDown
                                                                    else 
                                                                    if 
                                                                    Z.eqb t0
                                                                    (Zpos (XI
                                                                    (XI (XO
                                                                    (XI
                                                                    XH)))))
                                                                    then 
                                                                    AHalfPageUp
                                                                    else 
                                                                    if 
                                                                    Z.eqb t0
                                                                    (Zpos (XO
                                                                    (XO (XI
                                                                    (XI
                                                                    XH)))))
                                                                    then 
                                                                    AHalfPageDown
                                                                    else 
                                                                    if 
                                                                    Z.eqb t0
                                                                    (Zpos (XI
                                                                    (XO (XI
                                                                    (XI
                                                                    XH)))))
                                                                    then 
                                                                    AToggle
                                                                    else 
                                                                    if 
                                                                    Z.eqb t0
                                                                    (Zpos (XO
                                                                    (XI (XI
                                                                    (XI
                                                                    XH)))))
                                                                    then 
                                                                    AToggleIn
                                                                    else 
                                                                    if 
                                                                    Z.eqb t0
                                                                    (Zpos (XI
                                                                    (XI (XI
                                                                    (XI
                                                                    XH)))))
                                                                    then 
                                                                    AToggleOut
                                                                    else 
                                                                    if 
                                                                    Z.eqb t0
                                                                    (Zpos (XO
                                                                    (XO (XO
                                                                    (XO (XO
                                                                    XH))))))
                                                                    then 
                                                                    ASelect
                                                                    else 
                                                                    if 
                                                                    Z.eqb t0
                                                                    (Zpos (XI
                                                                    (XO (XO
                                                                    (XO (XO
                                                                    XH))))))
                                                                    then 
                                                                    ADeselect
                                                                    else 
                                                                    if 
                                                                    Z.eqb t0
                                                                    (Zpos (XO
                                                                    (XI (XO
                                                                    (XO (XO
                                                                    XH))))))
                                                                    then 
                                                                    ASelectAll
                                                                    else 
                                                                    if 
                                                                    Z.eqb t0
                                                                    (Zpos (XI
                                                                    (XI (XO
                                                                    (XO (XO
                                                                    XH))))))
                                                                    then 
                                                                    ADeselectAll
                                                                    else 
                                                                    if 
                                                                    Z.eqb t0
                                                                    (Zpos (XO
                                                                    (XO (XI
                                                                    (XO (XO
                                                                    XH))))))
                                                                    then 
                                                                    AToggleAll
                                                                    else 
                                                                    if 
                                                                    Z.eqb t0
                                                                    (Zpos (XI
                                                                    (XO (XI
                                                                    (XO (XO
                                                                    XH))))))
                                                                    then 
                                                                    AClearSelection
                                                                    else 
                                                                    if 
                                                                    Z.eqb t0
                                                                    (Zpos (XO
                                                                    (XI (XI
                                                                    (XO (XO
                                                                    XH))))))
                                                                    then 
                                                                    ATruncate
                                                                    else 
                                                                    if 
                                                                    Z.eqb t0
                                                                    (Zpos (XI
                                                                    (XI (XI
                                                                    (XO (XO
                                                                    XH))))))
                                                                    then 
                                                                    ARender
                                                                    else 
                                                                    AUpdate
                                                                    ((as_items
                                                                    (arg v (S
                                                                    O))),
                                                                    (as_bool
                                                                    (arg v (S
                                                                    (S O)))))

(** val as_sparams : val0 -> sparams **)

let as_sparams v =
  { sp_multi = (as_int (arg v O)); sp_cycle = (as_bool (arg v (S O)));
    sp_flip = (as_bool (arg v (S (S O)))); sp_page =
    (as_int (arg v (S (S (S O))))); sp_noinput =
    (as_bool (arg v (S (S (S (S O)))))) }

(** val spec_isw : val0 -> z -> bool **)

let spec_isw v =
  if as_bool (arg v (S (S (S (S (S O))))))
  then (fun x -> negb (Z.eqb x pATHSEP))
  else as_table (arg v (S (S (S (S (S (S O)))))))

(** val as_sstate : val0 -> sstate **)

let as_sstate v =
  { ss_zip = { zb = (as_str (arg v O)); za = (as_str (arg v (S O))); zk =
    (as_str (arg v (S (S O)))) }; ss_res = (as_items (arg v (S (S (S O)))));
    ss_pos = (as_int (arg v (S (S (S (S O)))))); ss_sel =
    (as_items (arg v (S (S (S (S (S O))))))) }

(** val vsstate : sstate -> val0 **)

let vsstate s =
  VL
    ((vstr s.ss_zip.zb) :: ((vstr s.ss_zip.za) :: ((vstr s.ss_zip.zk) :: (
    (vitems s.ss_res) :: ((VI s.ss_pos) :: ((vitems s.ss_sel) :: []))))))

(** val as_optz : val0 -> z option **)

let as_optz v =
  match as_list v with
  | [] -> None
  | x :: _ -> Some (as_int x)

(** val dispatch_edit : z -> val0 -> val0 option **)

let dispatch_edit op a =
  if Z.eqb op (Zpos (XI (XO (XI (XO (XO (XO (XO (XI (XI XH))))))))))
  then Some
         (match run
                  (as_table (arg (arg a O) (S (S (S (S (S (S (S (S O))))))))))
                  (as_cfg (arg a O)) (as_st (arg a (S O)))
                  (map as_act (as_list (arg a (S (S O))))) with
          | Ok s -> VL ((vst s) :: [])
          | Err _ -> verr)
  else if Z.eqb op (Zpos (XO (XI (XI (XO (XO (XO (XO (XI (XI XH))))))))))
       then Some
              (vsstate
                (srun (spec_isw (arg a O)) (as_sparams (arg a O))
                  (as_sstate (arg a (S O)))
                  (map as_act (as_list (arg a (S (S O)))))))
       else if Z.eqb op (Zpos (XI (XI (XI (XO (XO (XO (XO (XI (XI XH))))))))))
            then Some
                   (match output (as_st (arg a (S O))) with
                    | Ok l -> vitems l
                    | Err _ -> verr)
            else if Z.eqb op (Zpos (XO (XO (XO (XI (XO (XO (XO (XI (XI
                      XH))))))))))
                 then Some
                        (vitems
                          (spec_output (as_items (arg a O))
                            (match as_list (arg a (S O)) with
                             | [] -> None
                             | x :: _ -> Some (as_item x))))
                 else if Z.eqb op (Zpos (XI (XO (XO (XI (XO (XO (XO (XI (XI
                           XH))))))))))
                      then Some (VL
                             ((vbool
                                (obs_cursor_ok (as_int (arg a (S O)))
                                  (as_int (arg a (S (S O))))
                                  (as_optz (arg a (S (S (S O)))))
                                  (map as_int
                                    (as_list (arg a (S (S (S (S O))))))))) :: (
                             (vbool
                               (obs_sel_ok (as_int (arg a O))
                                 (map as_int
                                   (as_list (arg a (S (S (S (S (S O)))))))))) :: [])))
                      else None

(** val nL : z **)

let nL =
  Zpos (XO (XI (XO XH)))

(** val split_nl_aux : str -> str -> str list **)

let rec split_nl_aux cur = function
| [] -> (rev cur) :: []
| c :: r ->
  if Z.eqb c nL
  then (rev cur) :: (split_nl_aux [] r)
  else split_nl_aux (c :: cur) r

(** val split_nl : str -> str list **)

let split_nl s =
  split_nl_aux [] s

(** val is_nl : z -> bool **)

let is_nl c =
  Z.eqb c nL

(** val trim_nl : str -> str **)

let trim_nl s =
  rev (drop_while is_nl (rev (drop_while is_nl s)))

(** val entries : str -> str list **)

let entries file =
  match trim_nl file with
  | [] -> []
  | z0 :: l -> split_nl (z0 :: l)

(** val strip_empty : str list -> str list **)

let strip_empty es =
  drop_while (fun e -> negb (nonemptyb e)) es

(** val submitted : str list -> str list **)

let submitted qs =
  filter nonemptyb qs

(** val stored_after : nat -> str list -> str list -> str list **)

let stored_after n es0 qs =
  strip_empty (last_n n (app es0 (submitted qs)))

type nav_op =
| NEdit of str
| NPrev
| NNext

type nav = { nv_text : (nat -> str); nv_cur : nat; nv_last : nat }

(** val nav_step : nav -> nav_op -> nav **)

let nav_step n = function
| NEdit s ->
  { nv_text = (fun i -> if Nat.eqb i n.nv_cur then s else n.nv_text i);
    nv_cur = n.nv_cur; nv_last = n.nv_last }
| NPrev ->
  { nv_text = n.nv_text; nv_cur = (Nat.pred n.nv_cur); nv_last = n.nv_last }
| NNext ->
  { nv_text = n.nv_text; nv_cur =
    (if Nat.ltb n.nv_cur n.nv_last then S n.nv_cur else n.nv_cur); nv_last =
    n.nv_last }

type hist = { h_lines : str list; h_modified : (nat * str) list; h_max : 
              nat; h_cursor : nat }

type fs = str option

(** val go_trim_nl : str -> str **)

let go_trim_nl =
  trim_nl

(** val go_split_nl : str -> str list **)

let go_split_nl =
  split_nl

(** val last_str : str list -> str res **)

let last_str ls = match ls with
| [] -> Err OutOfRange
| _ :: _ -> get ls (sub (length ls) (S O))

(** val new_history : fs -> nat -> (hist * fs) res **)

let new_history file max0 =
  let data = match file with
             | Some d -> d
             | None -> [] in
  let lines = go_split_nl (go_trim_nl data) in
  bind (last_str lines) (fun l ->
    let lines0 = if nonemptyb l then app lines ([] :: []) else lines in
    Ok ({ h_lines = lines0; h_modified = []; h_max = max0; h_cursor =
    (sub (length lines0) (S O)) }, (Some data)))

(** val h_append : hist -> fs -> str -> (hist * fs) res **)

let h_append h file line = match line with
| [] -> Ok (h, file)
| _ :: _ ->
  (match h.h_lines with
   | [] -> Err OutOfRange
   | _ :: _ ->
     let lines = app (removelast h.h_lines) (line :: []) in
     let lines0 =
       if Nat.ltb h.h_max (length lines)
       then skipn (sub (length lines) h.h_max) lines
       else lines
     in
     let lines1 = app lines0 ([] :: []) in
     Ok ({ h_lines = lines1; h_modified = h.h_modified; h_max = h.h_max;
     h_cursor = h.h_cursor }, (Some (concat_map_sep nL lines1))))

(** val assoc : nat -> (nat * str) list -> str option **)

let rec assoc k = function
| [] -> None
| p :: r -> let (k', v) = p in if Nat.eqb k k' then Some v else assoc k r

(** val h_override : hist -> str -> hist res **)

let h_override h s =
  let n = length h.h_lines in
  if Nat.eqb h.h_cursor (sub n (S O))
  then bind (set_nth h.h_lines h.h_cursor s) (fun ls -> Ok { h_lines = ls;
         h_modified = h.h_modified; h_max = h.h_max; h_cursor = h.h_cursor })
  else if Nat.ltb h.h_cursor (sub n (S O))
       then Ok { h_lines = h.h_lines; h_modified = ((h.h_cursor,
              s) :: h.h_modified); h_max = h.h_max; h_cursor = h.h_cursor }
       else Ok h

(** val h_current : hist -> str res **)

let h_current h =
  match assoc h.h_cursor h.h_modified with
  | Some s -> Ok s
  | None -> get h.h_lines h.h_cursor

(** val h_previous : hist -> (hist * str) res **)

let h_previous h =
  let h' =
    if Nat.ltb O h.h_cursor
    then { h_lines = h.h_lines; h_modified = h.h_modified; h_max = h.h_max;
           h_cursor = (sub h.h_cursor (S O)) }
    else h
  in
  bind (h_current h') (fun s -> Ok (h', s))

(** val h_next : hist -> (hist * str) res **)

let h_next h =
  let h' =
    if Nat.ltb h.h_cursor (sub (length h.h_lines) (S O))
    then { h_lines = h.h_lines; h_modified = h.h_modified; h_max = h.h_max;
           h_cursor = (S h.h_cursor) }
    else h
  in
  bind (h_current h') (fun s -> Ok (h', s))

type sop =
| Edit of str
| Prev
| Next

type sess = { s_hist : hist; s_input0 : str; s_seen : str list }

(** val sess_step : sess -> sop -> sess res **)

let sess_step st0 = function
| Edit s -> Ok { s_hist = st0.s_hist; s_input0 = s; s_seen = st0.s_seen }
| Prev ->
  bind (h_override st0.s_hist st0.s_input0) (fun h ->
    bind (h_previous h) (fun hs -> Ok { s_hist = (fst hs); s_input0 =
      (snd hs); s_seen = ((snd hs) :: st0.s_seen) }))
| Next ->
  bind (h_override st0.s_hist st0.s_input0) (fun h ->
    bind (h_next h) (fun hs -> Ok { s_hist = (fst hs); s_input0 = (snd hs);
      s_seen = ((snd hs) :: st0.s_seen) }))

(** val sess_steps : sess -> sop list -> sess res **)

let rec sess_steps st0 = function
| [] -> Ok st0
| o :: r -> bind (sess_step st0 o) (fun st' -> sess_steps st' r)

type session = { ss_ops : sop list; ss_submit : bool }

(** val run_session : nat -> fs -> session -> ((fs * str list) * str) res **)

let run_session max0 file s =
  bind (new_history file max0) (fun hf ->
    bind
      (sess_steps { s_hist = (fst hf); s_input0 = []; s_seen = [] } s.ss_ops)
      (fun st0 ->
      if s.ss_submit
      then bind (h_append st0.s_hist (snd hf) st0.s_input0) (fun hf' -> Ok
             (((snd hf'), (rev st0.s_seen)), st0.s_input0))
      else Ok (((snd hf), (rev st0.s_seen)), st0.s_input0)))

(** val vfs : fs -> val0 **)

let vfs = function
| Some d -> VL ((vstr d) :: [])
| None -> VL []

(** val as_fs : val0 -> fs **)

let as_fs v =
  match as_list v with
  | [] -> None
  | d :: _ -> Some (as_str d)

(** val as_sop : val0 -> sop **)

let as_sop v =
  let t0 = as_int (arg v O) in
  if Z.eqb t0 Z0
  then Edit (as_str (arg v (S O)))
  else if Z.eqb t0 (Zpos XH) then Prev else Next

(** val as_session : val0 -> session **)

let as_session v =
  { ss_ops = (map as_sop (as_list (arg v O))); ss_submit =
    (as_bool (arg v (S O))) }

(** val d_sessions : nat -> fs -> session list -> val0 list **)

let rec d_sessions max0 file = function
| [] -> []
| s :: r ->
  (match run_session max0 file s with
   | Ok a ->
     let (p, inp) = a in
     let (f', seen) = p in
     (VL
     ((vfs f') :: ((vstrs seen) :: ((vstr inp) :: [])))) :: (d_sessions max0
                                                              f' r)
   | Err _ -> verr :: [])

(** val d_spec_stored : nat -> fs -> str list -> val0 **)

let d_spec_stored max0 file qs =
  vstrs
    (stored_after max0 (entries (match file with
                                 | Some d -> d
                                 | None -> [])) qs)

(** val spec_nav_run : nav -> sop list -> str list **)

let rec spec_nav_run n = function
| [] -> []
| o :: r ->
  let n' =
    nav_step n (match o with
                | Edit s -> NEdit s
                | Prev -> NPrev
                | Next -> NNext)
  in
  (match o with
   | Edit _ -> spec_nav_run n' r
   | _ -> (n'.nv_text n'.nv_cur) :: (spec_nav_run n' r))

(** val spec_nav : str list -> sop list -> str list **)

let spec_nav es ops =
  spec_nav_run { nv_text = (fun i -> nth i es []); nv_cur = (length es);
    nv_last = (length es) } ops

(** val dispatch_history : z -> val0 -> val0 option **)

let dispatch_history op a =
  if Z.eqb op (Zpos (XI (XO (XO (XI (XO (XO (XO (XO (XI (XI XH)))))))))))
  then Some (VL
         (d_sessions (as_nat (arg a O)) (as_fs (arg a (S O)))
           (map as_session (as_list (arg a (S (S O)))))))
  else if Z.eqb op (Zpos (XO (XI (XO (XI (XO (XO (XO (XO (XI (XI XH)))))))))))
       then Some
              (d_spec_stored (as_nat (arg a O)) (as_fs (arg a (S O)))
                (as_strs (arg a (S (S O)))))
       else if Z.eqb op (Zpos (XI (XI (XO (XI (XO (XO (XO (XO (XI (XI
                 XH)))))))))))
            then Some (vstrs (entries (as_str a)))
            else if Z.eqb op (Zpos (XO (XO (XI (XI (XO (XO (XO (XO (XI (XI
                      XH)))))))))))
                 then Some
                        (vstrs
                          (spec_nav (as_strs (arg a O))
                            (map as_sop (as_list (arg a (S O))))))
                 else None

(** val cRLF : str **)

let cRLF =
  (Zpos (XI (XO (XI XH)))) :: ((Zpos (XO (XI (XO XH)))) :: [])

(** val prefixb : str -> str -> bool **)

let rec prefixb p s =
  match p with
  | [] -> true
  | x :: p0 ->
    (match s with
     | [] -> false
     | y :: s0 -> (&&) (Z.eqb x y) (prefixb p0 s0))

(** val infixb : str -> str -> bool **)

let rec infixb p s =
  (||) (prefixb p s) (match s with
                      | [] -> false
                      | _ :: t0 -> infixb p t0)

(** val frev : str -> str **)

let frev s =
  rev_append s []

(** val find_crlf : str -> nat option **)

let rec find_crlf = function
| [] -> None
| c :: t0 ->
  (match t0 with
   | [] -> None
   | d :: _ ->
     if (&&) (Z.eqb c (Zpos (XI (XO (XI XH)))))
          (Z.eqb d (Zpos (XO (XI (XO XH)))))
     then Some O
     else option_map (fun x -> S x) (find_crlf t0))

(** val cut_line : str -> (str * str) option **)

let cut_line s =
  match find_crlf s with
  | Some i -> Some ((firstn i s), (skipn (add i (S (S O))) s))
  | None -> None

(** val take_while0 : (z -> bool) -> str -> str **)

let rec take_while0 p = function
| [] -> []
| c :: t0 -> if p c then c :: (take_while0 p t0) else []

(** val split_on_aux : z -> str -> str -> str list **)

let rec split_on_aux sep0 cur = function
| [] -> (frev cur) :: []
| c :: r ->
  if Z.eqb c sep0
  then (frev cur) :: (split_on_aux sep0 [] r)
  else split_on_aux sep0 (c :: cur) r

(** val split_on0 : z -> str -> str list **)

let split_on0 sep0 s =
  split_on_aux sep0 [] s

(** val split_first : z -> str -> (str * str) option **)

let rec split_first sep0 = function
| [] -> None
| c :: r ->
  if Z.eqb c sep0
  then Some ([], r)
  else (match split_first sep0 r with
        | Some p -> let (a, b) = p in Some ((c :: a), b)
        | None -> None)

(** val digit : z -> bool **)

let digit c =
  (&&) (Z.leb (Zpos (XO (XO (XO (XO (XI XH)))))) c)
    (Z.leb c (Zpos (XI (XO (XO (XI (XI XH)))))))

(** val digits_val : str -> z -> z option **)

let rec digits_val s acc =
  match s with
  | [] -> Some acc
  | c :: t0 ->
    if digit c
    then digits_val t0
           (Z.add (Z.mul acc (Zpos (XO (XI (XO XH)))))
             (Z.sub c (Zpos (XO (XO (XO (XO (XI XH))))))))
    else None

(** val iNT_MAX : z **)

let iNT_MAX =
  Zpos (XI (XI (XI (XI (XI (XI (XI (XI (XI (XI (XI (XI (XI (XI (XI (XI (XI
    (XI (XI (XI (XI (XI (XI (XI (XI (XI (XI (XI (XI (XI (XI (XI (XI (XI (XI
    (XI (XI (XI (XI (XI (XI (XI (XI (XI (XI (XI (XI (XI (XI (XI (XI (XI (XI
    (XI (XI (XI (XI (XI (XI (XI (XI (XI
    XH))))))))))))))))))))))))))))))))))))))))))))))))))))))))))))))

(** val atoi : str -> z option **)

let atoi s =
  let chk = fun v ->
    if (&&) (Z.leb (Z.sub (Z.opp iNT_MAX) (Zpos XH)) v) (Z.leb v iNT_MAX)
    then Some v
    else None
  in
  (match s with
   | [] -> None
   | c :: t0 ->
     if (||) (Z.eqb c (Zpos (XI (XI (XO (XI (XO XH)))))))
          (Z.eqb c (Zpos (XI (XO (XI (XI (XO XH)))))))
     then (match t0 with
           | [] -> None
           | _ :: _ ->
             (match digits_val t0 Z0 with
              | Some v ->
                chk
                  (if Z.eqb c (Zpos (XI (XO (XI (XI (XO XH))))))
                   then Z.opp v
                   else v)
              | None -> None))
     else (match digits_val s Z0 with
           | Some v -> chk v
           | None -> None))

(** val print_dec_aux : nat -> nat -> str -> str **)

let rec print_dec_aux fuel n acc =
  match fuel with
  | O -> acc
  | S f ->
    let acc' =
      (Z.add (Zpos (XO (XO (XO (XO (XI XH))))))
        (Z.of_nat (Nat.modulo n (S (S (S (S (S (S (S (S (S (S O))))))))))))) :: acc
    in
    if Nat.ltb n (S (S (S (S (S (S (S (S (S (S O))))))))))
    then acc'
    else print_dec_aux f
           (Nat.div n (S (S (S (S (S (S (S (S (S (S O))))))))))) acc'

(** val print_dec : nat -> str **)

let print_dec n =
  print_dec_aux (S n) n []

(** val ascii_space : z -> bool **)

let ascii_space c =
  (||)
    ((||)
      ((||)
        ((||)
          ((||) (Z.eqb c (Zpos (XI (XO (XO XH)))))
            (Z.eqb c (Zpos (XO (XI (XO XH))))))
          (Z.eqb c (Zpos (XI (XI (XO XH))))))
        (Z.eqb c (Zpos (XO (XO (XI XH))))))
      (Z.eqb c (Zpos (XI (XO (XI XH))))))
    (Z.eqb c (Zpos (XO (XO (XO (XO (XO XH)))))))

(** val uspace_seqs : str list **)

let uspace_seqs =
  ((Zpos (XO (XI (XO (XO (XO (XO (XI XH)))))))) :: ((Zpos (XI (XO (XI (XO (XO
    (XO (XO XH)))))))) :: [])) :: (((Zpos (XO (XI (XO (XO (XO (XO (XI
    XH)))))))) :: ((Zpos (XO (XO (XO (XO (XO (XI (XO
    XH)))))))) :: [])) :: (((Zpos (XI (XO (XO (XO (XO (XI (XI
    XH)))))))) :: ((Zpos (XO (XI (XO (XI (XI (XO (XO XH)))))))) :: ((Zpos (XO
    (XO (XO (XO (XO (XO (XO XH)))))))) :: []))) :: (((Zpos (XO (XI (XO (XO
    (XO (XI (XI XH)))))))) :: ((Zpos (XO (XO (XO (XO (XO (XO (XO
    XH)))))))) :: ((Zpos (XO (XO (XO (XO (XO (XO (XO
    XH)))))))) :: []))) :: (((Zpos (XO (XI (XO (XO (XO (XI (XI
    XH)))))))) :: ((Zpos (XO (XO (XO (XO (XO (XO (XO XH)))))))) :: ((Zpos (XI
    (XO (XO (XO (XO (XO (XO XH)))))))) :: []))) :: (((Zpos (XO (XI (XO (XO
    (XO (XI (XI XH)))))))) :: ((Zpos (XO (XO (XO (XO (XO (XO (XO
    XH)))))))) :: ((Zpos (XO (XI (XO (XO (XO (XO (XO
    XH)))))))) :: []))) :: (((Zpos (XO (XI (XO (XO (XO (XI (XI
    XH)))))))) :: ((Zpos (XO (XO (XO (XO (XO (XO (XO XH)))))))) :: ((Zpos (XI
    (XI (XO (XO (XO (XO (XO XH)))))))) :: []))) :: (((Zpos (XO (XI (XO (XO
    (XO (XI (XI XH)))))))) :: ((Zpos (XO (XO (XO (XO (XO (XO (XO
    XH)))))))) :: ((Zpos (XO (XO (XI (XO (XO (XO (XO
    XH)))))))) :: []))) :: (((Zpos (XO (XI (XO (XO (XO (XI (XI
    XH)))))))) :: ((Zpos (XO (XO (XO (XO (XO (XO (XO XH)))))))) :: ((Zpos (XI
    (XO (XI (XO (XO (XO (XO XH)))))))) :: []))) :: (((Zpos (XO (XI (XO (XO
    (XO (XI (XI XH)))))))) :: ((Zpos (XO (XO (XO (XO (XO (XO (XO
    XH)))))))) :: ((Zpos (XO (XI (XI (XO (XO (XO (XO
    XH)))))))) :: []))) :: (((Zpos (XO (XI (XO (XO (XO (XI (XI
    XH)))))))) :: ((Zpos (XO (XO (XO (XO (XO (XO (XO XH)))))))) :: ((Zpos (XI
    (XI (XI (XO (XO (XO (XO XH)))))))) :: []))) :: (((Zpos (XO (XI (XO (XO
    (XO (XI (XI XH)))))))) :: ((Zpos (XO (XO (XO (XO (XO (XO (XO
    XH)))))))) :: ((Zpos (XO (XO (XO (XI (XO (XO (XO
    XH)))))))) :: []))) :: (((Zpos (XO (XI (XO (XO (XO (XI (XI
    XH)))))))) :: ((Zpos (XO (XO (XO (XO (XO (XO (XO XH)))))))) :: ((Zpos (XI
    (XO (XO (XI (XO (XO (XO XH)))))))) :: []))) :: (((Zpos (XO (XI (XO (XO
    (XO (XI (XI XH)))))))) :: ((Zpos (XO (XO (XO (XO (XO (XO (XO
    XH)))))))) :: ((Zpos (XO (XI (XO (XI (XO (XO (XO
    XH)))))))) :: []))) :: (((Zpos (XO (XI (XO (XO (XO (XI (XI
    XH)))))))) :: ((Zpos (XO (XO (XO (XO (XO (XO (XO XH)))))))) :: ((Zpos (XO
    (XO (XO (XI (XO (XI (XO XH)))))))) :: []))) :: (((Zpos (XO (XI (XO (XO
    (XO (XI (XI XH)))))))) :: ((Zpos (XO (XO (XO (XO (XO (XO (XO
    XH)))))))) :: ((Zpos (XI (XO (XO (XI (XO (XI (XO
    XH)))))))) :: []))) :: (((Zpos (XO (XI (XO (XO (XO (XI (XI
    XH)))))))) :: ((Zpos (XO (XO (XO (XO (XO (XO (XO XH)))))))) :: ((Zpos (XI
    (XI (XI (XI (XO (XI (XO XH)))))))) :: []))) :: (((Zpos (XO (XI (XO (XO
    (XO (XI (XI XH)))))))) :: ((Zpos (XI (XO (XO (XO (XO (XO (XO
    XH)))))))) :: ((Zpos (XI (XI (XI (XI (XI (XO (XO
    XH)))))))) :: []))) :: (((Zpos (XI (XI (XO (XO (XO (XI (XI
    XH)))))))) :: ((Zpos (XO (XO (XO (XO (XO (XO (XO XH)))))))) :: ((Zpos (XO
    (XO (XO (XO (XO (XO (XO XH)))))))) :: []))) :: []))))))))))))))))))

(** val strip_any : str list -> str -> str option **)

let rec strip_any seqs s =
  match seqs with
  | [] -> None
  | q :: r -> if prefixb q s then Some (skipn (length q) s) else strip_any r s

(** val trim_left_f : str list -> nat -> str -> str **)

let rec trim_left_f seqs fuel s =
  match fuel with
  | O -> s
  | S f ->
    (match s with
     | [] -> []
     | c :: t0 ->
       if ascii_space c
       then trim_left_f seqs f t0
       else (match strip_any seqs s with
             | Some r -> trim_left_f seqs f r
             | None -> s))

(** val trim_left : str -> str **)

let trim_left s =
  trim_left_f uspace_seqs (length s) s

(** val trim_right : str -> str **)

let trim_right s =
  frev (trim_left_f (map frev uspace_seqs) (length s) (frev s))

(** val trim_space : str -> str **)

let trim_space s =
  trim_right (trim_left s)

(** val is_crlf_char : z -> bool **)

let is_crlf_char c =
  (||) (Z.eqb c (Zpos (XI (XO (XI XH))))) (Z.eqb c (Zpos (XO (XI (XO XH)))))

(** val trim_crlf : str -> str **)

let trim_crlf s =
  frev (drop_while is_crlf_char (frev (drop_while is_crlf_char s)))

(** val lower_name : str -> str **)

let rec lower_name = function
| [] -> []
| c :: t0 ->
  (match t0 with
   | [] ->
     (if (&&) (Z.leb (Zpos (XI (XO (XO (XO (XO (XO XH))))))) c)
           (Z.leb c (Zpos (XO (XI (XO (XI (XI (XO XH))))))))
      then Z.add c (Zpos (XO (XO (XO (XO (XO XH))))))
      else c) :: []
   | d :: t2 ->
     if (&&) (Z.eqb c (Zpos (XO (XO (XI (XO (XO (XO (XI XH)))))))))
          (Z.eqb d (Zpos (XO (XO (XO (XO (XI (XI (XO XH)))))))))
     then (Zpos (XI (XO (XO (XI (XO (XI XH))))))) :: (lower_name t2)
     else (match t2 with
           | [] ->
             (if (&&) (Z.leb (Zpos (XI (XO (XO (XO (XO (XO XH))))))) c)
                   (Z.leb c (Zpos (XO (XI (XO (XI (XI (XO XH))))))))
              then Z.add c (Zpos (XO (XO (XO (XO (XO XH))))))
              else c) :: (lower_name t0)
           | e :: t3 ->
             if (&&)
                  ((&&)
                    (Z.eqb c (Zpos (XO (XI (XO (XO (XO (XI (XI XH)))))))))
                    (Z.eqb d (Zpos (XO (XO (XI (XO (XO (XO (XO XH))))))))))
                  (Z.eqb e (Zpos (XO (XI (XO (XI (XO (XI (XO XH)))))))))
             then (Zpos (XI (XI (XO (XI (XO (XI XH))))))) :: (lower_name t3)
             else (if (&&) (Z.leb (Zpos (XI (XO (XO (XO (XO (XO XH))))))) c)
                        (Z.leb c (Zpos (XO (XI (XO (XI (XI (XO XH))))))))
                   then Z.add c (Zpos (XO (XO (XO (XO (XO XH))))))
                   else c) :: (lower_name t0)))

(** val s_CONTENT_LENGTH : str **)

let s_CONTENT_LENGTH =
  (Zpos (XI (XI (XO (XO (XO (XI XH))))))) :: ((Zpos (XI (XI (XI (XI (XO (XI
    XH))))))) :: ((Zpos (XO (XI (XI (XI (XO (XI XH))))))) :: ((Zpos (XO (XO
    (XI (XO (XI (XI XH))))))) :: ((Zpos (XI (XO (XI (XO (XO (XI
    XH))))))) :: ((Zpos (XO (XI (XI (XI (XO (XI XH))))))) :: ((Zpos (XO (XO
    (XI (XO (XI (XI XH))))))) :: ((Zpos (XI (XO (XI (XI (XO
    XH)))))) :: ((Zpos (XO (XO (XI (XI (XO (XI XH))))))) :: ((Zpos (XI (XO
    (XI (XO (XO (XI XH))))))) :: ((Zpos (XO (XI (XI (XI (XO (XI
    XH))))))) :: ((Zpos (XI (XI (XI (XO (XO (XI XH))))))) :: ((Zpos (XO (XO
    (XI (XO (XI (XI XH))))))) :: ((Zpos (XO (XO (XO (XI (XO (XI
    XH))))))) :: [])))))))))))))

(** val s_X_API_KEY : str **)

let s_X_API_KEY =
  (Zpos (XO (XO (XO (XI (XI (XI XH))))))) :: ((Zpos (XI (XO (XI (XI (XO
    XH)))))) :: ((Zpos (XI (XO (XO (XO (XO (XI XH))))))) :: ((Zpos (XO (XO
    (XO (XO (XI (XI XH))))))) :: ((Zpos (XI (XO (XO (XI (XO (XI
    XH))))))) :: ((Zpos (XI (XO (XI (XI (XO XH)))))) :: ((Zpos (XI (XI (XO
    (XI (XO (XI XH))))))) :: ((Zpos (XI (XO (XI (XO (XO (XI
    XH))))))) :: ((Zpos (XI (XO (XO (XI (XI (XI XH))))))) :: []))))))))

(** val mAX_CONTENT_LENGTH : z **)

let mAX_CONTENT_LENGTH =
  Zpos (XO (XO (XO (XO (XO (XO (XO (XO (XO (XO (XO (XO (XO (XO (XO (XO (XO
    (XO (XO (XO XH))))))))))))))))))))

type hstate = { h_clen : z; h_key : str }

(** val h0 : hstate **)

let h0 =
  { h_clen = Z0; h_key = [] }

(** val header_line : hstate -> str -> hstate option **)

let header_line h text =
  match split_first (Zpos (XO (XI (XO (XI (XI XH)))))) text with
  | Some p ->
    let (n, v) = p in
    let ln = lower_name n in
    if str_eqb ln s_CONTENT_LENGTH
    then (match atoi (trim_space v) with
          | Some z0 ->
            if (&&) (Z.leb (Zpos XH) z0) (Z.leb z0 mAX_CONTENT_LENGTH)
            then Some { h_clen = z0; h_key = h.h_key }
            else None
          | None -> None)
    else if str_eqb ln s_X_API_KEY
         then Some { h_clen = h.h_clen; h_key = (trim_space v) }
         else Some h
  | None -> Some h

(** val s_POST : str **)

let s_POST =
  (Zpos (XO (XO (XO (XO (XI (XO XH))))))) :: ((Zpos (XI (XI (XI (XI (XO (XO
    XH))))))) :: ((Zpos (XI (XI (XO (XO (XI (XO XH))))))) :: ((Zpos (XO (XO
    (XI (XO (XI (XO XH))))))) :: ((Zpos (XO (XO (XO (XO (XO
    XH)))))) :: ((Zpos (XI (XI (XI (XI (XO XH)))))) :: ((Zpos (XO (XO (XO (XO
    (XO XH)))))) :: ((Zpos (XO (XO (XO (XI (XO (XO XH))))))) :: ((Zpos (XO
    (XO (XI (XO (XI (XO XH))))))) :: ((Zpos (XO (XO (XI (XO (XI (XO
    XH))))))) :: ((Zpos (XO (XO (XO (XO (XI (XO XH))))))) :: []))))))))))

(** val s_GET : str **)

let s_GET =
  (Zpos (XI (XI (XI (XO (XO (XO XH))))))) :: ((Zpos (XI (XO (XI (XO (XO (XO
    XH))))))) :: ((Zpos (XO (XO (XI (XO (XI (XO XH))))))) :: ((Zpos (XO (XO
    (XO (XO (XO XH)))))) :: ((Zpos (XI (XI (XI (XI (XO XH)))))) :: []))))

(** val s_HTTP : str **)

let s_HTTP =
  (Zpos (XO (XO (XO (XO (XO XH)))))) :: ((Zpos (XO (XO (XO (XI (XO (XO
    XH))))))) :: ((Zpos (XO (XO (XI (XO (XI (XO XH))))))) :: ((Zpos (XO (XO
    (XI (XO (XI (XO XH))))))) :: ((Zpos (XO (XO (XO (XO (XI (XO
    XH))))))) :: []))))

(** val qchar : z -> bool **)

let qchar c =
  (||)
    ((||)
      ((||)
        ((&&) (Z.leb (Zpos (XI (XO (XO (XO (XO (XI XH))))))) c)
          (Z.leb c (Zpos (XO (XI (XO (XI (XI (XI XH))))))))) (digit c))
      (Z.eqb c (Zpos (XI (XO (XI (XI (XI XH))))))))
    (Z.eqb c (Zpos (XO (XI (XI (XO (XO XH)))))))

(** val get_match : str -> str option **)

let get_match text =
  if prefixb s_GET text
  then let r = skipn (S (S (S (S (S O))))) text in
       if prefixb s_HTTP r
       then Some []
       else (match r with
             | [] -> None
             | c :: q ->
               if Z.eqb c (Zpos (XI (XI (XI (XI (XI XH))))))
               then let p = take_while0 qchar q in
                    if (&&) (nonemptyb p)
                         (prefixb s_HTTP (skipn (length p) q))
                    then Some p
                    else None
               else None)
  else None

(** val s_LIMIT : str **)

let s_LIMIT =
  (Zpos (XO (XO (XI (XI (XO (XI XH))))))) :: ((Zpos (XI (XO (XO (XI (XO (XI
    XH))))))) :: ((Zpos (XI (XO (XI (XI (XO (XI XH))))))) :: ((Zpos (XI (XO
    (XO (XI (XO (XI XH))))))) :: ((Zpos (XO (XO (XI (XO (XI (XI
    XH))))))) :: []))))

(** val s_OFFSET : str **)

let s_OFFSET =
  (Zpos (XI (XI (XI (XI (XO (XI XH))))))) :: ((Zpos (XO (XI (XI (XO (XO (XI
    XH))))))) :: ((Zpos (XO (XI (XI (XO (XO (XI XH))))))) :: ((Zpos (XI (XI
    (XO (XO (XI (XI XH))))))) :: ((Zpos (XI (XO (XI (XO (XO (XI
    XH))))))) :: ((Zpos (XO (XO (XI (XO (XI (XI XH))))))) :: [])))))

(** val get_params : str -> z * z **)

let get_params q =
  fold_left (fun acc pair ->
    match split_first (Zpos (XI (XO (XI (XI (XI XH)))))) pair with
    | Some p ->
      let (k, v) = p in
      if str_eqb k s_LIMIT
      then (match atoi v with
            | Some z0 -> (z0, (snd acc))
            | None -> acc)
      else if str_eqb k s_OFFSET
           then (match atoi v with
                 | Some z0 -> ((fst acc), z0)
                 | None -> acc)
           else acc
    | None -> acc) (split_on0 (Zpos (XO (XI (XI (XO (XO XH)))))) q) ((Zpos
    (XO (XO (XI (XO (XO (XI XH))))))), Z0)

type verdict =
| VAccept
| VEmpty
| VError of str

(** val spec_headers : nat -> str -> hstate -> (hstate * str) option **)

let rec spec_headers fuel s h =
  match fuel with
  | O -> None
  | S f ->
    (match cut_line s with
     | Some p ->
       let (l, r) = p in
       (match l with
        | [] -> if Z.eqb h.h_clen Z0 then None else Some (h, r)
        | _ :: _ ->
          (match header_line h (app l cRLF) with
           | Some h' -> spec_headers f r h'
           | None -> None))
     | None -> None)

(** val key_ok : str -> str -> bool **)

let key_ok key0 provided =
  match key0 with
  | [] -> true
  | _ :: _ -> str_eqb provided key0

(** val spec_body : str -> str -> str option **)

let spec_body key0 s =
  match cut_line s with
  | Some p ->
    let (l0, r0) = p in
    if prefixb s_POST l0
    then (match spec_headers (length r0) r0 h0 with
          | Some p0 ->
            let (h, rest) = p0 in
            if (&&) (key_ok key0 h.h_key)
                 (Z.leb h.h_clen (Z.of_nat (length rest)))
            then Some (trim_crlf (firstn (Z.to_nat h.h_clen) rest))
            else None
          | None -> None)
    else None
  | None -> None

(** val s_HTTP11 : str **)

let s_HTTP11 =
  (Zpos (XO (XO (XO (XI (XO (XO XH))))))) :: ((Zpos (XO (XO (XI (XO (XI (XO
    XH))))))) :: ((Zpos (XO (XO (XI (XO (XI (XO XH))))))) :: ((Zpos (XO (XO
    (XO (XO (XI (XO XH))))))) :: ((Zpos (XI (XI (XI (XI (XO
    XH)))))) :: ((Zpos (XI (XO (XO (XO (XI XH)))))) :: ((Zpos (XO (XI (XI (XI
    (XO XH)))))) :: ((Zpos (XI (XO (XO (XO (XI XH)))))) :: ((Zpos (XO (XO (XO
    (XO (XO XH)))))) :: []))))))))

(** val s_CLEN_HDR : str **)

let s_CLEN_HDR =
  (Zpos (XI (XI (XO (XO (XO (XO XH))))))) :: ((Zpos (XI (XI (XI (XI (XO (XI
    XH))))))) :: ((Zpos (XO (XI (XI (XI (XO (XI XH))))))) :: ((Zpos (XO (XO
    (XI (XO (XI (XI XH))))))) :: ((Zpos (XI (XO (XI (XO (XO (XI
    XH))))))) :: ((Zpos (XO (XI (XI (XI (XO (XI XH))))))) :: ((Zpos (XO (XO
    (XI (XO (XI (XI XH))))))) :: ((Zpos (XI (XO (XI (XI (XO
    XH)))))) :: ((Zpos (XO (XO (XI (XI (XO (XO XH))))))) :: ((Zpos (XI (XO
    (XI (XO (XO (XI XH))))))) :: ((Zpos (XO (XI (XI (XI (XO (XI
    XH))))))) :: ((Zpos (XI (XI (XI (XO (XO (XI XH))))))) :: ((Zpos (XO (XO
    (XI (XO (XI (XI XH))))))) :: ((Zpos (XO (XO (XO (XI (XO (XI
    XH))))))) :: ((Zpos (XO (XI (XO (XI (XI XH)))))) :: ((Zpos (XO (XO (XO
    (XO (XO XH)))))) :: [])))))))))))))))

(** val reason : z -> str **)

let reason code =
  if Z.eqb code (Zpos (XO (XO (XO (XI (XO (XO (XI XH))))))))
  then (Zpos (XI (XI (XI (XI (XO (XO XH))))))) :: ((Zpos (XI (XI (XO (XI (XO
         (XO XH))))))) :: [])
  else if Z.eqb code (Zpos (XO (XO (XO (XO (XI (XO (XO (XI XH)))))))))
       then (Zpos (XO (XI (XO (XO (XO (XO XH))))))) :: ((Zpos (XI (XO (XO (XO
              (XO (XI XH))))))) :: ((Zpos (XO (XO (XI (XO (XO (XI
              XH))))))) :: ((Zpos (XO (XO (XO (XO (XO XH)))))) :: ((Zpos (XO
              (XI (XO (XO (XI (XO XH))))))) :: ((Zpos (XI (XO (XI (XO (XO (XI
              XH))))))) :: ((Zpos (XI (XO (XO (XO (XI (XI XH))))))) :: ((Zpos
              (XI (XO (XI (XO (XI (XI XH))))))) :: ((Zpos (XI (XO (XI (XO (XO
              (XI XH))))))) :: ((Zpos (XI (XI (XO (XO (XI (XI
              XH))))))) :: ((Zpos (XO (XO (XI (XO (XI (XI
              XH))))))) :: []))))))))))
       else if Z.eqb code (Zpos (XI (XO (XO (XO (XI (XO (XO (XI XH)))))))))
            then (Zpos (XI (XO (XI (XO (XI (XO XH))))))) :: ((Zpos (XO (XI
                   (XI (XI (XO (XI XH))))))) :: ((Zpos (XI (XO (XO (XO (XO
                   (XI XH))))))) :: ((Zpos (XI (XO (XI (XO (XI (XI
                   XH))))))) :: ((Zpos (XO (XO (XI (XO (XI (XI
                   XH))))))) :: ((Zpos (XO (XO (XO (XI (XO (XI
                   XH))))))) :: ((Zpos (XI (XI (XI (XI (XO (XI
                   XH))))))) :: ((Zpos (XO (XI (XO (XO (XI (XI
                   XH))))))) :: ((Zpos (XI (XO (XO (XI (XO (XI
                   XH))))))) :: ((Zpos (XO (XI (XO (XI (XI (XI
                   XH))))))) :: ((Zpos (XI (XO (XI (XO (XO (XI
                   XH))))))) :: ((Zpos (XO (XO (XI (XO (XO (XI
                   XH))))))) :: [])))))))))))
            else (Zpos (XI (XI (XO (XO (XI (XO XH))))))) :: ((Zpos (XI (XO
                   (XI (XO (XO (XI XH))))))) :: ((Zpos (XO (XI (XO (XO (XI
                   (XI XH))))))) :: ((Zpos (XO (XI (XI (XO (XI (XI
                   XH))))))) :: ((Zpos (XI (XO (XO (XI (XO (XI
                   XH))))))) :: ((Zpos (XI (XI (XO (XO (XO (XI
                   XH))))))) :: ((Zpos (XI (XO (XI (XO (XO (XI
                   XH))))))) :: ((Zpos (XO (XO (XO (XO (XO XH)))))) :: ((Zpos
                   (XI (XO (XI (XO (XI (XO XH))))))) :: ((Zpos (XO (XI (XI
                   (XI (XO (XI XH))))))) :: ((Zpos (XI (XO (XO (XO (XO (XI
                   XH))))))) :: ((Zpos (XO (XI (XI (XO (XI (XI
                   XH))))))) :: ((Zpos (XI (XO (XO (XO (XO (XI
                   XH))))))) :: ((Zpos (XI (XO (XO (XI (XO (XI
                   XH))))))) :: ((Zpos (XO (XO (XI (XI (XO (XI
                   XH))))))) :: ((Zpos (XI (XO (XO (XO (XO (XI
                   XH))))))) :: ((Zpos (XO (XI (XO (XO (XO (XI
                   XH))))))) :: ((Zpos (XO (XO (XI (XI (XO (XI
                   XH))))))) :: ((Zpos (XI (XO (XI (XO (XO (XI
                   XH))))))) :: []))))))))))))))))))

(** val status_line_ok : str -> z option **)

let status_line_ok l =
  if prefixb s_HTTP11 l
  then let code =
         firstn (S (S (S O))) (skipn (S (S (S (S (S (S (S (S (S O))))))))) l)
       in
       (match digits_val code Z0 with
        | Some z0 ->
          if (&&)
               ((&&)
                 ((&&) (Nat.eqb (length code) (S (S (S O))))
                   (prefixb ((Zpos (XO (XO (XO (XO (XO XH)))))) :: [])
                     (skipn (S (S (S (S (S (S (S (S (S (S (S (S O))))))))))))
                       l)))
                 (str_eqb
                   (skipn (S (S (S (S (S (S (S (S (S (S (S (S (S
                     O))))))))))))) l) (reason z0)))
               ((||)
                 ((||)
                   ((||)
                     (Z.eqb z0 (Zpos (XO (XO (XO (XI (XO (XO (XI XH)))))))))
                     (Z.eqb z0 (Zpos (XO (XO (XO (XO (XI (XO (XO (XI
                       XH)))))))))))
                   (Z.eqb z0 (Zpos (XI (XO (XO (XO (XI (XO (XO (XI
                     XH)))))))))))
                 (Z.eqb z0 (Zpos (XI (XI (XI (XO (XI (XI (XI (XI XH)))))))))))
          then Some z0
          else None
        | None -> None)
  else None

(** val resp_headers :
    nat -> str -> str option -> (str option * str) option **)

let rec resp_headers fuel s cl =
  match fuel with
  | O -> None
  | S f ->
    (match cut_line s with
     | Some p ->
       let (l, r) = p in
       (match l with
        | [] -> Some (cl, r)
        | _ :: _ ->
          if prefixb s_CLEN_HDR l
          then (match cl with
                | Some _ -> None
                | None ->
                  resp_headers f r (Some
                    (skipn (S (S (S (S (S (S (S (S (S (S (S (S (S (S (S (S
                      O)))))))))))))))) l)))
          else (match split_first (Zpos (XO (XI (XO (XI (XI XH)))))) l with
                | Some p0 ->
                  let (s0, _) = p0 in
                  (match s0 with
                   | [] -> None
                   | _ :: _ -> resp_headers f r cl)
                | None -> None))
     | None -> None)

(** val wf_response : str -> z option **)

let wf_response r =
  match cut_line r with
  | Some p ->
    let (sl, rest) = p in
    (match status_line_ok sl with
     | Some code ->
       (match resp_headers (length rest) rest None with
        | Some p0 ->
          let (o, body) = p0 in
          (match o with
           | Some v ->
             if str_eqb v (print_dec (length body)) then Some code else None
           | None -> (match body with
                      | [] -> Some code
                      | _ :: _ -> None))
        | None -> None)
     | None -> None)
  | None -> None

(** val s_LOCALHOST : str **)

let s_LOCALHOST =
  (Zpos (XO (XO (XI (XI (XO (XI XH))))))) :: ((Zpos (XI (XI (XI (XI (XO (XI
    XH))))))) :: ((Zpos (XI (XI (XO (XO (XO (XI XH))))))) :: ((Zpos (XI (XO
    (XO (XO (XO (XI XH))))))) :: ((Zpos (XO (XO (XI (XI (XO (XI
    XH))))))) :: ((Zpos (XO (XO (XO (XI (XO (XI XH))))))) :: ((Zpos (XI (XI
    (XI (XI (XO (XI XH))))))) :: ((Zpos (XI (XI (XO (XO (XI (XI
    XH))))))) :: ((Zpos (XO (XO (XI (XO (XI (XI XH))))))) :: []))))))))

(** val s_LOOPBACK : str **)

let s_LOOPBACK =
  (Zpos (XI (XO (XO (XO (XI XH)))))) :: ((Zpos (XO (XI (XO (XO (XI
    XH)))))) :: ((Zpos (XI (XI (XI (XO (XI XH)))))) :: ((Zpos (XO (XI (XI (XI
    (XO XH)))))) :: ((Zpos (XO (XO (XO (XO (XI XH)))))) :: ((Zpos (XO (XI (XI
    (XI (XO XH)))))) :: ((Zpos (XO (XO (XO (XO (XI XH)))))) :: ((Zpos (XO (XI
    (XI (XI (XO XH)))))) :: ((Zpos (XI (XO (XO (XO (XI XH)))))) :: []))))))))

(** val is_local : str -> bool **)

let is_local host =
  (||) (str_eqb host s_LOCALHOST) (str_eqb host s_LOOPBACK)

(** val sTART_BUF : z **)

let sTART_BUF =
  Zpos (XO (XO (XO (XO (XO (XO (XO (XO (XO (XO (XO (XO XH))))))))))))

(** val mAX_TOKEN : z **)

let mAX_TOKEN =
  Zpos (XO (XO (XO (XO (XO (XO (XO (XO (XO (XO (XO (XO (XO (XO (XO (XO
    XH))))))))))))))))

type scanner = { sc_cap : z; sc_start : z; sc_data : str; sc_rest : str list;
                 sc_eof : bool }

(** val sc_init : str list -> scanner **)

let sc_init chunks =
  { sc_cap = Z0; sc_start = Z0; sc_data = []; sc_rest = chunks; sc_eof =
    false }

type tokres =
| Tok of nat * str
| Final of str
| NoTok

(** val split_fn : str -> bool -> nat -> z -> tokres **)

let split_fn data at_eof blen clen =
  match find_crlf data with
  | Some i -> Tok ((add i (S (S O))), (firstn (add i (S (S O))) data))
  | None ->
    if (||) at_eof (Z.leb clen (Z.of_nat (add blen (length data))))
    then Final data
    else NoTok

type sres =
| STok of str * scanner
| SFinal of str
| SStop
| SMore of scanner

(** val do_read : z -> z -> str -> str list -> sres **)

let do_read cap start data rest = match rest with
| [] ->
  SMore { sc_cap = cap; sc_start = start; sc_data = data; sc_rest = [];
    sc_eof = true }
| c :: r ->
  let n =
    Z.min (Z.of_nat (length c))
      (Z.sub cap (Z.add start (Z.of_nat (length data))))
  in
  if Z.leb n Z0
  then (match c with
        | [] ->
          SMore { sc_cap = cap; sc_start = start; sc_data = data; sc_rest =
            r; sc_eof = false }
        | _ :: _ ->
          SMore { sc_cap = cap; sc_start = start; sc_data = data; sc_rest =
            rest; sc_eof = true })
  else if Z.eqb n (Z.of_nat (length c))
       then SMore { sc_cap = cap; sc_start = start; sc_data = (app data c);
              sc_rest = r; sc_eof = false }
       else SMore { sc_cap = cap; sc_start = start; sc_data =
              (app data (firstn (Z.to_nat n) c)); sc_rest =
              ((skipn (Z.to_nat n) c) :: r); sc_eof = false }

(** val refill : scanner -> sres **)

let refill s =
  if s.sc_eof
  then SStop
  else let len = Z.of_nat (length s.sc_data) in
       let cap = s.sc_cap in
       let start =
         if (&&) (Z.ltb Z0 s.sc_start)
              ((||) (Z.eqb (Z.add s.sc_start len) cap)
                (Z.ltb (Z.div cap (Zpos (XO XH))) s.sc_start))
         then Z0
         else s.sc_start
       in
       if Z.eqb (Z.add start len) cap
       then if Z.leb mAX_TOKEN cap
            then SStop
            else let cap' =
                   Z.min
                     (if Z.eqb cap Z0
                      then sTART_BUF
                      else Z.mul cap (Zpos (XO XH))) mAX_TOKEN
                 in
                 do_read cap' Z0 s.sc_data s.sc_rest
       else do_read cap start s.sc_data s.sc_rest

(** val scan_step : scanner -> nat -> z -> sres **)

let scan_step s blen clen =
  if (||) (nonemptyb s.sc_data) s.sc_eof
  then (match split_fn s.sc_data s.sc_eof blen clen with
        | Tok (adv, t0) ->
          STok (t0, { sc_cap = s.sc_cap; sc_start =
            (Z.add s.sc_start (Z.of_nat adv)); sc_data =
            (skipn adv s.sc_data); sc_rest = s.sc_rest; sc_eof = s.sc_eof })
        | Final t0 -> SFinal t0
        | NoTok -> refill s)
  else refill s

type pstate = { p_section : nat; p_get : str option; p_h : hstate;
                p_body : str }

(** val p_init : pstate **)

let p_init =
  { p_section = O; p_get = None; p_h = h0; p_body = [] }

(** val m_INVALID_METHOD : str **)

let m_INVALID_METHOD =
  (Zpos (XI (XO (XO (XI (XO (XI XH))))))) :: ((Zpos (XO (XI (XI (XI (XO (XI
    XH))))))) :: ((Zpos (XO (XI (XI (XO (XI (XI XH))))))) :: ((Zpos (XI (XO
    (XO (XO (XO (XI XH))))))) :: ((Zpos (XO (XO (XI (XI (XO (XI
    XH))))))) :: ((Zpos (XI (XO (XO (XI (XO (XI XH))))))) :: ((Zpos (XO (XO
    (XI (XO (XO (XI XH))))))) :: ((Zpos (XO (XO (XO (XO (XO
    XH)))))) :: ((Zpos (XO (XI (XO (XO (XI (XI XH))))))) :: ((Zpos (XI (XO
    (XI (XO (XO (XI XH))))))) :: ((Zpos (XI (XO (XO (XO (XI (XI
    XH))))))) :: ((Zpos (XI (XO (XI (XO (XI (XI XH))))))) :: ((Zpos (XI (XO
    (XI (XO (XO (XI XH))))))) :: ((Zpos (XI (XI (XO (XO (XI (XI
    XH))))))) :: ((Zpos (XO (XO (XI (XO (XI (XI XH))))))) :: ((Zpos (XO (XO
    (XO (XO (XO XH)))))) :: ((Zpos (XI (XO (XI (XI (XO (XI
    XH))))))) :: ((Zpos (XI (XO (XI (XO (XO (XI XH))))))) :: ((Zpos (XO (XO
    (XI (XO (XI (XI XH))))))) :: ((Zpos (XO (XO (XO (XI (XO (XI
    XH))))))) :: ((Zpos (XI (XI (XI (XI (XO (XI XH))))))) :: ((Zpos (XO (XO
    (XI (XO (XO (XI XH))))))) :: [])))))))))))))))))))))

(** val m_CL_MISSING : str **)

let m_CL_MISSING =
  (Zpos (XI (XI (XO (XO (XO (XI XH))))))) :: ((Zpos (XI (XI (XI (XI (XO (XI
    XH))))))) :: ((Zpos (XO (XI (XI (XI (XO (XI XH))))))) :: ((Zpos (XO (XO
    (XI (XO (XI (XI XH))))))) :: ((Zpos (XI (XO (XI (XO (XO (XI
    XH))))))) :: ((Zpos (XO (XI (XI (XI (XO (XI XH))))))) :: ((Zpos (XO (XO
    (XI (XO (XI (XI XH))))))) :: ((Zpos (XI (XO (XI (XI (XO
    XH)))))) :: ((Zpos (XO (XO (XI (XI (XO (XI XH))))))) :: ((Zpos (XI (XO
    (XI (XO (XO (XI XH))))))) :: ((Zpos (XO (XI (XI (XI (XO (XI
    XH))))))) :: ((Zpos (XI (XI (XI (XO (XO (XI XH))))))) :: ((Zpos (XO (XO
    (XI (XO (XI (XI XH))))))) :: ((Zpos (XO (XO (XO (XI (XO (XI
    XH))))))) :: ((Zpos (XO (XO (XO (XO (XO XH)))))) :: ((Zpos (XO (XO (XO
    (XI (XO (XI XH))))))) :: ((Zpos (XI (XO (XI (XO (XO (XI
    XH))))))) :: ((Zpos (XI (XO (XO (XO (XO (XI XH))))))) :: ((Zpos (XO (XO
    (XI (XO (XO (XI XH))))))) :: ((Zpos (XI (XO (XI (XO (XO (XI
    XH))))))) :: ((Zpos (XO (XI (XO (XO (XI (XI XH))))))) :: ((Zpos (XO (XO
    (XO (XO (XO XH)))))) :: ((Zpos (XI (XO (XI (XI (XO (XI
    XH))))))) :: ((Zpos (XI (XO (XO (XI (XO (XI XH))))))) :: ((Zpos (XI (XI
    (XO (XO (XI (XI XH))))))) :: ((Zpos (XI (XI (XO (XO (XI (XI
    XH))))))) :: ((Zpos (XI (XO (XO (XI (XO (XI XH))))))) :: ((Zpos (XO (XI
    (XI (XI (XO (XI XH))))))) :: ((Zpos (XI (XI (XI (XO (XO (XI
    XH))))))) :: []))))))))))))))))))))))))))))

(** val m_INVALID_CL : str **)

let m_INVALID_CL =
  (Zpos (XI (XO (XO (XI (XO (XI XH))))))) :: ((Zpos (XO (XI (XI (XI (XO (XI
    XH))))))) :: ((Zpos (XO (XI (XI (XO (XI (XI XH))))))) :: ((Zpos (XI (XO
    (XO (XO (XO (XI XH))))))) :: ((Zpos (XO (XO (XI (XI (XO (XI
    XH))))))) :: ((Zpos (XI (XO (XO (XI (XO (XI XH))))))) :: ((Zpos (XO (XO
    (XI (XO (XO (XI XH))))))) :: ((Zpos (XO (XO (XO (XO (XO
    XH)))))) :: ((Zpos (XI (XI (XO (XO (XO (XI XH))))))) :: ((Zpos (XI (XI
    (XI (XI (XO (XI XH))))))) :: ((Zpos (XO (XI (XI (XI (XO (XI
    XH))))))) :: ((Zpos (XO (XO (XI (XO (XI (XI XH))))))) :: ((Zpos (XI (XO
    (XI (XO (XO (XI XH))))))) :: ((Zpos (XO (XI (XI (XI (XO (XI
    XH))))))) :: ((Zpos (XO (XO (XI (XO (XI (XI XH))))))) :: ((Zpos (XO (XO
    (XO (XO (XO XH)))))) :: ((Zpos (XO (XO (XI (XI (XO (XI
    XH))))))) :: ((Zpos (XI (XO (XI (XO (XO (XI XH))))))) :: ((Zpos (XO (XI
    (XI (XI (XO (XI XH))))))) :: ((Zpos (XI (XI (XI (XO (XO (XI
    XH))))))) :: ((Zpos (XO (XO (XI (XO (XI (XI XH))))))) :: ((Zpos (XO (XO
    (XO (XI (XO (XI XH))))))) :: [])))))))))))))))))))))

(** val m_INVALID_KEY : str **)

let m_INVALID_KEY =
  (Zpos (XI (XO (XO (XI (XO (XI XH))))))) :: ((Zpos (XO (XI (XI (XI (XO (XI
    XH))))))) :: ((Zpos (XO (XI (XI (XO (XI (XI XH))))))) :: ((Zpos (XI (XO
    (XO (XO (XO (XI XH))))))) :: ((Zpos (XO (XO (XI (XI (XO (XI
    XH))))))) :: ((Zpos (XI (XO (XO (XI (XO (XI XH))))))) :: ((Zpos (XO (XO
    (XI (XO (XO (XI XH))))))) :: ((Zpos (XO (XO (XO (XO (XO
    XH)))))) :: ((Zpos (XI (XO (XO (XO (XO (XI XH))))))) :: ((Zpos (XO (XO
    (XO (XO (XI (XI XH))))))) :: ((Zpos (XI (XO (XO (XI (XO (XI
    XH))))))) :: ((Zpos (XO (XO (XO (XO (XO XH)))))) :: ((Zpos (XI (XI (XO
    (XI (XO (XI XH))))))) :: ((Zpos (XI (XO (XI (XO (XO (XI
    XH))))))) :: ((Zpos (XI (XO (XO (XI (XI (XI XH))))))) :: []))))))))))))))

(** val m_INCOMPLETE : str **)

let m_INCOMPLETE =
  (Zpos (XI (XO (XO (XI (XO (XI XH))))))) :: ((Zpos (XO (XI (XI (XI (XO (XI
    XH))))))) :: ((Zpos (XI (XI (XO (XO (XO (XI XH))))))) :: ((Zpos (XI (XI
    (XI (XI (XO (XI XH))))))) :: ((Zpos (XI (XO (XI (XI (XO (XI
    XH))))))) :: ((Zpos (XO (XO (XO (XO (XI (XI XH))))))) :: ((Zpos (XO (XO
    (XI (XI (XO (XI XH))))))) :: ((Zpos (XI (XO (XI (XO (XO (XI
    XH))))))) :: ((Zpos (XO (XO (XI (XO (XI (XI XH))))))) :: ((Zpos (XI (XO
    (XI (XO (XO (XI XH))))))) :: ((Zpos (XO (XO (XO (XO (XO
    XH)))))) :: ((Zpos (XO (XI (XO (XO (XI (XI XH))))))) :: ((Zpos (XI (XO
    (XI (XO (XO (XI XH))))))) :: ((Zpos (XI (XO (XO (XO (XI (XI
    XH))))))) :: ((Zpos (XI (XO (XI (XO (XI (XI XH))))))) :: ((Zpos (XI (XO
    (XI (XO (XO (XI XH))))))) :: ((Zpos (XI (XI (XO (XO (XI (XI
    XH))))))) :: ((Zpos (XO (XO (XI (XO (XI (XI
    XH))))))) :: [])))))))))))))))))

(** val m_NO_ACTION : str **)

let m_NO_ACTION =
  (Zpos (XO (XI (XI (XI (XO (XI XH))))))) :: ((Zpos (XI (XI (XI (XI (XO (XI
    XH))))))) :: ((Zpos (XO (XO (XO (XO (XO XH)))))) :: ((Zpos (XI (XO (XO
    (XO (XO (XI XH))))))) :: ((Zpos (XI (XI (XO (XO (XO (XI
    XH))))))) :: ((Zpos (XO (XO (XI (XO (XI (XI XH))))))) :: ((Zpos (XI (XO
    (XO (XI (XO (XI XH))))))) :: ((Zpos (XI (XI (XI (XI (XO (XI
    XH))))))) :: ((Zpos (XO (XI (XI (XI (XO (XI XH))))))) :: ((Zpos (XO (XO
    (XO (XO (XO XH)))))) :: ((Zpos (XI (XI (XO (XO (XI (XI
    XH))))))) :: ((Zpos (XO (XO (XO (XO (XI (XI XH))))))) :: ((Zpos (XI (XO
    (XI (XO (XO (XI XH))))))) :: ((Zpos (XI (XI (XO (XO (XO (XI
    XH))))))) :: ((Zpos (XI (XO (XO (XI (XO (XI XH))))))) :: ((Zpos (XO (XI
    (XI (XO (XO (XI XH))))))) :: ((Zpos (XI (XO (XO (XI (XO (XI
    XH))))))) :: ((Zpos (XI (XO (XI (XO (XO (XI XH))))))) :: ((Zpos (XO (XO
    (XI (XO (XO (XI XH))))))) :: []))))))))))))))))))

(** val m_TIMEOUT_JSON : str **)

let m_TIMEOUT_JSON =
  (Zpos (XI (XI (XO (XI (XI (XI XH))))))) :: ((Zpos (XO (XI (XO (XO (XO
    XH)))))) :: ((Zpos (XI (XO (XI (XO (XO (XI XH))))))) :: ((Zpos (XO (XI
    (XO (XO (XI (XI XH))))))) :: ((Zpos (XO (XI (XO (XO (XI (XI
    XH))))))) :: ((Zpos (XI (XI (XI (XI (XO (XI XH))))))) :: ((Zpos (XO (XI
    (XO (XO (XI (XI XH))))))) :: ((Zpos (XO (XI (XO (XO (XO
    XH)))))) :: ((Zpos (XO (XI (XO (XI (XI XH)))))) :: ((Zpos (XO (XI (XO (XO
    (XO XH)))))) :: ((Zpos (XO (XO (XI (XO (XI (XI XH))))))) :: ((Zpos (XI
    (XO (XO (XI (XO (XI XH))))))) :: ((Zpos (XI (XO (XI (XI (XO (XI
    XH))))))) :: ((Zpos (XI (XO (XI (XO (XO (XI XH))))))) :: ((Zpos (XI (XI
    (XI (XI (XO (XI XH))))))) :: ((Zpos (XI (XO (XI (XO (XI (XI
    XH))))))) :: ((Zpos (XO (XO (XI (XO (XI (XI XH))))))) :: ((Zpos (XO (XI
    (XO (XO (XO XH)))))) :: ((Zpos (XI (XO (XI (XI (XI (XI
    XH))))))) :: []))))))))))))))))))

(** val s_CTYPE : str **)

let s_CTYPE =
  (Zpos (XI (XI (XO (XO (XO (XO XH))))))) :: ((Zpos (XI (XI (XI (XI (XO (XI
    XH))))))) :: ((Zpos (XO (XI (XI (XI (XO (XI XH))))))) :: ((Zpos (XO (XO
    (XI (XO (XI (XI XH))))))) :: ((Zpos (XI (XO (XI (XO (XO (XI
    XH))))))) :: ((Zpos (XO (XI (XI (XI (XO (XI XH))))))) :: ((Zpos (XO (XO
    (XI (XO (XI (XI XH))))))) :: ((Zpos (XI (XO (XI (XI (XO
    XH)))))) :: ((Zpos (XO (XO (XI (XO (XI (XO XH))))))) :: ((Zpos (XI (XO
    (XO (XI (XI (XI XH))))))) :: ((Zpos (XO (XO (XO (XO (XI (XI
    XH))))))) :: ((Zpos (XI (XO (XI (XO (XO (XI XH))))))) :: ((Zpos (XO (XI
    (XO (XI (XI XH)))))) :: ((Zpos (XO (XO (XO (XO (XO XH)))))) :: ((Zpos (XI
    (XO (XO (XO (XO (XI XH))))))) :: ((Zpos (XO (XO (XO (XO (XI (XI
    XH))))))) :: ((Zpos (XO (XO (XO (XO (XI (XI XH))))))) :: ((Zpos (XO (XO
    (XI (XI (XO (XI XH))))))) :: ((Zpos (XI (XO (XO (XI (XO (XI
    XH))))))) :: ((Zpos (XI (XI (XO (XO (XO (XI XH))))))) :: ((Zpos (XI (XO
    (XO (XO (XO (XI XH))))))) :: ((Zpos (XO (XO (XI (XO (XI (XI
    XH))))))) :: ((Zpos (XI (XO (XO (XI (XO (XI XH))))))) :: ((Zpos (XI (XI
    (XI (XI (XO (XI XH))))))) :: ((Zpos (XO (XI (XI (XI (XO (XI
    XH))))))) :: ((Zpos (XI (XI (XI (XI (XO XH)))))) :: ((Zpos (XO (XI (XO
    (XI (XO (XI XH))))))) :: ((Zpos (XI (XI (XO (XO (XI (XI
    XH))))))) :: ((Zpos (XI (XI (XI (XI (XO (XI XH))))))) :: ((Zpos (XO (XI
    (XI (XI (XO (XI XH))))))) :: ((Zpos (XI (XO (XI XH)))) :: ((Zpos (XO (XI
    (XO XH)))) :: [])))))))))))))))))))))))))))))))

type pres =
| PCont of pstate
| PBreak of pstate
| PEarly of str

(** val process : pstate -> str -> pres **)

let process p text =
  match p.p_section with
  | O ->
    (match get_match text with
     | Some q ->
       PCont { p_section = (S O); p_get = (Some q); p_h = p.p_h; p_body =
         p.p_body }
     | None ->
       if prefixb s_POST text
       then PCont { p_section = (S O); p_get = None; p_h = p.p_h; p_body =
              p.p_body }
       else PEarly m_INVALID_METHOD)
  | S n ->
    (match n with
     | O ->
       if str_eqb text cRLF
       then (match p.p_get with
             | Some _ -> PBreak p
             | None ->
               if Z.eqb p.p_h.h_clen Z0
               then PEarly m_CL_MISSING
               else PCont { p_section = (S (S O)); p_get = p.p_get; p_h =
                      p.p_h; p_body = p.p_body })
       else (match header_line p.p_h text with
             | Some h' ->
               PCont { p_section = (S O); p_get = p.p_get; p_h = h'; p_body =
                 p.p_body }
             | None -> PEarly m_INVALID_CL)
     | S _ ->
       PCont { p_section = p.p_section; p_get = p.p_get; p_h = p.p_h;
         p_body = (app p.p_body text) })

(** val run0 : nat -> scanner -> pstate -> ((pstate, str) sum * bool) res **)

let rec run0 fuel s p =
  match fuel with
  | O -> Err OutOfFuel
  | S f ->
    (match scan_step s (length p.p_body) p.p_h.h_clen with
     | STok (t0, s') ->
       (match process p t0 with
        | PCont p' -> run0 f s' p'
        | PBreak p' -> Ok ((Inl p'), s'.sc_eof)
        | PEarly m -> Ok ((Inr m), s'.sc_eof))
     | SFinal t0 ->
       (match process p t0 with
        | PCont p' -> Ok ((Inl p'), s.sc_eof)
        | PBreak p' -> Ok ((Inl p'), s.sc_eof)
        | PEarly m -> Ok ((Inr m), s.sc_eof))
     | SStop -> Ok ((Inl p), s.sc_eof)
     | SMore s' -> run0 f s' p)

(** val total_len : str list -> nat **)

let total_len chunks =
  length (concat chunks)

(** val fuel_of : str list -> nat **)

let fuel_of chunks =
  add (add (mul (S (S O)) (total_len chunks)) (length chunks)) (S (S O))

type outcome0 = { o_code : z; o_resp : str; o_actions : str option;
                  o_get : (z * z) option }

(** val code_digits : z -> str **)

let code_digits code =
  if Z.eqb code (Zpos (XO (XO (XO (XI (XO (XO (XI XH))))))))
  then (Zpos (XO (XI (XO (XO (XI XH)))))) :: ((Zpos (XO (XO (XO (XO (XI
         XH)))))) :: ((Zpos (XO (XO (XO (XO (XI XH)))))) :: []))
  else if Z.eqb code (Zpos (XO (XO (XO (XO (XI (XO (XO (XI XH)))))))))
       then (Zpos (XO (XO (XI (XO (XI XH)))))) :: ((Zpos (XO (XO (XO (XO (XI
              XH)))))) :: ((Zpos (XO (XO (XO (XO (XI XH)))))) :: []))
       else if Z.eqb code (Zpos (XI (XO (XO (XO (XI (XO (XO (XI XH)))))))))
            then (Zpos (XO (XO (XI (XO (XI XH)))))) :: ((Zpos (XO (XO (XO (XO
                   (XI XH)))))) :: ((Zpos (XI (XO (XO (XO (XI XH)))))) :: []))
            else (Zpos (XI (XO (XI (XO (XI XH)))))) :: ((Zpos (XO (XO (XO (XO
                   (XI XH)))))) :: ((Zpos (XI (XI (XO (XO (XI XH)))))) :: []))

(** val status_line : z -> str **)

let status_line code =
  app s_HTTP11
    (app (code_digits code)
      (app ((Zpos (XO (XO (XO (XO (XO XH)))))) :: [])
        (app (reason code) cRLF)))

(** val answer : z -> str -> str -> str **)

let answer code extra msg =
  app (status_line code)
    (app extra
      (app s_CLEN_HDR
        (app (print_dec (add (length msg) (S O)))
          (app cRLF (app cRLF (app msg ((Zpos (XO (XI (XO XH)))) :: [])))))))

(** val bad : str -> outcome0 **)

let bad msg =
  { o_code = (Zpos (XO (XO (XO (XO (XI (XO (XO (XI XH))))))))); o_resp =
    (answer (Zpos (XO (XO (XO (XO (XI (XO (XO (XI XH))))))))) [] msg);
    o_actions = None; o_get = None }

(** val unauthorized : outcome0 **)

let unauthorized =
  { o_code = (Zpos (XI (XO (XO (XO (XI (XO (XO (XI XH))))))))); o_resp =
    (answer (Zpos (XI (XO (XO (XO (XI (XO (XO (XI XH))))))))) []
      m_INVALID_KEY); o_actions = None; o_get = None }

type decision =
| DOut of outcome0
| DGet of str
| DParse of str

(** val decide : str -> (pstate, str) sum -> decision **)

let decide key0 = function
| Inl p ->
  if (&&) (nonemptyb key0) (negb (str_eqb p.p_h.h_key key0))
  then DOut unauthorized
  else (match p.p_get with
        | Some q -> DGet q
        | None ->
          if Z.ltb (Z.of_nat (length p.p_body)) p.p_h.h_clen
          then DOut (bad m_INCOMPLETE)
          else DParse (trim_crlf (firstn (Z.to_nat p.p_h.h_clen) p.p_body)))
| Inr m -> DOut (bad m)

(** val finish : str -> (str -> verdict) -> bool -> decision -> outcome0 **)

let finish state parse ready = function
| DOut o -> o
| DGet q ->
  let gp = get_params q in
  if nonemptyb state
  then { o_code = (Zpos (XO (XO (XO (XI (XO (XO (XI XH)))))))); o_resp =
         (answer (Zpos (XO (XO (XO (XI (XO (XO (XI XH)))))))) s_CTYPE state);
         o_actions = None; o_get = (Some gp) }
  else { o_code = (Zpos (XI (XI (XI (XO (XI (XI (XI (XI XH))))))))); o_resp =
         (answer (Zpos (XI (XI (XI (XO (XI (XI (XI (XI XH))))))))) s_CTYPE
           m_TIMEOUT_JSON); o_actions = None; o_get = (Some gp) }
| DParse b ->
  (match parse b with
   | VAccept ->
     if ready
     then { o_code = (Zpos (XO (XO (XO (XI (XO (XO (XI XH)))))))); o_resp =
            (app (status_line (Zpos (XO (XO (XO (XI (XO (XO (XI XH)))))))))
              cRLF); o_actions = (Some b); o_get = None }
     else { o_code = (Zpos (XI (XI (XI (XO (XI (XI (XI (XI XH)))))))));
            o_resp =
            (app
              (status_line (Zpos (XI (XI (XI (XO (XI (XI (XI (XI XH))))))))))
              cRLF); o_actions = None; o_get = None }
   | VEmpty -> bad m_NO_ACTION
   | VError m -> bad m)

(** val scan_eof : str list -> ((pstate, str) sum * bool) res **)

let scan_eof chunks =
  run0 (fuel_of chunks) (sc_init chunks) p_init

(** val scan_all : str list -> (pstate, str) sum res **)

let scan_all chunks =
  bind (scan_eof chunks) (fun x -> Ok (fst x))

(** val waits_for_close : str list -> bool res **)

let waits_for_close chunks =
  bind (scan_eof chunks) (fun x -> Ok (snd x))

(** val handle :
    str -> str -> (str -> verdict) -> bool -> str list -> outcome0 res **)

let handle key0 state parse ready chunks =
  bind (scan_all chunks) (fun r -> Ok
    (finish state parse ready (decide key0 r)))

(** val pending_body : str -> str list -> str option res **)

let pending_body key0 chunks =
  bind (scan_all chunks) (fun r -> Ok
    (match decide key0 r with
     | DParse b -> Some b
     | _ -> None))

type listen_res =
| LAddrInvalid
| LPortInvalid
| LOk of str * z

(** val parse_listen_address : str -> listen_res **)

let parse_listen_address a =
  match split_first (Zpos (XO (XI (XO (XI (XI XH)))))) a with
  | Some p0 ->
    let (h, p) = p0 in
    (match split_first (Zpos (XO (XI (XO (XI (XI XH)))))) p with
     | Some _ ->
       let host = None in
       (match host with
        | Some h1 ->
          (match atoi p with
           | Some n ->
             if (&&) (Z.leb Z0 n)
                  (Z.leb n (Zpos (XI (XI (XI (XI (XI (XI (XI (XI (XI (XI (XI
                    (XI (XI (XI (XI XH)))))))))))))))))
             then LOk ((match h1 with
                        | [] -> s_LOCALHOST
                        | _ :: _ -> h1), n)
             else LPortInvalid
           | None -> LPortInvalid)
        | None -> LAddrInvalid)
     | None ->
       let host = Some h in
       (match host with
        | Some h1 ->
          (match atoi p with
           | Some n ->
             if (&&) (Z.leb Z0 n)
                  (Z.leb n (Zpos (XI (XI (XI (XI (XI (XI (XI (XI (XI (XI (XI
                    (XI (XI (XI (XI XH)))))))))))))))))
             then LOk ((match h1 with
                        | [] -> s_LOCALHOST
                        | _ :: _ -> h1), n)
             else LPortInvalid
           | None -> LPortInvalid)
        | None -> LAddrInvalid))
  | None ->
    let host = Some s_LOCALHOST in
    (match host with
     | Some h ->
       (match atoi a with
        | Some n ->
          if (&&) (Z.leb Z0 n)
               (Z.leb n (Zpos (XI (XI (XI (XI (XI (XI (XI (XI (XI (XI (XI (XI
                 (XI (XI (XI XH)))))))))))))))))
          then LOk ((match h with
                     | [] -> s_LOCALHOST
                     | _ :: _ -> h), n)
          else LPortInvalid
        | None -> LPortInvalid)
     | None -> LAddrInvalid)

type start_res =
| StartRefusedNoKey
| StartListen of str * z
| StartBadAddress of listen_res

(** val start_decision : str -> str -> start_res **)

let start_decision a key0 =
  match parse_listen_address a with
  | LOk (host, port) ->
    if (&&) (negb (is_local host)) (negb (nonemptyb key0))
    then StartRefusedNoKey
    else StartListen (host, port)
  | x -> StartBadAddress x

(** val as_verdict : val0 -> verdict **)

let as_verdict v =
  let t0 = as_int (arg v O) in
  if Z.eqb t0 Z0
  then VAccept
  else if Z.eqb t0 (Zpos XH) then VEmpty else VError (as_str (arg v (S O)))

(** val vopt_str : str option -> val0 **)

let vopt_str = function
| Some b -> VL ((vstr b) :: [])
| None -> VL []

(** val v_outcome : outcome0 -> val0 **)

let v_outcome o =
  VL ((VI
    o.o_code) :: ((vstr o.o_resp) :: ((vopt_str o.o_actions) :: ((match o.o_get with
                                                                  | Some p ->
                                                                    let (
                                                                    l, f) = p
                                                                    in
                                                                    VL ((VI
                                                                    (Z.div l
                                                                    (Zpos (XO
                                                                    (XO (XO
                                                                    (XO (XO
                                                                    (XO (XO
                                                                    (XO (XO
                                                                    (XO (XO
                                                                    (XO (XO
                                                                    (XO (XO
                                                                    (XO (XO
                                                                    (XO (XO
                                                                    (XO (XO
                                                                    (XO (XO
                                                                    (XO (XO
                                                                    (XO (XO
                                                                    (XO (XO
                                                                    (XO (XO
                                                                    (XO
                                                                    XH))))))))))))))))))))))))))))))))))) :: ((VI
                                                                    (Z.modulo
                                                                    l (Zpos
                                                                    (XO (XO
                                                                    (XO (XO
                                                                    (XO (XO
                                                                    (XO (XO
                                                                    (XO (XO
                                                                    (XO (XO
                                                                    (XO (XO
                                                                    (XO (XO
                                                                    (XO (XO
                                                                    (XO (XO
                                                                    (XO (XO
                                                                    (XO (XO
                                                                    (XO (XO
                                                                    (XO (XO
                                                                    (XO (XO
                                                                    (XO (XO
                                                                    XH))))))))))))))))))))))))))))))))))) :: ((VI
                                                                    (Z.div f
                                                                    (Zpos (XO
                                                                    (XO (XO
                                                                    (XO (XO
                                                                    (XO (XO
                                                                    (XO (XO
                                                                    (XO (XO
                                                                    (XO (XO
                                                                    (XO (XO
                                                                    (XO (XO
                                                                    (XO (XO
                                                                    (XO (XO
                                                                    (XO (XO
                                                                    (XO (XO
                                                                    (XO (XO
                                                                    (XO (XO
                                                                    (XO (XO
                                                                    (XO
                                                                    XH))))))))))))))))))))))))))))))))))) :: ((VI
                                                                    (Z.modulo
                                                                    f (Zpos
                                                                    (XO (XO
                                                                    (XO (XO
                                                                    (XO (XO
                                                                    (XO (XO
                                                                    (XO (XO
                                                                    (XO (XO
                                                                    (XO (XO
                                                                    (XO (XO
                                                                    (XO (XO
                                                                    (XO (XO
                                                                    (XO (XO
                                                                    (XO (XO
                                                                    (XO (XO
                                                                    (XO (XO
                                                                    (XO (XO
                                                                    (XO (XO
                                                                    XH))))))))))))))))))))))))))))))))))) :: []))))
                                                                  | None ->
                                                                    VL []) :: []))))

(** val v_start : start_res -> val0 **)

let v_start = function
| StartRefusedNoKey -> VL ((VI Z0) :: [])
| StartListen (h, p) -> VL ((VI (Zpos XH)) :: ((vstr h) :: ((VI p) :: [])))
| StartBadAddress r0 ->
  (match r0 with
   | LAddrInvalid -> VL ((VI (Zpos (XO XH))) :: [])
   | _ -> VL ((VI (Zpos (XI XH))) :: []))

(** val dispatch_http : z -> val0 -> val0 option **)

let dispatch_http op a =
  if Z.eqb op (Zpos (XI (XO (XO (XO (XO (XO (XI (XO (XO (XI XH)))))))))))
  then Some
         (match handle (as_str (arg a O)) (as_str (arg a (S O))) (fun _ ->
                  as_verdict (arg a (S (S O))))
                  (as_bool (arg a (S (S (S O)))))
                  (as_strs (arg a (S (S (S (S O)))))) with
          | Ok o -> v_outcome o
          | Err _ -> verr)
  else if Z.eqb op (Zpos (XO (XI (XO (XO (XO (XO (XI (XO (XO (XI XH)))))))))))
       then Some
              (match pending_body (as_str (arg a O)) (as_strs (arg a (S O))) with
               | Ok o -> vopt_str o
               | Err _ -> verr)
       else if Z.eqb op (Zpos (XI (XI (XO (XO (XO (XO (XI (XO (XO (XI
                 XH)))))))))))
            then Some (VI
                   (match wf_response (as_str a) with
                    | Some c -> c
                    | None -> Zneg XH))
            else if Z.eqb op (Zpos (XO (XO (XI (XO (XO (XO (XI (XO (XO (XI
                      XH)))))))))))
                 then Some
                        (vopt_str
                          (spec_body (as_str (arg a O))
                            (as_str (arg a (S O)))))
                 else if Z.eqb op (Zpos (XI (XO (XI (XO (XO (XO (XI (XO (XO
                           (XI XH)))))))))))
                      then Some
                             (vbool
                               (infixb (as_str (arg a O))
                                 (as_str (arg a (S O)))))
                      else if Z.eqb op (Zpos (XO (XI (XI (XO (XO (XO (XI (XO
                                (XO (XI XH)))))))))))
                           then Some
                                  (v_start
                                    (start_decision (as_str (arg a O))
                                      (as_str (arg a (S O)))))
                           else if Z.eqb op (Zpos (XI (XI (XI (XO (XO (XO (XI
                                     (XO (XO (XI XH)))))))))))
                                then Some (vopt_str (get_match (as_str a)))
                                else if Z.eqb op (Zpos (XO (XO (XO (XI (XO
                                          (XO (XI (XO (XO (XI XH)))))))))))
                                     then Some
                                            (match waits_for_close (as_strs a) with
                                             | Ok b -> vbool b
                                             | Err _ -> verr)
                                     else None

type field = nat

(** val f_FUZZY : field **)

let f_FUZZY =
  O

(** val f_EXTENDED : field **)

let f_EXTENDED =
  S O

(** val f_NORMALIZE : field **)

let f_NORMALIZE =
  S (S (S (S (S O))))

(** val f_ALGO : field **)

let f_ALGO =
  S (S (S (S (S (S O)))))

(** val f_SCHEME : field **)

let f_SCHEME =
  S (S (S (S (S (S (S O))))))

(** val f_CRITERIA : field **)

let f_CRITERIA =
  S (S (S (S (S (S (S (S O)))))))

(** val f_NTH : field **)

let f_NTH =
  S (S (S (S (S (S (S (S (S O))))))))

(** val f_DELIM : field **)

let f_DELIM =
  S (S (S (S (S (S (S (S (S (S (S (S O)))))))))))

(** val f_SORT : field **)

let f_SORT =
  S (S (S (S (S (S (S (S (S (S (S (S (S O))))))))))))

(** val f_MULTI : field **)

let f_MULTI =
  S (S (S (S (S (S (S (S (S (S (S (S (S (S (S (S (S O))))))))))))))))

(** val f_HEIGHT : field **)

let f_HEIGHT =
  S (S (S (S (S (S (S (S (S (S (S (S (S (S (S (S (S (S (S (S (S
    O))))))))))))))))))))

(** val f_QUERY : field **)

let f_QUERY =
  S (S (S (S (S (S (S (S (S (S (S (S (S (S (S (S (S (S (S (S (S (S (S (S (S
    (S (S O))))))))))))))))))))))))))

(** val f_FILTER : field **)

let f_FILTER =
  S (S (S (S (S (S (S (S (S (S (S (S (S (S (S (S (S (S (S (S (S (S (S (S (S
    (S (S (S O)))))))))))))))))))))))))))

(** val f_HISTORY : field **)

let f_HISTORY =
  S (S (S (S (S (S (S (S (S (S (S (S (S (S (S (S (S (S (S (S (S (S (S (S (S
    (S (S (S (S (S O)))))))))))))))))))))))))))))

(** val f_HISTMAX : field **)

let f_HISTMAX =
  S (S (S (S (S (S (S (S (S (S (S (S (S (S (S (S (S (S (S (S (S (S (S (S (S
    (S (S (S (S (S (S O))))))))))))))))))))))))))))))

(** val f_HEADER : field **)

let f_HEADER =
  S (S (S (S (S (S (S (S (S (S (S (S (S (S (S (S (S (S (S (S (S (S (S (S (S
    (S (S (S (S (S (S (S O)))))))))))))))))))))))))))))))

(** val f_HEADERLINES : field **)

let f_HEADERLINES =
  S (S (S (S (S (S (S (S (S (S (S (S (S (S (S (S (S (S (S (S (S (S (S (S (S
    (S (S (S (S (S (S (S (S O))))))))))))))))))))))))))))))))

(** val f_LISTEN : field **)

let f_LISTEN =
  S (S (S (S (S (S (S (S (S (S (S (S (S (S (S (S (S (S (S (S (S (S (S (S (S
    (S (S (S (S (S (S (S (S (S O)))))))))))))))))))))))))))))))))

(** val f_UNSAFE : field **)

let f_UNSAFE =
  S (S (S (S (S (S (S (S (S (S (S (S (S (S (S (S (S (S (S (S (S (S (S (S (S
    (S (S (S (S (S (S (S (S (S (S O))))))))))))))))))))))))))))))))))

(** val f_WALKER : field **)

let f_WALKER =
  S (S (S (S (S (S (S (S (S (S (S (S (S (S (S (S (S (S (S (S (S (S (S (S (S
    (S (S (S (S (S (S (S (S (S (S (S O)))))))))))))))))))))))))))))))))))

(** val f_WALKERROOT : field **)

let f_WALKERROOT =
  S (S (S (S (S (S (S (S (S (S (S (S (S (S (S (S (S (S (S (S (S (S (S (S (S
    (S (S (S (S (S (S (S (S (S (S (S (S O))))))))))))))))))))))))))))))))))))

(** val f_WALKERSKIP : field **)

let f_WALKERSKIP =
  S (S (S (S (S (S (S (S (S (S (S (S (S (S (S (S (S (S (S (S (S (S (S (S (S
    (S (S (S (S (S (S (S (S (S (S (S (S (S
    O)))))))))))))))))))))))))))))))))))))

(** val f_PROMPT : field **)

let f_PROMPT =
  S (S (S (S (S (S (S (S (S (S (S (S (S (S (S (S (S (S (S (S (S (S (S (S (S
    (S (S (S (S (S (S (S (S (S (S (S (S (S (S
    O))))))))))))))))))))))))))))))))))))))

(** val f_GHOST : field **)

let f_GHOST =
  S (S (S (S (S (S (S (S (S (S (S (S (S (S (S (S (S (S (S (S (S (S (S (S (S
    (S (S (S (S (S (S (S (S (S (S (S (S (S (S (S
    O)))))))))))))))))))))))))))))))))))))))

(** val f_TABSTOP : field **)

let f_TABSTOP =
  S (S (S (S (S (S (S (S (S (S (S (S (S (S (S (S (S (S (S (S (S (S (S (S (S
    (S (S (S (S (S (S (S (S (S (S (S (S (S (S (S (S
    O))))))))))))))))))))))))))))))))))))))))

(** val f_HSCROLLOFF : field **)

let f_HSCROLLOFF =
  S (S (S (S (S (S (S (S (S (S (S (S (S (S (S (S (S (S (S (S (S (S (S (S (S
    (S (S (S (S (S (S (S (S (S (S (S (S (S (S (S (S (S
    O)))))))))))))))))))))))))))))))))))))))))

(** val f_SCROLLOFF : field **)

let f_SCROLLOFF =
  S (S (S (S (S (S (S (S (S (S (S (S (S (S (S (S (S (S (S (S (S (S (S (S (S
    (S (S (S (S (S (S (S (S (S (S (S (S (S (S (S (S (S (S
    O))))))))))))))))))))))))))))))))))))))))))

(** val f_MOUSE : field **)

let f_MOUSE =
  S (S (S (S (S (S (S (S (S (S (S (S (S (S (S (S (S (S (S (S (S (S (S (S (S
    (S (S (S (S (S (S (S (S (S (S (S (S (S (S (S (S (S (S (S (S (S
    O)))))))))))))))))))))))))))))))))))))))))))))

(** val f_BOLD : field **)

let f_BOLD =
  S (S (S (S (S (S (S (S (S (S (S (S (S (S (S (S (S (S (S (S (S (S (S (S (S
    (S (S (S (S (S (S (S (S (S (S (S (S (S (S (S (S (S (S (S (S (S (S
    O))))))))))))))))))))))))))))))))))))))))))))))

(** val f_HSCROLL : field **)

let f_HSCROLL =
  S (S (S (S (S (S (S (S (S (S (S (S (S (S (S (S (S (S (S (S (S (S (S (S (S
    (S (S (S (S (S (S (S (S (S (S (S (S (S (S (S (S (S (S (S (S (S (S (S (S
    (S (S O))))))))))))))))))))))))))))))))))))))))))))))))))

(** val f_MULTILINE : field **)

let f_MULTILINE =
  S (S (S (S (S (S (S (S (S (S (S (S (S (S (S (S (S (S (S (S (S (S (S (S (S
    (S (S (S (S (S (S (S (S (S (S (S (S (S (S (S (S (S (S (S (S (S (S (S (S
    (S (S (S (S O))))))))))))))))))))))))))))))))))))))))))))))))))))

(** val f_CLEAR : field **)

let f_CLEAR =
  S (S (S (S (S (S (S (S (S (S (S (S (S (S (S (S (S (S (S (S (S (S (S (S (S
    (S (S (S (S (S (S (S (S (S (S (S (S (S (S (S (S (S (S (S (S (S (S (S (S
    (S (S (S (S (S (S (S
    O)))))))))))))))))))))))))))))))))))))))))))))))))))))))

(** val f_UNICODE : field **)

let f_UNICODE =
  S (S (S (S (S (S (S (S (S (S (S (S (S (S (S (S (S (S (S (S (S (S (S (S (S
    (S (S (S (S (S (S (S (S (S (S (S (S (S (S (S (S (S (S (S (S (S (S (S (S
    (S (S (S (S (S (S (S (S
    O))))))))))))))))))))))))))))))))))))))))))))))))))))))))

(** val f_INFOCMD : field **)

let f_INFOCMD =
  S (S (S (S (S (S (S (S (S (S (S (S (S (S (S (S (S (S (S (S (S (S (S (S (S
    (S (S (S (S (S (S (S (S (S (S (S (S (S (S (S (S (S (S (S (S (S (S (S (S
    (S (S (S (S (S (S (S (S (S (S
    O))))))))))))))))))))))))))))))))))))))))))))))))))))))))))

(** val f_WITHSHELL : field **)

let f_WITHSHELL =
  S (S (S (S (S (S (S (S (S (S (S (S (S (S (S (S (S (S (S (S (S (S (S (S (S
    (S (S (S (S (S (S (S (S (S (S (S (S (S (S (S (S (S (S (S (S (S (S (S (S
    (S (S (S (S (S (S (S (S (S (S (S
    O)))))))))))))))))))))))))))))))))))))))))))))))))))))))))))

(** val f_PREVIEW : field **)

let f_PREVIEW =
  S (S (S (S (S (S (S (S (S (S (S (S (S (S (S (S (S (S (S (S (S (S (S (S (S
    (S (S (S (S (S (S (S (S (S (S (S (S (S (S (S (S (S (S (S (S (S (S (S (S
    (S (S (S (S (S (S (S (S (S (S (S (S
    O))))))))))))))))))))))))))))))))))))))))))))))))))))))))))))

(** val f_HMAXLOCAL : field **)

let f_HMAXLOCAL =
  S (S (S (S (S (S (S (S (S (S (S (S (S (S (S (S (S (S (S (S (S (S (S (S (S
    (S (S (S (S (S (S (S (S (S (S (S (S (S (S (S (S (S (S (S (S (S (S (S (S
    (S (S (S (S (S (S (S (S (S (S (S (S (S (S
    O))))))))))))))))))))))))))))))))))))))))))))))))))))))))))))))

(** val nOBSERVABLE : nat **)

let nOBSERVABLE =
  S (S (S (S (S (S (S (S (S (S (S (S (S (S (S (S (S (S (S (S (S (S (S (S (S
    (S (S (S (S (S (S (S (S (S (S (S (S (S (S (S (S (S (S (S (S (S (S (S (S
    (S (S (S (S (S (S (S (S (S (S (S (S (S (S
    O))))))))))))))))))))))))))))))))))))))))))))))))))))))))))))))

(** val t : val0 **)

let t =
  VI (Zpos XH)

(** val fv : val0 **)

let fv =
  VI Z0

(** val vnone : val0 **)

let vnone =
  VL []

(** val vsome : val0 -> val0 **)

let vsome v =
  VL (v :: [])

(** val is_digit : z -> bool **)

let is_digit c =
  (&&) (Z.leb (Zpos (XO (XO (XO (XO (XI XH)))))) c)
    (Z.leb c (Zpos (XI (XO (XO (XI (XI XH)))))))

(** val digits_val0 : z -> str -> z option **)

let rec digits_val0 acc = function
| [] -> Some acc
| c :: r ->
  if is_digit c
  then digits_val0
         (Z.add (Z.mul acc (Zpos (XO (XI (XO XH)))))
           (Z.sub c (Zpos (XO (XO (XO (XO (XI XH)))))))) r
  else None

(** val atoi0 : str -> z option **)

let atoi0 s = match s with
| [] ->
  let neg = false in
  (match s with
   | [] -> None
   | _ :: _ ->
     (match digits_val0 Z0 s with
      | Some n ->
        let v = if neg then Z.opp n else n in
        if (&&)
             (Z.leb (Zneg (XO (XO (XO (XO (XO (XO (XO (XO (XO (XO (XO (XO (XO
               (XO (XO (XO (XO (XO (XO (XO (XO (XO (XO (XO (XO (XO (XO (XO
               (XO (XO (XO (XO (XO (XO (XO (XO (XO (XO (XO (XO (XO (XO (XO
               (XO (XO (XO (XO (XO (XO (XO (XO (XO (XO (XO (XO (XO (XO (XO
               (XO (XO (XO (XO (XO
               XH))))))))))))))))))))))))))))))))))))))))))))))))))))))))))))))))
               v)
             (Z.leb v (Zpos (XI (XI (XI (XI (XI (XI (XI (XI (XI (XI (XI (XI
               (XI (XI (XI (XI (XI (XI (XI (XI (XI (XI (XI (XI (XI (XI (XI
               (XI (XI (XI (XI (XI (XI (XI (XI (XI (XI (XI (XI (XI (XI (XI
               (XI (XI (XI (XI (XI (XI (XI (XI (XI (XI (XI (XI (XI (XI (XI
               (XI (XI (XI (XI (XI
               XH))))))))))))))))))))))))))))))))))))))))))))))))))))))))))))))))
        then Some v
        else None
      | None -> None))
| c :: r ->
  if Z.eqb c (Zpos (XI (XO (XI (XI (XO XH))))))
  then let neg = true in
       (match r with
        | [] -> None
        | _ :: _ ->
          (match digits_val0 Z0 r with
           | Some n ->
             let v = if neg then Z.opp n else n in
             if (&&)
                  (Z.leb (Zneg (XO (XO (XO (XO (XO (XO (XO (XO (XO (XO (XO
                    (XO (XO (XO (XO (XO (XO (XO (XO (XO (XO (XO (XO (XO (XO
                    (XO (XO (XO (XO (XO (XO (XO (XO (XO (XO (XO (XO (XO (XO
                    (XO (XO (XO (XO (XO (XO (XO (XO (XO (XO (XO (XO (XO (XO
                    (XO (XO (XO (XO (XO (XO (XO (XO (XO (XO
                    XH))))))))))))))))))))))))))))))))))))))))))))))))))))))))))))))))
                    v)
                  (Z.leb v (Zpos (XI (XI (XI (XI (XI (XI (XI (XI (XI (XI (XI
                    (XI (XI (XI (XI (XI (XI (XI (XI (XI (XI (XI (XI (XI (XI
                    (XI (XI (XI (XI (XI (XI (XI (XI (XI (XI (XI (XI (XI (XI
                    (XI (XI (XI (XI (XI (XI (XI (XI (XI (XI (XI (XI (XI (XI
                    (XI (XI (XI (XI (XI (XI (XI (XI (XI
                    XH))))))))))))))))))))))))))))))))))))))))))))))))))))))))))))))))
             then Some v
             else None
           | None -> None))
  else if Z.eqb c (Zpos (XI (XI (XO (XI (XO XH))))))
       then let neg = false in
            (match r with
             | [] -> None
             | _ :: _ ->
               (match digits_val0 Z0 r with
                | Some n ->
                  let v = if neg then Z.opp n else n in
                  if (&&)
                       (Z.leb (Zneg (XO (XO (XO (XO (XO (XO (XO (XO (XO (XO
                         (XO (XO (XO (XO (XO (XO (XO (XO (XO (XO (XO (XO (XO
                         (XO (XO (XO (XO (XO (XO (XO (XO (XO (XO (XO (XO (XO
                         (XO (XO (XO (XO (XO (XO (XO (XO (XO (XO (XO (XO (XO
                         (XO (XO (XO (XO (XO (XO (XO (XO (XO (XO (XO (XO (XO
                         (XO
                         XH))))))))))))))))))))))))))))))))))))))))))))))))))))))))))))))))
                         v)
                       (Z.leb v (Zpos (XI (XI (XI (XI (XI (XI (XI (XI (XI (XI
                         (XI (XI (XI (XI (XI (XI (XI (XI (XI (XI (XI (XI (XI
                         (XI (XI (XI (XI (XI (XI (XI (XI (XI (XI (XI (XI (XI
                         (XI (XI (XI (XI (XI (XI (XI (XI (XI (XI (XI (XI (XI
                         (XI (XI (XI (XI (XI (XI (XI (XI (XI (XI (XI (XI (XI
                         XH))))))))))))))))))))))))))))))))))))))))))))))))))))))))))))))))
                  then Some v
                  else None
                | None -> None))
       else let neg = false in
            (match s with
             | [] -> None
             | _ :: _ ->
               (match digits_val0 Z0 s with
                | Some n ->
                  let v = if neg then Z.opp n else n in
                  if (&&)
                       (Z.leb (Zneg (XO (XO (XO (XO (XO (XO (XO (XO (XO (XO
                         (XO (XO (XO (XO (XO (XO (XO (XO (XO (XO (XO (XO (XO
                         (XO (XO (XO (XO (XO (XO (XO (XO (XO (XO (XO (XO (XO
                         (XO (XO (XO (XO (XO (XO (XO (XO (XO (XO (XO (XO (XO
                         (XO (XO (XO (XO (XO (XO (XO (XO (XO (XO (XO (XO (XO
                         (XO
                         XH))))))))))))))))))))))))))))))))))))))))))))))))))))))))))))))))
                         v)
                       (Z.leb v (Zpos (XI (XI (XI (XI (XI (XI (XI (XI (XI (XI
                         (XI (XI (XI (XI (XI (XI (XI (XI (XI (XI (XI (XI (XI
                         (XI (XI (XI (XI (XI (XI (XI (XI (XI (XI (XI (XI (XI
                         (XI (XI (XI (XI (XI (XI (XI (XI (XI (XI (XI (XI (XI
                         (XI (XI (XI (XI (XI (XI (XI (XI (XI (XI (XI (XI (XI
                         XH))))))))))))))))))))))))))))))))))))))))))))))))))))))))))))))))
                  then Some v
                  else None
                | None -> None))

(** val sequence : 'a1 option list -> 'a1 list option **)

let rec sequence = function
| [] -> Some []
| o :: r ->
  (match o with
   | Some x ->
     (match sequence r with
      | Some r' -> Some (x :: r')
      | None -> None)
   | None -> None)

(** val s_default : str **)

let s_default =
  (Zpos (XO (XO (XI (XO (XO (XI XH))))))) :: ((Zpos (XI (XO (XI (XO (XO (XI
    XH))))))) :: ((Zpos (XO (XI (XI (XO (XO (XI XH))))))) :: ((Zpos (XI (XO
    (XO (XO (XO (XI XH))))))) :: ((Zpos (XI (XO (XI (XO (XI (XI
    XH))))))) :: ((Zpos (XO (XO (XI (XI (XO (XI XH))))))) :: ((Zpos (XO (XO
    (XI (XO (XI (XI XH))))))) :: []))))))

(** val s_path : str **)

let s_path =
  (Zpos (XO (XO (XO (XO (XI (XI XH))))))) :: ((Zpos (XI (XO (XO (XO (XO (XI
    XH))))))) :: ((Zpos (XO (XO (XI (XO (XI (XI XH))))))) :: ((Zpos (XO (XO
    (XO (XI (XO (XI XH))))))) :: [])))

(** val s_history : str **)

let s_history =
  (Zpos (XO (XO (XO (XI (XO (XI XH))))))) :: ((Zpos (XI (XO (XO (XI (XO (XI
    XH))))))) :: ((Zpos (XI (XI (XO (XO (XI (XI XH))))))) :: ((Zpos (XO (XO
    (XI (XO (XI (XI XH))))))) :: ((Zpos (XI (XI (XI (XI (XO (XI
    XH))))))) :: ((Zpos (XO (XI (XO (XO (XI (XI XH))))))) :: ((Zpos (XI (XO
    (XO (XI (XI (XI XH))))))) :: []))))))

(** val s_v1 : str **)

let s_v1 =
  (Zpos (XO (XI (XI (XO (XI (XI XH))))))) :: ((Zpos (XI (XO (XO (XO (XI
    XH)))))) :: [])

(** val s_v2 : str **)

let s_v2 =
  (Zpos (XO (XI (XI (XO (XI (XI XH))))))) :: ((Zpos (XO (XI (XO (XO (XI
    XH)))))) :: [])

(** val s_reverse : str **)

let s_reverse =
  (Zpos (XO (XI (XO (XO (XI (XI XH))))))) :: ((Zpos (XI (XO (XI (XO (XO (XI
    XH))))))) :: ((Zpos (XO (XI (XI (XO (XI (XI XH))))))) :: ((Zpos (XI (XO
    (XI (XO (XO (XI XH))))))) :: ((Zpos (XO (XI (XO (XO (XI (XI
    XH))))))) :: ((Zpos (XI (XI (XO (XO (XI (XI XH))))))) :: ((Zpos (XI (XO
    (XI (XO (XO (XI XH))))))) :: []))))))

(** val s_reverse_list : str **)

let s_reverse_list =
  (Zpos (XO (XI (XO (XO (XI (XI XH))))))) :: ((Zpos (XI (XO (XI (XO (XO (XI
    XH))))))) :: ((Zpos (XO (XI (XI (XO (XI (XI XH))))))) :: ((Zpos (XI (XO
    (XI (XO (XO (XI XH))))))) :: ((Zpos (XO (XI (XO (XO (XI (XI
    XH))))))) :: ((Zpos (XI (XI (XO (XO (XI (XI XH))))))) :: ((Zpos (XI (XO
    (XI (XO (XO (XI XH))))))) :: ((Zpos (XI (XO (XI (XI (XO
    XH)))))) :: ((Zpos (XO (XO (XI (XI (XO (XI XH))))))) :: ((Zpos (XI (XO
    (XO (XI (XO (XI XH))))))) :: ((Zpos (XI (XI (XO (XO (XI (XI
    XH))))))) :: ((Zpos (XO (XO (XI (XO (XI (XI XH))))))) :: [])))))))))))

(** val s_localhost : str **)

let s_localhost =
  (Zpos (XO (XO (XI (XI (XO (XI XH))))))) :: ((Zpos (XI (XI (XI (XI (XO (XI
    XH))))))) :: ((Zpos (XI (XI (XO (XO (XO (XI XH))))))) :: ((Zpos (XI (XO
    (XO (XO (XO (XI XH))))))) :: ((Zpos (XO (XO (XI (XI (XO (XI
    XH))))))) :: ((Zpos (XO (XO (XO (XI (XO (XI XH))))))) :: ((Zpos (XI (XI
    (XI (XI (XO (XI XH))))))) :: ((Zpos (XI (XI (XO (XO (XI (XI
    XH))))))) :: ((Zpos (XO (XO (XI (XO (XI (XI XH))))))) :: []))))))))

(** val s_file : str **)

let s_file =
  (Zpos (XO (XI (XI (XO (XO (XI XH))))))) :: ((Zpos (XI (XO (XO (XI (XO (XI
    XH))))))) :: ((Zpos (XO (XO (XI (XI (XO (XI XH))))))) :: ((Zpos (XI (XO
    (XI (XO (XO (XI XH))))))) :: [])))

(** val s_dir : str **)

let s_dir =
  (Zpos (XO (XO (XI (XO (XO (XI XH))))))) :: ((Zpos (XI (XO (XO (XI (XO (XI
    XH))))))) :: ((Zpos (XO (XI (XO (XO (XI (XI XH))))))) :: []))

(** val s_hidden : str **)

let s_hidden =
  (Zpos (XO (XO (XO (XI (XO (XI XH))))))) :: ((Zpos (XI (XO (XO (XI (XO (XI
    XH))))))) :: ((Zpos (XO (XO (XI (XO (XO (XI XH))))))) :: ((Zpos (XO (XO
    (XI (XO (XO (XI XH))))))) :: ((Zpos (XI (XO (XI (XO (XO (XI
    XH))))))) :: ((Zpos (XO (XI (XI (XI (XO (XI XH))))))) :: [])))))

(** val s_follow : str **)

let s_follow =
  (Zpos (XO (XI (XI (XO (XO (XI XH))))))) :: ((Zpos (XI (XI (XI (XI (XO (XI
    XH))))))) :: ((Zpos (XO (XO (XI (XI (XO (XI XH))))))) :: ((Zpos (XO (XO
    (XI (XI (XO (XI XH))))))) :: ((Zpos (XI (XI (XI (XI (XO (XI
    XH))))))) :: ((Zpos (XI (XI (XI (XO (XI (XI XH))))))) :: [])))))

(** val crit_names : (str * z) list **)

let crit_names =
  (((Zpos (XI (XO (XO (XI (XO (XI XH))))))) :: ((Zpos (XO (XI (XI (XI (XO (XI
    XH))))))) :: ((Zpos (XO (XO (XI (XO (XO (XI XH))))))) :: ((Zpos (XI (XO
    (XI (XO (XO (XI XH))))))) :: ((Zpos (XO (XO (XO (XI (XI (XI
    XH))))))) :: []))))), (Zneg XH)) :: ((((Zpos (XI (XI (XO (XO (XO (XI
    XH))))))) :: ((Zpos (XO (XO (XO (XI (XO (XI XH))))))) :: ((Zpos (XI (XO
    (XI (XO (XI (XI XH))))))) :: ((Zpos (XO (XI (XI (XI (XO (XI
    XH))))))) :: ((Zpos (XI (XI (XO (XI (XO (XI XH))))))) :: []))))), (Zpos
    XH)) :: ((((Zpos (XO (XO (XI (XI (XO (XI XH))))))) :: ((Zpos (XI (XO (XI
    (XO (XO (XI XH))))))) :: ((Zpos (XO (XI (XI (XI (XO (XI
    XH))))))) :: ((Zpos (XI (XI (XI (XO (XO (XI XH))))))) :: ((Zpos (XO (XO
    (XI (XO (XI (XI XH))))))) :: ((Zpos (XO (XO (XO (XI (XO (XI
    XH))))))) :: [])))))), (Zpos (XO XH))) :: ((((Zpos (XO (XI (XO (XO (XO
    (XI XH))))))) :: ((Zpos (XI (XO (XI (XO (XO (XI XH))))))) :: ((Zpos (XI
    (XI (XI (XO (XO (XI XH))))))) :: ((Zpos (XI (XO (XO (XI (XO (XI
    XH))))))) :: ((Zpos (XO (XI (XI (XI (XO (XI XH))))))) :: []))))), (Zpos
    (XI XH))) :: ((((Zpos (XI (XO (XI (XO (XO (XI XH))))))) :: ((Zpos (XO (XI
    (XI (XI (XO (XI XH))))))) :: ((Zpos (XO (XO (XI (XO (XO (XI
    XH))))))) :: []))), (Zpos (XO (XO XH)))) :: ((((Zpos (XO (XO (XO (XO (XI
    (XI XH))))))) :: ((Zpos (XI (XO (XO (XO (XO (XI XH))))))) :: ((Zpos (XO
    (XO (XI (XO (XI (XI XH))))))) :: ((Zpos (XO (XO (XO (XI (XO (XI
    XH))))))) :: ((Zpos (XO (XI (XI (XI (XO (XI XH))))))) :: ((Zpos (XI (XO
    (XO (XO (XO (XI XH))))))) :: ((Zpos (XI (XO (XI (XI (XO (XI
    XH))))))) :: ((Zpos (XI (XO (XI (XO (XO (XI XH))))))) :: [])))))))),
    (Zpos (XI (XO XH)))) :: [])))))

(** val scheme_criteria : str -> z list option **)

let scheme_criteria s =
  if str_eqb s s_history
  then Some (Z0 :: [])
  else if str_eqb s s_path
       then Some (Z0 :: ((Zpos (XI (XO XH))) :: ((Zpos (XO XH)) :: [])))
       else if str_eqb s s_default
            then Some (Z0 :: ((Zpos (XO XH)) :: []))
            else None

(** val vints : z list -> val0 **)

let vints l =
  VL (map (fun x -> VI x) l)

(** val e_UNKNOWN_OPTION : z **)

let e_UNKNOWN_OPTION =
  Zpos (XO (XI (XO XH)))

(** val e_VALUE_REQUIRED : z **)

let e_VALUE_REQUIRED =
  Zpos (XI (XI (XO XH)))

(** val e_BAD_VALUE : z **)

let e_BAD_VALUE =
  Zpos (XO (XO (XI XH)))

(** val e_UNEXPECTED_VALUE : z **)

let e_UNEXPECTED_VALUE =
  Zpos (XI (XO (XI XH)))

(** val e_VALIDATION : z **)

let e_VALIDATION =
  Zpos (XO (XI (XI XH)))

(** val e_HISTORY : z **)

let e_HISTORY =
  Zpos (XI (XI (XI XH)))

type cfg0 = { fv0 : (field -> val0); kmap : keymap; expect : key list }

(** val setf : field -> val0 -> cfg0 -> cfg0 **)

let setf f v c =
  { fv0 = (fun g -> if Nat.eqb g f then v else c.fv0 g); kmap = c.kmap;
    expect = c.expect }

(** val setfs : (field * val0) list -> cfg0 -> cfg0 **)

let rec setfs ws c =
  match ws with
  | [] -> c
  | p :: r -> let (f, v) = p in setfs r (setf f v c)

type env = { isdir : (str -> bool); histok : (str -> bool); tty : bool }

type pid =
| PStr
| PSomeStr
| PInt
| PPosInt
| PAlgo
| PScheme
| PTiebreak
| PNth
| PNthT
| PDelim
| PLayout
| PHeight
| PLines
| PWalker
| PSkip

(** val mem_z : z -> z list -> bool **)

let rec mem_z x = function
| [] -> false
| y :: r -> (||) (Z.eqb x y) (mem_z x r)

(** val tb_loop : str list -> z list -> z list -> bool -> z list option **)

let rec tb_loop toks crit seen has_index =
  match toks with
  | [] -> Some crit
  | t0 :: r ->
    (match assoc_str t0 crit_names with
     | Some id ->
       if mem_z id seen
       then None
       else if has_index
            then None
            else if Z.eqb id (Zneg XH)
                 then tb_loop r crit (id :: seen) true
                 else tb_loop r (app crit (id :: [])) (id :: seen) false
     | None -> None)

(** val parse_tiebreak : str -> z list option **)

let parse_tiebreak s =
  match tb_loop (split_on cOMMA (to_lower s)) (Z0 :: []) [] false with
  | Some crit ->
    if Nat.ltb (S (S (S (S O)))) (length crit) then None else Some crit
  | None -> None

(** val dOT : z **)

let dOT =
  Zpos (XO (XI (XI (XI (XO XH)))))

(** val find_dotdot : str -> str -> (str * str) option **)

let rec find_dotdot cur = function
| [] -> None
| c1 :: t1 ->
  (match t1 with
   | [] -> None
   | c2 :: t0 ->
     if (&&) (Z.eqb c1 dOT) (Z.eqb c2 dOT)
     then Some ((rev cur), t0)
     else find_dotdot (c1 :: cur) t1)

(** val nonzero : z option -> z option **)

let nonzero o = match o with
| Some z0 -> (match z0 with
              | Z0 -> None
              | _ -> o)
| None -> o

(** val new_range : z -> z -> z * z **)

let new_range bg e =
  ((if (&&) (Z.eqb bg (Zpos XH)) (negb (Z.eqb e (Zpos XH))) then Z0 else bg),
    (if Z.eqb e (Zneg XH) then Z0 else e))

(** val parse_range : str -> (z * z) option **)

let parse_range s =
  if str_eqb s (dOT :: (dOT :: []))
  then Some (new_range Z0 Z0)
  else if has_prefix (dOT :: (dOT :: [])) s
       then (match nonzero (atoi0 (skipn (S (S O)) s)) with
             | Some e -> Some (new_range Z0 e)
             | None -> None)
       else if has_suffix (dOT :: (dOT :: [])) s
            then (match nonzero (atoi0 (firstn (sub (length s) (S (S O))) s)) with
                  | Some bg -> Some (new_range bg Z0)
                  | None -> None)
            else (match find_dotdot [] s with
                  | Some p ->
                    let (a, r) = p in
                    (match find_dotdot [] r with
                     | Some _ -> None
                     | None ->
                       (match nonzero (atoi0 a) with
                        | Some bg ->
                          (match nonzero (atoi0 r) with
                           | Some e ->
                             if (&&) (Z.ltb bg Z0) (Z.ltb Z0 e)
                             then None
                             else Some (new_range bg e)
                           | None -> None)
                        | None -> None))
                  | None ->
                    (match nonzero (atoi0 s) with
                     | Some n -> Some (new_range n n)
                     | None -> None))

(** val nth_char : z -> bool **)

let nth_char c =
  (||) (is_digit c)
    ((&&) (Z.leb (Zpos (XO (XO (XI (XI (XO XH)))))) c)
      (Z.leb c (Zpos (XO (XI (XI (XI (XO XH))))))))

(** val nth_expr : str -> bool **)

let nth_expr s =
  (&&) (nonemptyb s) (forallb nth_char s)

(** val split_nth : str -> (z * z) list option **)

let split_nth s =
  if nth_expr s then sequence (map parse_range (split_on cOMMA s)) else None

(** val placeholder_here : str -> bool **)

let placeholder_here t0 = match t0 with
| [] ->
  let w = take_while nth_char t0 in
  (&&) (nonemptyb w)
    (match skipn (length w) t0 with
     | [] -> false
     | z0 :: _ ->
       (match z0 with
        | Zpos p ->
          (match p with
           | XI p0 ->
             (match p0 with
              | XO p1 ->
                (match p1 with
                 | XI p3 ->
                   (match p3 with
                    | XI p5 ->
                      (match p5 with
                       | XI p6 ->
                         (match p6 with
                          | XI p7 -> (match p7 with
                                      | XH -> true
                                      | _ -> false)
                          | _ -> false)
                       | _ -> false)
                    | _ -> false)
                 | _ -> false)
              | _ -> false)
           | _ -> false)
        | _ -> false))
| z0 :: l ->
  (match z0 with
   | Zpos p ->
     (match p with
      | XO p0 ->
        (match p0 with
         | XI p1 ->
           (match p1 with
            | XI p3 ->
              (match p3 with
               | XI p5 ->
                 (match p5 with
                  | XO p6 ->
                    (match p6 with
                     | XI p7 ->
                       (match p7 with
                        | XH ->
                          (match l with
                           | [] ->
                             let w = take_while nth_char t0 in
                             (&&) (nonemptyb w)
                               (match skipn (length w) t0 with
                                | [] -> false
                                | z1 :: _ ->
                                  (match z1 with
                                   | Zpos p8 ->
                                     (match p8 with
                                      | XI p9 ->
                                        (match p9 with
                                         | XO p10 ->
                                           (match p10 with
                                            | XI p11 ->
                                              (match p11 with
                                               | XI p12 ->
                                                 (match p12 with
                                                  | XI p13 ->
                                                    (match p13 with
                                                     | XI p14 ->
                                                       (match p14 with
                                                        | XH -> true
                                                        | _ -> false)
                                                     | _ -> false)
                                                  | _ -> false)
                                               | _ -> false)
                                            | _ -> false)
                                         | _ -> false)
                                      | _ -> false)
                                   | _ -> false))
                           | z1 :: _ ->
                             (match z1 with
                              | Zpos p8 ->
                                (match p8 with
                                 | XI p9 ->
                                   (match p9 with
                                    | XO p10 ->
                                      (match p10 with
                                       | XI p11 ->
                                         (match p11 with
                                          | XI p12 ->
                                            (match p12 with
                                             | XI p13 ->
                                               (match p13 with
                                                | XI p14 ->
                                                  (match p14 with
                                                   | XH -> true
                                                   | _ ->
                                                     let w =
                                                       take_while nth_char t0
                                                     in
                                                     (&&) (nonemptyb w)
                                                       (match skipn
                                                                (length w) t0 with
                                                        | [] -> false
                                                        | z2 :: _ ->
                                                          (match z2 with
                                                           | Zpos p15 ->
                                                             (match p15 with
                                                              | XI p16 ->
                                                                (match p16 with
                                                                 | XO p17 ->
                                                                   (match p17 with
                                                                    | XI p18 ->
                                                                    (match p18 with
                                                                    | XI p19 ->
                                                                    (match p19 with
                                                                    | XI p20 ->
                                                                    (match p20 with
                                                                    | XI p21 ->
                                                                    (match p21 with
                                                                    | XH ->
                                                                    true
                                                                    | _ ->
                                                                    false)
                                                                    | _ ->
                                                                    false)
                                                                    | _ ->
                                                                    false)
                                                                    | _ ->
                                                                    false)
                                                                    | _ ->
                                                                    false)
                                                                 | _ -> false)
                                                              | _ -> false)
                                                           | _ -> false)))
                                                | _ ->
                                                  let w =
                                                    take_while nth_char t0
                                                  in
                                                  (&&) (nonemptyb w)
                                                    (match skipn (length w) t0 with
                                                     | [] -> false
                                                     | z2 :: _ ->
                                                       (match z2 with
                                                        | Zpos p14 ->
                                                          (match p14 with
                                                           | XI p15 ->
                                                             (match p15 with
                                                              | XO p16 ->
                                                                (match p16 with
                                                                 | XI p17 ->
                                                                   (match p17 with
                                                                    | XI p18 ->
                                                                    (match p18 with
                                                                    | XI p19 ->
                                                                    (match p19 with
                                                                    | XI p20 ->
                                                                    (match p20 with
                                                                    | XH ->
                                                                    true
                                                                    | _ ->
                                                                    false)
                                                                    | _ ->
                                                                    false)
                                                                    | _ ->
                                                                    false)
                                                                    | _ ->
                                                                    false)
                                                                 | _ -> false)
                                                              | _ -> false)
                                                           | _ -> false)
                                                        | _ -> false)))
                                             | _ ->
                                               let w = take_while nth_char t0
                                               in
                                               (&&) (nonemptyb w)
                                                 (match skipn (length w) t0 with
                                                  | [] -> false
                                                  | z2 :: _ ->
                                                    (match z2 with
                                                     | Zpos p13 ->
                                                       (match p13 with
                                                        | XI p14 ->
                                                          (match p14 with
                                                           | XO p15 ->
                                                             (match p15 with
                                                              | XI p16 ->
                                                                (match p16 with
                                                                 | XI p17 ->
                                                                   (match p17 with
                                                                    | XI p18 ->
                                                                    (match p18 with
                                                                    | XI p19 ->
                                                                    (match p19 with
                                                                    | XH ->
                                                                    true
                                                                    | _ ->
                                                                    false)
                                                                    | _ ->
                                                                    false)
                                                                    | _ ->
                                                                    false)
                                                                 | _ -> false)
                                                              | _ -> false)
                                                           | _ -> false)
                                                        | _ -> false)
                                                     | _ -> false)))
                                          | _ ->
                                            let w = take_while nth_char t0 in
                                            (&&) (nonemptyb w)
                                              (match skipn (length w) t0 with
                                               | [] -> false
                                               | z2 :: _ ->
                                                 (match z2 with
                                                  | Zpos p12 ->
                                                    (match p12 with
                                                     | XI p13 ->
                                                       (match p13 with
                                                        | XO p14 ->
                                                          (match p14 with
                                                           | XI p15 ->
                                                             (match p15 with
                                                              | XI p16 ->
                                                                (match p16 with
                                                                 | XI p17 ->
                                                                   (match p17 with
                                                                    | XI p18 ->
                                                                    (match p18 with
                                                                    | XH ->
                                                                    true
                                                                    | _ ->
                                                                    false)
                                                                    | _ ->
                                                                    false)
                                                                 | _ -> false)
                                                              | _ -> false)
                                                           | _ -> false)
                                                        | _ -> false)
                                                     | _ -> false)
                                                  | _ -> false)))
                                       | _ ->
                                         let w = take_while nth_char t0 in
                                         (&&) (nonemptyb w)
                                           (match skipn (length w) t0 with
                                            | [] -> false
                                            | z2 :: _ ->
                                              (match z2 with
                                               | Zpos p11 ->
                                                 (match p11 with
                                                  | XI p12 ->
                                                    (match p12 with
                                                     | XO p13 ->
                                                       (match p13 with
                                                        | XI p14 ->
                                                          (match p14 with
                                                           | XI p15 ->
                                                             (match p15 with
                                                              | XI p16 ->
                                                                (match p16 with
                                                                 | XI p17 ->
                                                                   (match p17 with
                                                                    | XH ->
                                                                    true
                                                                    | _ ->
                                                                    false)
                                                                 | _ -> false)
                                                              | _ -> false)
                                                           | _ -> false)
                                                        | _ -> false)
                                                     | _ -> false)
                                                  | _ -> false)
                                               | _ -> false)))
                                    | _ ->
                                      let w = take_while nth_char t0 in
                                      (&&) (nonemptyb w)
                                        (match skipn (length w) t0 with
                                         | [] -> false
                                         | z2 :: _ ->
                                           (match z2 with
                                            | Zpos p10 ->
                                              (match p10 with
                                               | XI p11 ->
                                                 (match p11 with
                                                  | XO p12 ->
                                                    (match p12 with
                                                     | XI p13 ->
                                                       (match p13 with
                                                        | XI p14 ->
                                                          (match p14 with
                                                           | XI p15 ->
                                                             (match p15 with
                                                              | XI p16 ->
                                                                (match p16 with
                                                                 | XH -> true
                                                                 | _ -> false)
                                                              | _ -> false)
                                                           | _ -> false)
                                                        | _ -> false)
                                                     | _ -> false)
                                                  | _ -> false)
                                               | _ -> false)
                                            | _ -> false)))
                                 | _ ->
                                   let w = take_while nth_char t0 in
                                   (&&) (nonemptyb w)
                                     (match skipn (length w) t0 with
                                      | [] -> false
                                      | z2 :: _ ->
                                        (match z2 with
                                         | Zpos p9 ->
                                           (match p9 with
                                            | XI p10 ->
                                              (match p10 with
                                               | XO p11 ->
                                                 (match p11 with
                                                  | XI p12 ->
                                                    (match p12 with
                                                     | XI p13 ->
                                                       (match p13 with
                                                        | XI p14 ->
                                                          (match p14 with
                                                           | XI p15 ->
                                                             (match p15 with
                                                              | XH -> true
                                                              | _ -> false)
                                                           | _ -> false)
                                                        | _ -> false)
                                                     | _ -> false)
                                                  | _ -> false)
                                               | _ -> false)
                                            | _ -> false)
                                         | _ -> false)))
                              | _ ->
                                let w = take_while nth_char t0 in
                                (&&) (nonemptyb w)
                                  (match skipn (length w) t0 with
                                   | [] -> false
                                   | z2 :: _ ->
                                     (match z2 with
                                      | Zpos p8 ->
                                        (match p8 with
                                         | XI p9 ->
                                           (match p9 with
                                            | XO p10 ->
                                              (match p10 with
                                               | XI p11 ->
                                                 (match p11 with
                                                  | XI p12 ->
                                                    (match p12 with
                                                     | XI p13 ->
                                                       (match p13 with
                                                        | XI p14 ->
                                                          (match p14 with
                                                           | XH -> true
                                                           | _ -> false)
                                                        | _ -> false)
                                                     | _ -> false)
                                                  | _ -> false)
                                               | _ -> false)
                                            | _ -> false)
                                         | _ -> false)
                                      | _ -> false))))
                        | _ ->
                          let w = take_while nth_char t0 in
                          (&&) (nonemptyb w)
                            (match skipn (length w) t0 with
                             | [] -> false
                             | z1 :: _ ->
                               (match z1 with
                                | Zpos p8 ->
                                  (match p8 with
                                   | XI p9 ->
                                     (match p9 with
                                      | XO p10 ->
                                        (match p10 with
                                         | XI p11 ->
                                           (match p11 with
                                            | XI p12 ->
                                              (match p12 with
                                               | XI p13 ->
                                                 (match p13 with
                                                  | XI p14 ->
                                                    (match p14 with
                                                     | XH -> true
                                                     | _ -> false)
                                                  | _ -> false)
                                               | _ -> false)
                                            | _ -> false)
                                         | _ -> false)
                                      | _ -> false)
                                   | _ -> false)
                                | _ -> false)))
                     | _ ->
                       let w = take_while nth_char t0 in
                       (&&) (nonemptyb w)
                         (match skipn (length w) t0 with
                          | [] -> false
                          | z1 :: _ ->
                            (match z1 with
                             | Zpos p7 ->
                               (match p7 with
                                | XI p8 ->
                                  (match p8 with
                                   | XO p9 ->
                                     (match p9 with
                                      | XI p10 ->
                                        (match p10 with
                                         | XI p11 ->
                                           (match p11 with
                                            | XI p12 ->
                                              (match p12 with
                                               | XI p13 ->
                                                 (match p13 with
                                                  | XH -> true
                                                  | _ -> false)
                                               | _ -> false)
                                            | _ -> false)
                                         | _ -> false)
                                      | _ -> false)
                                   | _ -> false)
                                | _ -> false)
                             | _ -> false)))
                  | _ ->
                    let w = take_while nth_char t0 in
                    (&&) (nonemptyb w)
                      (match skipn (length w) t0 with
                       | [] -> false
                       | z1 :: _ ->
                         (match z1 with
                          | Zpos p6 ->
                            (match p6 with
                             | XI p7 ->
                               (match p7 with
                                | XO p8 ->
                                  (match p8 with
                                   | XI p9 ->
                                     (match p9 with
                                      | XI p10 ->
                                        (match p10 with
                                         | XI p11 ->
                                           (match p11 with
                                            | XI p12 ->
                                              (match p12 with
                                               | XH -> true
                                               | _ -> false)
                                            | _ -> false)
                                         | _ -> false)
                                      | _ -> false)
                                   | _ -> false)
                                | _ -> false)
                             | _ -> false)
                          | _ -> false)))
               | _ ->
                 let w = take_while nth_char t0 in
                 (&&) (nonemptyb w)
                   (match skipn (length w) t0 with
                    | [] -> false
                    | z1 :: _ ->
                      (match z1 with
                       | Zpos p5 ->
                         (match p5 with
                          | XI p6 ->
                            (match p6 with
                             | XO p7 ->
                               (match p7 with
                                | XI p8 ->
                                  (match p8 with
                                   | XI p9 ->
                                     (match p9 with
                                      | XI p10 ->
                                        (match p10 with
                                         | XI p11 ->
                                           (match p11 with
                                            | XH -> true
                                            | _ -> false)
                                         | _ -> false)
                                      | _ -> false)
                                   | _ -> false)
                                | _ -> false)
                             | _ -> false)
                          | _ -> false)
                       | _ -> false)))
            | _ ->
              let w = take_while nth_char t0 in
              (&&) (nonemptyb w)
                (match skipn (length w) t0 with
                 | [] -> false
                 | z1 :: _ ->
                   (match z1 with
                    | Zpos p3 ->
                      (match p3 with
                       | XI p5 ->
                         (match p5 with
                          | XO p6 ->
                            (match p6 with
                             | XI p7 ->
                               (match p7 with
                                | XI p8 ->
                                  (match p8 with
                                   | XI p9 ->
                                     (match p9 with
                                      | XI p10 ->
                                        (match p10 with
                                         | XH -> true
                                         | _ -> false)
                                      | _ -> false)
                                   | _ -> false)
                                | _ -> false)
                             | _ -> false)
                          | _ -> false)
                       | _ -> false)
                    | _ -> false)))
         | _ ->
           let w = take_while nth_char t0 in
           (&&) (nonemptyb w)
             (match skipn (length w) t0 with
              | [] -> false
              | z1 :: _ ->
                (match z1 with
                 | Zpos p1 ->
                   (match p1 with
                    | XI p3 ->
                      (match p3 with
                       | XO p5 ->
                         (match p5 with
                          | XI p6 ->
                            (match p6 with
                             | XI p7 ->
                               (match p7 with
                                | XI p8 ->
                                  (match p8 with
                                   | XI p9 ->
                                     (match p9 with
                                      | XH -> true
                                      | _ -> false)
                                   | _ -> false)
                                | _ -> false)
                             | _ -> false)
                          | _ -> false)
                       | _ -> false)
                    | _ -> false)
                 | _ -> false)))
      | _ ->
        let w = take_while nth_char t0 in
        (&&) (nonemptyb w)
          (match skipn (length w) t0 with
           | [] -> false
           | z1 :: _ ->
             (match z1 with
              | Zpos p0 ->
                (match p0 with
                 | XI p1 ->
                   (match p1 with
                    | XO p3 ->
                      (match p3 with
                       | XI p5 ->
                         (match p5 with
                          | XI p6 ->
                            (match p6 with
                             | XI p7 ->
                               (match p7 with
                                | XI p8 ->
                                  (match p8 with
                                   | XH -> true
                                   | _ -> false)
                                | _ -> false)
                             | _ -> false)
                          | _ -> false)
                       | _ -> false)
                    | _ -> false)
                 | _ -> false)
              | _ -> false)))
   | _ ->
     let w = take_while nth_char t0 in
     (&&) (nonemptyb w)
       (match skipn (length w) t0 with
        | [] -> false
        | z1 :: _ ->
          (match z1 with
           | Zpos p ->
             (match p with
              | XI p0 ->
                (match p0 with
                 | XO p1 ->
                   (match p1 with
                    | XI p3 ->
                      (match p3 with
                       | XI p5 ->
                         (match p5 with
                          | XI p6 ->
                            (match p6 with
                             | XI p7 ->
                               (match p7 with
                                | XH -> true
                                | _ -> false)
                             | _ -> false)
                          | _ -> false)
                       | _ -> false)
                    | _ -> false)
                 | _ -> false)
              | _ -> false)
           | _ -> false)))

(** val has_placeholder : str -> bool **)

let rec has_placeholder = function
| [] -> false
| c :: t0 ->
  (||)
    ((&&) (Z.eqb c (Zpos (XI (XI (XO (XI (XI (XI XH))))))))
      (placeholder_here t0)) (has_placeholder t0)

(** val nth_transformer_ok : str -> bool **)

let nth_transformer_ok s =
  if nth_expr s
  then (match split_nth s with
        | Some _ -> true
        | None -> false)
  else has_placeholder s

(** val delim_unescape : str -> str **)

let rec delim_unescape s = match s with
| [] -> s
| c1 :: t1 ->
  (match t1 with
   | [] -> s
   | c2 :: t0 ->
     if (&&) (Z.eqb c1 (Zpos (XO (XO (XI (XI (XI (XO XH))))))))
          (Z.eqb c2 (Zpos (XO (XO (XI (XO (XI (XI XH))))))))
     then (Zpos (XI (XO (XO XH)))) :: (delim_unescape t0)
     else c1 :: (delim_unescape t1))

(** val parse_height : str -> val0 option **)

let parse_height s = match s with
| [] ->
  let auto = false in
  let neg =
    match s with
    | [] -> false
    | c :: _ -> Z.eqb c (Zpos (XI (XO (XI (XI (XO XH))))))
  in
  if (&&) neg auto
  then None
  else let s0 = if neg then skipn (S O) s else s in
       let percent = has_suffix ((Zpos (XI (XO (XI (XO (XO XH)))))) :: []) s0
       in
       if percent
       then (match atoi0 (firstn (sub (length s0) (S O)) s0) with
             | Some v ->
               if (||) (Z.ltb v Z0)
                    (Z.ltb (Zpos (XO (XO (XI (XO (XO (XI XH))))))) v)
               then None
               else Some (VL ((VI
                      v) :: (t :: ((vbool auto) :: ((vbool neg) :: [])))))
             | None -> None)
       else if contains (dOT :: []) s0
            then None
            else (match atoi0 s0 with
                  | Some v ->
                    if Z.ltb v Z0
                    then None
                    else Some (VL ((VI
                           v) :: (fv :: ((vbool auto) :: ((vbool neg) :: [])))))
                  | None -> None)
| c :: r ->
  if Z.eqb c (Zpos (XO (XI (XI (XI (XI (XI XH)))))))
  then let auto = true in
       let neg =
         match r with
         | [] -> false
         | c0 :: _ -> Z.eqb c0 (Zpos (XI (XO (XI (XI (XO XH))))))
       in
       if (&&) neg auto
       then None
       else let s0 = if neg then skipn (S O) r else r in
            let percent =
              has_suffix ((Zpos (XI (XO (XI (XO (XO XH)))))) :: []) s0
            in
            if percent
            then (match atoi0 (firstn (sub (length s0) (S O)) s0) with
                  | Some v ->
                    if (||) (Z.ltb v Z0)
                         (Z.ltb (Zpos (XO (XO (XI (XO (XO (XI XH))))))) v)
                    then None
                    else Some (VL ((VI
                           v) :: (t :: ((vbool auto) :: ((vbool neg) :: [])))))
                  | None -> None)
            else if contains (dOT :: []) s0
                 then None
                 else (match atoi0 s0 with
                       | Some v ->
                         if Z.ltb v Z0
                         then None
                         else Some (VL ((VI
                                v) :: (fv :: ((vbool auto) :: ((vbool neg) :: [])))))
                       | None -> None)
  else let auto = false in
       let neg =
         match s with
         | [] -> false
         | c0 :: _ -> Z.eqb c0 (Zpos (XI (XO (XI (XI (XO XH))))))
       in
       if (&&) neg auto
       then None
       else let s0 = if neg then skipn (S O) s else s in
            let percent =
              has_suffix ((Zpos (XI (XO (XI (XO (XO XH)))))) :: []) s0
            in
            if percent
            then (match atoi0 (firstn (sub (length s0) (S O)) s0) with
                  | Some v ->
                    if (||) (Z.ltb v Z0)
                         (Z.ltb (Zpos (XO (XO (XI (XO (XO (XI XH))))))) v)
                    then None
                    else Some (VL ((VI
                           v) :: (t :: ((vbool auto) :: ((vbool neg) :: [])))))
                  | None -> None)
            else if contains (dOT :: []) s0
                 then None
                 else (match atoi0 s0 with
                       | Some v ->
                         if Z.ltb v Z0
                         then None
                         else Some (VL ((VI
                                v) :: (fv :: ((vbool auto) :: ((vbool neg) :: [])))))
                       | None -> None)

(** val str_lines : str -> str list **)

let str_lines s =
  split_on (Zpos (XO (XI (XO XH))))
    (if has_suffix ((Zpos (XO (XI (XO XH)))) :: []) s
     then firstn (sub (length s) (S O)) s
     else s)

(** val walker_loop :
    str list -> bool -> bool -> bool -> bool -> val0 option **)

let rec walker_loop toks f d h l =
  match toks with
  | [] ->
    if (||) f d
    then Some (VL
           ((vbool f) :: ((vbool d) :: ((vbool h) :: ((vbool l) :: [])))))
    else None
  | t0 :: r ->
    if str_eqb t0 s_file
    then walker_loop r true d h l
    else if str_eqb t0 s_dir
         then walker_loop r f true h l
         else if str_eqb t0 s_hidden
              then walker_loop r f d true l
              else if str_eqb t0 s_follow
                   then walker_loop r f d h true
                   else (match t0 with
                         | [] -> walker_loop r f d h l
                         | _ :: _ -> None)

(** val parse_listen : str -> val0 option **)

let parse_listen addr =
  let parts = split_on cOLON addr in
  let hp =
    match parts with
    | [] -> None
    | h :: l ->
      (match l with
       | [] -> Some (s_localhost, h)
       | p :: l0 -> (match l0 with
                     | [] -> Some (h, p)
                     | _ :: _ -> None))
  in
  (match hp with
   | Some p0 ->
     let (h, p) = p0 in
     (match atoi0 p with
      | Some n ->
        if (||) (Z.ltb n Z0)
             (Z.ltb (Zpos (XI (XI (XI (XI (XI (XI (XI (XI (XI (XI (XI (XI (XI
               (XI (XI XH)))))))))))))))) n)
        then None
        else Some (VL
               ((vstr (match h with
                       | [] -> s_localhost
                       | _ :: _ -> h)) :: ((VI n) :: [])))
      | None -> None)
   | None -> None)

(** val run_parser : pid -> str -> val0 list option **)

let run_parser p s =
  match p with
  | PStr -> Some ((vstr s) :: [])
  | PSomeStr -> Some ((vsome (vstr s)) :: [])
  | PInt -> (match atoi0 s with
             | Some n -> Some ((VI n) :: [])
             | None -> None)
  | PPosInt ->
    (match atoi0 s with
     | Some n -> if Z.ltb Z0 n then Some ((VI n) :: []) else None
     | None -> None)
  | PAlgo ->
    if str_eqb s s_v1
    then Some ((VI (Zpos XH)) :: [])
    else if str_eqb s s_v2 then Some ((VI (Zpos (XO XH))) :: []) else None
  | PScheme ->
    (match scheme_criteria (to_lower s) with
     | Some c -> Some ((vstr (to_lower s)) :: ((vints c) :: []))
     | None -> None)
  | PTiebreak ->
    (match parse_tiebreak s with
     | Some c -> Some ((vints c) :: [])
     | None -> None)
  | PNth ->
    (match split_nth s with
     | Some rs ->
       Some ((VL
         (map (fun r -> VL ((VI (fst r)) :: ((VI (snd r)) :: []))) rs)) :: [])
     | None -> None)
  | PNthT -> if nth_transformer_ok s then Some (t :: []) else None
  | PDelim -> Some ((vsome (vstr (delim_unescape s))) :: [])
  | PLayout ->
    if str_eqb s s_default
    then Some ((VI Z0) :: [])
    else if str_eqb s s_reverse
         then Some ((VI (Zpos XH)) :: [])
         else if str_eqb s s_reverse_list
              then Some ((VI (Zpos (XO XH))) :: [])
              else None
  | PHeight ->
    (match parse_height s with
     | Some v -> Some (v :: [])
     | None -> None)
  | PLines -> Some ((vstrs (str_lines s)) :: [])
  | PWalker ->
    (match walker_loop (split_on cOMMA (to_lower s)) false false false false with
     | Some v -> Some (v :: [])
     | None -> None)
  | PSkip -> Some ((vstrs (filter nonemptyb (split_on cOMMA s))) :: [])

type okind =
| KFlag of (field * val0) list
| KReq of field list * pid
| KOptNum of field * z
| KListen of bool
| KDirs of field
| KHistory
| KHistorySize
| KExpect
| KNoExpect
| KBind

(** val height_zero : val0 **)

let height_zero =
  VL ((VI Z0) :: (fv :: (fv :: (fv :: []))))

(** val mAX_MULTI : z **)

let mAX_MULTI =
  Zpos (XI (XI (XI (XI (XI (XI (XI (XI (XI (XI (XI (XI (XI (XI (XI (XI (XI
    (XI (XI (XI (XI (XI (XI (XI (XI (XI (XI (XI (XI (XI
    XH))))))))))))))))))))))))))))))

(** val opt_table : (str * okind) list **)

let opt_table =
  (((Zpos (XI (XO (XI (XI (XO XH)))))) :: ((Zpos (XO (XO (XO (XI (XI (XI
    XH))))))) :: [])), (KFlag (((S O), (VI (Zpos XH))) :: []))) :: ((((Zpos
    (XI (XO (XI (XI (XO XH)))))) :: ((Zpos (XI (XO (XI (XI (XO
    XH)))))) :: ((Zpos (XI (XO (XI (XO (XO (XI XH))))))) :: ((Zpos (XO (XO
    (XO (XI (XI (XI XH))))))) :: ((Zpos (XO (XO (XI (XO (XI (XI
    XH))))))) :: ((Zpos (XI (XO (XI (XO (XO (XI XH))))))) :: ((Zpos (XO (XI
    (XI (XI (XO (XI XH))))))) :: ((Zpos (XO (XO (XI (XO (XO (XI
    XH))))))) :: ((Zpos (XI (XO (XI (XO (XO (XI XH))))))) :: ((Zpos (XO (XO
    (XI (XO (XO (XI XH))))))) :: [])))))))))), (KFlag (((S O), (VI (Zpos
    XH))) :: []))) :: ((((Zpos (XI (XO (XI (XI (XO XH)))))) :: ((Zpos (XI (XO
    (XI (XO (XO (XI XH))))))) :: [])), (KFlag ((O, (VI
    Z0)) :: []))) :: ((((Zpos (XI (XO (XI (XI (XO XH)))))) :: ((Zpos (XI (XO
    (XI (XI (XO XH)))))) :: ((Zpos (XI (XO (XI (XO (XO (XI
    XH))))))) :: ((Zpos (XO (XO (XO (XI (XI (XI XH))))))) :: ((Zpos (XI (XO
    (XO (XO (XO (XI XH))))))) :: ((Zpos (XI (XI (XO (XO (XO (XI
    XH))))))) :: ((Zpos (XO (XO (XI (XO (XI (XI XH))))))) :: []))))))),
    (KFlag ((O, (VI Z0)) :: []))) :: ((((Zpos (XI (XO (XI (XI (XO
    XH)))))) :: ((Zpos (XI (XO (XI (XI (XO XH)))))) :: ((Zpos (XI (XO (XI (XO
    (XO (XI XH))))))) :: ((Zpos (XO (XO (XO (XI (XI (XI XH))))))) :: ((Zpos
    (XO (XO (XI (XO (XI (XI XH))))))) :: ((Zpos (XI (XO (XI (XO (XO (XI
    XH))))))) :: ((Zpos (XO (XI (XI (XI (XO (XI XH))))))) :: ((Zpos (XO (XO
    (XI (XO (XO (XI XH))))))) :: ((Zpos (XI (XO (XI (XO (XO (XI
    XH))))))) :: ((Zpos (XO (XO (XI (XO (XO (XI XH))))))) :: ((Zpos (XI (XO
    (XI (XI (XO XH)))))) :: ((Zpos (XI (XO (XI (XO (XO (XI
    XH))))))) :: ((Zpos (XO (XO (XO (XI (XI (XI XH))))))) :: ((Zpos (XI (XO
    (XO (XO (XO (XI XH))))))) :: ((Zpos (XI (XI (XO (XO (XO (XI
    XH))))))) :: ((Zpos (XO (XO (XI (XO (XI (XI
    XH))))))) :: [])))))))))))))))), (KFlag ((O, (VI Z0)) :: (((S O), (VI
    (Zpos XH))) :: [])))) :: ((((Zpos (XI (XI (XO (XI (XO XH)))))) :: ((Zpos
    (XO (XO (XO (XI (XI (XI XH))))))) :: [])), (KFlag (((S O), (VI
    Z0)) :: []))) :: ((((Zpos (XI (XO (XI (XI (XO XH)))))) :: ((Zpos (XI (XO
    (XI (XI (XO XH)))))) :: ((Zpos (XO (XI (XI (XI (XO (XI
    XH))))))) :: ((Zpos (XI (XI (XI (XI (XO (XI XH))))))) :: ((Zpos (XI (XO
    (XI (XI (XO XH)))))) :: ((Zpos (XI (XO (XI (XO (XO (XI
    XH))))))) :: ((Zpos (XO (XO (XO (XI (XI (XI XH))))))) :: ((Zpos (XO (XO
    (XI (XO (XI (XI XH))))))) :: ((Zpos (XI (XO (XI (XO (XO (XI
    XH))))))) :: ((Zpos (XO (XI (XI (XI (XO (XI XH))))))) :: ((Zpos (XO (XO
    (XI (XO (XO (XI XH))))))) :: ((Zpos (XI (XO (XI (XO (XO (XI
    XH))))))) :: ((Zpos (XO (XO (XI (XO (XO (XI XH))))))) :: []))))))))))))),
    (KFlag (((S O), (VI Z0)) :: []))) :: ((((Zpos (XI (XI (XO (XI (XO
    XH)))))) :: ((Zpos (XI (XO (XI (XO (XO (XI XH))))))) :: [])), (KFlag ((O,
    (VI (Zpos XH))) :: []))) :: ((((Zpos (XI (XO (XI (XI (XO
    XH)))))) :: ((Zpos (XI (XO (XI (XI (XO XH)))))) :: ((Zpos (XO (XI (XI (XI
    (XO (XI XH))))))) :: ((Zpos (XI (XI (XI (XI (XO (XI XH))))))) :: ((Zpos
    (XI (XO (XI (XI (XO XH)))))) :: ((Zpos (XI (XO (XI (XO (XO (XI
    XH))))))) :: ((Zpos (XO (XO (XO (XI (XI (XI XH))))))) :: ((Zpos (XI (XO
    (XO (XO (XO (XI XH))))))) :: ((Zpos (XI (XI (XO (XO (XO (XI
    XH))))))) :: ((Zpos (XO (XO (XI (XO (XI (XI XH))))))) :: [])))))))))),
    (KFlag ((O, (VI (Zpos XH))) :: []))) :: ((((Zpos (XI (XO (XI (XI (XO
    XH)))))) :: ((Zpos (XI (XO (XI (XI (XO XH)))))) :: ((Zpos (XO (XO (XI (XI
    (XO (XI XH))))))) :: ((Zpos (XI (XO (XO (XI (XO (XI XH))))))) :: ((Zpos
    (XO (XO (XI (XO (XI (XI XH))))))) :: ((Zpos (XI (XO (XI (XO (XO (XI
    XH))))))) :: ((Zpos (XO (XI (XO (XO (XI (XI XH))))))) :: ((Zpos (XI (XO
    (XO (XO (XO (XI XH))))))) :: ((Zpos (XO (XO (XI (XI (XO (XI
    XH))))))) :: []))))))))), (KFlag (((S (S (S (S (S O))))), (VI
    Z0)) :: []))) :: ((((Zpos (XI (XO (XI (XI (XO XH)))))) :: ((Zpos (XI (XO
    (XI (XI (XO XH)))))) :: ((Zpos (XO (XI (XI (XI (XO (XI
    XH))))))) :: ((Zpos (XI (XI (XI (XI (XO (XI XH))))))) :: ((Zpos (XI (XO
    (XI (XI (XO XH)))))) :: ((Zpos (XO (XO (XI (XI (XO (XI
    XH))))))) :: ((Zpos (XI (XO (XO (XI (XO (XI XH))))))) :: ((Zpos (XO (XO
    (XI (XO (XI (XI XH))))))) :: ((Zpos (XI (XO (XI (XO (XO (XI
    XH))))))) :: ((Zpos (XO (XI (XO (XO (XI (XI XH))))))) :: ((Zpos (XI (XO
    (XO (XO (XO (XI XH))))))) :: ((Zpos (XO (XO (XI (XI (XO (XI
    XH))))))) :: [])))))))))))), (KFlag (((S (S (S (S (S O))))), (VI (Zpos
    XH))) :: []))) :: ((((Zpos (XI (XO (XI (XI (XO XH)))))) :: ((Zpos (XI (XO
    (XI (XI (XO XH)))))) :: ((Zpos (XI (XO (XI (XO (XO (XI
    XH))))))) :: ((Zpos (XO (XI (XI (XI (XO (XI XH))))))) :: ((Zpos (XI (XO
    (XO (XO (XO (XI XH))))))) :: ((Zpos (XO (XI (XO (XO (XO (XI
    XH))))))) :: ((Zpos (XO (XO (XI (XI (XO (XI XH))))))) :: ((Zpos (XI (XO
    (XI (XO (XO (XI XH))))))) :: ((Zpos (XO (XO (XI (XO (XO (XI
    XH))))))) :: []))))))))), (KFlag (((S (S O)), (VI
    Z0)) :: []))) :: ((((Zpos (XI (XO (XI (XI (XO XH)))))) :: ((Zpos (XI (XO
    (XI (XI (XO XH)))))) :: ((Zpos (XO (XI (XI (XI (XO (XI
    XH))))))) :: ((Zpos (XI (XI (XI (XI (XO (XI XH))))))) :: ((Zpos (XI (XO
    (XI (XI (XO XH)))))) :: ((Zpos (XO (XO (XO (XO (XI (XI
    XH))))))) :: ((Zpos (XO (XO (XO (XI (XO (XI XH))))))) :: ((Zpos (XI (XI
    (XI (XI (XO (XI XH))))))) :: ((Zpos (XO (XI (XI (XI (XO (XI
    XH))))))) :: ((Zpos (XI (XO (XO (XI (XI (XI XH))))))) :: [])))))))))),
    (KFlag (((S (S O)), (VI Z0)) :: []))) :: ((((Zpos (XI (XO (XI (XI (XO
    XH)))))) :: ((Zpos (XI (XO (XI (XI (XO XH)))))) :: ((Zpos (XO (XO (XI (XO
    (XO (XI XH))))))) :: ((Zpos (XI (XO (XO (XI (XO (XI XH))))))) :: ((Zpos
    (XI (XI (XO (XO (XI (XI XH))))))) :: ((Zpos (XI (XO (XO (XO (XO (XI
    XH))))))) :: ((Zpos (XO (XI (XO (XO (XO (XI XH))))))) :: ((Zpos (XO (XO
    (XI (XI (XO (XI XH))))))) :: ((Zpos (XI (XO (XI (XO (XO (XI
    XH))))))) :: ((Zpos (XO (XO (XI (XO (XO (XI XH))))))) :: [])))))))))),
    (KFlag (((S (S O)), (VI (Zpos XH))) :: []))) :: ((((Zpos (XI (XO (XI (XI
    (XO XH)))))) :: ((Zpos (XI (XO (XI (XI (XO XH)))))) :: ((Zpos (XO (XO (XO
    (XO (XI (XI XH))))))) :: ((Zpos (XO (XO (XO (XI (XO (XI
    XH))))))) :: ((Zpos (XI (XI (XI (XI (XO (XI XH))))))) :: ((Zpos (XO (XI
    (XI (XI (XO (XI XH))))))) :: ((Zpos (XI (XO (XO (XI (XI (XI
    XH))))))) :: []))))))), (KFlag (((S (S O)), (VI (Zpos
    XH))) :: []))) :: ((((Zpos (XI (XO (XI (XI (XO XH)))))) :: ((Zpos (XI (XO
    (XI (XI (XO XH)))))) :: ((Zpos (XO (XI (XI (XI (XO (XI
    XH))))))) :: ((Zpos (XI (XI (XI (XI (XO (XI XH))))))) :: ((Zpos (XI (XO
    (XI (XI (XO XH)))))) :: ((Zpos (XI (XO (XO (XI (XO (XI
    XH))))))) :: ((Zpos (XO (XI (XI (XI (XO (XI XH))))))) :: ((Zpos (XO (XO
    (XO (XO (XI (XI XH))))))) :: ((Zpos (XI (XO (XI (XO (XI (XI
    XH))))))) :: ((Zpos (XO (XO (XI (XO (XI (XI XH))))))) :: [])))))))))),
    (KFlag (((S (S (S O))), (VI (Zpos XH))) :: []))) :: ((((Zpos (XI (XI (XO
    (XI (XO XH)))))) :: ((Zpos (XI (XI (XO (XO (XI (XI XH))))))) :: [])),
    (KFlag (((S (S (S (S (S (S (S (S (S (S (S (S (S O))))))))))))), (VI
    Z0)) :: []))) :: ((((Zpos (XI (XO (XI (XI (XO XH)))))) :: ((Zpos (XI (XO
    (XI (XI (XO XH)))))) :: ((Zpos (XO (XI (XI (XI (XO (XI
    XH))))))) :: ((Zpos (XI (XI (XI (XI (XO (XI XH))))))) :: ((Zpos (XI (XO
    (XI (XI (XO XH)))))) :: ((Zpos (XI (XI (XO (XO (XI (XI
    XH))))))) :: ((Zpos (XI (XI (XI (XI (XO (XI XH))))))) :: ((Zpos (XO (XI
    (XO (XO (XI (XI XH))))))) :: ((Zpos (XO (XO (XI (XO (XI (XI
    XH))))))) :: []))))))))), (KFlag (((S (S (S (S (S (S (S (S (S (S (S (S (S
    O))))))))))))), (VI Z0)) :: []))) :: ((((Zpos (XI (XO (XI (XI (XO
    XH)))))) :: ((Zpos (XI (XO (XI (XI (XO XH)))))) :: ((Zpos (XO (XO (XI (XO
    (XI (XI XH))))))) :: ((Zpos (XO (XI (XO (XO (XI (XI XH))))))) :: ((Zpos
    (XI (XO (XO (XO (XO (XI XH))))))) :: ((Zpos (XI (XI (XO (XO (XO (XI
    XH))))))) :: ((Zpos (XI (XI (XO (XI (XO (XI XH))))))) :: []))))))),
    (KFlag (((S (S (S (S (S (S (S (S (S (S (S (S (S (S O)))))))))))))), (VI
    (Zpos XH))) :: []))) :: ((((Zpos (XI (XO (XI (XI (XO XH)))))) :: ((Zpos
    (XI (XO (XI (XI (XO XH)))))) :: ((Zpos (XO (XI (XI (XI (XO (XI
    XH))))))) :: ((Zpos (XI (XI (XI (XI (XO (XI XH))))))) :: ((Zpos (XI (XO
    (XI (XI (XO XH)))))) :: ((Zpos (XO (XO (XI (XO (XI (XI
    XH))))))) :: ((Zpos (XO (XI (XO (XO (XI (XI XH))))))) :: ((Zpos (XI (XO
    (XO (XO (XO (XI XH))))))) :: ((Zpos (XI (XI (XO (XO (XO (XI
    XH))))))) :: ((Zpos (XI (XI (XO (XI (XO (XI XH))))))) :: [])))))))))),
    (KFlag (((S (S (S (S (S (S (S (S (S (S (S (S (S (S O)))))))))))))), (VI
    Z0)) :: []))) :: ((((Zpos (XI (XO (XI (XI (XO XH)))))) :: ((Zpos (XI (XO
    (XI (XI (XO XH)))))) :: ((Zpos (XO (XO (XI (XO (XI (XI
    XH))))))) :: ((Zpos (XI (XO (XO (XO (XO (XI XH))))))) :: ((Zpos (XI (XI
    (XO (XO (XO (XI XH))))))) :: []))))), (KFlag (((S (S (S (S (S (S (S (S (S
    (S (S (S (S (S (S O))))))))))))))), (VI (Zpos XH))) :: []))) :: ((((Zpos
    (XI (XO (XI (XI (XO XH)))))) :: ((Zpos (XI (XO (XI (XI (XO
    XH)))))) :: ((Zpos (XO (XI (XI (XI (XO (XI XH))))))) :: ((Zpos (XI (XI
    (XI (XI (XO (XI XH))))))) :: ((Zpos (XI (XO (XI (XI (XO
    XH)))))) :: ((Zpos (XO (XO (XI (XO (XI (XI XH))))))) :: ((Zpos (XI (XO
    (XO (XO (XO (XI XH))))))) :: ((Zpos (XI (XI (XO (XO (XO (XI
    XH))))))) :: [])))))))), (KFlag (((S (S (S (S (S (S (S (S (S (S (S (S (S
    (S (S O))))))))))))))), (VI Z0)) :: []))) :: ((((Zpos (XI (XO (XI (XI (XO
    XH)))))) :: ((Zpos (XI (XO (XI (XI (XO XH)))))) :: ((Zpos (XO (XI (XI (XI
    (XO (XI XH))))))) :: ((Zpos (XI (XI (XI (XI (XO (XI XH))))))) :: ((Zpos
    (XI (XO (XI (XI (XO XH)))))) :: ((Zpos (XO (XO (XI (XO (XI (XI
    XH))))))) :: ((Zpos (XI (XO (XO (XO (XO (XI XH))))))) :: ((Zpos (XI (XO
    (XO (XI (XO (XI XH))))))) :: ((Zpos (XO (XO (XI (XI (XO (XI
    XH))))))) :: []))))))))), (KFlag (((S (S (S (S (S (S (S (S (S (S (S (S (S
    (S (S (S O)))))))))))))))), (VI Z0)) :: []))) :: ((((Zpos (XI (XO (XI (XI
    (XO XH)))))) :: ((Zpos (XI (XO (XI (XI (XO XH)))))) :: ((Zpos (XI (XI (XO
    (XO (XI (XI XH))))))) :: ((Zpos (XI (XO (XI (XI (XO (XI
    XH))))))) :: ((Zpos (XI (XO (XO (XO (XO (XI XH))))))) :: ((Zpos (XO (XI
    (XO (XO (XI (XI XH))))))) :: ((Zpos (XO (XO (XI (XO (XI (XI
    XH))))))) :: ((Zpos (XI (XO (XI (XI (XO XH)))))) :: ((Zpos (XI (XI (XO
    (XO (XO (XI XH))))))) :: ((Zpos (XI (XO (XO (XO (XO (XI
    XH))))))) :: ((Zpos (XI (XI (XO (XO (XI (XI XH))))))) :: ((Zpos (XI (XO
    (XI (XO (XO (XI XH))))))) :: [])))))))))))), (KFlag (((S (S (S (S O)))),
    (VI Z0)) :: []))) :: ((((Zpos (XI (XO (XI (XI (XO XH)))))) :: ((Zpos (XI
    (XO (XO (XI (XO (XI XH))))))) :: [])), (KFlag (((S (S (S (S O)))), (VI
    (Zpos XH))) :: []))) :: ((((Zpos (XI (XO (XI (XI (XO XH)))))) :: ((Zpos
    (XI (XO (XI (XI (XO XH)))))) :: ((Zpos (XI (XO (XO (XI (XO (XI
    XH))))))) :: ((Zpos (XI (XI (XI (XO (XO (XI XH))))))) :: ((Zpos (XO (XI
    (XI (XI (XO (XI XH))))))) :: ((Zpos (XI (XI (XI (XI (XO (XI
    XH))))))) :: ((Zpos (XO (XI (XO (XO (XI (XI XH))))))) :: ((Zpos (XI (XO
    (XI (XO (XO (XI XH))))))) :: ((Zpos (XI (XO (XI (XI (XO
    XH)))))) :: ((Zpos (XI (XI (XO (XO (XO (XI XH))))))) :: ((Zpos (XI (XO
    (XO (XO (XO (XI XH))))))) :: ((Zpos (XI (XI (XO (XO (XI (XI
    XH))))))) :: ((Zpos (XI (XO (XI (XO (XO (XI XH))))))) :: []))))))))))))),
    (KFlag (((S (S (S (S O)))), (VI (Zpos XH))) :: []))) :: ((((Zpos (XI (XI
    (XO (XI (XO XH)))))) :: ((Zpos (XI (XO (XO (XI (XO (XI XH))))))) :: [])),
    (KFlag (((S (S (S (S O)))), (VI (Zpos (XO XH)))) :: []))) :: ((((Zpos (XI
    (XO (XI (XI (XO XH)))))) :: ((Zpos (XI (XO (XI (XI (XO XH)))))) :: ((Zpos
    (XO (XI (XI (XI (XO (XI XH))))))) :: ((Zpos (XI (XI (XI (XI (XO (XI
    XH))))))) :: ((Zpos (XI (XO (XI (XI (XO XH)))))) :: ((Zpos (XI (XO (XO
    (XI (XO (XI XH))))))) :: ((Zpos (XI (XI (XI (XO (XO (XI
    XH))))))) :: ((Zpos (XO (XI (XI (XI (XO (XI XH))))))) :: ((Zpos (XI (XI
    (XI (XI (XO (XI XH))))))) :: ((Zpos (XO (XI (XO (XO (XI (XI
    XH))))))) :: ((Zpos (XI (XO (XI (XO (XO (XI XH))))))) :: ((Zpos (XI (XO
    (XI (XI (XO XH)))))) :: ((Zpos (XI (XI (XO (XO (XO (XI
    XH))))))) :: ((Zpos (XI (XO (XO (XO (XO (XI XH))))))) :: ((Zpos (XI (XI
    (XO (XO (XI (XI XH))))))) :: ((Zpos (XI (XO (XI (XO (XO (XI
    XH))))))) :: [])))))))))))))))), (KFlag (((S (S (S (S O)))), (VI (Zpos
    (XO XH)))) :: []))) :: ((((Zpos (XI (XI (XO (XI (XO XH)))))) :: ((Zpos
    (XI (XO (XI (XI (XO (XI XH))))))) :: [])), (KFlag (((S (S (S (S (S (S (S
    (S (S (S (S (S (S (S (S (S (S O))))))))))))))))), (VI
    Z0)) :: []))) :: ((((Zpos (XI (XO (XI (XI (XO XH)))))) :: ((Zpos (XI (XO
    (XI (XI (XO XH)))))) :: ((Zpos (XO (XI (XI (XI (XO (XI
    XH))))))) :: ((Zpos (XI (XI (XI (XI (XO (XI XH))))))) :: ((Zpos (XI (XO
    (XI (XI (XO XH)))))) :: ((Zpos (XI (XO (XI (XI (XO (XI
    XH))))))) :: ((Zpos (XI (XO (XI (XO (XI (XI XH))))))) :: ((Zpos (XO (XO
    (XI (XI (XO (XI XH))))))) :: ((Zpos (XO (XO (XI (XO (XI (XI
    XH))))))) :: ((Zpos (XI (XO (XO (XI (XO (XI XH))))))) :: [])))))))))),
    (KFlag (((S (S (S (S (S (S (S (S (S (S (S (S (S (S (S (S (S
    O))))))))))))))))), (VI Z0)) :: []))) :: ((((Zpos (XI (XO (XI (XI (XO
    XH)))))) :: ((Zpos (XI (XO (XI (XI (XO XH)))))) :: ((Zpos (XI (XO (XO (XO
    (XO (XI XH))))))) :: ((Zpos (XO (XI (XI (XI (XO (XI XH))))))) :: ((Zpos
    (XI (XI (XO (XO (XI (XI XH))))))) :: ((Zpos (XI (XO (XO (XI (XO (XI
    XH))))))) :: [])))))), (KFlag (((S (S (S (S (S (S (S (S (S (S (S (S (S (S
    (S (S (S (S O)))))))))))))))))), (VI (Zpos XH))) :: []))) :: ((((Zpos (XI
    (XO (XI (XI (XO XH)))))) :: ((Zpos (XI (XO (XI (XI (XO XH)))))) :: ((Zpos
    (XO (XI (XI (XI (XO (XI XH))))))) :: ((Zpos (XI (XI (XI (XI (XO (XI
    XH))))))) :: ((Zpos (XI (XO (XI (XI (XO XH)))))) :: ((Zpos (XI (XO (XO
    (XO (XO (XI XH))))))) :: ((Zpos (XO (XI (XI (XI (XO (XI
    XH))))))) :: ((Zpos (XI (XI (XO (XO (XI (XI XH))))))) :: ((Zpos (XI (XO
    (XO (XI (XO (XI XH))))))) :: []))))))))), (KFlag (((S (S (S (S (S (S (S
    (S (S (S (S (S (S (S (S (S (S (S O)))))))))))))))))), (VI
    Z0)) :: []))) :: ((((Zpos (XI (XO (XI (XI (XO XH)))))) :: ((Zpos (XI (XO
    (XI (XI (XO XH)))))) :: ((Zpos (XO (XI (XI (XI (XO (XI
    XH))))))) :: ((Zpos (XI (XI (XI (XI (XO (XI XH))))))) :: ((Zpos (XI (XO
    (XI (XI (XO XH)))))) :: ((Zpos (XI (XO (XI (XI (XO (XI
    XH))))))) :: ((Zpos (XI (XI (XI (XI (XO (XI XH))))))) :: ((Zpos (XI (XO
    (XI (XO (XI (XI XH))))))) :: ((Zpos (XI (XI (XO (XO (XI (XI
    XH))))))) :: ((Zpos (XI (XO (XI (XO (XO (XI XH))))))) :: [])))))))))),
    (KFlag (((S (S (S (S (S (S (S (S (S (S (S (S (S (S (S (S (S (S (S (S (S
    (S (S (S (S (S (S (S (S (S (S (S (S (S (S (S (S (S (S (S (S (S (S (S (S
    (S O)))))))))))))))))))))))))))))))))))))))))))))), (VI
    Z0)) :: []))) :: ((((Zpos (XI (XO (XI (XI (XO XH)))))) :: ((Zpos (XI (XO
    (XI (XI (XO XH)))))) :: ((Zpos (XO (XI (XO (XO (XO (XI
    XH))))))) :: ((Zpos (XO (XO (XI (XI (XO (XI XH))))))) :: ((Zpos (XI (XO
    (XO (XO (XO (XI XH))))))) :: ((Zpos (XI (XI (XO (XO (XO (XI
    XH))))))) :: ((Zpos (XI (XI (XO (XI (XO (XI XH))))))) :: []))))))),
    (KFlag (((S (S (S (S (S (S (S (S (S (S (S (S (S (S (S (S (S (S (S (S (S
    (S (S (S (S (S (S (S (S (S (S (S (S (S (S (S (S (S (S (S (S (S (S (S (S
    (S (S (S O)))))))))))))))))))))))))))))))))))))))))))))))), (VI (Zpos
    XH))) :: []))) :: ((((Zpos (XI (XO (XI (XI (XO XH)))))) :: ((Zpos (XI (XO
    (XI (XI (XO XH)))))) :: ((Zpos (XO (XI (XI (XI (XO (XI
    XH))))))) :: ((Zpos (XI (XI (XI (XI (XO (XI XH))))))) :: ((Zpos (XI (XO
    (XI (XI (XO XH)))))) :: ((Zpos (XO (XI (XO (XO (XO (XI
    XH))))))) :: ((Zpos (XO (XO (XI (XI (XO (XI XH))))))) :: ((Zpos (XI (XO
    (XO (XO (XO (XI XH))))))) :: ((Zpos (XI (XI (XO (XO (XO (XI
    XH))))))) :: ((Zpos (XI (XI (XO (XI (XO (XI XH))))))) :: [])))))))))),
    (KFlag (((S (S (S (S (S (S (S (S (S (S (S (S (S (S (S (S (S (S (S (S (S
    (S (S (S (S (S (S (S (S (S (S (S (S (S (S (S (S (S (S (S (S (S (S (S (S
    (S (S (S O)))))))))))))))))))))))))))))))))))))))))))))))), (VI
    Z0)) :: []))) :: ((((Zpos (XI (XO (XI (XI (XO XH)))))) :: ((Zpos (XI (XO
    (XI (XI (XO XH)))))) :: ((Zpos (XO (XI (XO (XO (XO (XI
    XH))))))) :: ((Zpos (XI (XI (XI (XI (XO (XI XH))))))) :: ((Zpos (XO (XO
    (XI (XI (XO (XI XH))))))) :: ((Zpos (XO (XO (XI (XO (XO (XI
    XH))))))) :: [])))))), (KFlag (((S (S (S (S (S (S (S (S (S (S (S (S (S (S
    (S (S (S (S (S (S (S (S (S (S (S (S (S (S (S (S (S (S (S (S (S (S (S (S
    (S (S (S (S (S (S (S (S (S
    O))))))))))))))))))))))))))))))))))))))))))))))), (VI (Zpos
    XH))) :: []))) :: ((((Zpos (XI (XO (XI (XI (XO XH)))))) :: ((Zpos (XI (XO
    (XI (XI (XO XH)))))) :: ((Zpos (XO (XI (XI (XI (XO (XI
    XH))))))) :: ((Zpos (XI (XI (XI (XI (XO (XI XH))))))) :: ((Zpos (XI (XO
    (XI (XI (XO XH)))))) :: ((Zpos (XO (XI (XO (XO (XO (XI
    XH))))))) :: ((Zpos (XI (XI (XI (XI (XO (XI XH))))))) :: ((Zpos (XO (XO
    (XI (XI (XO (XI XH))))))) :: ((Zpos (XO (XO (XI (XO (XO (XI
    XH))))))) :: []))))))))), (KFlag (((S (S (S (S (S (S (S (S (S (S (S (S (S
    (S (S (S (S (S (S (S (S (S (S (S (S (S (S (S (S (S (S (S (S (S (S (S (S
    (S (S (S (S (S (S (S (S (S (S
    O))))))))))))))))))))))))))))))))))))))))))))))), (VI
    Z0)) :: []))) :: ((((Zpos (XI (XO (XI (XI (XO XH)))))) :: ((Zpos (XI (XO
    (XI (XI (XO XH)))))) :: ((Zpos (XO (XI (XO (XO (XI (XI
    XH))))))) :: ((Zpos (XI (XO (XI (XO (XO (XI XH))))))) :: ((Zpos (XO (XI
    (XI (XO (XI (XI XH))))))) :: ((Zpos (XI (XO (XI (XO (XO (XI
    XH))))))) :: ((Zpos (XO (XI (XO (XO (XI (XI XH))))))) :: ((Zpos (XI (XI
    (XO (XO (XI (XI XH))))))) :: ((Zpos (XI (XO (XI (XO (XO (XI
    XH))))))) :: []))))))))), (KFlag (((S (S (S (S (S (S (S (S (S (S (S (S (S
    (S (S (S (S (S (S O))))))))))))))))))), (VI (Zpos
    XH))) :: []))) :: ((((Zpos (XI (XO (XI (XI (XO XH)))))) :: ((Zpos (XI (XO
    (XI (XI (XO XH)))))) :: ((Zpos (XO (XI (XI (XI (XO (XI
    XH))))))) :: ((Zpos (XI (XI (XI (XI (XO (XI XH))))))) :: ((Zpos (XI (XO
    (XI (XI (XO XH)))))) :: ((Zpos (XO (XI (XO (XO (XI (XI
    XH))))))) :: ((Zpos (XI (XO (XI (XO (XO (XI XH))))))) :: ((Zpos (XO (XI
    (XI (XO (XI (XI XH))))))) :: ((Zpos (XI (XO (XI (XO (XO (XI
    XH))))))) :: ((Zpos (XO (XI (XO (XO (XI (XI XH))))))) :: ((Zpos (XI (XI
    (XO (XO (XI (XI XH))))))) :: ((Zpos (XI (XO (XI (XO (XO (XI
    XH))))))) :: [])))))))))))), (KFlag (((S (S (S (S (S (S (S (S (S (S (S (S
    (S (S (S (S (S (S (S O))))))))))))))))))), (VI Z0)) :: []))) :: ((((Zpos
    (XI (XO (XI (XI (XO XH)))))) :: ((Zpos (XI (XO (XI (XI (XO
    XH)))))) :: ((Zpos (XI (XI (XO (XO (XO (XI XH))))))) :: ((Zpos (XI (XO
    (XO (XI (XI (XI XH))))))) :: ((Zpos (XI (XI (XO (XO (XO (XI
    XH))))))) :: ((Zpos (XO (XO (XI (XI (XO (XI XH))))))) :: ((Zpos (XI (XO
    (XI (XO (XO (XI XH))))))) :: []))))))), (KFlag (((S (S (S (S (S (S (S (S
    (S (S (S (S (S (S (S (S (S (S (S (S O)))))))))))))))))))), (VI (Zpos
    XH))) :: []))) :: ((((Zpos (XI (XO (XI (XI (XO XH)))))) :: ((Zpos (XI (XO
    (XI (XI (XO XH)))))) :: ((Zpos (XO (XI (XI (XI (XO (XI
    XH))))))) :: ((Zpos (XI (XI (XI (XI (XO (XI XH))))))) :: ((Zpos (XI (XO
    (XI (XI (XO XH)))))) :: ((Zpos (XI (XI (XO (XO (XO (XI
    XH))))))) :: ((Zpos (XI (XO (XO (XI (XI (XI XH))))))) :: ((Zpos (XI (XI
    (XO (XO (XO (XI XH))))))) :: ((Zpos (XO (XO (XI (XI (XO (XI
    XH))))))) :: ((Zpos (XI (XO (XI (XO (XO (XI XH))))))) :: [])))))))))),
    (KFlag (((S (S (S (S (S (S (S (S (S (S (S (S (S (S (S (S (S (S (S (S
    O)))))))))))))))))))), (VI Z0)) :: []))) :: ((((Zpos (XI (XO (XI (XI (XO
    XH)))))) :: ((Zpos (XI (XO (XI (XI (XO XH)))))) :: ((Zpos (XO (XO (XO (XI
    (XO (XI XH))))))) :: ((Zpos (XI (XO (XO (XI (XO (XI XH))))))) :: ((Zpos
    (XI (XI (XI (XO (XO (XI XH))))))) :: ((Zpos (XO (XO (XO (XI (XO (XI
    XH))))))) :: ((Zpos (XO (XO (XI (XI (XO (XI XH))))))) :: ((Zpos (XI (XO
    (XO (XI (XO (XI XH))))))) :: ((Zpos (XI (XI (XI (XO (XO (XI
    XH))))))) :: ((Zpos (XO (XO (XO (XI (XO (XI XH))))))) :: ((Zpos (XO (XO
    (XI (XO (XI (XI XH))))))) :: ((Zpos (XI (XO (XI (XI (XO
    XH)))))) :: ((Zpos (XO (XO (XI (XI (XO (XI XH))))))) :: ((Zpos (XI (XO
    (XO (XI (XO (XI XH))))))) :: ((Zpos (XO (XI (XI (XI (XO (XI
    XH))))))) :: ((Zpos (XI (XO (XI (XO (XO (XI
    XH))))))) :: [])))))))))))))))), (KFlag (((S (S (S (S (S (S (S (S (S (S
    (S (S (S (S (S (S (S (S (S (S (S (S (S (S (S (S (S (S (S (S (S (S (S (S
    (S (S (S (S (S (S (S (S (S (S (S (S (S (S (S (S (S (S (S (S (S
    O))))))))))))))))))))))))))))))))))))))))))))))))))))))), (VI (Zpos
    XH))) :: []))) :: ((((Zpos (XI (XO (XI (XI (XO XH)))))) :: ((Zpos (XI (XO
    (XI (XI (XO XH)))))) :: ((Zpos (XO (XI (XI (XI (XO (XI
    XH))))))) :: ((Zpos (XI (XI (XI (XI (XO (XI XH))))))) :: ((Zpos (XI (XO
    (XI (XI (XO XH)))))) :: ((Zpos (XO (XO (XO (XI (XO (XI
    XH))))))) :: ((Zpos (XI (XO (XO (XI (XO (XI XH))))))) :: ((Zpos (XI (XI
    (XI (XO (XO (XI XH))))))) :: ((Zpos (XO (XO (XO (XI (XO (XI
    XH))))))) :: ((Zpos (XO (XO (XI (XI (XO (XI XH))))))) :: ((Zpos (XI (XO
    (XO (XI (XO (XI XH))))))) :: ((Zpos (XI (XI (XI (XO (XO (XI
    XH))))))) :: ((Zpos (XO (XO (XO (XI (XO (XI XH))))))) :: ((Zpos (XO (XO
    (XI (XO (XI (XI XH))))))) :: ((Zpos (XI (XO (XI (XI (XO
    XH)))))) :: ((Zpos (XO (XO (XI (XI (XO (XI XH))))))) :: ((Zpos (XI (XO
    (XO (XI (XO (XI XH))))))) :: ((Zpos (XO (XI (XI (XI (XO (XI
    XH))))))) :: ((Zpos (XI (XO (XI (XO (XO (XI
    XH))))))) :: []))))))))))))))))))), (KFlag (((S (S (S (S (S (S (S (S (S
    (S (S (S (S (S (S (S (S (S (S (S (S (S (S (S (S (S (S (S (S (S (S (S (S
    (S (S (S (S (S (S (S (S (S (S (S (S (S (S (S (S (S (S (S (S (S (S
    O))))))))))))))))))))))))))))))))))))))))))))))))))))))), (VI
    Z0)) :: []))) :: ((((Zpos (XI (XO (XI (XI (XO XH)))))) :: ((Zpos (XI (XO
    (XI (XI (XO XH)))))) :: ((Zpos (XI (XI (XI (XO (XI (XI
    XH))))))) :: ((Zpos (XO (XI (XO (XO (XI (XI XH))))))) :: ((Zpos (XI (XO
    (XO (XO (XO (XI XH))))))) :: ((Zpos (XO (XO (XO (XO (XI (XI
    XH))))))) :: [])))))), (KFlag (((S (S (S (S (S (S (S (S (S (S (S (S (S (S
    (S (S (S (S (S (S (S (S (S (S (S (S (S (S (S (S (S (S (S (S (S (S (S (S
    (S (S (S (S (S (S (S O))))))))))))))))))))))))))))))))))))))))))))), (VI
    (Zpos XH))) :: []))) :: ((((Zpos (XI (XO (XI (XI (XO XH)))))) :: ((Zpos
    (XI (XO (XI (XI (XO XH)))))) :: ((Zpos (XO (XI (XI (XI (XO (XI
    XH))))))) :: ((Zpos (XI (XI (XI (XI (XO (XI XH))))))) :: ((Zpos (XI (XO
    (XI (XI (XO XH)))))) :: ((Zpos (XI (XI (XI (XO (XI (XI
    XH))))))) :: ((Zpos (XO (XI (XO (XO (XI (XI XH))))))) :: ((Zpos (XI (XO
    (XO (XO (XO (XI XH))))))) :: ((Zpos (XO (XO (XO (XO (XI (XI
    XH))))))) :: []))))))))), (KFlag (((S (S (S (S (S (S (S (S (S (S (S (S (S
    (S (S (S (S (S (S (S (S (S (S (S (S (S (S (S (S (S (S (S (S (S (S (S (S
    (S (S (S (S (S (S (S (S O))))))))))))))))))))))))))))))))))))))))))))),
    (VI Z0)) :: []))) :: ((((Zpos (XI (XO (XI (XI (XO XH)))))) :: ((Zpos (XI
    (XO (XI (XI (XO XH)))))) :: ((Zpos (XI (XO (XI (XI (XO (XI
    XH))))))) :: ((Zpos (XI (XO (XI (XO (XI (XI XH))))))) :: ((Zpos (XO (XO
    (XI (XI (XO (XI XH))))))) :: ((Zpos (XO (XO (XI (XO (XI (XI
    XH))))))) :: ((Zpos (XI (XO (XO (XI (XO (XI XH))))))) :: ((Zpos (XI (XO
    (XI (XI (XO XH)))))) :: ((Zpos (XO (XO (XI (XI (XO (XI
    XH))))))) :: ((Zpos (XI (XO (XO (XI (XO (XI XH))))))) :: ((Zpos (XO (XI
    (XI (XI (XO (XI XH))))))) :: ((Zpos (XI (XO (XI (XO (XO (XI
    XH))))))) :: [])))))))))))), (KFlag (((S (S (S (S (S (S (S (S (S (S (S (S
    (S (S (S (S (S (S (S (S (S (S (S (S (S (S (S (S (S (S (S (S (S (S (S (S
    (S (S (S (S (S (S (S (S (S (S (S (S (S (S (S (S (S
    O))))))))))))))))))))))))))))))))))))))))))))))))))))), (VI (Zpos
    XH))) :: []))) :: ((((Zpos (XI (XO (XI (XI (XO XH)))))) :: ((Zpos (XI (XO
    (XI (XI (XO XH)))))) :: ((Zpos (XO (XI (XI (XI (XO (XI
    XH))))))) :: ((Zpos (XI (XI (XI (XI (XO (XI XH))))))) :: ((Zpos (XI (XO
    (XI (XI (XO XH)))))) :: ((Zpos (XI (XO (XI (XI (XO (XI
    XH))))))) :: ((Zpos (XI (XO (XI (XO (XI (XI XH))))))) :: ((Zpos (XO (XO
    (XI (XI (XO (XI XH))))))) :: ((Zpos (XO (XO (XI (XO (XI (XI
    XH))))))) :: ((Zpos (XI (XO (XO (XI (XO (XI XH))))))) :: ((Zpos (XI (XO
    (XI (XI (XO XH)))))) :: ((Zpos (XO (XO (XI (XI (XO (XI
    XH))))))) :: ((Zpos (XI (XO (XO (XI (XO (XI XH))))))) :: ((Zpos (XO (XI
    (XI (XI (XO (XI XH))))))) :: ((Zpos (XI (XO (XI (XO (XO (XI
    XH))))))) :: []))))))))))))))), (KFlag (((S (S (S (S (S (S (S (S (S (S (S
    (S (S (S (S (S (S (S (S (S (S (S (S (S (S (S (S (S (S (S (S (S (S (S (S
    (S (S (S (S (S (S (S (S (S (S (S (S (S (S (S (S (S (S
    O))))))))))))))))))))))))))))))))))))))))))))))))))))), (VI
    Z0)) :: []))) :: ((((Zpos (XI (XO (XI (XI (XO XH)))))) :: ((Zpos (XI (XO
    (XI (XI (XO XH)))))) :: ((Zpos (XI (XI (XO (XI (XO (XI
    XH))))))) :: ((Zpos (XI (XO (XI (XO (XO (XI XH))))))) :: ((Zpos (XI (XO
    (XI (XO (XO (XI XH))))))) :: ((Zpos (XO (XO (XO (XO (XI (XI
    XH))))))) :: ((Zpos (XI (XO (XI (XI (XO XH)))))) :: ((Zpos (XO (XI (XO
    (XO (XI (XI XH))))))) :: ((Zpos (XI (XO (XO (XI (XO (XI
    XH))))))) :: ((Zpos (XI (XI (XI (XO (XO (XI XH))))))) :: ((Zpos (XO (XO
    (XO (XI (XO (XI XH))))))) :: ((Zpos (XO (XO (XI (XO (XI (XI
    XH))))))) :: [])))))))))))), (KFlag (((S (S (S (S (S (S (S (S (S (S (S (S
    (S (S (S (S (S (S (S (S (S (S (S (S (S (S (S (S (S (S (S (S (S (S (S (S
    (S (S (S (S (S (S (S (S (S (S (S (S (S (S (S (S
    O)))))))))))))))))))))))))))))))))))))))))))))))))))), (VI (Zpos
    XH))) :: []))) :: ((((Zpos (XI (XO (XI (XI (XO XH)))))) :: ((Zpos (XI (XO
    (XI (XI (XO XH)))))) :: ((Zpos (XO (XI (XI (XI (XO (XI
    XH))))))) :: ((Zpos (XI (XI (XI (XI (XO (XI XH))))))) :: ((Zpos (XI (XO
    (XI (XI (XO XH)))))) :: ((Zpos (XI (XI (XO (XI (XO (XI
    XH))))))) :: ((Zpos (XI (XO (XI (XO (XO (XI XH))))))) :: ((Zpos (XI (XO
    (XI (XO (XO (XI XH))))))) :: ((Zpos (XO (XO (XO (XO (XI (XI
    XH))))))) :: ((Zpos (XI (XO (XI (XI (XO XH)))))) :: ((Zpos (XO (XI (XO
    (XO (XI (XI XH))))))) :: ((Zpos (XI (XO (XO (XI (XO (XI
    XH))))))) :: ((Zpos (XI (XI (XI (XO (XO (XI XH))))))) :: ((Zpos (XO (XO
    (XO (XI (XO (XI XH))))))) :: ((Zpos (XO (XO (XI (XO (XI (XI
    XH))))))) :: []))))))))))))))), (KFlag (((S (S (S (S (S (S (S (S (S (S (S
    (S (S (S (S (S (S (S (S (S (S (S (S (S (S (S (S (S (S (S (S (S (S (S (S
    (S (S (S (S (S (S (S (S (S (S (S (S (S (S (S (S (S
    O)))))))))))))))))))))))))))))))))))))))))))))))))))), (VI
    Z0)) :: []))) :: ((((Zpos (XI (XO (XI (XI (XO XH)))))) :: ((Zpos (XI (XO
    (XI (XI (XO XH)))))) :: ((Zpos (XO (XO (XO (XI (XO (XI
    XH))))))) :: ((Zpos (XI (XI (XO (XO (XI (XI XH))))))) :: ((Zpos (XI (XI
    (XO (XO (XO (XI XH))))))) :: ((Zpos (XO (XI (XO (XO (XI (XI
    XH))))))) :: ((Zpos (XI (XI (XI (XI (XO (XI XH))))))) :: ((Zpos (XO (XO
    (XI (XI (XO (XI XH))))))) :: ((Zpos (XO (XO (XI (XI (XO (XI
    XH))))))) :: []))))))))), (KFlag (((S (S (S (S (S (S (S (S (S (S (S (S (S
    (S (S (S (S (S (S (S (S (S (S (S (S (S (S (S (S (S (S (S (S (S (S (S (S
    (S (S (S (S (S (S (S (S (S (S (S (S (S (S
    O))))))))))))))))))))))))))))))))))))))))))))))))))), (VI (Zpos
    XH))) :: []))) :: ((((Zpos (XI (XO (XI (XI (XO XH)))))) :: ((Zpos (XI (XO
    (XI (XI (XO XH)))))) :: ((Zpos (XO (XI (XI (XI (XO (XI
    XH))))))) :: ((Zpos (XI (XI (XI (XI (XO (XI XH))))))) :: ((Zpos (XI (XO
    (XI (XI (XO XH)))))) :: ((Zpos (XO (XO (XO (XI (XO (XI
    XH))))))) :: ((Zpos (XI (XI (XO (XO (XI (XI XH))))))) :: ((Zpos (XI (XI
    (XO (XO (XO (XI XH))))))) :: ((Zpos (XO (XI (XO (XO (XI (XI
    XH))))))) :: ((Zpos (XI (XI (XI (XI (XO (XI XH))))))) :: ((Zpos (XO (XO
    (XI (XI (XO (XI XH))))))) :: ((Zpos (XO (XO (XI (XI (XO (XI
    XH))))))) :: [])))))))))))), (KFlag (((S (S (S (S (S (S (S (S (S (S (S (S
    (S (S (S (S (S (S (S (S (S (S (S (S (S (S (S (S (S (S (S (S (S (S (S (S
    (S (S (S (S (S (S (S (S (S (S (S (S (S (S (S
    O))))))))))))))))))))))))))))))))))))))))))))))))))), (VI
    Z0)) :: []))) :: ((((Zpos (XI (XO (XI (XI (XO XH)))))) :: ((Zpos (XI (XO
    (XI (XI (XO XH)))))) :: ((Zpos (XO (XI (XI (XO (XO (XI
    XH))))))) :: ((Zpos (XI (XO (XO (XI (XO (XI XH))))))) :: ((Zpos (XO (XO
    (XI (XI (XO (XI XH))))))) :: ((Zpos (XI (XO (XI (XO (XO (XI
    XH))))))) :: ((Zpos (XO (XO (XO (XO (XI (XI XH))))))) :: ((Zpos (XI (XO
    (XO (XO (XO (XI XH))))))) :: ((Zpos (XO (XO (XI (XO (XI (XI
    XH))))))) :: ((Zpos (XO (XO (XO (XI (XO (XI XH))))))) :: ((Zpos (XI (XO
    (XI (XI (XO XH)))))) :: ((Zpos (XI (XI (XI (XO (XI (XI
    XH))))))) :: ((Zpos (XI (XI (XI (XI (XO (XI XH))))))) :: ((Zpos (XO (XI
    (XO (XO (XI (XI XH))))))) :: ((Zpos (XO (XO (XI (XO (XO (XI
    XH))))))) :: []))))))))))))))), (KFlag (((S (S (S (S (S (S (S (S (S (S (S
    (S (S (S (S (S (S (S (S (S (S (S (S (S (S (S (S (S (S (S (S (S (S (S (S
    (S (S (S (S (S (S (S (S (S (S (S (S (S (S (S (S (S (S (S
    O)))))))))))))))))))))))))))))))))))))))))))))))))))))), (VI (Zpos
    XH))) :: []))) :: ((((Zpos (XI (XO (XI (XI (XO XH)))))) :: ((Zpos (XI (XO
    (XI (XI (XO XH)))))) :: ((Zpos (XO (XI (XI (XI (XO (XI
    XH))))))) :: ((Zpos (XI (XI (XI (XI (XO (XI XH))))))) :: ((Zpos (XI (XO
    (XI (XI (XO XH)))))) :: ((Zpos (XO (XI (XI (XO (XO (XI
    XH))))))) :: ((Zpos (XI (XO (XO (XI (XO (XI XH))))))) :: ((Zpos (XO (XO
    (XI (XI (XO (XI XH))))))) :: ((Zpos (XI (XO (XI (XO (XO (XI
    XH))))))) :: ((Zpos (XO (XO (XO (XO (XI (XI XH))))))) :: ((Zpos (XI (XO
    (XO (XO (XO (XI XH))))))) :: ((Zpos (XO (XO (XI (XO (XI (XI
    XH))))))) :: ((Zpos (XO (XO (XO (XI (XO (XI XH))))))) :: ((Zpos (XI (XO
    (XI (XI (XO XH)))))) :: ((Zpos (XI (XI (XI (XO (XI (XI
    XH))))))) :: ((Zpos (XI (XI (XI (XI (XO (XI XH))))))) :: ((Zpos (XO (XI
    (XO (XO (XI (XI XH))))))) :: ((Zpos (XO (XO (XI (XO (XO (XI
    XH))))))) :: [])))))))))))))))))), (KFlag (((S (S (S (S (S (S (S (S (S (S
    (S (S (S (S (S (S (S (S (S (S (S (S (S (S (S (S (S (S (S (S (S (S (S (S
    (S (S (S (S (S (S (S (S (S (S (S (S (S (S (S (S (S (S (S (S
    O)))))))))))))))))))))))))))))))))))))))))))))))))))))), (VI
    Z0)) :: []))) :: ((((Zpos (XI (XO (XI (XI (XO XH)))))) :: ((Zpos (XI (XO
    (XI (XI (XO XH)))))) :: ((Zpos (XO (XI (XI (XI (XO (XI
    XH))))))) :: ((Zpos (XI (XI (XI (XI (XO (XI XH))))))) :: ((Zpos (XI (XO
    (XI (XI (XO XH)))))) :: ((Zpos (XI (XO (XO (XI (XO (XI
    XH))))))) :: ((Zpos (XO (XI (XI (XI (XO (XI XH))))))) :: ((Zpos (XO (XI
    (XI (XO (XO (XI XH))))))) :: ((Zpos (XI (XI (XI (XI (XO (XI
    XH))))))) :: ((Zpos (XI (XO (XI (XI (XO XH)))))) :: ((Zpos (XI (XI (XO
    (XO (XO (XI XH))))))) :: ((Zpos (XI (XI (XI (XI (XO (XI
    XH))))))) :: ((Zpos (XI (XO (XI (XI (XO (XI XH))))))) :: ((Zpos (XI (XO
    (XI (XI (XO (XI XH))))))) :: ((Zpos (XI (XO (XO (XO (XO (XI
    XH))))))) :: ((Zpos (XO (XI (XI (XI (XO (XI XH))))))) :: ((Zpos (XO (XO
    (XI (XO (XO (XI XH))))))) :: []))))))))))))))))), (KFlag (((S (S (S (S (S
    (S (S (S (S (S (S (S (S (S (S (S (S (S (S (S (S (S (S (S (S (S (S (S (S
    (S (S (S (S (S (S (S (S (S (S (S (S (S (S (S (S (S (S (S (S (S (S (S (S
    (S (S (S (S (S (S
    O))))))))))))))))))))))))))))))))))))))))))))))))))))))))))), (VL
    [])) :: []))) :: ((((Zpos (XI (XO (XI (XI (XO XH)))))) :: ((Zpos (XI (XO
    (XO (XO (XI XH)))))) :: [])), (KFlag (((S (S (S (S (S (S (S (S (S (S (S
    (S (S (S (S (S (S (S (S (S (S (S O)))))))))))))))))))))), (VI (Zpos
    XH))) :: []))) :: ((((Zpos (XI (XO (XI (XI (XO XH)))))) :: ((Zpos (XI (XO
    (XI (XI (XO XH)))))) :: ((Zpos (XI (XI (XO (XO (XI (XI
    XH))))))) :: ((Zpos (XI (XO (XI (XO (XO (XI XH))))))) :: ((Zpos (XO (XO
    (XI (XI (XO (XI XH))))))) :: ((Zpos (XI (XO (XI (XO (XO (XI
    XH))))))) :: ((Zpos (XI (XI (XO (XO (XO (XI XH))))))) :: ((Zpos (XO (XO
    (XI (XO (XI (XI XH))))))) :: ((Zpos (XI (XO (XI (XI (XO
    XH)))))) :: ((Zpos (XI (XO (XO (XO (XI XH)))))) :: [])))))))))), (KFlag
    (((S (S (S (S (S (S (S (S (S (S (S (S (S (S (S (S (S (S (S (S (S (S
    O)))))))))))))))))))))), (VI (Zpos XH))) :: []))) :: ((((Zpos (XI (XI (XO
    (XI (XO XH)))))) :: ((Zpos (XI (XO (XO (XO (XI XH)))))) :: [])), (KFlag
    (((S (S (S (S (S (S (S (S (S (S (S (S (S (S (S (S (S (S (S (S (S (S
    O)))))))))))))))))))))), (VI Z0)) :: []))) :: ((((Zpos (XI (XO (XI (XI
    (XO XH)))))) :: ((Zpos (XI (XO (XI (XI (XO XH)))))) :: ((Zpos (XO (XI (XI
    (XI (XO (XI XH))))))) :: ((Zpos (XI (XI (XI (XI (XO (XI
    XH))))))) :: ((Zpos (XI (XO (XI (XI (XO XH)))))) :: ((Zpos (XI (XI (XO
    (XO (XI (XI XH))))))) :: ((Zpos (XI (XO (XI (XO (XO (XI
    XH))))))) :: ((Zpos (XO (XO (XI (XI (XO (XI XH))))))) :: ((Zpos (XI (XO
    (XI (XO (XO (XI XH))))))) :: ((Zpos (XI (XI (XO (XO (XO (XI
    XH))))))) :: ((Zpos (XO (XO (XI (XO (XI (XI XH))))))) :: ((Zpos (XI (XO
    (XI (XI (XO XH)))))) :: ((Zpos (XI (XO (XO (XO (XI
    XH)))))) :: []))))))))))))), (KFlag (((S (S (S (S (S (S (S (S (S (S (S (S
    (S (S (S (S (S (S (S (S (S (S O)))))))))))))))))))))), (VI
    Z0)) :: []))) :: ((((Zpos (XI (XO (XI (XI (XO XH)))))) :: ((Zpos (XO (XO
    (XO (XO (XI XH)))))) :: [])), (KFlag (((S (S (S (S (S (S (S (S (S (S (S
    (S (S (S (S (S (S (S (S (S (S (S (S O))))))))))))))))))))))), (VI (Zpos
    XH))) :: []))) :: ((((Zpos (XI (XO (XI (XI (XO XH)))))) :: ((Zpos (XI (XO
    (XI (XI (XO XH)))))) :: ((Zpos (XI (XO (XI (XO (XO (XI
    XH))))))) :: ((Zpos (XO (XO (XO (XI (XI (XI XH))))))) :: ((Zpos (XI (XO
    (XO (XI (XO (XI XH))))))) :: ((Zpos (XO (XO (XI (XO (XI (XI
    XH))))))) :: ((Zpos (XI (XO (XI (XI (XO XH)))))) :: ((Zpos (XO (XO (XO
    (XO (XI XH)))))) :: [])))))))), (KFlag (((S (S (S (S (S (S (S (S (S (S (S
    (S (S (S (S (S (S (S (S (S (S (S (S O))))))))))))))))))))))), (VI (Zpos
    XH))) :: []))) :: ((((Zpos (XI (XI (XO (XI (XO XH)))))) :: ((Zpos (XO (XO
    (XO (XO (XI XH)))))) :: [])), (KFlag (((S (S (S (S (S (S (S (S (S (S (S
    (S (S (S (S (S (S (S (S (S (S (S (S O))))))))))))))))))))))), (VI
    Z0)) :: []))) :: ((((Zpos (XI (XO (XI (XI (XO XH)))))) :: ((Zpos (XI (XO
    (XI (XI (XO XH)))))) :: ((Zpos (XO (XI (XI (XI (XO (XI
    XH))))))) :: ((Zpos (XI (XI (XI (XI (XO (XI XH))))))) :: ((Zpos (XI (XO
    (XI (XI (XO XH)))))) :: ((Zpos (XI (XO (XI (XO (XO (XI
    XH))))))) :: ((Zpos (XO (XO (XO (XI (XI (XI XH))))))) :: ((Zpos (XI (XO
    (XO (XI (XO (XI XH))))))) :: ((Zpos (XO (XO (XI (XO (XI (XI
    XH))))))) :: ((Zpos (XI (XO (XI (XI (XO XH)))))) :: ((Zpos (XO (XO (XO
    (XO (XI XH)))))) :: []))))))))))), (KFlag (((S (S (S (S (S (S (S (S (S (S
    (S (S (S (S (S (S (S (S (S (S (S (S (S O))))))))))))))))))))))), (VI
    Z0)) :: []))) :: ((((Zpos (XI (XO (XI (XI (XO XH)))))) :: ((Zpos (XI (XO
    (XI (XI (XO XH)))))) :: ((Zpos (XO (XI (XO (XO (XI (XI
    XH))))))) :: ((Zpos (XI (XO (XI (XO (XO (XI XH))))))) :: ((Zpos (XI (XO
    (XO (XO (XO (XI XH))))))) :: ((Zpos (XO (XO (XI (XO (XO (XI
    XH))))))) :: ((Zpos (XO (XO (XO (XO (XI XH)))))) :: []))))))), (KFlag
    (((S (S (S (S (S (S (S (S (S (S (S (S (S (S (S (S (S (S (S (S (S (S (S (S
    O)))))))))))))))))))))))), (VI (Zpos XH))) :: []))) :: ((((Zpos (XI (XO
    (XI (XI (XO XH)))))) :: ((Zpos (XI (XO (XI (XI (XO XH)))))) :: ((Zpos (XO
    (XI (XI (XI (XO (XI XH))))))) :: ((Zpos (XI (XI (XI (XI (XO (XI
    XH))))))) :: ((Zpos (XI (XO (XI (XI (XO XH)))))) :: ((Zpos (XO (XI (XO
    (XO (XI (XI XH))))))) :: ((Zpos (XI (XO (XI (XO (XO (XI
    XH))))))) :: ((Zpos (XI (XO (XO (XO (XO (XI XH))))))) :: ((Zpos (XO (XO
    (XI (XO (XO (XI XH))))))) :: ((Zpos (XO (XO (XO (XO (XI
    XH)))))) :: [])))))))))), (KFlag (((S (S (S (S (S (S (S (S (S (S (S (S (S
    (S (S (S (S (S (S (S (S (S (S (S O)))))))))))))))))))))))), (VI
    Z0)) :: []))) :: ((((Zpos (XI (XO (XI (XI (XO XH)))))) :: ((Zpos (XI (XO
    (XI (XI (XO XH)))))) :: ((Zpos (XO (XO (XO (XO (XI (XI
    XH))))))) :: ((Zpos (XO (XI (XO (XO (XI (XI XH))))))) :: ((Zpos (XI (XO
    (XO (XI (XO (XI XH))))))) :: ((Zpos (XO (XI (XI (XI (XO (XI
    XH))))))) :: ((Zpos (XO (XO (XI (XO (XI (XI XH))))))) :: ((Zpos (XO (XO
    (XO (XO (XI XH)))))) :: [])))))))), (KFlag (((S (S (S (S (S (S (S (S (S
    (S (S (S (S (S (S (S (S (S (S (S (S (S (S (S (S
    O))))))))))))))))))))))))), (VI (Zpos XH))) :: []))) :: ((((Zpos (XI (XO
    (XI (XI (XO XH)))))) :: ((Zpos (XI (XO (XI (XI (XO XH)))))) :: ((Zpos (XO
    (XI (XI (XI (XO (XI XH))))))) :: ((Zpos (XI (XI (XI (XI (XO (XI
    XH))))))) :: ((Zpos (XI (XO (XI (XI (XO XH)))))) :: ((Zpos (XO (XO (XO
    (XO (XI (XI XH))))))) :: ((Zpos (XO (XI (XO (XO (XI (XI
    XH))))))) :: ((Zpos (XI (XO (XO (XI (XO (XI XH))))))) :: ((Zpos (XO (XI
    (XI (XI (XO (XI XH))))))) :: ((Zpos (XO (XO (XI (XO (XI (XI
    XH))))))) :: ((Zpos (XO (XO (XO (XO (XI XH)))))) :: []))))))))))), (KFlag
    (((S (S (S (S (S (S (S (S (S (S (S (S (S (S (S (S (S (S (S (S (S (S (S (S
    (S O))))))))))))))))))))))))), (VI Z0)) :: []))) :: ((((Zpos (XI (XO (XI
    (XI (XO XH)))))) :: ((Zpos (XI (XO (XI (XI (XO XH)))))) :: ((Zpos (XO (XO
    (XO (XO (XI (XI XH))))))) :: ((Zpos (XO (XI (XO (XO (XI (XI
    XH))))))) :: ((Zpos (XI (XO (XO (XI (XO (XI XH))))))) :: ((Zpos (XO (XI
    (XI (XI (XO (XI XH))))))) :: ((Zpos (XO (XO (XI (XO (XI (XI
    XH))))))) :: ((Zpos (XI (XO (XI (XI (XO XH)))))) :: ((Zpos (XI (XO (XO
    (XO (XI (XI XH))))))) :: ((Zpos (XI (XO (XI (XO (XI (XI
    XH))))))) :: ((Zpos (XI (XO (XI (XO (XO (XI XH))))))) :: ((Zpos (XO (XI
    (XO (XO (XI (XI XH))))))) :: ((Zpos (XI (XO (XO (XI (XI (XI
    XH))))))) :: []))))))))))))), (KFlag (((S (S (S (S (S (S (S (S (S (S (S
    (S (S (S (S (S (S (S (S (S (S (S (S (S (S (S O)))))))))))))))))))))))))),
    (VI (Zpos XH))) :: []))) :: ((((Zpos (XI (XO (XI (XI (XO
    XH)))))) :: ((Zpos (XI (XO (XI (XI (XO XH)))))) :: ((Zpos (XO (XI (XI (XI
    (XO (XI XH))))))) :: ((Zpos (XI (XI (XI (XI (XO (XI XH))))))) :: ((Zpos
    (XI (XO (XI (XI (XO XH)))))) :: ((Zpos (XO (XO (XO (XO (XI (XI
    XH))))))) :: ((Zpos (XO (XI (XO (XO (XI (XI XH))))))) :: ((Zpos (XI (XO
    (XO (XI (XO (XI XH))))))) :: ((Zpos (XO (XI (XI (XI (XO (XI
    XH))))))) :: ((Zpos (XO (XO (XI (XO (XI (XI XH))))))) :: ((Zpos (XI (XO
    (XI (XI (XO XH)))))) :: ((Zpos (XI (XO (XO (XO (XI (XI
    XH))))))) :: ((Zpos (XI (XO (XI (XO (XI (XI XH))))))) :: ((Zpos (XI (XO
    (XI (XO (XO (XI XH))))))) :: ((Zpos (XO (XI (XO (XO (XI (XI
    XH))))))) :: ((Zpos (XI (XO (XO (XI (XI (XI
    XH))))))) :: [])))))))))))))))), (KFlag (((S (S (S (S (S (S (S (S (S (S
    (S (S (S (S (S (S (S (S (S (S (S (S (S (S (S (S
    O)))))))))))))))))))))))))), (VI Z0)) :: []))) :: ((((Zpos (XI (XO (XI
    (XI (XO XH)))))) :: ((Zpos (XI (XO (XI (XI (XO XH)))))) :: ((Zpos (XI (XI
    (XO (XO (XI (XI XH))))))) :: ((Zpos (XI (XO (XO (XI (XI (XI
    XH))))))) :: ((Zpos (XO (XI (XI (XI (XO (XI XH))))))) :: ((Zpos (XI (XI
    (XO (XO (XO (XI XH))))))) :: [])))))), (KFlag (((S (S (S (S (S (S (S (S
    (S (S (S (S (S (S (S (S (S (S (S (S (S (S (S (S (S (S (S (S (S
    O))))))))))))))))))))))))))))), (VI (Zpos XH))) :: []))) :: ((((Zpos (XI
    (XO (XI (XI (XO XH)))))) :: ((Zpos (XI (XO (XI (XI (XO XH)))))) :: ((Zpos
    (XO (XI (XI (XI (XO (XI XH))))))) :: ((Zpos (XI (XI (XI (XI (XO (XI
    XH))))))) :: ((Zpos (XI (XO (XI (XI (XO XH)))))) :: ((Zpos (XI (XI (XO
    (XO (XI (XI XH))))))) :: ((Zpos (XI (XO (XO (XI (XI (XI
    XH))))))) :: ((Zpos (XO (XI (XI (XI (XO (XI XH))))))) :: ((Zpos (XI (XI
    (XO (XO (XO (XI XH))))))) :: []))))))))), (KFlag (((S (S (S (S (S (S (S
    (S (S (S (S (S (S (S (S (S (S (S (S (S (S (S (S (S (S (S (S (S (S
    O))))))))))))))))))))))))))))), (VI Z0)) :: []))) :: ((((Zpos (XI (XO (XI
    (XI (XO XH)))))) :: ((Zpos (XI (XO (XI (XI (XO XH)))))) :: ((Zpos (XI (XO
    (XO (XO (XO (XI XH))))))) :: ((Zpos (XI (XI (XO (XO (XI (XI
    XH))))))) :: ((Zpos (XI (XO (XO (XI (XI (XI XH))))))) :: ((Zpos (XO (XI
    (XI (XI (XO (XI XH))))))) :: ((Zpos (XI (XI (XO (XO (XO (XI
    XH))))))) :: []))))))), (KFlag (((S (S (S (S (S (S (S (S (S (S (S (S (S
    (S (S (S (S (S (S (S (S (S (S (S (S (S (S (S (S
    O))))))))))))))))))))))))))))), (VI Z0)) :: []))) :: ((((Zpos (XI (XO (XI
    (XI (XO XH)))))) :: ((Zpos (XI (XO (XI (XI (XO XH)))))) :: ((Zpos (XO (XI
    (XI (XI (XO (XI XH))))))) :: ((Zpos (XI (XI (XI (XI (XO (XI
    XH))))))) :: ((Zpos (XI (XO (XI (XI (XO XH)))))) :: ((Zpos (XO (XO (XO
    (XI (XO (XI XH))))))) :: ((Zpos (XI (XO (XO (XI (XO (XI
    XH))))))) :: ((Zpos (XI (XI (XO (XO (XI (XI XH))))))) :: ((Zpos (XO (XO
    (XI (XO (XI (XI XH))))))) :: ((Zpos (XI (XI (XI (XI (XO (XI
    XH))))))) :: ((Zpos (XO (XI (XO (XO (XI (XI XH))))))) :: ((Zpos (XI (XO
    (XO (XI (XI (XI XH))))))) :: [])))))))))))), (KFlag (((S (S (S (S (S (S
    (S (S (S (S (S (S (S (S (S (S (S (S (S (S (S (S (S (S (S (S (S (S (S (S
    O)))))))))))))))))))))))))))))), (VL [])) :: []))) :: ((((Zpos (XI (XO
    (XI (XI (XO XH)))))) :: ((Zpos (XI (XO (XI (XI (XO XH)))))) :: ((Zpos (XO
    (XI (XI (XI (XO (XI XH))))))) :: ((Zpos (XI (XI (XI (XI (XO (XI
    XH))))))) :: ((Zpos (XI (XO (XI (XI (XO XH)))))) :: ((Zpos (XO (XO (XO
    (XI (XO (XI XH))))))) :: ((Zpos (XI (XO (XI (XO (XO (XI
    XH))))))) :: ((Zpos (XI (XO (XO (XO (XO (XI XH))))))) :: ((Zpos (XO (XO
    (XI (XO (XO (XI XH))))))) :: ((Zpos (XI (XO (XI (XO (XO (XI
    XH))))))) :: ((Zpos (XO (XI (XO (XO (XI (XI XH))))))) :: []))))))))))),
    (KFlag (((S (S (S (S (S (S (S (S (S (S (S (S (S (S (S (S (S (S (S (S (S
    (S (S (S (S (S (S (S (S (S (S (S O)))))))))))))))))))))))))))))))), (VL
    [])) :: []))) :: ((((Zpos (XI (XO (XI (XI (XO XH)))))) :: ((Zpos (XI (XO
    (XI (XI (XO XH)))))) :: ((Zpos (XO (XI (XI (XI (XO (XI
    XH))))))) :: ((Zpos (XI (XI (XI (XI (XO (XI XH))))))) :: ((Zpos (XI (XO
    (XI (XI (XO XH)))))) :: ((Zpos (XO (XO (XO (XI (XO (XI
    XH))))))) :: ((Zpos (XI (XO (XI (XO (XO (XI XH))))))) :: ((Zpos (XI (XO
    (XO (XO (XO (XI XH))))))) :: ((Zpos (XO (XO (XI (XO (XO (XI
    XH))))))) :: ((Zpos (XI (XO (XI (XO (XO (XI XH))))))) :: ((Zpos (XO (XI
    (XO (XO (XI (XI XH))))))) :: ((Zpos (XI (XO (XI (XI (XO
    XH)))))) :: ((Zpos (XO (XO (XI (XI (XO (XI XH))))))) :: ((Zpos (XI (XO
    (XO (XI (XO (XI XH))))))) :: ((Zpos (XO (XI (XI (XI (XO (XI
    XH))))))) :: ((Zpos (XI (XO (XI (XO (XO (XI XH))))))) :: ((Zpos (XI (XI
    (XO (XO (XI (XI XH))))))) :: []))))))))))))))))), (KFlag (((S (S (S (S (S
    (S (S (S (S (S (S (S (S (S (S (S (S (S (S (S (S (S (S (S (S (S (S (S (S
    (S (S (S (S O))))))))))))))))))))))))))))))))), (VI
    Z0)) :: []))) :: ((((Zpos (XI (XO (XI (XI (XO XH)))))) :: ((Zpos (XI (XO
    (XI (XI (XO XH)))))) :: ((Zpos (XO (XO (XO (XI (XO (XI
    XH))))))) :: ((Zpos (XI (XO (XI (XO (XO (XI XH))))))) :: ((Zpos (XI (XO
    (XO (XO (XO (XI XH))))))) :: ((Zpos (XO (XO (XI (XO (XO (XI
    XH))))))) :: ((Zpos (XI (XO (XI (XO (XO (XI XH))))))) :: ((Zpos (XO (XI
    (XO (XO (XI (XI XH))))))) :: ((Zpos (XI (XO (XI (XI (XO
    XH)))))) :: ((Zpos (XO (XI (XI (XO (XO (XI XH))))))) :: ((Zpos (XI (XO
    (XO (XI (XO (XI XH))))))) :: ((Zpos (XO (XI (XO (XO (XI (XI
    XH))))))) :: ((Zpos (XI (XI (XO (XO (XI (XI XH))))))) :: ((Zpos (XO (XO
    (XI (XO (XI (XI XH))))))) :: [])))))))))))))), (KFlag (((S (S (S (S (S (S
    (S (S (S (S (S (S (S (S (S (S (S (S (S (S (S (S (S (S (S (S (S (S (S (S
    (S (S (S (S (S (S (S (S (S (S (S (S (S (S (S (S (S (S (S (S
    O)))))))))))))))))))))))))))))))))))))))))))))))))), (VI (Zpos
    XH))) :: []))) :: ((((Zpos (XI (XO (XI (XI (XO XH)))))) :: ((Zpos (XI (XO
    (XI (XI (XO XH)))))) :: ((Zpos (XO (XI (XI (XI (XO (XI
    XH))))))) :: ((Zpos (XI (XI (XI (XI (XO (XI XH))))))) :: ((Zpos (XI (XO
    (XI (XI (XO XH)))))) :: ((Zpos (XO (XO (XO (XI (XO (XI
    XH))))))) :: ((Zpos (XI (XO (XI (XO (XO (XI XH))))))) :: ((Zpos (XI (XO
    (XO (XO (XO (XI XH))))))) :: ((Zpos (XO (XO (XI (XO (XO (XI
    XH))))))) :: ((Zpos (XI (XO (XI (XO (XO (XI XH))))))) :: ((Zpos (XO (XI
    (XO (XO (XI (XI XH))))))) :: ((Zpos (XI (XO (XI (XI (XO
    XH)))))) :: ((Zpos (XO (XI (XI (XO (XO (XI XH))))))) :: ((Zpos (XI (XO
    (XO (XI (XO (XI XH))))))) :: ((Zpos (XO (XI (XO (XO (XI (XI
    XH))))))) :: ((Zpos (XI (XI (XO (XO (XI (XI XH))))))) :: ((Zpos (XO (XO
    (XI (XO (XI (XI XH))))))) :: []))))))))))))))))), (KFlag (((S (S (S (S (S
    (S (S (S (S (S (S (S (S (S (S (S (S (S (S (S (S (S (S (S (S (S (S (S (S
    (S (S (S (S (S (S (S (S (S (S (S (S (S (S (S (S (S (S (S (S (S
    O)))))))))))))))))))))))))))))))))))))))))))))))))), (VI
    Z0)) :: []))) :: ((((Zpos (XI (XO (XI (XI (XO XH)))))) :: ((Zpos (XI (XO
    (XI (XI (XO XH)))))) :: ((Zpos (XO (XI (XI (XI (XO (XI
    XH))))))) :: ((Zpos (XI (XI (XI (XI (XO (XI XH))))))) :: ((Zpos (XI (XO
    (XI (XI (XO XH)))))) :: ((Zpos (XI (XI (XI (XO (XO (XI
    XH))))))) :: ((Zpos (XI (XO (XO (XO (XO (XI XH))))))) :: ((Zpos (XO (XO
    (XO (XO (XI (XI XH))))))) :: [])))))))), (KFlag (((S (S (S (S (S (S (S (S
    (S (S (S (S (S (S (S (S (S (S (S (S (S (S (S (S (S (S (S (S (S (S (S (S
    (S (S (S (S (S (S (S (S (S (S (S (S
    O)))))))))))))))))))))))))))))))))))))))))))), (VI
    Z0)) :: []))) :: ((((Zpos (XI (XO (XI (XI (XO XH)))))) :: ((Zpos (XI (XO
    (XI (XI (XO XH)))))) :: ((Zpos (XO (XI (XI (XI (XO (XI
    XH))))))) :: ((Zpos (XI (XI (XI (XI (XO (XI XH))))))) :: ((Zpos (XI (XO
    (XI (XI (XO XH)))))) :: ((Zpos (XO (XO (XO (XO (XI (XI
    XH))))))) :: ((Zpos (XO (XI (XO (XO (XI (XI XH))))))) :: ((Zpos (XI (XO
    (XI (XO (XO (XI XH))))))) :: ((Zpos (XO (XI (XI (XO (XI (XI
    XH))))))) :: ((Zpos (XI (XO (XO (XI (XO (XI XH))))))) :: ((Zpos (XI (XO
    (XI (XO (XO (XI XH))))))) :: ((Zpos (XI (XI (XI (XO (XI (XI
    XH))))))) :: [])))))))))))), (KFlag (((S (S (S (S (S (S (S (S (S (S (S (S
    (S (S (S (S (S (S (S (S (S (S (S (S (S (S (S (S (S (S (S (S (S (S (S (S
    (S (S (S (S (S (S (S (S (S (S (S (S (S (S (S (S (S (S (S (S (S (S (S (S
    (S O))))))))))))))))))))))))))))))))))))))))))))))))))))))))))))), (VL
    [])) :: []))) :: ((((Zpos (XI (XO (XI (XI (XO XH)))))) :: ((Zpos (XI (XO
    (XI (XI (XO XH)))))) :: ((Zpos (XO (XI (XI (XI (XO (XI
    XH))))))) :: ((Zpos (XI (XI (XI (XI (XO (XI XH))))))) :: ((Zpos (XI (XO
    (XI (XI (XO XH)))))) :: ((Zpos (XO (XO (XO (XI (XO (XI
    XH))))))) :: ((Zpos (XI (XO (XI (XO (XO (XI XH))))))) :: ((Zpos (XI (XO
    (XO (XI (XO (XI XH))))))) :: ((Zpos (XI (XI (XI (XO (XO (XI
    XH))))))) :: ((Zpos (XO (XO (XO (XI (XO (XI XH))))))) :: ((Zpos (XO (XO
    (XI (XO (XI (XI XH))))))) :: []))))))))))), (KFlag (((S (S (S (S (S (S (S
    (S (S (S (S (S (S (S (S (S (S (S (S (S (S O))))))))))))))))))))), (VL
    ((VI Z0) :: ((VI Z0) :: ((VI Z0) :: ((VI
    Z0) :: [])))))) :: []))) :: ((((Zpos (XI (XO (XI (XI (XO
    XH)))))) :: ((Zpos (XI (XO (XI (XI (XO XH)))))) :: ((Zpos (XI (XO (XI (XO
    (XI (XI XH))))))) :: ((Zpos (XO (XI (XI (XI (XO (XI XH))))))) :: ((Zpos
    (XI (XO (XO (XI (XO (XI XH))))))) :: ((Zpos (XI (XI (XO (XO (XO (XI
    XH))))))) :: ((Zpos (XI (XI (XI (XI (XO (XI XH))))))) :: ((Zpos (XO (XO
    (XI (XO (XO (XI XH))))))) :: ((Zpos (XI (XO (XI (XO (XO (XI
    XH))))))) :: []))))))))), (KFlag (((S (S (S (S (S (S (S (S (S (S (S (S (S
    (S (S (S (S (S (S (S (S (S (S (S (S (S (S (S (S (S (S (S (S (S (S (S (S
    (S (S (S (S (S (S (S (S (S (S (S (S (S (S (S (S (S (S (S (S
    O))))))))))))))))))))))))))))))))))))))))))))))))))))))))), (VI (Zpos
    XH))) :: []))) :: ((((Zpos (XI (XO (XI (XI (XO XH)))))) :: ((Zpos (XI (XO
    (XI (XI (XO XH)))))) :: ((Zpos (XO (XI (XI (XI (XO (XI
    XH))))))) :: ((Zpos (XI (XI (XI (XI (XO (XI XH))))))) :: ((Zpos (XI (XO
    (XI (XI (XO XH)))))) :: ((Zpos (XI (XO (XI (XO (XI (XI
    XH))))))) :: ((Zpos (XO (XI (XI (XI (XO (XI XH))))))) :: ((Zpos (XI (XO
    (XO (XI (XO (XI XH))))))) :: ((Zpos (XI (XI (XO (XO (XO (XI
    XH))))))) :: ((Zpos (XI (XI (XI (XI (XO (XI XH))))))) :: ((Zpos (XO (XO
    (XI (XO (XO (XI XH))))))) :: ((Zpos (XI (XO (XI (XO (XO (XI
    XH))))))) :: [])))))))))))), (KFlag (((S (S (S (S (S (S (S (S (S (S (S (S
    (S (S (S (S (S (S (S (S (S (S (S (S (S (S (S (S (S (S (S (S (S (S (S (S
    (S (S (S (S (S (S (S (S (S (S (S (S (S (S (S (S (S (S (S (S (S
    O))))))))))))))))))))))))))))))))))))))))))))))))))))))))), (VI
    Z0)) :: []))) :: ((((Zpos (XI (XO (XI (XI (XO XH)))))) :: ((Zpos (XI (XO
    (XI (XI (XO XH)))))) :: ((Zpos (XI (XO (XO (XO (XO (XI
    XH))))))) :: ((Zpos (XI (XO (XI (XI (XO (XI XH))))))) :: ((Zpos (XO (XI
    (XO (XO (XO (XI XH))))))) :: ((Zpos (XI (XO (XO (XI (XO (XI
    XH))))))) :: ((Zpos (XO (XO (XI (XO (XO (XI XH))))))) :: ((Zpos (XI (XI
    (XI (XI (XO (XI XH))))))) :: ((Zpos (XI (XO (XI (XO (XI (XI
    XH))))))) :: ((Zpos (XO (XI (XO (XO (XO (XI XH))))))) :: ((Zpos (XO (XO
    (XI (XI (XO (XI XH))))))) :: ((Zpos (XI (XO (XI (XO (XO (XI
    XH))))))) :: [])))))))))))), (KFlag (((S (S (S (S (S (S (S (S (S (S (S (S
    (S (S (S (S (S (S (S (S (S (S (S (S (S (S (S (S (S (S (S (S (S (S (S (S
    (S (S (S (S (S (S (S (S (S (S (S (S (S (S (S (S (S (S (S (S (S (S
    O)))))))))))))))))))))))))))))))))))))))))))))))))))))))))), (VI (Zpos
    XH))) :: []))) :: ((((Zpos (XI (XO (XI (XI (XO XH)))))) :: ((Zpos (XI (XO
    (XI (XI (XO XH)))))) :: ((Zpos (XO (XI (XI (XI (XO (XI
    XH))))))) :: ((Zpos (XI (XI (XI (XI (XO (XI XH))))))) :: ((Zpos (XI (XO
    (XI (XI (XO XH)))))) :: ((Zpos (XI (XO (XO (XO (XO (XI
    XH))))))) :: ((Zpos (XI (XO (XI (XI (XO (XI XH))))))) :: ((Zpos (XO (XI
    (XO (XO (XO (XI XH))))))) :: ((Zpos (XI (XO (XO (XI (XO (XI
    XH))))))) :: ((Zpos (XO (XO (XI (XO (XO (XI XH))))))) :: ((Zpos (XI (XI
    (XI (XI (XO (XI XH))))))) :: ((Zpos (XI (XO (XI (XO (XI (XI
    XH))))))) :: ((Zpos (XO (XI (XO (XO (XO (XI XH))))))) :: ((Zpos (XO (XO
    (XI (XI (XO (XI XH))))))) :: ((Zpos (XI (XO (XI (XO (XO (XI
    XH))))))) :: []))))))))))))))), (KFlag (((S (S (S (S (S (S (S (S (S (S (S
    (S (S (S (S (S (S (S (S (S (S (S (S (S (S (S (S (S (S (S (S (S (S (S (S
    (S (S (S (S (S (S (S (S (S (S (S (S (S (S (S (S (S (S (S (S (S (S (S
    O)))))))))))))))))))))))))))))))))))))))))))))))))))))))))), (VI
    Z0)) :: []))) :: ((((Zpos (XI (XO (XI (XI (XO XH)))))) :: ((Zpos (XI (XO
    (XI (XI (XO XH)))))) :: ((Zpos (XO (XI (XI (XI (XO (XI
    XH))))))) :: ((Zpos (XI (XI (XI (XI (XO (XI XH))))))) :: ((Zpos (XI (XO
    (XI (XI (XO XH)))))) :: ((Zpos (XO (XO (XI (XI (XO (XI
    XH))))))) :: ((Zpos (XI (XO (XO (XI (XO (XI XH))))))) :: ((Zpos (XI (XI
    (XO (XO (XI (XI XH))))))) :: ((Zpos (XO (XO (XI (XO (XI (XI
    XH))))))) :: ((Zpos (XI (XO (XI (XO (XO (XI XH))))))) :: ((Zpos (XO (XI
    (XI (XI (XO (XI XH))))))) :: []))))))))))), (KFlag (((S (S (S (S (S (S (S
    (S (S (S (S (S (S (S (S (S (S (S (S (S (S (S (S (S (S (S (S (S (S (S (S
    (S (S (S O)))))))))))))))))))))))))))))))))), (VL [])) :: (((S (S (S (S
    (S (S (S (S (S (S (S (S (S (S (S (S (S (S (S (S (S (S (S (S (S (S (S (S
    (S (S (S (S (S (S (S O))))))))))))))))))))))))))))))))))), (VI
    Z0)) :: [])))) :: ((((Zpos (XI (XO (XI (XI (XO XH)))))) :: ((Zpos (XI (XO
    (XI (XI (XO XH)))))) :: ((Zpos (XO (XI (XI (XI (XO (XI
    XH))))))) :: ((Zpos (XI (XI (XI (XI (XO (XI XH))))))) :: ((Zpos (XI (XO
    (XI (XI (XO XH)))))) :: ((Zpos (XO (XO (XI (XI (XO (XI
    XH))))))) :: ((Zpos (XI (XO (XO (XI (XO (XI XH))))))) :: ((Zpos (XI (XI
    (XO (XO (XI (XI XH))))))) :: ((Zpos (XO (XO (XI (XO (XI (XI
    XH))))))) :: ((Zpos (XI (XO (XI (XO (XO (XI XH))))))) :: ((Zpos (XO (XI
    (XI (XI (XO (XI XH))))))) :: ((Zpos (XI (XO (XI (XI (XO
    XH)))))) :: ((Zpos (XI (XO (XI (XO (XI (XI XH))))))) :: ((Zpos (XO (XI
    (XI (XI (XO (XI XH))))))) :: ((Zpos (XI (XI (XO (XO (XI (XI
    XH))))))) :: ((Zpos (XI (XO (XO (XO (XO (XI XH))))))) :: ((Zpos (XO (XI
    (XI (XO (XO (XI XH))))))) :: ((Zpos (XI (XO (XI (XO (XO (XI
    XH))))))) :: [])))))))))))))))))), (KFlag (((S (S (S (S (S (S (S (S (S (S
    (S (S (S (S (S (S (S (S (S (S (S (S (S (S (S (S (S (S (S (S (S (S (S (S
    O)))))))))))))))))))))))))))))))))), (VL [])) :: (((S (S (S (S (S (S (S
    (S (S (S (S (S (S (S (S (S (S (S (S (S (S (S (S (S (S (S (S (S (S (S (S
    (S (S (S (S O))))))))))))))))))))))))))))))))))), (VI
    Z0)) :: [])))) :: ((((Zpos (XI (XO (XI (XI (XO XH)))))) :: ((Zpos (XI (XO
    (XI (XI (XO XH)))))) :: ((Zpos (XI (XI (XO (XO (XO (XI
    XH))))))) :: ((Zpos (XO (XO (XI (XI (XO (XI XH))))))) :: ((Zpos (XI (XO
    (XI (XO (XO (XI XH))))))) :: ((Zpos (XI (XO (XO (XO (XO (XI
    XH))))))) :: ((Zpos (XO (XI (XO (XO (XI (XI XH))))))) :: []))))))),
    (KFlag (((S (S (S (S (S (S (S (S (S (S (S (S (S (S (S (S (S (S (S (S (S
    (S (S (S (S (S (S (S (S (S (S (S (S (S (S (S (S (S (S (S (S (S (S (S (S
    (S (S (S (S (S (S (S (S (S (S (S
    O)))))))))))))))))))))))))))))))))))))))))))))))))))))))), (VI (Zpos
    XH))) :: []))) :: ((((Zpos (XI (XO (XI (XI (XO XH)))))) :: ((Zpos (XI (XO
    (XI (XI (XO XH)))))) :: ((Zpos (XO (XI (XI (XI (XO (XI
    XH))))))) :: ((Zpos (XI (XI (XI (XI (XO (XI XH))))))) :: ((Zpos (XI (XO
    (XI (XI (XO XH)))))) :: ((Zpos (XI (XI (XO (XO (XO (XI
    XH))))))) :: ((Zpos (XO (XO (XI (XI (XO (XI XH))))))) :: ((Zpos (XI (XO
    (XI (XO (XO (XI XH))))))) :: ((Zpos (XI (XO (XO (XO (XO (XI
    XH))))))) :: ((Zpos (XO (XI (XO (XO (XI (XI XH))))))) :: [])))))))))),
    (KFlag (((S (S (S (S (S (S (S (S (S (S (S (S (S (S (S (S (S (S (S (S (S
    (S (S (S (S (S (S (S (S (S (S (S (S (S (S (S (S (S (S (S (S (S (S (S (S
    (S (S (S (S (S (S (S (S (S (S (S
    O)))))))))))))))))))))))))))))))))))))))))))))))))))))))), (VI
    Z0)) :: []))) :: ((((Zpos (XI (XO (XI (XI (XO XH)))))) :: ((Zpos (XI (XO
    (XI (XI (XO XH)))))) :: ((Zpos (XO (XI (XI (XO (XO (XI
    XH))))))) :: ((Zpos (XI (XI (XI (XI (XO (XI XH))))))) :: ((Zpos (XO (XI
    (XO (XO (XI (XI XH))))))) :: ((Zpos (XI (XI (XO (XO (XO (XI
    XH))))))) :: ((Zpos (XI (XO (XI (XO (XO (XI XH))))))) :: ((Zpos (XI (XO
    (XI (XI (XO XH)))))) :: ((Zpos (XO (XO (XI (XO (XI (XI
    XH))))))) :: ((Zpos (XO (XO (XI (XO (XI (XI XH))))))) :: ((Zpos (XI (XO
    (XO (XI (XI (XI XH))))))) :: ((Zpos (XI (XO (XI (XI (XO
    XH)))))) :: ((Zpos (XI (XO (XO (XI (XO (XI XH))))))) :: ((Zpos (XO (XI
    (XI (XI (XO (XI XH))))))) :: [])))))))))))))), (KFlag (((S (S (S (S (S (S
    (S (S (S (S (S (S (S (S (S (S (S (S (S (S (S (S (S (S (S (S (S (S (S (S
    (S (S (S (S (S (S (S (S (S (S (S (S (S (S (S (S (S (S (S (S (S (S (S (S
    (S (S (S (S (S (S (S (S
    O)))))))))))))))))))))))))))))))))))))))))))))))))))))))))))))), (VI
    (Zpos XH))) :: []))) :: ((((Zpos (XI (XO (XI (XI (XO XH)))))) :: ((Zpos
    (XI (XO (XI (XI (XO XH)))))) :: ((Zpos (XO (XI (XI (XI (XO (XI
    XH))))))) :: ((Zpos (XI (XI (XI (XI (XO (XI XH))))))) :: ((Zpos (XI (XO
    (XI (XI (XO XH)))))) :: ((Zpos (XO (XI (XI (XO (XO (XI
    XH))))))) :: ((Zpos (XI (XI (XI (XI (XO (XI XH))))))) :: ((Zpos (XO (XI
    (XO (XO (XI (XI XH))))))) :: ((Zpos (XI (XI (XO (XO (XO (XI
    XH))))))) :: ((Zpos (XI (XO (XI (XO (XO (XI XH))))))) :: ((Zpos (XI (XO
    (XI (XI (XO XH)))))) :: ((Zpos (XO (XO (XI (XO (XI (XI
    XH))))))) :: ((Zpos (XO (XO (XI (XO (XI (XI XH))))))) :: ((Zpos (XI (XO
    (XO (XI (XI (XI XH))))))) :: ((Zpos (XI (XO (XI (XI (XO
    XH)))))) :: ((Zpos (XI (XO (XO (XI (XO (XI XH))))))) :: ((Zpos (XO (XI
    (XI (XI (XO (XI XH))))))) :: []))))))))))))))))), (KFlag (((S (S (S (S (S
    (S (S (S (S (S (S (S (S (S (S (S (S (S (S (S (S (S (S (S (S (S (S (S (S
    (S (S (S (S (S (S (S (S (S (S (S (S (S (S (S (S (S (S (S (S (S (S (S (S
    (S (S (S (S (S (S (S (S (S
    O)))))))))))))))))))))))))))))))))))))))))))))))))))))))))))))), (VI
    Z0)) :: []))) :: ((((Zpos (XI (XO (XI (XI (XO XH)))))) :: ((Zpos (XI (XO
    (XI (XI (XO XH)))))) :: [])), (KFlag [])) :: ((((Zpos (XI (XO (XI (XI (XO
    XH)))))) :: ((Zpos (XI (XO (XI (XI (XO XH)))))) :: ((Zpos (XI (XO (XI (XI
    (XO (XI XH))))))) :: ((Zpos (XI (XO (XO (XO (XO (XI XH))))))) :: ((Zpos
    (XO (XI (XI (XI (XO (XI XH))))))) :: []))))), (KFlag (((S (S (S (S (S (S
    (S (S (S (S (S (S (S (S (S (S (S (S (S (S (S (S (S (S (S (S (S (S (S (S
    (S (S (S (S (S (S (S (S (S (S (S (S (S (S (S (S (S (S (S
    O))))))))))))))))))))))))))))))))))))))))))))))))), (VI (Zpos (XO (XI
    XH))))) :: []))) :: ((((Zpos (XI (XO (XI (XI (XO XH)))))) :: ((Zpos (XI
    (XO (XI (XI (XO XH)))))) :: ((Zpos (XO (XI (XO (XO (XO (XI
    XH))))))) :: ((Zpos (XI (XO (XO (XO (XO (XI XH))))))) :: ((Zpos (XI (XI
    (XO (XO (XI (XI XH))))))) :: ((Zpos (XO (XO (XO (XI (XO (XI
    XH))))))) :: [])))))), (KFlag (((S (S (S (S (S (S (S (S (S (S (S (S (S (S
    (S (S (S (S (S (S (S (S (S (S (S (S (S (S (S (S (S (S (S (S (S (S (S (S
    (S (S (S (S (S (S (S (S (S (S (S
    O))))))))))))))))))))))))))))))))))))))))))))))))), (VI (Zpos
    XH))) :: []))) :: ((((Zpos (XI (XO (XI (XI (XO XH)))))) :: ((Zpos (XI (XO
    (XI (XI (XO XH)))))) :: ((Zpos (XO (XI (XO (XI (XI (XI
    XH))))))) :: ((Zpos (XI (XI (XO (XO (XI (XI XH))))))) :: ((Zpos (XO (XO
    (XO (XI (XO (XI XH))))))) :: []))))), (KFlag (((S (S (S (S (S (S (S (S (S
    (S (S (S (S (S (S (S (S (S (S (S (S (S (S (S (S (S (S (S (S (S (S (S (S
    (S (S (S (S (S (S (S (S (S (S (S (S (S (S (S (S
    O))))))))))))))))))))))))))))))))))))))))))))))))), (VI (Zpos (XO
    XH)))) :: []))) :: ((((Zpos (XI (XO (XI (XI (XO XH)))))) :: ((Zpos (XI
    (XO (XI (XI (XO XH)))))) :: ((Zpos (XO (XI (XI (XO (XO (XI
    XH))))))) :: ((Zpos (XI (XO (XO (XI (XO (XI XH))))))) :: ((Zpos (XI (XI
    (XO (XO (XI (XI XH))))))) :: ((Zpos (XO (XO (XO (XI (XO (XI
    XH))))))) :: [])))))), (KFlag (((S (S (S (S (S (S (S (S (S (S (S (S (S (S
    (S (S (S (S (S (S (S (S (S (S (S (S (S (S (S (S (S (S (S (S (S (S (S (S
    (S (S (S (S (S (S (S (S (S (S (S
    O))))))))))))))))))))))))))))))))))))))))))))))))), (VI (Zpos (XI
    XH)))) :: []))) :: ((((Zpos (XI (XO (XI (XI (XO XH)))))) :: ((Zpos (XO
    (XO (XO (XI (XO (XI XH))))))) :: [])), (KFlag (((S (S (S (S (S (S (S (S
    (S (S (S (S (S (S (S (S (S (S (S (S (S (S (S (S (S (S (S (S (S (S (S (S
    (S (S (S (S (S (S (S (S (S (S (S (S (S (S (S (S (S
    O))))))))))))))))))))))))))))))))))))))))))))))))), (VI (Zpos (XO (XO
    XH))))) :: []))) :: ((((Zpos (XI (XO (XI (XI (XO XH)))))) :: ((Zpos (XI
    (XO (XI (XI (XO XH)))))) :: ((Zpos (XO (XO (XO (XI (XO (XI
    XH))))))) :: ((Zpos (XI (XO (XI (XO (XO (XI XH))))))) :: ((Zpos (XO (XO
    (XI (XI (XO (XI XH))))))) :: ((Zpos (XO (XO (XO (XO (XI (XI
    XH))))))) :: [])))))), (KFlag (((S (S (S (S (S (S (S (S (S (S (S (S (S (S
    (S (S (S (S (S (S (S (S (S (S (S (S (S (S (S (S (S (S (S (S (S (S (S (S
    (S (S (S (S (S (S (S (S (S (S (S
    O))))))))))))))))))))))))))))))))))))))))))))))))), (VI (Zpos (XO (XO
    XH))))) :: []))) :: ((((Zpos (XI (XO (XI (XI (XO XH)))))) :: ((Zpos (XI
    (XO (XI (XI (XO XH)))))) :: ((Zpos (XO (XI (XI (XO (XI (XI
    XH))))))) :: ((Zpos (XI (XO (XI (XO (XO (XI XH))))))) :: ((Zpos (XO (XI
    (XO (XO (XI (XI XH))))))) :: ((Zpos (XI (XI (XO (XO (XI (XI
    XH))))))) :: ((Zpos (XI (XO (XO (XI (XO (XI XH))))))) :: ((Zpos (XI (XI
    (XI (XI (XO (XI XH))))))) :: ((Zpos (XO (XI (XI (XI (XO (XI
    XH))))))) :: []))))))))), (KFlag (((S (S (S (S (S (S (S (S (S (S (S (S (S
    (S (S (S (S (S (S (S (S (S (S (S (S (S (S (S (S (S (S (S (S (S (S (S (S
    (S (S (S (S (S (S (S (S (S (S (S (S
    O))))))))))))))))))))))))))))))))))))))))))))))))), (VI (Zpos (XI (XO
    XH))))) :: []))) :: ((((Zpos (XI (XO (XI (XI (XO XH)))))) :: ((Zpos (XI
    (XO (XO (XO (XI (XI XH))))))) :: [])), (KReq (((S (S (S (S (S (S (S (S (S
    (S (S (S (S (S (S (S (S (S (S (S (S (S (S (S (S (S (S
    O))))))))))))))))))))))))))) :: []), PStr))) :: ((((Zpos (XI (XO (XI (XI
    (XO XH)))))) :: ((Zpos (XI (XO (XI (XI (XO XH)))))) :: ((Zpos (XI (XO (XO
    (XO (XI (XI XH))))))) :: ((Zpos (XI (XO (XI (XO (XI (XI
    XH))))))) :: ((Zpos (XI (XO (XI (XO (XO (XI XH))))))) :: ((Zpos (XO (XI
    (XO (XO (XI (XI XH))))))) :: ((Zpos (XI (XO (XO (XI (XI (XI
    XH))))))) :: []))))))), (KReq (((S (S (S (S (S (S (S (S (S (S (S (S (S (S
    (S (S (S (S (S (S (S (S (S (S (S (S (S
    O))))))))))))))))))))))))))) :: []), PStr))) :: ((((Zpos (XI (XO (XI (XI
    (XO XH)))))) :: ((Zpos (XO (XI (XI (XO (XO (XI XH))))))) :: [])), (KReq
    (((S (S (S (S (S (S (S (S (S (S (S (S (S (S (S (S (S (S (S (S (S (S (S (S
    (S (S (S (S O)))))))))))))))))))))))))))) :: []), PSomeStr))) :: ((((Zpos
    (XI (XO (XI (XI (XO XH)))))) :: ((Zpos (XI (XO (XI (XI (XO
    XH)))))) :: ((Zpos (XO (XI (XI (XO (XO (XI XH))))))) :: ((Zpos (XI (XO
    (XO (XI (XO (XI XH))))))) :: ((Zpos (XO (XO (XI (XI (XO (XI
    XH))))))) :: ((Zpos (XO (XO (XI (XO (XI (XI XH))))))) :: ((Zpos (XI (XO
    (XI (XO (XO (XI XH))))))) :: ((Zpos (XO (XI (XO (XO (XI (XI
    XH))))))) :: [])))))))), (KReq (((S (S (S (S (S (S (S (S (S (S (S (S (S
    (S (S (S (S (S (S (S (S (S (S (S (S (S (S (S
    O)))))))))))))))))))))))))))) :: []), PSomeStr))) :: ((((Zpos (XI (XO (XI
    (XI (XO XH)))))) :: ((Zpos (XI (XO (XI (XI (XO XH)))))) :: ((Zpos (XI (XO
    (XO (XO (XO (XI XH))))))) :: ((Zpos (XO (XO (XI (XI (XO (XI
    XH))))))) :: ((Zpos (XI (XI (XI (XO (XO (XI XH))))))) :: ((Zpos (XI (XI
    (XI (XI (XO (XI XH))))))) :: [])))))), (KReq (((S (S (S (S (S (S
    O)))))) :: []), PAlgo))) :: ((((Zpos (XI (XO (XI (XI (XO
    XH)))))) :: ((Zpos (XI (XO (XI (XI (XO XH)))))) :: ((Zpos (XI (XI (XO (XO
    (XI (XI XH))))))) :: ((Zpos (XI (XI (XO (XO (XO (XI XH))))))) :: ((Zpos
    (XO (XO (XO (XI (XO (XI XH))))))) :: ((Zpos (XI (XO (XI (XO (XO (XI
    XH))))))) :: ((Zpos (XI (XO (XI (XI (XO (XI XH))))))) :: ((Zpos (XI (XO
    (XI (XO (XO (XI XH))))))) :: [])))))))), (KReq (((S (S (S (S (S (S (S
    O))))))) :: ((S (S (S (S (S (S (S (S O)))))))) :: [])),
    PScheme))) :: ((((Zpos (XI (XO (XI (XI (XO XH)))))) :: ((Zpos (XI (XO (XI
    (XI (XO XH)))))) :: ((Zpos (XO (XO (XI (XO (XI (XI XH))))))) :: ((Zpos
    (XI (XO (XO (XI (XO (XI XH))))))) :: ((Zpos (XI (XO (XI (XO (XO (XI
    XH))))))) :: ((Zpos (XO (XI (XO (XO (XO (XI XH))))))) :: ((Zpos (XO (XI
    (XO (XO (XI (XI XH))))))) :: ((Zpos (XI (XO (XI (XO (XO (XI
    XH))))))) :: ((Zpos (XI (XO (XO (XO (XO (XI XH))))))) :: ((Zpos (XI (XI
    (XO (XI (XO (XI XH))))))) :: [])))))))))), (KReq (((S (S (S (S (S (S (S
    (S O)))))))) :: []), PTiebreak))) :: ((((Zpos (XI (XO (XI (XI (XO
    XH)))))) :: ((Zpos (XO (XO (XI (XO (XO (XI XH))))))) :: [])), (KReq (((S
    (S (S (S (S (S (S (S (S (S (S (S O)))))))))))) :: []),
    PDelim))) :: ((((Zpos (XI (XO (XI (XI (XO XH)))))) :: ((Zpos (XI (XO (XI
    (XI (XO XH)))))) :: ((Zpos (XO (XO (XI (XO (XO (XI XH))))))) :: ((Zpos
    (XI (XO (XI (XO (XO (XI XH))))))) :: ((Zpos (XO (XO (XI (XI (XO (XI
    XH))))))) :: ((Zpos (XI (XO (XO (XI (XO (XI XH))))))) :: ((Zpos (XI (XO
    (XI (XI (XO (XI XH))))))) :: ((Zpos (XI (XO (XO (XI (XO (XI
    XH))))))) :: ((Zpos (XO (XO (XI (XO (XI (XI XH))))))) :: ((Zpos (XI (XO
    (XI (XO (XO (XI XH))))))) :: ((Zpos (XO (XI (XO (XO (XI (XI
    XH))))))) :: []))))))))))), (KReq (((S (S (S (S (S (S (S (S (S (S (S (S
    O)))))))))))) :: []), PDelim))) :: ((((Zpos (XI (XO (XI (XI (XO
    XH)))))) :: ((Zpos (XO (XI (XI (XI (XO (XI XH))))))) :: [])), (KReq (((S
    (S (S (S (S (S (S (S (S O))))))))) :: []), PNth))) :: ((((Zpos (XI (XO
    (XI (XI (XO XH)))))) :: ((Zpos (XI (XO (XI (XI (XO XH)))))) :: ((Zpos (XO
    (XI (XI (XI (XO (XI XH))))))) :: ((Zpos (XO (XO (XI (XO (XI (XI
    XH))))))) :: ((Zpos (XO (XO (XO (XI (XO (XI XH))))))) :: []))))), (KReq
    (((S (S (S (S (S (S (S (S (S O))))))))) :: []), PNth))) :: ((((Zpos (XI
    (XO (XI (XI (XO XH)))))) :: ((Zpos (XI (XO (XI (XI (XO XH)))))) :: ((Zpos
    (XI (XI (XI (XO (XI (XI XH))))))) :: ((Zpos (XI (XO (XO (XI (XO (XI
    XH))))))) :: ((Zpos (XO (XO (XI (XO (XI (XI XH))))))) :: ((Zpos (XO (XO
    (XO (XI (XO (XI XH))))))) :: ((Zpos (XI (XO (XI (XI (XO
    XH)))))) :: ((Zpos (XO (XI (XI (XI (XO (XI XH))))))) :: ((Zpos (XO (XO
    (XI (XO (XI (XI XH))))))) :: ((Zpos (XO (XO (XO (XI (XO (XI
    XH))))))) :: [])))))))))), (KReq (((S (S (S (S (S (S (S (S (S (S
    O)))))))))) :: []), PNthT))) :: ((((Zpos (XI (XO (XI (XI (XO
    XH)))))) :: ((Zpos (XI (XO (XI (XI (XO XH)))))) :: ((Zpos (XI (XO (XO (XO
    (XO (XI XH))))))) :: ((Zpos (XI (XI (XO (XO (XO (XI XH))))))) :: ((Zpos
    (XI (XI (XO (XO (XO (XI XH))))))) :: ((Zpos (XI (XO (XI (XO (XO (XI
    XH))))))) :: ((Zpos (XO (XO (XO (XO (XI (XI XH))))))) :: ((Zpos (XO (XO
    (XI (XO (XI (XI XH))))))) :: ((Zpos (XI (XO (XI (XI (XO
    XH)))))) :: ((Zpos (XO (XI (XI (XI (XO (XI XH))))))) :: ((Zpos (XO (XO
    (XI (XO (XI (XI XH))))))) :: ((Zpos (XO (XO (XO (XI (XO (XI
    XH))))))) :: [])))))))))))), (KReq (((S (S (S (S (S (S (S (S (S (S (S
    O))))))))))) :: []), PNthT))) :: ((((Zpos (XI (XO (XI (XI (XO
    XH)))))) :: ((Zpos (XI (XO (XI (XI (XO XH)))))) :: ((Zpos (XO (XO (XI (XO
    (XI (XI XH))))))) :: ((Zpos (XI (XO (XO (XO (XO (XI XH))))))) :: ((Zpos
    (XI (XO (XO (XI (XO (XI XH))))))) :: ((Zpos (XO (XO (XI (XI (XO (XI
    XH))))))) :: [])))))), (KReq (((S (S (S (S (S (S (S (S (S (S (S (S (S (S
    (S (S O)))))))))))))))) :: []), PPosInt))) :: ((((Zpos (XI (XO (XI (XI
    (XO XH)))))) :: ((Zpos (XI (XO (XI (XI (XO XH)))))) :: ((Zpos (XO (XO (XI
    (XI (XO (XI XH))))))) :: ((Zpos (XI (XO (XO (XO (XO (XI
    XH))))))) :: ((Zpos (XI (XO (XO (XI (XI (XI XH))))))) :: ((Zpos (XI (XI
    (XI (XI (XO (XI XH))))))) :: ((Zpos (XI (XO (XI (XO (XI (XI
    XH))))))) :: ((Zpos (XO (XO (XI (XO (XI (XI XH))))))) :: [])))))))),
    (KReq (((S (S (S (S (S (S (S (S (S (S (S (S (S (S (S (S (S (S (S
    O))))))))))))))))))) :: []), PLayout))) :: ((((Zpos (XI (XO (XI (XI (XO
    XH)))))) :: ((Zpos (XI (XO (XI (XI (XO XH)))))) :: ((Zpos (XI (XO (XO (XI
    (XO (XI XH))))))) :: ((Zpos (XO (XI (XI (XI (XO (XI XH))))))) :: ((Zpos
    (XO (XI (XI (XO (XO (XI XH))))))) :: ((Zpos (XI (XI (XI (XI (XO (XI
    XH))))))) :: ((Zpos (XI (XO (XI (XI (XO XH)))))) :: ((Zpos (XI (XI (XO
    (XO (XO (XI XH))))))) :: ((Zpos (XI (XI (XI (XI (XO (XI
    XH))))))) :: ((Zpos (XI (XO (XI (XI (XO (XI XH))))))) :: ((Zpos (XI (XO
    (XI (XI (XO (XI XH))))))) :: ((Zpos (XI (XO (XO (XO (XO (XI
    XH))))))) :: ((Zpos (XO (XI (XI (XI (XO (XI XH))))))) :: ((Zpos (XO (XO
    (XI (XO (XO (XI XH))))))) :: [])))))))))))))), (KReq (((S (S (S (S (S (S
    (S (S (S (S (S (S (S (S (S (S (S (S (S (S (S (S (S (S (S (S (S (S (S (S
    (S (S (S (S (S (S (S (S (S (S (S (S (S (S (S (S (S (S (S (S (S (S (S (S
    (S (S (S (S (S
    O))))))))))))))))))))))))))))))))))))))))))))))))))))))))))) :: []),
    PStr))) :: ((((Zpos (XI (XO (XI (XI (XO XH)))))) :: ((Zpos (XI (XO (XI
    (XI (XO XH)))))) :: ((Zpos (XI (XI (XI (XO (XO (XI XH))))))) :: ((Zpos
    (XO (XO (XO (XI (XO (XI XH))))))) :: ((Zpos (XI (XI (XI (XI (XO (XI
    XH))))))) :: ((Zpos (XI (XI (XO (XO (XI (XI XH))))))) :: ((Zpos (XO (XO
    (XI (XO (XI (XI XH))))))) :: []))))))), (KReq (((S (S (S (S (S (S (S (S
    (S (S (S (S (S (S (S (S (S (S (S (S (S (S (S (S (S (S (S (S (S (S (S (S
    (S (S (S (S (S (S (S (S O)))))))))))))))))))))))))))))))))))))))) :: []),
    PStr))) :: ((((Zpos (XI (XO (XI (XI (XO XH)))))) :: ((Zpos (XI (XO (XI
    (XI (XO XH)))))) :: ((Zpos (XO (XO (XO (XO (XI (XI XH))))))) :: ((Zpos
    (XO (XI (XO (XO (XI (XI XH))))))) :: ((Zpos (XI (XI (XI (XI (XO (XI
    XH))))))) :: ((Zpos (XI (XO (XI (XI (XO (XI XH))))))) :: ((Zpos (XO (XO
    (XO (XO (XI (XI XH))))))) :: ((Zpos (XO (XO (XI (XO (XI (XI
    XH))))))) :: [])))))))), (KReq (((S (S (S (S (S (S (S (S (S (S (S (S (S
    (S (S (S (S (S (S (S (S (S (S (S (S (S (S (S (S (S (S (S (S (S (S (S (S
    (S (S O))))))))))))))))))))))))))))))))))))))) :: []),
    PStr))) :: ((((Zpos (XI (XO (XI (XI (XO XH)))))) :: ((Zpos (XI (XO (XI
    (XI (XO XH)))))) :: ((Zpos (XO (XO (XO (XI (XO (XI XH))))))) :: ((Zpos
    (XI (XO (XI (XO (XO (XI XH))))))) :: ((Zpos (XI (XO (XO (XO (XO (XI
    XH))))))) :: ((Zpos (XO (XO (XI (XO (XO (XI XH))))))) :: ((Zpos (XI (XO
    (XI (XO (XO (XI XH))))))) :: ((Zpos (XO (XI (XO (XO (XI (XI
    XH))))))) :: [])))))))), (KReq (((S (S (S (S (S (S (S (S (S (S (S (S (S
    (S (S (S (S (S (S (S (S (S (S (S (S (S (S (S (S (S (S (S
    O)))))))))))))))))))))))))))))))) :: []), PLines))) :: ((((Zpos (XI (XO
    (XI (XI (XO XH)))))) :: ((Zpos (XI (XO (XI (XI (XO XH)))))) :: ((Zpos (XO
    (XO (XO (XI (XO (XI XH))))))) :: ((Zpos (XI (XO (XI (XO (XO (XI
    XH))))))) :: ((Zpos (XI (XO (XO (XO (XO (XI XH))))))) :: ((Zpos (XO (XO
    (XI (XO (XO (XI XH))))))) :: ((Zpos (XI (XO (XI (XO (XO (XI
    XH))))))) :: ((Zpos (XO (XI (XO (XO (XI (XI XH))))))) :: ((Zpos (XI (XO
    (XI (XI (XO XH)))))) :: ((Zpos (XO (XO (XI (XI (XO (XI
    XH))))))) :: ((Zpos (XI (XO (XO (XI (XO (XI XH))))))) :: ((Zpos (XO (XI
    (XI (XI (XO (XI XH))))))) :: ((Zpos (XI (XO (XI (XO (XO (XI
    XH))))))) :: ((Zpos (XI (XI (XO (XO (XI (XI
    XH))))))) :: [])))))))))))))), (KReq (((S (S (S (S (S (S (S (S (S (S (S
    (S (S (S (S (S (S (S (S (S (S (S (S (S (S (S (S (S (S (S (S (S (S
    O))))))))))))))))))))))))))))))))) :: []), PInt))) :: ((((Zpos (XI (XO
    (XI (XI (XO XH)))))) :: ((Zpos (XI (XO (XI (XI (XO XH)))))) :: ((Zpos (XO
    (XO (XO (XI (XO (XI XH))))))) :: ((Zpos (XI (XI (XO (XO (XI (XI
    XH))))))) :: ((Zpos (XI (XI (XO (XO (XO (XI XH))))))) :: ((Zpos (XO (XI
    (XO (XO (XI (XI XH))))))) :: ((Zpos (XI (XI (XI (XI (XO (XI
    XH))))))) :: ((Zpos (XO (XO (XI (XI (XO (XI XH))))))) :: ((Zpos (XO (XO
    (XI (XI (XO (XI XH))))))) :: ((Zpos (XI (XO (XI (XI (XO
    XH)))))) :: ((Zpos (XI (XI (XI (XI (XO (XI XH))))))) :: ((Zpos (XO (XI
    (XI (XO (XO (XI XH))))))) :: ((Zpos (XO (XI (XI (XO (XO (XI
    XH))))))) :: []))))))))))))), (KReq (((S (S (S (S (S (S (S (S (S (S (S (S
    (S (S (S (S (S (S (S (S (S (S (S (S (S (S (S (S (S (S (S (S (S (S (S (S
    (S (S (S (S (S (S O)))))))))))))))))))))))))))))))))))))))))) :: []),
    PInt))) :: ((((Zpos (XI (XO (XI (XI (XO XH)))))) :: ((Zpos (XI (XO (XI
    (XI (XO XH)))))) :: ((Zpos (XI (XI (XO (XO (XI (XI XH))))))) :: ((Zpos
    (XI (XI (XO (XO (XO (XI XH))))))) :: ((Zpos (XO (XI (XO (XO (XI (XI
    XH))))))) :: ((Zpos (XI (XI (XI (XI (XO (XI XH))))))) :: ((Zpos (XO (XO
    (XI (XI (XO (XI XH))))))) :: ((Zpos (XO (XO (XI (XI (XO (XI
    XH))))))) :: ((Zpos (XI (XO (XI (XI (XO XH)))))) :: ((Zpos (XI (XI (XI
    (XI (XO (XI XH))))))) :: ((Zpos (XO (XI (XI (XO (XO (XI
    XH))))))) :: ((Zpos (XO (XI (XI (XO (XO (XI XH))))))) :: [])))))))))))),
    (KReq (((S (S (S (S (S (S (S (S (S (S (S (S (S (S (S (S (S (S (S (S (S (S
    (S (S (S (S (S (S (S (S (S (S (S (S (S (S (S (S (S (S (S (S (S
    O))))))))))))))))))))))))))))))))))))))))))) :: []), PInt))) :: ((((Zpos
    (XI (XO (XI (XI (XO XH)))))) :: ((Zpos (XI (XO (XI (XI (XO
    XH)))))) :: ((Zpos (XO (XO (XI (XO (XI (XI XH))))))) :: ((Zpos (XI (XO
    (XO (XO (XO (XI XH))))))) :: ((Zpos (XO (XI (XO (XO (XO (XI
    XH))))))) :: ((Zpos (XI (XI (XO (XO (XI (XI XH))))))) :: ((Zpos (XO (XO
    (XI (XO (XI (XI XH))))))) :: ((Zpos (XI (XI (XI (XI (XO (XI
    XH))))))) :: ((Zpos (XO (XO (XO (XO (XI (XI XH))))))) :: []))))))))),
    (KReq (((S (S (S (S (S (S (S (S (S (S (S (S (S (S (S (S (S (S (S (S (S (S
    (S (S (S (S (S (S (S (S (S (S (S (S (S (S (S (S (S (S (S
    O))))))))))))))))))))))))))))))))))))))))) :: []), PInt))) :: ((((Zpos
    (XI (XO (XI (XI (XO XH)))))) :: ((Zpos (XI (XO (XI (XI (XO
    XH)))))) :: ((Zpos (XO (XO (XO (XO (XI (XI XH))))))) :: ((Zpos (XO (XI
    (XO (XO (XI (XI XH))))))) :: ((Zpos (XI (XO (XI (XO (XO (XI
    XH))))))) :: ((Zpos (XO (XI (XI (XO (XI (XI XH))))))) :: ((Zpos (XI (XO
    (XO (XI (XO (XI XH))))))) :: ((Zpos (XI (XO (XI (XO (XO (XI
    XH))))))) :: ((Zpos (XI (XI (XI (XO (XI (XI XH))))))) :: []))))))))),
    (KReq (((S (S (S (S (S (S (S (S (S (S (S (S (S (S (S (S (S (S (S (S (S (S
    (S (S (S (S (S (S (S (S (S (S (S (S (S (S (S (S (S (S (S (S (S (S (S (S
    (S (S (S (S (S (S (S (S (S (S (S (S (S (S (S
    O))))))))))))))))))))))))))))))))))))))))))))))))))))))))))))) :: []),
    PStr))) :: ((((Zpos (XI (XO (XI (XI (XO XH)))))) :: ((Zpos (XI (XO (XI
    (XI (XO XH)))))) :: ((Zpos (XO (XO (XO (XI (XO (XI XH))))))) :: ((Zpos
    (XI (XO (XI (XO (XO (XI XH))))))) :: ((Zpos (XI (XO (XO (XI (XO (XI
    XH))))))) :: ((Zpos (XI (XI (XI (XO (XO (XI XH))))))) :: ((Zpos (XO (XO
    (XO (XI (XO (XI XH))))))) :: ((Zpos (XO (XO (XI (XO (XI (XI
    XH))))))) :: [])))))))), (KReq (((S (S (S (S (S (S (S (S (S (S (S (S (S
    (S (S (S (S (S (S (S (S O))))))))))))))))))))) :: []),
    PHeight))) :: ((((Zpos (XI (XO (XI (XI (XO XH)))))) :: ((Zpos (XI (XO (XI
    (XI (XO XH)))))) :: ((Zpos (XI (XI (XI (XO (XI (XI XH))))))) :: ((Zpos
    (XI (XO (XO (XI (XO (XI XH))))))) :: ((Zpos (XO (XO (XI (XO (XI (XI
    XH))))))) :: ((Zpos (XO (XO (XO (XI (XO (XI XH))))))) :: ((Zpos (XI (XO
    (XI (XI (XO XH)))))) :: ((Zpos (XI (XI (XO (XO (XI (XI
    XH))))))) :: ((Zpos (XO (XO (XO (XI (XO (XI XH))))))) :: ((Zpos (XI (XO
    (XI (XO (XO (XI XH))))))) :: ((Zpos (XO (XO (XI (XI (XO (XI
    XH))))))) :: ((Zpos (XO (XO (XI (XI (XO (XI XH))))))) :: [])))))))))))),
    (KReq (((S (S (S (S (S (S (S (S (S (S (S (S (S (S (S (S (S (S (S (S (S (S
    (S (S (S (S (S (S (S (S (S (S (S (S (S (S (S (S (S (S (S (S (S (S (S (S
    (S (S (S (S (S (S (S (S (S (S (S (S (S (S
    O)))))))))))))))))))))))))))))))))))))))))))))))))))))))))))) :: []),
    PStr))) :: ((((Zpos (XI (XO (XI (XI (XO XH)))))) :: ((Zpos (XI (XO (XI
    (XI (XO XH)))))) :: ((Zpos (XI (XI (XI (XO (XI (XI XH))))))) :: ((Zpos
    (XI (XO (XO (XO (XO (XI XH))))))) :: ((Zpos (XO (XO (XI (XI (XO (XI
    XH))))))) :: ((Zpos (XI (XI (XO (XI (XO (XI XH))))))) :: ((Zpos (XI (XO
    (XI (XO (XO (XI XH))))))) :: ((Zpos (XO (XI (XO (XO (XI (XI
    XH))))))) :: [])))))))), (KReq (((S (S (S (S (S (S (S (S (S (S (S (S (S
    (S (S (S (S (S (S (S (S (S (S (S (S (S (S (S (S (S (S (S (S (S (S (S
    O)))))))))))))))))))))))))))))))))))) :: []), PWalker))) :: ((((Zpos (XI
    (XO (XI (XI (XO XH)))))) :: ((Zpos (XI (XO (XI (XI (XO XH)))))) :: ((Zpos
    (XI (XI (XI (XO (XI (XI XH))))))) :: ((Zpos (XI (XO (XO (XO (XO (XI
    XH))))))) :: ((Zpos (XO (XO (XI (XI (XO (XI XH))))))) :: ((Zpos (XI (XI
    (XO (XI (XO (XI XH))))))) :: ((Zpos (XI (XO (XI (XO (XO (XI
    XH))))))) :: ((Zpos (XO (XI (XO (XO (XI (XI XH))))))) :: ((Zpos (XI (XO
    (XI (XI (XO XH)))))) :: ((Zpos (XI (XI (XO (XO (XI (XI
    XH))))))) :: ((Zpos (XI (XI (XO (XI (XO (XI XH))))))) :: ((Zpos (XI (XO
    (XO (XI (XO (XI XH))))))) :: ((Zpos (XO (XO (XO (XO (XI (XI
    XH))))))) :: []))))))))))))), (KReq (((S (S (S (S (S (S (S (S (S (S (S (S
    (S (S (S (S (S (S (S (S (S (S (S (S (S (S (S (S (S (S (S (S (S (S (S (S
    (S (S O)))))))))))))))))))))))))))))))))))))) :: []),
    PSkip))) :: ((((Zpos (XI (XO (XI (XI (XO XH)))))) :: ((Zpos (XI (XI (XO
    (XO (XI (XI XH))))))) :: [])), (KOptNum ((S (S (S (S (S (S (S (S (S (S (S
    (S (S O))))))))))))), (Zpos XH)))) :: ((((Zpos (XI (XO (XI (XI (XO
    XH)))))) :: ((Zpos (XI (XO (XI (XI (XO XH)))))) :: ((Zpos (XI (XI (XO (XO
    (XI (XI XH))))))) :: ((Zpos (XI (XI (XI (XI (XO (XI XH))))))) :: ((Zpos
    (XO (XI (XO (XO (XI (XI XH))))))) :: ((Zpos (XO (XO (XI (XO (XI (XI
    XH))))))) :: [])))))), (KOptNum ((S (S (S (S (S (S (S (S (S (S (S (S (S
    O))))))))))))), (Zpos XH)))) :: ((((Zpos (XI (XO (XI (XI (XO
    XH)))))) :: ((Zpos (XI (XO (XI (XI (XO (XI XH))))))) :: [])), (KOptNum
    ((S (S (S (S (S (S (S (S (S (S (S (S (S (S (S (S (S O))))))))))))))))),
    (Zpos (XI (XI (XI (XI (XI (XI (XI (XI (XI (XI (XI (XI (XI (XI (XI (XI (XI
    (XI (XI (XI (XI (XI (XI (XI (XI (XI (XI (XI (XI (XI
    XH)))))))))))))))))))))))))))))))))) :: ((((Zpos (XI (XO (XI (XI (XO
    XH)))))) :: ((Zpos (XI (XO (XI (XI (XO XH)))))) :: ((Zpos (XI (XO (XI (XI
    (XO (XI XH))))))) :: ((Zpos (XI (XO (XI (XO (XI (XI XH))))))) :: ((Zpos
    (XO (XO (XI (XI (XO (XI XH))))))) :: ((Zpos (XO (XO (XI (XO (XI (XI
    XH))))))) :: ((Zpos (XI (XO (XO (XI (XO (XI XH))))))) :: []))))))),
    (KOptNum ((S (S (S (S (S (S (S (S (S (S (S (S (S (S (S (S (S
    O))))))))))))))))), (Zpos (XI (XI (XI (XI (XI (XI (XI (XI (XI (XI (XI (XI
    (XI (XI (XI (XI (XI (XI (XI (XI (XI (XI (XI (XI (XI (XI (XI (XI (XI (XI
    XH)))))))))))))))))))))))))))))))))) :: ((((Zpos (XI (XO (XI (XI (XO
    XH)))))) :: ((Zpos (XI (XO (XI (XI (XO XH)))))) :: ((Zpos (XI (XI (XI (XO
    (XO (XI XH))))))) :: ((Zpos (XI (XO (XO (XO (XO (XI XH))))))) :: ((Zpos
    (XO (XO (XO (XO (XI (XI XH))))))) :: []))))), (KOptNum ((S (S (S (S (S (S
    (S (S (S (S (S (S (S (S (S (S (S (S (S (S (S (S (S (S (S (S (S (S (S (S
    (S (S (S (S (S (S (S (S (S (S (S (S (S (S
    O)))))))))))))))))))))))))))))))))))))))))))), (Zpos XH)))) :: ((((Zpos
    (XI (XO (XI (XI (XO XH)))))) :: ((Zpos (XI (XO (XI (XI (XO
    XH)))))) :: ((Zpos (XO (XO (XI (XI (XO (XI XH))))))) :: ((Zpos (XI (XO
    (XO (XI (XO (XI XH))))))) :: ((Zpos (XI (XI (XO (XO (XI (XI
    XH))))))) :: ((Zpos (XO (XO (XI (XO (XI (XI XH))))))) :: ((Zpos (XI (XO
    (XI (XO (XO (XI XH))))))) :: ((Zpos (XO (XI (XI (XI (XO (XI
    XH))))))) :: [])))))))), (KListen false)) :: ((((Zpos (XI (XO (XI (XI (XO
    XH)))))) :: ((Zpos (XI (XO (XI (XI (XO XH)))))) :: ((Zpos (XO (XO (XI (XI
    (XO (XI XH))))))) :: ((Zpos (XI (XO (XO (XI (XO (XI XH))))))) :: ((Zpos
    (XI (XI (XO (XO (XI (XI XH))))))) :: ((Zpos (XO (XO (XI (XO (XI (XI
    XH))))))) :: ((Zpos (XI (XO (XI (XO (XO (XI XH))))))) :: ((Zpos (XO (XI
    (XI (XI (XO (XI XH))))))) :: ((Zpos (XI (XO (XI (XI (XO
    XH)))))) :: ((Zpos (XI (XO (XI (XO (XI (XI XH))))))) :: ((Zpos (XO (XI
    (XI (XI (XO (XI XH))))))) :: ((Zpos (XI (XI (XO (XO (XI (XI
    XH))))))) :: ((Zpos (XI (XO (XO (XO (XO (XI XH))))))) :: ((Zpos (XO (XI
    (XI (XO (XO (XI XH))))))) :: ((Zpos (XI (XO (XI (XO (XO (XI
    XH))))))) :: []))))))))))))))), (KListen true)) :: ((((Zpos (XI (XO (XI
    (XI (XO XH)))))) :: ((Zpos (XI (XO (XI (XI (XO XH)))))) :: ((Zpos (XI (XI
    (XI (XO (XI (XI XH))))))) :: ((Zpos (XI (XO (XO (XO (XO (XI
    XH))))))) :: ((Zpos (XO (XO (XI (XI (XO (XI XH))))))) :: ((Zpos (XI (XI
    (XO (XI (XO (XI XH))))))) :: ((Zpos (XI (XO (XI (XO (XO (XI
    XH))))))) :: ((Zpos (XO (XI (XO (XO (XI (XI XH))))))) :: ((Zpos (XI (XO
    (XI (XI (XO XH)))))) :: ((Zpos (XO (XI (XO (XO (XI (XI
    XH))))))) :: ((Zpos (XI (XI (XI (XI (XO (XI XH))))))) :: ((Zpos (XI (XI
    (XI (XI (XO (XI XH))))))) :: ((Zpos (XO (XO (XI (XO (XI (XI
    XH))))))) :: []))))))))))))), (KDirs (S (S (S (S (S (S (S (S (S (S (S (S
    (S (S (S (S (S (S (S (S (S (S (S (S (S (S (S (S (S (S (S (S (S (S (S (S
    (S O))))))))))))))))))))))))))))))))))))))) :: ((((Zpos (XI (XO (XI (XI
    (XO XH)))))) :: ((Zpos (XI (XO (XI (XI (XO XH)))))) :: ((Zpos (XO (XO (XO
    (XI (XO (XI XH))))))) :: ((Zpos (XI (XO (XO (XI (XO (XI
    XH))))))) :: ((Zpos (XI (XI (XO (XO (XI (XI XH))))))) :: ((Zpos (XO (XO
    (XI (XO (XI (XI XH))))))) :: ((Zpos (XI (XI (XI (XI (XO (XI
    XH))))))) :: ((Zpos (XO (XI (XO (XO (XI (XI XH))))))) :: ((Zpos (XI (XO
    (XO (XI (XI (XI XH))))))) :: []))))))))), KHistory) :: ((((Zpos (XI (XO
    (XI (XI (XO XH)))))) :: ((Zpos (XI (XO (XI (XI (XO XH)))))) :: ((Zpos (XO
    (XO (XO (XI (XO (XI XH))))))) :: ((Zpos (XI (XO (XO (XI (XO (XI
    XH))))))) :: ((Zpos (XI (XI (XO (XO (XI (XI XH))))))) :: ((Zpos (XO (XO
    (XI (XO (XI (XI XH))))))) :: ((Zpos (XI (XI (XI (XI (XO (XI
    XH))))))) :: ((Zpos (XO (XI (XO (XO (XI (XI XH))))))) :: ((Zpos (XI (XO
    (XO (XI (XI (XI XH))))))) :: ((Zpos (XI (XO (XI (XI (XO
    XH)))))) :: ((Zpos (XI (XI (XO (XO (XI (XI XH))))))) :: ((Zpos (XI (XO
    (XO (XI (XO (XI XH))))))) :: ((Zpos (XO (XI (XO (XI (XI (XI
    XH))))))) :: ((Zpos (XI (XO (XI (XO (XO (XI
    XH))))))) :: [])))))))))))))), KHistorySize) :: ((((Zpos (XI (XO (XI (XI
    (XO XH)))))) :: ((Zpos (XI (XO (XI (XI (XO XH)))))) :: ((Zpos (XI (XO (XI
    (XO (XO (XI XH))))))) :: ((Zpos (XO (XO (XO (XI (XI (XI
    XH))))))) :: ((Zpos (XO (XO (XO (XO (XI (XI XH))))))) :: ((Zpos (XI (XO
    (XI (XO (XO (XI XH))))))) :: ((Zpos (XI (XI (XO (XO (XO (XI
    XH))))))) :: ((Zpos (XO (XO (XI (XO (XI (XI XH))))))) :: [])))))))),
    KExpect) :: ((((Zpos (XI (XO (XI (XI (XO XH)))))) :: ((Zpos (XI (XO (XI
    (XI (XO XH)))))) :: ((Zpos (XO (XI (XI (XI (XO (XI XH))))))) :: ((Zpos
    (XI (XI (XI (XI (XO (XI XH))))))) :: ((Zpos (XI (XO (XI (XI (XO
    XH)))))) :: ((Zpos (XI (XO (XI (XO (XO (XI XH))))))) :: ((Zpos (XO (XO
    (XO (XI (XI (XI XH))))))) :: ((Zpos (XO (XO (XO (XO (XI (XI
    XH))))))) :: ((Zpos (XI (XO (XI (XO (XO (XI XH))))))) :: ((Zpos (XI (XI
    (XO (XO (XO (XI XH))))))) :: ((Zpos (XO (XO (XI (XO (XI (XI
    XH))))))) :: []))))))))))), KNoExpect) :: ((((Zpos (XI (XO (XI (XI (XO
    XH)))))) :: ((Zpos (XI (XO (XI (XI (XO XH)))))) :: ((Zpos (XO (XI (XO (XO
    (XO (XI XH))))))) :: ((Zpos (XI (XO (XO (XI (XO (XI XH))))))) :: ((Zpos
    (XO (XI (XI (XI (XO (XI XH))))))) :: ((Zpos (XO (XO (XI (XO (XO (XI
    XH))))))) :: [])))))),
    KBind) :: [])))))))))))))))))))))))))))))))))))))))))))))))))))))))))))))))))))))))))))))))))))))))))))))))))))))))))))))))))))))))))))))))))))))))))

(** val kind_writes : okind -> field list **)

let kind_writes = function
| KFlag ws -> map fst ws
| KReq (fs0, _) -> fs0
| KOptNum (f, _) -> f :: []
| KListen _ -> f_LISTEN :: (f_UNSAFE :: [])
| KDirs f -> f :: []
| KHistory -> f_HISTORY :: (f_HISTMAX :: [])
| KHistorySize -> f_HMAXLOCAL :: (f_HISTMAX :: [])
| _ -> []

(** val consumes_val : okind -> bool **)

let consumes_val = function
| KFlag _ -> false
| KNoExpect -> false
| _ -> true

(** val break_eq : str -> str -> str * str option **)

let rec break_eq cur = function
| [] -> ((rev cur), None)
| c :: r ->
  if Z.eqb c (Zpos (XI (XO (XI (XI (XI XH))))))
  then ((rev cur), (Some r))
  else break_eq (c :: cur) r

(** val split_arg : str -> str * str option **)

let split_arg a =
  if has_prefix (dASH :: (dASH :: [])) a then break_eq [] a else (a, None)

(** val s_q : str **)

let s_q =
  (Zpos (XI (XO (XI (XI (XO XH)))))) :: ((Zpos (XI (XO (XO (XO (XI (XI
    XH))))))) :: [])

(** val s_f0 : str **)

let s_f0 =
  (Zpos (XI (XO (XI (XI (XO XH)))))) :: ((Zpos (XO (XI (XI (XO (XO (XI
    XH))))))) :: [])

(** val s_d : str **)

let s_d =
  (Zpos (XI (XO (XI (XI (XO XH)))))) :: ((Zpos (XO (XO (XI (XO (XO (XI
    XH))))))) :: [])

(** val s_n : str **)

let s_n =
  (Zpos (XI (XO (XI (XI (XO XH)))))) :: ((Zpos (XO (XI (XI (XI (XO (XI
    XH))))))) :: [])

(** val s_s : str **)

let s_s =
  (Zpos (XI (XO (XI (XI (XO XH)))))) :: ((Zpos (XI (XI (XO (XO (XI (XI
    XH))))))) :: [])

(** val s_m : str **)

let s_m =
  (Zpos (XI (XO (XI (XI (XO XH)))))) :: ((Zpos (XI (XO (XI (XI (XO (XI
    XH))))))) :: [])

(** val attached : str -> (okind * str option) option **)

let attached name =
  let v = skipn (S (S O)) name in
  if has_prefix s_q name
  then Some ((KFlag ((f_QUERY, (vstr v)) :: [])), None)
  else if has_prefix s_f0 name
       then Some ((KFlag ((f_FILTER, (vsome (vstr v))) :: [])), None)
       else if has_prefix s_d name
            then Some ((KReq ((f_DELIM :: []), PDelim)), (Some v))
            else if has_prefix s_n name
                 then Some ((KReq ((f_NTH :: []), PNth)), (Some v))
                 else if has_prefix s_s name
                      then Some ((KFlag ((f_SORT, (VI (Zpos XH))) :: [])),
                             None)
                      else if has_prefix s_m name
                           then Some ((KOptNum (f_MULTI, mAX_MULTI)), (Some
                                  v))
                           else None

(** val resolve : str -> (okind * str option) option **)

let resolve a =
  let (name, v) = split_arg a in
  (match assoc_str name opt_table with
   | Some k -> Some (k, v)
   | None ->
     (match attached name with
      | Some p ->
        let (k, o) = p in
        (match o with
         | Some x -> Some (k, (Some x))
         | None -> Some (k, v))
      | None -> None))

(** val writes : str -> field list **)

let writes a =
  match resolve a with
  | Some p -> let (k, _) = p in kind_writes k
  | None -> []

(** val starts_with : z -> str -> bool **)

let starts_with c = function
| [] -> false
| x :: _ -> Z.eqb x c

(** val next_string : str option -> str list -> (str * nat) option **)

let next_string v rest =
  match v with
  | Some x -> Some (x, O)
  | None -> (match rest with
             | [] -> None
             | a :: _ -> Some (a, (S O)))

(** val take_dirs : env -> str list -> str list **)

let rec take_dirs e = function
| [] -> []
| a :: r -> if e.isdir a then a :: (take_dirs e r) else []

(** val history_set : cfg0 -> bool **)

let history_set c =
  match c.fv0 f_HISTORY with
  | VI _ -> false
  | VL l -> (match l with
             | [] -> false
             | _ :: _ -> true)

(** val exec :
    env -> okind -> str option -> cfg0 -> str list -> (cfg0 * nat) outcome res **)

let exec e k v c rest =
  match k with
  | KFlag ws -> Ok (Good ((setfs ws c), O))
  | KReq (fs0, p) ->
    (match next_string v rest with
     | Some p0 ->
       let (s, n) = p0 in
       (match run_parser p s with
        | Some vals -> Ok (Good ((setfs (combine fs0 vals) c), n))
        | None -> Ok (Bad e_BAD_VALUE))
     | None -> Ok (Bad e_VALUE_REQUIRED))
  | KOptNum (f, d) ->
    (match v with
     | Some x ->
       (match atoi0 x with
        | Some n -> Ok (Good ((setf f (VI n) c), O))
        | None -> Ok (Bad e_BAD_VALUE))
     | None ->
       (match rest with
        | [] -> Ok (Good ((setf f (VI d) c), O))
        | a :: _ ->
          if match a with
             | [] -> false
             | ch :: _ -> is_digit ch
          then (match atoi0 a with
                | Some n -> Ok (Good ((setf f (VI n) c), (S O)))
                | None -> Ok (Bad e_BAD_VALUE))
          else Ok (Good ((setf f (VI d) c), O))))
  | KListen unsafe ->
    let given =
      match v with
      | Some x -> Some (x, O)
      | None ->
        (match rest with
         | [] -> None
         | a :: _ ->
           if (||) (starts_with dASH a) (starts_with pLUS a)
           then None
           else Some (a, (S O)))
    in
    (match given with
     | Some p ->
       let (s, n) = p in
       (match parse_listen s with
        | Some a ->
          Ok (Good
            ((setfs ((f_LISTEN, (vsome a)) :: ((f_UNSAFE,
               (vbool unsafe)) :: [])) c), n))
        | None -> Ok (Bad e_BAD_VALUE))
     | None ->
       Ok (Good
         ((setfs ((f_LISTEN,
            (vsome (VL ((vstr s_localhost) :: ((VI Z0) :: []))))) :: ((f_UNSAFE,
            (vbool unsafe)) :: [])) c), O)))
  | KDirs f ->
    let ds = take_dirs e rest in
    let all = match v with
              | Some x -> x :: ds
              | None -> ds in
    (match all with
     | [] -> Ok (Bad e_VALUE_REQUIRED)
     | _ :: _ -> Ok (Good ((setf f (vstrs all) c), (length ds))))
  | KHistory ->
    (match next_string v rest with
     | Some p ->
       let (s, n) = p in
       if e.histok s
       then Ok (Good
              ((setfs ((f_HISTORY, (vsome (vstr s))) :: ((f_HISTMAX,
                 (c.fv0 f_HMAXLOCAL)) :: [])) c), n))
       else Ok (Bad e_HISTORY)
     | None -> Ok (Bad e_VALUE_REQUIRED))
  | KHistorySize ->
    (match next_string v rest with
     | Some p ->
       let (s, n) = p in
       (match atoi0 s with
        | Some m ->
          if Z.ltb m (Zpos XH)
          then Ok (Bad e_BAD_VALUE)
          else Ok (Good
                 ((setfs ((f_HMAXLOCAL, (VI
                    m)) :: (if history_set c
                            then (f_HISTMAX, (VI m)) :: []
                            else [])) c), n))
        | None -> Ok (Bad e_BAD_VALUE))
     | None -> Ok (Bad e_VALUE_REQUIRED))
  | KExpect ->
    (match next_string v rest with
     | Some p ->
       let (s, n) = p in
       (match parse_key_chords s with
        | Good ks ->
          Ok (Good ({ fv0 = c.fv0; kmap = c.kmap; expect =
            (fold_left (fun acc k0 -> add_key k0 acc) ks c.expect) }, n))
        | Bad x -> Ok (Bad x))
     | None -> Ok (Bad e_VALUE_REQUIRED))
  | KNoExpect -> Ok (Good ({ fv0 = c.fv0; kmap = c.kmap; expect = [] }, O))
  | KBind ->
    (match next_string v rest with
     | Some p ->
       let (s, n) = p in
       bind (parse_keymap c.kmap s) (fun o ->
         match o with
         | Good m ->
           Ok (Good ({ fv0 = c.fv0; kmap = m; expect = c.expect }, n))
         | Bad x -> Ok (Bad x))
     | None -> Ok (Bad e_VALUE_REQUIRED))

(** val step : env -> cfg0 -> str -> str list -> (cfg0 * nat) outcome res **)

let step e c a rest =
  match resolve a with
  | Some p ->
    let (k, v) = p in
    bind (exec e k v c rest) (fun o ->
      match o with
      | Good a0 ->
        let (c', n) = a0 in
        if consumes_val k
        then Ok (Good (c', n))
        else (match v with
              | Some _ -> Ok (Bad e_UNEXPECTED_VALUE)
              | None -> Ok (Good (c', n)))
      | Bad x -> Ok (Bad x))
  | None -> Ok (Bad e_UNKNOWN_OPTION)

(** val go : env -> cfg0 -> nat -> str list -> cfg0 outcome res **)

let rec go e c skip = function
| [] -> Ok (Good c)
| a :: rest ->
  (match skip with
   | O ->
     bind (step e c a rest) (fun o ->
       match o with
       | Good a0 -> let (c', n) = a0 in go e c' n rest
       | Bad x -> Ok (Bad x))
   | S k -> go e c k rest)

(** val as_z : val0 -> z **)

let as_z =
  as_int

(** val end_validate : cfg0 -> cfg0 outcome **)

let end_validate c =
  if Z.ltb (as_z (c.fv0 f_HEADERLINES)) Z0
  then Bad e_VALIDATION
  else if Z.ltb (as_z (c.fv0 f_HSCROLLOFF)) Z0
       then Bad e_VALIDATION
       else if Z.ltb (as_z (c.fv0 f_SCROLLOFF)) Z0
            then Bad e_VALIDATION
            else if Z.ltb (as_z (c.fv0 f_TABSTOP)) (Zpos XH)
                 then Bad e_VALIDATION
                 else Good c

(** val layer_init : cfg0 -> cfg0 **)

let layer_init c =
  setf f_HMAXLOCAL
    (if history_set c
     then c.fv0 f_HISTMAX
     else VI (Zpos (XO (XO (XO (XI (XO (XI (XI (XI (XI XH))))))))))) c

(** val parse_layer : env -> cfg0 -> str list -> cfg0 outcome res **)

let parse_layer e c args =
  bind (go e (layer_init c) O args) (fun o ->
    match o with
    | Good c' -> Ok (end_validate c')
    | Bad x -> Ok (Bad x))

(** val parse_layers : env -> cfg0 -> str list list -> cfg0 outcome res **)

let rec parse_layers e c = function
| [] -> Ok (Good c)
| l :: r ->
  bind (parse_layer e c l) (fun o ->
    match o with
    | Good c' -> parse_layers e c' r
    | Bad x -> Ok (Bad x))

(** val s_dotgit : str **)

let s_dotgit =
  (Zpos (XO (XI (XI (XI (XO XH)))))) :: ((Zpos (XI (XI (XI (XO (XO (XI
    XH))))))) :: ((Zpos (XI (XO (XO (XI (XO (XI XH))))))) :: ((Zpos (XO (XO
    (XI (XO (XI (XI XH))))))) :: [])))

(** val s_node_modules : str **)

let s_node_modules =
  (Zpos (XO (XI (XI (XI (XO (XI XH))))))) :: ((Zpos (XI (XI (XI (XI (XO (XI
    XH))))))) :: ((Zpos (XO (XO (XI (XO (XO (XI XH))))))) :: ((Zpos (XI (XO
    (XI (XO (XO (XI XH))))))) :: ((Zpos (XI (XI (XI (XI (XI (XO
    XH))))))) :: ((Zpos (XI (XO (XI (XI (XO (XI XH))))))) :: ((Zpos (XI (XI
    (XI (XI (XO (XI XH))))))) :: ((Zpos (XO (XO (XI (XO (XO (XI
    XH))))))) :: ((Zpos (XI (XO (XI (XO (XI (XI XH))))))) :: ((Zpos (XO (XO
    (XI (XI (XO (XI XH))))))) :: ((Zpos (XI (XO (XI (XO (XO (XI
    XH))))))) :: ((Zpos (XI (XI (XO (XO (XI (XI XH))))))) :: [])))))))))))

(** val s_prompt : str **)

let s_prompt =
  (Zpos (XO (XI (XI (XI (XI XH)))))) :: ((Zpos (XO (XO (XO (XO (XO
    XH)))))) :: [])

(** val default_cfg : cfg0 **)

let default_cfg =
  setfs ((f_FUZZY, t) :: ((f_EXTENDED, t) :: ((f_NORMALIZE, t) :: ((f_ALGO,
    (VI (Zpos (XO XH)))) :: ((f_SCHEME, (VL [])) :: ((f_CRITERIA, (VL
    [])) :: ((f_NTH, (VL [])) :: ((f_DELIM, vnone) :: ((f_SORT, (VI (Zpos (XO
    (XO (XO (XI (XO (XI (XI (XI (XI XH)))))))))))) :: ((f_HEIGHT,
    height_zero) :: ((f_QUERY, (VL [])) :: ((f_FILTER, vnone) :: ((f_HISTORY,
    vnone) :: ((f_HEADER, (VL [])) :: ((f_LISTEN, vnone) :: ((f_WALKER, (VL
    (t :: (fv :: (t :: (t :: [])))))) :: ((f_WALKERROOT,
    (vstrs ((dOT :: []) :: []))) :: ((f_WALKERSKIP,
    (vstrs (s_dotgit :: (s_node_modules :: [])))) :: ((f_PROMPT,
    (vstr s_prompt)) :: ((f_GHOST, (VL [])) :: ((f_TABSTOP, (VI (Zpos (XO (XO
    (XO XH)))))) :: ((f_HSCROLLOFF, (VI (Zpos (XO (XI (XO
    XH)))))) :: ((f_SCROLLOFF, (VI (Zpos (XI XH)))) :: ((f_MOUSE,
    t) :: ((f_BOLD, t) :: ((f_HSCROLL, t) :: ((f_MULTILINE, t) :: ((f_CLEAR,
    t) :: ((f_UNICODE, t) :: ((f_INFOCMD, (VL [])) :: ((f_WITHSHELL, (VL
    [])) :: ((f_PREVIEW, (VL [])) :: ((f_HMAXLOCAL, (VI (Zpos (XO (XO (XO (XI
    (XO (XI (XI (XI (XI XH)))))))))))) :: [])))))))))))))))))))))))))))))))))
    { fv0 = (fun _ -> VI Z0); kmap = []; expect = [] }

(** val s_reload : str **)

let s_reload =
  (Zpos (XO (XI (XO (XO (XI (XI XH))))))) :: ((Zpos (XI (XO (XI (XO (XO (XI
    XH))))))) :: ((Zpos (XO (XO (XI (XI (XO (XI XH))))))) :: ((Zpos (XI (XI
    (XI (XI (XO (XI XH))))))) :: ((Zpos (XI (XO (XO (XO (XO (XI
    XH))))))) :: ((Zpos (XO (XO (XI (XO (XO (XI XH))))))) :: [])))))

(** val s_reload_sync : str **)

let s_reload_sync =
  (Zpos (XO (XI (XO (XO (XI (XI XH))))))) :: ((Zpos (XI (XO (XI (XO (XO (XI
    XH))))))) :: ((Zpos (XO (XO (XI (XI (XO (XI XH))))))) :: ((Zpos (XI (XI
    (XI (XI (XO (XI XH))))))) :: ((Zpos (XI (XO (XO (XO (XO (XI
    XH))))))) :: ((Zpos (XO (XO (XI (XO (XO (XI XH))))))) :: ((Zpos (XI (XO
    (XI (XI (XO XH)))))) :: ((Zpos (XI (XI (XO (XO (XI (XI
    XH))))))) :: ((Zpos (XI (XO (XO (XI (XI (XI XH))))))) :: ((Zpos (XO (XI
    (XI (XI (XO (XI XH))))))) :: ((Zpos (XI (XI (XO (XO (XO (XI
    XH))))))) :: []))))))))))

(** val s_transform : str **)

let s_transform =
  (Zpos (XO (XO (XI (XO (XI (XI XH))))))) :: ((Zpos (XO (XI (XO (XO (XI (XI
    XH))))))) :: ((Zpos (XI (XO (XO (XO (XO (XI XH))))))) :: ((Zpos (XO (XI
    (XI (XI (XO (XI XH))))))) :: ((Zpos (XI (XI (XO (XO (XI (XI
    XH))))))) :: ((Zpos (XO (XI (XI (XO (XO (XI XH))))))) :: ((Zpos (XI (XI
    (XI (XI (XO (XI XH))))))) :: ((Zpos (XO (XI (XO (XO (XI (XI
    XH))))))) :: ((Zpos (XI (XO (XI (XI (XO (XI XH))))))) :: []))))))))

(** val s_start : str **)

let s_start =
  (Zpos (XI (XI (XO (XO (XI (XI XH))))))) :: ((Zpos (XO (XO (XI (XO (XI (XI
    XH))))))) :: ((Zpos (XI (XO (XO (XO (XO (XI XH))))))) :: ((Zpos (XO (XI
    (XO (XO (XI (XI XH))))))) :: ((Zpos (XO (XO (XI (XO (XI (XI
    XH))))))) :: []))))

(** val reload_on_start : cfg0 -> bool **)

let reload_on_start c =
  existsb (fun a ->
    (||) ((||) (str_eqb (fst a) s_reload) (str_eqb (fst a) s_reload_sync))
      (str_eqb (fst a) s_transform)) (km_get c.kmap (KNamed s_start))

(** val finalize : env -> cfg0 -> cfg0 **)

let finalize e c =
  match c.fv0 f_SCHEME with
  | VI _ -> c
  | VL l ->
    (match l with
     | [] ->
       (match c.fv0 f_CRITERIA with
        | VI _ -> setf f_SCHEME (vstr s_default) c
        | VL l0 ->
          (match l0 with
           | [] ->
             let s =
               if (&&) (negb (reload_on_start c)) e.tty
               then s_path
               else s_default
             in
             setfs ((f_SCHEME, (vstr s)) :: ((f_CRITERIA,
               (match scheme_criteria s with
                | Some l1 -> vints l1
                | None -> VL [])) :: [])) c
           | _ :: _ -> setf f_SCHEME (vstr s_default) c))
     | _ :: _ -> c)

(** val parse_all :
    env -> str list -> str list -> str list -> cfg0 outcome res **)

let parse_all e file envw argv =
  bind
    (parse_layers e default_cfg
      (app (filter nonemptyb (file :: (envw :: []))) (argv :: []))) (fun o ->
    match o with
    | Good c -> Ok (Good (finalize e c))
    | Bad x -> Ok (Bad x))

(** val dec_env : val0 -> env **)

let dec_env a =
  { isdir = (fun s -> mem_str s (as_strs (arg a O))); histok = (fun s ->
    mem_str s (as_strs (arg a (S O)))); tty = (as_bool (arg a (S (S O)))) }

(** val enc_cfg : cfg0 -> val0 **)

let enc_cfg c =
  VL ((VL (map c.fv0 (seq O nOBSERVABLE))) :: ((enc_keymap c.kmap) :: ((VL
    (map enc_key c.expect)) :: [])))

(** val option_effect : str -> str -> val0 **)

let option_effect name value =
  match assoc_str name opt_table with
  | Some o ->
    (match o with
     | KFlag ws ->
       VL (map (fun fvp -> VL ((vnat (fst fvp)) :: ((snd fvp) :: []))) ws)
     | KReq (fs0, p) ->
       (match run_parser p value with
        | Some vals ->
          VL
            (map (fun fvp -> VL ((vnat (fst fvp)) :: ((snd fvp) :: [])))
              (combine fs0 vals))
        | None -> VL [])
     | _ -> VL [])
  | None -> VL []

(** val dispatch_option : z -> val0 -> val0 option **)

let dispatch_option op a =
  if Z.eqb op (Zpos (XI (XI (XI (XI (XO (XI (XO (XI (XO (XI XH)))))))))))
  then Some
         (enc_out enc_cfg
           (parse_all (dec_env a) (as_strs (arg a (S (S (S O)))))
             (as_strs (arg a (S (S (S (S O))))))
             (as_strs (arg a (S (S (S (S (S O)))))))))
  else if Z.eqb op (Zpos (XO (XO (XO (XO (XI (XI (XO (XI (XO (XI XH)))))))))))
       then Some (option_effect (as_str (arg a O)) (as_str (arg a (S O))))
       else if Z.eqb op (Zpos (XI (XO (XO (XO (XI (XI (XO (XI (XO (XI
                 XH)))))))))))
            then Some (VL (map vnat (writes (as_str a))))
            else None

(** val eXIT_OK : z **)

let eXIT_OK =
  Z0

(** val eXIT_NOMATCH : z **)

let eXIT_NOMATCH =
  Zpos XH

(** val eXIT_ERROR : z **)

let eXIT_ERROR =
  Zpos (XO XH)

(** val eXIT_INTERRUPT : z **)

let eXIT_INTERRUPT =
  Zpos (XO (XI (XO (XO (XO (XO (XO XH)))))))

(** val nLb : z **)

let nLb =
  Zpos (XO (XI (XO XH)))

(** val nULb : z **)

let nULb =
  Z0

(** val terminator : bool -> z **)

let terminator = function
| true -> nULb
| false -> nLb

(** val frame : z -> str list -> str **)

let frame t0 parts =
  concat (map (fun p -> app p (t0 :: [])) parts)

(** val opt_part : bool -> str -> str list **)

let opt_part b s =
  if b then s :: [] else []

(** val shown : bool -> (str -> str) -> str -> str **)

let shown ansi strip r =
  if ansi then strip r else r

(** val matched_from : (nat -> str -> bool) -> nat -> str list -> str list **)

let rec matched_from m i = function
| [] -> []
| r :: t0 -> app (if m i r then r :: [] else []) (matched_from m (S i) t0)

(** val matched_records : (nat -> str -> bool) -> str list -> str list **)

let matched_records m rs =
  matched_from m O rs

(** val filter_parts : bool -> str -> str list -> str list **)

let filter_parts print_query query body =
  app (opt_part print_query query) body

(** val unsorted_body :
    bool -> bool -> (str -> str) -> (nat -> str -> bool) -> str list -> str
    list **)

let unsorted_body ansi tac strip m rs =
  let b = map (shown ansi strip) (matched_records m rs) in
  if tac then rev b else b

type ending =
| EAccept
| EPrintQuery
| EAbort
| EError

(** val exit_status : ending -> str list -> z **)

let exit_status e body =
  match e with
  | EAccept -> (match body with
                | [] -> eXIT_NOMATCH
                | _ :: _ -> eXIT_OK)
  | EPrintQuery -> eXIT_OK
  | EAbort -> eXIT_INTERRUPT
  | EError -> eXIT_ERROR

(** val accept_parts :
    bool -> str -> bool -> str -> str list -> str list -> str list **)

let accept_parts print_query query expect0 key0 queue body =
  app (opt_part print_query query)
    (app (opt_part expect0 key0) (app queue body))

(** val stdout_of :
    ending -> z -> bool -> str -> bool -> str -> str list -> str list -> str **)

let stdout_of e t0 print_query query expect0 key0 queue body =
  match e with
  | EAccept ->
    frame t0 (accept_parts print_query query expect0 key0 queue body)
  | EPrintQuery -> frame t0 (query :: [])
  | _ -> []

(** val sel_mem0 : ('a1 -> nat) -> 'a1 -> 'a1 list -> bool **)

let sel_mem0 key0 x sel0 =
  existsb (fun y -> Nat.eqb (key0 y) (key0 x)) sel0

(** val sel_remove0 : ('a1 -> nat) -> 'a1 -> 'a1 list -> 'a1 list **)

let sel_remove0 key0 x sel0 =
  filter (fun y -> negb (Nat.eqb (key0 y) (key0 x))) sel0

(** val sel_add0 :
    ('a1 -> nat) -> nat -> 'a1 -> 'a1 list -> 'a1 list * bool **)

let sel_add0 key0 limit x sel0 =
  if Nat.leb limit (length sel0)
  then (sel0, false)
  else if sel_mem0 key0 x sel0
       then (sel0, true)
       else ((app sel0 (x :: [])), true)

(** val sel_toggle0 : ('a1 -> nat) -> nat -> 'a1 -> 'a1 list -> 'a1 list **)

let sel_toggle0 key0 limit x sel0 =
  if sel_mem0 key0 x sel0
  then sel_remove0 key0 x sel0
  else fst (sel_add0 key0 limit x sel0)

(** val sel_add_all0 :
    ('a1 -> nat) -> nat -> 'a1 list -> 'a1 list -> 'a1 list **)

let rec sel_add_all0 key0 limit xs sel0 =
  match xs with
  | [] -> sel0
  | x :: r ->
    let (sel', ok) = sel_add0 key0 limit x sel0 in
    if ok then sel_add_all0 key0 limit r sel' else sel'

(** val sel_remove_all0 : ('a1 -> nat) -> 'a1 list -> 'a1 list -> 'a1 list **)

let sel_remove_all0 key0 xs sel0 =
  fold_left (fun s x -> sel_remove0 key0 x s) xs sel0

(** val sel_toggle_all0 :
    ('a1 -> nat) -> nat -> 'a1 list -> 'a1 list -> 'a1 list **)

let sel_toggle_all0 key0 limit xs sel0 =
  let prev = filter (fun x -> sel_mem0 key0 x sel0) xs in
  let others = filter (fun x -> negb (sel_mem0 key0 x sel0)) xs in
  sel_add_all0 key0 limit others (sel_remove_all0 key0 prev sel0)

(** val result_body : 'a1 option -> 'a1 list -> 'a1 list **)

let result_body current sel0 = match sel0 with
| [] -> (match current with
         | Some c -> c :: []
         | None -> [])
| _ :: _ -> sel0

(** val is_blank0 : z -> bool **)

let is_blank0 c =
  (||) (Z.eqb c (Zpos (XO (XO (XO (XO (XO XH)))))))
    (Z.eqb c (Zpos (XI (XO (XO XH)))))

(** val is_space_ascii : z -> bool **)

let is_space_ascii c =
  (||) (Z.eqb c (Zpos (XO (XO (XO (XO (XO XH)))))))
    ((&&) (Z.leb (Zpos (XI (XO (XO XH)))) c)
      (Z.leb c (Zpos (XI (XO (XI XH))))))

(** val trim_right0 : str -> str **)

let trim_right0 s =
  rev (drop_while is_space_ascii (rev s))

(** val take_while1 : ('a1 -> bool) -> 'a1 list -> 'a1 list **)

let rec take_while1 p = function
| [] -> []
| x :: t0 -> if p x then x :: (take_while1 p t0) else []

(** val awk_fields_fuel : nat -> str -> str list **)

let rec awk_fields_fuel fuel s =
  match fuel with
  | O -> []
  | S f ->
    (match s with
     | [] -> []
     | _ :: _ ->
       let word = take_while1 (fun c -> negb (is_blank0 c)) s in
       let rest = drop_while (fun c -> negb (is_blank0 c)) s in
       let gap = take_while1 is_blank0 rest in
       (app word gap) :: (awk_fields_fuel f (drop_while is_blank0 rest)))

(** val awk_fields : str -> str list **)

let awk_fields s =
  let s' = drop_while is_blank0 s in awk_fields_fuel (length s') s'

type sel_event =
| SToggle of nat
| SSelect of nat
| SDeselect of nat
| SSelectAll of nat list
| SDeselectAll of nat list
| SToggleAll of nat list
| SClear
| SPrint of str

(** val ev_step :
    nat -> (nat list * str list) -> sel_event -> nat list * str list **)

let ev_step limit st0 e =
  let sel0 = fst st0 in
  let q = snd st0 in
  (match e with
   | SToggle i -> ((sel_toggle0 (fun x -> x) limit i sel0), q)
   | SSelect i -> ((fst (sel_add0 (fun x -> x) limit i sel0)), q)
   | SDeselect i -> ((sel_remove0 (fun x -> x) i sel0), q)
   | SSelectAll l -> ((sel_add_all0 (fun x -> x) limit l sel0), q)
   | SDeselectAll l -> ((sel_remove_all0 (fun x -> x) l sel0), q)
   | SToggleAll l -> ((sel_toggle_all0 (fun x -> x) limit l sel0), q)
   | SClear -> ([], q)
   | SPrint s -> (sel0, (app q (s :: []))))

(** val session_result :
    z -> bool -> str -> bool -> str -> (nat -> str) -> nat -> sel_event list
    -> nat option -> ending -> str * z **)

let session_result t0 print_query query expect0 key0 present limit evs current e =
  let st0 = fold_left (ev_step limit) evs ([], []) in
  let body = map present (result_body current (fst st0)) in
  ((stdout_of e t0 print_query query expect0 key0 (snd st0) body),
  (exit_status e body))

(** val strip_prefix : str -> str -> str option **)

let rec strip_prefix p s =
  match p with
  | [] -> Some s
  | x :: p' ->
    (match s with
     | [] -> None
     | y :: s' -> if Z.eqb x y then strip_prefix p' s' else None)

(** val remove_first : str -> str list -> str list **)

let rec remove_first x = function
| [] -> []
| y :: r -> if str_eqb x y then r else y :: (remove_first x r)

(** val dedup : str list -> str list **)

let rec dedup = function
| [] -> []
| x :: r -> x :: (filter (fun y -> negb (str_eqb x y)) (dedup r))

(** val framed_perm : nat -> z -> str list -> str -> bool **)

let rec framed_perm fuel t0 remaining s =
  match fuel with
  | O -> false
  | S f ->
    (match remaining with
     | [] -> (match s with
              | [] -> true
              | _ :: _ -> false)
     | _ :: _ ->
       existsb (fun r ->
         match strip_prefix (app r (t0 :: [])) s with
         | Some rest -> framed_perm f t0 (remove_first r remaining) rest
         | None -> false) (dedup remaining))

(** val filter_verdict :
    bool -> bool -> bool -> bool -> bool -> str -> (str -> str) -> (nat ->
    str -> bool) -> str list -> str -> z -> bool * bool **)

let filter_verdict print_query print0 ansi tac sorted query strip m rs stdout code =
  let t0 = terminator print0 in
  let body = unsorted_body ansi tac strip m rs in
  let out_ok =
    if sorted
    then (match strip_prefix (frame t0 (opt_part print_query query)) stdout with
          | Some rest -> framed_perm (S (length body)) t0 body rest
          | None -> false)
    else str_eqb stdout (frame t0 (filter_parts print_query query body))
  in
  (out_ok, (Z.eqb code (exit_status EAccept body)))

(** val exitOk : z **)

let exitOk =
  Z0

(** val exitNoMatch : z **)

let exitNoMatch =
  Zpos XH

(** val exitError : z **)

let exitError =
  Zpos (XO XH)

(** val exitInterrupt : z **)

let exitInterrupt =
  Zpos (XO (XI (XO (XO (XO (XO (XO XH)))))))

type item0 = { it_index : nat; it_text : str; it_orig : str option }

type oopts = { o_ansi : bool; o_with_nth : bool; o_print0 : bool;
               o_print_query : bool; o_sort : bool; o_tac : bool;
               o_sync : bool }

type delim =
| DAwk
| DStr of str

type range = { r_begin : z; r_end : z }

type nth_part =
| PStr0 of str
| PIndex
| PNth0 of range list

type nth_fn =
| NthRanges of range list
| NthTemplate of nth_part list

(** val new_range0 : z -> z -> range **)

let new_range0 b e =
  let b0 =
    if (&&) (Z.eqb b (Zpos XH)) (negb (Z.eqb e (Zpos XH))) then Z0 else b
  in
  let e0 = if Z.eqb e (Zneg XH) then Z0 else e in { r_begin = b0; r_end = e0 }

type awk_state =
| AwkNil
| AwkBlack
| AwkWhite

(** val awk_loop : awk_state -> str -> str list -> str -> str list **)

let rec awk_loop st0 cur acc = function
| [] -> rev (match cur with
             | [] -> acc
             | _ :: _ -> (rev cur) :: acc)
| r :: t0 ->
  let white =
    (||) (Z.eqb r (Zpos (XI (XO (XO XH)))))
      (Z.eqb r (Zpos (XO (XO (XO (XO (XO XH)))))))
  in
  (match st0 with
   | AwkNil ->
     if white
     then awk_loop AwkNil cur acc t0
     else awk_loop AwkBlack (r :: []) acc t0
   | AwkBlack ->
     awk_loop (if white then AwkWhite else AwkBlack) (r :: cur) acc t0
   | AwkWhite ->
     if white
     then awk_loop AwkWhite (r :: cur) acc t0
     else awk_loop AwkBlack (r :: []) ((rev cur) :: acc) t0)

(** val awk_tokenizer : str -> str list **)

let awk_tokenizer s =
  awk_loop AwkNil [] [] s

(** val is_prefix : str -> str -> bool **)

let rec is_prefix p s =
  match p with
  | [] -> true
  | x :: p' ->
    (match s with
     | [] -> false
     | y :: s' -> (&&) (Z.eqb x y) (is_prefix p' s'))

(** val split_after_go : str -> nat -> str -> str -> str list **)

let rec split_after_go sep0 skip cur s = match s with
| [] -> (rev cur) :: []
| c :: t0 ->
  let skip' =
    match skip with
    | O -> if is_prefix sep0 s then length sep0 else O
    | S _ -> skip
  in
  (match skip' with
   | O -> split_after_go sep0 O (c :: cur) t0
   | S k ->
     (match k with
      | O -> (rev (c :: cur)) :: (split_after_go sep0 O [] t0)
      | S _ -> split_after_go sep0 k (c :: cur) t0))

(** val split_after : str -> str -> str list **)

let split_after sep0 s =
  split_after_go sep0 O [] s

(** val tokenize : delim -> str -> str list **)

let tokenize d s =
  match d with
  | DAwk -> awk_tokenizer s
  | DStr sep0 -> split_after sep0 s

(** val collect_range : nat -> z -> str list -> str list res **)

let rec collect_range fuel idx0 tokens0 =
  match fuel with
  | O -> Ok []
  | S f ->
    let n = Z.of_nat (length tokens0) in
    bind (collect_range f (Z.add idx0 (Zpos XH)) tokens0) (fun rest ->
      if (&&) (Z.leb (Zpos XH) idx0) (Z.leb idx0 n)
      then bind (get tokens0 (Z.to_nat (Z.sub idx0 (Zpos XH)))) (fun t0 -> Ok
             (t0 :: rest))
      else Ok rest)

(** val transform_one : str list -> range -> str res **)

let transform_one tokens0 r =
  let n = Z.of_nat (length tokens0) in
  let adj0 = fun i -> if Z.ltb i Z0 then Z.add (Z.add i n) (Zpos XH) else i in
  if Z.eqb r.r_begin r.r_end
  then let idx0 = r.r_begin in
       if Z.eqb idx0 Z0
       then Ok (concat tokens0)
       else let idx1 = adj0 idx0 in
            if (&&) (Z.leb (Zpos XH) idx1) (Z.leb idx1 n)
            then get tokens0 (Z.to_nat (Z.sub idx1 (Zpos XH)))
            else Ok []
  else let be =
         if Z.eqb r.r_begin Z0
         then ((Zpos XH), (adj0 r.r_end))
         else if Z.eqb r.r_end Z0
              then ((adj0 r.r_begin), n)
              else ((adj0 r.r_begin), (adj0 r.r_end))
       in
       bind
         (collect_range
           (Z.to_nat (Z.add (Z.sub (snd be) (fst be)) (Zpos XH))) (fst be)
           tokens0) (fun parts -> Ok (concat parts))

(** val map_res : ('a1 -> 'a2 res) -> 'a1 list -> 'a2 list res **)

let rec map_res f = function
| [] -> Ok []
| x :: t0 -> bind (f x) (fun y -> bind (map_res f t0) (fun r -> Ok (y :: r)))

(** val join_transform : str list -> range list -> str res **)

let join_transform tokens0 rs =
  bind (map_res (transform_one tokens0) rs) (fun ts -> Ok (concat ts))

(** val strip_suffix_rev : str -> str -> str option **)

let rec strip_suffix_rev rsuf rs =
  match rsuf with
  | [] -> Some rs
  | x :: a ->
    (match rs with
     | [] -> None
     | y :: b -> if Z.eqb x y then strip_suffix_rev a b else None)

(** val trim_suffix : str -> str -> str **)

let trim_suffix s suf =
  match strip_suffix_rev (rev suf) (rev s) with
  | Some r -> rev r
  | None -> s

(** val is_space_byte : z -> bool **)

let is_space_byte c =
  (||) (Z.eqb c (Zpos (XO (XO (XO (XO (XO XH)))))))
    ((&&) (Z.leb (Zpos (XI (XO (XO XH)))) c)
      (Z.leb c (Zpos (XI (XO (XI XH))))))

(** val trim_right_space : str -> str **)

let trim_right_space s =
  rev (drop_while is_space_byte (rev s))

(** val strip_last_delimiter : delim -> str -> str **)

let strip_last_delimiter d s =
  trim_right_space (match d with
                    | DAwk -> s
                    | DStr sep0 -> trim_suffix s sep0)

(** val itoa_fuel : nat -> z -> str -> str **)

let rec itoa_fuel fuel n acc =
  match fuel with
  | O -> acc
  | S f ->
    let acc' =
      (Z.add (Zpos (XO (XO (XO (XO (XI XH))))))
        (Z.modulo n (Zpos (XO (XI (XO XH)))))) :: acc
    in
    if Z.eqb (Z.div n (Zpos (XO (XI (XO XH))))) Z0
    then acc'
    else itoa_fuel f (Z.div n (Zpos (XO (XI (XO XH))))) acc'

(** val itoa : z -> str **)

let itoa n =
  itoa_fuel (S (S (S (S (S (S (S (S (S (S (S (S (S (S (S (S (S (S (S (S
    O)))))))))))))))))))) n []

(** val template_loop :
    delim -> str list -> z -> nth_part list -> str -> str res **)

let rec template_loop d tokens0 index ps acc =
  match ps with
  | [] -> Ok acc
  | n :: r ->
    (match n with
     | PStr0 s -> template_loop d tokens0 index r (app acc s)
     | PIndex ->
       template_loop d tokens0 index r
         (if Z.leb Z0 index then app acc (itoa index) else acc)
     | PNth0 rs ->
       bind (join_transform tokens0 rs) (fun s ->
         template_loop d tokens0 index r (app acc (strip_last_delimiter d s))))

(** val apply_nth : delim -> nth_fn -> str list -> z -> str res **)

let apply_nth d f tokens0 index =
  match f with
  | NthRanges rs -> join_transform tokens0 rs
  | NthTemplate ps -> template_loop d tokens0 index ps []

(** val ansi_processor : (str -> str) -> oopts -> str -> str **)

let ansi_processor strip o data =
  if o.o_ansi then strip data else data

(** val trans :
    (str -> str) -> (nat -> str -> str) -> oopts -> nat -> str -> item0 **)

let trans strip nth_transform o idx0 data =
  if o.o_with_nth
  then { it_index = idx0; it_text =
         (ansi_processor strip o (nth_transform idx0 data)); it_orig = (Some
         data) }
  else { it_index = idx0; it_text = (ansi_processor strip o data); it_orig =
         None }

(** val as_string : (str -> str) -> (str -> str) -> bool -> item0 -> str **)

let as_string strip rt strip_ansi it =
  match it.it_orig with
  | Some orig -> if strip_ansi then strip orig else orig
  | None -> rt it.it_text

(** val printer : bool -> str -> str -> str **)

let printer print0 out s =
  app out (app s ((if print0 then Z0 else Zpos (XO (XI (XO XH)))) :: []))

(** val stream_loop :
    (str -> str) -> (str -> str) -> (nat -> str -> str) -> (item0 -> bool) ->
    oopts -> nat -> str list -> str -> bool -> str * bool **)

let rec stream_loop strip rt nth_transform matches o idx0 rs out found =
  match rs with
  | [] -> (out, found)
  | r :: t0 ->
    let it = trans strip nth_transform o idx0 r in
    if matches it
    then stream_loop strip rt nth_transform matches o (S idx0) t0
           (printer o.o_print0 out (as_string strip rt o.o_ansi it)) true
    else stream_loop strip rt nth_transform matches o (S idx0) t0 out found

(** val build_items :
    (str -> str) -> (nat -> str -> str) -> oopts -> nat -> str list -> item0
    list **)

let rec build_items strip nth_transform o idx0 = function
| [] -> []
| r :: t0 ->
  (trans strip nth_transform o idx0 r) :: (build_items strip nth_transform o
                                            (S idx0) t0)

(** val scan :
    (item0 -> bool) -> (item0 list -> item0 list) -> bool -> oopts -> item0
    list -> item0 list **)

let scan matches rank_sort sortable o items =
  let matched = filter matches items in
  if (&&) o.o_sort sortable
  then rank_sort matched
  else if o.o_tac then rev matched else matched

(** val print_loop :
    (str -> str) -> (str -> str) -> oopts -> item0 list -> str -> bool ->
    str * bool **)

let rec print_loop strip rt o m out found =
  match m with
  | [] -> (out, found)
  | it :: t0 ->
    print_loop strip rt o t0
      (printer o.o_print0 out (as_string strip rt o.o_ansi it)) true

(** val filter_mode :
    (str -> str) -> (str -> str) -> (nat -> str -> str) -> (item0 -> bool) ->
    (item0 list -> item0 list) -> bool -> oopts -> str -> str list -> str * z **)

let filter_mode strip rt nth_transform matches rank_sort sortable o query rs =
  let out0 = if o.o_print_query then printer o.o_print0 [] query else [] in
  let streaming = (&&) ((&&) (negb o.o_sort) (negb o.o_tac)) (negb o.o_sync)
  in
  let r =
    if streaming
    then stream_loop strip rt nth_transform matches o O rs out0 false
    else print_loop strip rt o
           (scan matches rank_sort sortable o
             (build_items strip nth_transform o O rs)) out0 false
  in
  ((fst r), (if snd r then exitOk else exitNoMatch))

type topts = { to_ansi : bool; to_print0 : bool; to_print_query : bool;
               to_expect : bool; to_multi : nat;
               to_accept_nth : nth_fn option; to_delim : delim }

type smap = (nat * (nat * item0)) list

type sstate0 = smap * nat

(** val m_find : nat -> smap -> (nat * item0) option **)

let rec m_find k = function
| [] -> None
| p :: r -> let (k', v) = p in if Nat.eqb k k' then Some v else m_find k r

(** val m_delete : nat -> smap -> smap **)

let rec m_delete k = function
| [] -> []
| p :: r ->
  let (k', v) = p in
  if Nat.eqb k k' then m_delete k r else (k', v) :: (m_delete k r)

(** val select_item0 : nat -> item0 -> sstate0 -> sstate0 * bool **)

let select_item0 multi it s =
  if Nat.leb multi (length (fst s))
  then (s, false)
  else (match m_find it.it_index (fst s) with
        | Some _ -> (s, true)
        | None ->
          ((((it.it_index, ((snd s), it)) :: (fst s)), (S (snd s))), true))

(** val deselect_item0 : item0 -> sstate0 -> sstate0 **)

let deselect_item0 it s =
  ((m_delete it.it_index (fst s)), (snd s))

(** val toggle_item0 : nat -> item0 -> sstate0 -> sstate0 * bool **)

let toggle_item0 multi it s =
  match m_find it.it_index (fst s) with
  | Some _ -> ((deselect_item0 it s), true)
  | None -> select_item0 multi it s

(** val insert_by_time :
    (nat * item0) -> (nat * item0) list -> (nat * item0) list **)

let rec insert_by_time e l = match l with
| [] -> e :: []
| x :: r ->
  if Nat.ltb (fst x) (fst e) then x :: (insert_by_time e r) else e :: l

(** val sort_selected : smap -> item0 list **)

let sort_selected m =
  map snd (fold_right insert_by_time [] (map snd m))

type term = { t_merger : item0 list; t_cy : z; t_sel : sstate0;
              t_queue : str list; t_input : str; t_pressed : str;
              t_reading : bool; t_count : nat }

(** val with_sel0 : term -> sstate0 -> term **)

let with_sel0 t0 s =
  { t_merger = t0.t_merger; t_cy = t0.t_cy; t_sel = s; t_queue = t0.t_queue;
    t_input = t0.t_input; t_pressed = t0.t_pressed; t_reading = t0.t_reading;
    t_count = t0.t_count }

(** val with_cy : term -> z -> term **)

let with_cy t0 cy =
  { t_merger = t0.t_merger; t_cy = cy; t_sel = t0.t_sel; t_queue =
    t0.t_queue; t_input = t0.t_input; t_pressed = t0.t_pressed; t_reading =
    t0.t_reading; t_count = t0.t_count }

(** val current_item0 : term -> item0 option res **)

let current_item0 t0 =
  let cnt = Z.of_nat (length t0.t_merger) in
  if (&&) ((&&) (Z.leb Z0 t0.t_cy) (Z.ltb Z0 cnt)) (Z.ltb t0.t_cy cnt)
  then bind (get t0.t_merger (Z.to_nat t0.t_cy)) (fun it -> Ok (Some it))
  else Ok None

(** val constrain0 : z -> z -> z -> z **)

let constrain0 v lo hi =
  if Z.ltb v lo then lo else if Z.ltb hi v then hi else v

(** val vset0 : term -> z -> term **)

let vset0 t0 o =
  with_cy t0
    (constrain0 o Z0 (Z.sub (Z.of_nat (length t0.t_merger)) (Zpos XH)))

(** val vmove0 : term -> z -> term **)

let vmove0 t0 o =
  vset0 t0 (Z.add t0.t_cy o)

(** val accept_nth :
    (str -> str) -> (str -> str) -> topts -> nth_fn -> item0 -> str res **)

let accept_nth strip rt o f it =
  let tokens0 = tokenize o.to_delim (as_string strip rt o.to_ansi it) in
  bind (apply_nth o.to_delim f tokens0 (Z.of_nat it.it_index)) (fun s -> Ok
    (strip_last_delimiter o.to_delim s))

(** val out_transform :
    (str -> str) -> (str -> str) -> topts -> item0 -> str res **)

let out_transform strip rt o it =
  match o.to_accept_nth with
  | Some f -> accept_nth strip rt o f it
  | None -> Ok (as_string strip rt o.to_ansi it)

(** val print_items :
    (str -> str) -> (str -> str) -> topts -> item0 list -> str -> str res **)

let rec print_items strip rt o its out =
  match its with
  | [] -> Ok out
  | it :: r ->
    bind (out_transform strip rt o it) (fun s ->
      print_items strip rt o r (printer o.to_print0 out s))

(** val output0 :
    (str -> str) -> (str -> str) -> topts -> term -> (str * bool) res **)

let output0 strip rt o t0 =
  let out = if o.to_print_query then printer o.to_print0 [] t0.t_input else []
  in
  let out0 = if o.to_expect then printer o.to_print0 out t0.t_pressed else out
  in
  let out1 = fold_left (printer o.to_print0) t0.t_queue out0 in
  (match fst t0.t_sel with
   | [] ->
     bind (current_item0 t0) (fun cur ->
       match cur with
       | Some it ->
         bind (print_items strip rt o (it :: []) out1) (fun out2 -> Ok (out2,
           true))
       | None -> Ok (out1, false))
   | _ :: _ ->
     bind (print_items strip rt o (sort_selected (fst t0.t_sel)) out1)
       (fun out2 -> Ok (out2, true)))

type action0 =
| AToggle0
| ASelect0
| ADeselect0
| ASelectAll0
| ADeselectAll0
| AToggleAll0
| AClearSelection0
| AToggleDown
| AToggleUp
| AUp0
| ADown0
| AFirst0
| ALast0
| APos0 of z
| APrint of str
| AUpdate0 of str * item0 list * z
| AAccept
| AAcceptNonEmpty
| AAcceptOrPrintQuery
| APrintQuery
| AAbort
| AFatal
| AExpect of str

type outcome1 =
| Running of term
| Exited of str * z

(** val select_all_loop0 : nat -> item0 list -> sstate0 -> sstate0 **)

let rec select_all_loop0 multi its s =
  match its with
  | [] -> s
  | it :: r ->
    let x = select_item0 multi it s in
    if snd x then select_all_loop0 multi r (fst x) else fst x

(** val deselect_all_loop0 : item0 list -> sstate0 -> sstate0 **)

let rec deselect_all_loop0 its s =
  match its with
  | [] -> s
  | it :: r ->
    (match fst s with
     | [] -> s
     | _ :: _ -> deselect_all_loop0 r (deselect_item0 it s))

(** val toggle_all_1 :
    nat -> item0 list -> sstate0 -> nat list -> sstate0 * nat list **)

let rec toggle_all_1 i its s prev =
  match its with
  | [] -> (s, prev)
  | it :: r ->
    (match fst s with
     | [] -> (s, prev)
     | _ :: _ ->
       (match m_find it.it_index (fst s) with
        | Some _ -> toggle_all_1 (S i) r (deselect_item0 it s) (i :: prev)
        | None -> toggle_all_1 (S i) r s prev))

(** val toggle_all_2 :
    nat -> nat -> item0 list -> sstate0 -> nat list -> sstate0 **)

let rec toggle_all_2 multi i its s prev =
  match its with
  | [] -> s
  | it :: r ->
    if existsb (Nat.eqb i) prev
    then toggle_all_2 multi (S i) r s prev
    else let x = select_item0 multi it s in
         if snd x then toggle_all_2 multi (S i) r (fst x) prev else fst x

(** val toggle_current0 : topts -> term -> (term * bool) res **)

let toggle_current0 o t0 =
  bind (current_item0 t0) (fun cur ->
    match cur with
    | Some it ->
      let x = toggle_item0 o.to_multi it t0.t_sel in
      Ok ((with_sel0 t0 (fst x)), (snd x))
    | None -> Ok (t0, false))

(** val req_close :
    (str -> str) -> (str -> str) -> topts -> term -> outcome1 res **)

let req_close strip rt o t0 =
  bind (output0 strip rt o t0) (fun r -> Ok (Exited ((fst r),
    (if snd r then exitOk else exitNoMatch))))

(** val req_print_query : topts -> term -> outcome1 **)

let req_print_query o t0 =
  Exited ((printer o.to_print0 [] t0.t_input), exitOk)

(** val do_action0 :
    (str -> str) -> (str -> str) -> topts -> term -> action0 -> outcome1 res **)

let do_action0 strip rt o t0 a =
  let multi = o.to_multi in
  let nonempty = negb (Nat.eqb (length t0.t_merger) O) in
  (match a with
   | AToggle0 ->
     if (&&) (Nat.ltb O multi) nonempty
     then bind (toggle_current0 o t0) (fun x -> Ok (Running (fst x)))
     else Ok (Running t0)
   | ASelect0 ->
     bind (current_item0 t0) (fun cur ->
       match cur with
       | Some it ->
         if Nat.ltb O multi
         then (match m_find it.it_index (fst t0.t_sel) with
               | Some _ -> Ok (Running t0)
               | None ->
                 Ok (Running
                   (with_sel0 t0 (fst (select_item0 multi it t0.t_sel)))))
         else Ok (Running t0)
       | None -> Ok (Running t0))
   | ADeselect0 ->
     bind (current_item0 t0) (fun cur ->
       match cur with
       | Some it ->
         if Nat.ltb O multi
         then (match m_find it.it_index (fst t0.t_sel) with
               | Some _ ->
                 Ok (Running (with_sel0 t0 (deselect_item0 it t0.t_sel)))
               | None -> Ok (Running t0))
         else Ok (Running t0)
       | None -> Ok (Running t0))
   | ASelectAll0 ->
     if Nat.ltb O multi
     then Ok (Running
            (with_sel0 t0 (select_all_loop0 multi t0.t_merger t0.t_sel)))
     else Ok (Running t0)
   | ADeselectAll0 ->
     if Nat.ltb O multi
     then Ok (Running
            (with_sel0 t0 (deselect_all_loop0 t0.t_merger t0.t_sel)))
     else Ok (Running t0)
   | AToggleAll0 ->
     if Nat.ltb O multi
     then let x = toggle_all_1 O t0.t_merger t0.t_sel [] in
          Ok (Running
          (with_sel0 t0 (toggle_all_2 multi O t0.t_merger (fst x) (snd x))))
     else Ok (Running t0)
   | AClearSelection0 ->
     if Nat.ltb O multi
     then Ok (Running (with_sel0 t0 ([], (snd t0.t_sel))))
     else Ok (Running t0)
   | AToggleDown ->
     if (&&) (Nat.ltb O multi) nonempty
     then bind (toggle_current0 o t0) (fun x -> Ok (Running
            (if snd x then vmove0 (fst x) (Zneg XH) else fst x)))
     else Ok (Running t0)
   | AToggleUp ->
     if (&&) (Nat.ltb O multi) nonempty
     then bind (toggle_current0 o t0) (fun x -> Ok (Running
            (if snd x then vmove0 (fst x) (Zpos XH) else fst x)))
     else Ok (Running t0)
   | AUp0 -> Ok (Running (vmove0 t0 (Zpos XH)))
   | ADown0 -> Ok (Running (vmove0 t0 (Zneg XH)))
   | AFirst0 -> Ok (Running (vset0 t0 Z0))
   | ALast0 ->
     Ok (Running (vset0 t0 (Z.sub (Z.of_nat (length t0.t_merger)) (Zpos XH))))
   | APos0 n ->
     let n0 =
       if Z.ltb Z0 n
       then Z.sub n (Zpos XH)
       else if Z.ltb n Z0 then Z.add n (Z.of_nat (length t0.t_merger)) else n
     in
     Ok (Running (vset0 t0 n0))
   | APrint s ->
     Ok (Running { t_merger = t0.t_merger; t_cy = t0.t_cy; t_sel = t0.t_sel;
       t_queue = (app t0.t_queue (s :: [])); t_input = t0.t_input;
       t_pressed = t0.t_pressed; t_reading = t0.t_reading; t_count =
       t0.t_count })
   | AUpdate0 (q, m, cy) ->
     Ok (Running { t_merger = m; t_cy = cy; t_sel = t0.t_sel; t_queue =
       t0.t_queue; t_input = q; t_pressed = t0.t_pressed; t_reading =
       t0.t_reading; t_count = t0.t_count })
   | AAccept -> req_close strip rt o t0
   | AAcceptNonEmpty ->
     if (||) ((||) (negb (Nat.eqb (length (fst t0.t_sel)) O)) nonempty)
          ((&&) (negb t0.t_reading) (Nat.eqb t0.t_count O))
     then req_close strip rt o t0
     else Ok (Running t0)
   | AAcceptOrPrintQuery ->
     if (||) (negb (Nat.eqb (length (fst t0.t_sel)) O)) nonempty
     then req_close strip rt o t0
     else Ok (req_print_query o t0)
   | APrintQuery -> Ok (req_print_query o t0)
   | AAbort -> Ok (Exited ([], exitInterrupt))
   | AFatal -> Ok (Exited ([], exitError))
   | AExpect key0 ->
     req_close strip rt o { t_merger = t0.t_merger; t_cy = t0.t_cy; t_sel =
       t0.t_sel; t_queue = t0.t_queue; t_input = t0.t_input; t_pressed =
       key0; t_reading = t0.t_reading; t_count = t0.t_count })

(** val run_actions :
    (str -> str) -> (str -> str) -> topts -> term -> action0 list -> outcome1
    res **)

let rec run_actions strip rt o t0 = function
| [] -> Ok (Running t0)
| a :: r ->
  bind (do_action0 strip rt o t0 a) (fun x ->
    match x with
    | Running t' -> run_actions strip rt o t' r
    | Exited (out, code) -> Ok (Exited (out, code)))

(** val select1_exit0 :
    (str -> str) -> (str -> str) -> topts -> bool -> bool -> str -> item0
    list -> (str * z) option res **)

let select1_exit0 strip rt o select1 exit0 query merger =
  let count0 = length merger in
  if (||) ((&&) select1 (Nat.ltb (S O) count0))
       ((&&) ((&&) exit0 (negb select1)) (Nat.ltb O count0))
  then Ok None
  else if (||) ((&&) exit0 (Nat.eqb count0 O))
            ((&&) select1 (Nat.eqb count0 (S O)))
       then let out =
              if o.to_print_query then printer o.to_print0 [] query else []
            in
            let out0 = if o.to_expect then printer o.to_print0 out [] else out
            in
            bind (print_items strip rt o merger out0) (fun out1 -> Ok (Some
              (out1, (if Nat.eqb count0 O then exitNoMatch else exitOk))))
       else Ok None

(** val interactive :
    (str -> str) -> (str -> str) -> bool -> topts -> bool -> bool -> str ->
    item0 list -> nat -> action0 list -> outcome1 res **)

let interactive strip rt parse_ok o select1 exit0 query merger count0 acts =
  if negb parse_ok
  then Ok (Exited ([], exitError))
  else bind (select1_exit0 strip rt o select1 exit0 query merger) (fun s ->
         match s with
         | Some p -> let (out, code) = p in Ok (Exited (out, code))
         | None ->
           run_actions strip rt o { t_merger = merger; t_cy = Z0; t_sel =
             ([], O); t_queue = []; t_input = query; t_pressed = [];
             t_reading = false; t_count = count0 } acts)

(** val tbl_lookup : (str * str) list -> str -> str **)

let rec tbl_lookup tbl s =
  match tbl with
  | [] -> s
  | p :: r -> let (k, v) = p in if str_eqb k s then v else tbl_lookup r s

(** val as_tbl : val0 -> (str * str) list **)

let as_tbl v =
  map (fun p -> ((as_str (arg p O)), (as_str (arg p (S O))))) (as_list v)

(** val as_bits : val0 -> bool list **)

let as_bits v =
  map as_bool (as_list v)

(** val match_by_index : bool list -> item0 -> bool **)

let match_by_index bits0 it =
  nth it.it_index bits0 false

(** val as_oopts : val0 -> oopts **)

let as_oopts v =
  { o_ansi = (as_bool (arg v O)); o_with_nth = (as_bool (arg v (S O)));
    o_print0 = (as_bool (arg v (S (S O)))); o_print_query =
    (as_bool (arg v (S (S (S O))))); o_sort =
    (as_bool (arg v (S (S (S (S O)))))); o_tac =
    (as_bool (arg v (S (S (S (S (S O))))))); o_sync =
    (as_bool (arg v (S (S (S (S (S (S O)))))))) }

(** val d_filter : val0 -> val0 **)

let d_filter a =
  let o = as_oopts (arg a O) in
  let r =
    filter_mode (tbl_lookup (as_tbl (arg a (S (S (S O))))))
      (tbl_lookup (as_tbl (arg a (S (S (S (S O))))))) (fun _ s -> s)
      (match_by_index (as_bits (arg a (S (S (S (S (S O)))))))) (fun l -> l)
      (as_bool (arg a (S (S (S (S (S (S O)))))))) o (as_str (arg a (S O)))
      (as_strs (arg a (S (S O))))
  in
  VL ((vstr (fst r)) :: ((VI (snd r)) :: []))

(** val d_filter_spec : val0 -> val0 **)

let d_filter_spec a =
  let o = as_oopts (arg a O) in
  let bits0 = as_bits (arg a (S (S (S (S O))))) in
  let r =
    filter_verdict o.o_print_query o.o_print0 o.o_ansi o.o_tac
      (as_bool (arg a (S (S (S (S (S O))))))) (as_str (arg a (S O)))
      (tbl_lookup (as_tbl (arg a (S (S (S O)))))) (fun i _ ->
      nth i bits0 false) (as_strs (arg a (S (S O))))
      (as_str (arg a (S (S (S (S (S (S O))))))))
      (as_int (arg a (S (S (S (S (S (S (S O)))))))))
  in
  VL ((vbool (fst r)) :: ((vbool (snd r)) :: []))

(** val as_ranges : val0 -> range list **)

let as_ranges v =
  map (fun p -> new_range0 (as_int (arg p O)) (as_int (arg p (S O))))
    (as_list v)

(** val as_part : val0 -> nth_part **)

let as_part v =
  let t0 = as_int (arg v O) in
  if Z.eqb t0 Z0
  then PStr0 (as_str (arg v (S O)))
  else if Z.eqb t0 (Zpos XH) then PIndex else PNth0 (as_ranges (arg v (S O)))

(** val as_nth_fn : val0 -> nth_fn option **)

let as_nth_fn v =
  match as_list v with
  | [] -> None
  | t0 :: l ->
    (match l with
     | [] -> None
     | x :: _ ->
       Some
         (if Z.eqb (as_int t0) Z0
          then NthRanges (as_ranges x)
          else NthTemplate (map as_part (as_list x))))

(** val as_delim : val0 -> delim **)

let as_delim v =
  match as_list v with
  | [] -> DAwk
  | s :: _ -> DStr (as_str s)

(** val as_topts : val0 -> topts **)

let as_topts v =
  { to_ansi = (as_bool (arg v O)); to_print0 = (as_bool (arg v (S O)));
    to_print_query = (as_bool (arg v (S (S O)))); to_expect =
    (as_bool (arg v (S (S (S O))))); to_multi =
    (as_nat (arg v (S (S (S (S O)))))); to_accept_nth =
    (as_nth_fn (arg v (S (S (S (S (S O))))))); to_delim =
    (as_delim (arg v (S (S (S (S (S (S O)))))))) }

(** val pick_items : item0 list -> nat list -> item0 list **)

let pick_items items idx0 =
  concat
    (map (fun i -> match get items i with
                   | Ok it -> it :: []
                   | Err _ -> []) idx0)

(** val as_action : item0 list -> val0 -> action0 **)

let as_action items v =
  let t0 = as_int (arg v O) in
  if Z.eqb t0 Z0
  then AToggle0
  else if Z.eqb t0 (Zpos XH)
       then ASelect0
       else if Z.eqb t0 (Zpos (XO XH))
            then ADeselect0
            else if Z.eqb t0 (Zpos (XI XH))
                 then ASelectAll0
                 else if Z.eqb t0 (Zpos (XO (XO XH)))
                      then ADeselectAll0
                      else if Z.eqb t0 (Zpos (XI (XO XH)))
                           then AToggleAll0
                           else if Z.eqb t0 (Zpos (XO (XI XH)))
                                then AClearSelection0
                                else if Z.eqb t0 (Zpos (XI (XI XH)))
                                     then AToggleDown
                                     else if Z.eqb t0 (Zpos (XO (XO (XO XH))))
                                          then AToggleUp
                                          else if Z.eqb t0 (Zpos (XI (XO (XO
                                                    XH))))
                                               then AUp0
                                               else if Z.eqb t0 (Zpos (XO (XI
                                                         (XO XH))))
                                                    then ADown0
                                                    else if Z.eqb t0 (Zpos
                                                              (XI (XI (XO
                                                              XH))))
                                                         then AFirst0
                                                         else if Z.eqb t0
                                                                   (Zpos (XO
                                                                   (XO (XI
                                                                   XH))))
                                                              then ALast0
                                                              else if 
                                                                    Z.eqb t0
                                                                    (Zpos (XI
                                                                    (XO (XI
                                                                    XH))))
                                                                   then 
                                                                    APos0
                                                                    (as_int
                                                                    (arg v (S
                                                                    O)))
                                                                   else 
                                                                    if 
                                                                    Z.eqb t0
                                                                    (Zpos (XO
                                                                    (XI (XI
                                                                    XH))))
                                                                    then 
                                                                    APrint
                                                                    (as_str
                                                                    (arg v (S
                                                                    O)))
                                                                    else 
                                                                    if 
                                                                    Z.eqb t0
                                                                    (Zpos (XI
                                                                    (XI (XI
                                                                    XH))))
                                                                    then 
                                                                    AUpdate0
                                                                    ((as_str
                                                                    (arg v (S
                                                                    O))),
                                                                    (pick_items
                                                                    items
                                                                    (map
                                                                    as_nat
                                                                    (as_list
                                                                    (arg v (S
                                                                    (S O)))))),
                                                                    (as_int
                                                                    (arg v (S
                                                                    (S (S
                                                                    O))))))
                                                                    else 
                                                                    if 
                                                                    Z.eqb t0
                                                                    (Zpos (XO
                                                                    (XO (XO
                                                                    (XO
                                                                    XH)))))
                                                                    then 
                                                                    AAccept
                                                                    else 
                                                                    if 
                                                                    Z.eqb t0
                                                                    (Zpos (XI
                                                                    (XO (XO
                                                                    (XO
                                                                    XH)))))
                                                                    then 
                                                                    AAcceptNonEmpty
                                                                    else 
                                                                    if 
                                                                    Z.eqb t0
                                                                    (Zpos (XO
                                                                    (XI (XO
                                                                    (XO
                                                                    XH)))))
                                                                    then 
                                                                    AAcceptOrPrintQuery
                                                                    else 
                                                                    if 
                                                                    Z.eqb t0
                                                                    (Zpos (XI
                                                                    (XI (XO
                                                                    (XO
                                                                    XH)))))
                                                                    then 
                                                                    APrintQuery
                                                                    else 
                                                                    if 
                                                                    Z.eqb t0
                                                                    (Zpos (XO
                                                                    (XO (XI
                                                                    (XO
                                                                    XH)))))
                                                                    then 
                                                                    AAbort
                                                                    else 
                                                                    if 
                                                                    Z.eqb t0
                                                                    (Zpos (XI
                                                                    (XO (XI
                                                                    (XO
                                                                    XH)))))
                                                                    then 
                                                                    AFatal
                                                                    else 
                                                                    AExpect
                                                                    (as_str
                                                                    (arg v (S
                                                                    O)))

(** val d_interactive : val0 -> val0 **)

let d_interactive a =
  let o = as_topts (arg a (S O)) in
  let strip =
    tbl_lookup (as_tbl (arg a (S (S (S (S (S (S (S (S (S O)))))))))))
  in
  let rt =
    tbl_lookup (as_tbl (arg a (S (S (S (S (S (S (S (S (S (S O))))))))))))
  in
  let oo = { o_ansi = o.to_ansi; o_with_nth = (as_bool (arg a (S (S O))));
    o_print0 = o.to_print0; o_print_query = o.to_print_query; o_sort = false;
    o_tac = false; o_sync = false }
  in
  let records = as_strs (arg a (S (S (S (S (S (S O))))))) in
  let items = build_items strip (fun _ s -> s) oo O records in
  let merger =
    pick_items items
      (map as_nat (as_list (arg a (S (S (S (S (S (S (S O))))))))))
  in
  (match interactive strip rt (as_bool (arg a O)) o
           (as_bool (arg a (S (S (S O)))))
           (as_bool (arg a (S (S (S (S O))))))
           (as_str (arg a (S (S (S (S (S O))))))) merger (length records)
           (map (as_action items)
             (as_list (arg a (S (S (S (S (S (S (S (S O))))))))))) with
   | Ok a0 ->
     (match a0 with
      | Running _ -> VL ((VI Z0) :: [])
      | Exited (out, code) ->
        VL ((VI (Zpos XH)) :: ((vstr out) :: ((VI code) :: []))))
   | Err _ -> verr)

(** val as_event : val0 -> sel_event **)

let as_event v =
  let t0 = as_int (arg v O) in
  let l = map as_nat (as_list (arg v (S O))) in
  if Z.eqb t0 Z0
  then SToggle (as_nat (arg v (S O)))
  else if Z.eqb t0 (Zpos XH)
       then SSelect (as_nat (arg v (S O)))
       else if Z.eqb t0 (Zpos (XO XH))
            then SDeselect (as_nat (arg v (S O)))
            else if Z.eqb t0 (Zpos (XI XH))
                 then SSelectAll l
                 else if Z.eqb t0 (Zpos (XO (XO XH)))
                      then SDeselectAll l
                      else if Z.eqb t0 (Zpos (XI (XO XH)))
                           then SToggleAll l
                           else if Z.eqb t0 (Zpos (XO (XI XH)))
                                then SClear
                                else SPrint (as_str (arg v (S O)))

(** val as_ending : val0 -> ending **)

let as_ending v =
  let t0 = as_int v in
  if Z.eqb t0 Z0
  then EAccept
  else if Z.eqb t0 (Zpos XH)
       then EPrintQuery
       else if Z.eqb t0 (Zpos (XO XH)) then EAbort else EError

(** val d_session_spec : val0 -> val0 **)

let d_session_spec a =
  let records = as_strs (arg a (S (S (S (S O))))) in
  let strip = tbl_lookup (as_tbl (arg a (S (S (S (S (S O))))))) in
  let ansi = as_bool (arg a (S (S (S O)))) in
  let field0 =
    as_nat (arg a (S (S (S (S (S (S (S (S (S (S (S (S O)))))))))))))
  in
  let present = fun i ->
    let s = shown ansi strip (nth i records []) in
    (match field0 with
     | O -> s
     | S k -> trim_right0 (nth k (awk_fields s) []))
  in
  let cur =
    let c = as_int (arg a (S (S (S (S (S (S (S (S O))))))))) in
    if Z.ltb c Z0 then None else Some (Z.to_nat c)
  in
  let r =
    session_result (terminator (as_bool (arg a O))) (as_bool (arg a (S O)))
      (as_str (arg a (S (S (S (S (S (S (S (S (S (S O))))))))))))
      (as_bool (arg a (S (S O))))
      (as_str (arg a (S (S (S (S (S (S (S (S (S (S (S O))))))))))))) present
      (as_nat (arg a (S (S (S (S (S (S O))))))))
      (map as_event (as_list (arg a (S (S (S (S (S (S (S O)))))))))) cur
      (as_ending (arg a (S (S (S (S (S (S (S (S (S O)))))))))))
  in
  VL ((vstr (fst r)) :: ((VI (snd r)) :: []))

(** val dispatch_output : z -> val0 -> val0 option **)

let dispatch_output op a =
  if Z.eqb op (Zpos (XI (XO (XI (XI (XI (XI (XO (XI (XO XH))))))))))
  then Some (d_filter a)
  else if Z.eqb op (Zpos (XO (XI (XI (XI (XI (XI (XO (XI (XO XH))))))))))
       then Some (d_filter_spec a)
       else if Z.eqb op (Zpos (XI (XI (XI (XI (XI (XI (XO (XI (XO XH))))))))))
            then Some (d_interactive a)
            else if Z.eqb op (Zpos (XO (XO (XO (XO (XO (XO (XI (XI (XO
                      XH))))))))))
                 then Some (d_session_spec a)
                 else None

(** val chSP : z **)

let chSP =
  Zpos (XO (XO (XO (XO (XO XH)))))

(** val chBS : z **)

let chBS =
  Zpos (XO (XO (XI (XI (XI (XO XH))))))

(** val chBAR : z **)

let chBAR =
  Zpos (XO (XO (XI (XI (XI (XI XH))))))

(** val chBANG : z **)

let chBANG =
  Zpos (XI (XO (XO (XO (XO XH)))))

(** val chDOLLAR : z **)

let chDOLLAR =
  Zpos (XO (XO (XI (XO (XO XH)))))

(** val chQUOTE : z **)

let chQUOTE =
  Zpos (XI (XI (XI (XO (XO XH)))))

(** val chCARET : z **)

let chCARET =
  Zpos (XO (XI (XI (XI (XI (XO XH))))))

type kind =
| KFuzzy
| KExact
| KBoundary
| KPrefix
| KSuffix
| KEqual

type case_mode =
| CaseSmart
| CaseIgnore
| CaseRespect

type qopts = { q_fuzzy : bool; q_extended : bool; q_case : case_mode;
               q_normalize : bool }

type sterm = { t_kind : kind; t_inv : bool; t_text : str; t_cs : bool;
               t_nm : bool }

(** val is_some : 'a1 option -> bool **)

let is_some = function
| Some _ -> true
| None -> false

(** val starts : z -> str -> bool **)

let starts c = function
| [] -> false
| x :: _ -> Z.eqb x c

(** val ends : z -> str -> bool **)

let ends c s =
  starts c (rev s)

(** val trim_left0 : str -> str **)

let trim_left0 q =
  drop_while (fun c -> Z.eqb c chSP) q

(** val trim_right_rev : str -> str **)

let rec trim_right_rev r = match r with
| [] -> []
| c :: r' ->
  if Z.eqb c chSP
  then (match r' with
        | [] -> trim_right_rev r'
        | b :: _ -> if Z.eqb b chBS then r else trim_right_rev r')
  else r

(** val trim : str -> str **)

let trim q =
  rev (trim_right_rev (rev (trim_left0 q)))

(** val emit : 'a1 list -> 'a1 list list -> 'a1 list list **)

let emit cur l =
  match cur with
  | [] -> l
  | _ :: _ -> cur :: l

(** val tokens_aux : str -> str -> str list **)

let rec tokens_aux s cur =
  match s with
  | [] -> emit (rev cur) []
  | c :: r ->
    if Z.eqb c chSP
    then emit (rev cur) (tokens_aux r [])
    else (match r with
          | [] -> tokens_aux r (c :: cur)
          | b :: r' ->
            if (&&) (Z.eqb c chBS) (Z.eqb b chSP)
            then tokens_aux r' (chSP :: cur)
            else tokens_aux r (c :: cur))

(** val tokens : str -> str list **)

let tokens s =
  tokens_aux s []

(** val lower_str : char_ops -> str -> str **)

let lower_str co s =
  map (lower1 co) s

(** val norm_str : char_ops -> str -> str **)

let norm_str co s =
  map co.co_norm s

(** val case_of : char_ops -> case_mode -> str -> bool **)

let case_of co m tok =
  match m with
  | CaseSmart -> negb (str_eqb tok (lower_str co tok))
  | CaseIgnore -> false
  | CaseRespect -> true

(** val norm_of : char_ops -> bool -> str -> bool **)

let norm_of co normalize tok =
  (&&) normalize (str_eqb (lower_str co tok) (norm_str co (lower_str co tok)))

(** val classify : char_ops -> qopts -> str -> sterm option **)

let classify co o tok =
  let cs = case_of co o.q_case tok in
  let nm = norm_of co o.q_normalize tok in
  let t0 = if cs then tok else lower_str co tok in
  let inv = starts chBANG t0 in
  let t1 = if inv then tl t0 else t0 in
  let suf = (&&) (negb (str_eqb t1 (chDOLLAR :: []))) (ends chDOLLAR t1) in
  let t2 = if suf then removelast t1 else t1 in
  let plain = if (||) (negb o.q_fuzzy) inv then KExact else KFuzzy in
  let flipped = if (&&) o.q_fuzzy (negb inv) then KExact else KFuzzy in
  if (&&) ((&&) (Nat.ltb (S (S O)) (length t2)) (starts chQUOTE t2))
       (ends chQUOTE t2)
  then let k = KBoundary in
       let t3 = removelast (tl t2) in
       (match t3 with
        | [] -> None
        | _ :: _ ->
          Some { t_kind = k; t_inv = inv; t_text =
            (if nm then norm_str co t3 else t3); t_cs = cs; t_nm = nm })
  else if starts chQUOTE t2
       then let t3 = tl t2 in
            (match t3 with
             | [] -> None
             | _ :: _ ->
               Some { t_kind = flipped; t_inv = inv; t_text =
                 (if nm then norm_str co t3 else t3); t_cs = cs; t_nm = nm })
       else if starts chCARET t2
            then let k = if suf then KEqual else KPrefix in
                 let t3 = tl t2 in
                 (match t3 with
                  | [] -> None
                  | _ :: _ ->
                    Some { t_kind = k; t_inv = inv; t_text =
                      (if nm then norm_str co t3 else t3); t_cs = cs; t_nm =
                      nm })
            else let k = if suf then KSuffix else plain in
                 (match t2 with
                  | [] -> None
                  | _ :: _ ->
                    Some { t_kind = k; t_inv = inv; t_text =
                      (if nm then norm_str co t2 else t2); t_cs = cs; t_nm =
                      nm })

(** val is_bar : char_ops -> qopts -> str -> bool **)

let is_bar co o tok =
  str_eqb (if case_of co o.q_case tok then tok else lower_str co tok)
    (chBAR :: [])

(** val groups_aux :
    char_ops -> qopts -> str list -> sterm list -> bool -> bool -> sterm list
    list **)

let rec groups_aux co o toks cur join0 bar =
  match toks with
  | [] -> emit cur []
  | t0 :: r ->
    if (&&) ((&&) (nonemptyb cur) (negb bar)) (is_bar co o t0)
    then groups_aux co o r cur true true
    else (match classify co o t0 with
          | Some tm ->
            if join0
            then groups_aux co o r (app cur (tm :: [])) false false
            else emit cur (groups_aux co o r (tm :: []) false false)
          | None -> groups_aux co o r cur join0 false)

(** val groups : char_ops -> qopts -> str list -> sterm list list **)

let groups co o toks =
  groups_aux co o toks [] true false

(** val query_groups : char_ops -> qopts -> str -> sterm list list **)

let query_groups co o q =
  groups co o (tokens (trim q))

(** val sat_term : char_ops -> scheme -> sterm -> str -> bool **)

let sat_term co sc t0 line =
  let cs = t0.t_cs in
  let nm = t0.t_nm in
  let p = t0.t_text in
  (match t0.t_kind with
   | KFuzzy -> subseq_b co cs nm line p
   | KExact -> substr_b co cs nm line p
   | KBoundary -> boundary_substr_b co sc cs nm line p
   | KPrefix -> is_some (prefix_spec co cs nm line p)
   | KSuffix -> is_some (suffix_spec co cs nm line p)
   | KEqual -> is_some (equal_spec co cs nm line p))

(** val sat_groups : char_ops -> scheme -> sterm list list -> str -> bool **)

let sat_groups co sc gs line =
  forallb (existsb (fun t0 -> xorb t0.t_inv (sat_term co sc t0 line))) gs

(** val sat_basic : char_ops -> qopts -> str -> str -> bool **)

let sat_basic co o q line =
  let cs = case_of co o.q_case q in
  let nm = norm_of co o.q_normalize q in
  let p = if cs then q else lower_str co q in
  if o.q_fuzzy then subseq_b co cs nm line p else substr_b co cs nm line p

(** val sat_query : char_ops -> scheme -> qopts -> str -> str -> bool **)

let sat_query co sc o q line =
  if o.q_extended
  then sat_groups co sc (query_groups co o q) line
  else sat_basic co o q line

type ttype =
| TermFuzzy
| TermExact
| TermExactBoundary
| TermPrefix
| TermSuffix
| TermEqual

type term0 = { tm_typ : ttype; tm_inv : bool; tm_text : str; tm_cs : 
               bool; tm_nm : bool }

type termSet = term0 list

type popts = { p_fuzzy : bool; p_v2 : bool; p_extended : bool;
               p_case : case_mode; p_normalize : bool; p_forward : bool;
               p_slabCap : z option }

type pattern = { pat_opts : popts; pat_cs : bool; pat_nm : bool;
                 pat_text : str; pat_sets : termSet list }

(** val qopts_of : popts -> qopts **)

let qopts_of o =
  { q_fuzzy = o.p_fuzzy; q_extended = o.p_extended; q_case = o.p_case;
    q_normalize = o.p_normalize }

(** val has_prefix0 : str -> z -> bool **)

let has_prefix0 s c =
  match s with
  | [] -> false
  | x :: _ -> Z.eqb x c

(** val has_suffix0 : str -> z -> bool **)

let has_suffix0 s c =
  match rev s with
  | [] -> false
  | x :: _ -> Z.eqb x c

(** val slice_from1 : str -> str res **)

let slice_from1 = function
| [] -> Err OutOfRange
| _ :: t0 -> Ok t0

(** val slice_to_last : str -> str res **)

let slice_to_last s = match s with
| [] -> Err OutOfRange
| _ :: _ -> Ok (removelast s)

(** val to_lower0 : char_ops -> str -> str **)

let to_lower0 co s =
  map (lower1 co) s

(** val normalize_runes : char_ops -> str -> str **)

let normalize_runes co s =
  map co.co_norm s

(** val replace_esc : str -> str **)

let rec replace_esc = function
| [] -> []
| c :: r ->
  (match r with
   | [] -> c :: (replace_esc r)
   | b :: r' ->
     if (&&) (Z.eqb c (Zpos (XO (XO (XI (XI (XI (XO XH))))))))
          (Z.eqb b (Zpos (XO (XO (XO (XO (XO XH)))))))
     then (Zpos (XI (XO (XO XH)))) :: (replace_esc r')
     else c :: (replace_esc r))

(** val split_blanks : str -> str -> bool -> str list **)

let rec split_blanks s cur inrun =
  match s with
  | [] -> (rev cur) :: []
  | c :: r ->
    if Z.eqb c (Zpos (XO (XO (XO (XO (XO XH))))))
    then if inrun
         then split_blanks r [] true
         else (rev cur) :: (split_blanks r [] true)
    else split_blanks r (c :: cur) false

(** val untab : str -> str **)

let untab s =
  map (fun c ->
    if Z.eqb c (Zpos (XI (XO (XO XH))))
    then Zpos (XO (XO (XO (XO (XO XH)))))
    else c) s

(** val case_sensitive : case_mode -> str -> str -> bool **)

let case_sensitive m text lowerText =
  match m with
  | CaseSmart -> negb (str_eqb text lowerText)
  | CaseIgnore -> false
  | CaseRespect -> true

(** val strip_ops : bool -> ttype -> str -> ((ttype * bool) * str) res **)

let strip_ops fuzzy typ text =
  bind
    (if has_prefix0 text (Zpos (XI (XO (XO (XO (XO XH))))))
     then bind (slice_from1 text) (fun t0 -> Ok ((TermExact, true), t0))
     else Ok ((typ, false), text)) (fun r1 ->
    let (p, text0) = r1 in
    let (typ0, inv) = p in
    bind
      (if (&&)
            (negb (str_eqb text0 ((Zpos (XO (XO (XI (XO (XO XH)))))) :: [])))
            (has_suffix0 text0 (Zpos (XO (XO (XI (XO (XO XH)))))))
       then bind (slice_to_last text0) (fun t0 -> Ok (TermSuffix, t0))
       else Ok (typ0, text0)) (fun r2 ->
      let (typ1, text1) = r2 in
      bind
        (if (&&)
              ((&&) (Nat.ltb (S (S O)) (length text1))
                (has_prefix0 text1 (Zpos (XI (XI (XI (XO (XO XH))))))))
              (has_suffix0 text1 (Zpos (XI (XI (XI (XO (XO XH)))))))
         then bind (slice_from1 text1) (fun t0 ->
                bind (slice_to_last t0) (fun t1 -> Ok (TermExactBoundary, t1)))
         else if has_prefix0 text1 (Zpos (XI (XI (XI (XO (XO XH))))))
              then bind (slice_from1 text1) (fun t0 -> Ok
                     ((if (&&) fuzzy (negb inv) then TermExact else TermFuzzy),
                     t0))
              else if has_prefix0 text1 (Zpos (XO (XI (XI (XI (XI (XO
                        XH)))))))
                   then bind (slice_from1 text1) (fun t0 -> Ok
                          ((match typ1 with
                            | TermSuffix -> TermEqual
                            | _ -> TermPrefix), t0))
                   else Ok (typ1, text1)) (fun r3 ->
        let (typ2, text2) = r3 in Ok ((typ2, inv), text2))))

type pstate0 = { st_sets : termSet list; st_set : termSet;
                 st_switchSet : bool; st_afterBar : bool }

(** val parse_step : char_ops -> popts -> pstate0 -> str -> pstate0 res **)

let parse_step co o st0 text0 =
  let lowerText = to_lower0 co text0 in
  let caseSensitive = case_sensitive o.p_case text0 lowerText in
  let normalizeTerm =
    (&&) o.p_normalize (str_eqb lowerText (normalize_runes co lowerText))
  in
  let text = if caseSensitive then text0 else lowerText in
  let typ = if o.p_fuzzy then TermFuzzy else TermExact in
  if (&&) ((&&) (nonemptyb st0.st_set) (negb st0.st_afterBar))
       (str_eqb text ((Zpos (XO (XO (XI (XI (XI (XI XH))))))) :: []))
  then Ok { st_sets = st0.st_sets; st_set = st0.st_set; st_switchSet = false;
         st_afterBar = true }
  else bind (strip_ops o.p_fuzzy typ text) (fun r ->
         let (p, text1) = r in
         let (typ0, inv) = p in
         if nonemptyb text1
         then if st0.st_switchSet
              then let sets = app st0.st_sets (st0.st_set :: []) in
                   let set = [] in
                   let textRunes =
                     if normalizeTerm then normalize_runes co text1 else text1
                   in
                   Ok { st_sets = sets; st_set =
                   (app set ({ tm_typ = typ0; tm_inv = inv; tm_text =
                     textRunes; tm_cs = caseSensitive; tm_nm =
                     normalizeTerm } :: [])); st_switchSet = true;
                   st_afterBar = false }
              else let sets = st0.st_sets in
                   let set = st0.st_set in
                   let textRunes =
                     if normalizeTerm then normalize_runes co text1 else text1
                   in
                   Ok { st_sets = sets; st_set =
                   (app set ({ tm_typ = typ0; tm_inv = inv; tm_text =
                     textRunes; tm_cs = caseSensitive; tm_nm =
                     normalizeTerm } :: [])); st_switchSet = true;
                   st_afterBar = false }
         else Ok { st_sets = st0.st_sets; st_set = st0.st_set; st_switchSet =
                st0.st_switchSet; st_afterBar = false })

(** val parse_loop :
    char_ops -> popts -> str list -> pstate0 -> termSet list res **)

let rec parse_loop co o toks st0 =
  match toks with
  | [] ->
    Ok
      (if nonemptyb st0.st_set
       then app st0.st_sets (st0.st_set :: [])
       else st0.st_sets)
  | token0 :: rest ->
    bind (parse_step co o st0 (untab token0)) (fun st' ->
      parse_loop co o rest st')

(** val parse_terms : char_ops -> popts -> str -> termSet list res **)

let parse_terms co o s =
  parse_loop co o (split_blanks (replace_esc s) [] false) { st_sets = [];
    st_set = []; st_switchSet = false; st_afterBar = false }

(** val trim_left_m : str -> str **)

let trim_left_m s =
  drop_while (fun c -> Z.eqb c (Zpos (XO (XO (XO (XO (XO XH))))))) s

(** val trim_right_m : nat -> str -> str res **)

let rec trim_right_m fuel s =
  match fuel with
  | O -> Err OutOfFuel
  | S fuel' ->
    let r = rev s in
    let sp =
      match r with
      | [] -> false
      | c :: _ -> Z.eqb c (Zpos (XO (XO (XO (XO (XO XH))))))
    in
    let esc =
      match r with
      | [] -> false
      | c :: l ->
        (match l with
         | [] -> false
         | b :: _ ->
           (&&) (Z.eqb c (Zpos (XO (XO (XO (XO (XO XH)))))))
             (Z.eqb b (Zpos (XO (XO (XI (XI (XI (XO XH)))))))))
    in
    if (&&) sp (negb esc)
    then bind (slice_to_last s) (fun s' -> trim_right_m fuel' s')
    else Ok s

(** val build_pattern : char_ops -> popts -> str -> pattern res **)

let build_pattern co o q =
  if o.p_extended
  then bind (trim_right_m (S (length q)) (trim_left_m q)) (fun s ->
         bind (parse_terms co o s) (fun sets -> Ok { pat_opts = o; pat_cs =
           true; pat_nm = o.p_normalize; pat_text = s; pat_sets = sets }))
  else let lowerString = to_lower0 co q in
       let normalize =
         (&&) o.p_normalize
           (str_eqb lowerString (normalize_runes co lowerString))
       in
       let caseSensitive = case_sensitive o.p_case q lowerString in
       Ok { pat_opts = o; pat_cs = caseSensitive; pat_nm = normalize;
       pat_text = (if caseSensitive then q else lowerString); pat_sets = [] }

(** val run_algo :
    char_ops -> scheme -> popts -> ttype -> bool -> bool -> str -> str ->
    bool -> mres res **)

let run_algo co sc o typ cs nm line pat withPos =
  let isb = is_ascii line in
  (match typ with
   | TermFuzzy ->
     if o.p_v2
     then fuzzy_v2 co sc cs nm o.p_forward isb line pat withPos o.p_slabCap
     else fuzzy_v1 co sc cs nm o.p_forward isb line pat withPos
   | TermExact -> exact_match co sc cs nm o.p_forward false isb line pat
   | TermExactBoundary ->
     exact_match co sc cs nm o.p_forward true isb line pat
   | TermPrefix -> prefix_match co sc cs nm line pat
   | TermSuffix -> suffix_match co sc cs nm line pat
   | TermEqual -> equal_match co sc cs nm line pat)

(** val range_nat : nat -> nat -> nat list **)

let rec range_nat s = function
| O -> []
| S n' -> s :: (range_nat (S s) n')

(** val add_pos :
    bool -> nat list -> nat -> nat -> nat list option -> nat list **)

let add_pos withPos allPos s e pos =
  if withPos
  then (match pos with
        | Some p -> app allPos p
        | None -> app allPos (range_nat s (sub e s)))
  else allPos

(** val match_set :
    char_ops -> scheme -> popts -> termSet -> str -> bool ->
    ((nat * nat) * z) option -> nat list -> (((nat * nat) * z) option * nat
    list) res **)

let rec match_set co sc o terms line withPos cur allPos =
  match terms with
  | [] -> Ok (cur, allPos)
  | t0 :: r ->
    bind
      (run_algo co sc o t0.tm_typ t0.tm_cs t0.tm_nm line t0.tm_text withPos)
      (fun m ->
      match m with
      | NoMatch ->
        if t0.tm_inv
        then match_set co sc o r line withPos (Some ((O, O), Z0)) allPos
        else match_set co sc o r line withPos cur allPos
      | Match (s, e, score, pos) ->
        if t0.tm_inv
        then match_set co sc o r line withPos cur allPos
        else Ok ((Some ((s, e), score)), (add_pos withPos allPos s e pos)))

(** val extended_match :
    char_ops -> scheme -> popts -> termSet list -> str -> bool -> (nat * nat)
    list -> z -> nat list -> (((nat * nat) list * z) * nat list) res **)

let rec extended_match co sc o sets line withPos offsets0 total allPos =
  match sets with
  | [] -> Ok ((offsets0, total), allPos)
  | ts :: r ->
    bind (match_set co sc o ts line withPos None allPos) (fun x ->
      let (cur, allPos') = x in
      (match cur with
       | Some p ->
         let (p0, score) = p in
         let (s, e) = p0 in
         extended_match co sc o r line withPos (app offsets0 ((s, e) :: []))
           (Z.add total score) allPos'
       | None -> extended_match co sc o r line withPos offsets0 total allPos'))

type mitem = ((nat * nat) list * z) * nat list option

(** val match_item :
    char_ops -> scheme -> pattern -> str -> bool -> mitem option res **)

let match_item co sc p line withPos =
  let o = p.pat_opts in
  if o.p_extended
  then bind (extended_match co sc o p.pat_sets line withPos [] Z0 [])
         (fun x ->
         let (p0, allPos) = x in
         let (offsets0, total) = p0 in
         if Nat.eqb (length offsets0) (length p.pat_sets)
         then Ok (Some ((offsets0, total),
                (if withPos then Some allPos else None)))
         else Ok None)
  else bind
         (run_algo co sc o (if o.p_fuzzy then TermFuzzy else TermExact)
           p.pat_cs p.pat_nm line p.pat_text withPos) (fun m ->
         match m with
         | NoMatch -> Ok None
         | Match (s, e, score, pos) ->
           Ok (Some ((((s, e) :: []), score), pos)))

(** val case_of_z : z -> case_mode **)

let case_of_z z0 =
  if Z.eqb z0 (Zpos XH)
  then CaseIgnore
  else if Z.eqb z0 (Zpos (XO XH)) then CaseRespect else CaseSmart

(** val as_popts : val0 -> popts **)

let as_popts v =
  { p_fuzzy = (as_bool (arg v O)); p_v2 = (as_bool (arg v (S O)));
    p_extended = (as_bool (arg v (S (S O)))); p_case =
    (case_of_z (as_int (arg v (S (S (S O)))))); p_normalize =
    (as_bool (arg v (S (S (S (S O)))))); p_forward =
    (as_bool (arg v (S (S (S (S (S O))))))); p_slabCap =
    (let c = as_int (arg v (S (S (S (S (S (S O))))))) in
     if Z.ltb c Z0 then None else Some c) }

(** val z_of_ttype : ttype -> z **)

let z_of_ttype = function
| TermFuzzy -> Z0
| TermExact -> Zpos XH
| TermExactBoundary -> Zpos (XO XH)
| TermPrefix -> Zpos (XI XH)
| TermSuffix -> Zpos (XO (XO XH))
| TermEqual -> Zpos (XI (XO XH))

(** val z_of_kind : kind -> z **)

let z_of_kind = function
| KFuzzy -> Z0
| KExact -> Zpos XH
| KBoundary -> Zpos (XO XH)
| KPrefix -> Zpos (XI XH)
| KSuffix -> Zpos (XO (XO XH))
| KEqual -> Zpos (XI (XO XH))

(** val v_term : term0 -> val0 **)

let v_term t0 =
  VL ((VI
    (z_of_ttype t0.tm_typ)) :: ((vbool t0.tm_inv) :: ((vstr t0.tm_text) :: (
    (vbool t0.tm_cs) :: ((vbool t0.tm_nm) :: [])))))

(** val v_sterm : sterm -> val0 **)

let v_sterm t0 =
  VL ((VI
    (z_of_kind t0.t_kind)) :: ((vbool t0.t_inv) :: ((vstr t0.t_text) :: (
    (vbool t0.t_cs) :: ((vbool t0.t_nm) :: [])))))

(** val v_sets : termSet list -> val0 **)

let v_sets s =
  VL (map (fun ts -> VL (map v_term ts)) s)

(** val v_groups : sterm list list -> val0 **)

let v_groups s =
  VL (map (fun ts -> VL (map v_sterm ts)) s)

(** val v_mitem : mitem option res -> val0 **)

let v_mitem = function
| Ok a ->
  (match a with
   | Some m ->
     let (p, pos) = m in
     let (offs, score) = p in
     VL ((VL
     (map (fun se -> VL ((vnat (fst se)) :: ((vnat (snd se)) :: []))) offs)) :: ((VI
     score) :: ((match pos with
                 | Some p0 -> VL (map vnat p0)
                 | None -> VI (Zneg XH)) :: [])))
   | None -> VL [])
| Err _ -> verr

(** val dispatch_pattern : z -> val0 -> val0 option **)

let dispatch_pattern op a =
  if Z.eqb op (Zpos (XI (XO (XI (XO (XO (XI XH)))))))
  then let co = ops_of (map as_str (as_list (arg a (S O)))) in
       Some
       (match parse_terms co (as_popts (arg a O)) (as_str (arg a (S (S O)))) with
        | Ok s -> v_sets s
        | Err _ -> verr)
  else if Z.eqb op (Zpos (XO (XI (XI (XO (XO (XI XH)))))))
       then let co = ops_of (map as_str (as_list (arg a (S O)))) in
            Some
            (v_groups
              (groups co (qopts_of (as_popts (arg a O)))
                (tokens (as_str (arg a (S (S O)))))))
       else if Z.eqb op (Zpos (XI (XI (XI (XO (XO (XI XH)))))))
            then let co = ops_of (map as_str (as_list (arg a (S (S O))))) in
                 let sc = scheme_of (as_int (arg a (S O))) in
                 Some
                 (v_mitem
                   (bind
                     (build_pattern co (as_popts (arg a O))
                       (as_str (arg a (S (S (S O)))))) (fun p ->
                     match_item co sc p (as_str (arg a (S (S (S (S O))))))
                       (as_bool (arg a (S (S (S (S (S O))))))))))
            else if Z.eqb op (Zpos (XO (XO (XO (XI (XO (XI XH)))))))
                 then let co = ops_of (map as_str (as_list (arg a (S (S O)))))
                      in
                      let sc = scheme_of (as_int (arg a (S O))) in
                      let o = qopts_of (as_popts (arg a O)) in
                      let q = as_str (arg a (S (S (S O)))) in
                      Some (VL
                      (map (fun l -> vbool (sat_query co sc o q l))
                        (as_strs (arg a (S (S (S (S O))))))))
                 else if Z.eqb op (Zpos (XI (XO (XO (XI (XO (XI XH)))))))
                      then let co =
                             ops_of (map as_str (as_list (arg a (S (S O)))))
                           in
                           let sc = scheme_of (as_int (arg a (S O))) in
                           Some
                           (match build_pattern co (as_popts (arg a O))
                                    (as_str (arg a (S (S (S O))))) with
                            | Ok p ->
                              VL
                                (map (fun l ->
                                  match match_item co sc p l false with
                                  | Ok a0 ->
                                    (match a0 with
                                     | Some _ -> VI (Zpos XH)
                                     | None -> VI Z0)
                                  | Err _ -> VI (Zneg XH))
                                  (as_strs (arg a (S (S (S (S O)))))))
                            | Err _ -> verr)
                      else if Z.eqb op (Zpos (XO (XI (XO (XI (XO (XI XH)))))))
                           then let co =
                                  ops_of (map as_str (as_list (arg a (S O))))
                                in
                                Some
                                (match build_pattern co (as_popts (arg a O))
                                         (as_str (arg a (S (S O)))) with
                                 | Ok p ->
                                   VL
                                     ((vbool p.pat_cs) :: ((vbool p.pat_nm) :: (
                                     (vstr p.pat_text) :: ((v_sets p.pat_sets) :: []))))
                                 | Err _ -> verr)
                           else if Z.eqb op (Zpos (XI (XI (XO (XI (XO (XI
                                     XH)))))))
                                then let co =
                                       ops_of
                                         (map as_str (as_list (arg a (S O))))
                                     in
                                     Some
                                     (v_groups
                                       (query_groups co
                                         (qopts_of (as_popts (arg a O)))
                                         (as_str (arg a (S (S O))))))
                                else None

(** val c_sq : z **)

let c_sq =
  Zpos (XI (XI (XI (XO (XO XH)))))

(** val c_bs : z **)

let c_bs =
  Zpos (XO (XO (XI (XI (XI (XO XH))))))

(** val c_sp : z **)

let c_sp =
  Zpos (XO (XO (XO (XO (XO XH)))))

(** val c_nl : z **)

let c_nl =
  Zpos (XO (XI (XO XH)))

(** val is_meta : z -> bool **)

let is_meta c =
  existsb (Z.eqb c) (Z0 :: ((Zpos (XO (XO (XI (XO (XO XH)))))) :: ((Zpos (XO
    (XO (XO (XO (XO (XI XH))))))) :: ((Zpos (XO (XI (XO (XO (XO
    XH)))))) :: ((Zpos (XI (XI (XO (XI (XI XH)))))) :: ((Zpos (XO (XI (XI (XO
    (XO XH)))))) :: ((Zpos (XO (XO (XI (XI (XI (XI XH))))))) :: ((Zpos (XO
    (XO (XI (XI (XI XH)))))) :: ((Zpos (XO (XI (XI (XI (XI XH)))))) :: ((Zpos
    (XO (XO (XO (XI (XO XH)))))) :: ((Zpos (XI (XO (XO (XI (XO
    XH)))))) :: ((Zpos (XO (XI (XO (XI (XO XH)))))) :: ((Zpos (XI (XI (XI (XI
    (XI XH)))))) :: ((Zpos (XI (XI (XO (XI (XI (XO XH))))))) :: ((Zpos (XI
    (XO (XI (XI (XI (XO XH))))))) :: ((Zpos (XI (XI (XO (XI (XI (XI
    XH))))))) :: ((Zpos (XI (XO (XI (XI (XI (XI XH))))))) :: ((Zpos (XO (XI
    (XI (XI (XI (XI XH))))))) :: ((Zpos (XI (XI (XO (XO (XO
    XH)))))) :: ((Zpos (XI (XO (XO (XO (XO XH)))))) :: ((Zpos (XO (XI (XO
    XH)))) :: ((Zpos (XI (XO (XO XH)))) :: []))))))))))))))))))))))

type mode =
| Out
| InWord
| InSQ
| Esc

type lst = { l_mode : mode; l_cur : str; l_acc : str list }

(** val step0 : lst -> z -> lst option **)

let step0 s c =
  match s.l_mode with
  | Out ->
    if Z.eqb c c_sp
    then Some { l_mode = Out; l_cur = []; l_acc = s.l_acc }
    else if Z.eqb c c_sq
         then Some { l_mode = InSQ; l_cur = []; l_acc = s.l_acc }
         else if Z.eqb c c_bs
              then Some { l_mode = Esc; l_cur = []; l_acc = s.l_acc }
              else if is_meta c
                   then None
                   else Some { l_mode = InWord; l_cur = (c :: []); l_acc =
                          s.l_acc }
  | InWord ->
    if Z.eqb c c_sp
    then Some { l_mode = Out; l_cur = []; l_acc = ((rev s.l_cur) :: s.l_acc) }
    else if Z.eqb c c_sq
         then Some { l_mode = InSQ; l_cur = s.l_cur; l_acc = s.l_acc }
         else if Z.eqb c c_bs
              then Some { l_mode = Esc; l_cur = s.l_cur; l_acc = s.l_acc }
              else if is_meta c
                   then None
                   else Some { l_mode = InWord; l_cur = (c :: s.l_cur);
                          l_acc = s.l_acc }
  | InSQ ->
    if Z.eqb c c_sq
    then Some { l_mode = InWord; l_cur = s.l_cur; l_acc = s.l_acc }
    else Some { l_mode = InSQ; l_cur = (c :: s.l_cur); l_acc = s.l_acc }
  | Esc ->
    if Z.eqb c c_nl
    then None
    else Some { l_mode = InWord; l_cur = (c :: s.l_cur); l_acc = s.l_acc }

(** val run1 : lst -> str -> lst option **)

let rec run1 s = function
| [] -> Some s
| c :: r -> (match step0 s c with
             | Some s' -> run1 s' r
             | None -> None)

(** val finish0 : lst -> str list option **)

let finish0 s =
  match s.l_mode with
  | Out -> Some (rev s.l_acc)
  | InWord -> Some (rev ((rev s.l_cur) :: s.l_acc))
  | _ -> None

(** val l_init : lst **)

let l_init =
  { l_mode = Out; l_cur = []; l_acc = [] }

(** val sh_words : str -> str list option **)

let sh_words t0 =
  match run1 l_init t0 with
  | Some s -> finish0 s
  | None -> None

type seg =
| SLit of str
| SWords of str list

(** val feed_word : lst -> str -> lst option **)

let feed_word s w =
  match s.l_mode with
  | Out -> Some { l_mode = InWord; l_cur = (rev w); l_acc = s.l_acc }
  | InWord ->
    Some { l_mode = InWord; l_cur = (app (rev w) s.l_cur); l_acc = s.l_acc }
  | _ -> None

(** val feed_words : lst -> str list -> lst option **)

let rec feed_words s = function
| [] -> Some s
| w :: r ->
  (match feed_word s w with
   | Some s1 ->
     (match r with
      | [] -> Some s1
      | _ :: _ ->
        (match step0 s1 c_sp with
         | Some s2 -> feed_words s2 r
         | None -> None))
   | None -> None)

(** val feed_segs : lst -> seg list -> lst option **)

let rec feed_segs s = function
| [] -> Some s
| s0 :: r ->
  (match s0 with
   | SLit t0 ->
     (match run1 s t0 with
      | Some s' -> feed_segs s' r
      | None -> None)
   | SWords ws ->
     (match feed_words s ws with
      | Some s' -> feed_segs s' r
      | None -> None))

(** val template_words : seg list -> str list option **)

let template_words gs =
  match feed_segs l_init gs with
  | Some s -> finish0 s
  | None -> None

(** val join_sp : str list -> str **)

let rec join_sp = function
| [] -> []
| w :: r -> (match r with
             | [] -> w
             | _ :: _ -> app w (c_sp :: (join_sp r)))

(** val esc_sh : str -> str **)

let rec esc_sh = function
| [] -> []
| c :: r ->
  if Z.eqb c c_sq
  then c_sq :: (c_bs :: (c_sq :: (c_sq :: (esc_sh r))))
  else c :: (esc_sh r)

(** val esc_fish : str -> str **)

let rec esc_fish = function
| [] -> []
| c :: r ->
  if Z.eqb c c_bs
  then c_bs :: (c_bs :: (esc_fish r))
  else if Z.eqb c c_sq
       then c_bs :: (c_sq :: (esc_fish r))
       else c :: (esc_fish r)

(** val quote_entry : bool -> str -> str **)

let quote_entry fish s =
  c_sq :: (app (if fish then esc_fish s else esc_sh s) (c_sq :: []))

(** val escape_single_quote : str -> str **)

let escape_single_quote s =
  c_sq :: (app (esc_sh s) (c_sq :: []))

(** val tmux_suffix : str **)

let tmux_suffix =
  (Zpos (XO (XO (XO (XO (XO XH)))))) :: ((Zpos (XI (XO (XI (XI (XO
    XH)))))) :: ((Zpos (XI (XO (XI (XI (XO XH)))))) :: ((Zpos (XO (XI (XI (XI
    (XO (XI XH))))))) :: ((Zpos (XI (XI (XI (XI (XO (XI XH))))))) :: ((Zpos
    (XI (XO (XI (XI (XO XH)))))) :: ((Zpos (XO (XO (XI (XO (XI (XI
    XH))))))) :: ((Zpos (XI (XO (XI (XI (XO (XI XH))))))) :: ((Zpos (XI (XO
    (XI (XO (XI (XI XH))))))) :: ((Zpos (XO (XO (XO (XI (XI (XI
    XH))))))) :: ((Zpos (XO (XO (XO (XO (XO XH)))))) :: ((Zpos (XI (XO (XI
    (XI (XO XH)))))) :: ((Zpos (XI (XO (XI (XI (XO XH)))))) :: ((Zpos (XO (XI
    (XI (XI (XO (XI XH))))))) :: ((Zpos (XI (XI (XI (XI (XO (XI
    XH))))))) :: ((Zpos (XI (XO (XI (XI (XO XH)))))) :: ((Zpos (XO (XO (XO
    (XI (XO (XI XH))))))) :: ((Zpos (XI (XO (XI (XO (XO (XI
    XH))))))) :: ((Zpos (XI (XO (XO (XI (XO (XI XH))))))) :: ((Zpos (XI (XI
    (XI (XO (XO (XI XH))))))) :: ((Zpos (XO (XO (XO (XI (XO (XI
    XH))))))) :: ((Zpos (XO (XO (XI (XO (XI (XI
    XH))))))) :: [])))))))))))))))))))))

(** val tmux_args_go : str -> str list -> str **)

let rec tmux_args_go acc = function
| [] -> acc
| a :: r -> tmux_args_go (app acc (c_sp :: (escape_single_quote a))) r

(** val tmux_arg_str : str -> str list -> str **)

let tmux_arg_str fzf args =
  app (tmux_args_go (escape_single_quote fzf) args) tmux_suffix

(** val export_word : str **)

let export_word =
  (Zpos (XI (XO (XI (XO (XO (XI XH))))))) :: ((Zpos (XO (XO (XO (XI (XI (XI
    XH))))))) :: ((Zpos (XO (XO (XO (XO (XI (XI XH))))))) :: ((Zpos (XI (XI
    (XI (XI (XO (XI XH))))))) :: ((Zpos (XO (XI (XO (XO (XI (XI
    XH))))))) :: ((Zpos (XO (XO (XI (XO (XI (XI XH))))))) :: [])))))

(** val export_line : str -> str -> str **)

let export_line name value =
  app export_word
    (c_sp :: (app name ((Zpos (XI (XO (XI (XI (XI
               XH)))))) :: (escape_single_quote value))))

(** val strip_prefix0 : str -> str -> str option **)

let rec strip_prefix0 p s =
  match p with
  | [] -> Some s
  | a :: p' ->
    (match s with
     | [] -> None
     | b :: s' -> if Z.eqb a b then strip_prefix0 p' s' else None)

(** val has_prefix1 : str -> str -> bool **)

let has_prefix1 p s =
  match strip_prefix0 p s with
  | Some _ -> true
  | None -> false

(** val has_suffix1 : str -> str -> bool **)

let has_suffix1 p s =
  has_prefix1 (rev p) (rev s)

(** val trim_suffix0 : str -> str -> str **)

let trim_suffix0 s p =
  match strip_prefix0 (rev p) (rev s) with
  | Some r -> rev r
  | None -> s

(** val span : (z -> bool) -> str -> nat * str **)

let rec span p s = match s with
| [] -> (O, [])
| c :: r -> if p c then let (n, t0) = span p r in ((S n), t0) else (O, s)

(** val join_str : str -> str list -> str **)

let rec join_str sep0 = function
| [] -> []
| l :: r ->
  (match r with
   | [] -> l
   | _ :: _ -> app l (app sep0 (join_str sep0 r)))

(** val mid : nat -> str -> str res **)

let mid a s =
  if Nat.leb (S a) (length s)
  then Ok (removelast (skipn a s))
  else Err OutOfRange

(** val c_lb : z **)

let c_lb =
  Zpos (XI (XI (XO (XI (XI (XI XH))))))

(** val c_rb : z **)

let c_rb =
  Zpos (XI (XO (XI (XI (XI (XI XH))))))

(** val in_flags : z -> bool **)

let in_flags c =
  (||)
    ((||)
      ((||) (Z.eqb c (Zpos (XI (XI (XO (XI (XO XH)))))))
        (Z.eqb c (Zpos (XI (XI (XO (XO (XI (XI XH)))))))))
      (Z.eqb c (Zpos (XO (XI (XI (XO (XO (XI XH)))))))))
    (Z.eqb c (Zpos (XO (XI (XO (XO (XI (XI XH))))))))

(** val in_range : z -> bool **)

let in_range c =
  (||)
    ((||)
      ((||)
        ((&&) (Z.leb (Zpos (XO (XO (XO (XO (XI XH)))))) c)
          (Z.leb c (Zpos (XI (XO (XO (XI (XI XH))))))))
        (Z.eqb c (Zpos (XO (XO (XI (XI (XO XH))))))))
      (Z.eqb c (Zpos (XI (XO (XI (XI (XO XH))))))))
    (Z.eqb c (Zpos (XO (XI (XI (XI (XO XH)))))))

(** val closes : str -> bool **)

let closes = function
| [] -> false
| c :: _ -> Z.eqb c c_rb

(** val m_a1 : str -> nat option **)

let m_a1 s =
  let (n1, r1) = span in_flags s in
  let (n2, r2) = span in_range r1 in
  if closes r2 then Some (add (add n1 n2) (S O)) else None

(** val m_a2 : str -> nat option **)

let m_a2 = function
| [] -> None
| q :: r ->
  if Z.eqb q (Zpos (XI (XO (XO (XO (XI (XI XH)))))))
  then if closes r
       then Some (S (S O))
       else (match r with
             | [] -> None
             | c :: r1 ->
               if Z.eqb c (Zpos (XO (XI (XO (XI (XI XH))))))
               then (match r1 with
                     | [] ->
                       let ns = O in
                       let (n, r3) = span in_range r1 in
                       (match n with
                        | O -> None
                        | S _ ->
                          if closes r3
                          then Some (add (add (add (S (S O)) ns) n) (S O))
                          else None)
                     | x :: r' ->
                       if Z.eqb x (Zpos (XI (XI (XO (XO (XI (XI XH)))))))
                       then let ns = S O in
                            let (n, r3) = span in_range r' in
                            (match n with
                             | O -> None
                             | S _ ->
                               if closes r3
                               then Some
                                      (add (add (add (S (S O)) ns) n) (S O))
                               else None)
                       else let ns = O in
                            let (n, r3) = span in_range r1 in
                            (match n with
                             | O -> None
                             | S _ ->
                               if closes r3
                               then Some
                                      (add (add (add (S (S O)) ns) n) (S O))
                               else None))
               else None)
  else None

(** val s_fzf_query : str **)

let s_fzf_query =
  (Zpos (XO (XI (XI (XO (XO (XI XH))))))) :: ((Zpos (XO (XI (XO (XI (XI (XI
    XH))))))) :: ((Zpos (XO (XI (XI (XO (XO (XI XH))))))) :: ((Zpos (XO (XI
    (XO (XI (XI XH)))))) :: ((Zpos (XI (XO (XO (XO (XI (XI
    XH))))))) :: ((Zpos (XI (XO (XI (XO (XI (XI XH))))))) :: ((Zpos (XI (XO
    (XI (XO (XO (XI XH))))))) :: ((Zpos (XO (XI (XO (XO (XI (XI
    XH))))))) :: ((Zpos (XI (XO (XO (XI (XI (XI XH))))))) :: ((Zpos (XI (XO
    (XI (XI (XI (XI XH))))))) :: [])))))))))

(** val s_fzf_action : str **)

let s_fzf_action =
  (Zpos (XO (XI (XI (XO (XO (XI XH))))))) :: ((Zpos (XO (XI (XO (XI (XI (XI
    XH))))))) :: ((Zpos (XO (XI (XI (XO (XO (XI XH))))))) :: ((Zpos (XO (XI
    (XO (XI (XI XH)))))) :: ((Zpos (XI (XO (XO (XO (XO (XI
    XH))))))) :: ((Zpos (XI (XI (XO (XO (XO (XI XH))))))) :: ((Zpos (XO (XO
    (XI (XO (XI (XI XH))))))) :: ((Zpos (XI (XO (XO (XI (XO (XI
    XH))))))) :: ((Zpos (XI (XI (XI (XI (XO (XI XH))))))) :: ((Zpos (XO (XI
    (XI (XI (XO (XI XH))))))) :: ((Zpos (XI (XO (XI (XI (XI (XI
    XH))))))) :: []))))))))))

(** val s_fzf_prompt : str **)

let s_fzf_prompt =
  (Zpos (XO (XI (XI (XO (XO (XI XH))))))) :: ((Zpos (XO (XI (XO (XI (XI (XI
    XH))))))) :: ((Zpos (XO (XI (XI (XO (XO (XI XH))))))) :: ((Zpos (XO (XI
    (XO (XI (XI XH)))))) :: ((Zpos (XO (XO (XO (XO (XI (XI
    XH))))))) :: ((Zpos (XO (XI (XO (XO (XI (XI XH))))))) :: ((Zpos (XI (XI
    (XI (XI (XO (XI XH))))))) :: ((Zpos (XI (XO (XI (XI (XO (XI
    XH))))))) :: ((Zpos (XO (XO (XO (XO (XI (XI XH))))))) :: ((Zpos (XO (XO
    (XI (XO (XI (XI XH))))))) :: ((Zpos (XI (XO (XI (XI (XI (XI
    XH))))))) :: []))))))))))

(** val m_a3 : str -> nat option **)

let m_a3 s =
  if has_prefix1 s_fzf_query s
  then Some (length s_fzf_query)
  else if has_prefix1 s_fzf_action s
       then Some (length s_fzf_action)
       else if has_prefix1 s_fzf_prompt s
            then Some (length s_fzf_prompt)
            else None

(** val opt_char : z -> str -> nat * str **)

let opt_char c s = match s with
| [] -> (O, s)
| x :: r -> if Z.eqb x c then ((S O), r) else (O, s)

(** val m_a4 : str -> nat option **)

let m_a4 s =
  let (n1, r1) = opt_char (Zpos (XI (XI (XO (XI (XO XH)))))) s in
  let (n2, r2) = opt_char (Zpos (XO (XI (XI (XO (XO (XI XH))))))) r1 in
  (match r2 with
   | [] -> None
   | c :: r3 ->
     if Z.eqb c (Zpos (XO (XI (XI (XI (XO (XI XH)))))))
     then let (n3, r4) = opt_char (Zpos (XO (XI (XI (XO (XO (XI XH))))))) r3
          in
          if closes r4
          then Some (add (add (add (add n1 n2) (S O)) n3) (S O))
          else None
     else None)

(** val match_at : str -> nat option **)

let match_at = function
| [] -> None
| c :: r ->
  if Z.eqb c c_lb
  then (match m_a1 r with
        | Some n -> Some (S n)
        | None ->
          (match m_a2 r with
           | Some n -> Some (S n)
           | None ->
             (match m_a3 r with
              | Some n -> Some (S n)
              | None ->
                (match m_a4 r with
                 | Some n -> Some (S n)
                 | None -> None))))
  else None

type piece =
| PLit of str
| PEsc of str
| PPh of str

(** val flush_lit : str -> piece list -> piece list **)

let flush_lit lit rest =
  match lit with
  | [] -> rest
  | _ :: _ -> (PLit (rev lit)) :: rest

(** val scan0 : str -> nat -> str -> piece list **)

let rec scan0 s skip lit =
  match s with
  | [] -> flush_lit lit []
  | c :: r ->
    (match skip with
     | O ->
       (match if Z.eqb c c_bs then match_at r else None with
        | Some n -> flush_lit lit ((PEsc (firstn n r)) :: (scan0 r n []))
        | None ->
          (match match_at s with
           | Some n0 ->
             (match n0 with
              | O -> scan0 r O (c :: lit)
              | S n ->
                flush_lit lit ((PPh (firstn (S n) s)) :: (scan0 r n [])))
           | None -> scan0 r O (c :: lit)))
     | S k -> scan0 r k lit)

type flags = { f_plus : bool; f_space : bool; f_number : bool; f_file : 
               bool; f_raw : bool }

(** val no_flags : flags **)

let no_flags =
  { f_plus = false; f_space = false; f_number = false; f_file = false;
    f_raw = false }

(** val pp_go : str -> flags -> str -> flags * str **)

let rec pp_go s fl acc =
  match s with
  | [] -> (fl, (rev acc))
  | c :: r ->
    if Z.eqb c (Zpos (XI (XI (XO (XI (XO XH))))))
    then pp_go r { f_plus = true; f_space = fl.f_space; f_number =
           fl.f_number; f_file = fl.f_file; f_raw = fl.f_raw } acc
    else if Z.eqb c (Zpos (XI (XI (XO (XO (XI (XI XH)))))))
         then pp_go r { f_plus = fl.f_plus; f_space = true; f_number =
                fl.f_number; f_file = fl.f_file; f_raw = fl.f_raw } acc
         else if Z.eqb c (Zpos (XO (XI (XI (XI (XO (XI XH)))))))
              then pp_go r { f_plus = fl.f_plus; f_space = fl.f_space;
                     f_number = true; f_file = fl.f_file; f_raw = fl.f_raw }
                     acc
              else if Z.eqb c (Zpos (XO (XI (XI (XO (XO (XI XH)))))))
                   then pp_go r { f_plus = fl.f_plus; f_space = fl.f_space;
                          f_number = fl.f_number; f_file = true; f_raw =
                          fl.f_raw } acc
                   else if Z.eqb c (Zpos (XO (XI (XO (XO (XI (XI XH)))))))
                        then pp_go r { f_plus = fl.f_plus; f_space =
                               fl.f_space; f_number = fl.f_number; f_file =
                               fl.f_file; f_raw = true } acc
                        else pp_go r fl (c :: acc)

(** val s_fzf_colon : str **)

let s_fzf_colon =
  (Zpos (XI (XI (XO (XI (XI (XI XH))))))) :: ((Zpos (XO (XI (XI (XO (XO (XI
    XH))))))) :: ((Zpos (XO (XI (XO (XI (XI (XI XH))))))) :: ((Zpos (XO (XI
    (XI (XO (XO (XI XH))))))) :: ((Zpos (XO (XI (XO (XI (XI XH)))))) :: []))))

(** val parse_placeholder : str -> (flags * str) res **)

let parse_placeholder m = match m with
| [] -> Err OutOfRange
| _ :: r ->
  if has_prefix1 s_fzf_colon m
  then Ok (no_flags, m)
  else let (fl, t0) = pp_go r no_flags [] in Ok (fl, (c_lb :: t0))

(** val is_digit0 : z -> bool **)

let is_digit0 c =
  (&&) (Z.leb (Zpos (XO (XO (XO (XO (XI XH)))))) c)
    (Z.leb c (Zpos (XI (XO (XO (XI (XI XH)))))))

(** val digits_val1 : z -> str -> z option **)

let rec digits_val1 acc = function
| [] -> Some acc
| c :: r ->
  if is_digit0 c
  then digits_val1
         (Z.add (Z.mul acc (Zpos (XO (XI (XO XH)))))
           (Z.sub c (Zpos (XO (XO (XO (XO (XI XH)))))))) r
  else None

(** val int_min : z **)

let int_min =
  Zneg (XO (XO (XO (XO (XO (XO (XO (XO (XO (XO (XO (XO (XO (XO (XO (XO (XO
    (XO (XO (XO (XO (XO (XO (XO (XO (XO (XO (XO (XO (XO (XO (XO (XO (XO (XO
    (XO (XO (XO (XO (XO (XO (XO (XO (XO (XO (XO (XO (XO (XO (XO (XO (XO (XO
    (XO (XO (XO (XO (XO (XO (XO (XO (XO (XO
    XH)))))))))))))))))))))))))))))))))))))))))))))))))))))))))))))))

(** val int_max : z **)

let int_max =
  Zpos (XI (XI (XI (XI (XI (XI (XI (XI (XI (XI (XI (XI (XI (XI (XI (XI (XI
    (XI (XI (XI (XI (XI (XI (XI (XI (XI (XI (XI (XI (XI (XI (XI (XI (XI (XI
    (XI (XI (XI (XI (XI (XI (XI (XI (XI (XI (XI (XI (XI (XI (XI (XI (XI (XI
    (XI (XI (XI (XI (XI (XI (XI (XI (XI
    XH))))))))))))))))))))))))))))))))))))))))))))))))))))))))))))))

(** val atoi1 : str -> z option **)

let atoi1 s = match s with
| [] ->
  let neg = false in
  (match s with
   | [] -> None
   | _ :: _ ->
     (match digits_val1 Z0 s with
      | Some v ->
        let v0 = if neg then Z.opp v else v in
        if (&&) (Z.leb int_min v0) (Z.leb v0 int_max) then Some v0 else None
      | None -> None))
| c :: r ->
  if Z.eqb c (Zpos (XI (XO (XI (XI (XO XH))))))
  then let neg = true in
       (match r with
        | [] -> None
        | _ :: _ ->
          (match digits_val1 Z0 r with
           | Some v ->
             let v0 = if neg then Z.opp v else v in
             if (&&) (Z.leb int_min v0) (Z.leb v0 int_max)
             then Some v0
             else None
           | None -> None))
  else if Z.eqb c (Zpos (XI (XI (XO (XI (XO XH))))))
       then let neg = false in
            (match r with
             | [] -> None
             | _ :: _ ->
               (match digits_val1 Z0 r with
                | Some v ->
                  let v0 = if neg then Z.opp v else v in
                  if (&&) (Z.leb int_min v0) (Z.leb v0 int_max)
                  then Some v0
                  else None
                | None -> None))
       else let neg = false in
            (match s with
             | [] -> None
             | _ :: _ ->
               (match digits_val1 Z0 s with
                | Some v ->
                  let v0 = if neg then Z.opp v else v in
                  if (&&) (Z.leb int_min v0) (Z.leb v0 int_max)
                  then Some v0
                  else None
                | None -> None))

(** val itoa_pos : nat -> z -> str -> str **)

let rec itoa_pos fuel n acc =
  match fuel with
  | O -> acc
  | S f ->
    let acc0 =
      (Z.add (Zpos (XO (XO (XO (XO (XI XH))))))
        (Z.modulo n (Zpos (XO (XI (XO XH)))))) :: acc
    in
    if Z.eqb (Z.div n (Zpos (XO (XI (XO XH))))) Z0
    then acc0
    else itoa_pos f (Z.div n (Zpos (XO (XI (XO XH))))) acc0

(** val bits : z -> nat **)

let bits = function
| Z0 -> O
| Zpos p -> Pos.size_nat p
| Zneg p -> Pos.size_nat p

(** val itoa0 : z -> str **)

let itoa0 n =
  if Z.ltb n Z0
  then (Zpos (XI (XO (XI (XI (XO
         XH)))))) :: (itoa_pos (S (bits n)) (Z.opp n) [])
  else itoa_pos (S (bits n)) n []

(** val s_dd : str **)

let s_dd =
  (Zpos (XO (XI (XI (XI (XO XH)))))) :: ((Zpos (XO (XI (XI (XI (XO
    XH)))))) :: [])

(** val split_dd : str -> str -> str list **)

let rec split_dd s cur =
  match s with
  | [] -> (rev cur) :: []
  | c :: r ->
    (match r with
     | [] -> split_dd r (c :: cur)
     | d :: r' ->
       if (&&) (Z.eqb c (Zpos (XO (XI (XI (XI (XO XH)))))))
            (Z.eqb d (Zpos (XO (XI (XI (XI (XO XH)))))))
       then (rev cur) :: (split_dd r' [])
       else split_dd r (c :: cur))

type rng = z * z

(** val new_range1 : z -> z -> rng **)

let new_range1 b e =
  let b0 =
    if (&&) (Z.eqb b (Zpos XH)) (negb (Z.eqb e (Zpos XH))) then Z0 else b
  in
  let e0 = if Z.eqb e (Zneg XH) then Z0 else e in (b0, e0)

(** val atoi_nz : str -> z option **)

let atoi_nz s =
  match atoi1 s with
  | Some v -> if Z.eqb v Z0 then None else Some v
  | None -> None

(** val parse_range0 : str -> rng option **)

let parse_range0 s =
  if str_eqb s s_dd
  then Some (new_range1 Z0 Z0)
  else if has_prefix1 s_dd s
       then (match atoi_nz (skipn (S (S O)) s) with
             | Some e -> Some (new_range1 Z0 e)
             | None -> None)
       else if has_suffix1 s_dd s
            then (match atoi_nz (firstn (sub (length s) (S (S O))) s) with
                  | Some b -> Some (new_range1 b Z0)
                  | None -> None)
            else (match split_dd s [] with
                  | [] -> None
                  | a :: l ->
                    (match l with
                     | [] ->
                       (match atoi_nz s with
                        | Some n -> Some (new_range1 n n)
                        | None -> None)
                     | b :: l0 ->
                       (match l0 with
                        | [] ->
                          (match atoi_nz a with
                           | Some x ->
                             (match atoi_nz b with
                              | Some y ->
                                if (&&) (Z.ltb x Z0) (Z.ltb Z0 y)
                                then None
                                else Some (new_range1 x y)
                              | None -> None)
                           | None -> None)
                        | _ :: _ -> None)))

(** val split_comma : str -> str -> str list **)

let rec split_comma s cur =
  match s with
  | [] -> (rev cur) :: []
  | c :: r ->
    if Z.eqb c (Zpos (XO (XO (XI (XI (XO XH))))))
    then (rev cur) :: (split_comma r [])
    else split_comma r (c :: cur)

(** val parse_ranges : str list -> rng list option **)

let rec parse_ranges = function
| [] -> Some []
| e :: r ->
  (match parse_range0 e with
   | Some x ->
     (match parse_ranges r with
      | Some xs -> Some (x :: xs)
      | None -> None)
   | None -> None)

(** val split_nth0 : str -> rng list option **)

let split_nth0 s = match s with
| [] -> None
| _ :: _ ->
  if forallb in_range s then parse_ranges (split_comma s []) else None

type awk_state0 =
| AwkNil0
| AwkBlack0
| AwkWhite0

(** val awk_white : z -> bool **)

let awk_white c =
  (||) (Z.eqb c (Zpos (XI (XO (XO XH)))))
    (Z.eqb c (Zpos (XO (XO (XO (XO (XO XH)))))))

(** val awk_go : str -> awk_state0 -> str -> str list -> str list **)

let rec awk_go s st0 cur ret =
  match s with
  | [] -> (match st0 with
           | AwkNil0 -> rev ret
           | _ -> rev ((rev cur) :: ret))
  | c :: r ->
    (match st0 with
     | AwkNil0 ->
       if awk_white c
       then awk_go r AwkNil0 cur ret
       else awk_go r AwkBlack0 (c :: []) ret
     | AwkBlack0 ->
       awk_go r (if awk_white c then AwkWhite0 else AwkBlack0) (c :: cur) ret
     | AwkWhite0 ->
       if awk_white c
       then awk_go r AwkWhite0 (c :: cur) ret
       else awk_go r AwkBlack0 (c :: []) ((rev cur) :: ret))

(** val awk_tokens : str -> str list **)

let awk_tokens s =
  awk_go s AwkNil0 [] []

(** val split_after0 : nat -> str -> str -> str -> str list res **)

let rec split_after0 fuel sep0 s cur =
  match fuel with
  | O -> Err OutOfFuel
  | S f ->
    (match s with
     | [] -> Ok ((rev cur) :: [])
     | c :: r ->
       (match strip_prefix0 sep0 s with
        | Some rest ->
          bind (split_after0 f sep0 rest []) (fun l -> Ok
            ((app (rev cur) sep0) :: l))
        | None -> split_after0 f sep0 r (c :: cur)))

(** val tokenize0 : str option -> str -> str list res **)

let tokenize0 delim0 s =
  match delim0 with
  | Some d ->
    (match d with
     | [] -> Err BadInput
     | _ :: _ -> split_after0 (S (length s)) d s [])
  | None -> Ok (awk_tokens s)

(** val sel_go : str list -> z -> z -> z -> str **)

let rec sel_go ts i lo hi =
  match ts with
  | [] -> []
  | t0 :: r ->
    app (if (&&) (Z.leb lo i) (Z.leb i hi) then t0 else [])
      (sel_go r (Z.add i (Zpos XH)) lo hi)

(** val sel : str list -> z -> z -> str **)

let sel ts lo hi =
  sel_go ts (Zpos XH) lo hi

(** val transform1 : str list -> rng -> str **)

let transform1 ts r =
  let n = Z.of_nat (length ts) in
  let adj0 = fun x -> if Z.ltb x Z0 then Z.add (Z.add x n) (Zpos XH) else x in
  let (b, e) = r in
  if Z.eqb b e
  then if Z.eqb b Z0 then concat ts else sel ts (adj0 b) (adj0 b)
  else if Z.eqb b Z0
       then sel ts (Zpos XH) (adj0 e)
       else if Z.eqb e Z0 then sel ts (adj0 b) n else sel ts (adj0 b) (adj0 e)

(** val transform_join : str list -> rng list -> str **)

let transform_join ts rs =
  concat (map (transform1 ts) rs)

(** val ascii_space0 : z -> bool **)

let ascii_space0 c =
  (||)
    ((&&) (Z.leb (Zpos (XI (XO (XO XH)))) c)
      (Z.leb c (Zpos (XI (XO (XI XH))))))
    (Z.eqb c (Zpos (XO (XO (XO (XO (XO XH)))))))

(** val space_len : str -> nat **)

let space_len = function
| [] -> O
| a :: r ->
  if ascii_space0 a
  then S O
  else (match r with
        | [] -> O
        | b :: r' ->
          if (&&) (Z.eqb a (Zpos (XO (XI (XO (XO (XO (XO (XI XH)))))))))
               ((||) (Z.eqb b (Zpos (XI (XO (XI (XO (XO (XO (XO XH)))))))))
                 (Z.eqb b (Zpos (XO (XO (XO (XO (XO (XI (XO XH))))))))))
          then S (S O)
          else (match r' with
                | [] -> O
                | c :: _ ->
                  if (&&)
                       ((&&)
                         (Z.eqb a (Zpos (XI (XO (XO (XO (XO (XI (XI
                           XH)))))))))
                         (Z.eqb b (Zpos (XO (XI (XO (XI (XI (XO (XO
                           XH))))))))))
                       (Z.eqb c (Zpos (XO (XO (XO (XO (XO (XO (XO XH)))))))))
                  then S (S (S O))
                  else if (&&)
                            ((&&)
                              (Z.eqb a (Zpos (XO (XI (XO (XO (XO (XI (XI
                                XH)))))))))
                              (Z.eqb b (Zpos (XO (XO (XO (XO (XO (XO (XO
                                XH))))))))))
                            ((||)
                              ((||)
                                ((||)
                                  ((&&)
                                    (Z.leb (Zpos (XO (XO (XO (XO (XO (XO (XO
                                      XH)))))))) c)
                                    (Z.leb c (Zpos (XO (XI (XO (XI (XO (XO
                                      (XO XH))))))))))
                                  (Z.eqb c (Zpos (XO (XO (XO (XI (XO (XI (XO
                                    XH))))))))))
                                (Z.eqb c (Zpos (XI (XO (XO (XI (XO (XI (XO
                                  XH))))))))))
                              (Z.eqb c (Zpos (XI (XI (XI (XI (XO (XI (XO
                                XH))))))))))
                       then S (S (S O))
                       else if (&&)
                                 ((&&)
                                   (Z.eqb a (Zpos (XO (XI (XO (XO (XO (XI (XI
                                     XH)))))))))
                                   (Z.eqb b (Zpos (XI (XO (XO (XO (XO (XO (XO
                                     XH))))))))))
                                 (Z.eqb c (Zpos (XI (XI (XI (XI (XI (XO (XO
                                   XH)))))))))
                            then S (S (S O))
                            else if (&&)
                                      ((&&)
                                        (Z.eqb a (Zpos (XI (XI (XO (XO (XO
                                          (XI (XI XH)))))))))
                                        (Z.eqb b (Zpos (XO (XO (XO (XO (XO
                                          (XO (XO XH))))))))))
                                      (Z.eqb c (Zpos (XO (XO (XO (XO (XO (XO
                                        (XO XH)))))))))
                                 then S (S (S O))
                                 else O))

(** val space_len_rev : str -> nat **)

let space_len_rev = function
| [] -> O
| c :: r ->
  if ascii_space0 c
  then S O
  else (match r with
        | [] -> O
        | b :: r' ->
          if (&&) (Z.eqb b (Zpos (XO (XI (XO (XO (XO (XO (XI XH)))))))))
               ((||) (Z.eqb c (Zpos (XI (XO (XI (XO (XO (XO (XO XH)))))))))
                 (Z.eqb c (Zpos (XO (XO (XO (XO (XO (XI (XO XH))))))))))
          then S (S O)
          else (match r' with
                | [] -> O
                | a :: _ ->
                  if (&&)
                       ((&&)
                         (Z.eqb a (Zpos (XI (XO (XO (XO (XO (XI (XI
                           XH)))))))))
                         (Z.eqb b (Zpos (XO (XI (XO (XI (XI (XO (XO
                           XH))))))))))
                       (Z.eqb c (Zpos (XO (XO (XO (XO (XO (XO (XO XH)))))))))
                  then S (S (S O))
                  else if (&&)
                            ((&&)
                              (Z.eqb a (Zpos (XO (XI (XO (XO (XO (XI (XI
                                XH)))))))))
                              (Z.eqb b (Zpos (XO (XO (XO (XO (XO (XO (XO
                                XH))))))))))
                            ((||)
                              ((||)
                                ((||)
                                  ((&&)
                                    (Z.leb (Zpos (XO (XO (XO (XO (XO (XO (XO
                                      XH)))))))) c)
                                    (Z.leb c (Zpos (XO (XI (XO (XI (XO (XO
                                      (XO XH))))))))))
                                  (Z.eqb c (Zpos (XO (XO (XO (XI (XO (XI (XO
                                    XH))))))))))
                                (Z.eqb c (Zpos (XI (XO (XO (XI (XO (XI (XO
                                  XH))))))))))
                              (Z.eqb c (Zpos (XI (XI (XI (XI (XO (XI (XO
                                XH))))))))))
                       then S (S (S O))
                       else if (&&)
                                 ((&&)
                                   (Z.eqb a (Zpos (XO (XI (XO (XO (XO (XI (XI
                                     XH)))))))))
                                   (Z.eqb b (Zpos (XI (XO (XO (XO (XO (XO (XO
                                     XH))))))))))
                                 (Z.eqb c (Zpos (XI (XI (XI (XI (XI (XO (XO
                                   XH)))))))))
                            then S (S (S O))
                            else if (&&)
                                      ((&&)
                                        (Z.eqb a (Zpos (XI (XI (XO (XO (XO
                                          (XI (XI XH)))))))))
                                        (Z.eqb b (Zpos (XO (XO (XO (XO (XO
                                          (XO (XO XH))))))))))
                                      (Z.eqb c (Zpos (XO (XO (XO (XO (XO (XO
                                        (XO XH)))))))))
                                 then S (S (S O))
                                 else O))

(** val trim_with : (str -> nat) -> nat -> str -> str **)

let rec trim_with f fuel s =
  match fuel with
  | O -> s
  | S k -> (match f s with
            | O -> s
            | S n0 -> trim_with f k (skipn (S n0) s))

(** val trim_space0 : str -> str **)

let trim_space0 s =
  let l = trim_with space_len (length s) s in
  rev (trim_with space_len_rev (length l) (rev l))

type item1 = z * str

(** val min_int32 : z **)

let min_int32 =
  Zneg (XO (XO (XO (XO (XO (XO (XO (XO (XO (XO (XO (XO (XO (XO (XO (XO (XO
    (XO (XO (XO (XO (XO (XO (XO (XO (XO (XO (XO (XO (XO (XO
    XH)))))))))))))))))))))))))))))))

type params = { p_delim : str option; p_printsep : str; p_force_plus : 
                bool; p_query : str; p_current : item1 list;
                p_selected : item1 list; p_action : str; p_prompt : str;
                p_fish : bool }

type outp =
| OText of str
| OWords of (str * str) list

(** val render0 : outp -> str **)

let render0 = function
| OText s -> s
| OWords l -> join_sp (map fst l)

(** val s_q0 : str **)

let s_q0 =
  (Zpos (XI (XI (XO (XI (XI (XI XH))))))) :: ((Zpos (XI (XO (XO (XO (XI (XI
    XH))))))) :: ((Zpos (XI (XO (XI (XI (XI (XI XH))))))) :: []))

(** val s_q_colon : str **)

let s_q_colon =
  (Zpos (XI (XI (XO (XI (XI (XI XH))))))) :: ((Zpos (XI (XO (XO (XO (XI (XI
    XH))))))) :: ((Zpos (XO (XI (XO (XI (XI XH)))))) :: []))

(** val s_braces : str **)

let s_braces =
  (Zpos (XI (XI (XO (XI (XI (XI XH))))))) :: ((Zpos (XI (XO (XI (XI (XI (XI
    XH))))))) :: [])

(** val s_m_query : str **)

let s_m_query =
  c_lb :: s_fzf_query

(** val s_m_action : str **)

let s_m_action =
  c_lb :: s_fzf_action

(** val s_m_prompt : str **)

let s_m_prompt =
  c_lb :: s_fzf_prompt

(** val s_empty_quotes : str **)

let s_empty_quotes =
  (Zpos (XI (XI (XI (XO (XO XH)))))) :: ((Zpos (XI (XI (XI (XO (XO
    XH)))))) :: [])

(** val quoted : params -> str -> str * str **)

let quoted p v =
  ((quote_entry p.p_fish v), v)

(** val repl_item : params -> flags -> item1 -> str * str **)

let repl_item p fl = function
| (idx0, text) ->
  if fl.f_number
  then if Z.eqb idx0 min_int32
       then (s_empty_quotes, [])
       else ((itoa0 idx0), (itoa0 idx0))
  else if (||) fl.f_file fl.f_raw then (text, text) else quoted p text

(** val field_value : params -> flags -> rng list -> str -> str res **)

let field_value p fl rs text =
  bind (tokenize0 p.p_delim text) (fun ts ->
    let s = transform_join ts rs in
    let s0 = match p.p_delim with
             | Some d -> trim_suffix0 s d
             | None -> s in
    Ok (if fl.f_space then s0 else trim_space0 s0))

(** val repl_fields :
    params -> flags -> rng list -> item1 -> (str * str) res **)

let repl_fields p fl rs it =
  bind (field_value p fl rs (snd it)) (fun v -> Ok
    (if (||) fl.f_file fl.f_raw then (v, v) else quoted p v))

(** val map_res0 : ('a1 -> 'a2 res) -> 'a1 list -> 'a2 list res **)

let rec map_res0 f = function
| [] -> Ok []
| x :: r -> bind (f x) (fun y -> bind (map_res0 f r) (fun ys -> Ok (y :: ys)))

(** val over_items :
    params -> flags -> bool -> (item1 -> (str * str) res) -> str list ->
    ((outp * str list) * str list) res **)

let over_items p fl raw f temps =
  let items =
    if (||) fl.f_plus p.p_force_plus then p.p_selected else p.p_current
  in
  bind (map_res0 f items) (fun reps ->
    if fl.f_file
    then (match temps with
          | [] -> Err BadInput
          | name :: rest ->
            Ok (((OText name),
              ((app (join_str p.p_printsep (map fst reps)) p.p_printsep) :: [])),
              rest))
    else if raw
         then Ok (((OText (join_sp (map fst reps))), []), temps)
         else Ok (((OWords reps), []), temps))

(** val expand_ph :
    params -> str -> str list -> ((outp * str list) * str list) res **)

let expand_ph p m temps =
  bind (parse_placeholder m) (fun fm ->
    let (fl, mm) = fm in
    if (||) (str_eqb mm s_q0) (str_eqb mm s_m_query)
    then Ok (((OWords ((quoted p p.p_query) :: [])), []), temps)
    else if has_prefix1 s_q_colon mm
         then bind (mid (S (S (S O))) mm) (fun body ->
                match split_nth0 body with
                | Some rs ->
                  let s = transform_join (awk_tokens p.p_query) rs in
                  Ok (((OWords
                  ((quoted p (if fl.f_space then s else trim_space0 s)) :: [])),
                  []), temps)
                | None -> Ok (((OText mm), []), temps))
         else if str_eqb mm s_braces
              then over_items p fl
                     ((&&) (negb fl.f_number) ((||) fl.f_file fl.f_raw))
                     (fun it -> Ok (repl_item p fl it)) temps
              else if str_eqb mm s_m_action
                   then Ok (((OText p.p_action), []), temps)
                   else if str_eqb mm s_m_prompt
                        then Ok (((OWords ((quoted p p.p_prompt) :: [])),
                               []), temps)
                        else bind (mid (S O) mm) (fun body ->
                               match parse_ranges (split_comma body []) with
                               | Some rs ->
                                 over_items p fl ((||) fl.f_file fl.f_raw)
                                   (repl_fields p fl rs) temps
                               | None -> Ok (((OText mm), []), temps)))

(** val expand_all :
    params -> piece list -> str list -> (outp list * str list) res **)

let rec expand_all p ps temps =
  match ps with
  | [] -> Ok ([], [])
  | p0 :: r ->
    (match p0 with
     | PLit t0 ->
       bind (expand_all p r temps) (fun x -> Ok (((OText t0) :: (fst x)),
         (snd x)))
     | PEsc m ->
       bind (expand_all p r temps) (fun x -> Ok (((OText m) :: (fst x)),
         (snd x)))
     | PPh m ->
       bind (expand_ph p m temps) (fun y ->
         let (p1, temps') = y in
         let (o, files) = p1 in
         bind (expand_all p r temps') (fun x -> Ok ((o :: (fst x)),
           (app files (snd x))))))

(** val replace_structured :
    params -> str -> str list -> (outp list * str list) res **)

let replace_structured p template temps =
  expand_all p (scan0 template O []) temps

(** val replace_placeholder :
    params -> str -> str list -> (str * str list) res **)

let replace_placeholder p template temps =
  bind (replace_structured p template temps) (fun x -> Ok
    ((concat (map render0 (fst x))), (snd x)))

(** val vopt_words : str list option -> val0 **)

let vopt_words = function
| Some ws -> VL ((vstrs ws) :: [])
| None -> VL []

(** val as_item0 : val0 -> item1 **)

let as_item0 v =
  ((as_int (arg v O)), (as_str (arg v (S O))))

(** val as_optstr : val0 -> str option **)

let as_optstr v =
  match as_list v with
  | [] -> None
  | d :: _ -> Some (as_str d)

(** val as_params : val0 -> params **)

let as_params v =
  { p_delim = (as_optstr (arg v O)); p_printsep = (as_str (arg v (S O)));
    p_force_plus = (as_bool (arg v (S (S O)))); p_query =
    (as_str (arg v (S (S (S O))))); p_current =
    (map as_item0 (as_list (arg v (S (S (S (S O))))))); p_selected =
    (map as_item0 (as_list (arg v (S (S (S (S (S O)))))))); p_action =
    (as_str (arg v (S (S (S (S (S (S O)))))))); p_prompt =
    (as_str (arg v (S (S (S (S (S (S (S O))))))))); p_fish =
    (as_bool (arg v (S (S (S (S (S (S (S (S O)))))))))) }

(** val as_seg : val0 -> seg **)

let as_seg v =
  if Z.eqb (as_int (arg v O)) Z0
  then SLit (as_str (arg v (S O)))
  else SWords (as_strs (arg v (S O)))

(** val v_outp : outp -> val0 **)

let v_outp = function
| OText s -> VL ((VI Z0) :: ((vstr s) :: []))
| OWords l ->
  VL ((VI (Zpos XH)) :: ((VL
    (map (fun ev -> VL ((vstr (fst ev)) :: ((vstr (snd ev)) :: []))) l)) :: []))

(** val v_piece : piece -> val0 **)

let v_piece = function
| PLit t0 -> VL ((VI Z0) :: ((vstr t0) :: []))
| PEsc m -> VL ((VI (Zpos XH)) :: ((vstr m) :: []))
| PPh m -> VL ((VI (Zpos (XO XH))) :: ((vstr m) :: []))

(** val dispatch_placeholder : z -> val0 -> val0 option **)

let dispatch_placeholder op a =
  if Z.eqb op (Zpos (XI (XO (XO (XO (XI (XI (XO (XI (XO (XO XH)))))))))))
  then Some
         (match replace_placeholder (as_params (arg a O))
                  (as_str (arg a (S O))) (as_strs (arg a (S (S O)))) with
          | Ok a0 ->
            let (out, files) = a0 in VL ((vstr out) :: ((vstrs files) :: []))
          | Err _ -> verr)
  else if Z.eqb op (Zpos (XO (XI (XO (XO (XI (XI (XO (XI (XO (XO XH)))))))))))
       then Some (vopt_words (sh_words (as_str a)))
       else if Z.eqb op (Zpos (XI (XI (XO (XO (XI (XI (XO (XI (XO (XO
                 XH)))))))))))
            then Some (vopt_words (template_words (map as_seg (as_list a))))
            else if Z.eqb op (Zpos (XO (XO (XI (XO (XI (XI (XO (XI (XO (XO
                      XH)))))))))))
                 then Some
                        (match replace_structured (as_params (arg a O))
                                 (as_str (arg a (S O)))
                                 (as_strs (arg a (S (S O)))) with
                         | Ok a0 -> let (outs, _) = a0 in VL (map v_outp outs)
                         | Err _ -> verr)
                 else if Z.eqb op (Zpos (XI (XO (XI (XO (XI (XI (XO (XI (XO
                           (XO XH)))))))))))
                      then Some (vstr (escape_single_quote (as_str a)))
                      else if Z.eqb op (Zpos (XO (XI (XI (XO (XI (XI (XO (XI
                                (XO (XO XH)))))))))))
                           then Some
                                  (vstr
                                    (quote_entry (as_bool (arg a O))
                                      (as_str (arg a (S O)))))
                           else if Z.eqb op (Zpos (XI (XI (XI (XO (XI (XI (XO
                                     (XI (XO (XO XH)))))))))))
                                then Some
                                       (vstr
                                         (tmux_arg_str (as_str (arg a O))
                                           (as_strs (arg a (S O)))))
                                else if Z.eqb op (Zpos (XO (XO (XO (XI (XI
                                          (XI (XO (XI (XO (XO XH)))))))))))
                                     then Some
                                            (vstr
                                              (export_line (as_str (arg a O))
                                                (as_str (arg a (S O)))))
                                     else if Z.eqb op (Zpos (XI (XO (XO (XI
                                               (XI (XI (XO (XI (XO (XO
                                               XH)))))))))))
                                          then Some (VL
                                                 (map v_piece
                                                   (scan0 (as_str a) O [])))
                                          else None

(** val nLB : z **)

let nLB =
  Zpos (XO (XI (XO XH)))

(** val nUL : z **)

let nUL =
  Z0

(** val delim_of : bool -> z **)

let delim_of = function
| true -> nUL
| false -> nLB

(** val unrev : str -> str **)

let unrev cur =
  rev_append cur []

(** val split_acc : z -> str -> str -> str list **)

let rec split_acc d cur = function
| [] -> (match cur with
         | [] -> []
         | _ :: _ -> (unrev cur) :: [])
| c :: r ->
  if Z.eqb c d
  then (unrev cur) :: (split_acc d [] r)
  else split_acc d (c :: cur) r

(** val split_records : z -> str -> str list **)

let split_records d s =
  split_acc d [] s

type item2 = nat * str

(** val number_from : nat -> str list -> item2 list **)

let rec number_from k = function
| [] -> []
| r :: t0 -> (k, r) :: (number_from (S k) t0)

(** val header_of : nat -> str list -> str list **)

let header_of =
  firstn

(** val items_of : nat -> str list -> item2 list **)

let items_of hl recs =
  number_from O (skipn hl recs)

(** val keep_tail : nat -> 'a1 list -> 'a1 list **)

let keep_tail tail l =
  match tail with
  | O -> l
  | S _ -> last_n tail l

(** val searchable : bool -> nat -> nat -> str -> item2 list **)

let searchable read0 hl tail s =
  keep_tail tail (items_of hl (split_records (delim_of read0) s))

type slice0 = { sl_buf : nat; sl_off : nat; sl_len : nat }

type mem0 = str list

(** val take_exact : nat -> 'a1 list -> 'a1 list res **)

let rec take_exact n l =
  match n with
  | O -> Ok []
  | S n0 ->
    (match l with
     | [] -> Err OutOfRange
     | x :: t0 -> bind (take_exact n0 t0) (fun r -> Ok (x :: r)))

(** val drop_exact : nat -> 'a1 list -> 'a1 list res **)

let rec drop_exact n l =
  match n with
  | O -> Ok l
  | S n0 -> (match l with
             | [] -> Err OutOfRange
             | _ :: t0 -> drop_exact n0 t0)

(** val overwrite : 'a1 list -> 'a1 list -> 'a1 list res **)

let rec overwrite data l =
  match data with
  | [] -> Ok l
  | x :: d ->
    (match l with
     | [] -> Err OutOfRange
     | _ :: t0 -> bind (overwrite d t0) (fun r -> Ok (x :: r)))

(** val write_off : nat -> 'a1 list -> 'a1 list -> 'a1 list res **)

let rec write_off off data l =
  match off with
  | O -> overwrite data l
  | S k ->
    (match l with
     | [] -> Err OutOfRange
     | x :: t0 -> bind (write_off k data t0) (fun r -> Ok (x :: r)))

(** val deref : mem0 -> slice0 -> str res **)

let deref m s =
  bind (get m s.sl_buf) (fun b ->
    bind (drop_exact s.sl_off b) (fun t0 -> take_exact s.sl_len t0))

(** val write_at : mem0 -> nat -> nat -> str -> mem0 res **)

let write_at m id off data =
  bind (get m id) (fun b ->
    bind (write_off off data b) (fun b' -> set_nth m id b'))

(** val alloc : mem0 -> str -> mem0 * nat **)

let alloc m b =
  ((app m (b :: [])), (length m))

(** val cR : z **)

let cR =
  Zpos (XI (XO (XI XH)))

(** val index_byte0 : str -> z -> nat option **)

let rec index_byte0 s d =
  match s with
  | [] -> None
  | c :: r ->
    if Z.eqb c d then Some O else option_map (fun x -> S x) (index_byte0 r d)

type fstate = { f_mem : mem0; f_left : str; f_items : slice0 list }

(** val emit0 : fstate -> slice0 -> fstate res **)

let emit0 st0 sl =
  match st0.f_left with
  | [] -> Ok { f_mem = st0.f_mem; f_left = []; f_items = (sl :: st0.f_items) }
  | z0 :: l0 ->
    bind (deref st0.f_mem sl) (fun v ->
      let joined = app (z0 :: l0) v in
      let (m', id) = alloc st0.f_mem joined in
      Ok { f_mem = m'; f_left = []; f_items = ({ sl_buf = id; sl_off = O;
      sl_len = (length joined) } :: st0.f_items) })

(** val scan_buf :
    nat -> z -> bool -> nat -> nat -> str -> fstate -> fstate res **)

let rec scan_buf fuel d trimCR id off data st0 =
  match fuel with
  | O -> Err OutOfFuel
  | S fuel0 ->
    (match data with
     | [] -> Ok st0
     | _ :: _ ->
       (match index_byte0 data d with
        | Some i ->
          bind
            (if (&&) trimCR (Nat.leb (S (S O)) (S i))
             then bind (get data (sub i (S O))) (fun c -> Ok
                    (if Z.eqb c cR then sub i (S O) else i))
             else Ok i) (fun n ->
            bind (emit0 st0 { sl_buf = id; sl_off = off; sl_len = n })
              (fun st' ->
              scan_buf fuel0 d trimCR id (add (S i) off) (skipn (S i) data)
                st'))
        | None ->
          Ok { f_mem = st0.f_mem; f_left = (app st0.f_left data); f_items =
            st0.f_items }))

(** val read_retry :
    nat -> nat -> nat -> str -> nat list -> str * nat list **)

let rec read_retry tries slablen bufsz rest cuts =
  match tries with
  | O -> ([], cuts)
  | S t0 ->
    (match rest with
     | [] -> ([], cuts)
     | _ :: _ ->
       (match cuts with
        | [] ->
          let n = Nat.min slablen bufsz in
          let cuts' = [] in
          (match firstn n rest with
           | [] -> read_retry t0 slablen bufsz rest cuts'
           | z0 :: l -> ((z0 :: l), cuts'))
        | c :: r ->
          let n = Nat.min (Nat.min c slablen) bufsz in
          (match firstn n rest with
           | [] -> read_retry t0 slablen bufsz rest r
           | z0 :: l -> ((z0 :: l), r))))

(** val read_tries : nat **)

let read_tries =
  S (S (S (S (S (S (S (S (S (S (S (S (S (S (S (S (S (S (S (S (S (S (S (S (S
    (S (S (S (S (S (S (S (S (S (S (S (S (S (S (S (S (S (S (S (S (S (S (S (S
    (S (S (S (S (S (S (S (S (S (S (S (S (S (S (S (S (S (S (S (S (S (S (S (S
    (S (S (S (S (S (S (S (S (S (S (S (S (S (S (S (S (S (S (S (S (S (S (S (S
    (S (S (S
    O)))))))))))))))))))))))))))))))))))))))))))))))))))))))))))))))))))))))))))))))))))))))))))))))))))

(** val feed_loop :
    nat -> nat -> nat -> z -> bool -> str -> nat list -> slice0 -> fstate ->
    fstate res **)

let rec feed_loop fuel bufsz slabsz d trimCR rest cuts slab st0 =
  match fuel with
  | O -> Err OutOfFuel
  | S fuel0 ->
    let (chunk0, cuts') = read_retry read_tries slab.sl_len bufsz rest cuts in
    (match chunk0 with
     | [] -> Ok st0
     | _ :: _ ->
       let n = length chunk0 in
       bind (write_at st0.f_mem slab.sl_buf slab.sl_off chunk0) (fun m ->
         let buf = { sl_buf = slab.sl_buf; sl_off = slab.sl_off; sl_len = n }
         in
         let slab1 = { sl_buf = slab.sl_buf; sl_off = (add n slab.sl_off);
           sl_len = (sub slab.sl_len n) }
         in
         bind (deref m buf) (fun data ->
           bind
             (scan_buf (S n) d trimCR buf.sl_buf buf.sl_off data { f_mem = m;
               f_left = st0.f_left; f_items = st0.f_items }) (fun st1 ->
             if Nat.eqb slab1.sl_len O
             then let (m', id) = alloc st1.f_mem (repeat Z0 slabsz) in
                  let slab2 = { sl_buf = id; sl_off = O; sl_len = slabsz } in
                  let st2 = { f_mem = m'; f_left = st1.f_left; f_items =
                    st1.f_items }
                  in
                  feed_loop fuel0 bufsz slabsz d trimCR (skipn n rest) cuts'
                    slab2 st2
             else feed_loop fuel0 bufsz slabsz d trimCR (skipn n rest) cuts'
                    slab1 st1))))

(** val feed :
    nat -> nat -> z -> bool -> str -> nat list -> (mem0 * slice0 list) res **)

let feed bufsz slabsz d trimCR s cuts =
  let m0 = (repeat Z0 slabsz) :: [] in
  bind
    (feed_loop (S (length s)) bufsz slabsz d trimCR s cuts { sl_buf = O;
      sl_off = O; sl_len = slabsz } { f_mem = m0; f_left = []; f_items = [] })
    (fun st0 ->
    match st0.f_left with
    | [] -> Ok (st0.f_mem, (rev_append st0.f_items []))
    | z0 :: l0 ->
      let l = z0 :: l0 in
      let (m', id) = alloc st0.f_mem l in
      Ok (m',
      (rev_append ({ sl_buf = id; sl_off = O; sl_len =
        (length l) } :: st0.f_items) [])))

(** val deref_all : mem0 -> slice0 list -> str list res **)

let rec deref_all m = function
| [] -> Ok []
| sl :: r ->
  bind (deref m sl) (fun v -> bind (deref_all m r) (fun vs -> Ok (v :: vs)))

(** val feed_records :
    nat -> nat -> z -> bool -> str -> nat list -> str list res **)

let feed_records bufsz slabsz d trimCR s cuts =
  bind (feed bufsz slabsz d trimCR s cuts) (fun r ->
    deref_all (fst r) (snd r))

type 'a chunk = 'a list

type 'a chunklist = 'a chunk list

(** val is_full : nat -> 'a1 chunk -> bool **)

let is_full chunk_size c =
  Nat.eqb (length c) chunk_size

(** val last_chunk : 'a1 chunklist -> 'a1 chunk res **)

let last_chunk cs = match cs with
| [] -> Err OutOfRange
| _ :: _ -> get cs (sub (length cs) (S O))

(** val count_items : nat -> 'a1 chunklist -> nat res **)

let count_items chunk_size cs = match cs with
| [] -> Ok O
| c0 :: l ->
  (match l with
   | [] -> Ok (length c0)
   | _ :: _ ->
     bind (last_chunk cs) (fun l0 -> Ok
       (add (add (length c0) (mul chunk_size (sub (length cs) (S (S O)))))
         (length l0))))

(** val push : nat -> 'a1 chunklist -> bool -> 'a1 -> 'a1 chunklist res **)

let push chunk_size cs accept x =
  bind
    (match cs with
     | [] -> Ok ([] :: [])
     | _ :: _ ->
       bind (last_chunk cs) (fun l -> Ok
         (if is_full chunk_size l then app cs ([] :: []) else cs)))
    (fun cs1 ->
    bind (last_chunk cs1) (fun l ->
      if accept
      then if Nat.ltb (length l) chunk_size
           then set_nth cs1 (sub (length cs1) (S O)) (app l (x :: []))
           else Err OutOfRange
      else Ok cs1))

(** val num_chunks : z -> 'a1 chunk list -> nat **)

let rec num_chunks left = function
| [] -> O
| c :: r ->
  if Z.ltb Z0 left
  then S (num_chunks (Z.sub left (Z.of_nat (length c))) r)
  else O

(** val trim_loop : z -> 'a1 chunk list -> 'a1 chunk list **)

let rec trim_loop left = function
| [] -> []
| c :: r ->
  if Z.ltb left (Z.of_nat (length c))
  then (skipn (sub (length c) (Z.to_nat left)) c) :: r
  else c :: (trim_loop (Z.sub left (Z.of_nat (length c))) r)

(** val snapshot :
    nat -> nat -> 'a1 chunklist -> ((('a1 chunklist * 'a1
    chunklist) * nat) * bool) res **)

let snapshot chunk_size tail cs =
  bind (count_items chunk_size cs) (fun cnt ->
    let (cs', changed) =
      if (&&) (Nat.ltb O tail) (Nat.ltb tail cnt)
      then let n = num_chunks (Z.of_nat tail) (rev cs) in
           let min_index = sub (length cs) n in
           let ret = skipn min_index cs in
           ((rev (trim_loop (Z.of_nat tail) (rev ret))), true)
      else (cs, false)
    in
    bind (count_items chunk_size cs') (fun c -> Ok (((cs', cs'), c), changed)))

type 'a clop =
| Push of bool * 'a
| Snapshot of nat
| Clear

type 'a clobs = ('a chunklist * nat) * bool

(** val run_ops :
    nat -> 'a1 chunklist -> 'a1 clop list -> ('a1 chunklist * 'a1 clobs list)
    res **)

let rec run_ops chunk_size cs = function
| [] -> Ok (cs, [])
| c :: r ->
  (match c with
   | Push (a, x) ->
     bind (push chunk_size cs a x) (fun cs' -> run_ops chunk_size cs' r)
   | Snapshot t0 ->
     bind (snapshot chunk_size t0 cs) (fun s ->
       let (p, ch) = s in
       let (p0, cnt) = p in
       let (cs', ret) = p0 in
       bind (run_ops chunk_size cs' r) (fun y -> Ok ((fst y), (((ret, cnt),
         ch) :: (snd y)))))
   | Clear -> run_ops chunk_size [] r)

type bstate = { b_header : str list; b_index : nat }

(** val build : nat -> bstate -> str -> bstate * item2 option **)

let build hl st0 data =
  if Nat.ltb (length st0.b_header) hl
  then ({ b_header = (app st0.b_header (data :: [])); b_index =
         st0.b_index }, None)
  else ({ b_header = st0.b_header; b_index = (S st0.b_index) }, (Some
         (st0.b_index, data)))

(** val ingest :
    nat -> nat -> bstate -> item2 chunklist -> str list -> (bstate * item2
    chunklist) res **)

let rec ingest chunk_size hl st0 cs = function
| [] -> Ok (st0, cs)
| r :: t0 ->
  let (st', it) = build hl st0 r in
  bind
    (match it with
     | Some x -> push chunk_size cs true x
     | None -> push chunk_size cs false (O, r)) (fun cs' ->
    ingest chunk_size hl st' cs' t0)

(** val pipeline :
    nat -> nat -> nat -> bool -> nat -> nat -> str -> nat list -> (str
    list * item2 list) res **)

let pipeline bufsz slabsz chunk_size read0 hl tail s cuts =
  bind (feed_records bufsz slabsz (delim_of read0) false s cuts) (fun recs ->
    bind (ingest chunk_size hl { b_header = []; b_index = O } [] recs)
      (fun bc ->
      bind (snapshot chunk_size tail (snd bc)) (fun sn ->
        let (p, _) = sn in
        let (p0, _) = p in
        let (_, ret) = p0 in Ok ((fst bc).b_header, (concat ret)))))

(** val as_nats : val0 -> nat list **)

let as_nats v =
  map as_nat (as_list v)

(** val vitem0 : item2 -> val0 **)

let vitem0 it =
  VL ((vnat (fst it)) :: ((vstr (snd it)) :: []))

(** val vres_strs : str list res -> val0 **)

let vres_strs = function
| Ok l -> vstrs l
| Err _ -> verr

(** val d_feed : val0 -> val0 **)

let d_feed a =
  vres_strs
    (feed_records (as_nat (arg a O)) (as_nat (arg a (S O)))
      (delim_of (as_bool (arg a (S (S O))))) (as_bool (arg a (S (S (S O)))))
      (as_str (arg a (S (S (S (S O))))))
      (as_nats (arg a (S (S (S (S (S O))))))))

(** val d_split : val0 -> val0 **)

let d_split a =
  vstrs (split_records (delim_of (as_bool (arg a O))) (as_str (arg a (S O))))

(** val as_clop : val0 -> z clop **)

let as_clop v =
  let t0 = as_int (arg v O) in
  if Z.eqb t0 Z0
  then Push ((as_bool (arg v (S O))), (as_int (arg v (S (S O)))))
  else if Z.eqb t0 (Zpos XH) then Snapshot (as_nat (arg v (S O))) else Clear

(** val vchunks : z chunklist -> val0 **)

let vchunks cs =
  VL (map (fun c -> VL (map (fun x -> VI x) c)) cs)

(** val d_clops : val0 -> val0 **)

let d_clops a =
  match run_ops (as_nat (arg a O)) [] (map as_clop (as_list (arg a (S O)))) with
  | Ok a0 ->
    let (cs, obs) = a0 in
    VL ((vchunks cs) :: ((VL
    (map (fun o ->
      let (p, ch) = o in
      let (ret, cnt) = p in
      VL ((vchunks ret) :: ((vnat cnt) :: ((vbool ch) :: [])))) obs)) :: []))
  | Err _ -> verr

(** val d_pipeline : val0 -> val0 **)

let d_pipeline a =
  match pipeline (as_nat (arg a O)) (as_nat (arg a (S O)))
          (as_nat (arg a (S (S O)))) (as_bool (arg a (S (S (S O)))))
          (as_nat (arg a (S (S (S (S O))))))
          (as_nat (arg a (S (S (S (S (S O)))))))
          (as_str (arg a (S (S (S (S (S (S O))))))))
          (as_nats (arg a (S (S (S (S (S (S (S O))))))))) with
  | Ok a0 ->
    let (h, its) = a0 in VL ((vstrs h) :: ((VL (map vitem0 its)) :: []))
  | Err _ -> verr

(** val d_searchable : val0 -> val0 **)

let d_searchable a =
  let read0 = as_bool (arg a O) in
  let hl = as_nat (arg a (S O)) in
  let s = as_str (arg a (S (S (S O)))) in
  VL ((vstrs (header_of hl (split_records (delim_of read0) s))) :: ((VL
  (map vitem0 (searchable read0 hl (as_nat (arg a (S (S O)))) s))) :: []))

(** val d_keep_tail : val0 -> val0 **)

let d_keep_tail a =
  VL
    (map (fun x -> VI x)
      (keep_tail (as_nat (arg a O)) (map as_int (as_list (arg a (S O))))))

(** val dispatch_record : z -> val0 -> val0 option **)

let dispatch_record op a =
  if Z.eqb op (Zpos (XI (XO (XO (XI (XI (XO (XI (XO (XO XH))))))))))
  then Some (d_feed a)
  else if Z.eqb op (Zpos (XO (XI (XO (XI (XI (XO (XI (XO (XO XH))))))))))
       then Some (d_split a)
       else if Z.eqb op (Zpos (XI (XI (XO (XI (XI (XO (XI (XO (XO XH))))))))))
            then Some (d_clops a)
            else if Z.eqb op (Zpos (XO (XO (XI (XI (XI (XO (XI (XO (XO
                      XH))))))))))
                 then Some (d_pipeline a)
                 else if Z.eqb op (Zpos (XI (XO (XI (XI (XI (XO (XI (XO (XO
                           XH))))))))))
                      then Some (d_searchable a)
                      else if Z.eqb op (Zpos (XO (XI (XI (XI (XI (XO (XI (XO
                                (XO XH))))))))))
                           then Some (d_keep_tail a)
                           else None

(** val is_blank1 : z -> bool **)

let is_blank1 c =
  (||) (Z.eqb c (Zpos (XI (XO (XO XH)))))
    (Z.eqb c (Zpos (XO (XO (XO (XO (XO XH)))))))

(** val non_blank : z -> bool **)

let non_blank c =
  negb (is_blank1 c)

(** val span0 : ('a1 -> bool) -> 'a1 list -> 'a1 list * 'a1 list **)

let rec span0 p l = match l with
| [] -> ([], [])
| x :: t0 -> if p x then let (a, b) = span0 p t0 in ((x :: a), b) else ([], l)

(** val awk_fields_from : nat -> str -> str list **)

let rec awk_fields_from fuel s =
  match fuel with
  | O -> []
  | S k ->
    (match s with
     | [] -> []
     | _ :: _ ->
       let (w, r1) = span0 non_blank s in
       let (b, r2) = span0 is_blank1 r1 in (app w b) :: (awk_fields_from k r2))

(** val awk_lead : str -> str **)

let awk_lead line =
  fst (span0 is_blank1 line)

(** val awk_fields0 : str -> str list **)

let awk_fields0 line =
  let r = snd (span0 is_blank1 line) in awk_fields_from (length r) r

(** val is_prefix0 : str -> str -> bool **)

let rec is_prefix0 p s =
  match p with
  | [] -> true
  | x :: p' ->
    (match s with
     | [] -> false
     | y :: s' -> (&&) (Z.eqb x y) (is_prefix0 p' s'))

(** val split_after_go0 : str -> nat -> str -> str -> str list **)

let rec split_after_go0 sep0 skip cur s = match s with
| [] -> (rev cur) :: []
| c :: t0 ->
  (match skip with
   | O ->
     if is_prefix0 sep0 s
     then (match length sep0 with
           | O -> split_after_go0 sep0 (sub O (S O)) (c :: cur) t0
           | S n0 ->
             (match n0 with
              | O -> (rev (c :: cur)) :: (split_after_go0 sep0 O [] t0)
              | S n1 ->
                split_after_go0 sep0 (sub (S (S n1)) (S O)) (c :: cur) t0))
     else split_after_go0 sep0 O (c :: cur) t0
   | S k ->
     (match k with
      | O -> (rev (c :: cur)) :: (split_after_go0 sep0 O [] t0)
      | S _ -> split_after_go0 sep0 k (c :: cur) t0))

(** val split_after1 : str -> str -> str list **)

let split_after1 sep0 line =
  match sep0 with
  | [] -> map (fun c -> c :: []) line
  | _ :: _ -> split_after_go0 sep0 O [] line

(** val split_by_from : nat -> (nat * nat) list -> str -> str list **)

let rec split_by_from begin0 locs line =
  match locs with
  | [] ->
    if Nat.ltb begin0 (length line) then (skipn begin0 line) :: [] else []
  | p :: r ->
    let (_, e) = p in
    (firstn (sub e begin0) (skipn begin0 line)) :: (split_by_from e r line)

(** val split_by : (nat * nat) list -> str -> str list **)

let split_by locs line =
  split_by_from O locs line

(** val locs_wfb : nat -> nat -> (nat * nat) list -> bool **)

let rec locs_wfb begin0 len = function
| [] -> true
| p :: r ->
  let (s, e) = p in
  (&&) ((&&) ((&&) (Nat.leb begin0 s) (Nat.leb s e)) (Nat.leb e len))
    (locs_wfb e len r)

(** val offsets : nat -> str list -> nat list **)

let rec offsets start = function
| [] -> []
| f :: r -> start :: (offsets (add start (length f)) r)

(** val nat_list_eqb : nat list -> nat list -> bool **)

let rec nat_list_eqb a b =
  match a with
  | [] -> (match b with
           | [] -> true
           | _ :: _ -> false)
  | x :: a0 ->
    (match b with
     | [] -> false
     | y :: b0 -> (&&) (Nat.eqb x y) (nat_list_eqb a0 b0))

(** val partition_ok : str -> str -> str list -> nat list -> bool **)

let partition_ok line lead fields starts0 =
  (&&) (str_eqb (app lead (concat fields)) line)
    (nat_list_eqb starts0 (offsets (length lead) fields))

type fexpr =
| FIdx of z
| FRange of z option * z option

(** val resolve0 : z -> z -> z **)

let resolve0 n i =
  if Z.ltb i Z0 then Z.add (Z.add i n) (Zpos XH) else i

(** val sel_bounds : fexpr -> z -> z * z **)

let sel_bounds e n =
  match e with
  | FIdx i ->
    let k = resolve0 n i in
    if (&&) (Z.leb (Zpos XH) k) (Z.leb k n) then (k, k) else ((Zpos XH), Z0)
  | FRange (a, b) ->
    ((Z.max (Zpos XH) (match a with
                       | Some x -> resolve0 n x
                       | None -> Zpos XH)),
      (Z.min n (match b with
                | Some y -> resolve0 n y
                | None -> n)))

(** val select_fields : fexpr -> 'a1 list -> 'a1 list **)

let select_fields e fields =
  let (lo, hi) = sel_bounds e (Z.of_nat (length fields)) in
  firstn (Z.to_nat (Z.sub (Z.add hi (Zpos XH)) lo))
    (skipn (Z.to_nat (Z.sub lo (Zpos XH))) fields)

(** val select_first : fexpr -> nat -> nat **)

let select_first e n =
  Z.to_nat (Z.sub (fst (sel_bounds e (Z.of_nat n))) (Zpos XH))

(** val select_text : fexpr -> str list -> str **)

let select_text e fields =
  concat (select_fields e fields)

(** val select_start : fexpr -> nat -> str list -> nat **)

let select_start e start fields =
  add start (length (concat (firstn (select_first e (length fields)) fields)))

(** val digits_of : nat -> z -> str -> str **)

let rec digits_of fuel n acc =
  match fuel with
  | O -> acc
  | S k ->
    if Z.ltb n (Zpos (XO (XI (XO XH))))
    then (Z.add (Zpos (XO (XO (XO (XO (XI XH)))))) n) :: acc
    else digits_of k (Z.div n (Zpos (XO (XI (XO XH)))))
           ((Z.add (Zpos (XO (XO (XO (XO (XI XH))))))
              (Z.modulo n (Zpos (XO (XI (XO XH)))))) :: acc)

(** val digits : z -> str **)

let digits n =
  digits_of (S (Z.to_nat (Z.log2 n))) n []

(** val itoa1 : z -> str **)

let itoa1 z0 =
  if Z.ltb z0 Z0
  then (Zpos (XI (XO (XI (XI (XO XH)))))) :: (digits (Z.opp z0))
  else digits z0

(** val dOT0 : z **)

let dOT0 =
  Zpos (XO (XI (XI (XI (XO XH)))))

(** val print_fexpr : fexpr -> str **)

let print_fexpr = function
| FIdx n -> itoa1 n
| FRange (a, b) ->
  app (match a with
       | Some x -> itoa1 x
       | None -> [])
    (app (dOT0 :: (dOT0 :: [])) (match b with
                                 | Some y -> itoa1 y
                                 | None -> []))

(** val is_space0 : z -> bool **)

let is_space0 c =
  (||)
    ((||)
      ((||)
        ((||)
          ((||)
            ((||)
              ((||)
                ((||)
                  ((||)
                    ((||)
                      ((&&) (Z.leb (Zpos (XI (XO (XO XH)))) c)
                        (Z.leb c (Zpos (XI (XO (XI XH))))))
                      (Z.eqb c (Zpos (XO (XO (XO (XO (XO XH))))))))
                    (Z.eqb c (Zpos (XI (XO (XI (XO (XO (XO (XO XH))))))))))
                  (Z.eqb c (Zpos (XO (XO (XO (XO (XO (XI (XO XH))))))))))
                (Z.eqb c (Zpos (XO (XO (XO (XO (XO (XO (XO (XI (XO (XI (XI
                  (XO XH)))))))))))))))
              ((&&)
                (Z.leb (Zpos (XO (XO (XO (XO (XO (XO (XO (XO (XO (XO (XO (XO
                  (XO XH)))))))))))))) c)
                (Z.leb c (Zpos (XO (XI (XO (XI (XO (XO (XO (XO (XO (XO (XO
                  (XO (XO XH)))))))))))))))))
            (Z.eqb c (Zpos (XO (XO (XO (XI (XO (XI (XO (XO (XO (XO (XO (XO
              (XO XH))))))))))))))))
          (Z.eqb c (Zpos (XI (XO (XO (XI (XO (XI (XO (XO (XO (XO (XO (XO (XO
            XH))))))))))))))))
        (Z.eqb c (Zpos (XI (XI (XI (XI (XO (XI (XO (XO (XO (XO (XO (XO (XO
          XH))))))))))))))))
      (Z.eqb c (Zpos (XI (XI (XI (XI (XI (XO (XI (XO (XO (XO (XO (XO (XO
        XH))))))))))))))))
    (Z.eqb c (Zpos (XO (XO (XO (XO (XO (XO (XO (XO (XO (XO (XO (XO (XI
      XH)))))))))))))))

(** val trim_right1 : (z -> bool) -> str -> str **)

let trim_right1 p s =
  rev (drop_while p (rev s))

(** val inside_selection : fexpr -> nat -> str list -> nat -> nat -> bool **)

let inside_selection ex start fields s e =
  (&&) ((&&) (Nat.leb (select_start ex start fields) s) (Nat.leb s e))
    (Nat.leb e
      (add (select_start ex start fields) (length (select_text ex fields))))

type token = { t_text0 : str; t_prefix : z }

type delimiter =
| DAwk0
| DStr0 of str
| DRegex of (str -> (nat * nat) list)

(** val is_awk : delimiter -> bool **)

let is_awk = function
| DAwk0 -> true
| _ -> false

(** val slice1 : str -> nat -> nat -> str res **)

let slice1 s b e =
  if (&&) (Nat.leb b e) (Nat.leb e (length s))
  then Ok (firstn (sub e b) (skipn b s))
  else Err OutOfRange

(** val with_prefix_lengths : str list -> z -> token list **)

let rec with_prefix_lengths tokens0 begin0 =
  match tokens0 with
  | [] -> []
  | t0 :: r ->
    { t_text0 = t0; t_prefix =
      begin0 } :: (with_prefix_lengths r
                    (Z.add begin0 (Z.of_nat (length t0))))

type awk_state1 =
| AwkNil1
| AwkBlack1
| AwkWhite1

(** val awk_loop0 :
    awk_state1 -> str -> str list -> z -> str -> str list * z **)

let rec awk_loop0 st0 cur ret pl = function
| [] -> ((rev (match st0 with
               | AwkNil1 -> ret
               | _ -> (rev cur) :: ret)), pl)
| r :: t0 ->
  let white = is_blank1 r in
  (match st0 with
   | AwkNil1 ->
     if white
     then awk_loop0 AwkNil1 cur ret (Z.add pl (Zpos XH)) t0
     else awk_loop0 AwkBlack1 (r :: []) ret pl t0
   | AwkBlack1 ->
     awk_loop0 (if white then AwkWhite1 else AwkBlack1) (r :: cur) ret pl t0
   | AwkWhite1 ->
     if white
     then awk_loop0 AwkWhite1 (r :: cur) ret pl t0
     else awk_loop0 AwkBlack1 (r :: []) ((rev cur) :: ret) pl t0)

(** val awk_tokenizer0 : str -> str list * z **)

let awk_tokenizer0 input =
  awk_loop0 AwkNil1 [] [] Z0 input

(** val regex_tokens : str -> nat -> (nat * nat) list -> str list res **)

let rec regex_tokens text begin0 = function
| [] ->
  if Nat.ltb begin0 (length text)
  then bind (slice1 text begin0 (length text)) (fun t0 -> Ok (t0 :: []))
  else Ok []
| p :: r ->
  let (_, e) = p in
  bind (slice1 text begin0 e) (fun t0 ->
    bind (regex_tokens text e r) (fun rest -> Ok (t0 :: rest)))

(** val tokenize1 : str -> delimiter -> token list res **)

let tokenize1 text = function
| DAwk0 ->
  let (tokens0, pl) = awk_tokenizer0 text in
  Ok (with_prefix_lengths tokens0 pl)
| DStr0 sep0 -> Ok (with_prefix_lengths (split_after1 sep0 text) Z0)
| DRegex rx ->
  bind (regex_tokens text O (rx text)) (fun tokens0 -> Ok
    (with_prefix_lengths tokens0 Z0))

(** val has_prefix2 : str -> str -> bool **)

let has_prefix2 =
  is_prefix0

(** val has_suffix2 : str -> str -> bool **)

let has_suffix2 p s =
  is_prefix0 (rev p) (rev s)

(** val contains0 : str -> str -> bool **)

let rec contains0 sub0 s =
  (||) (is_prefix0 sub0 s)
    (match s with
     | [] -> false
     | _ :: t0 -> contains0 sub0 t0)

(** val trim_suffix1 : str -> str -> str **)

let trim_suffix1 s suffix =
  if has_suffix2 suffix s
  then firstn (sub (length s) (length suffix)) s
  else s

(** val split_go : str -> nat -> str -> str -> str list **)

let rec split_go sep0 skip cur s = match s with
| [] -> (rev cur) :: []
| c :: t0 ->
  (match skip with
   | O ->
     if is_prefix0 sep0 s
     then (rev cur) :: (split_go sep0 (sub (length sep0) (S O)) [] t0)
     else split_go sep0 O (c :: cur) t0
   | S k -> split_go sep0 k cur t0)

(** val split : str -> str -> str list **)

let split sep0 s =
  split_go sep0 O [] s

(** val is_digit1 : z -> bool **)

let is_digit1 c =
  (&&) (Z.leb (Zpos (XO (XO (XO (XO (XI XH)))))) c)
    (Z.leb c (Zpos (XI (XO (XO (XI (XI XH)))))))

(** val digits_value : str -> z **)

let digits_value ds =
  fold_left (fun v d ->
    Z.add (Z.mul v (Zpos (XO (XI (XO XH)))))
      (Z.sub d (Zpos (XO (XO (XO (XO (XI XH)))))))) ds Z0

(** val iNT_MIN : z **)

let iNT_MIN =
  Zneg (XO (XO (XO (XO (XO (XO (XO (XO (XO (XO (XO (XO (XO (XO (XO (XO (XO
    (XO (XO (XO (XO (XO (XO (XO (XO (XO (XO (XO (XO (XO (XO (XO (XO (XO (XO
    (XO (XO (XO (XO (XO (XO (XO (XO (XO (XO (XO (XO (XO (XO (XO (XO (XO (XO
    (XO (XO (XO (XO (XO (XO (XO (XO (XO (XO
    XH)))))))))))))))))))))))))))))))))))))))))))))))))))))))))))))))

(** val iNT_MAX0 : z **)

let iNT_MAX0 =
  Zpos (XI (XI (XI (XI (XI (XI (XI (XI (XI (XI (XI (XI (XI (XI (XI (XI (XI
    (XI (XI (XI (XI (XI (XI (XI (XI (XI (XI (XI (XI (XI (XI (XI (XI (XI (XI
    (XI (XI (XI (XI (XI (XI (XI (XI (XI (XI (XI (XI (XI (XI (XI (XI (XI (XI
    (XI (XI (XI (XI (XI (XI (XI (XI (XI
    XH))))))))))))))))))))))))))))))))))))))))))))))))))))))))))))))

(** val atoi2 : str -> z option **)

let atoi2 s = match s with
| [] ->
  let neg = false in
  (match s with
   | [] -> None
   | _ :: _ ->
     if forallb is_digit1 s
     then let v = if neg then Z.opp (digits_value s) else digits_value s in
          if (&&) (Z.leb iNT_MIN v) (Z.leb v iNT_MAX0) then Some v else None
     else None)
| c :: r ->
  if Z.eqb c (Zpos (XI (XO (XI (XI (XO XH))))))
  then let neg = true in
       (match r with
        | [] -> None
        | _ :: _ ->
          if forallb is_digit1 r
          then let v = if neg then Z.opp (digits_value r) else digits_value r
               in
               if (&&) (Z.leb iNT_MIN v) (Z.leb v iNT_MAX0)
               then Some v
               else None
          else None)
  else if Z.eqb c (Zpos (XI (XI (XO (XI (XO XH))))))
       then let neg = false in
            (match r with
             | [] -> None
             | _ :: _ ->
               if forallb is_digit1 r
               then let v =
                      if neg then Z.opp (digits_value r) else digits_value r
                    in
                    if (&&) (Z.leb iNT_MIN v) (Z.leb v iNT_MAX0)
                    then Some v
                    else None
               else None)
       else let neg = false in
            (match s with
             | [] -> None
             | _ :: _ ->
               if forallb is_digit1 s
               then let v =
                      if neg then Z.opp (digits_value s) else digits_value s
                    in
                    if (&&) (Z.leb iNT_MIN v) (Z.leb v iNT_MAX0)
                    then Some v
                    else None
               else None)

type range0 = z * z

(** val new_range2 : z -> z -> range0 **)

let new_range2 b e =
  let b0 =
    if (&&) (Z.eqb b (Zpos XH)) (negb (Z.eqb e (Zpos XH))) then Z0 else b
  in
  let e0 = if Z.eqb e (Zneg XH) then Z0 else e in (b0, e0)

(** val dD : str **)

let dD =
  (Zpos (XO (XI (XI (XI (XO XH)))))) :: ((Zpos (XO (XI (XI (XI (XO
    XH)))))) :: [])

(** val parse_range1 : str -> range0 option **)

let parse_range1 s =
  if str_eqb s dD
  then Some (new_range2 Z0 Z0)
  else if has_prefix2 dD s
       then (match atoi2 (skipn (S (S O)) s) with
             | Some e -> if Z.eqb e Z0 then None else Some (new_range2 Z0 e)
             | None -> None)
       else if has_suffix2 dD s
            then (match atoi2 (firstn (sub (length s) (S (S O))) s) with
                  | Some b ->
                    if Z.eqb b Z0 then None else Some (new_range2 b Z0)
                  | None -> None)
            else if contains0 dD s
                 then (match split dD s with
                       | [] -> None
                       | n0 :: l ->
                         (match l with
                          | [] -> None
                          | n1 :: l0 ->
                            (match l0 with
                             | [] ->
                               (match atoi2 n0 with
                                | Some b ->
                                  (match atoi2 n1 with
                                   | Some e ->
                                     if (||) ((||) (Z.eqb b Z0) (Z.eqb e Z0))
                                          ((&&) (Z.ltb b Z0) (Z.ltb Z0 e))
                                     then None
                                     else Some (new_range2 b e)
                                   | None -> None)
                                | None -> None)
                             | _ :: _ -> None)))
                 else (match atoi2 s with
                       | Some n ->
                         if Z.eqb n Z0 then None else Some (new_range2 n n)
                       | None -> None)

(** val range_to_string : range0 -> str **)

let range_to_string = function
| (b, e) ->
  if (&&) (Z.eqb b Z0) (Z.eqb e Z0)
  then dD
  else if Z.eqb b e
       then itoa1 b
       else app (if Z.eqb b Z0 then [] else itoa1 b)
              (if Z.eqb b (Zneg XH)
               then []
               else app dD (if Z.eqb e Z0 then [] else itoa1 e))

(** val ranges_to_string : range0 list -> str **)

let ranges_to_string rs =
  concat_map_sep (Zpos (XO (XO (XI (XI (XO XH)))))) (map range_to_string rs)

(** val join_tokens : token list -> str **)

let join_tokens tokens0 =
  concat (map (fun t0 -> t0.t_text0) tokens0)

(** val adj : z -> z -> z **)

let adj n i =
  if Z.ltb i Z0 then Z.add (Z.add i n) (Zpos XH) else i

(** val collect : token list -> z -> nat -> z -> z -> str list res **)

let rec collect tokens0 n fuel idx0 e =
  match fuel with
  | O -> if Z.leb idx0 e then Err OutOfFuel else Ok []
  | S k ->
    if Z.leb idx0 e
    then if (&&) (Z.leb (Zpos XH) idx0) (Z.leb idx0 n)
         then bind (get tokens0 (Z.to_nat (Z.sub idx0 (Zpos XH)))) (fun t0 ->
                bind (collect tokens0 n k (Z.add idx0 (Zpos XH)) e) (fun r ->
                  Ok (t0.t_text0 :: r)))
         else collect tokens0 n k (Z.add idx0 (Zpos XH)) e
    else Ok []

(** val transform_one0 : token list -> range0 -> token res **)

let transform_one0 tokens0 r =
  let n = Z.of_nat (length tokens0) in
  let (rb, re) = r in
  bind
    (if Z.eqb rb re
     then if Z.eqb rb Z0
          then Ok (((join_tokens tokens0) :: []), Z0)
          else let idx0 = adj n rb in
               if (&&) (Z.leb (Zpos XH) idx0) (Z.leb idx0 n)
               then bind (get tokens0 (Z.to_nat (Z.sub idx0 (Zpos XH))))
                      (fun t0 -> Ok ((t0.t_text0 :: []),
                      (Z.sub idx0 (Zpos XH))))
               else Ok ([], Z0)
     else if Z.eqb rb Z0
          then let b = Zpos XH in
               let e = adj n re in
               bind
                 (collect tokens0 n (Z.to_nat (Z.add (Z.sub e b) (Zpos XH)))
                   b e) (fun parts -> Ok (parts,
                 (Z.max Z0 (Z.sub b (Zpos XH)))))
          else if Z.eqb re Z0
               then let b = adj n rb in
                    bind
                      (collect tokens0 n
                        (Z.to_nat (Z.add (Z.sub n b) (Zpos XH))) b n)
                      (fun parts -> Ok (parts,
                      (Z.max Z0 (Z.sub b (Zpos XH)))))
               else let b = adj n rb in
                    let e = adj n re in
                    bind
                      (collect tokens0 n
                        (Z.to_nat (Z.add (Z.sub e b) (Zpos XH))) b e)
                      (fun parts -> Ok (parts,
                      (Z.max Z0 (Z.sub b (Zpos XH)))))) (fun pm ->
    let (parts, min_idx) = pm in
    let merged = concat parts in
    bind
      (if Z.ltb min_idx n
       then bind (get tokens0 (Z.to_nat min_idx)) (fun t0 -> Ok t0.t_prefix)
       else Ok Z0) (fun pl -> Ok { t_text0 = merged; t_prefix = pl }))

(** val transform : token list -> range0 list -> token list res **)

let rec transform tokens0 = function
| [] -> Ok []
| r :: rest ->
  bind (transform_one0 tokens0 r) (fun t0 ->
    bind (transform tokens0 rest) (fun ts -> Ok (t0 :: ts)))

(** val strip_last_delimiter0 : str -> delimiter -> str res **)

let strip_last_delimiter0 s d =
  bind
    (match d with
     | DAwk0 -> Ok s
     | DStr0 sep0 -> Ok (trim_suffix1 s sep0)
     | DRegex rx ->
       (match rev (rx s) with
        | [] -> Ok s
        | p :: _ ->
          let (b, e) = p in
          if Nat.eqb e (length s) then slice1 s O b else Ok s)) (fun s1 -> Ok
    (trim_right1 is_space0 s1))

(** val map_last : ('a1 -> 'a1 res) -> 'a1 list -> 'a1 list res **)

let rec map_last f = function
| [] -> Ok []
| x :: r ->
  (match r with
   | [] -> bind (f x) (fun y -> Ok (y :: []))
   | _ :: _ -> bind (map_last f r) (fun r' -> Ok (x :: r')))

(** val transform_input :
    str -> range0 list -> delimiter -> token list res **)

let transform_input line nth0 d =
  bind (tokenize1 line d) (fun tokens0 ->
    bind (transform tokens0 nth0) (fun ret ->
      if is_awk d
      then Ok ret
      else map_last (fun t0 ->
             bind (strip_last_delimiter0 t0.t_text0 d) (fun s -> Ok
               { t_text0 = s; t_prefix = t0.t_prefix })) ret))

type match_fn = str -> ((nat * nat) * nat list) option

(** val iter : match_fn -> token list -> ((z * z) * z list) option **)

let rec iter pfun = function
| [] -> None
| part :: rest ->
  (match pfun part.t_text0 with
   | Some p ->
     let (p0, pos) = p in
     let (s, e) = p0 in
     Some (((Z.add (Z.of_nat s) part.t_prefix),
     (Z.add (Z.of_nat e) part.t_prefix)),
     (map (fun p1 -> Z.add (Z.of_nat p1) part.t_prefix) pos))
   | None -> iter pfun rest)

(** val nth_match :
    match_fn -> str -> range0 list -> delimiter -> ((z * z) * z list) option
    res **)

let nth_match pfun line nth0 d =
  match nth0 with
  | [] -> Ok (iter pfun ({ t_text0 = line; t_prefix = Z0 } :: []))
  | _ :: _ ->
    bind (transform_input line nth0 d) (fun tokens0 -> Ok (iter pfun tokens0))

(** val nth_transformer : range0 list -> token list -> str res **)

let nth_transformer nth0 tokens0 =
  bind (transform tokens0 nth0) (fun ts -> Ok (join_tokens ts))

(** val accept_nth0 : str -> range0 list -> delimiter -> str res **)

let accept_nth0 line nth0 d =
  bind (tokenize1 line d) (fun tokens0 ->
    bind (nth_transformer nth0 tokens0) (fun s -> strip_last_delimiter0 s d))

(** val vtok : token -> val0 **)

let vtok t0 =
  VL ((vstr t0.t_text0) :: ((VI t0.t_prefix) :: []))

(** val vtoks : token list -> val0 **)

let vtoks ts =
  VL (map vtok ts)

(** val as_tok : val0 -> token **)

let as_tok v =
  { t_text0 = (as_str (arg v O)); t_prefix = (as_int (arg v (S O))) }

(** val as_toks : val0 -> token list **)

let as_toks v =
  map as_tok (as_list v)

(** val as_loc : val0 -> nat * nat **)

let as_loc v =
  ((as_nat (arg v O)), (as_nat (arg v (S O))))

(** val as_locs : val0 -> (nat * nat) list **)

let as_locs v =
  map as_loc (as_list v)

(** val rx_lookup :
    (str * (nat * nat) list) list -> str -> (nat * nat) list **)

let rec rx_lookup tbl s =
  match tbl with
  | [] -> []
  | p :: r -> let (k, v) = p in if str_eqb k s then v else rx_lookup r s

(** val as_rx : val0 -> str -> (nat * nat) list **)

let as_rx v =
  rx_lookup
    (map (fun e -> ((as_str (arg e O)), (as_locs (arg e (S O))))) (as_list v))

(** val as_delim0 : val0 -> delimiter **)

let as_delim0 v =
  let k = as_int (arg v O) in
  if Z.eqb k (Zpos XH)
  then DStr0 (as_str (arg v (S O)))
  else if Z.eqb k (Zpos (XO XH)) then DRegex (as_rx (arg v (S O))) else DAwk0

(** val as_range : val0 -> range0 **)

let as_range v =
  ((as_int (arg v O)), (as_int (arg v (S O))))

(** val as_ranges0 : val0 -> range0 list **)

let as_ranges0 v =
  map as_range (as_list v)

(** val as_optz0 : val0 -> z option **)

let as_optz0 v =
  match as_list v with
  | [] -> None
  | x :: _ -> Some (as_int x)

(** val as_fexpr : val0 -> fexpr **)

let as_fexpr v =
  if Z.eqb (as_int (arg v O)) Z0
  then FIdx (as_int (arg v (S O)))
  else FRange ((as_optz0 (arg v (S O))), (as_optz0 (arg v (S (S O)))))

(** val mf_lookup :
    (str * ((nat * nat) * nat list) option) list -> str -> ((nat * nat) * nat
    list) option **)

let rec mf_lookup tbl s =
  match tbl with
  | [] -> None
  | p :: r -> let (k, v) = p in if str_eqb k s then v else mf_lookup r s

(** val as_match_fn : val0 -> match_fn **)

let as_match_fn v =
  mf_lookup
    (map (fun e -> ((as_str (arg e O)),
      (match as_list (arg e (S O)) with
       | [] -> None
       | _ :: _ ->
         Some (((as_nat (arg (arg e (S O)) O)),
           (as_nat (arg (arg e (S O)) (S O)))),
           (map as_nat (as_list (arg (arg e (S O)) (S (S O)))))))))
      (as_list v))

(** val vres : ('a1 -> val0) -> 'a1 res -> val0 **)

let vres f = function
| Ok a -> f a
| Err _ -> verr

(** val vmatch : ((z * z) * z list) option -> val0 **)

let vmatch = function
| Some p ->
  let (p0, pos) = p in
  let (s, e) = p0 in
  VL ((VI s) :: ((VI e) :: ((VL (map (fun x -> VI x) pos)) :: [])))
| None -> VL []

(** val dispatch_token : z -> val0 -> val0 option **)

let dispatch_token op a =
  if Z.eqb op (Zpos (XI (XO (XO (XI (XO (XI (XI (XI (XI XH))))))))))
  then Some
         (vres vtoks (tokenize1 (as_str (arg a O)) (as_delim0 (arg a (S O)))))
  else if Z.eqb op (Zpos (XO (XI (XO (XI (XO (XI (XI (XI (XI XH))))))))))
       then Some
              (match parse_range1 (as_str a) with
               | Some r ->
                 VL ((VL
                   ((vstr (itoa1 (fst r))) :: ((vstr (itoa1 (snd r))) :: []))) :: [])
               | None -> VL [])
       else if Z.eqb op (Zpos (XI (XI (XO (XI (XO (XI (XI (XI (XI XH))))))))))
            then Some
                   (vres vtoks
                     (transform (as_toks (arg a O))
                       (as_ranges0 (arg a (S O)))))
            else if Z.eqb op (Zpos (XO (XO (XI (XI (XO (XI (XI (XI (XI
                      XH))))))))))
                 then Some
                        (vres vtoks
                          (transform_input (as_str (arg a O))
                            (as_ranges0 (arg a (S O)))
                            (as_delim0 (arg a (S (S O))))))
                 else if Z.eqb op (Zpos (XI (XO (XI (XI (XO (XI (XI (XI (XI
                           XH))))))))))
                      then Some (vstr (ranges_to_string (as_ranges0 a)))
                      else if Z.eqb op (Zpos (XO (XI (XI (XI (XO (XI (XI (XI
                                (XI XH))))))))))
                           then Some
                                  (vres vstr
                                    (strip_last_delimiter0 (as_str (arg a O))
                                      (as_delim0 (arg a (S O)))))
                           else if Z.eqb op (Zpos (XI (XI (XI (XI (XO (XI (XI
                                     (XI (XI XH))))))))))
                                then Some
                                       (vres vstr
                                         (accept_nth0 (as_str (arg a O))
                                           (as_ranges0 (arg a (S O)))
                                           (as_delim0 (arg a (S (S O))))))
                                else if Z.eqb op (Zpos (XO (XO (XO (XO (XI
                                          (XI (XI (XI (XI XH))))))))))
                                     then Some
                                            (vres vmatch
                                              (nth_match
                                                (as_match_fn
                                                  (arg a (S (S (S O)))))
                                                (as_str (arg a O))
                                                (as_ranges0 (arg a (S O)))
                                                (as_delim0 (arg a (S (S O))))))
                                     else if Z.eqb op (Zpos (XI (XO (XO (XO
                                               (XI (XI (XI (XI (XI
                                               XH))))))))))
                                          then Some
                                                 (let (ts, pl) =
                                                    awk_tokenizer0 (as_str a)
                                                  in
                                                  VL ((vstrs ts) :: ((VI
                                                  pl) :: [])))
                                          else if Z.eqb op (Zpos (XO (XI (XO
                                                    (XO (XI (XI (XI (XI (XI
                                                    XH))))))))))
                                               then Some
                                                      (vbool
                                                        (partition_ok
                                                          (as_str (arg a O))
                                                          (as_str
                                                            (arg a (S O)))
                                                          (as_strs
                                                            (arg a (S (S O))))
                                                          (map as_nat
                                                            (as_list
                                                              (arg a (S (S (S
                                                                O))))))))
                                               else if Z.eqb op (Zpos (XI (XI
                                                         (XO (XO (XI (XI (XI
                                                         (XI (XI XH))))))))))
                                                    then Some (VL
                                                           ((vstr
                                                              (awk_lead
                                                                (as_str a))) :: (
                                                           (vstrs
                                                             (awk_fields0
                                                               (as_str a))) :: [])))
                                                    else if Z.eqb op (Zpos
                                                              (XO (XO (XI (XO
                                                              (XI (XI (XI (XI
                                                              (XI XH))))))))))
                                                         then Some
                                                                (vstrs
                                                                  (split_after1
                                                                    (as_str
                                                                    (arg a O))
                                                                    (as_str
                                                                    (arg a (S
                                                                    O)))))
                                                         else if Z.eqb op
                                                                   (Zpos (XI
                                                                   (XO (XI
                                                                   (XO (XI
                                                                   (XI (XI
                                                                   (XI (XI
                                                                   XH))))))))))
                                                              then Some
                                                                    (
                                                                    let locs =
                                                                    as_locs
                                                                    (arg a O)
                                                                    in
                                                                    let line =
                                                                    as_str
                                                                    (arg a (S
                                                                    O))
                                                                    in
                                                                    VL
                                                                    (
                                                                    (vbool
                                                                    (locs_wfb
                                                                    O
                                                                    (length
                                                                    line)
                                                                    locs)) :: (
                                                                    (vstrs
                                                                    (split_by
                                                                    locs line)) :: [])))
                                                              else if 
                                                                    Z.eqb op
                                                                    (Zpos (XO
                                                                    (XI (XI
                                                                    (XO (XI
                                                                    (XI (XI
                                                                    (XI (XI
                                                                    XH))))))))))
                                                                   then 
                                                                    Some
                                                                    (
                                                                    let e =
                                                                    as_fexpr
                                                                    (arg a O)
                                                                    in
                                                                    let fs0 =
                                                                    as_strs
                                                                    (arg a (S
                                                                    O))
                                                                    in
                                                                    VL
                                                                    (
                                                                    (vstr
                                                                    (select_text
                                                                    e fs0)) :: (
                                                                    (vnat
                                                                    (select_start
                                                                    e
                                                                    (as_nat
                                                                    (arg a (S
                                                                    (S O))))
                                                                    fs0)) :: (
                                                                    (vnat
                                                                    (length
                                                                    (select_fields
                                                                    e fs0))) :: []))))
                                                                   else 
                                                                    if 
                                                                    Z.eqb op
                                                                    (Zpos (XI
                                                                    (XI (XI
                                                                    (XO (XI
                                                                    (XI (XI
                                                                    (XI (XI
                                                                    XH))))))))))
                                                                    then 
                                                                    Some
                                                                    (vbool
                                                                    (inside_selection
                                                                    (as_fexpr
                                                                    (arg a O))
                                                                    (as_nat
                                                                    (arg a (S
                                                                    (S O))))
                                                                    (as_strs
                                                                    (arg a (S
                                                                    O)))
                                                                    (as_nat
                                                                    (arg a (S
                                                                    (S (S
                                                                    O)))))
                                                                    (as_nat
                                                                    (arg a (S
                                                                    (S (S (S
                                                                    O))))))))
                                                                    else 
                                                                    if 
                                                                    Z.eqb op
                                                                    (Zpos (XO
                                                                    (XO (XO
                                                                    (XI (XI
                                                                    (XI (XI
                                                                    (XI (XI
                                                                    XH))))))))))
                                                                    then 
                                                                    Some
                                                                    (vstr
                                                                    (print_fexpr
                                                                    (as_fexpr
                                                                    a)))
                                                                    else None

(** val sLASH : z **)

let sLASH =
  Zpos (XI (XI (XI (XI (XO XH)))))

(** val dOT1 : z **)

let dOT1 =
  Zpos (XO (XI (XI (XI (XO XH)))))

type entry =
| File of str
| Dir of str * entry list
| SymFile of str
| SymDir of str * entry list

(** val name_of : entry -> str **)

let name_of = function
| File n -> n
| Dir (n, _) -> n
| SymFile n -> n
| SymDir (n, _) -> n

type wopts = { o_file : bool; o_dir : bool; o_follow : bool; o_hidden : bool }

(** val starts_with0 : str -> str -> bool **)

let rec starts_with0 p s =
  match p with
  | [] -> true
  | x :: p0 ->
    (match s with
     | [] -> false
     | y :: s0 -> (&&) (Z.eqb x y) (starts_with0 p0 s0))

(** val ends_with : str -> str -> bool **)

let ends_with p s =
  starts_with0 (rev p) (rev s)

(** val has_slash : str -> bool **)

let has_slash s =
  existsb (fun c -> Z.eqb c sLASH) s

(** val strip_dot_slash : str -> str **)

let rec strip_dot_slash s = match s with
| [] -> s
| a :: l ->
  (match l with
   | [] -> s
   | b :: r ->
     if (&&) (Z.eqb a dOT1) (Z.eqb b sLASH) then strip_dot_slash r else s)

(** val drop_trailing_slashes : str -> str **)

let drop_trailing_slashes s =
  rev (drop_while (fun c -> Z.eqb c sLASH) (rev s))

(** val display : str -> str **)

let display root =
  match strip_dot_slash (drop_trailing_slashes root) with
  | [] -> dOT1 :: []
  | z0 :: l -> z0 :: l

(** val child : str -> str -> str **)

let child d nm =
  if str_eqb d (dOT1 :: []) then nm else app d (sLASH :: nm)

(** val with_sep : str -> str **)

let with_sep p =
  app p (sLASH :: [])

(** val after_last_slash_aux : str -> str -> str **)

let rec after_last_slash_aux acc = function
| [] -> rev acc
| c :: r ->
  if Z.eqb c sLASH
  then after_last_slash_aux [] r
  else after_last_slash_aux (c :: acc) r

(** val base_name : str -> str **)

let base_name p =
  after_last_slash_aux [] p

(** val hidden_name : str -> bool **)

let hidden_name b = match b with
| [] -> false
| c :: _ -> (&&) (Z.eqb c dOT1) (negb (str_eqb b (dOT1 :: (dOT1 :: []))))

(** val skip_matches : str -> str -> str -> bool **)

let skip_matches p b s =
  if has_slash s
  then if starts_with0 (sLASH :: []) s
       then ends_with s p
       else (||) (str_eqb s p) (ends_with (sLASH :: s) p)
  else str_eqb s b

(** val skipped : str list -> str -> str -> bool **)

let skipped ig p b =
  existsb (skip_matches p b) ig

(** val pruned : wopts -> str list -> str -> str -> bool **)

let pruned o ig p b =
  (||) ((&&) (negb o.o_hidden) (hidden_name b)) (skipped ig p b)

(** val emit1 : bool -> str -> str list **)

let emit1 b p =
  if b then p :: [] else []

(** val list_entry : wopts -> str list -> str -> entry -> str list **)

let rec list_entry o ig d = function
| File nm -> emit1 o.o_file (child d nm)
| Dir (nm, ch) ->
  let p = child d nm in
  if pruned o ig p nm
  then []
  else app (emit1 o.o_dir (with_sep p)) (flat_map (list_entry o ig p) ch)
| SymFile nm -> emit1 o.o_file (child d nm)
| SymDir (nm, tg) ->
  let p = child d nm in
  if o.o_follow
  then if pruned o ig p nm
       then []
       else app (emit1 o.o_file (with_sep p))
              (flat_map (list_entry o ig p) tg)
  else emit1 o.o_file p

(** val listing : wopts -> str list -> str -> entry list -> str list **)

let listing o ig root ch =
  let d = display root in
  if str_eqb d (dOT1 :: [])
  then flat_map (list_entry o ig d) ch
  else if pruned o ig d (base_name d)
       then []
       else app (emit1 o.o_dir (with_sep d)) (flat_map (list_entry o ig d) ch)

(** val listing_roots :
    wopts -> str list -> (str * entry list) list -> str list **)

let listing_roots o ig roots =
  flat_map (fun rc -> listing o ig (fst rc) (snd rc)) roots

type kind0 =
| KFile
| KDir
| KSymFile
| KSymDir

type action1 =
| Continue
| SkipDir

(** val kind_of : entry -> kind0 **)

let kind_of = function
| File _ -> KFile
| Dir (_, _) -> KDir
| SymFile _ -> KSymFile
| SymDir (_, _) -> KSymDir

(** val is_sep0 : z -> bool **)

let is_sep0 c =
  Z.eqb c sLASH

(** val sep : str **)

let sep =
  sLASH :: []

(** val go_has_suffix : str -> str -> bool **)

let go_has_suffix s suffix =
  ends_with suffix s

(** val go_has_prefix : str -> str -> bool **)

let go_has_prefix s prefix =
  starts_with0 prefix s

(** val go_contains_rune : str -> z -> bool **)

let go_contains_rune s c =
  existsb (fun x -> Z.eqb x c) s

(** val clean_root_path : str -> str **)

let clean_root_path root =
  match rev (drop_while is_sep0 (rev root)) with
  | [] -> (match root with
           | [] -> []
           | c :: _ -> c :: [])
  | z0 :: l -> z0 :: l

(** val last_byte : str -> z option **)

let rec last_byte = function
| [] -> None
| c :: r -> (match r with
             | [] -> Some c
             | _ :: _ -> last_byte r)

(** val join_paths : str -> str -> str **)

let join_paths dir base =
  match last_byte dir with
  | Some c -> if Z.eqb c sLASH then app dir base else app dir (sLASH :: base)
  | None -> app dir (sLASH :: base)

(** val pATH_SEPARATOR : z **)

let pATH_SEPARATOR =
  sLASH

(** val trim_loop0 : str -> str **)

let rec trim_loop0 s = match s with
| [] -> s
| a :: l ->
  (match l with
   | [] -> s
   | b :: r ->
     if (&&) (Z.eqb a dOT1) ((||) (Z.eqb b sLASH) (Z.eqb b pATH_SEPARATOR))
     then trim_loop0 r
     else s)

(** val trim_path : str -> str **)

let trim_path path =
  match trim_loop0 path with
  | [] -> dOT1 :: []
  | z0 :: l -> z0 :: l

(** val take_while2 : ('a1 -> bool) -> 'a1 list -> 'a1 list **)

let rec take_while2 p = function
| [] -> []
| x :: t0 -> if p x then x :: (take_while2 p t0) else []

(** val go_base : str -> str **)

let go_base path = match path with
| [] -> dOT1 :: []
| _ :: _ ->
  let p1 = rev (drop_while is_sep0 (rev path)) in
  let p3 = rev (take_while2 (fun c -> negb (is_sep0 c)) (rev p1)) in
  (match p3 with
   | [] -> sep
   | _ :: _ -> p3)

(** val split_ignores : str list -> (str list * str list) * str list **)

let rec split_ignores = function
| [] -> (([], []), [])
| ig :: r ->
  let (p, x) = split_ignores r in
  let (b, f) = p in
  if go_contains_rune ig sLASH
  then if go_has_prefix ig sep
       then ((b, f), (ig :: x))
       else ((b, (ig :: f)), ((app sep ig) :: x))
  else (((ig :: b), f), x)

(** val push0 : bool -> str -> str list **)

let push0 b p =
  if b then p :: [] else []

(** val walk_fn :
    wopts -> ((str list * str list) * str list) -> str -> kind0 -> (str
    list * action1) res **)

let walk_fn o ign path0 k =
  let (p, ign_suffix) = ign in
  let (ign_base, ign_full) = p in
  let path = trim_path path0 in
  if str_eqb path (dOT1 :: [])
  then Ok ([], Continue)
  else let is_dir = match k with
                    | KDir -> true
                    | _ -> false in
       let is_symlink_to_dir = match k with
                               | KSymDir -> true
                               | _ -> false in
       let wanted = (||) ((&&) o.o_file (negb is_dir)) ((&&) o.o_dir is_dir)
       in
       if (||) is_dir ((&&) o.o_follow is_symlink_to_dir)
       then let base = go_base path in
            bind (get base O) (fun b0 ->
              if (&&) ((&&) (negb o.o_hidden) (Z.eqb b0 dOT1))
                   (negb (str_eqb base (dOT1 :: (dOT1 :: []))))
              then Ok ([], SkipDir)
              else if existsb (fun ig -> str_eqb ig base) ign_base
                   then Ok ([], SkipDir)
                   else if existsb (fun ig -> str_eqb ig path) ign_full
                        then Ok ([], SkipDir)
                        else if existsb (fun ig -> go_has_suffix path ig)
                                  ign_suffix
                             then Ok ([], SkipDir)
                             else let path1 =
                                    if str_eqb path sep
                                    then path
                                    else app path sep
                                  in
                                  Ok ((push0 wanted path1), Continue))
       else Ok ((push0 wanted path), Continue)

type callback = str -> kind0 -> (str list * action1) res

(** val fw_entry : callback -> bool -> str -> entry -> str list res **)

let rec fw_entry fn follow dir e =
  let joined = join_paths dir (name_of e) in
  let read = fun l ->
    let rec go0 = function
    | [] -> Ok []
    | x :: r ->
      bind (fw_entry fn follow joined x) (fun a ->
        bind (go0 r) (fun b -> Ok (app a b)))
    in go0 l
  in
  bind (fn joined (kind_of e)) (fun r ->
    match e with
    | File _ ->
      (match snd r with
       | Continue -> Ok (fst r)
       | SkipDir -> Err BadInput)
    | Dir (_, ch) ->
      (match snd r with
       | Continue -> bind (read ch) (fun rest -> Ok (app (fst r) rest))
       | SkipDir -> Ok (fst r))
    | SymFile _ -> Ok (fst r)
    | SymDir (_, tg) ->
      (match snd r with
       | Continue ->
         if follow
         then bind (read tg) (fun rest -> Ok (app (fst r) rest))
         else Ok (fst r)
       | SkipDir -> Ok (fst r)))

(** val fw_read : callback -> bool -> str -> entry list -> str list res **)

let rec fw_read fn follow dir = function
| [] -> Ok []
| x :: r ->
  bind (fw_entry fn follow dir x) (fun a ->
    bind (fw_read fn follow dir r) (fun b -> Ok (app a b)))

(** val fw_walk : callback -> bool -> str -> entry list -> str list res **)

let fw_walk fn follow root ch =
  let root0 = clean_root_path root in
  bind (fn root0 KDir) (fun r ->
    match snd r with
    | Continue ->
      bind (fw_read fn follow root0 ch) (fun rest -> Ok (app (fst r) rest))
    | SkipDir -> Ok (fst r))

(** val walk_roots :
    callback -> bool -> (str * entry list) list -> str list res **)

let rec walk_roots fn follow = function
| [] -> Ok []
| p :: r ->
  let (root, ch) = p in
  bind (fw_walk fn follow root ch) (fun a ->
    bind (walk_roots fn follow r) (fun b -> Ok (app a b)))

(** val read_files :
    wopts -> str list -> (str * entry list) list -> str list res **)

let read_files o ignores roots =
  walk_roots (walk_fn o (split_ignores ignores)) o.o_follow roots

(** val as_entry : val0 -> entry **)

let rec as_entry = function
| VI _ -> File []
| VL l ->
  (match l with
   | [] -> File []
   | v0 :: l0 ->
     (match v0 with
      | VI k ->
        (match l0 with
         | [] -> File []
         | nm :: l1 ->
           (match l1 with
            | [] ->
              if Z.eqb k (Zpos (XO XH))
              then SymFile (as_str nm)
              else File (as_str nm)
            | v1 :: _ ->
              (match v1 with
               | VI _ ->
                 if Z.eqb k (Zpos (XO XH))
                 then SymFile (as_str nm)
                 else File (as_str nm)
               | VL ch ->
                 if Z.eqb k (Zpos XH)
                 then Dir ((as_str nm), (map as_entry ch))
                 else if Z.eqb k (Zpos (XI XH))
                      then SymDir ((as_str nm), (map as_entry ch))
                      else if Z.eqb k (Zpos (XO XH))
                           then SymFile (as_str nm)
                           else File (as_str nm))))
      | VL _ -> File []))

(** val as_opts : val0 -> wopts **)

let as_opts v =
  { o_file = (as_bool (arg v O)); o_dir = (as_bool (arg v (S O))); o_follow =
    (as_bool (arg v (S (S O)))); o_hidden = (as_bool (arg v (S (S (S O))))) }

(** val as_root : val0 -> str * entry list **)

let as_root v =
  ((as_str (arg v O)), (map as_entry (as_list (arg v (S O)))))

(** val as_roots : val0 -> (str * entry list) list **)

let as_roots v =
  map as_root (as_list v)

(** val as_kind : z -> kind0 **)

let as_kind z0 =
  if Z.eqb z0 (Zpos XH)
  then KDir
  else if Z.eqb z0 (Zpos (XO XH))
       then KSymFile
       else if Z.eqb z0 (Zpos (XI XH)) then KSymDir else KFile

(** val d_model : val0 -> val0 **)

let d_model a =
  match read_files (as_opts (arg a O)) (as_strs (arg a (S O)))
          (as_roots (arg a (S (S O)))) with
  | Ok l -> VL ((VI (Zpos XH)) :: ((vstrs l) :: []))
  | Err _ -> verr

(** val d_spec : val0 -> val0 **)

let d_spec a =
  vstrs
    (listing_roots (as_opts (arg a O)) (as_strs (arg a (S O)))
      (as_roots (arg a (S (S O)))))

(** val d_fn : val0 -> val0 **)

let d_fn a =
  match walk_fn (as_opts (arg a O)) (split_ignores (as_strs (arg a (S O))))
          (as_str (arg a (S (S O)))) (as_kind (as_int (arg a (S (S (S O)))))) with
  | Ok a0 ->
    let (l, act1) = a0 in
    VL
    ((vstrs l) :: ((vbool
                     (match act1 with
                      | Continue -> false
                      | SkipDir -> true)) :: []))
  | Err _ -> verr

(** val dispatch_walk : z -> val0 -> val0 option **)

let dispatch_walk op a =
  if Z.eqb op (Zpos (XI (XO (XI (XI (XO (XI (XI (XO (XI (XI XH)))))))))))
  then Some (d_model a)
  else if Z.eqb op (Zpos (XO (XI (XI (XI (XO (XI (XI (XO (XI (XI XH)))))))))))
       then Some (d_spec a)
       else if Z.eqb op (Zpos (XI (XI (XI (XI (XO (XI (XI (XO (XI (XI
                 XH)))))))))))
            then Some (vstr (trim_path (as_str a)))
            else if Z.eqb op (Zpos (XO (XO (XO (XO (XI (XI (XI (XO (XI (XI
                      XH)))))))))))
                 then Some (d_fn a)
                 else if Z.eqb op (Zpos (XI (XO (XO (XO (XI (XI (XI (XO (XI
                           (XI XH)))))))))))
                      then Some (vstr (display (as_str a)))
                      else None

(** val dispatch : z -> val0 -> val0 **)

let dispatch op a =
  match dispatch_algo op a with
  | Some v -> v
  | None ->
    (match dispatch_bind op a with
     | Some v -> v
     | None ->
       (match dispatch_edit op a with
        | Some v -> v
        | None ->
          (match dispatch_history op a with
           | Some v -> v
           | None ->
             (match dispatch_http op a with
              | Some v -> v
              | None ->
                (match dispatch_option op a with
                 | Some v -> v
                 | None ->
                   (match dispatch_output op a with
                    | Some v -> v
                    | None ->
                      (match dispatch_pattern op a with
                       | Some v -> v
                       | None ->
                         (match dispatch_placeholder op a with
                          | Some v -> v
                          | None ->
                            (match dispatch_record op a with
                             | Some v -> v
                             | None ->
                               (match dispatch_token op a with
                                | Some v -> v
                                | None ->
                                  (match dispatch_walk op a with
                                   | Some v -> v
                                   | None -> verr)))))))))))
