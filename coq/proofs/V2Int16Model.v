(* C03, FuzzyMatchV2 with int16 arithmetic.
   [fuzzy_v2_16] is model/AlgoModel.v's [fuzzy_v2] with every int16 arithmetic operation of the Go code
   wrapped by [w16] (two's-complement wrap-around, what Go's int16 +, * do):
     phase 2   bonus*bonusFirstCharMultiplier, scoreMatch + .., prevH0 + scoreGapStart/Extension
     phase 3   Hleft[off] + gap, Hdiag[off] + scoreMatch, Cdiag[off] + 1, s1 + b (both uses), s1 + Bsub[off]
   (util.Max16, comparisons, array reads/writes and the int index arithmetic do not wrap; V1's
   calculateScore works in int).  Theorem [fuzzy_v2_16_eq]: under the guard 16*M + bmax*(M+1) <= 32767 the
   two functions are EQUAL on every input (results and errors) -- which is what justifies the model's use
   of unbounded Z.  Proved directly on the flat scratch matrices: when row i is being filled every written
   cell of H is in [0, hb bmax i] and every written cell below the row in [0, hb bmax (i-1)]. *)
From Fzf Require Import Prelude AlgoSpec AlgoModel AlgoBasics V2Facts V2ScanBasics V2ScanPhase2 V2ScanProofs
  V2MatrixBase V2MatrixFill V2MatrixTrace V2MatrixProofs V2DpWin V2Refine V2Int16Win V2Int16.
Open Scope Z_scope.

Definition w16 (z : Z) : Z := (z + 32768) mod 65536 - 32768.

Lemma w16_id z : -32768 <= z <= 32767 -> w16 z = z.
Proof. intros H. unfold w16. rewrite Z.mod_small by lia. lia. Qed.

Lemma w16_range z : -32768 <= w16 z <= 32767.
Proof. unfold w16. pose proof (Z.mod_pos_bound (z + 32768) 65536 ltac:(lia)). lia. Qed.

(* ---------- the int16 variant of the model ---------- *)

Section Model16.
Variable co : char_ops.
Variable sc : scheme.

Fixpoint phase2_16 (cs nm fwd : bool) (m1 : bool) (w : list Z) (off : nat) (p0 : Z) (rest : list Z) (plast : Z)
         (prevH0 : Z) (prevClass : Z) (inGap : bool) (st : p2) : p2 :=
  match w with
  | [] => st
  | c0 :: w' =>
      let '(class, c) := fold_v2 co sc cs nm c0 in
      let bonus := bonus_m sc prevClass class in
      let pchar := match rest with p :: _ => p | [] => plast end in
      let hit := c =? pchar in
      let F' := if hit then match rest with _ :: _ => off :: p2_F st | [] => p2_F st end else p2_F st in
      let pidx' := if hit then match rest with _ :: _ => S (p2_pidx st) | [] => p2_pidx st end else p2_pidx st in
      let rest' := if hit then match rest with _ :: r => r | [] => [] end else rest in
      let lastIdx' := if hit then off else p2_lastIdx st in
      if c =? p0 then
        let score := w16 (scoreMatch + w16 (bonus * 2)) in
        let better := m1 && (if fwd then p2_maxScore st <? score else p2_maxScore st <=? score) in
        let st' := mkP2 (c :: p2_T st) (bonus :: p2_B st) (score :: p2_H0 st) (1 :: p2_C0 st) F' pidx' lastIdx'
                        (if better then score else p2_maxScore st) (if better then off else p2_maxPos st) in
        if better && fwd && (bonusBoundary <=? bonus) then st'
        else phase2_16 cs nm fwd m1 w' (S off) p0 rest' plast score class false st'
      else
        let h := Z.max (w16 (prevH0 + (if inGap then scoreGapExt else scoreGapStart))) 0 in
        let st' := mkP2 (c :: p2_T st) (bonus :: p2_B st) (h :: p2_H0 st) (0 :: p2_C0 st) F' pidx' lastIdx'
                        (p2_maxScore st) (p2_maxPos st) in
        phase2_16 cs nm fwd m1 w' (S off) p0 rest' plast h class true st'
  end.

Definition cell_r16 (B : list Z) (width : Z) (H C : mat) (row j0 col pchar ch s2 : Z) : res (Z * Z) :=
  if pchar =? ch then
    do hdiag <- mget H (row + j0 - 1 - width);
    do cdiag <- mget C (row + j0 - 1 - width);
    do b0 <- zget B col;
    let s1 := w16 (hdiag + scoreMatch) in
    let cn := w16 (cdiag + 1) in
    do bc <- (if 1 <? cn then
                do fb <- zget B (col - cn + 1);
                if (bonusBoundary <=? b0) && (fb <? b0) then Ok (b0, 1)
                else Ok (Z.max b0 (Z.max bonusConsecutive fb), cn)
              else Ok (b0, cn));
    if w16 (s1 + fst bc) <? s2 then Ok (w16 (s1 + b0), 0) else Ok (w16 (s1 + fst bc), snd bc)
  else Ok (0, 0).

Fixpoint p3_row16 (fwd lastrow : bool) (T B : list Z) (H C : mat) (row width f0 : Z) (pchar : Z)
         (n : nat) (col : Z) (inGap : bool) (maxScore : Z) (maxPos : Z) : res (mat * mat * Z * Z) :=
  match n with
  | O => Ok (H, C, maxScore, maxPos)
  | S n' =>
      let j0 := col - f0 in
      do hleft <- mget H (row + j0 - 1);
      let s2 := w16 (hleft + (if inGap then scoreGapExt else scoreGapStart)) in
      do ch <- zget T col;
      do r <- cell_r16 B width H C row j0 col pchar ch s2;
      let s1 := fst r in
      do C' <- mset C (row + j0) (snd r);
      let score := Z.max (Z.max s1 s2) 0 in
      let better := lastrow && (if fwd then maxScore <? score else maxScore <=? score) in
      do H' <- mset H (row + j0) score;
      p3_row16 fwd lastrow T B H' C' row width f0 pchar n' (col + 1) (s1 <? s2)
               (if better then score else maxScore) (if better then col else maxPos)
  end.

Fixpoint p3_rows16 (fwd : bool) (T B : list Z) (H C : mat) (width f0 lastIdx : Z) (M : nat)
         (Fsub : list nat) (Psub : list Z) (pidx : nat) (maxScore maxPos : Z) : res (mat * mat * Z * Z) :=
  match Fsub, Psub with
  | f :: Fsub', pchar :: Psub' =>
      let f := Z.of_nat f in
      let row := Z.of_nat pidx * width in
      do H1 <- mset H (row + f - f0 - 1) 0;
      do r <- p3_row16 fwd (Nat.eqb pidx (M - 1)) T B H1 C row width f0 pchar
                       (Z.to_nat (lastIdx + 1 - f)) f false maxScore maxPos;
      let '(H2, C2, ms, mp) := r in
      p3_rows16 fwd T B H2 C2 width f0 lastIdx M Fsub' Psub' (S pidx) ms mp
  | _, _ => Ok (H, C, maxScore, maxPos)
  end.

Definition fuzzy_v2_16 (cs nm fwd is_bytes : bool) (text pat : list Z) (withPos : bool) (slabCap : option Z) : res mres :=
  let M := length pat in
  match pat with
  | [] => Ok (Match O O 0 (if withPos then Some [] else None))
  | p0 :: _ =>
    let N := length text in
    if Nat.ltb N M then Ok NoMatch else
    if (match slabCap with Some cap => cap <? Z.of_nat N * Z.of_nat M | None => false end)
    then fuzzy_v1 co sc cs nm fwd is_bytes text pat withPos else
    do afi <- ascii_fuzzy_index is_bytes text pat cs;
    match afi with
    | None => Ok NoMatch
    | Some (minIdx, maxIdx) =>
      if Nat.ltb maxIdx minIdx || Nat.ltb N maxIdx then Err OutOfRange else
      let w := firstn (maxIdx - minIdx) (skipn minIdx text) in
      let plast := last pat 0 in
      let st := phase2_16 cs nm fwd (Nat.eqb M 1) w O p0 pat plast 0 (s_init sc) false
                          (mkP2 [] [] [] [] [] O O 0 O) in
      if negb (Nat.eqb (p2_pidx st) M) then Ok NoMatch else
      if Nat.eqb M 1 then
        let r := (minIdx + p2_maxPos st)%nat in
        Ok (Match r (S r) (p2_maxScore st) (if withPos then Some [r] else None))
      else
        let T := rev (p2_T st) in let B := rev (p2_B st) in
        let H0 := rev (p2_H0 st) in let C0 := rev (p2_C0 st) in
        let F := rev (p2_F st) in
        do f0n <- get F O;
        let f0 := Z.of_nat f0n in
        let lastIdx := Z.of_nat (p2_lastIdx st) in
        let width := lastIdx - f0 + 1 in
        if width <=? 0 then Err OutOfRange else
        let cells := Z.to_nat (width * Z.of_nat M) in
        let blank : mat := repeat None cells in
        let seg (l : list Z) := firstn (Z.to_nat width) (skipn f0n l) in
        if Nat.ltb (length H0) (Z.to_nat (lastIdx + 1)) then Err OutOfRange else
        do H <- put_row blank 0 (seg H0);
        do C <- put_row blank 0 (seg C0);
        do r <- p3_rows16 fwd T B H C width f0 lastIdx M (tl F) (tl pat) 1 (p2_maxScore st) (Z.of_nat (p2_maxPos st));
        let '(H, C, maxScore, maxPos) := r in
        if maxPos <? 0 then Err OutOfRange else
        if withPos then
          do pj <- p4 (S (Z.to_nat maxPos)) H C F width f0 M minIdx (M - 1) maxPos true [];
          Ok (Match (Z.to_nat (Z.of_nat minIdx + snd pj)) (minIdx + Z.to_nat maxPos + 1) maxScore (Some (rev (fst pj))))
        else
          Ok (Match (minIdx + f0n) (minIdx + Z.to_nat maxPos + 1) maxScore None)
    end
  end.

(* ---------- phase 2 ---------- *)

Lemma phase2_16_eq bmax cs nm fwd m1 p0 plast :
  0 <= s_bw sc <= bmax -> 0 <= s_bd sc <= bmax -> 8 <= bmax -> scoreMatch + 2 * bmax <= 32767 ->
  forall w off rest ph pc ig st, 0 <= ph <= scoreMatch + 2 * bmax ->
  phase2_16 cs nm fwd m1 w off p0 rest plast ph pc ig st = phase2 co sc cs nm fwd m1 w off p0 rest plast ph pc ig st.
Proof.
  intros Hw Hd H8 Hg. unfold scoreMatch in *.
  induction w as [|c0 w IH]; intros off rest ph pc ig st Hph; [reflexivity|].
  cbn [phase2 phase2_16]. destruct (fold_v2 co sc cs nm c0) as [class c]. unfold bonus_m.
  assert (Hb : 0 <= bonus_for sc pc class <= bmax).
  { split; [apply V2ScanBasics.bonus_for_nonneg; split; lia|apply bonus_for_le; lia]. }
  set (bonus := bonus_for sc pc class) in *.
  cbv zeta.
  rewrite (w16_id (bonus * 2)) by lia.
  unfold scoreMatch. rewrite (w16_id (16 + bonus * 2)) by lia.
  rewrite (w16_id (ph + _)) by (unfold scoreGapExt, scoreGapStart; destruct ig; lia).
  destruct (c =? p0).
  - match goal with |- (if ?b then _ else _) = _ => destruct b end; [reflexivity|].
    apply IH. lia.
  - apply IH. unfold scoreGapExt, scoreGapStart. destruct ig; lia.
Qed.

(* ---------- phase 3 on the flat matrices ---------- *)

(* every written cell is in [0, hi] / every written cell below index lim is in [0, hi] *)
Definition mall (m : mat) (hi : Z) : Prop := forall z v, mc m z = Some v -> 0 <= v <= hi.
Definition mbelow (m : mat) (lim hi : Z) : Prop := forall z v, z < lim -> mc m z = Some v -> 0 <= v <= hi.

Lemma mall_mono m a b : a <= b -> mall m a -> mall m b.
Proof. intros Hab H z v E. specialize (H z v E). lia. Qed.

Lemma mall_below m lim hi : mall m hi -> mbelow m lim hi.
Proof. intros H z v _ E. exact (H z v E). Qed.

Lemma mset_mall m z v m' hi : mset m z v = Ok m' -> 0 <= v <= hi -> mall m hi -> mall m' hi.
Proof.
  intros E Hv Hm z' v' E'. rewrite (mset_ok _ _ _ _ E) in E'.
  destruct (z' =? z); [inversion E'; subst; exact Hv|exact (Hm z' v' E')].
Qed.

Lemma mset_mbelow m z v m' lim hi : mset m z v = Ok m' -> (z < lim -> 0 <= v <= hi) -> mbelow m lim hi -> mbelow m' lim hi.
Proof.
  intros E Hv Hm z' v' Hz E'. rewrite (mset_ok _ _ _ _ E) in E'.
  destruct (Z.eqb_spec z' z) as [->|_]; [inversion E'; subst; exact (Hv Hz)|exact (Hm z' v' Hz E')].
Qed.

Lemma put_row_mall hi : forall vals m off m', put_row m off vals = Ok m' ->
  Forall (fun v => 0 <= v <= hi) vals -> mall m hi -> mall m' hi.
Proof.
  induction vals as [|v vals IH]; intros m off m' E Hv Hm; cbn [put_row] in E.
  - inversion E; subst. exact Hm.
  - destruct (mset m off v) as [m1|] eqn:E1; cbn [bind] in E; [|discriminate].
    inversion Hv as [|? ? Hv1 Hv2]; subst.
    apply (IH m1 (off + 1) m' E Hv2). exact (mset_mall m off v m1 hi E1 Hv1 Hm).
Qed.

Lemma mall_blank n hi : mall (repeat None n) hi.
Proof. intros z v E. rewrite mc_repeat_None in E. discriminate. Qed.

Lemma Forall_firstn' {A} (P : A -> Prop) (l : list A) n : Forall P l -> Forall P (firstn n l).
Proof. intros H. revert n. induction H; intros [|n]; cbn [firstn]; constructor; auto. Qed.

Lemma Forall_skipn' {A} (P : A -> Prop) (l : list A) n : Forall P l -> Forall P (skipn n l).
Proof. intros H. revert n. induction H; intros [|n]; cbn [skipn]; auto; constructor; auto. Qed.

Section Row16.
Variables (T B : list Z) (width f0 : Z) (bmax X cX : Z).
Hypothesis HB : bonus_bd bmax B.
Hypothesis H4 : 4 <= bmax.
Hypothesis HX0 : 0 <= X.
Hypothesis HcX0 : 0 <= cX.
Hypothesis HXg : X + scoreMatch + bmax <= 32767.
Hypothesis HcXg : cX + 1 <= 32767.

Notation X' := (X + scoreMatch + bmax).

Lemma zget_bd i v : zget B i = Ok v -> 0 <= v <= bmax.
Proof. intros E. apply zget_ok in E as [-> _]. apply zn_bd; [lia|exact HB]. Qed.

Lemma cell_r16_eq H C row j0 col pchar ch s2 :
  j0 - 1 < width -> mbelow H row X -> mbelow C row cX -> -3 <= s2 <= X' ->
  cell_r16 B width H C row j0 col pchar ch s2 = cell_r B width H C row j0 col pchar ch s2 /\
  forall r, cell_r B width H C row j0 col pchar ch s2 = Ok r -> 0 <= fst r <= X' /\ 0 <= snd r <= cX + 1.
Proof.
  intros Hj HbH HbC Hs2. unfold cell_r16, cell_r. unfold scoreMatch in *.
  destruct (pchar =? ch); [|split; [reflexivity|intros r E; inversion E; subst; cbn [fst snd]; lia]].
  destruct (mget H (row + j0 - 1 - width)) as [hd|e] eqn:Eh; cbn [bind]; [|split; [reflexivity|discriminate]].
  destruct (mget C (row + j0 - 1 - width)) as [cd|e] eqn:Ec; cbn [bind]; [|split; [reflexivity|discriminate]].
  destruct (zget B col) as [b0|e] eqn:Eb; cbn [bind]; [|split; [reflexivity|discriminate]].
  pose proof (HbH (row + j0 - 1 - width) hd ltac:(lia) (mget_ok _ _ _ Eh)) as Hhd.
  pose proof (HbC (row + j0 - 1 - width) cd ltac:(lia) (mget_ok _ _ _ Ec)) as Hcd.
  pose proof (zget_bd _ _ Eb) as Hb0.
  cbv zeta. unfold scoreMatch.
  rewrite (w16_id (hd + 16)) by lia. rewrite (w16_id (cd + 1)) by lia.
  destruct (1 <? cd + 1).
  - destruct (zget B (col - (cd + 1) + 1)) as [fb|e] eqn:Ef; cbn [bind]; [|split; [reflexivity|discriminate]].
    pose proof (zget_bd _ _ Ef) as Hfb. unfold bonusConsecutive, bonusBoundary.
    destruct ((8 <=? b0) && (fb <? b0)); cbn [bind fst snd].
    + rewrite (w16_id (hd + 16 + b0)) by lia. split; [reflexivity|].
      intros r E. destruct (hd + 16 + b0 <? s2); inversion E; subst; cbn [fst snd]; lia.
    + rewrite (w16_id (hd + 16 + Z.max b0 (Z.max 4 fb))) by lia. rewrite (w16_id (hd + 16 + b0)) by lia.
      split; [reflexivity|].
      intros r E. destruct (hd + 16 + Z.max b0 (Z.max 4 fb) <? s2); inversion E; subst; cbn [fst snd]; lia.
  - cbn [bind fst snd]. rewrite (w16_id (hd + 16 + b0)) by lia. split; [reflexivity|].
    intros r E. destruct (hd + 16 + b0 <? s2); inversion E; subst; cbn [fst snd]; lia.
Qed.

Lemma p3_row16_eq fwd lastrow row pchar : forall n H C col inGap ms mp,
  f0 <= col -> col + Z.of_nat n <= f0 + width ->
  mall H X' -> mbelow H row X -> mall C (cX + 1) -> mbelow C row cX -> 0 <= ms <= X' ->
  p3_row16 fwd lastrow T B H C row width f0 pchar n col inGap ms mp =
  p3_row fwd lastrow T B H C row width f0 pchar n col inGap ms mp /\
  forall H' C' ms' mp', p3_row fwd lastrow T B H C row width f0 pchar n col inGap ms mp = Ok (H', C', ms', mp') ->
    mall H' X' /\ mall C' (cX + 1) /\ 0 <= ms' <= X'.
Proof.
  induction n as [|n IH]; intros H C col inGap ms mp Hc0 Hcn HaH HbH HaC HbC Hms.
  { cbn [p3_row16 p3_row]. split; [reflexivity|]. intros H' C' ms' mp' E. inversion E; subst. auto. }
  rewrite p3_row_S. cbn [p3_row16]. cbv zeta.
  destruct (mget H (row + (col - f0) - 1)) as [hleft|e] eqn:El; cbn [bind]; [|split; [reflexivity|discriminate]].
  pose proof (HaH _ _ (mget_ok _ _ _ El)) as Hhl.
  assert (Hs2 : -3 <= hleft + (if inGap then scoreGapExt else scoreGapStart) <= X')
    by (unfold scoreGapExt, scoreGapStart; destruct inGap; lia).
  rewrite (w16_id (hleft + _)) by (unfold scoreMatch in *; lia).
  set (s2 := hleft + (if inGap then scoreGapExt else scoreGapStart)) in *.
  destruct (zget T col) as [ch|e]; cbn [bind]; [|split; [reflexivity|discriminate]].
  destruct (cell_r16_eq H C row (col - f0) col pchar ch s2 ltac:(lia) HbH HbC Hs2) as [Er Hr].
  rewrite Er.
  destruct (cell_r B width H C row (col - f0) col pchar ch s2) as [r|e]; cbn [bind]; [|split; [reflexivity|discriminate]].
  destruct (Hr r eq_refl) as [Hr1 Hr2].
  destruct (mset C (row + (col - f0)) (snd r)) as [C1|e] eqn:EC; cbn [bind]; [|split; [reflexivity|discriminate]].
  set (score := Z.max (Z.max (fst r) s2) 0).
  assert (Hsc : 0 <= score <= X') by (unfold score; lia).
  destruct (mset H (row + (col - f0)) score) as [H1|e] eqn:EH; cbn [bind]; [|split; [reflexivity|discriminate]].
  apply IH.
  - lia.
  - lia.
  - exact (mset_mall _ _ _ _ _ EH Hsc HaH).
  - apply (mset_mbelow _ _ _ _ _ _ EH); [lia|exact HbH].
  - exact (mset_mall _ _ _ _ _ EC Hr2 HaC).
  - apply (mset_mbelow _ _ _ _ _ _ EC); [lia|exact HbC].
  - destruct (lastrow && _); lia.
Qed.

End Row16.

Lemma p3_rows16_eq fwd T B width f0 lastIdx M bmax :
  bonus_bd bmax B -> 4 <= bmax -> width = lastIdx - f0 + 1 ->
  forall Fsub Psub pidx H C ms mp, (1 <= pidx)%nat ->
  Forall (fun f => f0 <= Z.of_nat f <= lastIdx + 1) Fsub ->
  hb bmax (pidx - 1 + length Fsub) <= 32767 ->
  mall H (hb bmax (pidx - 1)) -> mall C (cb (pidx - 1)) -> 0 <= ms <= hb bmax (pidx - 1) ->
  p3_rows16 fwd T B H C width f0 lastIdx M Fsub Psub pidx ms mp =
  p3_rows fwd T B H C width f0 lastIdx M Fsub Psub pidx ms mp /\
  forall H' C' ms' mp', p3_rows fwd T B H C width f0 lastIdx M Fsub Psub pidx ms mp = Ok (H', C', ms', mp') ->
    mall H' (hb bmax (pidx - 1 + length Fsub)) /\ mall C' (cb (pidx - 1 + length Fsub)) /\
    0 <= ms' <= hb bmax (pidx - 1 + length Fsub).
Proof.
  intros HB H4 Hwidth.
  assert (Hb0 : 0 <= bmax) by lia.
  induction Fsub as [|f Fsub IH]; intros Psub pidx H C ms mp Hp HF Hg HaH HaC Hms.
  { cbn [p3_rows16 p3_rows length]. split; [reflexivity|]. intros H' C' ms' mp' E. inversion E; subst.
    rewrite Nat.add_0_r. auto. }
  destruct Psub as [|pchar Psub].
  { cbn [p3_rows16 p3_rows]. split; [reflexivity|]. intros H' C' ms' mp' E. inversion E; subst.
    pose proof (hb_mono bmax (pidx - 1) (pidx - 1 + length (f :: Fsub)) Hb0 ltac:(lia)).
    assert (cb (pidx - 1) <= cb (pidx - 1 + length (f :: Fsub))) by (unfold cb; lia).
    split; [eapply mall_mono; [|exact HaH]; lia|]. split; [eapply mall_mono; [|exact HaC]; lia|lia]. }
  pose proof (Forall_inv HF) as Hf. pose proof (Forall_inv_tail HF) as HF'. cbn beta in Hf.
  cbn [p3_rows16 p3_rows length]. cbn [length] in Hg. cbv zeta.
  set (X := hb bmax (pidx - 1)) in *. set (cX := cb (pidx - 1)) in *.
  pose proof (hb_nonneg bmax (pidx - 1) Hb0) as HX0. fold X in HX0.
  assert (HcX0 : 0 <= cX) by (unfold cX, cb; lia).
  assert (EX' : hb bmax pidx = X + scoreMatch + bmax).
  { unfold X. replace pidx with (S (pidx - 1)) at 1 by lia. apply hb_S. }
  assert (EcX' : cb pidx = cX + 1) by (unfold cX, cb; lia).
  pose proof (hb_mono bmax pidx (pidx - 1 + S (length Fsub)) Hb0 ltac:(lia)) as Hm1.
  pose proof (cb_le_hb bmax pidx Hb0) as Hm2.
  destruct (mset H (Z.of_nat pidx * width + Z.of_nat f - f0 - 1) 0) as [H1|e] eqn:E1; cbn [bind]; [|split; [reflexivity|discriminate]].
  assert (HaH1 : mall H1 X) by (apply (mset_mall _ _ _ _ _ E1); [lia|exact HaH]).
  destruct (p3_row16_eq T B width f0 bmax X cX HB H4 HX0 HcX0 ltac:(lia) ltac:(lia) fwd (Nat.eqb pidx (M - 1))
              (Z.of_nat pidx * width) pchar (Z.to_nat (lastIdx + 1 - Z.of_nat f)) H1 C (Z.of_nat f) false ms mp
              ltac:(lia) ltac:(lia)
              ltac:(eapply mall_mono; [|exact HaH1]; unfold scoreMatch; lia) (mall_below _ _ _ HaH1)
              ltac:(eapply mall_mono; [|exact HaC]; lia) (mall_below _ _ _ HaC)
              ltac:(unfold scoreMatch; lia)) as [Er Hr].
  rewrite Er.
  destruct (p3_row fwd (Nat.eqb pidx (M - 1)) T B H1 C (Z.of_nat pidx * width) width f0 pchar
              (Z.to_nat (lastIdx + 1 - Z.of_nat f)) (Z.of_nat f) false ms mp) as [[[[H2 C2] ms2] mp2]|e];
    cbn [bind]; [|split; [reflexivity|discriminate]].
  destruct (Hr H2 C2 ms2 mp2 eq_refl) as (R1 & R2 & R3).
  rewrite <- EX' in R1, R3. rewrite <- EcX' in R2.
  replace (pidx - 1 + S (length Fsub))%nat with (S pidx - 1 + length Fsub)%nat by lia.
  replace pidx with (S pidx - 1)%nat in R1, R2, R3 at 1 by lia.
  apply IH; try assumption; try lia.
  replace (S pidx - 1 + length Fsub)%nat with (pidx - 1 + S (length Fsub))%nat by lia. exact Hg.
Qed.

(* ---------- the whole function ---------- *)

Theorem fuzzy_v2_16_eq_proof : forall bmax cs nm fwd ib text pat wp cap,
  0 <= s_bw sc <= bmax -> 0 <= s_bd sc <= bmax -> 8 <= bmax ->
  16 * Z.of_nat (length pat) + bmax * (Z.of_nat (length pat) + 1) <= 32767 ->
  fuzzy_v2_16 cs nm fwd ib text pat wp cap = fuzzy_v2 co sc cs nm fwd ib text pat wp cap.
Proof.
  intros bmax cs nm fwd ib text pat wp cap Hw Hd H8 Hg.
  unfold fuzzy_v2_16, fuzzy_v2. cbv zeta.
  destruct pat as [|p0 pat']; [reflexivity|]. set (pat := p0 :: pat') in *.
  set (M := length pat) in *.
  assert (HM1 : (1 <= M)%nat) by (unfold M, pat; cbn [length]; lia).
  destruct (Nat.ltb (length text) M); [reflexivity|].
  destruct (match cap with Some c => c <? Z.of_nat (length text) * Z.of_nat M | None => false end); [reflexivity|].
  destruct (ascii_fuzzy_index ib text pat cs) as [[[lo hi]|]|e]; cbn [bind]; [|reflexivity|reflexivity].
  destruct (Nat.ltb hi lo || Nat.ltb (length text) hi); [reflexivity|].
  set (w := firstn (hi - lo) (skipn lo text)).
  assert (Hg0 : scoreMatch + 2 * bmax <= 32767) by (unfold scoreMatch; nia).
  rewrite (phase2_16_eq bmax cs nm fwd (Nat.eqb M 1) p0 (last pat 0) Hw Hd H8 Hg0 w O pat 0 (s_init sc) false
             (mkP2 [] [] [] [] [] O O 0 O) ltac:(unfold scoreMatch; lia)).
  set (st := phase2 co sc cs nm fwd (Nat.eqb M 1) w 0 p0 pat (last pat 0) 0 (s_init sc) false (mkP2 [] [] [] [] [] O O 0 O)).
  destruct (Nat.eqb (p2_pidx st) M) eqn:Ep; cbn [negb]; [|reflexivity].
  apply Nat.eqb_eq in Ep.
  destruct (Nat.eqb M 1) eqn:EM; [reflexivity|].
  apply Nat.eqb_neq in EM. assert (HM2 : (2 <= M)%nat) by lia.
  pose proof (phase2_ok_proof co sc cs nm fwd w pat p0 pat' HM2 eq_refl Ep) as Hok. fold st in Hok.
  pose proof (after_ctx co sc cs nm w pat st ltac:(lia) ltac:(lia) Hok HM2) as Hctx.
  destruct (no_overflow_gen_proof co sc bmax cs nm fwd false w p0 pat (last pat 0) Hw Hd H8) as (HH & HB & Hmax).
  destruct (v2_phase2_values_bounded_proof co sc bmax cs nm fwd false w p0 pat (last pat 0) Hw Hd H8) as (_ & HC).
  fold st in HH, HB, HC, Hmax.
  change (rev (p2_T st)) with (p2T st). change (rev (p2_B st)) with (p2B st).
  change (rev (p2_H0 st)) with (p2H0 st). change (rev (p2_C0 st)) with (p2C0 st).
  change (rev (p2_F st)) with (p2F st).
  destruct (get (p2F st) 0) as [f0n|e] eqn:Ef0; cbn [bind]; [|reflexivity].
  destruct (get_ok_nth _ _ _ O Ef0) as [Ef _]. fold (nn (p2F st) O) in Ef. subst f0n.
  destruct (Z.of_nat (p2_lastIdx st) - Z.of_nat (nn (p2F st) 0) + 1 <=? 0); [reflexivity|].
  destruct (Nat.ltb (length (p2H0 st)) (Z.to_nat (Z.of_nat (p2_lastIdx st) + 1))); [reflexivity|].
  set (f0 := Z.of_nat (nn (p2F st) 0)) in *. set (lastIdx := Z.of_nat (p2_lastIdx st)) in *.
  set (width := lastIdx - f0 + 1) in *.
  match goal with |- (do H <- ?a; _) = _ => destruct a as [H|e] eqn:EH end; cbn [bind]; [|reflexivity].
  match goal with |- (do C <- ?a; _) = _ => destruct a as [C|e] eqn:EC end; cbn [bind]; [|reflexivity].
  assert (Hb0 : 0 <= bmax) by lia.
  assert (HaH : mall H (hb bmax (1 - 1))).
  { apply (put_row_mall _ _ _ _ _ EH); [|apply mall_blank].
    apply Forall_firstn', Forall_skipn'. cbn [Nat.sub]. rewrite hb_0. exact HH. }
  assert (HaC : mall C (cb (1 - 1))).
  { apply (put_row_mall _ _ _ _ _ EC); [|apply mall_blank].
    apply Forall_firstn', Forall_skipn'. exact HC. }
  pose proof (ok_lenF _ _ _ _ _ _ _ Hok) as HlenF. fold M in HlenF.
  assert (HF : Forall (fun f => f0 <= Z.of_nat f <= lastIdx + 1) (tl (p2F st))).
  { apply Forall_forall. intros f Hf. apply (In_nth _ _ O) in Hf as (k & Hk & Ek).
    assert (Hlt : length (tl (p2F st)) = (M - 1)%nat) by (destruct (p2F st); cbn [tl length] in *; lia).
    assert (Ef : f = nn (p2F st) (S k)).
    { rewrite <- Ek. unfold nn. destruct (p2F st); [cbn in HlenF; lia|reflexivity]. }
    pose proof (F_ge_f0 _ _ _ _ _ _ _ _ Hctx (S k) ltac:(fold M; lia)) as A1.
    pose proof (F_le_last _ _ _ _ _ _ _ _ Hctx (S k) ltac:(fold M; lia)) as A2.
    rewrite Ef. fold f0 in A1. fold lastIdx in A2. lia. }
  assert (Hlt : length (tl (p2F st)) = (M - 1)%nat) by (destruct (p2F st); cbn [tl length] in *; lia).
  assert (Hgg : hb bmax (1 - 1 + length (tl (p2F st))) <= 32767).
  { rewrite Hlt. replace (1 - 1 + (M - 1))%nat with (M - 1)%nat by lia. rewrite hb_last by lia. exact Hg. }
  destruct (p3_rows16_eq fwd (p2T st) (p2B st) width f0 lastIdx M bmax HB ltac:(lia) eq_refl
              (tl (p2F st)) (tl pat) 1%nat H C (p2_maxScore st) (Z.of_nat (p2_maxPos st)) ltac:(lia) HF Hgg HaH HaC
              ltac:(cbn [Nat.sub]; rewrite hb_0; exact Hmax)) as [E _].
  rewrite E. reflexivity.
Qed.

(* with a slab of at most 102400 int16 cells (the size fzf allocates) no guard is needed: a pattern too long
   for the guard is either longer than the text or sent to FuzzyMatchV1 by the code's own N*M > cap test *)
Theorem fuzzy_v2_16_eq_with_slab_proof : forall cs nm fwd ib text pat wp c,
  0 <= s_bw sc <= 10 -> 0 <= s_bd sc <= 10 -> c <= slab16 ->
  fuzzy_v2_16 cs nm fwd ib text pat wp (Some c) = fuzzy_v2 co sc cs nm fwd ib text pat wp (Some c).
Proof.
  intros cs nm fwd ib text pat wp c Hw Hd Hc.
  destruct (Z_le_gt_dec (16 * Z.of_nat (length pat) + 10 * (Z.of_nat (length pat) + 1)) 32767) as [Hg|Hg].
  { exact (fuzzy_v2_16_eq_proof 10 cs nm fwd ib text pat wp (Some c) Hw Hd ltac:(lia) Hg). }
  unfold fuzzy_v2_16, fuzzy_v2. cbv zeta.
  destruct pat as [|p0 pat']; [reflexivity|]. set (pat := p0 :: pat') in *.
  destruct (Nat.ltb_spec (length text) (length pat)) as [Hlt|Hge]; [reflexivity|].
  assert (Efb : (c <? Z.of_nat (length text) * Z.of_nat (length pat)) = true).
  { apply Z.ltb_lt. unfold slab16 in Hc. nia. }
  rewrite Efb. reflexivity.
Qed.

End Model16.

Print Assumptions fuzzy_v2_16_eq_proof.
Print Assumptions fuzzy_v2_16_eq_with_slab_proof.

(* non-vacuity: the wrapped model computes, and wrapping is not the identity *)
Example fuzzy_v2_16_ex :
  fuzzy_v2_16 co_i16 scheme_default false true true true [102;111;111;45;66;97;114;32;98;97;122] [111;98;97] true None
    = Ok (Match 2 6 61 (Some [5%nat; 4%nat; 2%nat])) /\
  w16 32770 = -32766 /\ w16 (-3) = -3.
Proof. vm_compute. repeat split; reflexivity. Qed.
